
(** val xorb : bool -> bool -> bool **)

let xorb b1 b2 =
  if b1 then if b2 then false else true else b2

(** val negb : bool -> bool **)

let negb = function
| true -> false
| false -> true

type nat =
| O
| S of nat

(** val fst : ('a1 * 'a2) -> 'a1 **)

let fst = function
| (x, _) -> x

(** val snd : ('a1 * 'a2) -> 'a2 **)

let snd = function
| (_, y) -> y

(** val length : 'a1 list -> nat **)

let rec length = function
| [] -> O
| _ :: l' -> S (length l')

(** val app : 'a1 list -> 'a1 list -> 'a1 list **)

let rec app l m =
  match l with
  | [] -> m
  | a :: l1 -> a :: (app l1 m)

type comparison =
| Eq
| Lt
| Gt

module Coq__1 = struct
 (** val add : nat -> nat -> nat **)
 let rec add n0 m =
   match n0 with
   | O -> m
   | S p -> S (add p m)
end
include Coq__1

(** val mul : nat -> nat -> nat **)

let rec mul n0 m =
  match n0 with
  | O -> O
  | S p -> add m (mul p m)

(** val sub : nat -> nat -> nat **)

let rec sub n0 m =
  match n0 with
  | O -> n0
  | S k -> (match m with
            | O -> n0
            | S l -> sub k l)

(** val eqb : nat -> nat -> bool **)

let rec eqb n0 m =
  match n0 with
  | O -> (match m with
          | O -> true
          | S _ -> false)
  | S n' -> (match m with
             | O -> false
             | S m' -> eqb n' m')

(** val leb : nat -> nat -> bool **)

let rec leb n0 m =
  match n0 with
  | O -> true
  | S n' -> (match m with
             | O -> false
             | S m' -> leb n' m')

(** val ltb : nat -> nat -> bool **)

let ltb n0 m =
  leb (S n0) m

(** val divmod : nat -> nat -> nat -> nat -> nat * nat **)

let rec divmod x y q u =
  match x with
  | O -> (q, u)
  | S x' -> (match u with
             | O -> divmod x' y (S q) y
             | S u' -> divmod x' y q u')

(** val modulo : nat -> nat -> nat **)

let modulo x = function
| O -> x
| S y' -> sub y' (snd (divmod x y' O y'))

type positive =
| XI of positive
| XO of positive
| XH

type n =
| N0
| Npos of positive

(** val eqb0 : bool -> bool -> bool **)

let eqb0 b1 b2 =
  if b1 then b2 else if b2 then false else true

module Nat =
 struct
  (** val sub : nat -> nat -> nat **)

  let rec sub n0 m =
    match n0 with
    | O -> n0
    | S k -> (match m with
              | O -> n0
              | S l -> sub k l)

  (** val eqb : nat -> nat -> bool **)

  let rec eqb n0 m =
    match n0 with
    | O -> (match m with
            | O -> true
            | S _ -> false)
    | S n' -> (match m with
               | O -> false
               | S m' -> eqb n' m')

  (** val leb : nat -> nat -> bool **)

  let rec leb n0 m =
    match n0 with
    | O -> true
    | S n' -> (match m with
               | O -> false
               | S m' -> leb n' m')

  (** val ltb : nat -> nat -> bool **)

  let ltb n0 m =
    leb (S n0) m

  (** val min : nat -> nat -> nat **)

  let rec min n0 m =
    match n0 with
    | O -> O
    | S n' -> (match m with
               | O -> O
               | S m' -> S (min n' m'))

  (** val divmod : nat -> nat -> nat -> nat -> nat * nat **)

  let rec divmod x y q u =
    match x with
    | O -> (q, u)
    | S x' ->
      (match u with
       | O -> divmod x' y (S q) y
       | S u' -> divmod x' y q u')

  (** val div : nat -> nat -> nat **)

  let div x y = match y with
  | O -> y
  | S y' -> fst (divmod x y' O y')

  (** val modulo : nat -> nat -> nat **)

  let modulo x = function
  | O -> x
  | S y' -> sub y' (snd (divmod x y' O y'))
 end

module Pos =
 struct
  type mask =
  | IsNul
  | IsPos of positive
  | IsNeg
 end

module Coq_Pos =
 struct
  (** val succ : positive -> positive **)

  let rec succ = function
  | XI p -> XO (succ p)
  | XO p -> XI p
  | XH -> XO XH

  (** val add : positive -> positive -> positive **)

  let rec add x y =
    match x with
    | XI p ->
      (match y with
       | XI q -> XO (add_carry p q)
       | XO q -> XI (add p q)
       | XH -> XO (succ p))
    | XO p ->
      (match y with
       | XI q -> XI (add p q)
       | XO q -> XO (add p q)
       | XH -> XI p)
    | XH -> (match y with
             | XI q -> XO (succ q)
             | XO q -> XI q
             | XH -> XO XH)

  (** val add_carry : positive -> positive -> positive **)

  and add_carry x y =
    match x with
    | XI p ->
      (match y with
       | XI q -> XI (add_carry p q)
       | XO q -> XO (add_carry p q)
       | XH -> XI (succ p))
    | XO p ->
      (match y with
       | XI q -> XO (add_carry p q)
       | XO q -> XI (add p q)
       | XH -> XO (succ p))
    | XH ->
      (match y with
       | XI q -> XI (succ q)
       | XO q -> XO (succ q)
       | XH -> XI XH)

  (** val pred_double : positive -> positive **)

  let rec pred_double = function
  | XI p -> XI (XO p)
  | XO p -> XI (pred_double p)
  | XH -> XH

  (** val pred_N : positive -> n **)

  let pred_N = function
  | XI p -> Npos (XO p)
  | XO p -> Npos (pred_double p)
  | XH -> N0

  type mask = Pos.mask =
  | IsNul
  | IsPos of positive
  | IsNeg

  (** val succ_double_mask : mask -> mask **)

  let succ_double_mask = function
  | IsNul -> IsPos XH
  | IsPos p -> IsPos (XI p)
  | IsNeg -> IsNeg

  (** val double_mask : mask -> mask **)

  let double_mask = function
  | IsPos p -> IsPos (XO p)
  | x0 -> x0

  (** val double_pred_mask : positive -> mask **)

  let double_pred_mask = function
  | XI p -> IsPos (XO (XO p))
  | XO p -> IsPos (XO (pred_double p))
  | XH -> IsNul

  (** val sub_mask : positive -> positive -> mask **)

  let rec sub_mask x y =
    match x with
    | XI p ->
      (match y with
       | XI q -> double_mask (sub_mask p q)
       | XO q -> succ_double_mask (sub_mask p q)
       | XH -> IsPos (XO p))
    | XO p ->
      (match y with
       | XI q -> succ_double_mask (sub_mask_carry p q)
       | XO q -> double_mask (sub_mask p q)
       | XH -> IsPos (pred_double p))
    | XH -> (match y with
             | XH -> IsNul
             | _ -> IsNeg)

  (** val sub_mask_carry : positive -> positive -> mask **)

  and sub_mask_carry x y =
    match x with
    | XI p ->
      (match y with
       | XI q -> succ_double_mask (sub_mask_carry p q)
       | XO q -> double_mask (sub_mask p q)
       | XH -> IsPos (pred_double p))
    | XO p ->
      (match y with
       | XI q -> double_mask (sub_mask_carry p q)
       | XO q -> succ_double_mask (sub_mask_carry p q)
       | XH -> double_pred_mask p)
    | XH -> IsNeg

  (** val mul : positive -> positive -> positive **)

  let rec mul x y =
    match x with
    | XI p -> add y (XO (mul p y))
    | XO p -> XO (mul p y)
    | XH -> y

  (** val iter : ('a1 -> 'a1) -> 'a1 -> positive -> 'a1 **)

  let rec iter f x = function
  | XI n' -> f (iter f (iter f x n') n')
  | XO n' -> iter f (iter f x n') n'
  | XH -> f x

  (** val pow : positive -> positive -> positive **)

  let pow x =
    iter (mul x) XH

  (** val compare_cont : comparison -> positive -> positive -> comparison **)

  let rec compare_cont r x y =
    match x with
    | XI p ->
      (match y with
       | XI q -> compare_cont r p q
       | XO q -> compare_cont Gt p q
       | XH -> Gt)
    | XO p ->
      (match y with
       | XI q -> compare_cont Lt p q
       | XO q -> compare_cont r p q
       | XH -> Gt)
    | XH -> (match y with
             | XH -> r
             | _ -> Lt)

  (** val compare : positive -> positive -> comparison **)

  let compare =
    compare_cont Eq

  (** val eqb : positive -> positive -> bool **)

  let rec eqb p q =
    match p with
    | XI p0 -> (match q with
                | XI q0 -> eqb p0 q0
                | _ -> false)
    | XO p0 -> (match q with
                | XO q0 -> eqb p0 q0
                | _ -> false)
    | XH -> (match q with
             | XH -> true
             | _ -> false)

  (** val leb : positive -> positive -> bool **)

  let leb x y =
    match compare x y with
    | Gt -> false
    | _ -> true

  (** val sqrtrem_step :
      (positive -> positive) -> (positive -> positive) -> (positive * mask)
      -> positive * mask **)

  let sqrtrem_step f g = function
  | (s, y) ->
    (match y with
     | IsPos r ->
       let s' = XI (XO s) in
       let r' = g (f r) in
       if leb s' r' then ((XI s), (sub_mask r' s')) else ((XO s), (IsPos r'))
     | _ -> ((XO s), (sub_mask (g (f XH)) (XO (XO XH)))))

  (** val sqrtrem : positive -> positive * mask **)

  let rec sqrtrem = function
  | XI p0 ->
    (match p0 with
     | XI p1 -> sqrtrem_step (fun x -> XI x) (fun x -> XI x) (sqrtrem p1)
     | XO p1 -> sqrtrem_step (fun x -> XO x) (fun x -> XI x) (sqrtrem p1)
     | XH -> (XH, (IsPos (XO XH))))
  | XO p0 ->
    (match p0 with
     | XI p1 -> sqrtrem_step (fun x -> XI x) (fun x -> XO x) (sqrtrem p1)
     | XO p1 -> sqrtrem_step (fun x -> XO x) (fun x -> XO x) (sqrtrem p1)
     | XH -> (XH, (IsPos XH)))
  | XH -> (XH, IsNul)

  (** val sqrt : positive -> positive **)

  let sqrt p =
    fst (sqrtrem p)

  (** val coq_Nsucc_double : n -> n **)

  let coq_Nsucc_double = function
  | N0 -> Npos XH
  | Npos p -> Npos (XI p)

  (** val coq_Ndouble : n -> n **)

  let coq_Ndouble = function
  | N0 -> N0
  | Npos p -> Npos (XO p)

  (** val coq_lor : positive -> positive -> positive **)

  let rec coq_lor p q =
    match p with
    | XI p0 ->
      (match q with
       | XI q0 -> XI (coq_lor p0 q0)
       | XO q0 -> XI (coq_lor p0 q0)
       | XH -> p)
    | XO p0 ->
      (match q with
       | XI q0 -> XI (coq_lor p0 q0)
       | XO q0 -> XO (coq_lor p0 q0)
       | XH -> XI p0)
    | XH -> (match q with
             | XO q0 -> XI q0
             | _ -> q)

  (** val coq_land : positive -> positive -> n **)

  let rec coq_land p q =
    match p with
    | XI p0 ->
      (match q with
       | XI q0 -> coq_Nsucc_double (coq_land p0 q0)
       | XO q0 -> coq_Ndouble (coq_land p0 q0)
       | XH -> Npos XH)
    | XO p0 ->
      (match q with
       | XI q0 -> coq_Ndouble (coq_land p0 q0)
       | XO q0 -> coq_Ndouble (coq_land p0 q0)
       | XH -> N0)
    | XH -> (match q with
             | XO _ -> N0
             | _ -> Npos XH)

  (** val ldiff : positive -> positive -> n **)

  let rec ldiff p q =
    match p with
    | XI p0 ->
      (match q with
       | XI q0 -> coq_Ndouble (ldiff p0 q0)
       | XO q0 -> coq_Nsucc_double (ldiff p0 q0)
       | XH -> Npos (XO p0))
    | XO p0 ->
      (match q with
       | XI q0 -> coq_Ndouble (ldiff p0 q0)
       | XO q0 -> coq_Ndouble (ldiff p0 q0)
       | XH -> Npos p)
    | XH -> (match q with
             | XO _ -> Npos XH
             | _ -> N0)

  (** val coq_lxor : positive -> positive -> n **)

  let rec coq_lxor p q =
    match p with
    | XI p0 ->
      (match q with
       | XI q0 -> coq_Ndouble (coq_lxor p0 q0)
       | XO q0 -> coq_Nsucc_double (coq_lxor p0 q0)
       | XH -> Npos (XO p0))
    | XO p0 ->
      (match q with
       | XI q0 -> coq_Nsucc_double (coq_lxor p0 q0)
       | XO q0 -> coq_Ndouble (coq_lxor p0 q0)
       | XH -> Npos (XI p0))
    | XH ->
      (match q with
       | XI q0 -> Npos (XO q0)
       | XO q0 -> Npos (XI q0)
       | XH -> N0)

  (** val shiftl : positive -> n -> positive **)

  let shiftl p = function
  | N0 -> p
  | Npos n1 -> iter (fun x -> XO x) p n1

  (** val testbit : positive -> n -> bool **)

  let rec testbit p n0 =
    match p with
    | XI p0 -> (match n0 with
                | N0 -> true
                | Npos n1 -> testbit p0 (pred_N n1))
    | XO p0 -> (match n0 with
                | N0 -> false
                | Npos n1 -> testbit p0 (pred_N n1))
    | XH -> (match n0 with
             | N0 -> true
             | Npos _ -> false)

  (** val iter_op : ('a1 -> 'a1 -> 'a1) -> positive -> 'a1 -> 'a1 **)

  let rec iter_op op0 p a =
    match p with
    | XI p0 -> op0 a (iter_op op0 p0 (op0 a a))
    | XO p0 -> iter_op op0 p0 (op0 a a)
    | XH -> a

  (** val to_nat : positive -> nat **)

  let to_nat x =
    iter_op Coq__1.add x (S O)

  (** val of_succ_nat : nat -> positive **)

  let rec of_succ_nat = function
  | O -> XH
  | S x -> succ (of_succ_nat x)
 end

module N =
 struct
  (** val succ_double : n -> n **)

  let succ_double = function
  | N0 -> Npos XH
  | Npos p -> Npos (XI p)

  (** val double : n -> n **)

  let double = function
  | N0 -> N0
  | Npos p -> Npos (XO p)

  (** val succ : n -> n **)

  let succ = function
  | N0 -> Npos XH
  | Npos p -> Npos (Coq_Pos.succ p)

  (** val pred : n -> n **)

  let pred = function
  | N0 -> N0
  | Npos p -> Coq_Pos.pred_N p

  (** val succ_pos : n -> positive **)

  let succ_pos = function
  | N0 -> XH
  | Npos p -> Coq_Pos.succ p

  (** val add : n -> n -> n **)

  let add n0 m =
    match n0 with
    | N0 -> m
    | Npos p -> (match m with
                 | N0 -> n0
                 | Npos q -> Npos (Coq_Pos.add p q))

  (** val sub : n -> n -> n **)

  let sub n0 m =
    match n0 with
    | N0 -> N0
    | Npos n' ->
      (match m with
       | N0 -> n0
       | Npos m' ->
         (match Coq_Pos.sub_mask n' m' with
          | Coq_Pos.IsPos p -> Npos p
          | _ -> N0))

  (** val mul : n -> n -> n **)

  let mul n0 m =
    match n0 with
    | N0 -> N0
    | Npos p -> (match m with
                 | N0 -> N0
                 | Npos q -> Npos (Coq_Pos.mul p q))

  (** val compare : n -> n -> comparison **)

  let compare n0 m =
    match n0 with
    | N0 -> (match m with
             | N0 -> Eq
             | Npos _ -> Lt)
    | Npos n' -> (match m with
                  | N0 -> Gt
                  | Npos m' -> Coq_Pos.compare n' m')

  (** val eqb : n -> n -> bool **)

  let eqb n0 m =
    match n0 with
    | N0 -> (match m with
             | N0 -> true
             | Npos _ -> false)
    | Npos p -> (match m with
                 | N0 -> false
                 | Npos q -> Coq_Pos.eqb p q)

  (** val leb : n -> n -> bool **)

  let leb x y =
    match compare x y with
    | Gt -> false
    | _ -> true

  (** val ltb : n -> n -> bool **)

  let ltb x y =
    match compare x y with
    | Lt -> true
    | _ -> false

  (** val min : n -> n -> n **)

  let min n0 n' =
    match compare n0 n' with
    | Gt -> n'
    | _ -> n0

  (** val max : n -> n -> n **)

  let max n0 n' =
    match compare n0 n' with
    | Gt -> n0
    | _ -> n'

  (** val div2 : n -> n **)

  let div2 = function
  | N0 -> N0
  | Npos p0 -> (match p0 with
                | XI p -> Npos p
                | XO p -> Npos p
                | XH -> N0)

  (** val pow : n -> n -> n **)

  let pow n0 = function
  | N0 -> Npos XH
  | Npos p0 -> (match n0 with
                | N0 -> N0
                | Npos q -> Npos (Coq_Pos.pow q p0))

  (** val pos_div_eucl : positive -> n -> n * n **)

  let rec pos_div_eucl a b =
    match a with
    | XI a' ->
      let (q, r) = pos_div_eucl a' b in
      let r' = succ_double r in
      if leb b r' then ((succ_double q), (sub r' b)) else ((double q), r')
    | XO a' ->
      let (q, r) = pos_div_eucl a' b in
      let r' = double r in
      if leb b r' then ((succ_double q), (sub r' b)) else ((double q), r')
    | XH ->
      (match b with
       | N0 -> (N0, (Npos XH))
       | Npos p -> (match p with
                    | XH -> ((Npos XH), N0)
                    | _ -> (N0, (Npos XH))))

  (** val div_eucl : n -> n -> n * n **)

  let div_eucl a b =
    match a with
    | N0 -> (N0, N0)
    | Npos na -> (match b with
                  | N0 -> (N0, a)
                  | Npos _ -> pos_div_eucl na b)

  (** val div : n -> n -> n **)

  let div a b =
    fst (div_eucl a b)

  (** val modulo : n -> n -> n **)

  let modulo a b =
    snd (div_eucl a b)

  (** val sqrt : n -> n **)

  let sqrt = function
  | N0 -> N0
  | Npos p -> Npos (Coq_Pos.sqrt p)

  (** val coq_lor : n -> n -> n **)

  let coq_lor n0 m =
    match n0 with
    | N0 -> m
    | Npos p -> (match m with
                 | N0 -> n0
                 | Npos q -> Npos (Coq_Pos.coq_lor p q))

  (** val coq_land : n -> n -> n **)

  let coq_land n0 m =
    match n0 with
    | N0 -> N0
    | Npos p -> (match m with
                 | N0 -> N0
                 | Npos q -> Coq_Pos.coq_land p q)

  (** val ldiff : n -> n -> n **)

  let ldiff n0 m =
    match n0 with
    | N0 -> N0
    | Npos p -> (match m with
                 | N0 -> n0
                 | Npos q -> Coq_Pos.ldiff p q)

  (** val coq_lxor : n -> n -> n **)

  let coq_lxor n0 m =
    match n0 with
    | N0 -> m
    | Npos p -> (match m with
                 | N0 -> n0
                 | Npos q -> Coq_Pos.coq_lxor p q)

  (** val shiftl : n -> n -> n **)

  let shiftl a n0 =
    match a with
    | N0 -> N0
    | Npos a0 -> Npos (Coq_Pos.shiftl a0 n0)

  (** val shiftr : n -> n -> n **)

  let shiftr a = function
  | N0 -> a
  | Npos p -> Coq_Pos.iter div2 a p

  (** val testbit : n -> n -> bool **)

  let testbit a n0 =
    match a with
    | N0 -> false
    | Npos p -> Coq_Pos.testbit p n0

  (** val to_nat : n -> nat **)

  let to_nat = function
  | N0 -> O
  | Npos p -> Coq_Pos.to_nat p

  (** val of_nat : nat -> n **)

  let of_nat = function
  | O -> N0
  | S n' -> Npos (Coq_Pos.of_succ_nat n')

  (** val ones : n -> n **)

  let ones n0 =
    pred (shiftl (Npos XH) n0)
 end

(** val hd : 'a1 -> 'a1 list -> 'a1 **)

let hd default = function
| [] -> default
| x :: _ -> x

(** val tl : 'a1 list -> 'a1 list **)

let tl = function
| [] -> []
| _ :: m -> m

(** val nth : nat -> 'a1 list -> 'a1 -> 'a1 **)

let rec nth n0 l default =
  match n0 with
  | O -> (match l with
          | [] -> default
          | x :: _ -> x)
  | S m -> (match l with
            | [] -> default
            | _ :: t0 -> nth m t0 default)

(** val nth_error : 'a1 list -> nat -> 'a1 option **)

let rec nth_error l = function
| O -> (match l with
        | [] -> None
        | x :: _ -> Some x)
| S n1 -> (match l with
           | [] -> None
           | _ :: l0 -> nth_error l0 n1)

(** val rev : 'a1 list -> 'a1 list **)

let rec rev = function
| [] -> []
| x :: l' -> app (rev l') (x :: [])

(** val concat : 'a1 list list -> 'a1 list **)

let rec concat = function
| [] -> []
| x :: l0 -> app x (concat l0)

(** val map : ('a1 -> 'a2) -> 'a1 list -> 'a2 list **)

let rec map f = function
| [] -> []
| a :: t0 -> (f a) :: (map f t0)

(** val flat_map : ('a1 -> 'a2 list) -> 'a1 list -> 'a2 list **)

let rec flat_map f = function
| [] -> []
| x :: t0 -> app (f x) (flat_map f t0)

(** val fold_left : ('a1 -> 'a2 -> 'a1) -> 'a2 list -> 'a1 -> 'a1 **)

let rec fold_left f l a0 =
  match l with
  | [] -> a0
  | b :: t0 -> fold_left f t0 (f a0 b)

(** val fold_right : ('a2 -> 'a1 -> 'a1) -> 'a1 -> 'a2 list -> 'a1 **)

let rec fold_right f a0 = function
| [] -> a0
| b :: t0 -> f b (fold_right f a0 t0)

(** val existsb : ('a1 -> bool) -> 'a1 list -> bool **)

let rec existsb f = function
| [] -> false
| a :: l0 -> (||) (f a) (existsb f l0)

(** val forallb : ('a1 -> bool) -> 'a1 list -> bool **)

let rec forallb f = function
| [] -> true
| a :: l0 -> (&&) (f a) (forallb f l0)

(** val filter : ('a1 -> bool) -> 'a1 list -> 'a1 list **)

let rec filter f = function
| [] -> []
| x :: l0 -> if f x then x :: (filter f l0) else filter f l0

(** val find : ('a1 -> bool) -> 'a1 list -> 'a1 option **)

let rec find f = function
| [] -> None
| x :: tl0 -> if f x then Some x else find f tl0

(** val combine : 'a1 list -> 'a2 list -> ('a1 * 'a2) list **)

let rec combine l l' =
  match l with
  | [] -> []
  | x :: tl0 ->
    (match l' with
     | [] -> []
     | y :: tl' -> (x, y) :: (combine tl0 tl'))

(** val firstn : nat -> 'a1 list -> 'a1 list **)

let rec firstn n0 l =
  match n0 with
  | O -> []
  | S n1 -> (match l with
             | [] -> []
             | a :: l0 -> a :: (firstn n1 l0))

(** val skipn : nat -> 'a1 list -> 'a1 list **)

let rec skipn n0 l =
  match n0 with
  | O -> l
  | S n1 -> (match l with
             | [] -> []
             | _ :: l0 -> skipn n1 l0)

(** val seq : nat -> nat -> nat list **)

let rec seq start = function
| O -> []
| S len0 -> start :: (seq (S start) len0)

(** val repeat : 'a1 -> nat -> 'a1 list **)

let rec repeat x = function
| O -> []
| S k -> x :: (repeat x k)

type pclass =
| PAssert
| PIndex
| POverflow
| PUnreachable
| PUnimpl
| PFuel
| PDivZero
| PUnwrap

type 'a outcome =
| Ok of 'a
| Panic of pclass

(** val obind : 'a1 outcome -> ('a1 -> 'a2 outcome) -> 'a2 outcome **)

let obind x f =
  match x with
  | Ok a -> f a
  | Panic c -> Panic c

(** val omap : ('a1 -> 'a2) -> 'a1 outcome -> 'a2 outcome **)

let omap f = function
| Ok a -> Ok (f a)
| Panic c -> Panic c

(** val assert_ok : bool -> unit outcome **)

let assert_ok = function
| true -> Ok ()
| false -> Panic PAssert

(** val nth_ok : 'a1 list -> nat -> 'a1 outcome **)

let nth_ok l i =
  match nth_error l i with
  | Some a -> Ok a
  | None -> Panic PIndex

(** val omapM : ('a1 -> 'a2 outcome) -> 'a1 list -> 'a2 list outcome **)

let rec omapM f = function
| [] -> Ok []
| a :: t0 ->
  (match f a with
   | Ok b ->
     (match omapM f t0 with
      | Ok bs -> Ok (b :: bs)
      | Panic c -> Panic c)
   | Panic c -> Panic c)

type mode =
| Release
| Checked

(** val wrap : n -> n -> n **)

let wrap w x =
  N.modulo x (N.pow (Npos (XO XH)) w)

(** val u8 : n -> n **)

let u8 =
  wrap (Npos (XO (XO (XO XH))))

(** val u16 : n -> n **)

let u16 =
  wrap (Npos (XO (XO (XO (XO XH)))))

(** val u32 : n -> n **)

let u32 =
  wrap (Npos (XO (XO (XO (XO (XO XH))))))

(** val add_w : mode -> n -> n -> n -> n outcome **)

let add_w m w a b =
  let s = N.add a b in
  if N.ltb s (N.pow (Npos (XO XH)) w)
  then Ok s
  else (match m with
        | Release -> Ok (N.modulo s (N.pow (Npos (XO XH)) w))
        | Checked -> Panic POverflow)

(** val mul_w : mode -> n -> n -> n -> n outcome **)

let mul_w m w a b =
  let s = N.mul a b in
  if N.ltb s (N.pow (Npos (XO XH)) w)
  then Ok s
  else (match m with
        | Release -> Ok (N.modulo s (N.pow (Npos (XO XH)) w))
        | Checked -> Panic POverflow)

(** val sub_w : mode -> n -> n -> n -> n outcome **)

let sub_w m w a b =
  if N.leb b a
  then Ok (N.sub a b)
  else (match m with
        | Release ->
          Ok
            (N.modulo (N.sub (N.add (N.pow (Npos (XO XH)) w) a) b)
              (N.pow (Npos (XO XH)) w))
        | Checked -> Panic POverflow)

(** val div_ok : n -> n -> n outcome **)

let div_ok a b =
  if N.eqb b N0 then Panic PDivZero else Ok (N.div a b)

(** val rem_ok : n -> n -> n outcome **)

let rem_ok a b =
  if N.eqb b N0 then Panic PDivZero else Ok (N.modulo a b)

(** val ceil_div : n -> n -> n **)

let ceil_div a b =
  if N.eqb (N.modulo a b) N0 then N.div a b else N.add (N.div a b) (Npos XH)

(** val rangeN : nat -> n list **)

let rangeN n0 =
  map N.of_nat (seq O n0)

(** val xsum : n list -> n **)

let rec xsum = function
| [] -> N0
| x :: t0 -> N.coq_lxor x (xsum t0)

(** val mAX_SOURCE_SYMBOLS_PER_BLOCK : n **)

let mAX_SOURCE_SYMBOLS_PER_BLOCK =
  Npos (XI (XI (XO (XO (XI (XO (XI (XO (XO (XO (XI (XI (XI (XO (XI
    XH)))))))))))))))

(** val pLAN_CACHE_CAPACITY : n **)

let pLAN_CACHE_CAPACITY =
  Npos (XO (XO (XO (XO (XO (XO XH))))))

(** val mAX_TRANSFER_LENGTH : n **)

let mAX_TRANSFER_LENGTH =
  Npos (XI (XI (XO (XO (XI (XO (XI (XO (XI (XO (XO (XI (XO (XO (XO (XI (XI
    (XO (XO (XO (XI (XO (XI (XI (XI (XO (XI (XO (XI (XI (XI (XO (XI (XI (XO
    (XI (XI (XO (XI XH)))))))))))))))))))))))))))))))))))))))

(** val eSI_LIMIT : n **)

let eSI_LIMIT =
  Npos (XO (XO (XO (XO (XO (XO (XO (XO (XO (XO (XO (XO (XO (XO (XO (XO (XO
    (XO (XO (XO (XO (XO (XO (XO XH))))))))))))))))))))))))

(** val tUPLE_A_BASE : n **)

let tUPLE_A_BASE =
  Npos (XI (XI (XI (XO (XI (XO (XI (XO (XI (XO (XO (XO (XI (XO (XI
    XH)))))))))))))))

(** val tUPLE_A_MUL : n **)

let tUPLE_A_MUL =
  Npos (XI (XO (XI (XO (XO (XI (XI (XI (XI XH)))))))))

(** val tUPLE_B_MUL : n **)

let tUPLE_B_MUL =
  Npos (XI (XI (XO (XI (XI (XO (XO (XO (XO (XO (XO (XI (XO XH)))))))))))))

(** val tUPLE_Y_MOD : n **)

let tUPLE_Y_MOD =
  Npos (XO (XO (XO (XO (XO (XO (XO (XO (XO (XO (XO (XO (XO (XO (XO (XO (XO
    (XO (XO (XO (XO (XO (XO (XO (XO (XO (XO (XO (XO (XO (XO (XO
    XH))))))))))))))))))))))))))))))))

(** val tUPLE_V_RANGE : n **)

let tUPLE_V_RANGE =
  Npos (XO (XO (XO (XO (XO (XO (XO (XO (XO (XO (XO (XO (XO (XO (XO (XO (XO
    (XO (XO (XO XH))))))))))))))))))))

(** val dEG_V_LIMIT : n **)

let dEG_V_LIMIT =
  Npos (XO (XO (XO (XO (XO (XO (XO (XO (XO (XO (XO (XO (XO (XO (XO (XO (XO
    (XO (XO (XO XH))))))))))))))))))))

(** val dEFAULT_MEMORY : n **)

let dEFAULT_MEMORY =
  Npos (XO (XO (XO (XO (XO (XO (XO (XO (XO (XO (XO (XO (XO (XO (XO (XO (XO
    (XO (XO (XO (XO (XI (XO XH)))))))))))))))))))))))

(** val dEG_F : n list **)

let dEG_F =
  N0 :: ((Npos (XI (XI (XO (XI (XI (XI (XI (XO (XO (XO (XI (XO
    XH))))))))))))) :: ((Npos (XI (XI (XO (XI (XI (XI (XI (XO (XO (XO (XI (XO
    (XI (XO (XO (XO (XO (XO (XO XH)))))))))))))))))))) :: ((Npos (XO (XI (XI
    (XO (XO (XI (XO (XO (XI (XI (XI (XI (XI (XI (XO (XI (XO (XI (XO
    XH)))))))))))))))))))) :: ((Npos (XI (XI (XO (XI (XI (XI (XI (XO (XO (XO
    (XI (XO (XI (XO (XO (XO (XO (XO (XI XH)))))))))))))))))))) :: ((Npos (XO
    (XO (XO (XI (XO (XO (XI (XO (XI (XO (XO (XO (XO (XI (XI (XI (XO (XO (XI
    XH)))))))))))))))))))) :: ((Npos (XI (XO (XO (XO (XI (XO (XI (XI (XI (XO
    (XO (XI (XO (XI (XI (XO (XI (XO (XI XH)))))))))))))))))))) :: ((Npos (XI
    (XI (XI (XO (XI (XO (XI (XO (XI (XI (XO (XI (XO (XO (XI (XI (XI (XO (XI
    XH)))))))))))))))))))) :: ((Npos (XI (XI (XO (XI (XI (XI (XI (XO (XO (XO
    (XI (XO (XI (XO (XO (XO (XO (XI (XI XH)))))))))))))))))))) :: ((Npos (XI
    (XI (XI (XI (XI (XO (XI (XO (XI (XO (XI (XI (XO (XO (XI (XO (XO (XI (XI
    XH)))))))))))))))))))) :: ((Npos (XO (XI (XO (XO (XO (XI (XI (XI (XO (XI
    (XO (XI (XI (XI (XI (XO (XO (XI (XI XH)))))))))))))))))))) :: ((Npos (XO
    (XI (XI (XI (XI (XO (XO (XO (XO (XO (XO (XO (XO (XI (XO (XI (XO (XI (XI
    XH)))))))))))))))))))) :: ((Npos (XO (XI (XI (XO (XO (XI (XO (XO (XI (XI
    (XI (XI (XI (XI (XO (XI (XO (XI (XI XH)))))))))))))))))))) :: ((Npos (XO
    (XO (XO (XI (XO (XI (XI (XO (XI (XO (XO (XI (XI (XO (XI (XI (XO (XI (XI
    XH)))))))))))))))))))) :: ((Npos (XI (XO (XO (XI (XO (XI (XI (XI (XI (XI
    (XI (XI (XO (XI (XI (XI (XO (XI (XI XH)))))))))))))))))))) :: ((Npos (XO
    (XI (XO (XI (XO (XI (XI (XO (XI (XI (XO (XO (XO (XO (XO (XO (XI (XI (XI
    XH)))))))))))))))))))) :: ((Npos (XI (XI (XO (XI (XI (XI (XI (XO (XO (XO
    (XI (XO (XI (XO (XO (XO (XI (XI (XI XH)))))))))))))))))))) :: ((Npos (XO
    (XI (XO (XI (XO (XO (XO (XI (XI (XI (XO (XO (XO (XI (XO (XO (XI (XI (XI
    XH)))))))))))))))))))) :: ((Npos (XI (XO (XI (XI (XO (XI (XI (XI (XO (XO
    (XO (XO (XI (XI (XO (XO (XI (XI (XI XH)))))))))))))))))))) :: ((Npos (XI
    (XI (XI (XO (XO (XI (XI (XI (XO (XO (XI (XI (XI (XI (XO (XO (XI (XI (XI
    XH)))))))))))))))))))) :: ((Npos (XI (XI (XI (XI (XO (XI (XO (XI (XI (XI
    (XI (XO (XO (XO (XI (XO (XI (XI (XI XH)))))))))))))))))))) :: ((Npos (XI
    (XI (XI (XI (XO (XI (XI (XO (XI (XO (XO (XO (XI (XO (XI (XO (XI (XI (XI
    XH)))))))))))))))))))) :: ((Npos (XI (XO (XI (XI (XO (XO (XI (XO (XO (XI
    (XO (XI (XI (XO (XI (XO (XI (XI (XI XH)))))))))))))))))))) :: ((Npos (XI
    (XO (XI (XO (XO (XI (XI (XO (XO (XI (XO (XO (XO (XI (XI (XO (XI (XI (XI
    XH)))))))))))))))))))) :: ((Npos (XI (XO (XO (XO (XI (XO (XI (XI (XI (XO
    (XO (XI (XO (XI (XI (XO (XI (XI (XI XH)))))))))))))))))))) :: ((Npos (XO
    (XO (XI (XO (XO (XI (XO (XI (XO (XO (XO (XO (XI (XI (XI (XO (XI (XI (XI
    XH)))))))))))))))))))) :: ((Npos (XO (XI (XO (XO (XI (XI (XI (XI (XO (XI
    (XI (XO (XI (XI (XI (XO (XI (XI (XI XH)))))))))))))))))))) :: ((Npos (XI
    (XI (XI (XO (XO (XO (XI (XI (XO (XO (XI (XI (XI (XI (XI (XO (XI (XI (XI
    XH)))))))))))))))))))) :: ((Npos (XO (XI (XO (XO (XI (XI (XO (XO (XO (XI
    (XO (XO (XO (XO (XO (XI (XI (XI (XI XH)))))))))))))))))))) :: ((Npos (XO
    (XI (XI (XI (XI (XI (XO (XO (XI (XI (XI (XO (XO (XO (XO (XI (XI (XI (XI
    XH)))))))))))))))))))) :: ((Npos (XO (XO (XO (XO (XO (XO (XO (XO (XO (XO
    (XO (XO (XO (XO (XO (XO (XO (XO (XO (XO
    XH))))))))))))))))))))) :: []))))))))))))))))))))))))))))))

(** val pOLY : n **)

let pOLY =
  Npos (XI (XO (XI (XI (XI (XO (XO (XO XH))))))))

(** val padd : n -> n -> n **)

let padd =
  N.coq_lxor

(** val xtime : n -> n **)

let xtime a =
  let s = N.mul (Npos (XO XH)) a in
  if N.leb (Npos (XO (XO (XO (XO (XO (XO (XO (XO XH))))))))) s
  then N.coq_lxor s pOLY
  else s

(** val xtimes : n -> nat -> n **)

let rec xtimes a = function
| O -> a
| S j -> xtime (xtimes a j)

(** val sel : bool -> n -> n **)

let sel b m =
  if b then m else N0

(** val pmul : n -> n -> n **)

let pmul a b =
  xsum
    (map (fun i -> sel (N.testbit b (N.of_nat i)) (xtimes a i))
      (seq O (S (S (S (S (S (S (S (S O))))))))))

(** val ppow2 : nat -> n **)

let rec ppow2 = function
| O -> Npos XH
| S j -> xtime (ppow2 j)

(** val be : nat -> n -> n list **)

let rec be w x =
  match w with
  | O -> []
  | S w' ->
    (N.modulo
      (N.div x
        (N.pow (Npos (XO (XO (XO (XO (XO (XO (XO (XO XH)))))))))
          (N.of_nat w'))) (Npos (XO (XO (XO (XO (XO (XO (XO (XO XH)))))))))) :: 
      (be w' x)

(** val payload_id_wire : n -> n -> n list **)

let payload_id_wire sbn esi =
  sbn :: (be (S (S (S O))) esi)

(** val oti_wire : n -> n -> n -> n -> n -> n list **)

let oti_wire f t0 z nsub al =
  app (be (S (S (S (S (S O))))) f)
    (app (N0 :: [])
      (app (be (S (S O)) t0)
        (app (z :: []) (app (be (S (S O)) nsub) (al :: [])))))

(** val cdiv : n -> n -> n **)

let cdiv a b =
  N.div (N.sub (N.add a b) (Npos XH)) b

(** val oti_validb : n -> n -> n -> n -> bool **)

let oti_validb f t0 z al =
  (&&)
    ((&&)
      (N.leb f (Npos (XI (XI (XO (XO (XI (XO (XI (XO (XI (XO (XO (XI (XO (XO
        (XO (XI (XI (XO (XO (XO (XI (XO (XI (XI (XI (XO (XI (XO (XI (XI (XI
        (XO (XI (XI (XO (XI (XI (XO (XI
        XH)))))))))))))))))))))))))))))))))))))))))
      (N.eqb (N.modulo t0 al) N0))
    (N.leb (cdiv (cdiv f t0) z) (Npos (XI (XI (XO (XO (XI (XO (XI (XO (XO (XO
      (XI (XI (XI (XO (XI XH)))))))))))))))))

(** val rFC_V0 : n list **)

let rFC_V0 =
  (Npos (XO (XO (XO (XO (XO (XO (XO (XO (XO (XI (XI (XO (XO (XI (XI (XO (XO
    (XI (XO (XI (XI (XI (XI (XI (XO (XI (XI
    XH)))))))))))))))))))))))))))) :: ((Npos (XI (XI (XI (XI (XO (XO (XI (XI
    (XO (XO (XI (XO (XO (XO (XI (XO (XO (XI (XO (XO (XI (XO (XO (XI (XI (XI
    (XO (XI (XO (XI (XI XH)))))))))))))))))))))))))))))))) :: ((Npos (XO (XO
    (XI (XO (XO (XI (XO (XO (XI (XI (XI (XI (XI (XI (XO (XI (XO (XO (XI (XI
    (XO (XI (XI (XI (XO (XO (XO (XI (XO (XO (XI
    XH)))))))))))))))))))))))))))))))) :: ((Npos (XO (XO (XO (XO (XO (XO (XO
    (XI (XI (XO (XI (XO (XI (XO (XI (XI (XI (XO (XO (XI (XI (XO (XO (XI (XO
    (XI (XO (XO (XI (XI (XI XH)))))))))))))))))))))))))))))))) :: ((Npos (XI
    (XI (XI (XO (XO (XO (XO (XI (XI (XI (XI (XO (XI (XI (XI (XO (XO (XI (XI
    (XI (XI (XO (XI (XO (XI (XI XH))))))))))))))))))))))))))) :: ((Npos (XI
    (XI (XO (XI (XO (XO (XO (XI (XO (XI (XO (XO (XO (XI (XI (XI (XI (XO (XI
    (XI (XI (XI (XO (XI (XI (XI (XI (XO (XO (XO (XI
    XH)))))))))))))))))))))))))))))))) :: ((Npos (XI (XO (XO (XI (XO (XO (XI
    (XI (XO (XI (XO (XI (XI (XO (XO (XO (XI (XO (XO (XI (XI (XO (XI (XI (XI
    (XI (XI (XI (XI (XI (XO XH)))))))))))))))))))))))))))))))) :: ((Npos (XI
    (XI (XO (XO (XI (XI (XO (XI (XI (XO (XO (XI (XI (XI (XO (XO (XI (XI (XI
    (XO (XO (XI (XI (XI (XI (XI (XI (XO (XI (XI
    XH))))))))))))))))))))))))))))))) :: ((Npos (XO (XI (XO (XO (XI (XO (XI
    (XI (XI (XO (XO (XO (XO (XO (XO (XI (XI (XI (XO (XI (XO (XI (XO (XO (XO
    (XI (XI (XI (XO XH)))))))))))))))))))))))))))))) :: ((Npos (XI (XO (XI
    (XO (XO (XO (XI (XO (XI (XO (XI (XO (XO (XI (XI (XI (XI (XI (XI (XO (XI
    (XI (XO (XO (XI (XI (XI (XI (XO (XO (XO
    XH)))))))))))))))))))))))))))))))) :: ((Npos (XO (XI (XO (XO (XI (XO (XI
    (XO (XO (XO (XI (XI (XO (XI (XI (XO (XI (XO (XI (XI (XI (XO (XI (XI (XI
    (XI (XO (XI (XI XH)))))))))))))))))))))))))))))) :: ((Npos (XI (XO (XO
    (XO (XI (XI (XO (XI (XO (XI (XO (XI (XO (XI (XI (XO (XO (XO (XO (XI (XO
    (XI (XI (XI (XI (XO (XI (XI (XO (XI
    XH))))))))))))))))))))))))))))))) :: ((Npos (XO (XO (XI (XI (XI (XI (XI
    (XI (XI (XI (XO (XI (XI (XO (XI (XO (XO (XO (XO (XO (XI (XO (XO (XI (XI
    (XO (XO (XI XH))))))))))))))))))))))))))))) :: ((Npos (XO (XO (XO (XO (XI
    (XO (XI (XO (XI (XO (XI (XI (XI (XI (XI (XO (XO (XO (XI (XI (XO (XO (XI
    (XO (XI (XI (XI (XI (XI (XO (XI
    XH)))))))))))))))))))))))))))))))) :: ((Npos (XO (XO (XO (XI (XI (XO (XO
    (XI (XI (XI (XO (XI (XO (XI (XO (XI (XO (XO (XO (XI (XI (XO (XI (XI (XO
    (XI (XI (XI (XI (XO XH))))))))))))))))))))))))))))))) :: ((Npos (XI (XI
    (XO (XI (XI (XI (XO (XO (XI (XO (XI (XO (XI (XI (XI (XI (XO (XI (XI (XI
    (XO (XO (XI (XI (XO (XI (XI (XO (XI (XI (XO
    XH)))))))))))))))))))))))))))))))) :: ((Npos (XI (XI (XI (XI (XI (XI (XO
    (XI (XO (XI (XI (XO (XO (XO (XI (XI (XI (XI (XI (XI (XO (XI (XI (XO (XI
    (XO (XI (XO (XI (XO XH))))))))))))))))))))))))))))))) :: ((Npos (XO (XI
    (XO (XI (XI (XI (XI (XO (XI (XI (XO (XO (XO (XO (XO (XI (XO (XI (XO (XI
    (XO (XO (XO (XO (XO (XI (XI (XI XH))))))))))))))))))))))))))))) :: ((Npos
    (XI (XO (XI (XI (XO (XO (XO (XO (XO (XI (XI (XO (XO (XI (XI (XI (XI (XI
    (XI (XO (XO (XI (XO (XO (XI (XO (XO (XI (XI (XI
    XH))))))))))))))))))))))))))))))) :: ((Npos (XO (XO (XO (XI (XO (XI (XI
    (XI (XI (XO (XI (XI (XO (XI (XO (XI (XO (XI (XI (XI (XO (XO (XI (XI (XI
    (XI (XO (XI (XO (XO (XI XH)))))))))))))))))))))))))))))))) :: ((Npos (XO
    (XI (XI (XO (XO (XI (XI (XI (XI (XI (XI (XI (XI (XO (XI (XO (XI (XI (XO
    (XI (XI (XI (XO (XO (XI (XI (XI (XO (XO (XI (XO
    XH)))))))))))))))))))))))))))))))) :: ((Npos (XO (XI (XO (XI (XI (XI (XI
    (XO (XO (XI (XI (XI (XO (XI (XI (XO (XI (XI (XO (XI (XO (XI (XI (XI (XO
    (XO (XO (XI (XI (XI (XO XH)))))))))))))))))))))))))))))))) :: ((Npos (XO
    (XI (XO (XO (XI (XI (XO (XI (XI (XO (XI (XO (XI (XI (XO (XI (XI (XI (XO
    (XO (XO (XO (XO (XO (XI (XI (XO (XO (XO (XI (XI
    XH)))))))))))))))))))))))))))))))) :: ((Npos (XI (XI (XO (XI (XI (XI (XI
    (XI (XO (XO (XI (XI (XI (XO (XO (XO (XI (XI (XO (XI (XI (XO (XO (XO (XI
    (XO (XI (XO (XI (XO (XO XH)))))))))))))))))))))))))))))))) :: ((Npos (XI
    (XO (XI (XO (XO (XI (XO (XI (XI (XI (XI (XI (XI (XO (XI (XI (XI (XO (XO
    (XI (XO (XI (XO (XO (XI (XO (XI (XI (XO (XI (XI
    XH)))))))))))))))))))))))))))))))) :: ((Npos (XI (XO (XI (XI (XO (XI (XO
    (XO (XI (XO (XI (XO (XI (XO (XI (XO (XO (XI (XO (XI (XO (XI (XO (XI (XO
    (XI (XI XH)))))))))))))))))))))))))))) :: ((Npos (XI (XI (XO (XI (XI (XI
    (XO (XO (XI (XO (XO (XO (XO (XO (XO (XO (XI (XO (XI (XI (XO (XI (XI (XO
    (XI (XI (XI (XI (XO (XI (XI XH)))))))))))))))))))))))))))))))) :: ((Npos
    (XO (XO (XO (XI (XI (XI (XI (XI (XO (XO (XI (XI (XO (XO (XI (XO (XO (XI
    (XO (XI (XI (XI (XO (XI (XO (XI (XI (XO (XO
    XH)))))))))))))))))))))))))))))) :: ((Npos (XO (XO (XI (XO (XI (XI (XI
    (XI (XO (XI (XO (XI (XO (XI (XI (XI (XI (XI (XI (XO (XI (XI (XO (XI (XI
    (XO (XI (XO (XI (XI XH))))))))))))))))))))))))))))))) :: ((Npos (XO (XI
    (XI (XO (XO (XI (XO (XO (XO (XI (XO (XI (XI (XI (XO (XO (XI (XI (XI (XO
    (XO (XO (XO (XO (XO (XI (XI (XI (XI (XO (XO
    XH)))))))))))))))))))))))))))))))) :: ((Npos (XI (XO (XO (XO (XO (XO (XI
    (XI (XO (XO (XO (XO (XI (XO (XO (XI (XI (XI (XO (XI (XO (XO (XO (XI (XO
    (XO (XI (XI (XO (XO (XO XH)))))))))))))))))))))))))))))))) :: ((Npos (XO
    (XO (XO (XI (XI (XI (XI (XI (XI (XO (XO (XI (XO (XO (XO (XI (XO (XI (XO
    (XI (XI (XO (XO (XO (XI (XO (XO (XI (XO
    XH)))))))))))))))))))))))))))))) :: ((Npos (XO (XO (XI (XO (XO (XO (XI
    (XI (XI (XO (XO (XI (XI (XO (XI (XO (XO (XI (XO (XI (XO (XI (XO (XI (XO
    (XI (XO (XI (XO XH)))))))))))))))))))))))))))))) :: ((Npos (XO (XI (XI
    (XO (XO (XO (XO (XO (XO (XO (XO (XI (XO (XI (XO (XI (XI (XO (XO (XI (XO
    (XO (XI (XO (XO (XI (XO (XO (XO (XI (XO
    XH)))))))))))))))))))))))))))))))) :: ((Npos (XO (XO (XI (XO (XI (XI (XI
    (XO (XO (XI (XO (XO (XO (XO (XI (XI (XO (XO (XO (XO (XI (XI (XI (XO (XI
    (XI (XO XH)))))))))))))))))))))))))))) :: ((Npos (XI (XI (XO (XO (XI (XO
    (XO (XI (XI (XO (XO (XO (XO (XO (XI (XI (XI (XI (XO (XI (XI (XI (XO (XI
    (XO (XI (XO (XO (XI (XO (XI XH)))))))))))))))))))))))))))))))) :: ((Npos
    (XI (XO (XO (XO (XI (XI (XO (XI (XI (XO (XO (XI (XI (XO (XI (XO (XI (XI
    (XO (XO (XI (XO (XI (XO (XI (XI (XO (XO (XO (XO (XI
    XH)))))))))))))))))))))))))))))))) :: ((Npos (XI (XO (XI (XO (XO (XI (XI
    (XO (XO (XI (XO (XO (XI (XO (XO (XO (XI (XO (XI (XO (XO (XI (XO (XI (XI
    (XI (XI (XO (XI (XO XH))))))))))))))))))))))))))))))) :: ((Npos (XO (XI
    (XI (XO (XO (XO (XO (XO (XO (XO (XO (XO (XO (XI (XI (XO (XO (XO (XI (XI
    (XO (XO (XI (XO (XO (XO (XO (XO (XO (XI (XI
    XH)))))))))))))))))))))))))))))))) :: ((Npos (XI (XI (XI (XI (XI (XO (XO
    (XO (XO (XO (XO (XI (XO (XI (XO (XI (XO (XI (XO (XI (XO (XI (XO (XI (XO
    (XO (XO (XO (XO (XO (XI XH)))))))))))))))))))))))))))))))) :: ((Npos (XI
    (XI (XO (XI (XO (XI (XI (XO (XI (XO (XI (XO (XO (XO (XI (XO (XO (XO (XO
    (XO (XI (XO (XI (XO (XI (XI XH))))))))))))))))))))))))))) :: ((Npos (XI
    (XO (XI (XO (XI (XO (XI (XI (XO (XI (XI (XO (XI (XI (XI (XO (XI (XI (XO
    (XO (XI (XI (XO (XI (XI (XO (XO (XI (XO (XI (XI
    XH)))))))))))))))))))))))))))))))) :: ((Npos (XI (XI (XO (XO (XO (XI (XO
    (XO (XO (XO (XI (XO (XO (XI (XO (XO (XO (XO (XO (XO (XO (XI (XO (XI (XO
    (XI (XI (XI (XO XH)))))))))))))))))))))))))))))) :: ((Npos (XO (XI (XI
    (XI (XI (XO (XI (XI (XO (XI (XI (XI (XI (XO (XO (XO (XO (XI (XI (XI (XO
    (XI (XO (XO (XO (XI (XI (XO XH))))))))))))))))))))))))))))) :: ((Npos (XI
    (XO (XI (XO (XI (XI (XI (XO (XI (XI (XO (XI (XO (XO (XI (XO (XI (XO (XI
    (XI (XO (XO (XO (XI (XO (XI (XO (XO (XI (XI (XO
    XH)))))))))))))))))))))))))))))))) :: ((Npos (XI (XI (XI (XI (XO (XO (XO
    (XO (XO (XI (XO (XO (XO (XI (XI (XI (XO (XI (XI (XI (XO (XI (XI (XI (XI
    (XO (XO (XI (XI (XI XH))))))))))))))))))))))))))))))) :: ((Npos (XO (XI
    (XI (XO (XI (XI (XO (XO (XI (XO (XI (XI (XO (XI (XO (XO (XO (XI (XI (XI
    (XO (XO (XO (XO (XI (XI (XO (XI (XO (XO (XO
    XH)))))))))))))))))))))))))))))))) :: ((Npos (XI (XI (XI (XO (XO (XI (XO
    (XI (XI (XI (XO (XO (XI (XO (XO (XO (XI (XO (XI (XI (XI (XI (XO (XI (XO
    (XI (XI (XI (XO (XI (XI XH)))))))))))))))))))))))))))))))) :: ((Npos (XI
    (XI (XO (XI (XI (XI (XI (XI (XI (XI (XO (XO (XO (XO (XO (XI (XI (XI (XI
    (XO (XO (XO (XO (XO (XI (XO (XI XH)))))))))))))))))))))))))))) :: ((Npos
    (XI (XI (XI (XI (XO (XO (XI (XI (XI (XI (XI (XO (XI (XO (XO (XI (XO (XI
    (XO (XO (XI (XO (XO (XI (XI (XI (XO (XI (XO (XO (XI
    XH)))))))))))))))))))))))))))))))) :: ((Npos (XO (XI (XI (XO (XO (XO (XO
    (XI (XI (XI (XO (XO (XI (XO (XO (XO (XI (XI (XO (XI (XO (XO (XI (XI (XO
    (XI (XO (XI (XI (XI (XI XH)))))))))))))))))))))))))))))))) :: ((Npos (XI
    (XI (XI (XO (XO (XI (XI (XI (XO (XO (XI (XI (XI (XO (XO (XI (XI (XI (XO
    (XO (XI (XO (XI (XO (XI (XI (XO (XO (XI
    XH)))))))))))))))))))))))))))))) :: ((Npos (XI (XO (XI (XO (XI (XI (XO
    (XO (XO (XI (XI (XO (XI (XO (XO (XO (XO (XO (XI (XO (XO (XI (XO (XO (XI
    (XI (XO (XI (XI (XO (XI XH)))))))))))))))))))))))))))))))) :: ((Npos (XO
    (XO (XO (XI (XO (XO (XO (XO (XO (XO (XO (XO (XI (XI (XO (XO (XI (XO (XO
    (XO (XO (XI (XI (XI (XI (XO (XO (XI (XI (XO (XO
    XH)))))))))))))))))))))))))))))))) :: ((Npos (XO (XO (XO (XO (XO (XO (XI
    (XO (XI (XO (XO (XI (XI (XI (XI (XO (XO (XO (XI (XI (XO (XI (XI (XO (XI
    (XO (XI (XO (XO (XO (XI XH)))))))))))))))))))))))))))))))) :: ((Npos (XI
    (XI (XO (XO (XO (XI (XO (XO (XO (XO (XO (XI (XO (XO (XI (XI (XO (XI (XO
    (XI (XI (XO (XO (XI (XO (XO (XO (XI (XO
    XH)))))))))))))))))))))))))))))) :: ((Npos (XO (XI (XO (XO (XI (XI (XI
    (XO (XI (XO (XO (XO (XO (XI (XO (XO (XI (XO (XO (XO (XI (XO (XI (XO (XO
    (XI (XO (XO XH))))))))))))))))))))))))))))) :: ((Npos (XO (XO (XI (XO (XO
    (XO (XO (XI (XO (XO (XI (XO (XI (XO (XI (XI (XI (XI (XI (XI (XI (XO (XO
    (XO (XI (XO (XI (XO (XI (XI (XI
    XH)))))))))))))))))))))))))))))))) :: ((Npos (XO (XI (XI (XI (XO (XO (XO
    (XO (XI (XO (XO (XO (XO (XI (XI (XO (XI (XI (XI (XO (XO (XO (XO (XO (XI
    (XO (XI (XO (XO (XO XH))))))))))))))))))))))))))))))) :: ((Npos (XO (XI
    (XO (XI (XI (XO (XO (XO (XI (XO (XI (XO (XI (XI (XI (XI (XI (XO (XI (XO
    (XO (XO (XI (XO (XO (XI (XO (XI (XO
    XH)))))))))))))))))))))))))))))) :: ((Npos (XI (XO (XO (XO (XI (XO (XO
    (XI (XI (XO (XI (XO (XI (XO (XO (XO (XI (XI (XI (XI (XI (XO (XI (XO (XO
    (XI (XO (XO (XO (XI (XO XH)))))))))))))))))))))))))))))))) :: ((Npos (XI
    (XI (XO (XI (XI (XI (XO (XO (XI (XI (XI (XO (XI (XI (XO (XI (XI (XI (XI
    (XO (XO (XI (XI (XO (XO (XI (XO (XI (XI (XI (XI
    XH)))))))))))))))))))))))))))))))) :: ((Npos (XI (XO (XO (XO (XI (XI (XI
    (XI (XI (XO (XO (XI (XI (XO (XO (XI (XO (XI (XO (XI (XO (XO (XI (XO (XI
    (XI (XO (XI (XI (XI (XI XH)))))))))))))))))))))))))))))))) :: ((Npos (XI
    (XI (XO (XO (XO (XI (XI (XI (XI (XI (XO (XO (XI (XI (XI (XI (XO (XO (XI
    (XO (XI (XO (XI (XO (XI (XO (XO (XO (XI (XI (XI
    XH)))))))))))))))))))))))))))))))) :: ((Npos (XI (XO (XI (XO (XO (XO (XO
    (XO (XO (XI (XO (XI (XI (XI (XI (XO (XI (XI (XO (XO (XI (XI (XO (XI (XO
    (XO (XI (XO (XI (XI (XO XH)))))))))))))))))))))))))))))))) :: ((Npos (XO
    (XI (XO (XO (XI (XO (XI (XO (XI (XO (XI (XO (XI (XO (XI (XO (XO (XI (XO
    (XI (XO (XO (XI (XI (XI (XO (XO (XO (XI (XI
    XH))))))))))))))))))))))))))))))) :: ((Npos (XI (XO (XO (XI (XO (XO (XI
    (XO (XI (XI (XO (XO (XO (XO (XO (XO (XI (XO (XI (XO (XI (XI (XI (XO (XO
    (XI (XI (XI XH))))))))))))))))))))))))))))) :: ((Npos (XO (XI (XO (XI (XI
    (XI (XI (XO (XI (XO (XO (XO (XO (XI (XO (XI (XI (XO (XO (XI (XO (XI (XO
    (XO (XI (XO (XO (XO (XI (XO XH))))))))))))))))))))))))))))))) :: ((Npos
    (XI (XI (XO (XO (XI (XI (XI (XI (XO (XO (XO (XI (XI (XO (XO (XO (XO (XO
    (XI (XO (XI (XI (XO (XI (XI (XI XH))))))))))))))))))))))))))) :: ((Npos
    (XI (XI (XO (XO (XO (XO (XI (XO (XO (XO (XO (XI (XO (XI (XI (XI (XO (XO
    (XI (XI (XO (XO (XI (XO (XI (XI (XO (XI (XI (XI (XO
    XH)))))))))))))))))))))))))))))))) :: ((Npos (XI (XI (XO (XO (XI (XI (XO
    (XO (XI (XI (XI (XI (XO (XI (XO (XI (XO (XO (XI (XI (XO (XI (XO (XO (XI
    (XO (XO (XI (XI (XO (XO XH)))))))))))))))))))))))))))))))) :: ((Npos (XO
    (XI (XI (XI (XO (XI (XO (XO (XO (XO (XO (XO (XO (XO (XO (XO (XO (XO (XI
    (XI (XO (XO (XI (XI (XO (XO (XI (XO (XI (XI (XO
    XH)))))))))))))))))))))))))))))))) :: ((Npos (XO (XI (XI (XO (XI (XI (XI
    (XO (XI (XI (XI (XI (XI (XO (XI (XI (XO (XO (XI (XO (XI (XO (XI (XI (XO
    (XI (XO (XO (XO (XI XH))))))))))))))))))))))))))))))) :: ((Npos (XO (XI
    (XI (XI (XO (XI (XO (XO (XO (XO (XI (XI (XI (XO (XI (XI (XO (XI (XI (XI
    (XO (XO (XO (XI (XI (XI (XI (XO (XI
    XH)))))))))))))))))))))))))))))) :: ((Npos (XI (XO (XI (XI (XI (XI (XI
    (XO (XO (XO (XO (XI (XI (XO (XI (XO (XI (XI (XI (XO (XO (XI (XO (XO (XO
    (XI (XI (XO (XI (XI XH))))))))))))))))))))))))))))))) :: ((Npos (XI (XI
    (XO (XO (XI (XO (XO (XO (XI (XI (XO (XI (XI (XI (XO (XO (XO (XI (XI (XI
    (XO (XO (XI (XI (XI (XO (XO (XO (XI (XI (XO
    XH)))))))))))))))))))))))))))))))) :: ((Npos (XO (XI (XO (XO (XO (XI (XO
    (XO (XO (XI (XO (XI (XO (XI (XI (XO (XI (XO (XI (XO (XO (XO (XI (XO (XI
    (XI (XO (XO (XI (XI (XO XH)))))))))))))))))))))))))))))))) :: ((Npos (XO
    (XO (XO (XO (XO (XO (XI (XO (XI (XI (XI (XO (XO (XI (XI (XI (XI (XO (XI
    (XO (XO (XO (XO (XI (XI (XO (XI (XI (XO (XO (XI
    XH)))))))))))))))))))))))))))))))) :: ((Npos (XO (XI (XO (XO (XO (XO (XI
    (XO (XI (XO (XO (XO (XI (XI (XO (XO (XI (XO (XO (XO (XO (XO (XI (XI (XO
    (XO (XO (XI (XO XH)))))))))))))))))))))))))))))) :: ((Npos (XI (XO (XO
    (XI (XO (XO (XI (XI (XI (XO (XI (XI (XI (XO (XI (XI (XI (XI (XO (XO (XO
    (XI (XI (XO (XO (XI (XI (XI (XO
    XH)))))))))))))))))))))))))))))) :: ((Npos (XI (XO (XI (XI (XO (XI (XI
    (XO (XO (XO (XI (XO (XI (XI (XI (XI (XO (XO (XI (XO (XO (XI (XI (XO (XI
    (XI (XO (XO (XI (XO XH))))))))))))))))))))))))))))))) :: ((Npos (XO (XO
    (XI (XI (XI (XI (XO (XI (XI (XI (XO (XO (XI (XI (XI (XI (XO (XO (XO (XI
    (XI (XO (XO (XI (XI (XI (XO (XO (XI (XI
    XH))))))))))))))))))))))))))))))) :: ((Npos (XI (XI (XO (XO (XO (XO (XO
    (XI (XO (XI (XI (XI (XO (XO (XO (XI (XO (XO (XI (XI (XI (XO (XI (XI (XO
    (XO (XI (XO (XO (XI XH))))))))))))))))))))))))))))))) :: ((Npos (XO (XO
    (XO (XO (XO (XO (XI (XI (XI (XI (XI (XI (XO (XO (XO (XI (XI (XO (XO (XO
    (XI (XO (XO (XI (XO (XI (XI (XO (XO (XI (XI
    XH)))))))))))))))))))))))))))))))) :: ((Npos (XO (XI (XO (XO (XI (XI (XI
    (XO (XI (XO (XI (XO (XO (XO (XI (XO (XI (XO (XO (XI (XO (XO (XI (XI (XO
    (XO (XI (XO (XI (XO XH))))))))))))))))))))))))))))))) :: ((Npos (XO (XI
    (XO (XI (XI (XO (XO (XO (XO (XO (XI (XO (XO (XI (XI (XI (XI (XO (XO (XI
    (XI (XO (XI (XO (XI (XI (XO (XO (XO
    XH)))))))))))))))))))))))))))))) :: ((Npos (XI (XO (XO (XI (XO (XI (XO
    (XI (XI (XO (XI (XI (XI (XO (XI (XI (XO (XI (XI (XI (XI (XI (XI (XI (XI
    (XI (XI (XI (XO (XI XH))))))))))))))))))))))))))))))) :: ((Npos (XI (XO
    (XI (XO (XI (XO (XI (XI (XI (XI (XO (XI (XO (XI (XO (XO (XO (XO (XI (XO
    (XI (XO (XO (XI (XO (XI (XI (XO (XI (XO (XO
    XH)))))))))))))))))))))))))))))))) :: ((Npos (XI (XI (XO (XI (XO (XO (XO
    (XI (XO (XI (XI (XI (XO (XI (XI (XI (XI (XO (XI (XI (XI (XO (XI (XI (XO
    (XI (XI (XI (XI (XO XH))))))))))))))))))))))))))))))) :: ((Npos (XO (XI
    (XI (XO (XO (XO (XO (XO (XI (XO (XI (XO (XI (XI (XI (XI (XI (XI (XI (XO
    (XI (XO (XO (XI (XI (XO (XI (XI (XO (XI (XI
    XH)))))))))))))))))))))))))))))))) :: ((Npos (XI (XO (XO (XO (XI (XO (XO
    (XI (XO (XO (XO (XI (XO (XO (XI (XI (XI (XI (XO (XI (XO (XO (XI (XO (XO
    (XO (XI (XI (XO (XI (XI XH)))))))))))))))))))))))))))))))) :: ((Npos (XI
    (XI (XI (XI (XI (XI (XI (XI (XO (XO (XO (XI (XO (XI (XI (XI (XO (XI (XO
    (XO (XO (XI (XO (XI (XO (XO (XO (XO (XO (XI (XO
    XH)))))))))))))))))))))))))))))))) :: ((Npos (XI (XI (XO (XI (XO (XI (XI
    (XO (XI (XO (XI (XO (XI (XO (XI (XO (XI (XO (XO (XO (XO (XO (XI (XI (XI
    (XI (XO (XO (XI (XI XH))))))))))))))))))))))))))))))) :: ((Npos (XI (XI
    (XI (XI (XI (XO (XO (XI (XI (XO (XO (XI (XO (XI (XO (XO (XI (XI (XI (XI
    (XO (XO (XI (XO (XI (XO (XO (XI XH))))))))))))))))))))))))))))) :: ((Npos
    (XI (XI (XO (XO (XO (XO (XI (XI (XO (XO (XI (XO (XI (XI (XO (XI (XO (XO
    (XI (XI (XO (XO (XI (XO (XO (XO (XO (XO (XI (XO
    XH))))))))))))))))))))))))))))))) :: ((Npos (XO (XO (XI (XO (XO (XO (XI
    (XO (XI (XI (XO (XO (XI (XI (XI (XO (XO (XO (XO (XI (XI (XO (XO (XO (XI
    (XI (XI (XI (XI (XO (XO XH)))))))))))))))))))))))))))))))) :: ((Npos (XO
    (XI (XO (XO (XI (XO (XO (XO (XO (XO (XI (XO (XO (XI (XI (XO (XO (XI (XO
    (XI (XI (XO (XO (XO (XI (XO (XO (XO (XI (XO (XO
    XH)))))))))))))))))))))))))))))))) :: ((Npos (XI (XI (XO (XI (XI (XO (XO
    (XI (XI (XI (XI (XI (XO (XO (XO (XI (XI (XO (XO (XO (XI (XI (XI (XO (XI
    (XI (XI (XO (XI (XO (XO XH)))))))))))))))))))))))))))))))) :: ((Npos (XO
    (XO (XO (XO (XI (XO (XO (XI (XO (XI (XO (XI (XI (XI (XO (XO (XI (XI (XI
    (XI (XI (XI (XI (XO (XO (XI (XO (XO (XI (XO
    XH))))))))))))))))))))))))))))))) :: ((Npos (XI (XI (XO (XI (XI (XO (XO
    (XO (XO (XO (XO (XI (XI (XO (XI (XI (XO (XO (XO (XI (XO (XO (XI (XI (XI
    (XO (XI (XO (XI (XI (XI XH)))))))))))))))))))))))))))))))) :: ((Npos (XO
    (XI (XO (XI (XO (XO (XI (XI (XO (XO (XI (XI (XI (XO (XI (XO (XI (XO (XO
    (XO (XI (XO (XI (XI (XO (XI (XO (XI (XI (XO
    XH))))))))))))))))))))))))))))))) :: ((Npos (XI (XO (XO (XO (XO (XI (XO
    (XI (XI (XO (XI (XI (XO (XO (XO (XO (XO (XO (XO (XO (XI (XI (XI (XO (XI
    (XO (XO (XO (XO (XI (XO XH)))))))))))))))))))))))))))))))) :: ((Npos (XI
    (XO (XO (XO (XI (XO (XO (XI (XI (XO (XI (XO (XI (XI (XI (XO (XO (XO (XI
    (XO (XO (XI (XI (XO (XO (XI (XI (XI (XI
    XH)))))))))))))))))))))))))))))) :: ((Npos (XO (XO (XO (XO (XI (XI (XO
    (XI (XO (XO (XI (XI (XI (XI (XI (XI (XI (XI (XI (XO (XO (XI (XI (XI (XO
    (XO (XI (XO (XO (XO (XO XH)))))))))))))))))))))))))))))))) :: ((Npos (XO
    (XO (XI (XO (XI (XI (XO (XO (XO (XI (XO (XI (XO (XO (XI (XO (XO (XO (XI
    (XO (XI (XO (XI (XI (XO (XI (XO (XI (XO (XO
    XH))))))))))))))))))))))))))))))) :: ((Npos (XI (XO (XO (XO (XI (XI (XI
    (XO (XI (XO (XI (XO (XO (XI (XI (XO (XI (XI (XI (XO (XO (XI (XO (XO (XI
    (XI (XO (XI (XI (XI (XI XH)))))))))))))))))))))))))))))))) :: ((Npos (XI
    (XI (XO (XI (XI (XO (XO (XI (XO (XO (XI (XI (XO (XO (XI (XI (XI (XO (XI
    (XI (XO (XI (XO (XI (XO (XI (XO (XI (XI (XO
    XH))))))))))))))))))))))))))))))) :: ((Npos (XI (XO (XO (XO (XO (XI (XO
    (XO (XI (XO (XO (XI (XI (XO (XI (XI (XO (XI (XI (XI (XO (XO (XI (XO (XI
    (XO (XI (XO (XI (XI (XO XH)))))))))))))))))))))))))))))))) :: ((Npos (XO
    (XI (XI (XI (XI (XI (XO (XI (XO (XI (XI (XI (XO (XI (XO (XI (XO (XI (XO
    (XI (XO (XO (XO (XO (XI (XO (XO (XI
    XH))))))))))))))))))))))))))))) :: ((Npos (XI (XI (XO (XO (XO (XI (XI (XO
    (XI (XI (XO (XI (XO (XI (XI (XI (XO (XI (XO (XO (XO (XI (XO
    XH)))))))))))))))))))))))) :: ((Npos (XO (XO (XO (XI (XO (XO (XO (XO (XI
    (XO (XO (XI (XO (XO (XI (XI (XI (XI (XO (XI (XI (XI (XO (XI (XO (XI (XI
    (XI XH))))))))))))))))))))))))))))) :: ((Npos (XO (XI (XI (XI (XO (XI (XI
    (XI (XI (XO (XI (XI (XO (XO (XI (XO (XI (XO (XI (XO (XI (XO (XO (XO (XO
    (XI (XI (XI (XO (XO (XI XH)))))))))))))))))))))))))))))))) :: ((Npos (XO
    (XI (XO (XI (XI (XO (XI (XI (XO (XI (XI (XI (XI (XO (XI (XI (XO (XO (XI
    (XI (XI (XO (XO (XO (XO (XI (XI (XI (XI (XI
    XH))))))))))))))))))))))))))))))) :: ((Npos (XO (XI (XI (XI (XI (XO (XI
    (XO (XI (XI (XI (XI (XO (XO (XI (XI (XI (XO (XO (XO (XO (XI (XO (XO (XO
    (XI (XO (XO (XO (XI (XO XH)))))))))))))))))))))))))))))))) :: ((Npos (XO
    (XI (XO (XI (XI (XO (XI (XI (XO (XO (XO (XI (XO (XO (XI (XI (XI (XO (XI
    (XO (XO (XO (XI (XO (XI (XO (XO (XO (XO (XO (XI
    XH)))))))))))))))))))))))))))))))) :: ((Npos (XO (XO (XI (XI (XI (XO (XI
    (XI (XO (XO (XI (XI (XI (XI (XO (XI (XI (XI (XO (XI (XO (XI (XI (XI (XO
    (XI (XO (XO (XI XH)))))))))))))))))))))))))))))) :: ((Npos (XI (XI (XO
    (XO (XO (XI (XI (XI (XO (XO (XO (XI (XI (XO (XI (XI (XI (XI (XO (XO (XO
    (XI (XI (XO (XI (XO (XO (XI XH))))))))))))))))))))))))))))) :: ((Npos (XO
    (XI (XI (XI (XI (XI (XO (XI (XO (XI (XI (XI (XO (XO (XI (XI (XI (XI (XO
    (XI (XO (XI (XI (XO (XI (XI (XO (XO
    XH))))))))))))))))))))))))))))) :: ((Npos (XO (XO (XI (XI (XI (XO (XI (XO
    (XO (XI (XI (XO (XO (XO (XI (XI (XI (XO (XO (XI (XI (XO (XO (XO (XI (XI
    (XO (XI (XO (XI XH))))))))))))))))))))))))))))))) :: ((Npos (XI (XI (XO
    (XI (XI (XO (XI (XO (XI (XI (XI (XI (XI (XI (XI (XO (XO (XI (XO (XI (XO
    (XO (XI (XI (XO (XI (XO (XO (XI (XO (XO
    XH)))))))))))))))))))))))))))))))) :: ((Npos (XO (XI (XO (XI (XI (XO (XI
    (XI (XO (XO (XI (XO (XO (XO (XI (XI (XI (XO (XO (XO (XI (XO (XI (XI (XI
    (XO (XI (XO (XI (XI XH))))))))))))))))))))))))))))))) :: ((Npos (XI (XO
    (XO (XO (XI (XI (XO (XI (XI (XI (XI (XI (XI (XO (XO (XI (XO (XI (XI (XO
    (XI (XI (XI (XI (XI (XI (XO (XO (XI (XO
    XH))))))))))))))))))))))))))))))) :: ((Npos (XO (XO (XO (XO (XI (XO (XO
    (XI (XI (XO (XI (XO (XO (XO (XI (XO (XO (XI (XI (XI (XI (XI (XO (XO (XI
    (XO (XO (XI (XO (XO XH))))))))))))))))))))))))))))))) :: ((Npos (XI (XI
    (XO (XO (XI (XO (XO (XI (XI (XO (XO (XO (XO (XI (XI (XI (XI (XI (XO (XI
    (XI (XI (XI (XO (XI (XO (XO (XI (XO (XI (XI
    XH)))))))))))))))))))))))))))))))) :: ((Npos (XI (XO (XI (XO (XO (XO (XI
    (XI (XO (XI (XI (XO (XI (XI (XI (XI (XI (XI (XO (XI (XI (XI (XO (XI (XI
    (XI (XI XH)))))))))))))))))))))))))))) :: ((Npos (XI (XO (XO (XI (XI (XO
    (XO (XO (XI (XI (XI (XO (XO (XO (XI (XO (XI (XO (XO (XI (XI (XO (XO (XI
    (XO (XI (XO (XI (XI (XO (XO XH)))))))))))))))))))))))))))))))) :: ((Npos
    (XI (XO (XI (XO (XO (XO (XI (XI (XI (XI (XI (XO (XO (XI (XI (XO (XO (XI
    (XO (XO (XI (XO (XI (XO (XI (XI (XO (XO (XI (XO (XO
    XH)))))))))))))))))))))))))))))))) :: ((Npos (XI (XI (XI (XI (XI (XI (XO
    (XO (XI (XO (XI (XI (XI (XO (XI (XI (XO (XO (XO (XI (XO (XO (XI (XI (XI
    (XI (XI (XI (XI (XI (XI XH)))))))))))))))))))))))))))))))) :: ((Npos (XO
    (XO (XI (XI (XO (XI (XI (XI (XI (XI (XI (XI (XO (XO (XI (XO (XO (XI (XO
    (XI (XO (XO (XI (XI (XO (XI (XI (XO (XO
    XH)))))))))))))))))))))))))))))) :: ((Npos (XI (XI (XO (XI (XO (XO (XO
    (XI (XO (XO (XO (XO (XO (XI (XO (XO (XO (XI (XI (XO (XO (XO (XO (XO (XI
    (XI (XI (XO (XO (XO XH))))))))))))))))))))))))))))))) :: ((Npos (XI (XI
    (XI (XO (XI (XI (XO (XO (XO (XI (XI (XO (XI (XO (XI (XI (XO (XI (XI (XO
    (XI (XO (XO (XI (XI (XO (XI (XO (XI (XI (XO
    XH)))))))))))))))))))))))))))))))) :: ((Npos (XI (XI (XO (XO (XO (XO (XO
    (XI (XO (XO (XI (XO (XO (XO (XI (XO (XO (XO (XI (XO (XO (XO (XO (XO (XI
    (XI (XO (XO (XI (XO (XO XH)))))))))))))))))))))))))))))))) :: ((Npos (XO
    (XI (XO (XI (XO (XI (XI (XO (XO (XI (XI (XI (XI (XO (XO (XI (XO (XO (XO
    (XO (XO (XO (XI (XI (XI (XI (XI (XO (XI (XO (XO
    XH)))))))))))))))))))))))))))))))) :: ((Npos (XO (XO (XI (XO (XI (XI (XO
    (XO (XO (XI (XI (XO (XI (XO (XI (XO (XO (XO (XI (XO (XO (XO (XI (XI (XI
    (XO (XO (XI (XI XH)))))))))))))))))))))))))))))) :: ((Npos (XO (XO (XO
    (XI (XI (XI (XO (XO (XI (XO (XO (XO (XI (XO (XI (XI (XO (XO (XI (XI (XI
    (XO (XI (XO (XO (XO (XO (XI (XI (XI
    XH))))))))))))))))))))))))))))))) :: ((Npos (XI (XO (XO (XO (XO (XO (XO
    (XO (XO (XI (XI (XO (XI (XO (XO (XO (XO (XO (XO (XO (XI (XI (XO (XO (XI
    (XI (XI (XO (XO (XO (XO XH)))))))))))))))))))))))))))))))) :: ((Npos (XO
    (XO (XI (XI (XO (XI (XO (XO (XO (XI (XO (XI (XO (XO (XI (XI (XO (XI (XO
    (XO (XI (XI (XO (XI (XI (XO (XI (XO (XO (XO
    XH))))))))))))))))))))))))))))))) :: ((Npos (XI (XO (XO (XI (XO (XO (XO
    (XO (XO (XI (XO (XI (XI (XI (XO (XI (XO (XI (XO (XI (XI (XI (XO (XI (XI
    (XO (XO (XO (XO (XO (XI XH)))))))))))))))))))))))))))))))) :: ((Npos (XI
    (XO (XO (XO (XO (XI (XO (XI (XO (XO (XI (XO (XI (XI (XO (XO (XO (XI (XI
    (XI (XI (XI (XO (XO (XO (XO (XI (XI (XO (XI (XI
    XH)))))))))))))))))))))))))))))))) :: ((Npos (XI (XO (XO (XI (XO (XI (XO
    (XI (XI (XO (XI (XO (XO (XO (XO (XO (XO (XI (XO (XO (XO (XI (XO (XI (XO
    (XO (XO (XI (XI (XO (XO XH)))))))))))))))))))))))))))))))) :: ((Npos (XO
    (XO (XI (XI (XI (XI (XO (XO (XO (XI (XO (XI (XO (XO (XO (XI (XI (XI (XI
    (XI (XO (XO (XI (XO (XO (XI (XI (XO (XI
    XH)))))))))))))))))))))))))))))) :: ((Npos (XI (XO (XO (XI (XO (XI (XO
    (XI (XO (XO (XO (XI (XO (XO (XO (XI (XI (XO (XO (XI (XI (XO (XI (XO (XI
    (XO (XI (XI (XO XH)))))))))))))))))))))))))))))) :: ((Npos (XI (XO (XI
    (XO (XI (XO (XO (XO (XO (XO (XI (XO (XI (XO (XI (XO (XI (XI (XI (XI (XI
    (XI (XO (XI (XO (XO (XI (XO (XI (XO (XI
    XH)))))))))))))))))))))))))))))))) :: ((Npos (XI (XO (XO (XO (XO (XI (XO
    (XO (XI (XO (XI (XO (XI (XO (XO (XO (XO (XO (XI (XI (XO (XI (XO (XO (XO
    (XO (XO (XO (XO (XI (XO XH)))))))))))))))))))))))))))))))) :: ((Npos (XI
    (XO (XO (XI (XO (XO (XI (XI (XI (XI (XO (XO (XO (XI (XO (XI (XO (XI (XO
    (XO (XO (XO (XI (XI (XO (XI (XI (XO
    XH))))))))))))))))))))))))))))) :: ((Npos (XO (XO (XI (XO (XI (XI (XO (XO
    (XI (XI (XO (XI (XI (XO (XI (XI (XI (XI (XO (XI (XO (XO (XI (XI (XI (XI
    (XO (XI (XI (XO (XO XH)))))))))))))))))))))))))))))))) :: ((Npos (XO (XI
    (XO (XO (XI (XO (XI (XO (XO (XO (XO (XI (XI (XI (XO (XI (XO (XI (XO (XO
    (XI (XO (XO (XI (XO (XO (XI (XO (XO (XI (XO
    XH)))))))))))))))))))))))))))))))) :: ((Npos (XI (XI (XI (XI (XO (XO (XI
    (XI (XI (XO (XI (XI (XI (XI (XI (XI (XO (XI (XO (XO (XI (XO (XI (XI (XO
    (XI (XI (XO (XI (XO XH))))))))))))))))))))))))))))))) :: ((Npos (XI (XI
    (XO (XI (XI (XO (XI (XI (XI (XI (XO (XI (XI (XO (XO (XO (XI (XO (XI (XI
    (XO (XI (XO (XI (XO (XO (XI (XO (XI
    XH)))))))))))))))))))))))))))))) :: ((Npos (XO (XI (XI (XI (XI (XI (XI
    (XI (XO (XO (XO (XI (XI (XI (XI (XI (XO (XO (XI (XO (XO (XI (XI (XO (XO
    (XO (XI (XO (XO (XO (XI XH)))))))))))))))))))))))))))))))) :: ((Npos (XI
    (XI (XI (XI (XO (XI (XO (XO (XI (XI (XO (XI (XI (XI (XO (XO (XO (XO (XI
    (XO (XO (XI (XO (XI (XI (XI (XI (XI (XI (XO
    XH))))))))))))))))))))))))))))))) :: ((Npos (XO (XI (XI (XO (XO (XI (XO
    (XO (XO (XI (XI (XO (XO (XI (XI (XO (XI (XO (XI (XO (XI (XO (XI (XO (XO
    (XI (XI (XO (XI (XI XH))))))))))))))))))))))))))))))) :: ((Npos (XI (XI
    (XI (XI (XO (XI (XO (XO (XO (XI (XI (XI (XI (XO (XO (XO (XI (XO (XO (XI
    (XI (XI (XI (XO (XO (XO (XI (XI (XI
    XH)))))))))))))))))))))))))))))) :: ((Npos (XI (XI (XI (XO (XI (XI (XI
    (XO (XI (XO (XI (XO (XI (XO (XO (XI (XI (XI (XO (XI (XO (XI (XI (XO (XO
    (XI (XO (XO (XO (XI (XO XH)))))))))))))))))))))))))))))))) :: ((Npos (XI
    (XI (XO (XO (XI (XO (XO (XO (XI (XO (XO (XO (XI (XO (XI (XO (XO (XI (XO
    (XI (XO (XO (XO (XI (XO (XI (XI (XO (XI (XI (XO
    XH)))))))))))))))))))))))))))))))) :: ((Npos (XI (XO (XI (XI (XI (XI (XI
    (XO (XI (XO (XO (XI (XI (XO (XO (XI (XI (XI (XI (XI (XO (XI (XO (XI (XI
    (XO (XO (XI (XI (XI (XO XH)))))))))))))))))))))))))))))))) :: ((Npos (XO
    (XO (XO (XO (XI (XI (XO (XO (XI (XO (XI (XI (XI (XI (XO (XI (XO (XI (XI
    (XO (XO (XO (XI (XO (XO (XO (XO XH)))))))))))))))))))))))))))) :: ((Npos
    (XI (XO (XI (XI (XO (XO (XI (XI (XI (XI (XO (XO (XO (XI (XO (XI (XO (XI
    (XO (XI (XI (XI (XI (XI (XI (XI (XI (XO (XI (XI (XI
    XH)))))))))))))))))))))))))))))))) :: ((Npos (XO (XI (XO (XI (XO (XI (XI
    (XO (XO (XO (XO (XO (XO (XI (XI (XO (XI (XO (XI (XO (XO (XO (XO (XO (XO
    (XI (XI (XO (XO (XO (XI XH)))))))))))))))))))))))))))))))) :: ((Npos (XO
    (XI (XO (XO (XI (XO (XO (XO (XI (XI (XI (XI (XO (XI (XO (XO (XO (XI (XO
    (XO (XI (XO (XI (XO (XI (XI (XO (XI (XI (XI
    XH))))))))))))))))))))))))))))))) :: ((Npos (XO (XI (XI (XO (XO (XO (XO
    (XO (XO (XI (XI (XI (XI (XI (XI (XI (XI (XO (XI (XO (XI (XI (XI (XI (XI
    (XO (XI (XO (XO (XO (XO XH)))))))))))))))))))))))))))))))) :: ((Npos (XO
    (XI (XO (XI (XI (XI (XO (XI (XI (XI (XI (XI (XI (XI (XI (XO (XO (XO (XO
    (XI (XI (XI (XO (XI (XO (XI (XO (XI (XI (XO (XI
    XH)))))))))))))))))))))))))))))))) :: ((Npos (XI (XI (XI (XI (XO (XI (XI
    (XO (XO (XO (XI (XO (XI (XO (XI (XI (XO (XI (XO (XO (XO (XI (XI (XI (XI
    (XO (XI (XI (XI (XO XH))))))))))))))))))))))))))))))) :: ((Npos (XO (XO
    (XO (XI (XO (XI (XO (XI (XI (XI (XO (XI (XI (XI (XO (XI (XO (XI (XO (XI
    (XI (XO (XI (XO (XI (XO (XO (XO (XI
    XH)))))))))))))))))))))))))))))) :: ((Npos (XI (XI (XO (XI (XI (XO (XI
    (XO (XO (XI (XO (XO (XI (XO (XI (XI (XI (XO (XO (XO (XI (XI (XI (XO (XO
    (XI (XI (XI (XI (XO (XI XH)))))))))))))))))))))))))))))))) :: ((Npos (XO
    (XO (XI (XO (XI (XO (XI (XI (XO (XI (XO (XI (XI (XI (XI (XI (XI (XI (XI
    (XO (XI (XI (XI (XI (XI (XI (XO (XI (XO (XO (XI
    XH)))))))))))))))))))))))))))))))) :: ((Npos (XI (XO (XO (XO (XO (XO (XI
    (XI (XI (XO (XI (XI (XO (XI (XO (XI (XO (XO (XI (XI (XO (XI (XI (XI (XO
    (XO (XO (XI (XO (XO (XI XH)))))))))))))))))))))))))))))))) :: ((Npos (XI
    (XI (XO (XO (XO (XI (XI (XO (XO (XI (XI (XO (XO (XO (XI (XO (XO (XO (XO
    (XO (XI (XO (XI (XI (XO (XI (XI (XI (XO (XI (XI
    XH)))))))))))))))))))))))))))))))) :: ((Npos (XO (XO (XI (XI (XI (XI (XI
    (XO (XO (XI (XO (XI (XO (XI (XI (XI (XI (XO (XO (XI (XO (XI (XI (XO (XO
    (XO (XO (XO (XO XH)))))))))))))))))))))))))))))) :: ((Npos (XI (XI (XO
    (XI (XO (XO (XO (XI (XO (XI (XO (XO (XI (XI (XI (XO (XO (XO (XO (XI (XI
    (XO (XO (XO (XO (XI (XO (XI (XO (XO
    XH))))))))))))))))))))))))))))))) :: ((Npos (XO (XI (XO (XO (XO (XI (XO
    (XO (XI (XO (XI (XO (XI (XI (XO (XO (XO (XI (XI (XO (XO (XI (XO (XO (XO
    (XI (XO (XI (XO (XI (XI XH)))))))))))))))))))))))))))))))) :: ((Npos (XI
    (XO (XI (XO (XI (XI (XI (XI (XI (XI (XO (XI (XO (XO (XO (XO (XO (XI (XO
    (XO (XO (XI (XI (XO (XO (XI (XI (XO (XO (XI (XO
    XH)))))))))))))))))))))))))))))))) :: ((Npos (XO (XO (XO (XI (XI (XO (XI
    (XI (XO (XO (XI (XO (XI (XO (XO (XO (XO (XO (XI (XO (XO (XO (XI (XO (XI
    (XI (XO (XO (XI (XI (XI XH)))))))))))))))))))))))))))))))) :: ((Npos (XI
    (XO (XI (XO (XI (XO (XO (XI (XI (XI (XI (XI (XO (XI (XO (XI (XO (XO (XI
    (XI (XO (XI (XI (XI (XI (XI (XI (XO (XO (XO (XO
    XH)))))))))))))))))))))))))))))))) :: ((Npos (XI (XO (XO (XI (XO (XO (XI
    (XI (XI (XO (XI (XI (XO (XI (XI (XO (XI (XO (XO (XI (XO (XO (XI (XI (XO
    (XO (XI (XO (XI XH)))))))))))))))))))))))))))))) :: ((Npos (XI (XO (XO
    (XO (XO (XO (XO (XO (XO (XO (XO (XO (XI (XO (XI (XO (XO (XI (XI (XI (XI
    (XI (XO (XI (XO (XO (XI (XO (XO
    XH)))))))))))))))))))))))))))))) :: ((Npos (XO (XO (XI (XI (XO (XO (XI
    (XI (XI (XO (XO (XO (XI (XI (XO (XO (XO (XI (XO (XO (XI (XO (XO (XO (XO
    (XI (XI (XI (XI (XI (XO XH)))))))))))))))))))))))))))))))) :: ((Npos (XO
    (XI (XI (XO (XO (XI (XI (XO (XO (XO (XI (XO (XO (XO (XI (XO (XI (XO (XO
    (XI (XI (XI (XO (XI (XI (XO (XI (XO (XO (XI (XO
    XH)))))))))))))))))))))))))))))))) :: ((Npos (XI (XI (XI (XI (XO (XI (XI
    (XI (XO (XI (XO (XI (XO (XO (XI (XI (XI (XO (XO (XI (XI (XI (XI (XO (XI
    (XI (XO (XI (XO (XO (XO XH)))))))))))))))))))))))))))))))) :: ((Npos (XO
    (XO (XO (XI (XI (XO (XO (XO (XI (XI (XO (XO (XI (XO (XI (XO (XI (XI (XI
    (XO (XO (XO (XO (XO (XO (XO (XO (XI (XO (XO
    XH))))))))))))))))))))))))))))))) :: ((Npos (XI (XO (XI (XO (XI (XO (XI
    (XO (XO (XO (XI (XO (XI (XI (XO (XO (XO (XI (XI (XO (XO (XI (XI (XO (XI
    (XI (XI XH)))))))))))))))))))))))))))) :: ((Npos (XO (XO (XO (XO (XO (XO
    (XI (XI (XI (XI (XO (XI (XO (XI (XO (XI (XO (XI (XO (XO (XO (XO (XI (XI
    (XO (XO (XI (XO (XO (XI (XI XH)))))))))))))))))))))))))))))))) :: ((Npos
    (XO (XI (XO (XI (XO (XI (XO (XI (XI (XO (XO (XO (XO (XI (XO (XO (XO (XI
    (XI (XI (XO (XI (XO (XI (XI (XI (XO (XI (XI (XI
    XH))))))))))))))))))))))))))))))) :: ((Npos (XO (XO (XI (XI (XI (XO (XI
    (XO (XI (XI (XO (XO (XO (XO (XO (XI (XO (XO (XI (XO (XI (XO (XO (XI (XI
    (XI (XI (XI (XI (XI (XO XH)))))))))))))))))))))))))))))))) :: ((Npos (XO
    (XI (XI (XI (XI (XO (XO (XI (XI (XO (XI (XI (XI (XI (XO (XO (XI (XO (XI
    (XI (XO (XI (XI (XI (XO (XO (XI (XO (XO (XO (XI
    XH)))))))))))))))))))))))))))))))) :: ((Npos (XO (XO (XI (XO (XO (XO (XI
    (XI (XO (XO (XI (XO (XO (XI (XO (XO (XO (XO (XO (XO (XO (XO (XO (XI (XO
    (XO (XI (XO (XI XH)))))))))))))))))))))))))))))) :: ((Npos (XI (XO (XI
    (XO (XO (XI (XO (XI (XI (XO (XO (XO (XI (XI (XI (XO (XO (XO (XI (XI (XO
    (XO (XI (XI (XO (XO (XO (XO (XI (XO
    XH))))))))))))))))))))))))))))))) :: ((Npos (XO (XO (XI (XI (XI (XI (XI
    (XI (XI (XO (XO (XI (XI (XO (XO (XO (XO (XI (XO (XI (XI (XO (XI (XO (XO
    (XO (XI XH)))))))))))))))))))))))))))) :: ((Npos (XO (XO (XO (XO (XI (XI
    (XI (XO (XO (XI (XI (XO (XO (XO (XO (XI (XO (XI (XO (XI (XO (XO (XI (XO
    (XO (XO (XO (XO (XI (XO (XO XH)))))))))))))))))))))))))))))))) :: ((Npos
    (XO (XO (XO (XI (XO (XI (XI (XO (XO (XO (XI (XI (XI (XI (XO (XI (XO (XO
    (XI (XO (XO (XI (XI (XO (XI (XO (XI (XO
    XH))))))))))))))))))))))))))))) :: ((Npos (XO (XO (XO (XI (XO (XO (XO (XO
    (XI (XO (XO (XI (XI (XI (XI (XI (XI (XO (XO (XI (XO (XI (XI (XO (XO (XO
    (XO (XO (XO (XI XH))))))))))))))))))))))))))))))) :: ((Npos (XO (XI (XI
    (XO (XO (XI (XO (XI (XO (XI (XO (XI (XI (XI (XO (XO (XI (XO (XO (XI (XO
    (XO (XO (XO (XI (XI (XO (XO (XO (XO (XI
    XH)))))))))))))))))))))))))))))))) :: ((Npos (XI (XI (XO (XO (XO (XI (XI
    (XI (XO (XI (XO (XI (XO (XI (XO (XI (XI (XO (XO (XO (XI (XO (XO (XI (XI
    (XO (XO (XI (XO (XI XH))))))))))))))))))))))))))))))) :: ((Npos (XO (XI
    (XO (XI (XI (XI (XI (XI (XI (XO (XO (XI (XI (XO (XO (XO (XI (XI (XI (XO
    (XO (XI (XI (XO (XI (XO (XO (XI (XO (XI (XO
    XH)))))))))))))))))))))))))))))))) :: ((Npos (XO (XO (XO (XI (XI (XI (XI
    (XI (XO (XO (XI (XO (XI (XO (XI (XO (XI (XO (XO (XO (XO (XI (XI (XO (XO
    (XO (XO (XI (XO (XI XH))))))))))))))))))))))))))))))) :: ((Npos (XO (XI
    (XI (XO (XO (XO (XO (XI (XI (XO (XI (XO (XI (XI (XO (XO (XI (XI (XO (XO
    (XI (XI (XO (XI (XO (XO (XI (XO (XI (XO
    XH))))))))))))))))))))))))))))))) :: ((Npos (XI (XO (XO (XI (XO (XO (XO
    (XI (XI (XO (XI (XI (XI (XO (XO (XO (XI (XO (XI (XI (XI (XI (XO (XO (XI
    (XI (XI (XO (XO XH)))))))))))))))))))))))))))))) :: ((Npos (XI (XI (XI
    (XI (XO (XI (XO (XI (XI (XO (XI (XO (XI (XI (XO (XO (XI (XO (XO (XO (XI
    (XO (XO (XI (XI (XI (XO XH)))))))))))))))))))))))))))) :: ((Npos (XI (XO
    (XI (XO (XI (XI (XO (XI (XO (XI (XI (XO (XO (XO (XO (XI (XI (XO (XI (XO
    (XI (XI (XO (XO (XI (XO (XO (XO (XO (XO (XI
    XH)))))))))))))))))))))))))))))))) :: ((Npos (XO (XO (XI (XI (XO (XI (XI
    (XI (XI (XI (XI (XI (XI (XO (XI (XO (XI (XO (XI (XI (XO (XO (XI (XO (XO
    XH)))))))))))))))))))))))))) :: ((Npos (XI (XI (XO (XO (XO (XO (XI (XI
    (XO (XO (XO (XO (XO (XO (XI (XO (XO (XI (XI (XI (XI (XI (XI (XI (XI (XO
    (XO (XO XH))))))))))))))))))))))))))))) :: ((Npos (XI (XI (XO (XI (XO (XI
    (XO (XI (XI (XO (XI (XI (XI (XO (XI (XI (XO (XI (XO (XI (XO (XI (XI (XI
    (XO (XO (XO (XI (XI (XI (XI XH)))))))))))))))))))))))))))))))) :: ((Npos
    (XO (XI (XO (XO (XO (XI (XO (XI (XO (XI (XO (XO (XO (XI (XO (XI (XO (XO
    (XO (XI (XI (XI (XO (XI (XI (XO (XO (XO
    XH))))))))))))))))))))))))))))) :: ((Npos (XI (XO (XO (XO (XO (XO (XO (XI
    (XI (XO (XI (XO (XO (XO (XI (XO (XO (XO (XI (XI (XO (XI (XI (XO (XI (XI
    (XI (XI (XI (XI XH))))))))))))))))))))))))))))))) :: ((Npos (XI (XO (XI
    (XI (XO (XO (XO (XO (XO (XO (XO (XI (XI (XI (XO (XI (XI (XO (XI (XO (XI
    (XO (XO (XI (XI (XO (XO (XI (XI (XO
    XH))))))))))))))))))))))))))))))) :: ((Npos (XO (XI (XI (XI (XO (XI (XI
    (XO (XO (XI (XI (XI (XI (XI (XO (XO (XO (XI (XI (XO (XI (XI (XO (XI (XO
    (XI (XO (XI (XI (XO (XI XH)))))))))))))))))))))))))))))))) :: ((Npos (XO
    (XO (XI (XI (XO (XI (XI (XO (XI (XI (XO (XI (XO (XO (XO (XO (XO (XO (XI
    (XI (XI (XI (XO (XO (XO (XI (XI (XI (XI (XO (XI
    XH)))))))))))))))))))))))))))))))) :: ((Npos (XO (XI (XO (XO (XO (XO (XO
    (XO (XI (XO (XI (XO (XO (XO (XO (XI (XO (XO (XI (XI (XI (XI (XI (XI (XI
    (XO (XI XH)))))))))))))))))))))))))))) :: ((Npos (XI (XO (XO (XI (XO (XO
    (XO (XI (XI (XI (XO (XO (XI (XI (XO (XI (XO (XO (XO (XO (XI (XI (XI (XI
    (XI (XI (XO (XO (XO (XO (XO XH)))))))))))))))))))))))))))))))) :: ((Npos
    (XO (XO (XI (XO (XI (XO (XI (XO (XI (XI (XI (XO (XO (XO (XI (XO (XI (XI
    (XI (XI (XI (XI (XI (XI (XO (XI (XO (XO (XO (XI (XO
    XH)))))))))))))))))))))))))))))))) :: ((Npos (XO (XI (XI (XO (XO (XO (XO
    (XI (XO (XI (XI (XI (XO (XI (XO (XO (XO (XI (XI (XO (XI (XO (XI (XO (XI
    (XI (XO (XO (XO (XO XH))))))))))))))))))))))))))))))) :: ((Npos (XI (XI
    (XI (XI (XI (XO (XI (XO (XO (XI (XI (XO (XI (XI (XO (XO (XO (XO (XI (XI
    (XI (XI (XI (XI (XI (XO (XI (XI (XI (XI (XO
    XH)))))))))))))))))))))))))))))))) :: ((Npos (XI (XI (XO (XO (XI (XI (XI
    (XO (XO (XI (XO (XI (XI (XO (XO (XI (XI (XI (XO (XI (XO (XI (XI (XO (XO
    (XI (XO (XI (XO (XI (XO XH)))))))))))))))))))))))))))))))) :: ((Npos (XI
    (XI (XO (XI (XI (XI (XO (XI (XI (XO (XO (XO (XI (XO (XO (XI (XO (XI (XO
    (XO (XO (XO (XI (XI (XI (XI (XO (XO (XO (XO (XI
    XH)))))))))))))))))))))))))))))))) :: ((Npos (XO (XO (XI (XI (XI (XI (XO
    (XO (XI (XO (XO (XI (XO (XI (XI (XO (XI (XO (XI (XI (XO (XI (XO (XI (XI
    (XI (XO (XO (XO (XI (XI XH)))))))))))))))))))))))))))))))) :: ((Npos (XI
    (XO (XI (XI (XO (XO (XI (XI (XO (XO (XI (XI (XO (XO (XO (XI (XI (XI (XO
    (XI (XO (XO (XO (XO (XO (XO (XI (XO (XI (XO (XI
    XH)))))))))))))))))))))))))))))))) :: ((Npos (XO (XO (XI (XI (XO (XI (XO
    (XI (XO (XI (XI (XI (XO (XO (XO (XO (XI (XI (XI (XI (XO (XI (XI (XI (XO
    (XI (XO (XI XH))))))))))))))))))))))))))))) :: ((Npos (XI (XO (XO (XO (XI
    (XO (XI (XO (XI (XO (XI (XO (XI (XO (XO (XO (XI (XI (XI (XI (XI (XI (XO
    (XI (XI (XI (XI (XO (XO (XI XH))))))))))))))))))))))))))))))) :: ((Npos
    (XI (XO (XI (XI (XO (XI (XO (XO (XO (XI (XI (XI (XI (XO (XI (XO (XO (XI
    (XI (XO (XO (XI (XO (XO (XO (XI (XI (XO (XI (XO (XI
    XH)))))))))))))))))))))))))))))))) :: ((Npos (XI (XO (XO (XI (XO (XO (XO
    (XO (XI (XI (XO (XO (XI (XO (XI (XI (XI (XI (XO (XO (XO (XI (XI (XI (XI
    (XO (XI (XO (XO (XI XH))))))))))))))))))))))))))))))) :: ((Npos (XI (XI
    (XO (XI (XO (XI (XI (XI (XO (XO (XI (XI (XO (XO (XO (XO (XO (XI (XI (XO
    (XI (XI (XO (XI (XO (XO (XI (XI (XI (XO (XI
    XH)))))))))))))))))))))))))))))))) :: ((Npos (XO (XO (XO (XO (XO (XI (XO
    (XI (XI (XO (XO (XI (XO (XI (XO (XI (XO (XI (XO (XI (XI (XO (XO (XI (XO
    (XI (XO (XO (XI (XO (XI XH)))))))))))))))))))))))))))))))) :: ((Npos (XI
    (XO (XO (XI (XO (XO (XI (XO (XI (XO (XO (XO (XO (XO (XI (XI (XI (XO (XO
    (XI (XI (XO (XI (XI (XI (XO (XO (XO (XO (XI
    XH))))))))))))))))))))))))))))))) :: ((Npos (XO (XI (XO (XO (XI (XI (XI
    (XI (XO (XI (XO (XI (XO (XI (XO (XI (XO (XO (XO (XO (XI (XI (XO (XI (XO
    (XI (XO XH)))))))))))))))))))))))))))) :: ((Npos (XO (XO (XO (XO (XI (XI
    (XO (XI (XO (XI (XO (XI (XI (XO (XI (XI (XI (XI (XO (XO (XO (XI (XI (XI
    (XI (XO (XI (XI (XO (XO (XO XH)))))))))))))))))))))))))))))))) :: ((Npos
    (XO (XO (XO (XO (XO (XO (XI (XO (XO (XO (XO (XI (XI (XO (XO (XO (XI (XO
    (XI (XI (XI (XO (XO (XI (XO (XI (XO (XI (XO (XI (XI
    XH)))))))))))))))))))))))))))))))) :: ((Npos (XO (XO (XI (XI (XO (XO (XO
    (XO (XO (XO (XI (XI (XO (XO (XO (XI (XO (XO (XO (XI (XO (XI (XO (XI (XI
    (XI (XO (XI (XI (XO (XI XH)))))))))))))))))))))))))))))))) :: ((Npos (XO
    (XO (XO (XI (XI (XI (XO (XO (XO (XI (XI (XO (XI (XO (XO (XI (XO (XO (XO
    (XO (XO (XI (XO (XO (XO (XO (XI (XI (XI (XI (XO
    XH)))))))))))))))))))))))))))))))) :: ((Npos (XI (XO (XI (XO (XI (XO (XI
    (XI (XO (XI (XI (XI (XI (XI (XO (XI (XI (XO (XI (XO (XO (XO (XO (XI (XO
    (XI (XI (XI (XO (XI XH))))))))))))))))))))))))))))))) :: ((Npos (XI (XI
    (XO (XI (XI (XI (XO (XO (XI (XO (XI (XI (XO (XI (XO (XO (XI (XO (XO (XO
    (XI (XO (XO (XI (XO (XI (XO (XI (XO (XI (XO
    XH)))))))))))))))))))))))))))))))) :: ((Npos (XO (XI (XO (XO (XO (XI (XI
    (XI (XI (XO (XI (XI (XI (XI (XO (XO (XI (XI (XI (XO (XI (XO (XI (XO (XI
    (XO (XI (XI (XI (XI (XO XH)))))))))))))))))))))))))))))))) :: ((Npos (XO
    (XI (XO (XO (XO (XI (XI (XI (XO (XO (XO (XI (XI (XO (XI (XI (XI (XO (XO
    (XO (XO (XO (XI (XI (XI (XO (XO (XO (XI
    XH)))))))))))))))))))))))))))))) :: ((Npos (XI (XI (XI (XI (XO (XO (XI
    (XI (XO (XI (XI (XI (XO (XO (XO (XO (XO (XO (XO (XO (XO (XO (XI (XI (XI
    (XI (XO (XO XH))))))))))))))))))))))))))))) :: ((Npos (XI (XI (XI (XO (XI
    (XI (XO (XO (XI (XI (XO (XO (XO (XI (XI (XI (XI (XO (XI (XI (XI (XO (XI
    (XI (XO (XI (XI (XI XH))))))))))))))))))))))))))))) :: ((Npos (XO (XO (XI
    (XO (XI (XI (XO (XO (XO (XO (XO (XI (XO (XO (XO (XI (XI (XI (XO (XI (XO
    (XI (XI (XO (XI (XI (XO (XO (XI (XI (XO
    XH)))))))))))))))))))))))))))))))) :: ((Npos (XI (XO (XO (XO (XI (XO (XI
    (XI (XO (XI (XI (XI (XO (XO (XO (XO (XO (XO (XI (XI (XO (XI (XO (XO (XI
    (XI (XI (XI (XO (XI (XI XH)))))))))))))))))))))))))))))))) :: ((Npos (XI
    (XI (XO (XI (XO (XI (XI (XI (XO (XI (XO (XI (XI (XO (XO (XI (XI (XI (XI
    (XO (XO (XI (XO (XO (XO (XO (XI (XO (XO (XO (XO
    XH)))))))))))))))))))))))))))))))) :: ((Npos (XI (XO (XO (XO (XO (XI (XO
    (XO (XI (XI (XI (XO (XO (XI (XI (XO (XO (XI (XI (XI (XO (XI (XI (XI (XI
    (XI (XI (XI (XI (XO (XI XH)))))))))))))))))))))))))))))))) :: ((Npos (XO
    (XI (XI (XI (XI (XO (XI (XI (XO (XI (XO (XO (XO (XO (XI (XI (XO (XO (XI
    (XO (XI (XI (XI (XO (XI (XI (XI (XO (XI (XI (XO
    XH)))))))))))))))))))))))))))))))) :: ((Npos (XI (XI (XI (XI (XI (XI (XI
    (XI (XO (XO (XI (XI (XI (XI (XO (XI (XO (XO (XI (XI (XI (XI (XI (XO (XO
    (XI (XO (XI (XI (XI XH))))))))))))))))))))))))))))))) :: ((Npos (XI (XO
    (XO (XI (XI (XI (XO (XO (XI (XI (XI (XO (XI (XO (XO (XO (XI (XI (XO (XI
    (XO (XI (XO (XI (XI (XI (XI (XO (XI (XI (XO
    XH)))))))))))))))))))))))))))))))) :: ((Npos (XO (XO (XI (XI (XI (XO (XO
    (XI (XI (XO (XO (XO (XI (XO (XO (XO (XI (XI (XI (XI (XO (XI (XO (XO (XO
    (XO (XO (XI (XO (XI (XI XH)))))))))))))))))))))))))))))))) :: ((Npos (XI
    (XI (XI (XO (XO (XO (XI (XO (XO (XO (XI (XO (XO (XO (XI (XI (XI (XI (XO
    (XO (XO (XO (XO (XO (XO (XO (XI (XO (XO (XO
    XH))))))))))))))))))))))))))))))) :: ((Npos (XI (XO (XI (XI (XI (XI (XO
    (XI (XI (XO (XI (XI (XI (XO (XI (XI (XO (XI (XO (XO (XO (XI (XO (XI (XI
    (XO (XI (XI (XO (XO (XO XH)))))))))))))))))))))))))))))))) :: ((Npos (XI
    (XI (XI (XI (XO (XO (XI (XO (XI (XO (XO (XI (XO (XO (XI (XO (XI (XI (XO
    (XO (XI (XO (XO (XI (XO (XO (XI (XI (XI (XO (XO
    XH)))))))))))))))))))))))))))))))) :: ((Npos (XO (XO (XI (XO (XO (XI (XI
    (XI (XO (XO (XI (XI (XO (XI (XO (XI (XI (XO (XI (XO (XO (XO (XI (XO (XO
    (XO (XO (XI (XI (XO (XO XH)))))))))))))))))))))))))))))))) :: ((Npos (XI
    (XO (XI (XI (XI (XI (XI (XO (XI (XI (XI (XO (XI (XO (XI (XO (XO (XI (XO
    (XI (XO (XI (XI (XI (XI (XI (XI (XO
    XH))))))))))))))))))))))))))))) :: ((Npos (XO (XI (XO (XO (XO (XO (XO (XO
    (XO (XO (XO (XI (XI (XO (XO (XI (XO (XI (XI (XO (XO (XO (XO (XO (XI (XI
    (XI (XO (XI (XO XH))))))))))))))))))))))))))))))) :: ((Npos (XO (XO (XO
    (XO (XI (XI (XI (XO (XI (XO (XI (XI (XI (XI (XO (XI (XO (XI (XO (XI (XO
    (XI (XI (XO (XO (XO (XO (XI (XO
    XH)))))))))))))))))))))))))))))) :: ((Npos (XI (XO (XO (XO (XI (XO (XO
    (XO (XO (XO (XO (XI (XI (XI (XI (XO (XO (XI (XO (XI (XI (XI (XI (XO (XI
    (XI (XI (XI (XI XH)))))))))))))))))))))))))))))) :: ((Npos (XO (XO (XO
    (XI (XI (XO (XI (XI (XO (XO (XI (XO (XO (XI (XO (XO (XI (XO (XI (XO (XI
    (XO (XO (XO (XO (XO (XO (XI (XI
    XH)))))))))))))))))))))))))))))) :: ((Npos (XO (XO (XI (XI (XO (XI (XO
    (XO (XO (XI (XO (XO (XO (XO (XO (XO (XO (XI (XI (XI (XI (XI (XO (XI (XI
    (XI (XO (XO (XO (XI XH))))))))))))))))))))))))))))))) :: ((Npos (XI (XI
    (XI (XO (XI (XI (XI (XO (XO (XO (XO (XI (XI (XO (XO (XO (XO (XI (XI (XO
    (XO (XO (XO (XI (XI (XI (XI (XI XH))))))))))))))))))))))))))))) :: ((Npos
    (XO (XI (XI (XO (XI (XI (XI (XO (XO (XI (XI (XO (XO (XI (XI (XO (XI (XI
    (XO (XO (XI (XO (XO (XO (XO (XI (XI (XO (XO (XI
    XH))))))))))))))))))))))))))))))) :: ((Npos (XO (XO (XI (XO (XI (XO (XO
    (XI (XI (XI (XO (XI (XI (XO (XO (XI (XO (XO (XO (XI (XI (XO (XI (XO (XO
    (XO (XO (XI (XI (XO (XI XH)))))))))))))))))))))))))))))))) :: ((Npos (XI
    (XI (XI (XO (XI (XI (XO (XI (XO (XO (XO (XO (XO (XI (XO (XO (XO (XI (XI
    (XO (XI (XI (XI (XI (XO (XO (XO (XO (XI (XO
    XH))))))))))))))))))))))))))))))) :: [])))))))))))))))))))))))))))))))))))))))))))))))))))))))))))))))))))))))))))))))))))))))))))))))))))))))))))))))))))))))))))))))))))))))))))))))))))))))))))))))))))))))))))))))))))))))))))))))))))))))))))))))))))))))))))))))))))))))))))))))))))))))))))))))

(** val rFC_V1 : n list **)

let rFC_V1 =
  (Npos (XI (XO (XI (XO (XO (XO (XI (XO (XI (XO (XO (XI (XI (XI (XO (XI (XI
    (XI (XI (XI (XI (XO (XO (XO (XO (XO (XO (XO (XI
    XH)))))))))))))))))))))))))))))) :: ((Npos (XI (XI (XI (XO (XO (XO (XI
    (XI (XO (XI (XO (XO (XI (XO (XI (XI (XO (XI (XI (XO (XO (XO (XI (XI (XI
    (XO (XO (XI (XI (XI XH))))))))))))))))))))))))))))))) :: ((Npos (XO (XO
    (XI (XO (XO (XI (XI (XI (XO (XI (XO (XO (XO (XO (XI (XI (XO (XI (XO (XO
    (XO (XI (XI (XI (XO (XI (XI (XO (XO (XO (XI
    XH)))))))))))))))))))))))))))))))) :: ((Npos (XI (XO (XO (XI (XO (XI (XI
    (XI (XO (XI (XI (XI (XO (XO (XO (XI (XO (XO (XI (XI (XI (XO (XO (XI (XI
    (XO (XI (XI (XO (XO XH))))))))))))))))))))))))))))))) :: ((Npos (XI (XI
    (XO (XI (XI (XI (XO (XO (XO (XO (XI (XI (XO (XO (XI (XI (XO (XO (XO (XO
    (XI (XO (XI (XI (XI (XI (XI (XO (XO (XO (XO
    XH)))))))))))))))))))))))))))))))) :: ((Npos (XO (XO (XI (XI (XO (XI (XI
    (XI (XI (XI (XO (XI (XI (XI (XO (XO (XI (XI (XI (XI (XI (XI (XO (XO (XO
    (XO (XO (XO (XO XH)))))))))))))))))))))))))))))) :: ((Npos (XO (XI (XI
    (XI (XO (XI (XO (XO (XI (XO (XO (XI (XO (XI (XI (XO (XO (XO (XO (XI (XO
    (XI (XI (XO (XO (XO (XI (XO (XO (XI
    XH))))))))))))))))))))))))))))))) :: ((Npos (XO (XI (XI (XO (XI (XO (XI
    (XI (XI (XI (XI (XO (XI (XO (XO (XO (XI (XI (XI (XO (XI (XI (XO (XO (XO
    (XI (XI (XO XH))))))))))))))))))))))))))))) :: ((Npos (XI (XO (XI (XI (XI
    (XO (XI (XI (XI (XO (XI (XI (XO (XI (XO (XI (XI (XI (XO (XI (XI (XO (XO
    (XO (XI (XO (XO (XO (XI (XO (XI
    XH)))))))))))))))))))))))))))))))) :: ((Npos (XI (XO (XI (XO (XI (XO (XO
    (XI (XI (XO (XO (XO (XI (XO (XI (XI (XO (XI (XI (XO (XO (XI (XI (XO (XI
    (XO (XO (XI (XO (XI XH))))))))))))))))))))))))))))))) :: ((Npos (XO (XO
    (XI (XI (XI (XO (XI (XO (XO (XO (XI (XI (XO (XO (XO (XI (XI (XO (XO (XI
    (XI (XI (XO (XI (XI (XI (XO (XI (XO (XO
    XH))))))))))))))))))))))))))))))) :: ((Npos (XO (XI (XI (XI (XI (XO (XO
    (XO (XO (XO (XI (XO (XI (XO (XO (XO (XI (XI (XI (XO (XO (XI (XO (XO (XI
    (XI (XO (XI (XI (XO (XO XH)))))))))))))))))))))))))))))))) :: ((Npos (XI
    (XO (XO (XI (XO (XO (XO (XO (XI (XI (XO (XI (XO (XI (XO (XO (XI (XI (XI
    (XO (XO (XI (XO (XO (XO (XI (XO (XI (XI (XI
    XH))))))))))))))))))))))))))))))) :: ((Npos (XI (XI (XO (XI (XI (XO (XI
    (XO (XO (XI (XI (XI (XO (XI (XI (XO (XO (XI (XO (XO (XI (XI (XI (XI (XI
    (XI (XI (XO (XO (XI (XI XH)))))))))))))))))))))))))))))))) :: ((Npos (XI
    (XO (XO (XI (XI (XI (XI (XO (XO (XI (XO (XO (XO (XI (XI (XO (XI (XI (XO
    (XO (XI (XO (XI (XO (XO (XO (XO (XO (XO (XO (XO
    XH)))))))))))))))))))))))))))))))) :: ((Npos (XI (XO (XO (XO (XI (XO (XI
    (XO (XO (XI (XO (XO (XO (XO (XI (XO (XO (XI (XO (XO (XO (XO (XI (XO (XI
    (XO (XI (XO (XI (XI (XI XH)))))))))))))))))))))))))))))))) :: ((Npos (XO
    (XI (XI (XO (XI (XO (XO (XO (XI (XI (XO (XI (XO (XO (XO (XI (XO (XO (XI
    (XI (XO (XO (XO (XI (XO (XI (XI (XO (XI
    XH)))))))))))))))))))))))))))))) :: ((Npos (XO (XI (XI (XI (XI (XO (XO
    (XI (XO (XO (XI (XO (XO (XO (XO (XI (XI (XO (XI (XI (XO (XO (XI (XI (XI
    (XI (XI (XI (XI (XO (XI XH)))))))))))))))))))))))))))))))) :: ((Npos (XO
    (XI (XO (XO (XI (XO (XO (XO (XI (XI (XI (XO (XI (XO (XI (XI (XO (XO (XO
    (XO (XO (XO (XI (XI (XI (XO (XO (XI (XO
    XH)))))))))))))))))))))))))))))) :: ((Npos (XI (XO (XO (XI (XO (XO (XO
    (XI (XI (XI (XO (XO (XO (XO (XO (XO (XI (XO (XI (XI (XO (XO (XO (XO (XI
    (XI (XI (XI (XI (XI XH))))))))))))))))))))))))))))))) :: ((Npos (XO (XI
    (XI (XO (XI (XO (XI (XO (XO (XO (XI (XI (XI (XO (XI (XO (XO (XO (XI (XO
    (XO (XO (XO (XO (XO (XI (XI (XI (XO (XO
    XH))))))))))))))))))))))))))))))) :: ((Npos (XO (XI (XI (XO (XO (XI (XI
    (XO (XO (XO (XI (XO (XO (XI (XO (XI (XO (XO (XO (XO (XO (XI (XI (XO (XI
    (XO (XI XH)))))))))))))))))))))))))))) :: ((Npos (XI (XI (XI (XO (XO (XO
    (XO (XI (XO (XI (XO (XO (XI (XI (XI (XO (XI (XO (XO (XO (XI (XO (XI (XO
    (XO (XI (XO (XO (XI (XI (XI XH)))))))))))))))))))))))))))))))) :: ((Npos
    (XO (XO (XO (XI (XI (XO (XI (XI (XO (XI (XO (XO (XO (XI (XO (XI (XI (XO
    (XO (XO (XO (XI (XI (XI (XO (XO (XO (XI (XI (XO (XI
    XH)))))))))))))))))))))))))))))))) :: ((Npos (XO (XO (XO (XI (XI (XO (XO
    (XI (XI (XI (XO (XO (XO (XI (XI (XO (XI (XO (XO (XI (XI (XO (XO (XO (XO
    (XO (XI (XO (XO (XI XH))))))))))))))))))))))))))))))) :: ((Npos (XO (XI
    (XO (XI (XO (XO (XI (XO (XO (XO (XI (XI (XO (XI (XO (XO (XO (XI (XI (XO
    (XO (XO (XO (XI (XO (XO (XI (XI (XO (XO (XI
    XH)))))))))))))))))))))))))))))))) :: ((Npos (XI (XO (XO (XO (XI (XO (XO
    (XI (XI (XO (XO (XI (XI (XI (XI (XO (XO (XI (XO (XO (XI (XO (XO (XO (XO
    (XI (XO (XI (XO (XI XH))))))))))))))))))))))))))))))) :: ((Npos (XO (XI
    (XI (XI (XI (XO (XO (XI (XI (XO (XO (XO (XO (XO (XO (XI (XI (XO (XI (XO
    (XO (XI (XI (XI (XO (XI (XI (XO (XI (XI (XO
    XH)))))))))))))))))))))))))))))))) :: ((Npos (XI (XO (XI (XO (XI (XI (XO
    (XO (XI (XO (XO (XI (XI (XI (XI (XO (XI (XO (XO (XO (XO (XI (XI (XI (XO
    (XO (XI (XO (XI (XO XH))))))))))))))))))))))))))))))) :: ((Npos (XO (XO
    (XO (XO (XI (XO (XO (XO (XO (XO (XI (XI (XO (XI (XO (XO (XI (XO (XO (XI
    (XI (XO (XO (XI (XI (XO (XI (XI (XI
    XH)))))))))))))))))))))))))))))) :: ((Npos (XI (XO (XI (XO (XI (XI (XO
    (XI (XO (XI (XI (XO (XO (XI (XO (XO (XO (XO (XI (XI (XO (XI (XI (XO (XI
    (XO (XO (XO (XI (XI (XI XH)))))))))))))))))))))))))))))))) :: ((Npos (XI
    (XO (XO (XO (XI (XI (XO (XI (XI (XI (XO (XI (XI (XO (XO (XO (XO (XO (XI
    (XO (XI (XO (XI (XI (XO (XO (XI (XO (XO (XO (XI
    XH)))))))))))))))))))))))))))))))) :: ((Npos (XI (XO (XI (XO (XI (XI (XO
    (XO (XO (XI (XO (XI (XI (XO (XI (XI (XI (XO (XO (XO (XI (XO (XO (XO (XI
    (XO (XO (XI XH))))))))))))))))))))))))))))) :: ((Npos (XI (XI (XO (XO (XO
    (XI (XO (XO (XO (XO (XI (XO (XO (XO (XO (XO (XI (XO (XO (XI (XI (XI (XI
    (XI (XO (XI (XO (XI (XO (XI (XO
    XH)))))))))))))))))))))))))))))))) :: ((Npos (XO (XI (XO (XI (XO (XI (XO
    (XI (XO (XO (XO (XO (XO (XO (XO (XO (XO (XO (XI (XO (XI (XO (XO (XI (XO
    (XI (XO (XO XH))))))))))))))))))))))))))))) :: ((Npos (XI (XI (XI (XO (XI
    (XO (XO (XO (XO (XI (XO (XO (XO (XO (XI (XI (XO (XO (XO (XO (XI (XI (XI
    (XO (XI (XI (XI XH)))))))))))))))))))))))))))) :: ((Npos (XI (XO (XI (XI
    (XO (XI (XI (XI (XO (XI (XO (XI (XO (XI (XO (XI (XI (XI (XO (XO (XI (XO
    (XI (XI (XI (XO (XO (XO (XI (XI (XI
    XH)))))))))))))))))))))))))))))))) :: ((Npos (XO (XO (XO (XO (XI (XO (XI
    (XO (XO (XI (XO (XO (XI (XI (XO (XO (XO (XI (XI (XO (XO (XI (XI (XI (XI
    (XO (XI (XI (XI (XO XH))))))))))))))))))))))))))))))) :: ((Npos (XI (XO
    (XO (XI (XO (XO (XI (XO (XO (XO (XO (XO (XO (XO (XO (XI (XO (XI (XI (XI
    (XO (XI (XI (XO (XI (XI (XI (XO (XI (XI (XI
    XH)))))))))))))))))))))))))))))))) :: ((Npos (XO (XO (XO (XI (XI (XI (XO
    (XO (XI (XI (XI (XO (XO (XO (XI (XO (XO (XI (XO (XO (XI (XO (XO (XI (XO
    (XI XH))))))))))))))))))))))))))) :: ((Npos (XI (XO (XO (XO (XO (XO (XO
    (XO (XO (XI (XO (XO (XO (XI (XO (XO (XI (XO (XO (XI (XI (XI (XO (XO (XI
    (XI (XO (XO (XI (XI (XO XH)))))))))))))))))))))))))))))))) :: ((Npos (XI
    (XO (XI (XO (XI (XO (XO (XO (XI (XI (XO (XO (XI (XO (XI (XI (XO (XO (XI
    (XI (XO (XI (XI (XI (XI (XI (XI (XI (XI (XI (XI
    XH)))))))))))))))))))))))))))))))) :: ((Npos (XO (XO (XI (XI (XI (XI (XI
    (XO (XI (XI (XI (XI (XO (XI (XI (XI (XO (XO (XO (XO (XI (XI (XO (XI (XO
    (XO (XO (XO (XI (XO (XI XH)))))))))))))))))))))))))))))))) :: ((Npos (XI
    (XI (XO (XI (XI (XI (XO (XI (XO (XI (XO (XO (XO (XI (XI (XO (XO (XO (XI
    (XI (XI (XI (XI (XO (XI (XI (XO (XI (XI
    XH)))))))))))))))))))))))))))))) :: ((Npos (XI (XI (XI (XO (XO (XI (XI
    (XI (XO (XO (XO (XI (XO (XO (XO (XI (XO (XI (XO (XO (XO (XO (XI (XI (XI
    (XO (XI (XI XH))))))))))))))))))))))))))))) :: ((Npos (XO (XI (XI (XO (XI
    (XI (XI (XO (XI (XI (XI (XI (XO (XI (XO (XI (XI (XO (XI (XI (XI (XO (XI
    (XI (XI (XI (XI (XO (XO (XO XH))))))))))))))))))))))))))))))) :: ((Npos
    (XI (XO (XO (XO (XO (XO (XO (XI (XO (XI (XO (XO (XO (XI (XO (XI (XI (XO
    (XI (XO (XO (XI (XO (XI (XO (XI (XO (XO (XI (XI (XO
    XH)))))))))))))))))))))))))))))))) :: ((Npos (XI (XO (XI (XO (XI (XO (XO
    (XI (XO (XI (XI (XI (XI (XI (XI (XI (XI (XI (XO (XI (XO (XI (XO (XO (XO
    (XI (XI (XO (XO XH)))))))))))))))))))))))))))))) :: ((Npos (XI (XI (XI
    (XO (XI (XO (XO (XI (XI (XO (XO (XI (XI (XI (XO (XI (XO (XI (XO (XO (XI
    (XI (XI (XO (XI (XO (XI (XO (XI (XI (XO
    XH)))))))))))))))))))))))))))))))) :: ((Npos (XI (XI (XI (XI (XI (XI (XO
    (XI (XI (XI (XI (XI (XO (XO (XI (XO (XO (XI (XO (XO (XO (XO (XO (XO (XI
    (XO (XI (XI XH))))))))))))))))))))))))))))) :: ((Npos (XO (XI (XI (XI (XI
    (XO (XI (XO (XO (XI (XO (XO (XO (XI (XI (XI (XO (XI (XO (XO (XO (XI (XO
    (XO (XO (XO (XO (XO (XO (XI (XO
    XH)))))))))))))))))))))))))))))))) :: ((Npos (XI (XO (XO (XO (XO (XO (XO
    (XO (XO (XI (XO (XO (XI (XO (XO (XI (XI (XO (XO (XI (XI (XI (XO (XI (XO
    (XI (XI (XI (XO (XO (XO XH)))))))))))))))))))))))))))))))) :: ((Npos (XI
    (XO (XI (XI (XO (XI (XO (XI (XO (XI (XO (XI (XI (XI (XI (XO (XI (XO (XI
    (XI (XO (XO (XI (XO (XO (XI (XI (XO (XI (XO (XO
    XH)))))))))))))))))))))))))))))))) :: ((Npos (XI (XI (XO (XO (XO (XO (XO
    (XO (XI (XO (XO (XI (XI (XO (XI (XI (XO (XI (XO (XI (XI (XI (XI (XI (XO
    XH)))))))))))))))))))))))))) :: ((Npos (XI (XI (XO (XI (XO (XI (XO (XO
    (XI (XI (XO (XI (XO (XO (XO (XO (XI (XO (XI (XI (XI (XO (XO (XO (XI (XO
    (XI (XO (XO (XI (XI XH)))))))))))))))))))))))))))))))) :: ((Npos (XO (XO
    (XI (XI (XO (XI (XI (XI (XO (XO (XI (XI (XO (XO (XI (XI (XI (XI (XI (XO
    (XO (XI (XI (XO (XO (XI (XO (XI (XI (XI (XI
    XH)))))))))))))))))))))))))))))))) :: ((Npos (XO (XI (XI (XO (XI (XO (XO
    (XI (XI (XO (XO (XI (XI (XI (XO (XO (XO (XI (XO (XI (XO (XO (XI (XI (XO
    (XO (XO (XI XH))))))))))))))))))))))))))))) :: ((Npos (XI (XO (XO (XI (XO
    (XO (XI (XO (XO (XI (XO (XO (XI (XI (XI (XO (XO (XI (XI (XO (XO (XI (XO
    (XO XH))))))))))))))))))))))))) :: ((Npos (XI (XI (XI (XO (XI (XO (XI (XO
    (XO (XO (XO (XO (XI (XO (XO (XO (XI (XI (XO (XO (XI (XI (XO (XO (XI (XI
    (XI (XI (XO (XO (XO XH)))))))))))))))))))))))))))))))) :: ((Npos (XO (XI
    (XI (XI (XI (XO (XO (XI (XI (XO (XO (XI (XI (XO (XI (XI (XI (XO (XO (XO
    (XO (XI (XI (XO (XI (XI (XI (XI (XI (XI
    XH))))))))))))))))))))))))))))))) :: ((Npos (XO (XO (XI (XO (XO (XO (XO
    (XO (XO (XO (XO (XO (XI (XO (XI (XI (XO (XO (XI (XO (XI (XI (XI (XI (XI
    (XI (XI (XO (XO (XI XH))))))))))))))))))))))))))))))) :: ((Npos (XI (XO
    (XI (XO (XO (XO (XI (XI (XO (XI (XO (XO (XI (XO (XO (XI (XI (XO (XO (XO
    (XI (XO (XO (XI (XO (XI (XO (XO (XO
    XH)))))))))))))))))))))))))))))) :: ((Npos (XO (XO (XO (XI (XO (XI (XO
    (XI (XI (XI (XO (XO (XO (XO (XI (XO (XO (XO (XI (XO (XI (XI (XI (XO (XI
    (XO (XO (XI (XI (XI XH))))))))))))))))))))))))))))))) :: ((Npos (XO (XI
    (XO (XI (XO (XI (XO (XO (XI (XI (XO (XO (XO (XI (XO (XO (XI (XI (XO (XI
    (XO (XO (XI (XI (XO (XI (XO (XO (XI
    XH)))))))))))))))))))))))))))))) :: ((Npos (XI (XO (XO (XO (XO (XO (XI
    (XO (XI (XO (XO (XI (XI (XI (XI (XI (XO (XI (XO (XO (XI (XO (XI (XI (XI
    (XI (XI (XI (XI (XO (XO XH)))))))))))))))))))))))))))))))) :: ((Npos (XO
    (XI (XI (XI (XI (XI (XI (XO (XI (XO (XO (XI (XO (XI (XO (XO (XO (XI (XO
    (XI (XO (XI (XI (XO (XO (XI (XI (XI (XI
    XH)))))))))))))))))))))))))))))) :: ((Npos (XO (XO (XO (XO (XI (XI (XI
    (XI (XO (XO (XI (XI (XI (XO (XI (XO (XO (XO (XO (XO (XO (XO (XI (XI (XI
    (XO (XO (XO (XI (XI (XO XH)))))))))))))))))))))))))))))))) :: ((Npos (XO
    (XI (XI (XI (XO (XI (XI (XI (XO (XO (XO (XI (XI (XO (XI (XI (XI (XO (XO
    (XO (XO (XO (XI (XO (XO (XI (XI (XO (XI
    XH)))))))))))))))))))))))))))))) :: ((Npos (XO (XO (XO (XI (XO (XO (XI
    (XI (XO (XO (XO (XI (XI (XO (XI (XO (XI (XO (XO (XI (XI (XO (XO (XI (XI
    (XO (XO (XI (XI (XI (XI XH)))))))))))))))))))))))))))))))) :: ((Npos (XO
    (XO (XO (XO (XO (XI (XI (XI (XI (XI (XI (XO (XO (XO (XI (XO (XO (XI (XI
    (XI (XI (XO (XI (XO (XO (XI (XO (XI (XI (XO (XO
    XH)))))))))))))))))))))))))))))))) :: ((Npos (XI (XI (XI (XO (XI (XI (XO
    (XI (XO (XI (XO (XI (XO (XO (XI (XI (XI (XO (XO (XI (XI (XI (XI (XI (XO
    (XI (XO (XI (XI XH)))))))))))))))))))))))))))))) :: ((Npos (XO (XO (XO
    (XI (XO (XO (XO (XO (XO (XO (XO (XO (XO (XO (XO (XI (XI (XI (XO (XO (XO
    (XO (XI (XO (XO (XO (XI (XO (XO (XO (XI
    XH)))))))))))))))))))))))))))))))) :: ((Npos (XI (XI (XI (XI (XI (XO (XO
    (XO (XI (XI (XI (XI (XI (XO (XI (XI (XI (XO (XI (XI (XO (XI (XO (XO (XO
    (XI (XI (XI XH))))))))))))))))))))))))))))) :: ((Npos (XO (XI (XO (XO (XI
    (XI (XI (XI (XI (XO (XI (XO (XI (XI (XO (XI (XI (XO (XI (XI (XI (XI (XI
    (XO (XO (XI (XO XH)))))))))))))))))))))))))))) :: ((Npos (XO (XO (XO (XO
    (XO (XI (XI (XI (XI (XI (XI (XO (XI (XO (XI (XI (XO (XO (XO (XO (XI (XI
    (XO (XO (XI (XI (XI (XI (XO (XI
    XH))))))))))))))))))))))))))))))) :: ((Npos (XO (XO (XO (XI (XO (XI (XO
    (XO (XI (XO (XO (XI (XI (XI (XO (XI (XI (XI (XI (XI (XI (XO (XO (XO (XO
    (XO (XI (XI (XI (XO (XO XH)))))))))))))))))))))))))))))))) :: ((Npos (XO
    (XI (XO (XO (XO (XO (XO (XO (XI (XO (XI (XI (XI (XO (XO (XI (XO (XI (XO
    (XI (XO (XI (XO (XI (XI (XO (XO (XO (XO
    XH)))))))))))))))))))))))))))))) :: ((Npos (XI (XO (XI (XO (XI (XI (XO
    (XI (XO (XI (XO (XO (XI (XO (XI (XI (XI (XO (XI (XO (XO (XO (XO (XO (XI
    (XI (XI (XO (XI (XI XH))))))))))))))))))))))))))))))) :: ((Npos (XI (XO
    (XO (XI (XI (XI (XO (XI (XI (XI (XI (XI (XI (XO (XI (XO (XI (XI (XI (XI
    (XI (XI (XO (XO (XO (XO (XI (XO XH))))))))))))))))))))))))))))) :: ((Npos
    (XO (XO (XI (XO (XI (XI (XO (XI (XO (XO (XI (XO (XO (XI (XO (XI (XI (XI
    (XI (XO (XO (XI (XO (XI (XO (XI (XO (XO (XI (XI (XI
    XH)))))))))))))))))))))))))))))))) :: ((Npos (XO (XO (XO (XO (XO (XO (XI
    (XO (XI (XI (XO (XI (XO (XO (XO (XO (XI (XO (XI (XO (XI (XI (XO (XI (XI
    (XI (XI (XO (XI (XO (XI XH)))))))))))))))))))))))))))))))) :: ((Npos (XO
    (XI (XI (XI (XI (XI (XO (XO (XO (XO (XO (XO (XI (XI (XO (XO (XO (XO (XO
    (XI (XI (XO (XI (XI (XI (XO (XI (XI (XI (XI
    XH))))))))))))))))))))))))))))))) :: ((Npos (XI (XO (XO (XO (XI (XO (XI
    (XO (XO (XI (XI (XI (XO (XI (XI (XO (XO (XO (XI (XO (XI (XI (XO (XO (XI
    (XO (XO (XO (XO (XO XH))))))))))))))))))))))))))))))) :: ((Npos (XO (XO
    (XO (XI (XO (XO (XI (XO (XO (XO (XO (XI (XI (XO (XO (XI (XI (XO (XO (XI
    (XI (XO (XO (XO (XI (XO (XO (XI (XI
    XH)))))))))))))))))))))))))))))) :: ((Npos (XO (XO (XO (XO (XO (XO (XI
    (XO (XO (XO (XO (XO (XO (XO (XO (XO (XI (XI (XO (XI (XO (XI (XO (XO (XI
    (XO (XI (XO (XI XH)))))))))))))))))))))))))))))) :: ((Npos (XO (XI (XI
    (XO (XI (XI (XI (XO (XI (XI (XI (XO (XI (XI (XI (XI (XO (XI (XO (XI (XO
    (XO (XO (XI (XO (XI (XI (XI (XO (XI
    XH))))))))))))))))))))))))))))))) :: ((Npos (XI (XI (XI (XO (XO (XI (XO
    (XO (XO (XI (XI (XI (XO (XI (XI (XI (XI (XO (XO (XI (XO (XI (XO (XI (XI
    (XI (XI (XI (XO (XI XH))))))))))))))))))))))))))))))) :: ((Npos (XI (XI
    (XI (XO (XI (XI (XO (XO (XO (XO (XI (XO (XO (XO (XI (XI (XO (XO (XI (XI
    (XO (XI (XI (XI (XO (XO (XI (XO (XI (XO (XO
    XH)))))))))))))))))))))))))))))))) :: ((Npos (XI (XI (XO (XO (XO (XI (XI
    (XI (XI (XI (XI (XI (XO (XO (XO (XI (XI (XO (XI (XO (XI (XO (XO (XI (XO
    (XO (XO (XO (XO (XI (XO XH)))))))))))))))))))))))))))))))) :: ((Npos (XO
    (XI (XO (XO (XO (XI (XO (XI (XO (XI (XI (XI (XI (XO (XI (XI (XO (XO (XO
    (XO (XO (XI (XI (XI (XO (XI (XO (XO (XI (XI
    XH))))))))))))))))))))))))))))))) :: ((Npos (XI (XO (XO (XO (XI (XO (XI
    (XO (XI (XI (XO (XI (XI (XI (XI (XO (XI (XO (XO (XO (XO (XI (XI (XO (XO
    (XI (XO (XO (XO (XI XH))))))))))))))))))))))))))))))) :: ((Npos (XI (XI
    (XI (XO (XI (XI (XI (XO (XO (XO (XO (XI (XI (XO (XO (XI (XO (XI (XI (XO
    (XI (XI (XI (XI (XO (XI (XO XH)))))))))))))))))))))))))))) :: ((Npos (XI
    (XO (XO (XO (XI (XI (XI (XI (XO (XI (XI (XI (XO (XI (XI (XI (XI (XO (XO
    (XI (XI (XI (XI (XO (XO (XI (XI (XO (XI (XI (XO
    XH)))))))))))))))))))))))))))))))) :: ((Npos (XO (XO (XI (XO (XO (XO (XI
    (XO (XI (XI (XO (XO (XI (XO (XI (XI (XI (XO (XO (XI (XI (XI (XO (XO (XI
    (XI (XO (XI (XI (XI XH))))))))))))))))))))))))))))))) :: ((Npos (XO (XO
    (XI (XO (XO (XO (XO (XO (XI (XO (XO (XO (XI (XI (XO (XI (XI (XO (XI (XO
    (XO (XI (XO (XI (XI (XO (XI XH)))))))))))))))))))))))))))) :: ((Npos (XO
    (XI (XI (XO (XO (XI (XI (XO (XI (XI (XO (XI (XI (XI (XI (XI (XI (XI (XO
    (XO (XI (XI (XO (XI (XO (XO (XO (XI (XO (XI (XI
    XH)))))))))))))))))))))))))))))))) :: ((Npos (XI (XO (XO (XI (XO (XI (XO
    (XO (XI (XO (XI (XO (XI (XI (XI (XI (XO (XO (XO (XO (XO (XI (XO (XO (XI
    (XI (XI (XI (XI (XO XH))))))))))))))))))))))))))))))) :: ((Npos (XO (XO
    (XI (XI (XI (XI (XO (XI (XO (XO (XO (XI (XI (XO (XI (XO (XI (XI (XO (XO
    (XO (XI (XO (XO (XO (XI (XO (XI (XO (XI
    XH))))))))))))))))))))))))))))))) :: ((Npos (XI (XI (XO (XI (XO (XI (XI
    (XI (XI (XI (XI (XI (XI (XO (XO (XI (XO (XO (XO (XO (XI (XO (XI (XI (XO
    (XI (XO (XO (XI (XO (XO XH)))))))))))))))))))))))))))))))) :: ((Npos (XI
    (XI (XI (XO (XI (XI (XO (XO (XO (XI (XI (XI (XI (XI (XO (XI (XO (XO (XO
    (XO (XI (XO (XI (XO (XO (XI (XO (XO
    XH))))))))))))))))))))))))))))) :: ((Npos (XI (XI (XI (XO (XO (XO (XO (XO
    (XO (XO (XI (XO (XO (XI (XI (XI (XO (XI (XI (XI (XI (XI (XI (XI (XO (XO
    (XO (XO (XO (XO (XI XH)))))))))))))))))))))))))))))))) :: ((Npos (XI (XI
    (XI (XO (XO (XI (XO (XI (XO (XI (XO (XI (XO (XO (XO (XO (XO (XO (XO (XI
    (XO (XI (XO (XI (XI (XO (XI (XO (XO (XI (XI
    XH)))))))))))))))))))))))))))))))) :: ((Npos (XO (XI (XI (XO (XO (XO (XO
    (XI (XO (XO (XO (XI (XO (XI (XO (XO (XI (XO (XO (XI (XI (XI (XI (XI (XO
    (XI (XI (XI (XO (XO (XO XH)))))))))))))))))))))))))))))))) :: ((Npos (XO
    (XO (XO (XI (XO (XI (XO (XO (XO (XO (XI (XI (XI (XO (XO (XI (XI (XI (XO
    (XO (XO (XO (XI (XI (XI (XI (XI (XI (XI (XO (XI
    XH)))))))))))))))))))))))))))))))) :: ((Npos (XI (XI (XI (XI (XO (XO (XO
    (XO (XO (XO (XO (XI (XI (XI (XO (XO (XO (XI (XI (XI (XI (XO (XO (XO (XI
    (XI (XI (XI XH))))))))))))))))))))))))))))) :: ((Npos (XO (XI (XO (XI (XI
    (XO (XI (XO (XI (XO (XO (XI (XO (XI (XO (XO (XI (XO (XO (XI (XI (XI (XO
    (XI (XO (XO (XO XH)))))))))))))))))))))))))))) :: ((Npos (XO (XO (XO (XI
    (XI (XI (XO (XO (XI (XO (XO (XI (XO (XO (XO (XO (XO (XO (XI (XI (XO (XI
    (XO (XI (XO (XO (XI (XO (XI (XI (XI
    XH)))))))))))))))))))))))))))))))) :: ((Npos (XO (XO (XI (XI (XO (XO (XI
    (XI (XI (XI (XI (XO (XI (XI (XO (XO (XI (XO (XO (XO (XI (XO (XO (XI (XO
    (XO (XI (XO (XI (XI (XO XH)))))))))))))))))))))))))))))))) :: ((Npos (XI
    (XI (XI (XI (XO (XO (XO (XI (XI (XO (XO (XI (XI (XO (XO (XI (XO (XI (XI
    (XO (XI (XO (XI (XO (XI (XI (XO (XO (XI (XO (XI
    XH)))))))))))))))))))))))))))))))) :: ((Npos (XO (XI (XI (XI (XI (XI (XI
    (XI (XO (XI (XO (XO (XO (XO (XO (XI (XO (XI (XO (XI (XO (XO (XI (XI (XI
    (XI (XO (XO XH))))))))))))))))))))))))))))) :: ((Npos (XI (XO (XI (XI (XO
    (XI (XO (XO (XO (XI (XO (XI (XO (XI (XO (XO (XO (XI (XI (XO (XI (XI (XO
    (XO (XO (XI (XO (XI (XI XH)))))))))))))))))))))))))))))) :: ((Npos (XI
    (XI (XI (XO (XO (XO (XI (XO (XO (XI (XI (XO (XI (XI (XO (XI (XO (XO (XI
    (XI (XO (XI (XO (XO (XO (XI (XO (XI (XI (XI (XO
    XH)))))))))))))))))))))))))))))))) :: ((Npos (XO (XO (XI (XO (XO (XO (XO
    (XI (XO (XO (XI (XI (XI (XO (XI (XO (XO (XO (XO (XI (XO (XO (XI (XO (XI
    (XO (XI (XO (XI (XI (XO XH)))))))))))))))))))))))))))))))) :: ((Npos (XO
    (XI (XO (XO (XO (XI (XO (XO (XO (XO (XO (XO (XO (XO (XI (XO (XI (XI (XI
    (XO (XI (XO (XO (XI (XO (XI (XI (XO (XO (XO (XO
    XH)))))))))))))))))))))))))))))))) :: ((Npos (XO (XO (XI (XO (XI (XI (XO
    (XO (XO (XI (XI (XI (XO (XO (XI (XO (XO (XO (XI (XO (XO (XO (XO (XI (XI
    (XI (XI (XI (XI (XI XH))))))))))))))))))))))))))))))) :: ((Npos (XI (XO
    (XI (XI (XI (XO (XI (XO (XO (XO (XO (XO (XI (XO (XO (XO (XO (XI (XI (XO
    (XI (XO (XI (XO (XI (XO (XO (XO (XO (XO (XI
    XH)))))))))))))))))))))))))))))))) :: ((Npos (XI (XO (XI (XI (XO (XI (XI
    (XI (XO (XI (XO (XO (XO (XI (XO (XI (XO (XO (XI (XI (XO (XO (XI (XO (XO
    (XO (XO (XO (XO (XO (XI XH)))))))))))))))))))))))))))))))) :: ((Npos (XO
    (XO (XI (XI (XI (XO (XO (XI (XO (XO (XI (XI (XI (XO (XI (XI (XO (XO (XI
    (XI (XI (XI (XI (XI (XO (XI (XO (XI (XI (XO (XI
    XH)))))))))))))))))))))))))))))))) :: ((Npos (XI (XO (XI (XI (XI (XI (XO
    (XO (XO (XI (XO (XI (XI (XO (XI (XO (XI (XI (XI (XI (XI (XO (XI (XI (XO
    (XO (XO (XO (XO (XI (XO XH)))))))))))))))))))))))))))))))) :: ((Npos (XO
    (XI (XI (XO (XI (XI (XI (XO (XO (XO (XO (XI (XI (XI (XI (XO (XI (XO (XI
    (XI (XI (XO (XI (XI (XI (XO (XI (XI (XO (XO (XI
    XH)))))))))))))))))))))))))))))))) :: ((Npos (XO (XI (XO (XI (XI (XO (XO
    (XO (XI (XI (XI (XI (XO (XO (XI (XO (XO (XO (XI (XO (XO (XO (XO (XO (XI
    (XO (XI (XO (XI (XI XH))))))))))))))))))))))))))))))) :: ((Npos (XI (XO
    (XI (XI (XI (XO (XO (XO (XI (XI (XO (XO (XO (XI (XO (XO (XO (XO (XI (XO
    (XI (XI (XO (XO (XI (XO (XO (XO (XI (XO (XI
    XH)))))))))))))))))))))))))))))))) :: ((Npos (XO (XI (XO (XO (XO (XO (XI
    (XI (XI (XI (XO (XO (XI (XO (XO (XI (XI (XI (XO (XO (XI (XO (XO (XI (XO
    (XO (XI (XI (XO (XO (XO XH)))))))))))))))))))))))))))))))) :: ((Npos (XO
    (XO (XO (XO (XI (XI (XO (XI (XO (XI (XI (XI (XI (XO (XI (XO (XI (XI (XO
    (XI (XO (XO (XO (XI (XO (XO (XI (XI (XO
    XH)))))))))))))))))))))))))))))) :: ((Npos (XO (XO (XI (XO (XO (XO (XI
    (XO (XI (XO (XI (XO (XO (XO (XI (XI (XO (XI (XO (XI (XO (XI (XO (XI (XO
    (XO (XI (XO (XI (XI XH))))))))))))))))))))))))))))))) :: ((Npos (XO (XI
    (XO (XO (XI (XI (XO (XO (XO (XO (XO (XI (XO (XI (XO (XI (XI (XI (XO (XI
    (XO (XI (XI (XO (XI (XO (XO (XO (XO (XO
    XH))))))))))))))))))))))))))))))) :: ((Npos (XO (XI (XI (XI (XI (XI (XO
    (XO (XO (XI (XO (XI (XO (XO (XI (XI (XI (XO (XI (XI (XO (XI (XO (XO (XI
    (XO (XO (XO (XI (XO (XO XH)))))))))))))))))))))))))))))))) :: ((Npos (XI
    (XO (XO (XO (XI (XI (XI (XI (XO (XO (XO (XI (XI (XO (XI (XO (XO (XI (XO
    (XI (XI (XI (XO (XI (XO (XI (XI (XO (XO (XI (XI
    XH)))))))))))))))))))))))))))))))) :: ((Npos (XI (XO (XI (XO (XO (XI (XI
    (XO (XI (XO (XO (XO (XI (XO (XI (XO (XI (XO (XI (XO (XI (XO (XO (XI (XO
    (XO (XO (XO (XI (XI XH))))))))))))))))))))))))))))))) :: ((Npos (XI (XO
    (XI (XO (XI (XO (XO (XI (XO (XI (XO (XI (XO (XI (XI (XO (XI (XO (XO (XO
    (XI (XI (XO (XI (XI (XO (XI (XI (XO (XI (XO
    XH)))))))))))))))))))))))))))))))) :: ((Npos (XO (XO (XO (XO (XO (XO (XO
    (XO (XI (XI (XO (XO (XO (XI (XO (XI (XO (XO (XO (XI (XO (XO (XO (XO (XO
    (XO (XO (XI (XI (XI (XI XH)))))))))))))))))))))))))))))))) :: ((Npos (XI
    (XI (XI (XI (XI (XI (XI (XI (XO (XI (XO (XI (XO (XI (XO (XO (XO (XI (XO
    (XO (XO (XI (XI (XI (XI (XI (XO (XI (XO (XO
    XH))))))))))))))))))))))))))))))) :: ((Npos (XO (XO (XI (XI (XI (XO (XO
    (XO (XO (XI (XO (XO (XI (XO (XI (XI (XO (XI (XO (XO (XO (XI (XI (XI (XO
    (XI (XO (XO (XO (XO (XI XH)))))))))))))))))))))))))))))))) :: ((Npos (XO
    (XO (XO (XI (XI (XI (XI (XI (XI (XO (XI (XO (XI (XO (XO (XO (XO (XO (XI
    (XI (XO (XI (XI (XO (XI (XI (XO (XI (XI (XO (XI
    XH)))))))))))))))))))))))))))))))) :: ((Npos (XO (XO (XI (XI (XO (XI (XI
    (XO (XI (XI (XI (XI (XO (XO (XI (XI (XO (XI (XI (XO (XI (XO (XO (XI (XO
    (XO (XO (XI XH))))))))))))))))))))))))))))) :: ((Npos (XI (XO (XI (XI (XI
    (XO (XO (XO (XO (XI (XI (XI (XO (XI (XO (XI (XI (XI (XI (XO (XO (XI (XI
    (XI (XO (XO (XI (XO (XO (XO XH))))))))))))))))))))))))))))))) :: ((Npos
    (XO (XI (XO (XI (XO (XO (XO (XO (XI (XO (XO (XO (XO (XO (XI (XI (XO (XI
    (XI (XI (XI (XO (XI (XI (XI (XI (XO (XO (XO (XI (XI
    XH)))))))))))))))))))))))))))))))) :: ((Npos (XI (XO (XO (XI (XO (XO (XO
    (XI (XI (XI (XI (XI (XO (XI (XO (XI (XO (XO (XO (XI (XI (XO (XO (XI (XI
    (XI (XI (XI (XI XH)))))))))))))))))))))))))))))) :: ((Npos (XI (XO (XI
    (XO (XI (XI (XO (XI (XI (XO (XO (XI (XO (XI (XO (XO (XO (XI (XO (XI (XI
    (XI (XI (XO (XO (XI (XI (XO (XI (XO (XI
    XH)))))))))))))))))))))))))))))))) :: ((Npos (XI (XO (XO (XO (XI (XO (XI
    (XI (XO (XI (XO (XO (XI (XO (XI (XO (XI (XO (XO (XI (XI (XI (XI (XI (XI
    (XO (XI (XO (XI (XI XH))))))))))))))))))))))))))))))) :: ((Npos (XI (XI
    (XI (XO (XO (XO (XO (XI (XO (XI (XO (XI (XI (XI (XI (XO (XI (XI (XO (XI
    (XO (XI (XI (XI (XI (XI (XO (XI (XI (XI
    XH))))))))))))))))))))))))))))))) :: ((Npos (XI (XO (XI (XO (XI (XO (XO
    (XO (XO (XO (XI (XO (XI (XI (XI (XI (XO (XI (XO (XI (XI (XI (XO (XO (XI
    (XI (XI (XO (XO (XO XH))))))))))))))))))))))))))))))) :: ((Npos (XI (XO
    (XI (XO (XI (XI (XI (XI (XO (XI (XI (XO (XI (XI (XO (XO (XI (XO (XI (XO
    (XO (XI (XI (XI (XI (XI (XI (XI (XI
    XH)))))))))))))))))))))))))))))) :: ((Npos (XI (XI (XO (XI (XO (XO (XO
    (XO (XI (XI (XI (XI (XI (XO (XI (XO (XO (XI (XO (XO (XI (XI (XO (XI (XI
    (XO (XO (XO (XO (XI (XO XH)))))))))))))))))))))))))))))))) :: ((Npos (XI
    (XI (XO (XO (XO (XI (XI (XI (XI (XO (XO (XO (XI (XI (XI (XO (XO (XO (XI
    (XO (XI (XO (XI (XO (XI (XO (XO (XI (XO (XO (XI
    XH)))))))))))))))))))))))))))))))) :: ((Npos (XI (XI (XI (XO (XI (XI (XO
    (XO (XO (XO (XO (XO (XO (XO (XO (XI (XI (XI (XI (XI (XO (XI (XO (XO (XO
    (XI (XO (XO (XO (XO (XO XH)))))))))))))))))))))))))))))))) :: ((Npos (XO
    (XO (XO (XO (XI (XO (XI (XI (XO (XO (XI (XI (XI (XO (XO (XO (XO (XI (XO
    (XO (XO (XO (XI (XI (XO (XO (XI (XI (XO
    XH)))))))))))))))))))))))))))))) :: ((Npos (XI (XI (XI (XO (XI (XO (XI
    (XO (XI (XI (XO (XI (XI (XO (XO (XO (XI (XI (XI (XI (XI (XO (XO (XO (XO
    (XI (XO (XI (XI (XO (XO XH)))))))))))))))))))))))))))))))) :: ((Npos (XO
    (XO (XO (XO (XO (XI (XO (XO (XI (XI (XO (XO (XO (XO (XI (XO (XO (XO (XO
    (XO (XI (XO (XI (XO (XI (XO (XI (XI (XI (XI (XI
    XH)))))))))))))))))))))))))))))))) :: ((Npos (XI (XI (XI (XO (XO (XI (XO
    (XO (XI (XO (XO (XO (XI (XI (XI (XI (XO (XI (XO (XI (XI (XI (XO (XO (XI
    (XO (XI (XI (XO (XI XH))))))))))))))))))))))))))))))) :: ((Npos (XO (XO
    (XO (XO (XO (XO (XI (XO (XO (XO (XI (XO (XO (XI (XO (XO (XO (XO (XO (XO
    (XI (XO (XO (XO (XI (XI (XI (XO (XO (XO
    XH))))))))))))))))))))))))))))))) :: ((Npos (XO (XI (XI (XI (XI (XO (XO
    (XO (XI (XO (XI (XO (XO (XO (XO (XO (XO (XI (XI (XI (XO (XI (XI (XO (XO
    (XO (XO (XI (XI XH)))))))))))))))))))))))))))))) :: ((Npos (XO (XO (XO
    (XO (XO (XI (XI (XI (XO (XI (XO (XI (XO (XO (XO (XI (XO (XO (XI (XI (XI
    (XO (XI (XI XH))))))))))))))))))))))))) :: ((Npos (XI (XI (XO (XI (XO (XI
    (XI (XO (XO (XO (XI (XI (XI (XI (XI (XO (XI (XO (XI (XO (XI (XI (XO (XO
    (XI (XO (XI (XI (XI (XI (XO XH)))))))))))))))))))))))))))))))) :: ((Npos
    (XO (XO (XO (XO (XI (XI (XI (XI (XO (XO (XI (XI (XO (XI (XO (XO (XI (XI
    (XI (XI (XO (XO (XO (XI (XI (XI (XO (XO (XI (XO (XI
    XH)))))))))))))))))))))))))))))))) :: ((Npos (XO (XO (XO (XI (XO (XI (XI
    (XI (XO (XI (XI (XI (XI (XI (XI (XO (XI (XO (XI (XO (XO (XI (XI (XI (XI
    (XO (XO (XO (XO (XI XH))))))))))))))))))))))))))))))) :: ((Npos (XO (XI
    (XO (XO (XI (XO (XI (XI (XI (XO (XO (XO (XI (XO (XI (XI (XI (XO (XO (XI
    (XO (XO (XO (XI (XI (XO (XO (XO (XI (XI
    XH))))))))))))))))))))))))))))))) :: ((Npos (XO (XO (XI (XI (XI (XO (XO
    (XI (XO (XO (XI (XO (XI (XI (XO (XO (XI (XI (XI (XI (XI (XO (XI (XO (XI
    (XI (XO (XO (XI XH)))))))))))))))))))))))))))))) :: ((Npos (XO (XO (XO
    (XO (XI (XI (XO (XO (XO (XI (XI (XO (XO (XI (XO (XI (XI (XI (XI (XI (XI
    (XO (XI (XO (XI (XI (XO (XO (XO (XO (XI
    XH)))))))))))))))))))))))))))))))) :: ((Npos (XO (XI (XI (XI (XI (XO (XO
    (XI (XO (XO (XI (XO (XO (XI (XI (XO (XO (XI (XI (XO (XI (XO (XI (XO (XO
    (XI (XI (XI (XI (XI (XI XH)))))))))))))))))))))))))))))))) :: ((Npos (XI
    (XO (XI (XO (XO (XO (XO (XO (XO (XI (XO (XO (XI (XO (XO (XO (XI (XI (XO
    (XO (XO (XI (XO (XO (XO (XI (XO (XI (XI (XI (XO
    XH)))))))))))))))))))))))))))))))) :: ((Npos (XI (XO (XI (XI (XI (XO (XO
    (XO (XI (XO (XO (XO (XI (XO (XI (XI (XO (XO (XO (XI (XI (XI (XO (XI (XI
    (XI (XI (XO (XO XH)))))))))))))))))))))))))))))) :: ((Npos (XO (XI (XI
    (XO (XO (XO (XI (XI (XI (XI (XO (XI (XO (XO (XO (XI (XI (XO (XI (XO (XO
    (XI (XI (XO (XO (XI (XI (XO (XO
    XH)))))))))))))))))))))))))))))) :: ((Npos (XI (XI (XO (XO (XO (XO (XO
    (XI (XI (XO (XI (XI (XI (XI (XO (XI (XI (XI (XI (XI (XI (XI (XI (XO (XI
    (XO (XI XH)))))))))))))))))))))))))))) :: ((Npos (XI (XI (XI (XO (XO (XI
    (XI (XO (XO (XI (XI (XI (XI (XI (XI (XO (XO (XO (XO (XI (XI (XO (XI (XO
    (XO (XI (XO (XO XH))))))))))))))))))))))))))))) :: ((Npos (XI (XI (XI (XI
    (XI (XO (XO (XI (XI (XI (XI (XI (XI (XO (XO (XO (XI (XI (XO (XI (XO (XO
    (XI (XO (XI (XI (XI (XO (XO (XO
    XH))))))))))))))))))))))))))))))) :: ((Npos (XI (XI (XI (XI (XI (XI (XO
    (XO (XO (XI (XO (XI (XI (XO (XI (XO (XI (XO (XI (XI (XI (XI (XO (XO (XO
    (XI (XI (XI (XI (XI (XO XH)))))))))))))))))))))))))))))))) :: ((Npos (XI
    (XO (XI (XI (XI (XI (XO (XO (XO (XI (XO (XO (XO (XI (XI (XO (XI (XO (XO
    (XI (XO (XI (XO (XI (XO (XI (XI (XI (XO
    XH)))))))))))))))))))))))))))))) :: ((Npos (XI (XO (XI (XO (XO (XI (XO
    (XI (XI (XO (XO (XO (XO (XI (XI (XI (XI (XI (XI (XI (XI (XO (XI (XI (XI
    (XI (XI (XI (XI (XO XH))))))))))))))))))))))))))))))) :: ((Npos (XO (XO
    (XI (XI (XO (XO (XO (XO (XI (XI (XO (XO (XI (XI (XI (XO (XI (XO (XO (XO
    (XO (XI (XO (XO (XO (XI (XI (XI (XO (XI
    XH))))))))))))))))))))))))))))))) :: ((Npos (XO (XO (XI (XI (XI (XO (XI
    (XI (XO (XI (XI (XO (XI (XI (XO (XI (XI (XI (XO (XO (XI (XO (XO (XI (XO
    (XI (XO (XO (XI (XI (XI XH)))))))))))))))))))))))))))))))) :: ((Npos (XI
    (XO (XO (XO (XO (XI (XI (XI (XI (XI (XO (XI (XO (XI (XO (XI (XO (XI (XI
    (XO (XI (XO (XI (XO (XO (XI (XO (XI (XO (XI (XI
    XH)))))))))))))))))))))))))))))))) :: ((Npos (XI (XI (XO (XO (XO (XI (XI
    (XO (XI (XI (XO (XO (XO (XI (XI (XI (XO (XI (XI (XO (XI (XO (XO (XI (XO
    (XI (XI (XO (XI (XO (XO XH)))))))))))))))))))))))))))))))) :: ((Npos (XI
    (XI (XO (XO (XI (XI (XI (XI (XO (XI (XI (XI (XO (XI (XI (XO (XI (XO (XI
    (XO (XI (XI (XO (XI (XI (XO (XI (XI (XO
    XH)))))))))))))))))))))))))))))) :: ((Npos (XO (XO (XO (XO (XO (XO (XO
    (XO (XO (XO (XO (XO (XO (XI (XO (XI (XI (XO (XO (XO (XI (XO (XO (XO (XO
    (XI (XI (XI (XI (XI XH))))))))))))))))))))))))))))))) :: ((Npos (XO (XO
    (XO (XO (XI (XI (XO (XI (XI (XO (XI (XO (XI (XI (XI (XO (XI (XO (XO (XO
    (XO (XI (XI (XI (XI (XO (XI (XI (XI (XI (XI
    XH)))))))))))))))))))))))))))))))) :: ((Npos (XO (XO (XI (XI (XO (XI (XI
    (XO (XO (XI (XO (XO (XO (XI (XI (XO (XI (XI (XO (XI (XI (XO (XO (XO (XO
    (XI (XI (XO (XO (XO (XI XH)))))))))))))))))))))))))))))))) :: ((Npos (XI
    (XO (XO (XO (XI (XI (XO (XI (XO (XI (XI (XI (XO (XO (XI (XI (XO (XI (XO
    (XO (XO (XI (XI (XI (XI (XO (XO (XO (XO
    XH)))))))))))))))))))))))))))))) :: ((Npos (XI (XI (XO (XI (XO (XO (XI
    (XO (XI (XI (XO (XO (XO (XO (XO (XO (XO (XO (XO (XI (XI (XI (XO (XI (XO
    (XI (XI (XI (XI (XO (XI XH)))))))))))))))))))))))))))))))) :: ((Npos (XO
    (XI (XO (XO (XO (XI (XO (XI (XI (XI (XO (XI (XO (XO (XO (XO (XO (XI (XI
    (XI (XO (XO (XI (XO (XI (XI (XO (XI (XO (XI
    XH))))))))))))))))))))))))))))))) :: ((Npos (XI (XI (XO (XI (XI (XO (XO
    (XI (XI (XO (XO (XO (XO (XO (XI (XO (XI (XO (XO (XI (XO (XI (XO (XO (XI
    (XI (XI (XI (XO (XI (XI XH)))))))))))))))))))))))))))))))) :: ((Npos (XO
    (XI (XI (XI (XO (XI (XI (XI (XO (XO (XI (XO (XI (XO (XI (XI (XI (XI (XO
    (XI XH))))))))))))))))))))) :: ((Npos (XO (XI (XI (XO (XO (XI (XO (XI (XI
    (XO (XO (XO (XI (XI (XI (XI (XO (XI (XO (XI (XO (XI (XO (XI
    XH))))))))))))))))))))))))) :: ((Npos (XO (XI (XI (XI (XI (XO (XI (XI (XO
    (XO (XO (XI (XI (XO (XI (XO (XI (XO (XO (XO (XO (XI (XO (XI (XO (XO (XO
    (XI (XI (XI XH))))))))))))))))))))))))))))))) :: ((Npos (XO (XO (XO (XI
    (XO (XO (XI (XO (XO (XO (XO (XI (XI (XO (XO (XI (XI (XI (XO (XO (XI (XO
    (XI (XI (XI (XI (XO (XO (XI XH)))))))))))))))))))))))))))))) :: ((Npos
    (XO (XI (XO (XO (XO (XI (XO (XI (XO (XO (XO (XO (XO (XO (XO (XO (XI (XI
    (XO (XO (XI (XI (XO (XI (XI (XO (XO (XI
    XH))))))))))))))))))))))))))))) :: ((Npos (XI (XI (XI (XO (XI (XI (XO (XI
    (XO (XO (XI (XO (XO (XO (XI (XO (XI (XO (XI (XO (XI (XO (XO (XO (XI (XO
    (XI (XI (XI XH)))))))))))))))))))))))))))))) :: ((Npos (XI (XI (XO (XI
    (XI (XI (XI (XI (XO (XO (XI (XI (XO (XO (XI (XI (XI (XI (XI (XI (XI (XI
    (XI (XO (XO (XI (XI (XI (XO (XI
    XH))))))))))))))))))))))))))))))) :: ((Npos (XI (XI (XI (XI (XI (XI (XO
    (XI (XI (XI (XI (XO (XO (XO (XI (XO (XI (XO (XI (XO (XO (XO (XI (XO (XO
    (XI (XO (XI (XO (XO (XI XH)))))))))))))))))))))))))))))))) :: ((Npos (XO
    (XI (XI (XI (XI (XI (XI (XO (XI (XI (XO (XI (XO (XI (XI (XI (XO (XI (XO
    (XO (XI (XI (XI (XO (XI (XO (XO (XI (XI (XO
    XH))))))))))))))))))))))))))))))) :: ((Npos (XO (XO (XO (XI (XO (XO (XI
    (XI (XO (XI (XO (XI (XI (XI (XI (XO (XI (XO (XO (XI (XI (XI (XI (XI (XI
    (XI (XO (XO (XI (XI (XO XH)))))))))))))))))))))))))))))))) :: ((Npos (XI
    (XI (XO (XI (XO (XI (XI (XO (XI (XI (XO (XO (XI (XI (XI (XI (XI (XI (XI
    (XO (XO (XO (XO (XI (XO (XO (XO (XO (XI (XO
    XH))))))))))))))))))))))))))))))) :: ((Npos (XI (XI (XI (XI (XI (XI (XI
    (XI (XO (XO (XI (XO (XI (XI (XI (XO (XI (XI (XI (XO (XI (XO (XO (XI (XO
    (XO (XO (XI (XI (XI (XO XH)))))))))))))))))))))))))))))))) :: ((Npos (XO
    (XO (XI (XI (XO (XI (XI (XI (XO (XI (XO (XI (XI (XO (XI (XI (XO (XO (XO
    (XO (XO (XI (XI (XI (XO (XO (XI (XO (XI (XI (XO
    XH)))))))))))))))))))))))))))))))) :: ((Npos (XO (XI (XI (XO (XI (XI (XI
    (XI (XI (XI (XO (XI (XI (XI (XI (XO (XI (XI (XO (XI (XO (XI (XO (XI (XI
    (XI (XI (XO (XI (XO (XO XH)))))))))))))))))))))))))))))))) :: ((Npos (XI
    (XI (XI (XO (XI (XO (XI (XO (XI (XO (XO (XO (XI (XI (XO (XI (XO (XI (XI
    (XI (XI (XO (XI (XO (XI (XO (XO (XI (XO (XO
    XH))))))))))))))))))))))))))))))) :: ((Npos (XO (XI (XI (XI (XO (XO (XO
    (XO (XO (XI (XO (XO (XI (XO (XO (XI (XI (XI (XI (XO (XO (XI (XI (XO (XO
    (XO (XO (XI (XO (XO (XI XH)))))))))))))))))))))))))))))))) :: ((Npos (XI
    (XO (XO (XI (XI (XO (XO (XI (XO (XO (XI (XI (XO (XI (XO (XO (XI (XO (XO
    (XI (XO (XO (XO (XI (XI (XO (XO XH)))))))))))))))))))))))))))) :: ((Npos
    (XI (XO (XI (XO (XO (XI (XI (XI (XO (XI (XO (XO (XI (XO (XO (XO (XI (XO
    (XI (XI (XO (XO (XI (XO (XI (XO (XI (XI
    XH))))))))))))))))))))))))))))) :: ((Npos (XO (XI (XI (XO (XI (XI (XI (XI
    (XI (XO (XO (XI (XO (XI (XO (XI (XI (XO (XI (XI (XO (XO (XO (XO (XO (XI
    (XI (XI (XO (XI (XI XH)))))))))))))))))))))))))))))))) :: ((Npos (XO (XI
    (XI (XO (XO (XO (XO (XI (XO (XO (XO (XI (XO (XI (XO (XI (XO (XO (XI (XO
    (XI (XI (XI (XO (XI (XI (XO (XI (XI (XO (XI
    XH)))))))))))))))))))))))))))))))) :: ((Npos (XI (XI (XO (XI (XO (XO (XI
    (XO (XO (XI (XI (XI (XI (XI (XO (XI (XI (XI (XO (XI (XI (XO (XI (XI (XI
    (XO (XI (XO (XI XH)))))))))))))))))))))))))))))) :: ((Npos (XO (XO (XO
    (XI (XO (XO (XI (XI (XI (XO (XI (XO (XO (XO (XI (XI (XO (XO (XI (XO (XI
    (XI (XO (XI (XO (XI (XO (XO (XI (XO (XI
    XH)))))))))))))))))))))))))))))))) :: ((Npos (XI (XO (XO (XO (XI (XO (XI
    (XO (XI (XO (XO (XO (XI (XO (XI (XI (XO (XI (XI (XO (XO (XO (XI (XO (XI
    (XI (XO (XI (XO (XI XH))))))))))))))))))))))))))))))) :: ((Npos (XI (XO
    (XI (XO (XI (XO (XI (XO (XI (XO (XI (XI (XO (XO (XI (XI (XO (XI (XO (XO
    (XI (XO (XO (XO (XO (XI (XI (XI (XO
    XH)))))))))))))))))))))))))))))) :: ((Npos (XO (XO (XO (XI (XO (XO (XI
    (XO (XI (XO (XO (XI (XO (XO (XI (XI (XI (XO (XI (XO (XO (XI (XI (XO (XI
    (XO (XI (XO (XI XH)))))))))))))))))))))))))))))) :: ((Npos (XI (XI (XO
    (XO (XI (XI (XI (XO (XO (XI (XI (XI (XI (XI (XI (XI (XO (XO (XO (XO (XI
    (XI (XO (XO (XI (XO (XO (XO (XI (XI
    XH))))))))))))))))))))))))))))))) :: ((Npos (XO (XO (XI (XO (XI (XI (XI
    (XI (XO (XI (XI (XO (XI (XI (XI (XO (XI (XO (XI (XO (XI (XO (XO (XI (XI
    (XO (XO (XI (XI (XI (XI XH)))))))))))))))))))))))))))))))) :: ((Npos (XO
    (XO (XO (XO (XI (XI (XO (XO (XI (XI (XO (XO (XI (XI (XO (XO (XO (XI (XO
    (XO (XI (XO (XO (XO (XO (XI XH))))))))))))))))))))))))))) :: ((Npos (XI
    (XI (XO (XI (XO (XO (XI (XI (XO (XI (XO (XI (XI (XI (XI (XO (XO (XO (XI
    (XI (XI (XI (XI (XI (XI (XO (XI XH)))))))))))))))))))))))))))) :: ((Npos
    (XI (XO (XO (XO (XI (XI (XI (XO (XO (XO (XI (XO (XO (XI (XO (XI (XO (XI
    (XO (XI (XI (XI (XO (XI (XI (XO (XI (XI (XI (XI (XO
    XH)))))))))))))))))))))))))))))))) :: ((Npos (XO (XO (XI (XI (XO (XO (XO
    (XI (XO (XO (XI (XO (XO (XI (XO (XO (XO (XO (XI (XO (XO (XI (XO (XO (XO
    (XI (XI (XI (XI (XI (XO XH)))))))))))))))))))))))))))))))) :: ((Npos (XI
    (XO (XI (XO (XO (XI (XI (XI (XI (XI (XI (XO (XO (XO (XI (XI (XI (XI (XO
    (XO (XI (XO (XI (XO (XI (XI (XI (XI
    XH))))))))))))))))))))))))))))) :: ((Npos (XI (XO (XO (XI (XI (XI (XO (XO
    (XI (XO (XO (XI (XO (XO (XO (XI (XI (XI (XO (XO (XI (XI (XO (XI (XO (XO
    (XI (XI (XO (XO XH))))))))))))))))))))))))))))))) :: ((Npos (XO (XI (XI
    (XO (XO (XO (XI (XO (XI (XO (XI (XI (XI (XO (XO (XO (XI (XI (XO (XI (XO
    (XI (XO (XO (XI (XI (XO (XI XH))))))))))))))))))))))))))))) :: ((Npos (XI
    (XI (XI (XO (XO (XO (XO (XI (XO (XI (XO (XO (XI (XI (XI (XO (XI (XO (XO
    (XI (XO (XI (XI (XO (XI (XI (XI (XI (XO (XI
    XH))))))))))))))))))))))))))))))) :: ((Npos (XO (XI (XO (XO (XI (XO (XO
    (XO (XI (XI (XO (XO (XO (XI (XI (XI (XO (XI (XI (XI (XI (XI (XI (XI (XO
    (XI (XI (XO (XI XH)))))))))))))))))))))))))))))) :: ((Npos (XO (XI (XI
    (XO (XI (XO (XI (XO (XI (XI (XO (XO (XO (XI (XI (XI (XO (XO (XI (XI (XI
    (XO (XO (XO (XI (XI (XI (XO (XO (XI (XI
    XH)))))))))))))))))))))))))))))))) :: ((Npos (XO (XI (XO (XO (XO (XO (XO
    (XI (XO (XI (XI (XI (XO (XO (XO (XI (XI (XO (XI (XI (XI (XI (XI (XI (XI
    (XI (XO (XI (XO (XO (XI XH)))))))))))))))))))))))))))))))) :: ((Npos (XI
    (XI (XI (XI (XI (XO (XO (XO (XO (XI (XO (XI (XI (XI (XO (XO (XI (XO (XI
    (XI (XO (XO (XI (XO (XO (XO (XI (XO (XI (XO
    XH))))))))))))))))))))))))))))))) :: ((Npos (XO (XO (XO (XO (XI (XO (XO
    (XO (XO (XO (XO (XI (XO (XI (XI (XI (XI (XI (XO (XI (XI (XI (XI (XO (XI
    (XO (XI (XO (XI (XI XH))))))))))))))))))))))))))))))) :: ((Npos (XO (XI
    (XI (XO (XO (XI (XO (XI (XO (XO (XI (XO (XI (XO (XI (XO (XI (XI (XI (XI
    (XI (XI (XI (XO (XO (XI (XI (XO (XI (XI (XO
    XH)))))))))))))))))))))))))))))))) :: ((Npos (XO (XO (XO (XI (XI (XO (XI
    (XI (XI (XI (XO (XO (XO (XO (XI (XO (XI (XO (XO (XO (XO (XO (XO (XI (XI
    (XO (XO (XO (XI XH)))))))))))))))))))))))))))))) :: ((Npos (XI (XO (XI
    (XO (XI (XI (XO (XO (XI (XO (XI (XI (XI (XO (XO (XO (XO (XI (XO (XO (XO
    (XO (XI (XO (XO (XO (XO (XI (XO (XI (XO
    XH)))))))))))))))))))))))))))))))) :: ((Npos (XO (XI (XI (XO (XO (XI (XI
    (XO (XI (XO (XO (XI (XI (XI (XO (XI (XO (XO (XI (XO (XI (XI (XI (XI (XI
    (XO (XO XH)))))))))))))))))))))))))))) :: ((Npos (XO (XO (XI (XO (XO (XI
    (XI (XO (XO (XO (XI (XI (XI (XO (XI (XO (XO (XI (XO (XO (XI (XO (XI (XO
    (XO (XO (XO (XO (XO (XO XH))))))))))))))))))))))))))))))) :: ((Npos (XI
    (XI (XO (XO (XO (XO (XO (XI (XI (XI (XI (XI (XO (XI (XI (XO (XI (XO (XO
    (XO (XI (XI (XI (XI (XO (XI (XO (XI (XI (XI (XI
    XH)))))))))))))))))))))))))))))))) :: ((Npos (XO (XO (XI (XI (XO (XI (XO
    (XI (XO (XO (XO (XO (XO (XO (XO (XO (XI (XO (XI (XO (XI (XI (XO (XO (XO
    (XI (XI (XO (XI (XO (XI XH)))))))))))))))))))))))))))))))) :: ((Npos (XO
    (XI (XO (XI (XI (XI (XO (XI (XO (XI (XI (XO (XI (XI (XI (XI (XO (XO (XI
    (XO (XI (XO (XO (XI (XI (XO (XO (XI
    XH))))))))))))))))))))))))))))) :: ((Npos (XO (XI (XI (XI (XI (XI (XI (XI
    (XI (XI (XO (XO (XI (XI (XO (XI (XI (XO (XI (XI (XO (XI (XO (XO (XO (XI
    (XI (XO XH))))))))))))))))))))))))))))) :: ((Npos (XO (XI (XO (XI (XI (XI
    (XO (XO (XO (XO (XO (XO (XO (XO (XI (XO (XO (XO (XI (XI (XO (XO (XO (XO
    (XO (XI (XO (XI (XO (XI XH))))))))))))))))))))))))))))))) :: ((Npos (XI
    (XI (XI (XO (XO (XI (XI (XO (XI (XI (XI (XI (XI (XI (XI (XI (XI (XI (XO
    (XI (XO (XI (XI (XO (XI (XO (XI (XO (XO (XO (XI
    XH)))))))))))))))))))))))))))))))) :: ((Npos (XO (XO (XI (XO (XO (XI (XO
    (XI (XI (XI (XI (XI (XI (XO (XO (XO (XO (XI (XI (XI (XO (XI (XO (XO (XO
    (XO (XI XH)))))))))))))))))))))))))))) :: ((Npos (XO (XO (XO (XO (XO (XO
    (XI (XI (XI (XI (XI (XO (XO (XI (XI (XO (XI (XI (XI (XO (XI (XI (XI (XI
    (XO (XI (XO (XI XH))))))))))))))))))))))))))))) :: ((Npos (XO (XI (XI (XI
    (XO (XI (XO (XO (XI (XI (XO (XI (XI (XO (XI (XI (XO (XO (XI (XI (XO (XI
    (XI (XI (XO (XI (XI (XO (XO (XI (XO
    XH)))))))))))))))))))))))))))))))) :: ((Npos (XO (XO (XI (XO (XI (XI (XO
    (XO (XI (XO (XO (XI (XI (XI (XO (XI (XO (XI (XO (XO (XO (XO (XO (XI (XO
    (XI (XI (XI (XI (XO (XI XH)))))))))))))))))))))))))))))))) :: ((Npos (XI
    (XI (XI (XO (XI (XI (XO (XI (XO (XO (XI (XI (XI (XO (XI (XI (XI (XO (XI
    (XI (XI (XO (XO (XI (XI (XO (XO (XI (XO (XO
    XH))))))))))))))))))))))))))))))) :: ((Npos (XO (XO (XI (XO (XO (XO (XO
    (XI (XI (XI (XO (XO (XO (XI (XO (XI (XO (XO (XO (XI (XI (XI (XO (XO (XI
    (XO (XO (XI (XO (XI XH))))))))))))))))))))))))))))))) :: ((Npos (XO (XO
    (XI (XO (XI (XI (XO (XO (XO (XO (XO (XI (XO (XO (XO (XI (XO (XI (XO (XI
    (XI (XI (XO (XO (XI (XO (XI (XI (XI (XI (XO
    XH)))))))))))))))))))))))))))))))) :: ((Npos (XI (XI (XO (XI (XO (XI (XO
    (XO (XI (XO (XI (XI (XI (XI (XO (XI (XO (XI (XO (XI (XO (XO (XI (XO (XO
    (XO (XO (XO (XO (XI (XI XH)))))))))))))))))))))))))))))))) :: ((Npos (XO
    (XO (XO (XI (XI (XI (XI (XO (XO (XI (XI (XI (XO (XO (XI (XO (XO (XO (XO
    (XO (XI (XO (XO (XO (XI (XO (XI (XI (XI (XI (XO
    XH)))))))))))))))))))))))))))))))) :: ((Npos (XO (XI (XO (XI (XI (XI (XO
    (XI (XO (XI (XI (XO (XI (XO (XI (XI (XO (XI (XO (XI (XI (XO (XI (XO (XO
    (XI (XO (XI XH))))))))))))))))))))))))))))) :: ((Npos (XO (XI (XI (XO (XI
    (XI (XO (XO (XI (XI (XO (XO (XI (XO (XO (XI (XO (XI (XO (XO (XI (XO (XI
    (XI (XI (XI (XO XH)))))))))))))))))))))))))))) :: ((Npos (XI (XO (XI (XI
    (XO (XI (XI (XO (XI (XI (XI (XO (XO (XO (XO (XO (XI (XO (XI (XI (XI (XI
    (XO (XI (XO XH)))))))))))))))))))))))))) :: ((Npos (XI (XI (XI (XO (XO
    (XI (XO (XO (XO (XO (XI (XO (XI (XI (XI (XI (XI (XI (XO (XI (XO (XI (XI
    (XI (XO (XI (XI (XI (XO (XO XH))))))))))))))))))))))))))))))) :: ((Npos
    (XI (XI (XI (XO (XI (XI (XO (XO (XO (XO (XO (XO (XO (XO (XO (XO (XI (XI
    (XI (XO (XI (XI (XI (XI (XO (XO (XI (XI (XO (XI (XO
    XH)))))))))))))))))))))))))))))))) :: ((Npos (XO (XO (XO (XI (XO (XO (XO
    (XO (XI (XO (XI (XO (XI (XO (XO (XI (XO (XI (XI (XO (XI (XI (XI (XO (XO
    (XO (XO (XI (XO XH)))))))))))))))))))))))))))))) :: ((Npos (XI (XI (XO
    (XO (XI (XI (XI (XI (XI (XI (XI (XI (XI (XI (XI (XI (XI (XO (XO (XI (XI
    (XI (XO (XO (XI (XI (XO (XO (XO (XI (XI
    XH)))))))))))))))))))))))))))))))) :: ((Npos (XI (XO (XI (XO (XI (XI (XO
    (XO (XO (XI (XI (XO (XI (XI (XO (XO (XO (XO (XO (XO (XI (XI (XO (XO
    XH))))))))))))))))))))))))) :: ((Npos (XI (XO (XI (XI (XI (XI (XI (XI (XO
    (XI (XI (XO (XI (XO (XO (XI (XI (XI (XO (XI (XI (XI (XO (XI (XO (XI (XO
    (XO (XO (XO XH))))))))))))))))))))))))))))))) :: ((Npos (XO (XI (XO (XO
    (XI (XO (XI (XO (XI (XO (XO (XI (XI (XO (XI (XI (XI (XI (XI (XO (XI (XI
    (XI (XI (XO (XO (XO (XI (XI (XO (XI
    XH)))))))))))))))))))))))))))))))) :: ((Npos (XO (XO (XO (XI (XI (XO (XO
    (XO (XI (XO (XI (XI (XI (XO (XO (XI (XO (XI (XO (XI (XI (XO (XI (XO (XI
    (XI (XO (XO (XI (XO (XI XH)))))))))))))))))))))))))))))))) :: ((Npos (XO
    (XI (XI (XO (XI (XO (XO (XO (XI (XO (XI (XO (XI (XI (XI (XO (XO (XO (XO
    (XI (XI (XO (XI (XO (XI (XO (XI (XI (XI (XI
    XH))))))))))))))))))))))))))))))) :: ((Npos (XO (XI (XI (XO (XI (XO (XI
    (XI (XI (XO (XO (XI (XO (XO (XO (XO (XI (XI (XO (XO (XI (XO (XO (XI (XO
    (XO (XO (XI (XO (XI (XO XH)))))))))))))))))))))))))))))))) :: ((Npos (XI
    (XI (XI (XO (XO (XI (XI (XO (XI (XI (XI (XI (XO (XI (XO (XO (XI (XI (XI
    (XO (XO (XO (XI (XI (XO (XI (XI (XO (XI (XO (XI
    XH)))))))))))))))))))))))))))))))) :: ((Npos (XO (XO (XO (XO (XO (XO (XI
    (XI (XO (XI (XI (XO (XI (XO (XI (XI (XI (XI (XI (XO (XI (XI (XI (XO (XO
    (XI (XI (XO (XI (XI (XI
    XH)))))))))))))))))))))))))))))))) :: [])))))))))))))))))))))))))))))))))))))))))))))))))))))))))))))))))))))))))))))))))))))))))))))))))))))))))))))))))))))))))))))))))))))))))))))))))))))))))))))))))))))))))))))))))))))))))))))))))))))))))))))))))))))))))))))))))))))))))))))))))))))))))))))))

(** val rFC_V2 : n list **)

let rFC_V2 =
  (Npos (XO (XO (XI (XO (XO (XO (XO (XO (XI (XI (XO (XI (XI (XI (XO (XO (XI
    (XO (XI (XO (XO (XI (XO (XO (XI (XO (XO (XO (XO (XI
    XH))))))))))))))))))))))))))))))) :: ((Npos (XO (XO (XO (XO (XI (XO (XO
    (XI (XO (XO (XO (XI (XI (XI (XO (XO (XI (XI (XI (XO (XI (XO (XI (XI (XO
    (XO (XO (XO XH))))))))))))))))))))))))))))) :: ((Npos (XO (XI (XI (XI (XI
    (XO (XO (XI (XO (XI (XI (XO (XI (XI (XI (XI (XI (XO (XO (XO (XI (XO (XO
    (XI (XO (XI (XI (XO (XO (XI (XO
    XH)))))))))))))))))))))))))))))))) :: ((Npos (XO (XI (XI (XI (XI (XO (XI
    (XI (XI (XI (XI (XI (XO (XO (XO (XO (XO (XO (XO (XI (XI (XO (XO (XI (XI
    (XO (XI (XI XH))))))))))))))))))))))))))))) :: ((Npos (XO (XI (XO (XI (XI
    (XO (XI (XI (XO (XI (XO (XO (XI (XO (XI (XO (XI (XI (XI (XI (XI (XI (XO
    (XO (XO (XI (XO (XO (XI (XI (XO
    XH)))))))))))))))))))))))))))))))) :: ((Npos (XI (XI (XO (XI (XI (XO (XO
    (XO (XI (XO (XO (XO (XI (XI (XO (XO (XI (XI (XI (XO (XO (XO (XO (XO (XI
    (XI (XI (XO (XI (XI (XO XH)))))))))))))))))))))))))))))))) :: ((Npos (XI
    (XI (XI (XI (XO (XI (XO (XO (XO (XO (XI (XO (XI (XO (XO (XO (XO (XI (XO
    (XI (XO (XO (XO (XI (XI (XO (XO (XI (XI (XO (XO
    XH)))))))))))))))))))))))))))))))) :: ((Npos (XO (XO (XI (XO (XO (XI (XO
    (XO (XO (XI (XI (XI (XO (XO (XO (XO (XO (XI (XO (XO (XI (XO (XO (XO (XO
    (XO (XI (XO (XI (XI (XI XH)))))))))))))))))))))))))))))))) :: ((Npos (XO
    (XI (XO (XO (XO (XO (XO (XI (XO (XI (XI (XI (XO (XI (XO (XO (XO (XI (XO
    (XO (XI (XI (XI (XO (XI (XO (XI (XO (XO (XI (XO
    XH)))))))))))))))))))))))))))))))) :: ((Npos (XO (XO (XO (XO (XO (XI (XI
    (XO (XO (XI (XI (XI (XO (XI (XI (XI (XI (XI (XI (XO (XO (XI (XO (XO (XI
    (XI (XO (XO (XI (XI (XI XH)))))))))))))))))))))))))))))))) :: ((Npos (XI
    (XO (XI (XO (XI (XI (XO (XO (XO (XO (XI (XI (XI (XI (XI (XI (XI (XO (XI
    (XI (XI (XI (XI (XO (XO (XI (XO XH)))))))))))))))))))))))))))) :: ((Npos
    (XI (XI (XI (XI (XO (XO (XO (XI (XO (XO (XI (XI (XO (XI (XI (XI (XO (XI
    (XO (XO (XO (XI (XI (XI (XI (XO (XI (XO (XO (XO (XO
    XH)))))))))))))))))))))))))))))))) :: ((Npos (XI (XI (XI (XI (XO (XI (XO
    (XO (XI (XI (XI (XI (XI (XO (XO (XO (XI (XO (XI (XO (XI (XI (XI (XO (XO
    (XI (XI (XI (XI (XO (XI XH)))))))))))))))))))))))))))))))) :: ((Npos (XI
    (XI (XO (XO (XO (XO (XI (XO (XO (XI (XO (XI (XO (XI (XO (XO (XI (XO (XO
    (XO (XI (XI (XI (XI (XO (XI (XO (XO (XO (XO (XO
    XH)))))))))))))))))))))))))))))))) :: ((Npos (XO (XI (XI (XI (XI (XO (XO
    (XI (XO (XI (XI (XO (XI (XI (XI (XO (XO (XI (XI (XO (XO (XI (XI (XI (XI
    (XO (XI (XI (XO (XO XH))))))))))))))))))))))))))))))) :: ((Npos (XO (XO
    (XI (XI (XO (XO (XO (XI (XO (XO (XI (XI (XO (XO (XI (XO (XO (XO (XI (XI
    (XI (XO (XO (XI (XO (XO (XO (XI (XI (XI (XI
    XH)))))))))))))))))))))))))))))))) :: ((Npos (XI (XO (XO (XO (XI (XO (XO
    (XI (XO (XI (XI (XO (XO (XO (XO (XI (XI (XI (XO (XO (XO (XO (XI (XI (XO
    (XO (XO (XO (XI (XI (XI XH)))))))))))))))))))))))))))))))) :: ((Npos (XI
    (XO (XI (XI (XO (XO (XO (XO (XI (XI (XI (XO (XI (XO (XO (XI (XI (XI (XI
    (XI (XO (XO (XI (XO (XI (XI (XI (XI (XI (XI (XO
    XH)))))))))))))))))))))))))))))))) :: ((Npos (XI (XO (XI (XI (XO (XO (XO
    (XO (XO (XO (XI (XO (XO (XI (XO (XO (XI (XO (XO (XI (XO (XI (XI (XI (XI
    (XO (XO (XI (XO (XO (XI XH)))))))))))))))))))))))))))))))) :: ((Npos (XI
    (XO (XI (XI (XI (XI (XO (XO (XO (XI (XO (XI (XO (XO (XI (XI (XI (XI (XI
    (XO (XI (XI (XI (XO (XI (XO (XO (XO
    XH))))))))))))))))))))))))))))) :: ((Npos (XI (XI (XI (XO (XO (XO (XI (XI
    (XI (XO (XO (XI (XI (XO (XO (XI (XI (XI (XO (XI (XO (XI (XO (XO (XO (XI
    (XO (XI (XI (XO (XI XH)))))))))))))))))))))))))))))))) :: ((Npos (XO (XO
    (XI (XI (XI (XO (XO (XO (XO (XO (XO (XO (XO (XO (XO (XO (XO (XO (XI (XI
    (XI (XO (XI (XI (XI (XO (XI (XI (XI (XO (XO
    XH)))))))))))))))))))))))))))))))) :: ((Npos (XI (XI (XO (XI (XO (XO (XI
    (XI (XO (XI (XO (XO (XI (XI (XO (XO (XO (XI (XO (XO (XO (XI (XI (XI (XO
    (XI (XI (XO (XI (XO (XO XH)))))))))))))))))))))))))))))))) :: ((Npos (XO
    (XO (XI (XO (XI (XI (XI (XO (XI (XO (XO (XO (XO (XO (XI (XI (XI (XI (XI
    (XI (XI (XO (XI (XI (XO (XI (XO (XO (XI (XO (XI
    XH)))))))))))))))))))))))))))))))) :: ((Npos (XI (XI (XO (XO (XI (XO (XO
    (XO (XI (XI (XO (XO (XO (XO (XI (XI (XO (XO (XO (XI (XI (XO (XO (XO (XO
    (XI (XI (XI (XO XH)))))))))))))))))))))))))))))) :: ((Npos (XI (XO (XI
    (XI (XO (XO (XO (XI (XO (XO (XI (XO (XI (XO (XI (XO (XI (XO (XI (XI (XO
    (XI (XI (XO (XI (XO (XO (XI (XI (XI (XI
    XH)))))))))))))))))))))))))))))))) :: ((Npos (XI (XO (XI (XI (XO (XO (XI
    (XI (XO (XI (XI (XO (XO (XO (XO (XO (XO (XI (XO (XI (XO (XO (XO (XI (XI
    (XI (XO (XI (XO (XI XH))))))))))))))))))))))))))))))) :: ((Npos (XI (XI
    (XO (XO (XI (XI (XI (XO (XI (XO (XO (XI (XI (XO (XO (XO (XI (XO (XO (XO
    (XO (XO (XO (XI (XI (XI (XI (XO (XO (XO (XI
    XH)))))))))))))))))))))))))))))))) :: ((Npos (XI (XI (XI (XI (XO (XO (XI
    (XI (XO (XO (XI (XO (XI (XO (XO (XO (XI (XI (XO (XO (XO (XI (XI (XO (XI
    (XI (XI (XI (XO (XO (XI XH)))))))))))))))))))))))))))))))) :: ((Npos (XO
    (XI (XI (XI (XI (XI (XO (XO (XI (XI (XO (XO (XO (XO (XI (XO (XI (XO (XO
    (XI (XO (XI (XO (XI (XO (XO (XI (XI (XO (XI (XI
    XH)))))))))))))))))))))))))))))))) :: ((Npos (XO (XI (XO (XO (XO (XI (XI
    (XO (XI (XI (XI (XO (XO (XO (XO (XI (XI (XO (XO (XO (XO (XO (XI (XI (XO
    (XO (XO (XO (XI (XI XH))))))))))))))))))))))))))))))) :: ((Npos (XO (XI
    (XO (XO (XO (XO (XO (XO (XI (XI (XI (XI (XI (XO (XI (XI (XO (XO (XI (XO
    (XO (XI (XO (XO (XI (XO (XI (XI (XO (XO (XO
    XH)))))))))))))))))))))))))))))))) :: ((Npos (XI (XI (XO (XO (XI (XO (XI
    (XO (XO (XO (XO (XO (XI (XO (XI (XO (XI (XI (XO (XI (XI (XO (XI (XI (XO
    (XI (XO (XO (XI (XO (XI XH)))))))))))))))))))))))))))))))) :: ((Npos (XO
    (XI (XO (XI (XO (XO (XO (XO (XI (XI (XO (XO (XO (XO (XI (XI (XI (XO (XO
    (XI (XI (XI (XI (XI (XO (XO (XO (XO (XI (XI (XO
    XH)))))))))))))))))))))))))))))))) :: ((Npos (XO (XI (XI (XI (XO (XI (XO
    (XI (XO (XO (XI (XI (XO (XO (XO (XO (XO (XO (XI (XI (XO (XI (XO (XO (XO
    (XO (XI (XI (XI (XI (XI XH)))))))))))))))))))))))))))))))) :: ((Npos (XI
    (XI (XI (XI (XO (XO (XO (XO (XO (XI (XO (XO (XO (XI (XI (XI (XI (XO (XI
    (XO (XI (XO (XO (XI (XI (XO (XO (XO (XI
    XH)))))))))))))))))))))))))))))) :: ((Npos (XI (XI (XO (XO (XI (XI (XO
    (XI (XI (XO (XI (XO (XI (XO (XI (XO (XI (XO (XI (XI (XI (XI (XI (XI (XO
    (XI (XI (XI (XO (XI (XO XH)))))))))))))))))))))))))))))))) :: ((Npos (XO
    (XO (XI (XI (XI (XO (XO (XO (XI (XO (XI (XO (XO (XO (XI (XI (XO (XO (XI
    (XI (XI (XI (XO (XI (XI (XI (XI XH)))))))))))))))))))))))))))) :: ((Npos
    (XI (XI (XO (XO (XO (XO (XO (XO (XI (XO (XO (XO (XI (XO (XO (XO (XO (XO
    (XI (XO (XI (XI (XO (XO (XI (XI XH))))))))))))))))))))))))))) :: ((Npos
    (XO (XO (XI (XI (XI (XI (XO (XO (XI (XI (XO (XI (XI (XO (XO (XO (XI (XO
    (XO (XO (XO (XO (XI (XI (XO (XI (XI (XI (XI (XI (XO
    XH)))))))))))))))))))))))))))))))) :: ((Npos (XI (XI (XI (XO (XI (XO (XO
    (XO (XO (XI (XO (XI (XO (XI (XO (XI (XI (XI (XI (XI (XO (XI (XO (XO (XI
    (XO (XI (XO XH))))))))))))))))))))))))))))) :: ((Npos (XI (XO (XI (XO (XI
    (XI (XI (XI (XI (XO (XI (XO (XI (XO (XI (XI (XO (XI (XI (XI (XI (XO (XI
    (XI (XO (XO (XO (XI (XO (XO (XO
    XH)))))))))))))))))))))))))))))))) :: ((Npos (XO (XO (XO (XI (XO (XI (XI
    (XI (XI (XI (XI (XO (XO (XO (XI (XI (XI (XI (XO (XI (XI (XO (XI (XO (XI
    (XO (XI (XI (XI (XO XH))))))))))))))))))))))))))))))) :: ((Npos (XO (XO
    (XO (XO (XI (XO (XI (XO (XO (XO (XO (XI (XO (XI (XI (XO (XI (XO (XO (XI
    (XO (XI (XI (XI (XO (XO (XO (XI (XO (XI
    XH))))))))))))))))))))))))))))))) :: ((Npos (XI (XO (XI (XO (XO (XI (XO
    (XI (XI (XO (XI (XI (XO (XO (XI (XO (XO (XI (XO (XO (XI (XI (XO (XO
    XH))))))))))))))))))))))))) :: ((Npos (XO (XO (XI (XO (XO (XO (XO (XI (XI
    (XI (XO (XO (XI (XI (XI (XO (XI (XO (XI (XO (XO (XO (XI (XO (XO (XO (XI
    (XI (XO (XO (XI XH)))))))))))))))))))))))))))))))) :: ((Npos (XO (XO (XO
    (XO (XI (XI (XO (XI (XI (XI (XO (XO (XO (XI (XO (XI (XO (XI (XO (XO (XO
    (XI (XI (XI (XO (XI (XO (XI (XO (XI (XO
    XH)))))))))))))))))))))))))))))))) :: ((Npos (XI (XO (XI (XO (XI (XI (XI
    (XO (XO (XO (XI (XO (XO (XI (XO (XI (XO (XO (XI (XI (XI (XO (XO (XI (XO
    (XO (XI (XI (XO (XO (XO XH)))))))))))))))))))))))))))))))) :: ((Npos (XI
    (XI (XO (XO (XI (XI (XI (XI (XI (XI (XI (XO (XI (XO (XI (XI (XI (XI (XI
    (XO (XI (XI (XO (XI (XO (XO (XO (XI (XI (XI
    XH))))))))))))))))))))))))))))))) :: ((Npos (XO (XI (XI (XI (XI (XO (XI
    (XI (XO (XI (XO (XI (XO (XO (XO (XO (XO (XO (XI (XI (XI (XO (XI (XI (XO
    (XI (XI (XO (XO (XI XH))))))))))))))))))))))))))))))) :: ((Npos (XO (XI
    (XI (XI (XO (XI (XI (XI (XI (XO (XI (XI (XI (XI (XO (XO (XI (XO (XO (XO
    (XI (XI (XI (XO (XI (XI (XI (XO (XO (XO (XI
    XH)))))))))))))))))))))))))))))))) :: ((Npos (XI (XI (XI (XI (XO (XI (XO
    (XI (XI (XI (XI (XI (XO (XI (XO (XI (XI (XO (XO (XO (XO (XI (XI (XO (XO
    (XO (XO (XO (XO (XI (XO XH)))))))))))))))))))))))))))))))) :: ((Npos (XO
    (XO (XI (XO (XI (XI (XI (XI (XO (XI (XI (XI (XO (XO (XO (XO (XI (XI (XO
    (XO (XI (XI (XI (XI (XI (XO XH))))))))))))))))))))))))))) :: ((Npos (XI
    (XO (XO (XI (XO (XI (XO (XO (XI (XO (XI (XO (XO (XO (XI (XO (XI (XI (XO
    (XI (XI (XI (XO (XO (XI (XO (XI (XI (XI (XI (XI
    XH)))))))))))))))))))))))))))))))) :: ((Npos (XO (XI (XO (XO (XI (XO (XI
    (XO (XO (XO (XO (XO (XI (XI (XO (XI (XI (XO (XI (XO (XI (XO (XI (XO (XO
    (XI (XI (XO (XO (XO (XO XH)))))))))))))))))))))))))))))))) :: ((Npos (XO
    (XI (XI (XO (XO (XO (XO (XO (XI (XI (XO (XI (XI (XI (XI (XO (XI (XI (XI
    (XO (XO (XI (XO (XO (XI (XI (XO (XO (XO (XO (XI
    XH)))))))))))))))))))))))))))))))) :: ((Npos (XO (XO (XO (XI (XI (XI (XI
    (XO (XI (XO (XO (XO (XO (XI (XO (XO (XI (XO (XI (XO (XO (XI (XO (XI (XI
    (XI (XO (XO (XO XH)))))))))))))))))))))))))))))) :: ((Npos (XI (XI (XO
    (XO (XI (XI (XI (XO (XI (XO (XO (XO (XO (XO (XO (XO (XI (XO (XI (XI (XO
    (XI (XO (XI (XO (XO (XI (XO (XO (XO (XI
    XH)))))))))))))))))))))))))))))))) :: ((Npos (XO (XI (XO (XO (XI (XO (XO
    (XO (XO (XI (XO (XI (XI (XI (XO (XI (XO (XO (XI (XI (XO (XI (XO (XO (XI
    (XO (XO (XO (XO XH)))))))))))))))))))))))))))))) :: ((Npos (XO (XO (XO
    (XO (XO (XO (XI (XI (XI (XI (XO (XI (XI (XO (XO (XO (XO (XI (XO (XO (XO
    (XI (XO (XI (XI (XO (XI (XO (XI (XI (XI
    XH)))))))))))))))))))))))))))))))) :: ((Npos (XI (XI (XI (XI (XO (XI (XI
    (XI (XO (XI (XI (XI (XO (XI (XI (XI (XI (XI (XO (XI (XO (XI (XO (XI (XO
    (XO (XI (XI (XO (XI (XO XH)))))))))))))))))))))))))))))))) :: ((Npos (XO
    (XO (XI (XO (XO (XI (XI (XO (XI (XI (XO (XO (XI (XI (XO (XI (XO (XI (XI
    (XO (XO (XO (XI (XI (XI (XI (XI (XO (XI (XO (XI
    XH)))))))))))))))))))))))))))))))) :: ((Npos (XI (XO (XI (XI (XI (XI (XI
    (XO (XI (XO (XI (XI (XI (XI (XI (XO (XO (XI (XI (XI (XI (XI (XO (XI (XO
    (XI (XI (XO (XI XH)))))))))))))))))))))))))))))) :: ((Npos (XO (XI (XI
    (XI (XO (XO (XI (XI (XI (XI (XI (XO (XI (XO (XI (XI (XO (XI (XI (XI (XO
    (XI (XO (XI (XI (XO (XO (XO (XO (XO (XI
    XH)))))))))))))))))))))))))))))))) :: ((Npos (XO (XI (XI (XI (XO (XI (XO
    (XI (XO (XO (XO (XO (XI (XI (XO (XI (XO (XO (XO (XO (XO (XO (XO (XO (XI
    (XO (XI (XO (XO (XO (XO XH)))))))))))))))))))))))))))))))) :: ((Npos (XI
    (XI (XI (XI (XI (XO (XI (XO (XO (XO (XI (XO (XI (XO (XI (XO (XI (XO (XO
    (XO (XI (XI (XO (XI (XO (XI (XO (XO (XO (XI (XI
    XH)))))))))))))))))))))))))))))))) :: ((Npos (XO (XI (XO (XI (XI (XI (XI
    (XI (XI (XI (XO (XO (XO (XO (XO (XI (XO (XI (XO (XO (XO (XO (XO (XO (XO
    (XI (XO (XI (XI (XO (XI XH)))))))))))))))))))))))))))))))) :: ((Npos (XI
    (XO (XI (XI (XI (XO (XO (XO (XI (XI (XI (XO (XO (XI (XO (XI (XI (XI (XI
    (XI (XO (XO (XI (XO (XO (XI (XO (XI (XI (XO (XO
    XH)))))))))))))))))))))))))))))))) :: ((Npos (XO (XI (XO (XO (XO (XO (XO
    (XO (XI (XO (XO (XO (XO (XI (XO (XI (XO (XO (XO (XO (XI (XI (XI (XO (XO
    (XI (XI XH)))))))))))))))))))))))))))) :: ((Npos (XI (XI (XO (XO (XI (XI
    (XI (XO (XO (XI (XI (XO (XO (XO (XO (XI (XI (XO (XO (XO (XI (XO (XI (XI
    (XO (XI (XI (XO (XO (XI XH))))))))))))))))))))))))))))))) :: ((Npos (XO
    (XI (XI (XO (XO (XO (XI (XO (XI (XO (XI (XO (XI (XO (XI (XI (XO (XO (XO
    (XI (XO (XO (XI (XI (XO (XO (XO (XI (XI (XI
    XH))))))))))))))))))))))))))))))) :: ((Npos (XO (XO (XI (XO (XO (XI (XO
    (XI (XO (XO (XO (XO (XO (XO (XI (XI (XI (XO (XO (XI (XO (XO (XI (XI (XO
    XH)))))))))))))))))))))))))) :: ((Npos (XI (XI (XO (XI (XI (XI (XI (XO
    (XI (XI (XO (XI (XO (XO (XI (XI (XO (XI (XO (XO (XO (XO (XI (XO (XI (XI
    (XO (XI (XO (XI (XO XH)))))))))))))))))))))))))))))))) :: ((Npos (XO (XI
    (XI (XO (XO (XO (XI (XO (XI (XO (XI (XI (XI (XO (XO (XI (XO (XO (XO (XO
    (XO (XO (XO (XO (XO (XI (XI (XI (XO (XI (XO
    XH)))))))))))))))))))))))))))))))) :: ((Npos (XI (XI (XO (XI (XI (XI (XI
    (XI (XO (XO (XO (XI (XO (XI (XI (XO (XI (XI (XO (XI (XO (XI (XI (XO (XI
    (XO (XI (XI (XI (XI (XO XH)))))))))))))))))))))))))))))))) :: ((Npos (XO
    (XO (XO (XI (XI (XO (XO (XI (XI (XI (XI (XO (XI (XI (XI (XO (XI (XI (XI
    (XI (XI (XO (XI (XO (XO (XI (XO (XO (XI (XI
    XH))))))))))))))))))))))))))))))) :: ((Npos (XI (XO (XO (XI (XO (XO (XI
    (XO (XI (XO (XO (XI (XO (XI (XI (XO (XI (XI (XO (XO (XI (XO (XO (XO (XO
    (XI (XI (XO (XI (XO (XO XH)))))))))))))))))))))))))))))))) :: ((Npos (XI
    (XI (XI (XI (XO (XO (XO (XI (XI (XI (XI (XI (XO (XO (XO (XO (XO (XO (XI
    (XI (XI (XI (XO (XI (XO (XI (XI (XI (XO (XI
    XH))))))))))))))))))))))))))))))) :: ((Npos (XO (XI (XO (XO (XO (XI (XO
    (XO (XO (XO (XI (XI (XO (XI (XI (XI (XO (XI (XI (XO (XO (XO (XI (XI (XO
    (XO (XO (XO (XO (XO (XI XH)))))))))))))))))))))))))))))))) :: ((Npos (XI
    (XI (XI (XO (XI (XO (XI (XO (XI (XI (XO (XI (XI (XO (XI (XO (XO (XI (XO
    (XO (XI (XO (XO (XI (XO (XO (XI (XI
    XH))))))))))))))))))))))))))))) :: ((Npos (XO (XO (XI (XI (XI (XO (XI (XO
    (XO (XO (XI (XO (XI (XO (XI (XI (XO (XI (XI (XI (XO (XI (XI (XI (XI (XI
    (XO XH)))))))))))))))))))))))))))) :: ((Npos (XI (XO (XO (XO (XI (XI (XI
    (XI (XO (XO (XI (XI (XO (XO (XI (XO (XO (XI (XO (XO (XO (XO (XO (XO (XI
    (XI (XI (XO (XO (XI (XO XH)))))))))))))))))))))))))))))))) :: ((Npos (XI
    (XO (XO (XI (XI (XI (XO (XO (XI (XI (XO (XI (XO (XI (XI (XO (XI (XO (XO
    (XI (XO (XI (XO (XI (XO (XO (XO (XO (XO (XI
    XH))))))))))))))))))))))))))))))) :: ((Npos (XI (XI (XI (XO (XO (XO (XI
    (XI (XI (XI (XI (XO (XO (XI (XI (XI (XO (XO (XO (XI (XI (XO (XI (XI (XO
    (XO (XI (XI XH))))))))))))))))))))))))))))) :: ((Npos (XI (XO (XI (XO (XI
    (XI (XI (XI (XI (XO (XO (XO (XO (XI (XO (XO (XO (XI (XI (XI (XI (XI (XO
    (XO (XI (XO (XO (XI XH))))))))))))))))))))))))))))) :: ((Npos (XO (XO (XO
    (XO (XO (XI (XI (XO (XI (XI (XI (XO (XI (XI (XO (XI (XI (XI (XI (XO (XO
    (XI (XI (XI (XI (XI (XO (XI (XI (XO (XI
    XH)))))))))))))))))))))))))))))))) :: ((Npos (XI (XO (XI (XI (XO (XO (XI
    (XO (XO (XO (XI (XO (XI (XO (XI (XO (XI (XI (XI (XO (XO (XO (XI (XO (XO
    (XI (XI (XI (XO (XI XH))))))))))))))))))))))))))))))) :: ((Npos (XO (XO
    (XO (XI (XI (XI (XI (XO (XI (XO (XO (XI (XO (XI (XI (XI (XO (XO (XI (XO
    (XO (XO (XI (XO (XO (XO (XO (XI (XO (XO (XI
    XH)))))))))))))))))))))))))))))))) :: ((Npos (XO (XI (XO (XI (XI (XI (XI
    (XO (XO (XO (XO (XI (XI (XO (XI (XI (XO (XO (XO (XI (XI (XI (XO (XO (XO
    (XI (XI (XI (XO (XO (XI XH)))))))))))))))))))))))))))))))) :: ((Npos (XI
    (XI (XO (XI (XI (XI (XO (XO (XI (XO (XO (XI (XI (XO (XO (XO (XO (XO (XO
    (XI (XO (XI (XO (XO (XO (XI (XO (XO (XI
    XH)))))))))))))))))))))))))))))) :: ((Npos (XI (XI (XI (XI (XO (XI (XI
    (XO (XI (XO (XO (XI (XI (XO (XO (XI (XI (XO (XO (XO (XI (XO (XI (XI (XO
    (XO (XI (XO (XI (XO (XI XH)))))))))))))))))))))))))))))))) :: ((Npos (XO
    (XO (XI (XI (XI (XO (XO (XO (XI (XO (XO (XO (XO (XO (XI (XI (XO (XI (XO
    (XO (XI (XI (XI (XO (XI (XI (XI (XO (XI
    XH)))))))))))))))))))))))))))))) :: ((Npos (XI (XO (XO (XI (XO (XO (XO
    (XI (XI (XO (XO (XO (XI (XI (XO (XI (XO (XO (XO (XO (XO (XO (XI (XO (XI
    (XO (XI (XI (XI (XO XH))))))))))))))))))))))))))))))) :: ((Npos (XI (XO
    (XI (XI (XO (XI (XI (XI (XI (XI (XO (XO (XO (XI (XO (XO (XI (XO (XO (XO
    (XI (XO (XI (XO (XI (XO (XI (XO (XI (XO (XO
    XH)))))))))))))))))))))))))))))))) :: ((Npos (XI (XI (XO (XI (XO (XI (XI
    (XO (XI (XO (XO (XI (XO (XO (XO (XO (XI (XO (XI (XO (XO (XI (XI (XO (XI
    (XI (XO (XO (XO XH)))))))))))))))))))))))))))))) :: ((Npos (XO (XO (XO
    (XO (XI (XI (XO (XI (XI (XO (XO (XI (XO (XO (XO (XI (XI (XO (XI (XI (XO
    (XO (XO (XI (XO (XI (XO (XO (XO (XO
    XH))))))))))))))))))))))))))))))) :: ((Npos (XO (XO (XO (XO (XI (XI (XO
    (XI (XO (XI (XI (XI (XO (XI (XO (XI (XI (XI (XO (XO (XI (XO (XI (XI (XO
    (XO (XO (XO (XI XH)))))))))))))))))))))))))))))) :: ((Npos (XI (XO (XI
    (XI (XO (XI (XO (XI (XI (XO (XO (XI (XI (XI (XO (XO (XI (XI (XO (XI (XI
    (XO (XO (XO (XI (XI (XO (XI (XI (XI (XO
    XH)))))))))))))))))))))))))))))))) :: ((Npos (XO (XO (XO (XI (XO (XO (XO
    (XO (XI (XI (XO (XI (XI (XO (XO (XO (XI (XO (XI (XI (XO (XO (XI (XO (XO
    (XO (XI (XO (XI (XO XH))))))))))))))))))))))))))))))) :: ((Npos (XI (XI
    (XO (XI (XI (XO (XI (XO (XO (XI (XI (XO (XI (XI (XI (XI (XI (XI (XI (XO
    (XO (XI (XO (XO (XO (XO (XO (XO (XO (XO
    XH))))))))))))))))))))))))))))))) :: ((Npos (XI (XO (XI (XO (XO (XO (XO
    (XI (XI (XO (XO (XI (XO (XI (XO (XI (XO (XI (XO (XI (XO (XO (XO (XI (XO
    (XI (XI (XI XH))))))))))))))))))))))))))))) :: ((Npos (XO (XO (XO (XI (XI
    (XO (XO (XO (XO (XO (XI (XO (XO (XI (XI (XO (XO (XO (XO (XI (XI (XO (XO
    (XI (XO (XI (XO XH)))))))))))))))))))))))))))) :: ((Npos (XO (XI (XO (XI
    (XI (XI (XO (XO (XO (XO (XO (XO (XO (XI (XO (XO (XO (XO (XI (XO (XO (XI
    (XI (XO (XI (XO (XI (XO (XO (XI
    XH))))))))))))))))))))))))))))))) :: ((Npos (XI (XI (XO (XO (XO (XI (XI
    (XO (XO (XI (XO (XI (XO (XI (XO (XI (XI (XI (XI (XI (XI (XI (XI (XO (XI
    (XO (XI (XO (XO (XO (XO XH)))))))))))))))))))))))))))))))) :: ((Npos (XO
    (XI (XI (XO (XO (XI (XO (XO (XI (XI (XO (XO (XO (XO (XO (XO (XI (XO (XI
    (XO (XI (XI (XO (XI (XO (XI (XI (XI
    XH))))))))))))))))))))))))))))) :: ((Npos (XI (XI (XI (XO (XI (XI (XI (XO
    (XI (XO (XI (XI (XI (XI (XO (XI (XO (XO (XO (XO (XI (XI (XI (XI (XO (XI
    (XI (XI (XO (XI (XO XH)))))))))))))))))))))))))))))))) :: ((Npos (XO (XO
    (XI (XI (XO (XI (XO (XO (XO (XI (XO (XI (XO (XO (XI (XO (XI (XO (XI (XO
    (XO (XO (XI (XI (XI (XI (XO (XO (XO (XI (XI
    XH)))))))))))))))))))))))))))))))) :: ((Npos (XI (XI (XO (XO (XI (XO (XO
    (XI (XO (XI (XO (XI (XO (XO (XO (XO (XO (XO (XI (XI (XO (XO (XO (XO (XO
    (XI (XO (XO (XI (XO XH))))))))))))))))))))))))))))))) :: ((Npos (XI (XI
    (XI (XO (XI (XI (XO (XO (XO (XI (XO (XI (XI (XO (XO (XO (XO (XI (XO (XI
    (XI (XI (XI (XI (XO (XO (XO (XO (XO (XI (XO
    XH)))))))))))))))))))))))))))))))) :: ((Npos (XI (XI (XI (XI (XO (XO (XO
    (XO (XO (XO (XI (XO (XO (XO (XO (XO (XI (XO (XO (XO (XO (XI (XO (XI (XI
    (XO (XO (XI (XI XH)))))))))))))))))))))))))))))) :: ((Npos (XI (XI (XI
    (XI (XO (XO (XI (XO (XO (XI (XI (XI (XO (XO (XO (XI (XI (XO (XO (XI (XI
    (XO (XO (XO (XO (XI (XI (XI (XI
    XH)))))))))))))))))))))))))))))) :: ((Npos (XI (XO (XO (XI (XO (XO (XI
    (XO (XO (XI (XO (XI (XO (XI (XO (XO (XI (XI (XO (XI (XO (XI (XO (XI (XO
    (XI (XO (XI (XO XH)))))))))))))))))))))))))))))) :: ((Npos (XI (XO (XO
    (XO (XO (XO (XO (XO (XI (XO (XI (XI (XO (XO (XI (XO (XO (XI (XO (XI (XI
    (XI (XO (XO (XO (XI (XO XH)))))))))))))))))))))))))))) :: ((Npos (XI (XO
    (XO (XO (XO (XI (XO (XI (XO (XO (XI (XI (XO (XO (XO (XI (XI (XO (XO (XI
    (XO (XO (XI (XI (XI (XI (XI (XI (XI (XO
    XH))))))))))))))))))))))))))))))) :: ((Npos (XO (XO (XO (XO (XI (XO (XI
    (XO (XI (XO (XI (XO (XO (XI (XO (XO (XO (XI (XI (XO (XO (XI (XO (XO (XI
    (XO (XO (XI (XO (XO XH))))))))))))))))))))))))))))))) :: ((Npos (XO (XI
    (XI (XO (XO (XI (XI (XO (XO (XI (XO (XO (XO (XI (XI (XI (XO (XI (XO (XO
    (XO (XI (XI (XO (XI (XO (XO (XI (XI (XO (XI
    XH)))))))))))))))))))))))))))))))) :: ((Npos (XI (XO (XI (XO (XO (XI (XI
    (XO (XO (XO (XI (XI (XI (XI (XO (XO (XO (XI (XI (XI (XI (XI (XI (XO (XO
    (XO (XI (XO (XI (XO XH))))))))))))))))))))))))))))))) :: ((Npos (XI (XI
    (XI (XI (XI (XO (XO (XI (XI (XI (XO (XO (XI (XI (XO (XI (XI (XI (XO (XI
    (XI (XO (XO (XI (XI (XI (XO (XO (XI (XI (XI
    XH)))))))))))))))))))))))))))))))) :: ((Npos (XO (XO (XO (XI (XI (XO (XO
    (XI (XI (XI (XI (XO (XI (XI (XO (XI (XI (XO (XI (XI (XI (XO (XO (XI (XI
    (XO (XI (XO (XO (XO (XO XH)))))))))))))))))))))))))))))))) :: ((Npos (XO
    (XO (XO (XO (XO (XI (XI (XI (XO (XO (XO (XO (XI (XI (XI (XO (XI (XO (XI
    (XI (XI (XI (XI (XI (XI (XO (XO (XI (XI (XI (XI
    XH)))))))))))))))))))))))))))))))) :: ((Npos (XO (XI (XI (XI (XO (XO (XO
    (XI (XI (XO (XO (XI (XO (XO (XO (XO (XO (XI (XI (XO (XO (XO (XI (XI (XI
    (XO (XI (XO (XI (XO XH))))))))))))))))))))))))))))))) :: ((Npos (XO (XI
    (XI (XI (XO (XI (XO (XO (XI (XI (XO (XO (XO (XO (XI (XO (XO (XO (XO (XI
    (XI (XI (XO (XO XH))))))))))))))))))))))))) :: ((Npos (XI (XI (XI (XO (XI
    (XI (XO (XI (XI (XO (XI (XI (XI (XI (XI (XI (XI (XO (XO (XO (XO (XI (XO
    (XO (XI (XI XH))))))))))))))))))))))))))) :: ((Npos (XO (XO (XO (XO (XI
    (XO (XO (XO (XO (XO (XO (XO (XI (XI (XI (XI (XI (XO (XO (XI (XI (XI (XI
    (XO (XO (XO (XO (XI (XI (XI XH))))))))))))))))))))))))))))))) :: ((Npos
    (XO (XI (XI (XO (XO (XI (XI (XI (XI (XO (XI (XI (XO (XI (XO (XO (XI (XO
    (XO (XO (XI (XO (XO (XO (XO (XO (XO (XI (XI (XO (XO
    XH)))))))))))))))))))))))))))))))) :: ((Npos (XO (XI (XO (XO (XI (XI (XI
    (XI (XO (XO (XI (XI (XI (XO (XO (XI (XO (XO (XO (XI (XI (XO (XI (XO (XO
    (XI (XO (XO (XI (XO XH))))))))))))))))))))))))))))))) :: ((Npos (XI (XI
    (XO (XI (XI (XI (XI (XI (XI (XO (XI (XI (XO (XI (XO (XO (XI (XI (XO (XI
    (XI (XO (XI (XO (XI (XI (XO (XO (XI (XI (XI
    XH)))))))))))))))))))))))))))))))) :: ((Npos (XI (XO (XI (XI (XI (XI (XI
    (XI (XI (XI (XO (XI (XI (XO (XO (XI (XI (XO (XO (XO (XI (XI (XO (XI (XI
    (XO (XI (XI XH))))))))))))))))))))))))))))) :: ((Npos (XI (XI (XO (XO (XI
    (XO (XO (XO (XO (XI (XI (XI (XI (XI (XO (XO (XI (XO (XO (XO (XI (XO (XO
    (XI (XO (XI (XO (XO XH))))))))))))))))))))))))))))) :: ((Npos (XI (XO (XI
    (XI (XI (XO (XI (XO (XO (XO (XI (XO (XI (XO (XI (XO (XO (XO (XO (XO (XI
    (XI (XI (XO (XI (XO (XI (XO (XI (XO (XI
    XH)))))))))))))))))))))))))))))))) :: ((Npos (XI (XI (XI (XO (XO (XI (XI
    (XI (XO (XO (XI (XI (XO (XI (XI (XI (XO (XO (XI (XO (XI (XI (XO (XO (XO
    (XO (XI (XI (XO (XI (XO XH)))))))))))))))))))))))))))))))) :: ((Npos (XO
    (XI (XI (XO (XO (XO (XI (XO (XI (XI (XO (XI (XI (XI (XO (XI (XI (XO (XO
    (XO (XO (XO (XO (XI (XO (XO (XO XH)))))))))))))))))))))))))))) :: ((Npos
    (XO (XI (XO (XO (XI (XI (XO (XI (XI (XO (XI (XO (XO (XI (XO (XI (XI (XO
    (XO (XO (XI (XI (XI (XO (XI (XO (XO (XI (XO (XO
    XH))))))))))))))))))))))))))))))) :: ((Npos (XO (XI (XI (XO (XI (XI (XO
    (XO (XI (XI (XO (XI (XI (XO (XO (XI (XO (XI (XO (XO (XI (XO (XO (XO (XO
    (XO (XO (XI (XO (XO (XI XH)))))))))))))))))))))))))))))))) :: ((Npos (XI
    (XI (XI (XO (XO (XO (XO (XO (XI (XI (XI (XO (XI (XI (XO (XO (XO (XO (XO
    (XO (XO (XO (XI (XO (XI (XO (XO (XO (XI (XI (XO
    XH)))))))))))))))))))))))))))))))) :: ((Npos (XO (XO (XI (XI (XI (XI (XI
    (XO (XI (XO (XO (XI (XI (XO (XI (XI (XO (XO (XI (XI (XI (XO (XO (XI (XI
    (XI (XI (XO (XI (XO XH))))))))))))))))))))))))))))))) :: ((Npos (XO (XO
    (XO (XI (XI (XI (XI (XI (XI (XO (XO (XO (XI (XO (XI (XO (XO (XI (XO (XO
    (XO (XO (XO (XO (XI (XI (XI (XO (XO (XI
    XH))))))))))))))))))))))))))))))) :: ((Npos (XI (XO (XI (XI (XO (XO (XI
    (XI (XI (XI (XO (XI (XO (XO (XI (XO (XI (XI (XO (XO (XO (XI (XI (XO (XO
    (XO (XI (XO (XI (XO XH))))))))))))))))))))))))))))))) :: ((Npos (XI (XI
    (XO (XI (XI (XO (XO (XO (XO (XI (XO (XO (XO (XI (XO (XI (XO (XO (XI (XI
    (XI (XI (XI (XI (XO XH)))))))))))))))))))))))))) :: ((Npos (XI (XI (XI
    (XI (XO (XI (XI (XI (XI (XI (XI (XO (XI (XO (XO (XO (XO (XO (XI (XO (XO
    (XO (XI (XI (XO (XI (XO (XI (XI (XI (XO
    XH)))))))))))))))))))))))))))))))) :: ((Npos (XI (XI (XO (XI (XO (XO (XI
    (XI (XO (XO (XO (XO (XI (XO (XO (XO (XO (XI (XI (XO (XI (XO (XI (XI (XO
    (XI (XO (XO (XI (XI (XI XH)))))))))))))))))))))))))))))))) :: ((Npos (XI
    (XI (XO (XO (XO (XO (XI (XO (XI (XO (XO (XO (XI (XO (XO (XI (XI (XI (XI
    (XI (XO (XO (XO (XI (XI (XO (XO (XO (XO (XI (XO
    XH)))))))))))))))))))))))))))))))) :: ((Npos (XO (XI (XI (XI (XI (XI (XI
    (XO (XI (XI (XI (XI (XI (XI (XI (XI (XI (XI (XI (XI (XO (XI (XI (XI (XO
    (XO (XO (XO (XO (XI (XO XH)))))))))))))))))))))))))))))))) :: ((Npos (XI
    (XI (XI (XI (XI (XO (XI (XI (XI (XI (XI (XO (XO (XI (XI (XO (XO (XI (XI
    (XI (XI (XI (XI (XO (XO (XI (XO (XO (XI (XO (XO
    XH)))))))))))))))))))))))))))))))) :: ((Npos (XO (XI (XO (XO (XI (XO (XO
    (XO (XI (XI (XO (XI (XI (XO (XI (XI (XO (XO (XI (XI (XI (XI (XO (XI (XI
    (XI (XO (XI (XI (XO (XO XH)))))))))))))))))))))))))))))))) :: ((Npos (XI
    (XI (XO (XI (XO (XO (XI (XO (XO (XO (XI (XO (XI (XO (XI (XO (XO (XO (XO
    (XO (XI (XO (XO (XO (XI (XO (XO (XO (XO (XI (XI
    XH)))))))))))))))))))))))))))))))) :: ((Npos (XO (XO (XI (XI (XO (XO (XI
    (XO (XI (XI (XO (XI (XO (XI (XO (XI (XO (XI (XI (XI (XO (XI (XO (XO (XI
    (XI (XO (XO (XI (XO (XO XH)))))))))))))))))))))))))))))))) :: ((Npos (XI
    (XO (XO (XO (XO (XI (XO (XI (XI (XO (XI (XI (XO (XI (XO (XI (XO (XO (XO
    (XI (XI (XO (XO (XI (XO (XO (XO (XI (XI (XO (XO
    XH)))))))))))))))))))))))))))))))) :: ((Npos (XI (XO (XO (XO (XI (XO (XO
    (XO (XI (XI (XI (XI (XI (XI (XO (XI (XO (XO (XO (XO (XI (XO (XO (XO (XO
    (XO (XI (XO (XI (XI (XO XH)))))))))))))))))))))))))))))))) :: ((Npos (XI
    (XI (XI (XI (XI (XI (XI (XI (XO (XO (XI (XI (XO (XO (XI (XI (XO (XO (XI
    (XO (XI (XO (XI (XI (XO (XO (XI (XO (XO (XI
    XH))))))))))))))))))))))))))))))) :: ((Npos (XO (XO (XO (XI (XI (XO (XI
    (XO (XI (XI (XI (XO (XO (XO (XO (XO (XO (XI (XO (XO (XO (XO (XO (XI (XI
    (XI (XO (XI (XI (XI (XI XH)))))))))))))))))))))))))))))))) :: ((Npos (XO
    (XO (XO (XI (XO (XI (XI (XO (XI (XO (XI (XO (XI (XO (XI (XI (XI (XI (XI
    (XO (XI (XO (XO (XI (XO (XO (XI (XO (XO (XI
    XH))))))))))))))))))))))))))))))) :: ((Npos (XO (XI (XI (XO (XI (XO (XI
    (XO (XO (XO (XO (XO (XO (XO (XI (XO (XO (XO (XI (XI (XO (XI (XO (XI (XO
    (XO (XI (XI (XI XH)))))))))))))))))))))))))))))) :: ((Npos (XI (XO (XO
    (XO (XI (XO (XI (XI (XI (XI (XO (XO (XI (XO (XI (XI (XI (XI (XO (XI (XO
    (XO (XO (XI (XI (XO (XO (XI (XO (XO (XO
    XH)))))))))))))))))))))))))))))))) :: ((Npos (XO (XO (XI (XO (XO (XI (XO
    (XO (XI (XI (XI (XO (XI (XO (XO (XO (XO (XI (XO (XI (XI (XI (XI (XI (XI
    (XO (XI (XO XH))))))))))))))))))))))))))))) :: ((Npos (XO (XO (XI (XO (XO
    (XI (XO (XI (XI (XO (XO (XI (XI (XI (XI (XO (XI (XO (XI (XI (XO (XI (XO
    (XI (XI (XI (XO (XO (XO (XO (XI
    XH)))))))))))))))))))))))))))))))) :: ((Npos (XI (XO (XI (XI (XI (XO (XI
    (XI (XI (XI (XO (XI (XO (XO (XI (XO (XI (XO (XI (XO (XI (XI (XO (XI (XO
    (XO (XI XH)))))))))))))))))))))))))))) :: ((Npos (XI (XO (XO (XO (XI (XI
    (XI (XO (XO (XO (XO (XI (XO (XO (XO (XI (XI (XI (XI (XO (XO (XI (XI (XO
    (XI (XI (XI (XO (XI (XI (XI XH)))))))))))))))))))))))))))))))) :: ((Npos
    (XO (XO (XO (XI (XO (XI (XO (XI (XO (XI (XI (XI (XI (XI (XO (XO (XI (XI
    (XO (XI (XI (XI (XO (XO (XI (XO (XI (XI (XO (XO (XI
    XH)))))))))))))))))))))))))))))))) :: ((Npos (XO (XO (XI (XO (XI (XO (XI
    (XI (XI (XO (XO (XO (XI (XO (XO (XO (XO (XO (XI (XO (XO (XI (XO (XI (XI
    (XO (XO (XI (XO (XI (XO XH)))))))))))))))))))))))))))))))) :: ((Npos (XO
    (XO (XI (XI (XI (XI (XO (XI (XI (XI (XO (XO (XI (XI (XO (XO (XI (XO (XO
    (XI (XO (XO (XI (XI (XO (XO (XI (XO (XI (XI (XI
    XH)))))))))))))))))))))))))))))))) :: ((Npos (XI (XI (XO (XO (XI (XO (XO
    (XI (XI (XO (XI (XI (XI (XI (XO (XO (XO (XO (XO (XI (XO (XI (XO (XI (XO
    (XI (XI (XI (XI (XI (XI XH)))))))))))))))))))))))))))))))) :: ((Npos (XO
    (XO (XI (XO (XI (XO (XO (XI (XO (XI (XI (XI (XO (XI (XI (XO (XO (XO (XO
    (XI (XI (XO (XO (XO (XI (XI (XO (XO (XO (XO (XO
    XH)))))))))))))))))))))))))))))))) :: ((Npos (XI (XO (XO (XO (XO (XI (XI
    (XO (XO (XI (XI (XO (XI (XO (XO (XI (XI (XI (XO (XI (XO (XI (XO (XO (XI
    (XO (XI (XI (XI (XO (XI XH)))))))))))))))))))))))))))))))) :: ((Npos (XI
    (XI (XO (XI (XO (XI (XO (XO (XI (XO (XI (XI (XI (XI (XO (XO (XO (XO (XO
    (XI (XO (XI (XO (XI (XI (XO (XI (XI
    XH))))))))))))))))))))))))))))) :: ((Npos (XO (XO (XI (XO (XO (XI (XI (XO
    (XI (XO (XI (XI (XI (XO (XI (XI (XO (XI (XI (XI (XI (XI (XI (XI (XO (XO
    (XO (XO XH))))))))))))))))))))))))))))) :: ((Npos (XI (XO (XO (XI (XO (XO
    (XO (XI (XO (XI (XI (XI (XI (XO (XO (XI (XI (XO (XO (XI (XI (XO (XO (XI
    (XI (XO (XI (XI (XO XH)))))))))))))))))))))))))))))) :: ((Npos (XI (XO
    (XI (XI (XO (XO (XI (XI (XI (XI (XO (XI (XO (XI (XI (XO (XO (XO (XI (XI
    (XI (XO (XO (XI (XO (XI (XI (XO (XI
    XH)))))))))))))))))))))))))))))) :: ((Npos (XI (XI (XI (XO (XI (XI (XI
    (XO (XO (XI (XO (XI (XO (XI (XI (XI (XI (XI (XI (XI (XO (XO (XI (XI (XO
    (XI (XO (XI (XO (XO (XI XH)))))))))))))))))))))))))))))))) :: ((Npos (XI
    (XO (XI (XI (XO (XI (XI (XI (XO (XO (XI (XI (XO (XO (XI (XO (XO (XO (XO
    (XI (XO (XO (XO (XO (XI (XO (XI (XO (XO (XI (XO
    XH)))))))))))))))))))))))))))))))) :: ((Npos (XI (XO (XO (XI (XO (XO (XI
    (XO (XI (XI (XI (XO (XI (XO (XO (XI (XO (XO (XO (XO (XI (XI (XO (XI (XO
    (XI (XI (XO (XO (XI XH))))))))))))))))))))))))))))))) :: ((Npos (XO (XI
    (XO (XO (XO (XO (XO (XO (XI (XI (XO (XO (XI (XO (XI (XO (XO (XO (XO (XI
    (XI (XO (XI (XI (XI (XO (XO (XI (XO (XO (XI
    XH)))))))))))))))))))))))))))))))) :: ((Npos (XI (XO (XI (XI (XI (XI (XO
    (XI (XI (XO (XO (XO (XI (XO (XO (XO (XI (XO (XI (XO (XI (XO (XO (XO (XI
    (XO (XI (XI XH))))))))))))))))))))))))))))) :: ((Npos (XI (XI (XI (XI (XI
    (XI (XO (XI (XI (XI (XI (XO (XO (XO (XO (XO (XI (XI (XO (XI (XI (XI (XO
    (XI (XO (XO (XI (XO (XI (XO (XI
    XH)))))))))))))))))))))))))))))))) :: ((Npos (XO (XO (XI (XO (XO (XO (XI
    (XI (XI (XO (XI (XO (XO (XI (XI (XO (XO (XI (XI (XI (XI (XO (XO (XO (XO
    (XO (XI (XI (XO (XO (XI XH)))))))))))))))))))))))))))))))) :: ((Npos (XI
    (XO (XI (XO (XI (XO (XI (XI (XO (XI (XI (XO (XI (XO (XO (XO (XI (XI (XO
    (XI (XI (XI (XI (XI (XO (XO (XI XH)))))))))))))))))))))))))))) :: ((Npos
    (XI (XI (XI (XO (XI (XO (XO (XO (XI (XI (XI (XO (XO (XO (XO (XO (XO (XO
    (XI (XI (XI (XI (XI (XO (XO (XO (XI (XI (XO (XO (XO
    XH)))))))))))))))))))))))))))))))) :: ((Npos (XO (XI (XI (XO (XO (XI (XI
    (XO (XO (XI (XO (XO (XO (XI (XO (XO (XO (XO (XI (XI (XI (XO (XI (XI (XI
    (XO (XO (XO (XO (XO (XI XH)))))))))))))))))))))))))))))))) :: ((Npos (XO
    (XI (XI (XO (XI (XI (XI (XI (XO (XI (XO (XO (XI (XI (XO (XO (XO (XI (XI
    (XO (XO (XI (XO (XI (XO (XO (XO XH)))))))))))))))))))))))))))) :: ((Npos
    (XO (XI (XO (XI (XO (XO (XI (XO (XO (XI (XO (XO (XO (XI (XO (XI (XI (XO
    (XI (XI (XI (XI (XI (XO (XO (XO (XO (XO (XO (XI (XO
    XH)))))))))))))))))))))))))))))))) :: ((Npos (XI (XI (XI (XI (XI (XI (XI
    (XI (XI (XI (XI (XO (XI (XI (XI (XO (XO (XO (XO (XO (XI (XO (XI (XO (XO
    (XI (XO (XO (XI (XO (XO XH)))))))))))))))))))))))))))))))) :: ((Npos (XO
    (XI (XO (XI (XO (XI (XI (XI (XI (XO (XO (XO (XI (XI (XO (XI (XO (XO (XI
    (XO (XI (XI (XI (XO (XI (XO (XI (XI (XO (XO
    XH))))))))))))))))))))))))))))))) :: ((Npos (XI (XI (XI (XI (XI (XO (XI
    (XI (XO (XI (XI (XO (XO (XI (XI (XI (XI (XO (XI (XO (XI (XO (XO (XI (XI
    (XO (XI (XO (XI (XI (XI XH)))))))))))))))))))))))))))))))) :: ((Npos (XO
    (XI (XI (XO (XO (XI (XI (XO (XO (XO (XO (XI (XI (XO (XI (XO (XO (XI (XO
    (XO (XO (XO (XO (XI (XO (XO (XI (XI (XI (XI
    XH))))))))))))))))))))))))))))))) :: ((Npos (XI (XO (XO (XI (XO (XO (XI
    (XI (XI (XO (XI (XO (XI (XO (XI (XI (XI (XO (XO (XO (XI (XO (XO (XI (XI
    (XI (XI (XO (XI XH)))))))))))))))))))))))))))))) :: ((Npos (XI (XI (XO
    (XO (XI (XI (XO (XO (XO (XO (XO (XI (XI (XI (XI (XO (XO (XO (XI (XI (XI
    (XI (XI (XI (XI (XO (XI (XO (XI (XO
    XH))))))))))))))))))))))))))))))) :: ((Npos (XO (XI (XI (XI (XI (XO (XI
    (XI (XO (XI (XO (XO (XI (XO (XI (XO (XI (XI (XI (XO (XO (XO (XI (XI (XO
    (XO (XO (XI (XI XH)))))))))))))))))))))))))))))) :: ((Npos (XO (XI (XI
    (XI (XI (XI (XO (XI (XO (XO (XO (XO (XI (XI (XI (XI (XI (XO (XO (XI (XO
    (XI (XO (XO (XI (XO (XO (XO (XI (XO (XI
    XH)))))))))))))))))))))))))))))))) :: ((Npos (XO (XI (XI (XI (XI (XO (XI
    (XI (XI (XI (XI (XI (XI (XI (XI (XO (XI (XI (XI (XO (XO (XI (XI (XI (XO
    (XO (XI (XI (XO XH)))))))))))))))))))))))))))))) :: ((Npos (XO (XI (XI
    (XI (XO (XO (XO (XO (XO (XI (XI (XI (XO (XI (XI (XO (XI (XO (XI (XI (XO
    (XI (XI (XI (XO (XI (XO (XO (XI
    XH)))))))))))))))))))))))))))))) :: ((Npos (XO (XO (XI (XO (XI (XI (XO
    (XI (XI (XO (XO (XO (XO (XI (XI (XO (XO (XO (XO (XI (XI (XI (XI (XO (XO
    (XO (XI (XO (XI (XI XH))))))))))))))))))))))))))))))) :: ((Npos (XO (XI
    (XO (XI (XO (XO (XO (XI (XI (XO (XI (XO (XI (XI (XI (XI (XO (XI (XI (XO
    (XI (XI (XI (XO (XI (XO (XO (XO (XO (XI (XO
    XH)))))))))))))))))))))))))))))))) :: ((Npos (XO (XI (XI (XI (XI (XO (XO
    (XO (XO (XO (XI (XI (XO (XO (XO (XI (XO (XO (XO (XO (XO (XO (XI (XO (XI
    (XO (XO (XO (XI (XI (XI XH)))))))))))))))))))))))))))))))) :: ((Npos (XO
    (XO (XI (XI (XO (XI (XO (XO (XI (XI (XO (XI (XO (XI (XI (XI (XO (XI (XO
    (XI (XI (XI (XO (XI (XI (XO (XI (XO (XI (XI (XO
    XH)))))))))))))))))))))))))))))))) :: ((Npos (XI (XO (XO (XO (XI (XO (XO
    (XI (XO (XI (XI (XI (XI (XO (XO (XO (XO (XO (XI (XO (XO (XI (XI (XO (XI
    (XI (XO (XO (XO (XI XH))))))))))))))))))))))))))))))) :: ((Npos (XI (XO
    (XO (XI (XO (XI (XI (XO (XI (XO (XI (XI (XI (XO (XI (XI (XI (XO (XI (XI
    (XI (XI (XI (XI (XI (XI (XI (XI (XO
    XH)))))))))))))))))))))))))))))) :: ((Npos (XO (XO (XO (XO (XO (XI (XI
    (XO (XI (XO (XO (XO (XI (XI (XI (XI (XO (XO (XI (XO (XI (XI (XI (XO (XO
    (XI (XI (XO (XO (XO XH))))))))))))))))))))))))))))))) :: ((Npos (XO (XO
    (XI (XI (XI (XO (XO (XO (XO (XI (XO (XO (XI (XO (XO (XO (XI (XI (XI (XI
    (XI (XI (XO (XO (XO (XI (XI (XI (XI (XI (XI
    XH)))))))))))))))))))))))))))))))) :: ((Npos (XI (XI (XI (XO (XI (XO (XO
    (XO (XI (XI (XI (XI (XI (XI (XO (XO (XO (XO (XI (XI (XI (XI (XO (XO (XI
    (XI (XO (XI (XI (XI (XI XH)))))))))))))))))))))))))))))))) :: ((Npos (XI
    (XI (XI (XI (XI (XO (XO (XO (XI (XO (XI (XO (XI (XO (XO (XI (XO (XI (XI
    (XO (XO (XI (XO (XO (XI (XO (XO (XI (XO (XO (XI
    XH)))))))))))))))))))))))))))))))) :: ((Npos (XO (XI (XO (XI (XI (XI (XI
    (XI (XI (XI (XI (XO (XO (XI (XO (XI (XI (XI (XO (XO (XO (XO (XI (XO (XO
    (XI (XI (XO XH))))))))))))))))))))))))))))) :: ((Npos (XO (XI (XO (XO (XI
    (XO (XO (XO (XI (XI (XI (XO (XO (XO (XI (XI (XO (XO (XO (XI (XO (XO (XI
    (XO (XO (XI (XO (XO (XI (XO (XO
    XH)))))))))))))))))))))))))))))))) :: ((Npos (XI (XO (XI (XI (XI (XI (XI
    (XI (XO (XI (XI (XI (XO (XI (XO (XI (XO (XI (XO (XI (XI (XO (XI (XO (XI
    (XO (XI (XI (XO (XO (XO XH)))))))))))))))))))))))))))))))) :: ((Npos (XI
    (XO (XO (XO (XO (XI (XO (XI (XO (XO (XI (XI (XO (XI (XO (XO (XI (XI (XI
    (XI (XI (XO (XO (XI (XI (XO (XO (XI (XI (XO (XI
    XH)))))))))))))))))))))))))))))))) :: ((Npos (XI (XO (XO (XI (XO (XO (XO
    (XO (XI (XI (XO (XI (XO (XI (XO (XO (XO (XO (XO (XI (XO (XI (XO (XO (XO
    (XO (XI (XI (XI (XO (XO XH)))))))))))))))))))))))))))))))) :: ((Npos (XO
    (XI (XI (XI (XO (XI (XI (XI (XO (XO (XI (XI (XI (XO (XO (XI (XO (XO (XI
    (XO (XI (XI (XI (XO (XO (XI (XO (XO (XO (XI
    XH))))))))))))))))))))))))))))))) :: ((Npos (XI (XO (XI (XI (XO (XI (XO
    (XO (XI (XO (XI (XO (XO (XO (XI (XI (XO (XI (XO (XI (XI (XO (XO (XI (XO
    (XO (XI (XI (XI (XO XH))))))))))))))))))))))))))))))) :: ((Npos (XO (XI
    (XO (XI (XO (XI (XO (XI (XI (XO (XO (XO (XI (XI (XI (XO (XI (XO (XO (XI
    (XO (XI (XO (XO (XI (XO (XO (XI (XO (XO
    XH))))))))))))))))))))))))))))))) :: ((Npos (XO (XO (XO (XI (XI (XO (XO
    (XI (XO (XO (XO (XI (XI (XI (XI (XO (XO (XO (XI (XO (XI (XI (XI (XI (XI
    (XO (XO (XI (XO XH)))))))))))))))))))))))))))))) :: ((Npos (XI (XI (XO
    (XO (XI (XI (XI (XO (XI (XO (XI (XO (XO (XO (XI (XI (XO (XI (XI (XO (XI
    (XO (XI (XO (XO (XO (XI (XI (XI (XO (XI
    XH)))))))))))))))))))))))))))))))) :: ((Npos (XI (XI (XO (XO (XI (XO (XI
    (XI (XO (XO (XI (XI (XO (XI (XO (XO (XO (XO (XI (XO (XO (XI (XO (XO (XO
    (XO (XO (XI (XI (XO (XO XH)))))))))))))))))))))))))))))))) :: ((Npos (XI
    (XO (XI (XO (XO (XO (XI (XI (XO (XI (XI (XO (XI (XO (XI (XI (XO (XO (XI
    (XI (XI (XO (XO (XO (XI (XO (XI (XI (XI (XO (XO
    XH)))))))))))))))))))))))))))))))) :: ((Npos (XO (XO (XI (XO (XI (XI (XI
    (XO (XI (XI (XO (XI (XI (XO (XO (XI (XO (XI (XO (XI (XI (XO (XI (XO (XI
    (XO (XI (XO (XI XH)))))))))))))))))))))))))))))) :: ((Npos (XO (XO (XI
    (XO (XO (XI (XI (XO (XI (XI (XO (XO (XI (XO (XO (XI (XI (XI (XI (XO (XI
    (XI (XI (XI (XI (XI (XO (XO (XO (XO (XI
    XH)))))))))))))))))))))))))))))))) :: ((Npos (XO (XI (XI (XI (XI (XI (XO
    (XO (XI (XO (XI (XO (XI (XO (XO (XI (XO (XI (XI (XO (XI (XI (XO (XI (XO
    (XO (XO (XI (XI (XI (XO XH)))))))))))))))))))))))))))))))) :: ((Npos (XO
    (XI (XI (XO (XI (XI (XO (XO (XI (XI (XI (XO (XO (XI (XI (XO (XI (XI (XO
    (XO (XO (XO (XO (XO (XI (XI (XO (XI (XI
    XH)))))))))))))))))))))))))))))) :: ((Npos (XO (XI (XO (XI (XO (XI (XI
    (XO (XO (XO (XI (XO (XI (XI (XO (XO (XI (XI (XO (XO (XI (XO (XI (XO (XI
    (XO (XO (XO (XO (XI (XI XH)))))))))))))))))))))))))))))))) :: ((Npos (XI
    (XI (XO (XO (XI (XO (XO (XO (XO (XI (XI (XO (XO (XO (XO (XI (XI (XI (XO
    (XI (XO (XO (XO (XI (XO (XO (XO (XI (XO (XO (XO
    XH)))))))))))))))))))))))))))))))) :: ((Npos (XO (XO (XI (XO (XI (XO (XO
    (XI (XI (XO (XI (XI (XI (XI (XO (XI (XO (XO (XI (XI (XI (XI (XI (XO (XO
    XH)))))))))))))))))))))))))) :: ((Npos (XO (XO (XI (XI (XI (XI (XO (XO
    (XO (XI (XI (XI (XI (XI (XO (XO (XO (XO (XI (XO (XI (XI (XO (XO (XO (XO
    (XI (XO (XI (XI XH))))))))))))))))))))))))))))))) :: ((Npos (XI (XO (XI
    (XI (XI (XI (XI (XI (XI (XO (XI (XO (XI (XI (XI (XO (XO (XI (XO (XO (XO
    (XI (XO (XO (XO (XO (XO (XI (XO (XO (XO
    XH)))))))))))))))))))))))))))))))) :: ((Npos (XO (XI (XO (XI (XI (XI (XI
    (XI (XO (XI (XO (XI (XO (XO (XO (XI (XO (XI (XI (XI (XO (XO (XI (XI (XI
    (XO (XI (XI (XI XH)))))))))))))))))))))))))))))) :: ((Npos (XI (XI (XO
    (XO (XO (XI (XI (XO (XO (XI (XI (XI (XO (XI (XI (XI (XI (XO (XI (XO (XO
    (XO (XO (XO (XI (XO (XI (XO (XO (XI
    XH))))))))))))))))))))))))))))))) :: ((Npos (XO (XO (XO (XI (XI (XI (XO
    (XO (XI (XO (XO (XI (XI (XI (XI (XO (XO (XI (XO (XI (XO (XO
    XH))))))))))))))))))))))) :: ((Npos (XO (XI (XI (XO (XO (XO (XI (XO (XI
    (XO (XO (XI (XI (XO (XO (XI (XO (XI (XI (XO (XO (XO (XI (XI (XI (XI (XO
    (XI XH))))))))))))))))))))))))))))) :: ((Npos (XI (XI (XO (XO (XI (XO (XO
    (XO (XI (XO (XO (XI (XI (XI (XI (XI (XI (XI (XO (XO (XI (XO (XI (XI (XO
    (XO (XI (XO (XO (XI (XO XH)))))))))))))))))))))))))))))))) :: ((Npos (XO
    (XI (XI (XO (XI (XO (XO (XO (XI (XO (XI (XO (XO (XI (XO (XO (XI (XI (XI
    (XI (XO (XO (XI (XI (XI (XO (XI (XO (XO (XO (XI
    XH)))))))))))))))))))))))))))))))) :: ((Npos (XI (XO (XO (XI (XO (XI (XO
    (XI (XI (XO (XI (XI (XI (XO (XO (XI (XO (XO (XI (XI (XI (XI (XI (XO (XI
    (XI (XO (XI (XO (XO XH))))))))))))))))))))))))))))))) :: ((Npos (XO (XI
    (XO (XI (XO (XI (XO (XO (XO (XO (XI (XO (XO (XO (XO (XO (XO (XO (XO (XO
    (XO (XI (XO (XI (XI (XO (XO (XI (XO (XI (XI
    XH)))))))))))))))))))))))))))))))) :: ((Npos (XI (XI (XI (XO (XI (XO (XO
    (XI (XI (XI (XI (XO (XI (XI (XO (XI (XO (XI (XO (XO (XI (XO (XI (XO (XI
    (XI (XO (XO (XI (XO (XI XH)))))))))))))))))))))))))))))))) :: ((Npos (XO
    (XO (XI (XO (XO (XO (XI (XI (XI (XO (XI (XI (XI (XI (XI (XI (XO (XO (XI
    (XO (XI (XO (XO (XI (XO (XO (XI (XI (XI (XO (XO
    XH)))))))))))))))))))))))))))))))) :: ((Npos (XO (XI (XO (XI (XO (XO (XI
    (XI (XI (XO (XO (XI (XO (XO (XI (XO (XI (XI (XO (XO (XI (XI (XO (XO (XI
    (XI (XI (XI (XI (XO (XI XH)))))))))))))))))))))))))))))))) :: ((Npos (XI
    (XO (XI (XI (XI (XI (XO (XO (XI (XO (XI (XI (XI (XI (XI (XO (XO (XO (XI
    (XO (XO (XI (XO (XO (XI (XO (XI (XO (XO (XI
    XH))))))))))))))))))))))))))))))) :: ((Npos (XI (XO (XO (XO (XO (XI (XO
    (XO (XI (XI (XO (XO (XO (XO (XO (XI (XI (XO (XO (XO (XO (XO (XI (XI (XI
    (XO (XO (XO (XO (XO (XI XH)))))))))))))))))))))))))))))))) :: ((Npos (XO
    (XO (XI (XI (XO (XI (XO (XO (XI (XI (XI (XO (XO (XO (XI (XO (XO (XO (XO
    (XI (XO (XI (XI (XI (XO (XI (XI (XO (XI (XI (XI
    XH)))))))))))))))))))))))))))))))) :: ((Npos (XI (XI (XO (XO (XI (XO (XO
    (XO (XI (XI (XO (XO (XI (XO (XO (XO (XI (XO (XI (XO (XI (XO (XO (XI (XO
    (XI (XI (XO (XI XH)))))))))))))))))))))))))))))) :: ((Npos (XI (XO (XI
    (XI (XO (XI (XO (XI (XO (XO (XO (XI (XO (XO (XO (XI (XI (XI (XO (XO (XI
    (XI (XO (XO (XI (XO (XI (XO (XO (XO (XI
    XH)))))))))))))))))))))))))))))))) :: ((Npos (XO (XO (XI (XO (XI (XI (XO
    (XO (XO (XO (XO (XI (XI (XO (XO (XO (XO (XI (XO (XI (XI (XO (XI (XI (XO
    (XO (XI (XI (XO (XO XH))))))))))))))))))))))))))))))) :: ((Npos (XI (XI
    (XO (XI (XO (XO (XO (XO (XI (XO (XO (XI (XO (XO (XI (XI (XI (XI (XO (XO
    (XO (XI (XI (XO (XI (XI (XI (XI (XO (XI (XO
    XH)))))))))))))))))))))))))))))))) :: ((Npos (XI (XI (XO (XI (XI (XI (XO
    (XO (XO (XO (XI (XO (XO (XI (XO (XO (XI (XI (XI (XI (XO (XI (XO (XI (XI
    (XO (XI (XO (XO (XO XH))))))))))))))))))))))))))))))) :: ((Npos (XO (XO
    (XO (XI (XO (XI (XI (XI (XO (XO (XI (XI (XI (XO (XI (XO (XO (XI (XI (XO
    (XI (XI (XO (XO (XI (XI (XI (XO (XO (XO (XI
    XH)))))))))))))))))))))))))))))))) :: ((Npos (XO (XI (XI (XI (XI (XI (XO
    (XI (XI (XO (XO (XO (XI (XI (XO (XO (XI (XI (XO (XO (XO (XI (XO (XI (XI
    (XO (XO (XI (XO XH)))))))))))))))))))))))))))))) :: ((Npos (XO (XI (XI
    (XI (XO (XO (XO (XO (XO (XO (XI (XI (XO (XO (XO (XI (XI (XI (XO (XO (XI
    (XO (XI (XI (XO (XO (XO (XO (XI (XO
    XH))))))))))))))))))))))))))))))) :: ((Npos (XI (XO (XI (XO (XO (XI (XI
    (XI (XO (XI (XO (XO (XO (XO (XI (XI (XO (XI (XO (XI (XO (XI (XO (XO (XI
    (XI (XI (XI (XO (XO (XO XH)))))))))))))))))))))))))))))))) :: ((Npos (XO
    (XO (XO (XO (XI (XO (XO (XI (XI (XI (XO (XO (XI (XI (XI (XO (XI (XI (XO
    (XI (XO (XI (XI (XO (XO (XI XH))))))))))))))))))))))))))) :: ((Npos (XI
    (XI (XO (XO (XO (XO (XI (XI (XO (XO (XO (XO (XI (XI (XI (XO (XO (XI (XI
    (XO (XO (XI (XO (XI (XO (XO (XI (XI (XI (XO (XI
    XH)))))))))))))))))))))))))))))))) :: ((Npos (XI (XI (XO (XO (XI (XO (XO
    (XI (XI (XI (XO (XI (XI (XO (XI (XI (XO (XO (XO (XO (XO (XI (XI (XI (XI
    (XO (XI (XO (XI XH)))))))))))))))))))))))))))))) :: ((Npos (XI (XO (XO
    (XI (XO (XO (XO (XI (XO (XI (XO (XI (XO (XI (XI (XO (XO (XI (XO (XI (XI
    (XO (XI (XO (XI (XO (XO (XI (XI (XO (XI
    XH)))))))))))))))))))))))))))))))) :: ((Npos (XO (XI (XO (XO (XO (XO (XO
    (XI (XI (XO (XI (XI (XO (XI (XI (XI (XO (XO (XI (XI (XI (XO (XI (XO (XO
    (XI (XO (XO (XI XH)))))))))))))))))))))))))))))) :: ((Npos (XI (XI (XI
    (XO (XO (XI (XO (XI (XO (XO (XO (XO (XO (XO (XI (XI (XO (XO (XI (XO (XO
    (XI (XI (XI (XI (XI (XO (XO (XI (XI
    XH))))))))))))))))))))))))))))))) :: ((Npos (XO (XO (XI (XI (XI (XI (XO
    (XO (XI (XI (XO (XI (XI (XO (XI (XO (XO (XI (XI (XI (XO (XO (XI (XO (XO
    (XI (XI (XO (XO (XI (XI XH)))))))))))))))))))))))))))))))) :: ((Npos (XI
    (XI (XI (XO (XO (XO (XI (XO (XI (XO (XO (XO (XI (XI (XO (XO (XO (XO (XI
    (XO (XO (XI (XO (XI (XI (XI (XI (XI (XO (XI (XO
    XH)))))))))))))))))))))))))))))))) :: ((Npos (XI (XO (XI (XI (XI (XI (XI
    (XI (XO (XI (XO (XI (XO (XI (XI (XI (XO (XO (XO (XO (XI (XO (XO (XI (XI
    (XO (XI (XO (XI (XI XH))))))))))))))))))))))))))))))) :: ((Npos (XI (XO
    (XI (XO (XI (XI (XO (XI (XO (XI (XI (XO (XI (XO (XO (XI (XO (XI (XI (XI
    (XI (XI (XO (XI (XI (XO (XI (XO (XO (XI
    XH))))))))))))))))))))))))))))))) :: ((Npos (XI (XI (XO (XI (XI (XO (XO
    (XO (XI (XO (XO (XO (XO (XO (XO (XI (XO (XO (XO (XI (XO (XO (XI (XI
    XH))))))))))))))))))))))))) :: ((Npos (XO (XO (XO (XI (XO (XO (XO (XI (XI
    (XO (XI (XO (XO (XI (XO (XO (XO (XI (XO (XI (XI (XI (XI (XO (XO (XO (XO
    (XO (XI (XO (XI
    XH)))))))))))))))))))))))))))))))) :: [])))))))))))))))))))))))))))))))))))))))))))))))))))))))))))))))))))))))))))))))))))))))))))))))))))))))))))))))))))))))))))))))))))))))))))))))))))))))))))))))))))))))))))))))))))))))))))))))))))))))))))))))))))))))))))))))))))))))))))))))))))))))))))))))

(** val rFC_V3 : n list **)

let rFC_V3 =
  (Npos (XO (XO (XO (XI (XI (XO (XI (XO (XO (XO (XI (XI (XI (XO (XI (XI (XO
    (XI (XO (XO (XO (XO (XO (XO (XI (XI (XI (XO (XO (XO
    XH))))))))))))))))))))))))))))))) :: ((Npos (XI (XI (XO (XI (XI (XO (XO
    (XI (XO (XO (XO (XO (XI (XO (XI (XO (XO (XI (XI (XO (XO (XI (XI (XO (XO
    (XO (XI (XI (XO XH)))))))))))))))))))))))))))))) :: ((Npos (XI (XI (XO
    (XI (XO (XO (XI (XO (XI (XO (XO (XI (XI (XO (XI (XI (XI (XO (XO (XO (XO
    (XI (XI (XO (XI (XI (XI (XO (XI (XO (XO
    XH)))))))))))))))))))))))))))))))) :: ((Npos (XI (XO (XI (XO (XO (XI (XI
    (XO (XI (XI (XO (XI (XO (XI (XI (XO (XI (XO (XI (XO (XO (XO (XO (XI (XI
    (XI (XI (XI (XI (XI (XO XH)))))))))))))))))))))))))))))))) :: ((Npos (XO
    (XI (XO (XO (XI (XO (XI (XI (XO (XO (XO (XO (XI (XO (XI (XO (XI (XO (XI
    (XI (XI (XO (XI (XI (XI (XI (XO (XO (XO (XO (XI
    XH)))))))))))))))))))))))))))))))) :: ((Npos (XI (XO (XI (XI (XI (XO (XO
    (XO (XI (XI (XO (XO (XO (XO (XI (XO (XI (XI (XI (XI (XO (XO (XO (XI (XI
    (XI (XI (XO (XO (XO XH))))))))))))))))))))))))))))))) :: ((Npos (XO (XO
    (XI (XI (XO (XI (XI (XO (XO (XO (XO (XO (XI (XI (XO (XI (XO (XI (XO (XO
    (XI (XO (XI (XI (XO (XI (XO (XO (XI (XO (XO
    XH)))))))))))))))))))))))))))))))) :: ((Npos (XO (XI (XI (XI (XI (XI (XO
    (XI (XO (XO (XO (XO (XI (XI (XO (XI (XO (XI (XI (XI (XI (XI (XI (XI (XO
    (XO (XI (XI (XO XH)))))))))))))))))))))))))))))) :: ((Npos (XO (XI (XI
    (XO (XO (XO (XO (XI (XO (XI (XI (XO (XI (XI (XO (XI (XO (XO (XO (XI (XI
    (XO (XO (XI (XO (XI (XO (XI (XO
    XH)))))))))))))))))))))))))))))) :: ((Npos (XO (XO (XI (XI (XO (XI (XO
    (XO (XI (XI (XO (XI (XO (XI (XO (XI (XO (XO (XO (XO (XI (XO (XI (XO (XI
    (XO (XI (XO (XI (XI XH))))))))))))))))))))))))))))))) :: ((Npos (XI (XI
    (XI (XI (XO (XI (XI (XO (XI (XI (XO (XI (XI (XI (XI (XO (XO (XI (XI (XO
    (XO (XO (XI (XO (XO (XO (XO (XI (XI (XO (XI
    XH)))))))))))))))))))))))))))))))) :: ((Npos (XO (XO (XO (XI (XI (XO (XI
    (XO (XO (XO (XO (XI (XO (XO (XO (XO (XI (XI (XI (XO (XO (XI (XO (XO (XO
    (XO (XI (XI (XO (XO XH))))))))))))))))))))))))))))))) :: ((Npos (XO (XI
    (XI (XO (XI (XO (XO (XI (XI (XO (XI (XO (XI (XI (XI (XO (XI (XI (XO (XO
    (XO (XO (XO (XO (XI (XO (XO (XI (XI (XO
    XH))))))))))))))))))))))))))))))) :: ((Npos (XI (XO (XI (XI (XI (XO (XI
    (XI (XO (XI (XI (XI (XI (XO (XO (XI (XO (XI (XI (XO (XI (XI (XO (XI (XI
    (XO (XI (XO XH))))))))))))))))))))))))))))) :: ((Npos (XO (XO (XO (XI (XO
    (XI (XI (XO (XO (XO (XO (XO (XO (XO (XI (XO (XO (XO (XI (XO (XO (XO (XO
    (XI (XO (XI (XO (XI (XI (XI XH))))))))))))))))))))))))))))))) :: ((Npos
    (XO (XO (XO (XI (XI (XI (XO (XI (XO (XO (XO (XI (XO (XO (XI (XI (XO (XI
    (XO (XO (XO (XO (XI (XO (XI (XO (XO (XI (XO (XI (XI
    XH)))))))))))))))))))))))))))))))) :: ((Npos (XI (XO (XO (XI (XO (XO (XO
    (XO (XO (XI (XI (XO (XI (XI (XO (XO (XO (XO (XO (XI (XO (XI (XO (XI (XO
    (XI (XI (XI (XO (XI (XO XH)))))))))))))))))))))))))))))))) :: ((Npos (XI
    (XI (XI (XO (XI (XI (XI (XO (XO (XO (XO (XO (XO (XI (XO (XO (XI (XI (XO
    (XI (XO (XO (XI (XI (XI (XO (XI (XO (XI
    XH)))))))))))))))))))))))))))))) :: ((Npos (XI (XI (XO (XO (XI (XI (XI
    (XO (XO (XI (XO (XO (XO (XI (XI (XO (XO (XO (XI (XO (XI (XI (XI (XO (XO
    (XO (XI (XI (XO (XI (XI XH)))))))))))))))))))))))))))))))) :: ((Npos (XI
    (XI (XO (XI (XO (XO (XI (XI (XO (XO (XO (XO (XI (XI (XO (XI (XI (XI (XO
    (XO (XI (XO (XO (XI (XO (XI (XO (XI (XI (XI
    XH))))))))))))))))))))))))))))))) :: ((Npos (XO (XI (XI (XO (XO (XI (XO
    (XO (XO (XI (XO (XI (XI (XO (XO (XO (XI (XO (XO (XO (XO (XO (XI (XO (XI
    (XO (XO (XI (XO XH)))))))))))))))))))))))))))))) :: ((Npos (XI (XO (XO
    (XO (XO (XI (XI (XI (XO (XO (XO (XI (XO (XO (XO (XO (XO (XO (XI (XI (XI
    (XO (XO (XO (XI (XI (XO XH)))))))))))))))))))))))))))) :: ((Npos (XO (XI
    (XO (XO (XI (XO (XO (XI (XO (XO (XI (XI (XO (XO (XO (XO (XO (XO (XI (XO
    (XO (XI (XO (XI (XI (XO (XO (XO (XI
    XH)))))))))))))))))))))))))))))) :: ((Npos (XO (XO (XO (XI (XO (XI (XI
    (XO (XI (XO (XO (XO (XI (XI (XI (XO (XI (XI (XI (XI (XI (XI (XO (XO (XI
    (XI (XO (XO (XI XH)))))))))))))))))))))))))))))) :: ((Npos (XO (XI (XI
    (XI (XI (XO (XO (XO (XI (XI (XI (XI (XI (XO (XI (XI (XO (XI (XO (XI (XI
    (XI (XI (XO (XO (XO (XI (XI (XO (XO
    XH))))))))))))))))))))))))))))))) :: ((Npos (XO (XO (XI (XO (XO (XI (XI
    (XI (XO (XI (XO (XI (XI (XO (XI (XI (XO (XO (XI (XI (XO (XO (XI (XO (XO
    (XI (XI (XO (XO (XO (XO XH)))))))))))))))))))))))))))))))) :: ((Npos (XI
    (XO (XI (XO (XO (XO (XO (XO (XI (XO (XI (XO (XO (XI (XI (XO (XI (XO (XI
    (XO (XO (XO (XO (XO (XI (XI (XO (XO (XI (XI (XO
    XH)))))))))))))))))))))))))))))))) :: ((Npos (XO (XO (XO (XO (XO (XI (XO
    (XI (XI (XI (XI (XI (XO (XI (XI (XO (XI (XI (XI (XO (XO (XI (XO (XI (XO
    (XO (XO (XI (XO (XI XH))))))))))))))))))))))))))))))) :: ((Npos (XO (XI
    (XI (XO (XO (XO (XI (XI (XO (XO (XI (XI (XI (XI (XO (XO (XI (XO (XO (XI
    (XI (XI (XI (XO (XI (XO (XI (XO (XO (XO (XO
    XH)))))))))))))))))))))))))))))))) :: ((Npos (XO (XO (XO (XO (XO (XI (XI
    (XI (XI (XO (XI (XO (XO (XI (XO (XO (XI (XI (XO (XO (XI (XO (XO (XI (XO
    (XI (XI (XI (XI (XI (XI XH)))))))))))))))))))))))))))))))) :: ((Npos (XI
    (XO (XI (XO (XI (XO (XI (XO (XO (XO (XI (XO (XO (XI (XO (XO (XO (XI (XO
    (XI (XI (XI (XO (XO (XO (XI (XO (XO (XO (XO (XO
    XH)))))))))))))))))))))))))))))))) :: ((Npos (XO (XO (XI (XI (XI (XI (XO
    (XO (XI (XO (XI (XI (XI (XI (XI (XO (XI (XO (XO (XI (XI (XO (XI (XI (XI
    (XO (XI (XI (XO XH)))))))))))))))))))))))))))))) :: ((Npos (XO (XI (XO
    (XO (XO (XI (XO (XI (XI (XI (XI (XI (XI (XI (XO (XI (XI (XO (XI (XO (XI
    (XI (XI (XO (XO (XI (XO (XI (XO (XO
    XH))))))))))))))))))))))))))))))) :: ((Npos (XI (XO (XI (XO (XI (XO (XI
    (XI (XI (XI (XI (XO (XI (XO (XI (XI (XI (XI (XI (XI (XI (XO (XO (XO (XI
    (XI (XI (XO (XO (XO XH))))))))))))))))))))))))))))))) :: ((Npos (XO (XI
    (XI (XO (XI (XO (XO (XI (XO (XO (XO (XO (XI (XO (XI (XI (XI (XO (XI (XI
    (XO (XO (XO (XI (XO (XI (XI (XI (XI (XO (XO
    XH)))))))))))))))))))))))))))))))) :: ((Npos (XI (XO (XI (XI (XI (XO (XO
    (XO (XI (XI (XI (XO (XI (XO (XO (XO (XI (XI (XO (XO (XI (XO (XI (XO (XO
    (XI (XI (XO (XO XH)))))))))))))))))))))))))))))) :: ((Npos (XO (XI (XO
    (XI (XI (XI (XI (XO (XI (XI (XO (XI (XO (XI (XI (XI (XO (XI (XI (XI (XO
    (XO (XO (XI (XO (XO (XI (XO (XO (XI
    XH))))))))))))))))))))))))))))))) :: ((Npos (XO (XI (XI (XO (XO (XO (XI
    (XO (XO (XO (XI (XO (XI (XO (XO (XO (XI (XO (XI (XI (XI (XI (XI (XO (XO
    (XI (XO (XO (XO (XI (XO XH)))))))))))))))))))))))))))))))) :: ((Npos (XI
    (XO (XO (XO (XO (XI (XI (XO (XI (XO (XO (XO (XI (XO (XO (XI (XI (XI (XO
    (XI (XI (XO (XO (XI (XO (XI (XO (XI
    XH))))))))))))))))))))))))))))) :: ((Npos (XO (XI (XI (XI (XO (XI (XI (XO
    (XI (XI (XO (XO (XI (XO (XO (XI (XI (XI (XO (XO (XI (XI (XO (XI (XI (XO
    (XI (XO (XI (XI (XI XH)))))))))))))))))))))))))))))))) :: ((Npos (XO (XI
    (XO (XO (XI (XO (XI (XO (XI (XO (XO (XO (XI (XI (XO (XO (XO (XI (XO (XI
    (XO (XO (XI (XI (XO (XO (XO (XO (XO (XI (XI
    XH)))))))))))))))))))))))))))))))) :: ((Npos (XO (XO (XO (XO (XO (XO (XI
    (XO (XI (XO (XO (XO (XO (XO (XI (XI (XO (XI (XI (XI (XI (XI (XO (XO (XO
    XH)))))))))))))))))))))))))) :: ((Npos (XI (XO (XO (XO (XO (XO (XO (XO
    (XI (XO (XI (XO (XO (XO (XO (XI (XI (XO (XI (XI (XI (XI (XI (XO (XI (XI
    (XO XH)))))))))))))))))))))))))))) :: ((Npos (XI (XI (XO (XI (XO (XI (XI
    (XO (XI (XO (XO (XI (XO (XI (XO (XI (XO (XI (XI (XI (XO (XO (XI (XO (XI
    (XO (XI (XO (XI (XO (XI XH)))))))))))))))))))))))))))))))) :: ((Npos (XO
    (XO (XO (XI (XI (XO (XO (XI (XO (XI (XI (XO (XI (XI (XO (XO (XI (XI (XO
    (XO (XO (XI (XI (XO (XO (XO (XI (XO (XI (XI
    XH))))))))))))))))))))))))))))))) :: ((Npos (XO (XO (XO (XO (XI (XO (XO
    (XO (XO (XI (XO (XI (XI (XI (XO (XO (XO (XO (XI (XI (XO (XO (XI (XI (XI
    (XO (XI (XI (XO (XI (XI XH)))))))))))))))))))))))))))))))) :: ((Npos (XO
    (XI (XO (XI (XI (XI (XI (XO (XI (XI (XI (XI (XO (XI (XI (XO (XI (XO (XI
    (XI (XO (XI (XI (XI (XO (XI (XI (XO (XI (XI (XO
    XH)))))))))))))))))))))))))))))))) :: ((Npos (XO (XI (XI (XI (XI (XI (XO
    (XO (XI (XO (XI (XI (XI (XO (XI (XO (XO (XI (XO (XO (XO (XI (XI (XI (XO
    (XO (XI (XI (XO (XI (XO XH)))))))))))))))))))))))))))))))) :: ((Npos (XO
    (XO (XO (XO (XI (XI (XI (XI (XO (XO (XO (XO (XO (XI (XO (XI (XO (XI (XI
    (XI (XI (XO (XO (XO (XI (XO (XO (XO (XI (XI (XI
    XH)))))))))))))))))))))))))))))))) :: ((Npos (XI (XI (XO (XO (XI (XI (XI
    (XI (XI (XI (XO (XI (XI (XO (XO (XI (XO (XO (XO (XI (XI (XI (XO (XO (XO
    (XI (XI (XO (XI (XI (XO XH)))))))))))))))))))))))))))))))) :: ((Npos (XI
    (XI (XO (XO (XI (XI (XI (XI (XO (XI (XI (XI (XO (XO (XO (XO (XO (XO (XI
    (XO (XI (XI (XI (XO (XI (XO (XI (XO (XO (XI
    XH))))))))))))))))))))))))))))))) :: ((Npos (XO (XO (XI (XI (XO (XI (XO
    (XO (XI (XO (XO (XI (XO (XO (XO (XI (XO (XI (XI (XI (XI (XO (XI (XO (XI
    (XO (XI (XO (XI (XI (XI XH)))))))))))))))))))))))))))))))) :: ((Npos (XO
    (XO (XO (XO (XO (XO (XO (XO (XI (XO (XO (XO (XO (XI (XI (XO (XI (XO (XI
    (XI (XI (XO (XO (XO (XI (XO (XI (XO (XI (XO (XI
    XH)))))))))))))))))))))))))))))))) :: ((Npos (XI (XO (XI (XI (XO (XO (XI
    (XI (XO (XI (XO (XI (XI (XO (XI (XO (XO (XI (XO (XO (XO (XI (XI (XO (XI
    (XI (XI (XI (XI (XO (XO XH)))))))))))))))))))))))))))))))) :: ((Npos (XI
    (XI (XO (XO (XO (XO (XI (XO (XI (XO (XO (XO (XI (XO (XO (XI (XI (XO (XI
    (XI (XI (XI (XI (XI (XI (XI (XO (XO (XI (XO
    XH))))))))))))))))))))))))))))))) :: ((Npos (XI (XO (XI (XO (XO (XO (XO
    (XI (XO (XI (XI (XO (XI (XI (XI (XO (XO (XI (XO (XO (XO (XI (XO (XI (XI
    (XI (XI (XI (XI (XI (XO XH)))))))))))))))))))))))))))))))) :: ((Npos (XI
    (XO (XI (XI (XI (XO (XO (XO (XI (XI (XI (XO (XO (XI (XO (XO (XI (XI (XI
    (XO (XO (XO (XI (XO (XI (XO (XI (XO (XI (XO
    XH))))))))))))))))))))))))))))))) :: ((Npos (XO (XO (XO (XI (XI (XO (XI
    (XI (XO (XI (XO (XO (XI (XI (XI (XI (XI (XO (XO (XI (XO (XI (XO (XI (XI
    (XI (XI (XO (XI (XO (XO XH)))))))))))))))))))))))))))))))) :: ((Npos (XO
    (XO (XI (XI (XO (XI (XI (XI (XO (XO (XI (XI (XO (XI (XI (XI (XI (XO (XI
    (XI (XI (XO (XI (XO (XI (XO (XI (XI (XI
    XH)))))))))))))))))))))))))))))) :: ((Npos (XI (XI (XO (XO (XO (XI (XI
    (XI (XI (XO (XO (XI (XO (XO (XI (XO (XI (XO (XI (XI (XI (XO (XO (XI (XO
    (XI (XI (XI (XO (XI XH))))))))))))))))))))))))))))))) :: ((Npos (XI (XI
    (XO (XO (XI (XI (XO (XI (XO (XI (XI (XO (XO (XO (XI (XI (XI (XI (XO (XI
    (XO (XO (XO (XO (XO (XI (XI (XI (XI (XI (XI
    XH)))))))))))))))))))))))))))))))) :: ((Npos (XI (XO (XO (XO (XO (XI (XI
    (XO (XO (XO (XO (XI (XO (XO (XI (XI (XO (XI (XI (XO (XO (XO (XO (XI (XO
    (XI (XI (XI (XO (XI XH))))))))))))))))))))))))))))))) :: ((Npos (XI (XO
    (XO (XO (XI (XO (XO (XI (XO (XO (XO (XI (XO (XI (XO (XO (XI (XO (XO (XO
    (XO (XO (XI (XO (XI (XO (XI (XI (XO (XI (XO
    XH)))))))))))))))))))))))))))))))) :: ((Npos (XI (XO (XI (XI (XO (XO (XO
    (XO (XI (XO (XO (XO (XI (XO (XI (XI (XI (XI (XI (XI (XI (XO (XI (XO (XI
    (XI (XO (XO (XO (XO (XI XH)))))))))))))))))))))))))))))))) :: ((Npos (XO
    (XI (XO (XI (XO (XI (XI (XO (XI (XO (XO (XO (XO (XI (XI (XI (XO (XO (XO
    (XI (XO (XI (XO (XO (XO (XI (XI (XO (XO (XI (XO
    XH)))))))))))))))))))))))))))))))) :: ((Npos (XI (XO (XO (XI (XO (XO (XO
    (XO (XI (XO (XI (XO (XI (XO (XI (XO (XI (XI (XO (XO (XO (XI (XO (XO (XO
    (XI (XI (XO (XO (XI (XO XH)))))))))))))))))))))))))))))))) :: ((Npos (XO
    (XI (XO (XO (XI (XO (XI (XI (XO (XO (XI (XI (XI (XO (XO (XO (XI (XO (XO
    (XI (XI (XO (XO (XO (XI (XO (XO (XI (XI (XI (XO
    XH)))))))))))))))))))))))))))))))) :: ((Npos (XO (XO (XO (XI (XO (XI (XO
    (XO (XI (XI (XO (XO (XO (XI (XO (XO (XI (XO (XI (XO (XO (XI (XO (XI (XI
    (XI (XO (XO (XI (XO (XO XH)))))))))))))))))))))))))))))))) :: ((Npos (XI
    (XO (XI (XI (XO (XI (XO (XI (XI (XO (XO (XI (XO (XI (XO (XO (XO (XI (XI
    (XO (XI (XO (XO (XI (XO (XO (XI (XI (XO
    XH)))))))))))))))))))))))))))))) :: ((Npos (XI (XI (XO (XO (XO (XI (XI
    (XI (XO (XO (XI (XI (XI (XO (XO (XI (XI (XI (XI (XI (XI (XO (XI (XI (XO
    (XO (XO (XO (XO (XO XH))))))))))))))))))))))))))))))) :: ((Npos (XI (XO
    (XI (XO (XI (XI (XI (XI (XO (XO (XO (XI (XO (XO (XO (XO (XI (XO (XO (XI
    (XO (XO (XO (XO (XO (XO (XO (XO (XO (XI
    XH))))))))))))))))))))))))))))))) :: ((Npos (XI (XO (XI (XO (XO (XI (XI
    (XI (XI (XO (XO (XI (XI (XI (XO (XI (XI (XO (XO (XI (XO (XO (XO (XO (XO
    (XO (XI XH)))))))))))))))))))))))))))) :: ((Npos (XO (XO (XI (XI (XO (XO
    (XO (XO (XI (XI (XI (XO (XO (XI (XO (XI (XO (XO (XI (XO (XO (XO (XI (XO
    (XI (XI (XI (XI (XI (XO (XI XH)))))))))))))))))))))))))))))))) :: ((Npos
    (XI (XO (XI (XI (XI (XO (XO (XI (XI (XI (XO (XI (XO (XO (XO (XO (XO (XI
    (XI (XO (XI (XO (XI (XI (XI (XO (XO (XI (XI (XO (XI
    XH)))))))))))))))))))))))))))))))) :: ((Npos (XI (XO (XI (XI (XO (XI (XO
    (XO (XO (XI (XO (XO (XO (XI (XI (XO (XI (XO (XI (XO (XI (XI (XI (XO (XI
    (XI (XO (XO (XO (XI (XI XH)))))))))))))))))))))))))))))))) :: ((Npos (XO
    (XI (XI (XO (XO (XO (XI (XI (XI (XO (XI (XI (XI (XO (XO (XO (XO (XI (XI
    (XO (XO (XI (XI (XO (XI (XO (XO (XI (XO (XI (XI
    XH)))))))))))))))))))))))))))))))) :: ((Npos (XO (XI (XO (XO (XO (XO (XO
    (XO (XI (XI (XI (XI (XO (XO (XI (XO (XI (XI (XI (XO (XO (XO (XI (XI (XO
    (XO (XO (XI (XI (XO (XO XH)))))))))))))))))))))))))))))))) :: ((Npos (XI
    (XI (XI (XI (XI (XI (XI (XO (XI (XI (XI (XO (XO (XI (XI (XI (XO (XI (XI
    (XO (XO (XI (XI (XO (XO (XI (XI (XO (XO (XO
    XH))))))))))))))))))))))))))))))) :: ((Npos (XO (XO (XI (XO (XO (XO (XI
    (XI (XI (XI (XO (XO (XI (XI (XI (XI (XI (XO (XO (XI (XI (XI (XI (XI
    XH))))))))))))))))))))))))) :: ((Npos (XI (XO (XI (XO (XO (XI (XO (XI (XI
    (XI (XO (XO (XI (XI (XO (XO (XI (XO (XO (XI (XO (XI (XI (XI (XI (XO (XI
    (XI (XI (XO (XI XH)))))))))))))))))))))))))))))))) :: ((Npos (XO (XI (XO
    (XI (XI (XI (XO (XI (XI (XO (XO (XO (XI (XI (XI (XI (XO (XI (XO (XI (XO
    (XI (XI (XI (XI (XO (XO (XO (XO (XI (XI
    XH)))))))))))))))))))))))))))))))) :: ((Npos (XO (XO (XI (XO (XO (XI (XI
    (XI (XI (XI (XO (XO (XO (XO (XO (XO (XO (XI (XI (XI (XO (XI (XI (XO (XO
    (XO (XI (XO (XO (XI (XI XH)))))))))))))))))))))))))))))))) :: ((Npos (XI
    (XO (XO (XI (XI (XO (XI (XI (XI (XO (XI (XI (XO (XI (XO (XO (XO (XO (XO
    (XI (XO (XI (XI (XO (XO (XO (XO (XO (XI (XI (XO
    XH)))))))))))))))))))))))))))))))) :: ((Npos (XO (XO (XI (XO (XO (XI (XI
    (XO (XI (XI (XO (XO (XO (XO (XO (XO (XO (XI (XO (XI (XI (XI (XO (XO (XO
    (XI (XI (XO XH))))))))))))))))))))))))))))) :: ((Npos (XI (XI (XO (XO (XO
    (XO (XI (XO (XO (XI (XO (XO (XI (XO (XO (XO (XO (XI (XO (XO (XI (XI (XO
    (XI (XO (XO (XI (XI (XO (XO XH))))))))))))))))))))))))))))))) :: ((Npos
    (XI (XI (XO (XI (XI (XI (XO (XO (XO (XI (XI (XI (XO (XI (XO (XI (XO (XI
    (XI (XI (XO (XI (XO (XO (XI (XI (XO (XO (XI (XI
    XH))))))))))))))))))))))))))))))) :: ((Npos (XI (XO (XI (XO (XI (XO (XI
    (XO (XO (XO (XI (XI (XI (XI (XI (XI (XI (XO (XI (XO (XI (XI (XO (XO (XI
    (XI (XO (XI (XI (XO (XI XH)))))))))))))))))))))))))))))))) :: ((Npos (XO
    (XI (XI (XI (XO (XO (XO (XI (XI (XI (XO (XI (XO (XI (XI (XI (XI (XI (XI
    (XI (XO (XO (XI (XO (XO (XI (XO (XO (XI (XO (XO
    XH)))))))))))))))))))))))))))))))) :: ((Npos (XI (XO (XI (XO (XI (XO (XI
    (XI (XO (XO (XI (XI (XO (XO (XO (XI (XI (XO (XO (XO (XO (XI (XI (XO (XO
    (XO (XI (XO (XO (XI (XO XH)))))))))))))))))))))))))))))))) :: ((Npos (XI
    (XI (XI (XI (XO (XI (XO (XO (XI (XI (XO (XI (XO (XI (XO (XI (XO (XI (XO
    (XO (XI (XI (XO (XO (XI (XI (XI (XI (XI (XI
    XH))))))))))))))))))))))))))))))) :: ((Npos (XI (XO (XO (XO (XI (XI (XI
    (XI (XI (XI (XO (XI (XI (XI (XO (XO (XO (XO (XI (XO (XI (XI (XO (XI (XI
    (XO (XI (XO (XO (XI (XO XH)))))))))))))))))))))))))))))))) :: ((Npos (XO
    (XI (XO (XO (XO (XI (XI (XO (XI (XI (XI (XO (XI (XO (XI (XI (XO (XO (XO
    (XI (XO (XI (XO (XO (XO (XI (XI (XI (XI (XI (XO
    XH)))))))))))))))))))))))))))))))) :: ((Npos (XO (XI (XO (XI (XI (XI (XO
    (XO (XO (XO (XO (XO (XI (XO (XI (XO (XO (XI (XI (XO (XO (XO (XO (XO (XO
    (XO (XO (XO (XO (XI (XI XH)))))))))))))))))))))))))))))))) :: ((Npos (XI
    (XI (XO (XI (XO (XI (XI (XO (XI (XO (XI (XO (XO (XI (XI (XO (XI (XO (XI
    (XO (XO (XI (XO (XO (XO (XO (XO (XI (XI (XO (XI
    XH)))))))))))))))))))))))))))))))) :: ((Npos (XI (XI (XO (XO (XO (XO (XI
    (XI (XO (XI (XI (XI (XO (XI (XO (XO (XI (XO (XI (XI (XO (XO (XI (XI (XO
    (XI (XO (XO (XO (XO XH))))))))))))))))))))))))))))))) :: ((Npos (XI (XO
    (XI (XI (XI (XO (XO (XI (XI (XI (XO (XO (XI (XI (XI (XI (XI (XO (XI (XO
    (XO (XO (XI (XI (XO (XO (XO (XO (XO (XI
    XH))))))))))))))))))))))))))))))) :: ((Npos (XO (XI (XI (XO (XI (XI (XI
    (XO (XI (XI (XI (XI (XO (XI (XO (XO (XI (XI (XI (XO (XI (XO (XI (XI (XO
    (XI (XO (XO (XI (XO XH))))))))))))))))))))))))))))))) :: ((Npos (XI (XI
    (XI (XO (XO (XI (XO (XI (XI (XO (XO (XI (XO (XI (XO (XO (XO (XO (XI (XO
    (XI (XO (XO (XO (XO (XI (XO (XO (XO (XI (XO
    XH)))))))))))))))))))))))))))))))) :: ((Npos (XI (XI (XO (XI (XO (XI (XI
    (XO (XO (XI (XI (XI (XI (XI (XI (XO (XI (XO (XI (XI (XI (XO (XO (XO (XI
    (XO (XI (XO (XI (XI (XO XH)))))))))))))))))))))))))))))))) :: ((Npos (XO
    (XI (XI (XO (XI (XI (XI (XI (XI (XI (XO (XI (XI (XI (XI (XI (XO (XI (XO
    (XO (XI (XO (XO (XI (XI (XI (XO (XI
    XH))))))))))))))))))))))))))))) :: ((Npos (XI (XO (XI (XI (XO (XI (XI (XI
    (XI (XO (XO (XI (XO (XI (XO (XO (XI (XI (XO (XO (XO (XO (XO (XI (XI (XI
    (XI XH)))))))))))))))))))))))))))) :: ((Npos (XO (XO (XI (XO (XO (XO (XI
    (XI (XO (XO (XO (XI (XO (XI (XI (XO (XO (XI (XO (XI (XO (XI (XI (XI (XO
    (XO (XI (XI (XI (XO (XI XH)))))))))))))))))))))))))))))))) :: ((Npos (XO
    (XO (XO (XI (XI (XI (XI (XO (XO (XI (XO (XI (XI (XO (XO (XO (XI (XO (XI
    (XO (XO (XI (XI (XO (XO (XO (XO (XI (XI (XO (XO
    XH)))))))))))))))))))))))))))))))) :: ((Npos (XO (XO (XO (XI (XO (XI (XO
    (XO (XO (XI (XO (XI (XO (XI (XI (XI (XI (XO (XO (XO (XI (XO (XI (XO (XI
    (XI (XO (XI (XO (XI (XO XH)))))))))))))))))))))))))))))))) :: ((Npos (XO
    (XI (XI (XO (XI (XI (XO (XO (XI (XO (XI (XO (XI (XO (XO (XI (XI (XI (XI
    (XO (XO (XI (XO (XO (XI (XO (XI (XO (XI (XO (XO
    XH)))))))))))))))))))))))))))))))) :: ((Npos (XO (XI (XO (XI (XO (XI (XO
    (XO (XI (XO (XI (XO (XI (XO (XO (XO (XI (XI (XI (XI (XO (XO (XI (XO (XI
    (XI (XO (XI (XI (XI (XI XH)))))))))))))))))))))))))))))))) :: ((Npos (XO
    (XO (XI (XI (XO (XO (XO (XO (XI (XO (XO (XI (XO (XI (XI (XI (XI (XO (XO
    (XO (XI (XI (XI (XI (XI (XI (XI (XI (XI (XO (XO
    XH)))))))))))))))))))))))))))))))) :: ((Npos (XI (XI (XI (XO (XI (XO (XO
    (XI (XI (XI (XO (XI (XI (XO (XO (XI (XI (XO (XO (XO (XO (XO (XI (XO (XI
    (XO (XO (XO (XO (XO (XO XH)))))))))))))))))))))))))))))))) :: ((Npos (XI
    (XI (XI (XO (XO (XI (XI (XO (XI (XO (XO (XI (XO (XO (XI (XO (XO (XO (XO
    (XI (XO (XO (XI (XO (XO (XO (XI (XO (XI (XO (XI
    XH)))))))))))))))))))))))))))))))) :: ((Npos (XO (XI (XI (XI (XO (XI (XI
    (XI (XO (XO (XI (XO (XI (XO (XI (XO (XO (XI (XO (XO (XI (XO (XI (XI (XI
    (XI (XI (XO (XO XH)))))))))))))))))))))))))))))) :: ((Npos (XO (XI (XO
    (XI (XO (XI (XO (XI (XO (XO (XI (XO (XO (XO (XI (XO (XO (XI (XI (XI (XO
    (XO (XO (XI (XO (XO (XO (XI (XO
    XH)))))))))))))))))))))))))))))) :: ((Npos (XO (XI (XO (XI (XI (XI (XO
    (XO (XO (XI (XI (XO (XI (XO (XI (XI (XO (XO (XO (XO (XO (XI (XO (XO (XO
    (XI (XI (XI (XI (XO (XI XH)))))))))))))))))))))))))))))))) :: ((Npos (XI
    (XO (XI (XI (XO (XI (XI (XO (XO (XO (XI (XI (XI (XO (XI (XO (XI (XI (XI
    (XI (XO (XI (XO (XO (XI (XO (XO (XI (XI (XI (XI
    XH)))))))))))))))))))))))))))))))) :: ((Npos (XI (XO (XO (XI (XO (XO (XO
    (XI (XI (XI (XO (XI (XO (XI (XO (XI (XO (XI (XO (XI (XO (XO (XI (XI (XO
    (XI (XI (XO (XO (XO (XI XH)))))))))))))))))))))))))))))))) :: ((Npos (XO
    (XO (XO (XI (XO (XI (XO (XO (XO (XI (XI (XI (XO (XI (XI (XI (XI (XI (XI
    (XO (XO (XI (XO (XO (XO (XO (XO (XI (XI
    XH)))))))))))))))))))))))))))))) :: ((Npos (XI (XO (XI (XI (XO (XO (XI
    (XO (XO (XO (XO (XO (XI (XO (XO (XI (XI (XI (XO (XO (XO (XI (XO (XI (XI
    (XO (XO (XO (XO (XI (XO XH)))))))))))))))))))))))))))))))) :: ((Npos (XO
    (XO (XI (XO (XO (XO (XO (XI (XO (XO (XO (XI (XO (XI (XI (XO (XI (XO (XI
    (XI (XI (XI (XO (XI (XO (XI (XO (XI (XI (XI
    XH))))))))))))))))))))))))))))))) :: ((Npos (XO (XI (XI (XO (XI (XO (XO
    (XO (XO (XO (XI (XI (XI (XO (XI (XO (XI (XO (XO (XO (XO (XO (XI (XO (XO
    (XI (XI (XI (XI (XI (XI XH)))))))))))))))))))))))))))))))) :: ((Npos (XO
    (XI (XI (XI (XI (XO (XO (XO (XO (XO (XI (XI (XI (XO (XI (XI (XO (XI (XI
    (XI (XI (XI (XI (XI (XO (XI (XI (XI (XI (XI (XO
    XH)))))))))))))))))))))))))))))))) :: ((Npos (XO (XO (XO (XO (XI (XO (XO
    (XO (XO (XI (XI (XO (XI (XO (XO (XO (XI (XO (XO (XO (XO (XI (XI (XI (XI
    (XO (XI XH)))))))))))))))))))))))))))) :: ((Npos (XI (XO (XO (XI (XI (XO
    (XO (XI (XI (XO (XI (XO (XO (XO (XO (XO (XI (XI (XI (XI (XO (XO (XO (XI
    (XO (XO (XI (XO (XI XH)))))))))))))))))))))))))))))) :: ((Npos (XO (XO
    (XI (XI (XO (XO (XO (XI (XI (XO (XO (XO (XI (XI (XO (XO (XO (XI (XO (XI
    (XI (XO (XO (XI (XO (XI (XI (XO (XO (XO (XO
    XH)))))))))))))))))))))))))))))))) :: ((Npos (XO (XO (XO (XO (XI (XO (XI
    (XI (XO (XO (XI (XI (XO (XO (XI (XI (XO (XI (XI (XI (XO (XO (XI (XI (XI
    (XO (XO (XI (XI (XI XH))))))))))))))))))))))))))))))) :: ((Npos (XO (XI
    (XI (XI (XO (XO (XO (XI (XI (XO (XO (XI (XO (XI (XO (XI (XO (XI (XO (XI
    (XO (XO (XO (XO (XO (XO (XO (XO (XO (XI (XI
    XH)))))))))))))))))))))))))))))))) :: ((Npos (XI (XO (XI (XI (XO (XO (XO
    (XO (XI (XI (XO (XI (XI (XI (XO (XI (XI (XO (XI (XI (XI (XI (XI (XO (XI
    (XI (XI (XO (XI (XO (XI XH)))))))))))))))))))))))))))))))) :: ((Npos (XI
    (XO (XO (XO (XI (XI (XO (XI (XO (XI (XO (XO (XI (XO (XO (XO (XO (XO (XI
    (XI (XI (XI (XI (XO (XI (XI (XI (XI (XI (XI
    XH))))))))))))))))))))))))))))))) :: ((Npos (XI (XO (XO (XI (XI (XO (XI
    (XO (XO (XI (XI (XI (XO (XO (XI (XI (XI (XO (XO (XI (XO (XO (XO (XI (XO
    (XO (XO (XO (XI (XO XH))))))))))))))))))))))))))))))) :: ((Npos (XI (XO
    (XO (XI (XI (XI (XO (XI (XI (XO (XO (XO (XO (XO (XO (XO (XO (XO (XI (XO
    (XO (XO (XI (XO (XO (XI (XI (XI (XO (XI (XO
    XH)))))))))))))))))))))))))))))))) :: ((Npos (XI (XO (XO (XO (XO (XI (XI
    (XO (XO (XO (XI (XO (XO (XO (XI (XI (XI (XO (XI (XI (XO (XO (XI (XI (XO
    (XI (XO (XI (XO (XO (XI XH)))))))))))))))))))))))))))))))) :: ((Npos (XI
    (XO (XO (XO (XO (XO (XO (XO (XO (XI (XO (XI (XI (XO (XO (XI (XI (XO (XI
    (XI (XI (XI (XI (XO (XI (XO (XI (XI (XI (XI
    XH))))))))))))))))))))))))))))))) :: ((Npos (XI (XI (XI (XI (XO (XO (XO
    (XO (XI (XO (XO (XI (XO (XI (XI (XI (XO (XO (XO (XO (XO (XI (XI (XI (XI
    (XI (XO (XI (XO (XO (XO XH)))))))))))))))))))))))))))))))) :: ((Npos (XI
    (XI (XO (XI (XO (XO (XO (XO (XI (XO (XO (XO (XO (XI (XI (XI (XI (XO (XO
    (XO (XO (XO (XI (XI (XI (XO (XI (XI
    XH))))))))))))))))))))))))))))) :: ((Npos (XO (XI (XI (XO (XI (XI (XI (XI
    (XO (XO (XO (XO (XI (XI (XO (XO (XO (XO (XO (XI (XI (XI (XO (XI (XI (XI
    (XO (XI (XO (XO (XI XH)))))))))))))))))))))))))))))))) :: ((Npos (XO (XI
    (XI (XI (XO (XO (XI (XI (XI (XI (XO (XO (XI (XO (XO (XO (XO (XO (XO (XI
    (XO (XO (XO (XO (XI (XO (XI (XI (XO (XO (XO
    XH)))))))))))))))))))))))))))))))) :: ((Npos (XI (XI (XI (XO (XI (XO (XO
    (XI (XI (XI (XO (XI (XI (XI (XI (XO (XO (XO (XI (XO (XI (XO (XO (XI (XI
    (XI (XI (XO (XI (XO (XO XH)))))))))))))))))))))))))))))))) :: ((Npos (XO
    (XI (XO (XO (XI (XO (XI (XI (XI (XI (XO (XI (XI (XI (XI (XO (XI (XO (XI
    (XI (XI (XI (XI (XI (XO (XO (XI (XI (XO (XI
    XH))))))))))))))))))))))))))))))) :: ((Npos (XO (XO (XI (XO (XI (XI (XO
    (XI (XO (XI (XO (XI (XO (XO (XI (XO (XI (XO (XI (XI (XO (XI (XO (XI (XI
    (XI (XO (XI (XI (XI (XO XH)))))))))))))))))))))))))))))))) :: ((Npos (XI
    (XI (XO (XO (XO (XO (XI (XI (XI (XO (XI (XI (XI (XO (XO (XI (XI (XO (XI
    (XO (XI (XI (XO (XI (XI (XO (XI (XO (XO (XI (XI
    XH)))))))))))))))))))))))))))))))) :: ((Npos (XI (XO (XO (XO (XI (XO (XO
    (XI (XO (XI (XI (XI (XI (XI (XO (XO (XO (XO (XO (XI (XI (XO (XI (XO (XI
    (XO (XO (XO (XI (XO XH))))))))))))))))))))))))))))))) :: ((Npos (XI (XI
    (XO (XI (XI (XO (XO (XI (XO (XO (XI (XO (XI (XO (XI (XI (XI (XI (XO (XI
    (XO (XI (XO (XO (XI (XI (XO (XO (XO (XO (XO
    XH)))))))))))))))))))))))))))))))) :: ((Npos (XO (XO (XO (XI (XO (XO (XI
    (XO (XO (XO (XO (XI (XI (XI (XO (XI (XO (XI (XO (XO (XI (XO (XI (XO (XO
    (XO (XO (XO (XO (XI (XO XH)))))))))))))))))))))))))))))))) :: ((Npos (XI
    (XO (XO (XO (XI (XI (XI (XI (XO (XO (XO (XI (XO (XO (XO (XO (XI (XI (XI
    (XI (XI (XO (XI (XI (XI (XO (XI XH)))))))))))))))))))))))))))) :: ((Npos
    (XO (XI (XI (XO (XO (XI (XI (XO (XI (XI (XI (XI (XO (XO (XO (XI (XO (XO
    (XO (XO (XI (XI (XO (XI (XO (XI (XO (XO (XI (XI (XI
    XH)))))))))))))))))))))))))))))))) :: ((Npos (XI (XI (XI (XO (XI (XO (XI
    (XI (XO (XI (XO (XO (XO (XO (XO (XO (XI (XI (XO (XO (XO (XO (XI (XO (XI
    (XI (XI (XI (XI (XO (XO XH)))))))))))))))))))))))))))))))) :: ((Npos (XI
    (XI (XI (XO (XI (XI (XI (XI (XI (XO (XI (XI (XI (XO (XO (XO (XI (XO (XI
    (XI (XI (XI (XI (XO (XO (XI (XO (XO (XI (XO (XI
    XH)))))))))))))))))))))))))))))))) :: ((Npos (XI (XO (XI (XI (XO (XI (XO
    (XI (XI (XI (XI (XO (XO (XI (XO (XI (XO (XI (XO (XI (XO (XO (XI (XO (XO
    (XO (XO (XI (XO (XO XH))))))))))))))))))))))))))))))) :: ((Npos (XI (XI
    (XI (XI (XO (XI (XI (XO (XI (XO (XI (XO (XI (XI (XI (XO (XI (XI (XO (XI
    (XI (XI (XO (XI (XI (XI (XO (XO (XI
    XH)))))))))))))))))))))))))))))) :: ((Npos (XI (XI (XI (XI (XO (XO (XO
    (XI (XI (XI (XO (XI (XO (XO (XO (XI (XI (XO (XI (XI (XO (XI (XI (XI (XO
    (XI (XI (XI (XI (XO (XI XH)))))))))))))))))))))))))))))))) :: ((Npos (XI
    (XO (XI (XO (XO (XI (XO (XO (XI (XI (XO (XO (XO (XI (XI (XI (XO (XO (XO
    (XO (XO (XI (XO (XI (XO (XI (XO (XO (XI (XI
    XH))))))))))))))))))))))))))))))) :: ((Npos (XI (XO (XO (XO (XO (XI (XO
    (XI (XI (XI (XO (XI (XO (XO (XI (XI (XI (XO (XO (XO (XI (XI (XI (XI (XO
    (XO (XO (XO (XO (XO (XI XH)))))))))))))))))))))))))))))))) :: ((Npos (XI
    (XI (XI (XO (XO (XI (XO (XI (XI (XI (XI (XI (XI (XO (XI (XO (XI (XO (XO
    (XO (XI (XO (XI (XI (XO (XO (XO (XI (XI (XI (XO
    XH)))))))))))))))))))))))))))))))) :: ((Npos (XO (XO (XO (XO (XI (XI (XO
    (XI (XO (XO (XI (XI (XI (XO (XI (XO (XO (XI (XI (XO (XI (XO (XO (XI (XI
    (XO (XO (XO (XO (XO (XI XH)))))))))))))))))))))))))))))))) :: ((Npos (XO
    (XI (XI (XO (XO (XI (XO (XO (XI (XI (XO (XI (XO (XO (XI (XI (XI (XI (XO
    (XI (XO (XO (XO (XO (XO (XI (XI (XO (XI
    XH)))))))))))))))))))))))))))))) :: ((Npos (XI (XI (XI (XI (XI (XI (XI
    (XI (XI (XI (XI (XO (XI (XO (XO (XO (XO (XI (XO (XO (XO (XO (XI (XO (XI
    (XO (XO (XO (XI (XI (XI XH)))))))))))))))))))))))))))))))) :: ((Npos (XO
    (XO (XI (XO (XI (XI (XO (XO (XO (XI (XO (XO (XI (XI (XO (XO (XI (XO (XO
    (XI (XI (XO (XI (XI (XO (XI (XI (XI (XO (XI (XI
    XH)))))))))))))))))))))))))))))))) :: ((Npos (XI (XO (XO (XI (XO (XO (XO
    (XI (XO (XI (XI (XO (XO (XI (XO (XO (XO (XO (XI (XI (XI (XO (XI (XO (XO
    (XO (XO (XO (XI (XO (XI XH)))))))))))))))))))))))))))))))) :: ((Npos (XO
    (XI (XI (XI (XO (XO (XO (XO (XI (XO (XI (XO (XO (XI (XI (XO (XO (XO (XO
    (XO (XI (XO (XI (XI (XI (XO (XI (XO (XO (XO
    XH))))))))))))))))))))))))))))))) :: ((Npos (XI (XI (XI (XI (XI (XO (XI
    (XO (XI (XO (XI (XO (XI (XO (XO (XO (XI (XO (XI (XO (XO (XO (XO (XO (XI
    (XO (XO (XI (XO (XI (XO XH)))))))))))))))))))))))))))))))) :: ((Npos (XI
    (XO (XI (XI (XO (XI (XO (XO (XI (XO (XI (XO (XI (XI (XI (XO (XI (XO (XO
    (XI (XO (XI (XI (XO (XI (XO (XO (XO (XO (XI
    XH))))))))))))))))))))))))))))))) :: ((Npos (XI (XO (XI (XO (XO (XO (XO
    (XI (XO (XO (XO (XI (XI (XI (XO (XI (XI (XO (XI (XI (XO (XI (XO (XI (XI
    (XO (XO (XI (XI (XI (XO XH)))))))))))))))))))))))))))))))) :: ((Npos (XO
    (XI (XO (XO (XI (XO (XO (XO (XI (XI (XI (XO (XI (XI (XO (XI (XO (XO (XI
    (XI (XI (XI (XI (XO (XO (XO (XO (XI (XO (XO (XO
    XH)))))))))))))))))))))))))))))))) :: ((Npos (XI (XI (XO (XO (XO (XO (XO
    (XI (XI (XO (XO (XI (XO (XI (XO (XI (XI (XO (XO (XO (XO (XO (XI (XO (XO
    (XI (XI (XO (XO (XO (XO XH)))))))))))))))))))))))))))))))) :: ((Npos (XI
    (XO (XO (XO (XO (XI (XI (XI (XI (XO (XO (XI (XI (XI (XO (XI (XI (XO (XO
    (XO (XI (XO (XI (XO (XO (XO (XO (XI (XI
    XH)))))))))))))))))))))))))))))) :: ((Npos (XI (XI (XO (XO (XI (XI (XO
    (XO (XI (XO (XO (XO (XO (XO (XI (XO (XI (XI (XO (XI (XO (XI (XO (XO (XO
    (XI (XI (XO XH))))))))))))))))))))))))))))) :: ((Npos (XI (XO (XI (XO (XO
    (XO (XI (XO (XI (XO (XO (XO (XO (XI (XI (XI (XO (XI (XO (XI (XO (XO (XI
    (XO (XO (XI (XO (XO (XO (XI XH))))))))))))))))))))))))))))))) :: ((Npos
    (XO (XI (XI (XO (XO (XO (XI (XI (XI (XI (XO (XO (XI (XO (XI (XI (XO (XO
    (XI (XO (XO (XI (XO (XI (XI (XI (XO (XO (XO (XO (XO
    XH)))))))))))))))))))))))))))))))) :: ((Npos (XI (XO (XI (XI (XI (XI (XO
    (XO (XO (XI (XO (XI (XI (XO (XI (XI (XI (XO (XI (XO (XI (XI (XI (XO (XO
    (XI (XI (XO (XI (XO (XO XH)))))))))))))))))))))))))))))))) :: ((Npos (XO
    (XO (XI (XO (XI (XI (XI (XI (XI (XO (XO (XO (XO (XI (XO (XI (XO (XI (XI
    (XI (XO (XO (XI (XI (XO (XO (XI (XO (XI (XO (XO
    XH)))))))))))))))))))))))))))))))) :: ((Npos (XO (XO (XO (XI (XO (XI (XI
    (XI (XI (XO (XO (XO (XO (XO (XI (XI (XI (XI (XI (XO (XI (XI (XI (XI (XO
    (XI (XI (XI (XI (XO (XO XH)))))))))))))))))))))))))))))))) :: ((Npos (XO
    (XI (XO (XI (XO (XO (XI (XI (XI (XI (XO (XO (XI (XI (XO (XI (XO (XO (XI
    (XO (XI (XI (XI (XI (XO (XI (XO (XI (XO (XO
    XH))))))))))))))))))))))))))))))) :: ((Npos (XI (XO (XI (XO (XO (XI (XI
    (XO (XI (XI (XI (XO (XI (XI (XI (XI (XI (XI (XO (XI (XI (XO (XO (XI (XO
    (XI (XO (XI (XO (XO (XI XH)))))))))))))))))))))))))))))))) :: ((Npos (XI
    (XI (XI (XO (XI (XO (XI (XI (XI (XI (XI (XO (XI (XI (XO (XO (XO (XI (XI
    (XI (XO (XI (XI (XO (XO (XI (XI (XI (XI (XI (XO
    XH)))))))))))))))))))))))))))))))) :: ((Npos (XI (XI (XI (XI (XI (XO (XI
    (XI (XO (XO (XO (XO (XO (XO (XO (XO (XO (XI (XO (XO (XI (XI (XI (XI (XI
    (XO (XO (XO (XO (XI XH))))))))))))))))))))))))))))))) :: ((Npos (XI (XO
    (XO (XO (XI (XI (XI (XI (XI (XO (XO (XI (XO (XI (XI (XO (XO (XO (XO (XO
    (XI (XI (XI (XO (XO (XO (XI (XO XH))))))))))))))))))))))))))))) :: ((Npos
    (XI (XO (XI (XO (XO (XO (XI (XO (XI (XO (XO (XI (XI (XI (XI (XI (XI (XI
    (XO (XI (XI (XO (XO (XO (XI (XO (XI (XO (XI
    XH)))))))))))))))))))))))))))))) :: ((Npos (XI (XI (XO (XI (XO (XO (XO
    (XO (XI (XO (XI (XI (XO (XO (XI (XO (XI (XO (XO (XO (XI (XO (XO (XI (XI
    (XI (XO (XI (XI (XI (XO XH)))))))))))))))))))))))))))))))) :: ((Npos (XO
    (XI (XI (XO (XI (XO (XI (XO (XO (XI (XO (XO (XI (XO (XI (XO (XO (XI (XO
    (XI (XI (XO (XI (XI (XI (XO (XO (XO (XO (XI (XI
    XH)))))))))))))))))))))))))))))))) :: ((Npos (XO (XO (XI (XO (XO (XO (XI
    (XO (XO (XI (XI (XI (XO (XI (XO (XI (XI (XO (XI (XO (XI (XI (XI (XI (XI
    (XI (XI (XO (XI XH)))))))))))))))))))))))))))))) :: ((Npos (XI (XI (XI
    (XO (XI (XO (XI (XI (XI (XO (XI (XO (XO (XI (XO (XI (XO (XI (XO (XI (XO
    (XO (XO (XI (XO (XI (XI (XI (XO (XI
    XH))))))))))))))))))))))))))))))) :: ((Npos (XO (XI (XO (XO (XO (XI (XI
    (XI (XI (XO (XO (XI (XO (XO (XO (XI (XO (XO (XI (XI (XO (XI (XI (XI (XI
    (XO (XI (XI (XI (XI XH))))))))))))))))))))))))))))))) :: ((Npos (XO (XO
    (XI (XI (XO (XO (XO (XO (XO (XI (XI (XI (XI (XI (XO (XI (XO (XO (XO (XI
    (XI (XI (XI (XO (XO (XO (XO (XO (XI (XI (XO
    XH)))))))))))))))))))))))))))))))) :: ((Npos (XO (XI (XO (XO (XI (XI (XI
    (XO (XO (XI (XI (XO (XI (XO (XO (XI (XI (XI (XO (XO (XI (XO (XI (XI (XI
    (XO (XO (XI (XO (XO XH))))))))))))))))))))))))))))))) :: ((Npos (XI (XI
    (XO (XI (XI (XI (XI (XO (XI (XO (XO (XI (XO (XI (XI (XI (XI (XO (XO (XO
    (XI (XI (XI (XO (XI (XI (XO (XO (XO (XO (XO
    XH)))))))))))))))))))))))))))))))) :: ((Npos (XO (XI (XI (XI (XO (XO (XO
    (XO (XI (XI (XO (XI (XI (XO (XO (XO (XI (XO (XO (XI (XI (XO (XI (XO (XI
    (XI (XO (XO (XO (XI XH))))))))))))))))))))))))))))))) :: ((Npos (XO (XI
    (XI (XO (XI (XI (XO (XI (XO (XI (XI (XO (XI (XO (XI (XO (XO (XO (XO (XI
    (XI (XI (XO (XO (XO (XI (XI (XO (XI (XO (XO
    XH)))))))))))))))))))))))))))))))) :: ((Npos (XO (XI (XI (XI (XI (XO (XI
    (XO (XI (XO (XI (XO (XO (XO (XI (XI (XO (XO (XO (XO (XO (XO (XO (XO (XO
    (XO (XO (XI (XO (XO (XI XH)))))))))))))))))))))))))))))))) :: ((Npos (XO
    (XI (XI (XO (XI (XO (XI (XI (XO (XO (XI (XI (XI (XO (XO (XO (XI (XO (XI
    (XI (XI (XI (XO (XI (XI (XO (XO (XI (XO (XO (XO
    XH)))))))))))))))))))))))))))))))) :: ((Npos (XI (XO (XO (XI (XO (XI (XI
    (XI (XI (XO (XO (XO (XO (XO (XO (XO (XI (XO (XI (XI (XI (XI (XI (XI (XI
    (XI (XO (XI (XI (XI (XO XH)))))))))))))))))))))))))))))))) :: ((Npos (XI
    (XI (XI (XI (XI (XO (XI (XI (XI (XI (XI (XO (XI (XO (XI (XI (XO (XI (XO
    (XI (XO (XI (XO (XI (XI (XI (XO (XO (XO (XI (XO
    XH)))))))))))))))))))))))))))))))) :: ((Npos (XO (XI (XI (XO (XI (XO (XO
    (XI (XI (XO (XI (XO (XO (XI (XO (XI (XI (XO (XO (XI (XO (XO (XO (XI (XI
    (XI (XI (XO (XO (XO XH))))))))))))))))))))))))))))))) :: ((Npos (XI (XI
    (XI (XI (XI (XI (XI (XO (XO (XO (XO (XO (XO (XO (XI (XO (XI (XO (XO (XO
    (XI (XO (XI (XI (XO (XO (XI (XO (XI (XI (XO
    XH)))))))))))))))))))))))))))))))) :: ((Npos (XI (XI (XI (XO (XI (XI (XI
    (XO (XI (XI (XO (XI (XI (XI (XI (XI (XO (XO (XO (XI (XO (XO (XI (XI (XI
    (XO (XO (XI (XO (XO (XO XH)))))))))))))))))))))))))))))))) :: ((Npos (XI
    (XO (XI (XI (XO (XI (XI (XO (XO (XI (XI (XI (XO (XI (XO (XO (XI (XO (XO
    (XI (XI (XI (XI (XO (XO (XI (XI (XI (XI
    XH)))))))))))))))))))))))))))))) :: ((Npos (XO (XO (XO (XI (XO (XI (XO
    (XI (XI (XO (XI (XI (XO (XO (XI (XO (XI (XO (XI (XI (XI (XI (XO (XI (XO
    (XI (XO (XI (XI (XI (XI XH)))))))))))))))))))))))))))))))) :: ((Npos (XI
    (XO (XI (XO (XO (XI (XO (XI (XO (XO (XO (XO (XI (XI (XI (XI (XO (XI (XO
    (XO (XO (XI (XI (XI (XO (XI (XO (XI (XI (XI (XI
    XH)))))))))))))))))))))))))))))))) :: ((Npos (XI (XI (XI (XO (XO (XO (XO
    (XO (XO (XO (XI (XO (XI (XI (XO (XI (XI (XO (XO (XI (XO (XI (XI (XO (XI
    (XO (XI (XI (XI (XO (XO XH)))))))))))))))))))))))))))))))) :: ((Npos (XI
    (XO (XO (XO (XO (XI (XI (XI (XO (XO (XO (XO (XO (XO (XI (XO (XO (XO (XI
    (XO (XI (XI (XI (XI (XO (XO (XI (XI (XI (XI
    XH))))))))))))))))))))))))))))))) :: ((Npos (XI (XO (XO (XO (XI (XO (XO
    (XO (XI (XO (XI (XO (XO (XI (XI (XI (XO (XI (XO (XO (XO (XI (XI (XO (XI
    (XO (XI (XO (XI (XI (XI XH)))))))))))))))))))))))))))))))) :: ((Npos (XI
    (XI (XO (XI (XI (XI (XI (XO (XI (XI (XI (XI (XO (XI (XI (XI (XO (XO (XI
    (XI (XO (XI (XI (XO (XO (XO (XO (XI (XI (XO (XI
    XH)))))))))))))))))))))))))))))))) :: ((Npos (XI (XO (XI (XI (XO (XI (XI
    (XI (XO (XO (XI (XO (XO (XO (XO (XI (XI (XO (XI (XO (XO (XI (XO (XI (XO
    (XO (XI (XO (XI (XI (XI XH)))))))))))))))))))))))))))))))) :: ((Npos (XI
    (XI (XI (XO (XO (XO (XI (XO (XI (XI (XI (XI (XI (XI (XI (XO (XI (XO (XO
    (XI (XI (XI (XO (XI (XO (XI (XI (XI (XO (XI
    XH))))))))))))))))))))))))))))))) :: ((Npos (XO (XO (XI (XO (XI (XO (XI
    (XO (XO (XI (XO (XI (XI (XI (XO (XO (XO (XO (XO (XO (XI (XO (XO (XI (XO
    (XI (XO (XO (XO (XI (XI XH)))))))))))))))))))))))))))))))) :: ((Npos (XO
    (XI (XI (XO (XI (XO (XI (XO (XI (XO (XO (XI (XI (XI (XI (XO (XO (XI (XO
    (XO (XI (XO (XO (XI (XO (XI (XO (XI
    XH))))))))))))))))))))))))))))) :: ((Npos (XO (XO (XO (XO (XI (XI (XI (XI
    (XO (XI (XI (XO (XI (XO (XO (XI (XI (XO (XO (XO (XO (XI (XO (XO (XO (XI
    (XI (XO (XI (XI (XO XH)))))))))))))))))))))))))))))))) :: ((Npos (XI (XI
    (XI (XO (XO (XI (XO (XO (XI (XI (XI (XO (XI (XO (XI (XI (XO (XO (XI (XO
    (XO (XO (XO (XI (XI (XO (XI (XO (XI
    XH)))))))))))))))))))))))))))))) :: ((Npos (XI (XI (XI (XO (XO (XI (XI
    (XO (XI (XO (XO (XI (XO (XO (XO (XO (XI (XI (XO (XO (XO (XO (XI (XI (XO
    (XO (XO (XO (XO (XO (XI XH)))))))))))))))))))))))))))))))) :: ((Npos (XO
    (XI (XO (XO (XI (XO (XO (XI (XO (XI (XO (XO (XI (XI (XI (XO (XI (XO (XO
    (XO (XO (XO (XO (XO (XI (XI (XI (XI (XO (XO
    XH))))))))))))))))))))))))))))))) :: ((Npos (XI (XO (XI (XO (XI (XO (XO
    (XO (XI (XI (XO (XI (XI (XI (XI (XO (XI (XO (XO (XO (XO (XO (XI (XI (XI
    (XO (XO (XO (XI (XI (XO XH)))))))))))))))))))))))))))))))) :: ((Npos (XI
    (XI (XO (XI (XI (XI (XO (XI (XO (XI (XO (XI (XO (XO (XI (XO (XO (XO (XO
    (XO (XO (XO (XO (XI (XO (XO (XO (XO (XO (XI
    XH))))))))))))))))))))))))))))))) :: ((Npos (XO (XO (XO (XI (XI (XO (XO
    (XI (XI (XI (XI (XO (XO (XO (XO (XI (XO (XO (XO (XO (XO (XI (XO (XO (XO
    (XI (XO (XO (XO (XI (XO XH)))))))))))))))))))))))))))))))) :: ((Npos (XO
    (XI (XO (XI (XO (XI (XI (XI (XO (XI (XI (XI (XI (XI (XI (XO (XI (XO (XO
    (XO (XO (XO (XI (XI (XO (XO (XI (XO (XI
    XH)))))))))))))))))))))))))))))) :: ((Npos (XI (XI (XO (XI (XO (XO (XI
    (XO (XI (XI (XI (XO (XO (XO (XI (XI (XO (XO (XI (XI (XI (XI (XO (XI (XI
    (XI (XI (XI (XO (XO (XI XH)))))))))))))))))))))))))))))))) :: ((Npos (XI
    (XO (XI (XO (XO (XI (XO (XI (XO (XI (XI (XI (XO (XO (XO (XO (XO (XO (XO
    (XO (XI (XO (XI (XI (XI (XO (XO (XO (XI (XI (XO
    XH)))))))))))))))))))))))))))))))) :: ((Npos (XO (XO (XI (XO (XI (XI (XO
    (XO (XO (XI (XI (XI (XI (XO (XO (XO (XO (XO (XI (XI (XO (XI (XI (XI (XI
    (XI (XI (XO (XO (XI (XI XH)))))))))))))))))))))))))))))))) :: ((Npos (XO
    (XO (XI (XO (XO (XO (XO (XI (XO (XI (XI (XO (XO (XO (XI (XO (XI (XI (XO
    (XO (XI (XO (XO (XI (XO (XO (XO (XO (XO
    XH)))))))))))))))))))))))))))))) :: ((Npos (XI (XO (XI (XO (XO (XI (XO
    (XI (XO (XO (XO (XI (XI (XO (XO (XO (XI (XO (XI (XI (XI (XO (XI (XI (XO
    (XI (XO (XI (XI (XO XH))))))))))))))))))))))))))))))) :: ((Npos (XI (XO
    (XO (XO (XO (XO (XI (XI (XO (XI (XI (XO (XI (XO (XO (XO (XI (XO (XI (XI
    (XI (XO (XO (XI (XI (XO (XI (XI (XI (XO (XO
    XH)))))))))))))))))))))))))))))))) :: ((Npos (XO (XO (XO (XO (XO (XO (XO
    (XI (XO (XI (XI (XI (XI (XI (XO (XI (XO (XO (XO (XI (XI (XO (XI (XO (XI
    (XO (XO (XO (XO (XO (XO XH)))))))))))))))))))))))))))))))) :: ((Npos (XO
    (XO (XI (XI (XI (XO (XO (XO (XI (XO (XO (XI (XO (XO (XI (XI (XO (XO (XO
    (XO (XO (XO (XO (XO (XI (XO (XO (XO (XI (XI (XO
    XH)))))))))))))))))))))))))))))))) :: ((Npos (XO (XI (XI (XI (XI (XO (XO
    (XO (XI (XI (XI (XI (XI (XI (XI (XO (XO (XI (XO (XI (XO (XO (XI (XO (XI
    (XO (XO (XI (XI XH)))))))))))))))))))))))))))))) :: ((Npos (XO (XI (XO
    (XO (XO (XI (XO (XI (XO (XI (XI (XI (XO (XI (XI (XO (XI (XI (XO (XI (XI
    (XI (XI (XO (XO (XO (XO (XO (XO (XO
    XH))))))))))))))))))))))))))))))) :: ((Npos (XI (XI (XO (XO (XI (XI (XO
    (XO (XI (XO (XO (XI (XI (XO (XO (XI (XI (XI (XI (XI (XO (XO (XI (XI (XI
    (XO (XI (XI (XI XH)))))))))))))))))))))))))))))) :: ((Npos (XO (XI (XI
    (XI (XI (XO (XI (XI (XI (XI (XI (XO (XO (XI (XI (XO (XO (XI (XO (XI (XO
    (XO (XO (XO (XO (XO (XI (XO (XO (XO (XI
    XH)))))))))))))))))))))))))))))))) :: ((Npos (XI (XO (XI (XI (XI (XI (XO
    (XO (XI (XO (XO (XI (XO (XI (XO (XI (XI (XI (XO (XI (XI (XI (XI (XI (XO
    (XI (XO (XI (XO (XO (XO XH)))))))))))))))))))))))))))))))) :: ((Npos (XI
    (XI (XO (XO (XO (XI (XI (XO (XI (XO (XI (XI (XI (XI (XI (XI (XI (XO (XO
    (XO (XO (XO (XO (XO (XI (XO (XI (XO (XO
    XH)))))))))))))))))))))))))))))) :: ((Npos (XO (XI (XI (XI (XI (XO (XI
    (XO (XO (XO (XO (XO (XI (XO (XO (XO (XO (XO (XO (XO (XI (XO (XO (XO (XO
    (XI (XO (XO XH))))))))))))))))))))))))))))) :: ((Npos (XI (XO (XO (XI (XO
    (XI (XO (XI (XO (XI (XI (XI (XI (XI (XI (XI (XO (XI (XO (XO (XI (XO (XI
    (XI (XI (XO (XI (XI (XO (XI (XI
    XH)))))))))))))))))))))))))))))))) :: ((Npos (XO (XO (XO (XI (XI (XO (XO
    (XO (XI (XO (XI (XO (XO (XO (XI (XI (XI (XO (XI (XO (XO (XI (XO (XO (XI
    (XO (XI (XI (XI (XO XH))))))))))))))))))))))))))))))) :: ((Npos (XO (XO
    (XO (XO (XO (XI (XI (XO (XO (XI (XI (XO (XI (XI (XI (XO (XI (XI (XO (XO
    (XI (XI (XI (XO (XI (XI (XO (XI (XO (XO (XI
    XH)))))))))))))))))))))))))))))))) :: ((Npos (XI (XO (XO (XI (XI (XO (XO
    (XO (XI (XI (XO (XI (XI (XI (XO (XI (XI (XI (XO (XO (XO (XO (XI (XI (XO
    (XI (XO (XI (XI (XI XH))))))))))))))))))))))))))))))) :: ((Npos (XO (XO
    (XO (XO (XI (XO (XI (XO (XO (XI (XO (XO (XI (XI (XI (XO (XO (XO (XO (XO
    (XI (XO (XI (XO (XO (XO (XO (XI (XO (XI (XO
    XH)))))))))))))))))))))))))))))))) :: ((Npos (XI (XO (XI (XO (XO (XI (XI
    (XI (XI (XO (XO (XO (XO (XO (XO (XI (XI (XO (XI (XO (XI (XI (XO (XO (XO
    (XO (XO (XI (XO XH)))))))))))))))))))))))))))))) :: ((Npos (XO (XO (XO
    (XO (XI (XI (XO (XO (XO (XO (XI (XI (XI (XO (XO (XI (XO (XO (XI (XI (XI
    (XI (XI (XO (XO (XI (XO (XO (XI (XO (XO
    XH)))))))))))))))))))))))))))))))) :: ((Npos (XO (XO (XI (XI (XI (XO (XO
    (XO (XI (XI (XI (XO (XI (XO (XI (XO (XO (XI (XI (XI (XI (XI (XI (XI (XO
    (XI (XO (XO (XI (XI (XI XH)))))))))))))))))))))))))))))))) :: ((Npos (XO
    (XO (XO (XO (XI (XI (XO (XO (XO (XO (XI (XO (XO (XO (XO (XI (XI (XO (XI
    (XO (XO (XI (XI (XI (XI (XO (XO (XO (XI (XO (XO
    XH)))))))))))))))))))))))))))))))) :: ((Npos (XO (XO (XI (XI (XI (XI (XO
    (XI (XO (XO (XO (XI (XI (XO (XO (XI (XI (XI (XI (XI (XI (XO (XI (XO (XO
    (XI (XI (XI (XI (XO XH))))))))))))))))))))))))))))))) :: ((Npos (XO (XI
    (XI (XI (XI (XI (XI (XI (XI (XI (XI (XI (XO (XO (XI (XO (XO (XI (XO (XI
    (XO (XO (XI (XO (XI (XO (XI (XO (XO
    XH)))))))))))))))))))))))))))))) :: ((Npos (XI (XI (XI (XO (XI (XI (XI
    (XI (XI (XO (XO (XO (XO (XI (XO (XO (XO (XO (XO (XI (XI (XO (XI (XO (XI
    (XI (XI (XO (XI (XI (XO XH)))))))))))))))))))))))))))))))) :: ((Npos (XO
    (XI (XI (XO (XO (XO (XI (XO (XI (XI (XI (XO (XO (XI (XO (XO (XO (XO (XI
    (XI (XI (XO (XO (XI (XO (XO (XI (XO
    XH))))))))))))))))))))))))))))) :: ((Npos (XI (XO (XO (XO (XO (XI (XO (XO
    (XO (XO (XI (XI (XI (XO (XI (XO (XO (XI (XI (XI (XO (XI (XI (XO (XO (XO
    (XI (XO (XO (XI XH))))))))))))))))))))))))))))))) :: ((Npos (XI (XO (XO
    (XO (XO (XO (XI (XI (XI (XO (XO (XO (XI (XI (XI (XI (XI (XI (XI (XO (XO
    (XI (XI (XO (XO (XO (XI (XO (XI
    XH)))))))))))))))))))))))))))))) :: ((Npos (XO (XO (XI (XO (XO (XI (XO
    (XI (XO (XI (XO (XI (XI (XI (XI (XI (XI (XI (XI (XI (XO (XO (XI (XI (XO
    (XO (XI (XI (XO (XO (XI XH)))))))))))))))))))))))))))))))) :: ((Npos (XI
    (XI (XO (XO (XO (XO (XI (XI (XI (XI (XO (XI (XO (XO (XO (XO (XO (XO (XI
    (XI (XI (XI (XO (XI (XO (XI (XO (XI (XI (XO
    XH))))))))))))))))))))))))))))))) :: ((Npos (XI (XO (XO (XI (XO (XO (XI
    (XI (XO (XI (XI (XO (XI (XI (XO (XO (XO (XI (XI (XO (XO (XI (XO (XI (XO
    (XI (XO (XO (XO (XI (XI XH)))))))))))))))))))))))))))))))) :: ((Npos (XO
    (XO (XO (XO (XI (XO (XO (XI (XO (XI (XI (XI (XO (XO (XO (XO (XI (XO (XO
    (XI (XO (XO (XI (XI (XO (XI (XI (XO (XI (XO
    XH))))))))))))))))))))))))))))))) :: ((Npos (XI (XI (XI (XO (XO (XO (XI
    (XI (XO (XI (XI (XI (XO (XI (XI (XO (XO (XI (XI (XI (XI (XO (XO (XO (XI
    (XO (XO (XO (XI (XI XH))))))))))))))))))))))))))))))) :: ((Npos (XI (XO
    (XO (XI (XO (XI (XI (XO (XI (XI (XI (XO (XI (XO (XI (XI (XI (XI (XI (XO
    (XO (XO (XO (XO (XI (XO (XO (XO (XI (XI (XO
    XH)))))))))))))))))))))))))))))))) :: ((Npos (XO (XO (XI (XI (XI (XO (XO
    (XI (XI (XI (XI (XI (XO (XI (XI (XO (XO (XO (XO (XI (XO (XI (XI (XO (XO
    (XI (XO (XO (XI (XO XH))))))))))))))))))))))))))))))) :: ((Npos (XI (XO
    (XI (XI (XI (XI (XO (XO (XO (XI (XO (XO (XO (XO (XI (XO (XI (XO (XO (XO
    (XI (XI (XO (XI (XI (XI (XO (XO (XO (XI (XI
    XH)))))))))))))))))))))))))))))))) :: ((Npos (XI (XI (XI (XO (XO (XO (XO
    (XI (XI (XO (XI (XO (XI (XI (XO (XI (XO (XO (XO (XO (XO (XO (XI (XO (XO
    (XI (XI (XI (XI XH)))))))))))))))))))))))))))))) :: ((Npos (XI (XI (XI
    (XO (XI (XI (XO (XI (XI (XI (XO (XI (XI (XI (XO (XO (XO (XI (XI (XI (XI
    (XI (XI (XO (XO (XO (XI (XO (XO
    XH)))))))))))))))))))))))))))))) :: ((Npos (XI (XI (XO (XI (XI (XI (XO
    (XI (XI (XI (XI (XO (XO (XI (XO (XI (XI (XI (XO (XI (XI (XO (XO (XO (XI
    (XI (XI (XO (XO (XO (XI XH)))))))))))))))))))))))))))))))) :: ((Npos (XO
    (XO (XO (XO (XI (XO (XO (XI (XI (XI (XO (XO (XO (XO (XI (XI (XI (XI (XI
    (XI (XO (XI (XO (XO (XO (XO (XO (XO (XO (XO (XO
    XH)))))))))))))))))))))))))))))))) :: ((Npos (XO (XI (XI (XI (XI (XI (XO
    (XO (XI (XI (XI (XO (XO (XI (XO (XI (XI (XI (XO (XO (XO (XO (XO (XI (XO
    (XI (XO (XI (XO (XO (XI XH)))))))))))))))))))))))))))))))) :: ((Npos (XO
    (XO (XO (XI (XI (XI (XO (XO (XO (XI (XO (XI (XI (XO (XI (XO (XI (XO (XO
    (XO (XO (XO (XO (XO (XI (XO (XI (XO (XI (XO (XI
    XH)))))))))))))))))))))))))))))))) :: ((Npos (XO (XO (XO (XI (XI (XI (XI
    (XI (XO (XO (XI (XI (XI (XO (XI (XO (XO (XO (XI (XO (XI (XO (XO (XI (XO
    (XO (XI (XI (XO (XO (XI
    XH)))))))))))))))))))))))))))))))) :: [])))))))))))))))))))))))))))))))))))))))))))))))))))))))))))))))))))))))))))))))))))))))))))))))))))))))))))))))))))))))))))))))))))))))))))))))))))))))))))))))))))))))))))))))))))))))))))))))))))))))))))))))))))))))))))))))))))))))))))))))))))))))))))))))

(** val rFC_DEG_F : n list **)

let rFC_DEG_F =
  N0 :: ((Npos (XI (XI (XO (XI (XI (XI (XI (XO (XO (XO (XI (XO
    XH))))))))))))) :: ((Npos (XI (XI (XO (XI (XI (XI (XI (XO (XO (XO (XI (XO
    (XI (XO (XO (XO (XO (XO (XO XH)))))))))))))))))))) :: ((Npos (XO (XI (XI
    (XO (XO (XI (XO (XO (XI (XI (XI (XI (XI (XI (XO (XI (XO (XI (XO
    XH)))))))))))))))))))) :: ((Npos (XI (XI (XO (XI (XI (XI (XI (XO (XO (XO
    (XI (XO (XI (XO (XO (XO (XO (XO (XI XH)))))))))))))))))))) :: ((Npos (XO
    (XO (XO (XI (XO (XO (XI (XO (XI (XO (XO (XO (XO (XI (XI (XI (XO (XO (XI
    XH)))))))))))))))))))) :: ((Npos (XI (XO (XO (XO (XI (XO (XI (XI (XI (XO
    (XO (XI (XO (XI (XI (XO (XI (XO (XI XH)))))))))))))))))))) :: ((Npos (XI
    (XI (XI (XO (XI (XO (XI (XO (XI (XI (XO (XI (XO (XO (XI (XI (XI (XO (XI
    XH)))))))))))))))))))) :: ((Npos (XI (XI (XO (XI (XI (XI (XI (XO (XO (XO
    (XI (XO (XI (XO (XO (XO (XO (XI (XI XH)))))))))))))))))))) :: ((Npos (XI
    (XI (XI (XI (XI (XO (XI (XO (XI (XO (XI (XI (XO (XO (XI (XO (XO (XI (XI
    XH)))))))))))))))))))) :: ((Npos (XO (XI (XO (XO (XO (XI (XI (XI (XO (XI
    (XO (XI (XI (XI (XI (XO (XO (XI (XI XH)))))))))))))))))))) :: ((Npos (XO
    (XI (XI (XI (XI (XO (XO (XO (XO (XO (XO (XO (XO (XI (XO (XI (XO (XI (XI
    XH)))))))))))))))))))) :: ((Npos (XO (XI (XI (XO (XO (XI (XO (XO (XI (XI
    (XI (XI (XI (XI (XO (XI (XO (XI (XI XH)))))))))))))))))))) :: ((Npos (XO
    (XO (XO (XI (XO (XI (XI (XO (XI (XO (XO (XI (XI (XO (XI (XI (XO (XI (XI
    XH)))))))))))))))))))) :: ((Npos (XI (XO (XO (XI (XO (XI (XI (XI (XI (XI
    (XI (XI (XO (XI (XI (XI (XO (XI (XI XH)))))))))))))))))))) :: ((Npos (XO
    (XI (XO (XI (XO (XI (XI (XO (XI (XI (XO (XO (XO (XO (XO (XO (XI (XI (XI
    XH)))))))))))))))))))) :: ((Npos (XI (XI (XO (XI (XI (XI (XI (XO (XO (XO
    (XI (XO (XI (XO (XO (XO (XI (XI (XI XH)))))))))))))))))))) :: ((Npos (XO
    (XI (XO (XI (XO (XO (XO (XI (XI (XI (XO (XO (XO (XI (XO (XO (XI (XI (XI
    XH)))))))))))))))))))) :: ((Npos (XI (XO (XI (XI (XO (XI (XI (XI (XO (XO
    (XO (XO (XI (XI (XO (XO (XI (XI (XI XH)))))))))))))))))))) :: ((Npos (XI
    (XI (XI (XO (XO (XI (XI (XI (XO (XO (XI (XI (XI (XI (XO (XO (XI (XI (XI
    XH)))))))))))))))))))) :: ((Npos (XI (XI (XI (XI (XO (XI (XO (XI (XI (XI
    (XI (XO (XO (XO (XI (XO (XI (XI (XI XH)))))))))))))))))))) :: ((Npos (XI
    (XI (XI (XI (XO (XI (XI (XO (XI (XO (XO (XO (XI (XO (XI (XO (XI (XI (XI
    XH)))))))))))))))))))) :: ((Npos (XI (XO (XI (XI (XO (XO (XI (XO (XO (XI
    (XO (XI (XI (XO (XI (XO (XI (XI (XI XH)))))))))))))))))))) :: ((Npos (XI
    (XO (XI (XO (XO (XI (XI (XO (XO (XI (XO (XO (XO (XI (XI (XO (XI (XI (XI
    XH)))))))))))))))))))) :: ((Npos (XI (XO (XO (XO (XI (XO (XI (XI (XI (XO
    (XO (XI (XO (XI (XI (XO (XI (XI (XI XH)))))))))))))))))))) :: ((Npos (XO
    (XO (XI (XO (XO (XI (XO (XI (XO (XO (XO (XO (XI (XI (XI (XO (XI (XI (XI
    XH)))))))))))))))))))) :: ((Npos (XO (XI (XO (XO (XI (XI (XI (XI (XO (XI
    (XI (XO (XI (XI (XI (XO (XI (XI (XI XH)))))))))))))))))))) :: ((Npos (XI
    (XI (XI (XO (XO (XO (XI (XI (XO (XO (XI (XI (XI (XI (XI (XO (XI (XI (XI
    XH)))))))))))))))))))) :: ((Npos (XO (XI (XO (XO (XI (XI (XO (XO (XO (XI
    (XO (XO (XO (XO (XO (XI (XI (XI (XI XH)))))))))))))))))))) :: ((Npos (XO
    (XI (XI (XI (XI (XI (XO (XO (XI (XI (XI (XO (XO (XO (XO (XI (XI (XI (XI
    XH)))))))))))))))))))) :: ((Npos (XO (XO (XO (XO (XO (XO (XO (XO (XO (XO
    (XO (XO (XO (XO (XO (XO (XO (XO (XO (XO
    XH))))))))))))))))))))) :: []))))))))))))))))))))))))))))))

(** val rFC_TUPLE_A_BASE : n **)

let rFC_TUPLE_A_BASE =
  Npos (XI (XI (XI (XO (XI (XO (XI (XO (XI (XO (XO (XO (XI (XO (XI
    XH)))))))))))))))

(** val rFC_TUPLE_A_MUL : n **)

let rFC_TUPLE_A_MUL =
  Npos (XI (XO (XI (XO (XO (XI (XI (XI (XI XH)))))))))

(** val rFC_TUPLE_B_MUL : n **)

let rFC_TUPLE_B_MUL =
  Npos (XI (XI (XO (XI (XI (XO (XO (XO (XO (XO (XO (XI (XO XH)))))))))))))

(** val rfc_v : n list -> n -> n **)

let rfc_v t0 x =
  nth (N.to_nat x) t0 N0

(** val rand : n -> n -> n -> n **)

let rand y i m =
  let x0 =
    N.modulo (N.add y i) (N.pow (Npos (XO XH)) (Npos (XO (XO (XO XH)))))
  in
  let x1 =
    N.modulo
      (N.add (N.div y (N.pow (Npos (XO XH)) (Npos (XO (XO (XO XH)))))) i)
      (N.pow (Npos (XO XH)) (Npos (XO (XO (XO XH)))))
  in
  let x2 =
    N.modulo
      (N.add (N.div y (N.pow (Npos (XO XH)) (Npos (XO (XO (XO (XO XH))))))) i)
      (N.pow (Npos (XO XH)) (Npos (XO (XO (XO XH)))))
  in
  let x3 =
    N.modulo
      (N.add (N.div y (N.pow (Npos (XO XH)) (Npos (XO (XO (XO (XI XH))))))) i)
      (N.pow (Npos (XO XH)) (Npos (XO (XO (XO XH)))))
  in
  N.modulo
    (N.coq_lxor
      (N.coq_lxor (N.coq_lxor (rfc_v rFC_V0 x0) (rfc_v rFC_V1 x1))
        (rfc_v rFC_V2 x2)) (rfc_v rFC_V3 x3)) m

(** val rfc_f : n -> n **)

let rfc_f d =
  nth (N.to_nat d) rFC_DEG_F N0

(** val deg_index : n -> n **)

let deg_index v =
  match find (fun d ->
          (&&) (N.leb (rfc_f (N.sub d (Npos XH))) v) (N.ltb v (rfc_f d)))
          (map N.of_nat
            (seq (S O) (S (S (S (S (S (S (S (S (S (S (S (S (S (S (S (S (S (S
              (S (S (S (S (S (S (S (S (S (S (S (S
              O)))))))))))))))))))))))))))))))) with
  | Some d -> d
  | None -> N0

(** val deg : n -> n -> n **)

let deg v w =
  N.min (deg_index v) (N.sub w (Npos (XO XH)))

(** val tuple_A : n -> n **)

let tuple_A j =
  let a = N.add rFC_TUPLE_A_BASE (N.mul j rFC_TUPLE_A_MUL) in
  if N.eqb (N.modulo a (Npos (XO XH))) N0 then N.add a (Npos XH) else a

(** val tuple_B : n -> n **)

let tuple_B j =
  N.mul rFC_TUPLE_B_MUL (N.add j (Npos XH))

(** val tuple_y : n -> n -> n **)

let tuple_y j x =
  N.modulo (N.add (tuple_B j) (N.mul x (tuple_A j)))
    (N.pow (Npos (XO XH)) (Npos (XO (XO (XO (XO (XO XH)))))))

(** val tuple : n -> n -> n -> n -> ((((n * n) * n) * n) * n) * n **)

let tuple j w p1 x =
  let y = tuple_y j x in
  let v = rand y N0 (N.pow (Npos (XO XH)) (Npos (XO (XO (XI (XO XH)))))) in
  let d = deg v w in
  let a = N.add (Npos XH) (rand y (Npos XH) (N.sub w (Npos XH))) in
  let b = rand y (Npos (XO XH)) w in
  let d1 =
    if N.ltb d (Npos (XO (XO XH)))
    then N.add (Npos (XO XH)) (rand x (Npos (XI XH)) (Npos (XO XH)))
    else Npos (XO XH)
  in
  let a1 = N.add (Npos XH) (rand x (Npos (XO (XO XH))) (N.sub p1 (Npos XH)))
  in
  let b1 = rand x (Npos (XI (XO XH))) p1 in (((((d, a), b), d1), a1), b1)

(** val no_divisor_from : nat -> n -> n -> bool **)

let rec no_divisor_from fuel n0 d0 =
  match fuel with
  | O -> true
  | S f ->
    if N.eqb (N.modulo n0 d0) N0
    then false
    else no_divisor_from f n0 (N.add d0 (Npos XH))

(** val is_prime : n -> bool **)

let is_prime n0 =
  (&&) (N.ltb (Npos XH) n0)
    (no_divisor_from (N.to_nat (N.sub (N.sqrt n0) (Npos XH))) n0 (Npos (XO
      XH)))

(** val tABLE2 : ((((n * n) * n) * n) * n) list **)

let tABLE2 =
  (((((Npos (XO (XI (XO XH)))), (Npos (XO (XI (XI (XI (XI (XI (XI
    XH))))))))), (Npos (XI (XI XH)))), (Npos (XO (XI (XO XH))))), (Npos (XI
    (XO (XO (XO XH)))))) :: ((((((Npos (XO (XO (XI XH)))), (Npos (XO (XI (XI
    (XO (XI (XI (XI (XO (XO XH))))))))))), (Npos (XI (XI XH)))), (Npos (XO
    (XI (XO XH))))), (Npos (XI (XI (XO (XO XH)))))) :: ((((((Npos (XO (XI (XO
    (XO XH))))), (Npos (XO (XI (XO (XI (XO (XI (XO (XI (XO XH))))))))))),
    (Npos (XI (XI (XO XH))))), (Npos (XO (XI (XO XH))))), (Npos (XI (XO (XI
    (XI XH)))))) :: ((((((Npos (XO (XO (XI (XO XH))))), (Npos (XI (XO (XI (XO
    (XO (XI (XO (XO XH)))))))))), (Npos (XI (XI (XO XH))))), (Npos (XO (XI
    (XO XH))))), (Npos (XI (XI (XI (XI XH)))))) :: ((((((Npos (XO (XI (XO (XI
    XH))))), (Npos (XO (XO (XO (XO (XI (XO XH)))))))), (Npos (XI (XI (XO
    XH))))), (Npos (XO (XI (XO XH))))), (Npos (XI (XO (XI (XO (XO
    XH))))))) :: ((((((Npos (XO (XI (XI (XI XH))))), (Npos (XO (XI (XI (XO
    (XI (XI (XO (XO (XO XH))))))))))), (Npos (XI (XI (XO XH))))), (Npos (XO
    (XI (XO XH))))), (Npos (XI (XO (XO (XI (XO XH))))))) :: ((((((Npos (XO
    (XO (XO (XO (XO XH)))))), (Npos (XO (XO (XI (XI (XI (XO (XI (XO (XI
    XH))))))))))), (Npos (XI (XI (XO XH))))), (Npos (XO (XI (XO XH))))),
    (Npos (XI (XI (XO (XI (XO XH))))))) :: ((((((Npos (XO (XO (XI (XO (XO
    XH)))))), (Npos (XI (XI (XO (XI (XO (XO (XO (XO XH)))))))))), (Npos (XI
    (XI (XO XH))))), (Npos (XO (XI (XO XH))))), (Npos (XI (XI (XI (XI (XO
    XH))))))) :: ((((((Npos (XO (XI (XO (XI (XO XH)))))), (Npos (XO (XI (XI
    (XO (XI (XI (XO (XO (XI XH))))))))))), (Npos (XI (XI (XO XH))))), (Npos
    (XO (XI (XO XH))))), (Npos (XI (XO (XI (XO (XI XH))))))) :: ((((((Npos
    (XO (XI (XI (XI (XO XH)))))), (Npos (XO (XI (XO (XI (XI (XI (XI (XI
    XH)))))))))), (Npos (XI (XO (XI XH))))), (Npos (XO (XI (XO XH))))), (Npos
    (XI (XI (XO (XI (XI XH))))))) :: ((((((Npos (XO (XO (XO (XO (XI XH)))))),
    (Npos (XI (XO (XI (XI (XO (XO (XI (XO (XO XH))))))))))), (Npos (XI (XO
    (XI XH))))), (Npos (XO (XI (XO XH))))), (Npos (XI (XO (XI (XI (XI
    XH))))))) :: ((((((Npos (XI (XO (XO (XO (XI XH)))))), (Npos (XI (XI (XI
    (XO (XI (XO XH)))))))), (Npos (XI (XO (XI XH))))), (Npos (XO (XI (XO
    XH))))), (Npos (XI (XO (XI (XI (XI XH))))))) :: ((((((Npos (XI (XI (XI
    (XO (XI XH)))))), (Npos (XO (XO (XO (XI (XO (XO (XO (XO (XO
    XH))))))))))), (Npos (XI (XO (XI XH))))), (Npos (XO (XI (XO XH))))),
    (Npos (XI (XI (XO (XO (XO (XO XH)))))))) :: ((((((Npos (XO (XO (XI (XI
    (XI XH)))))), (Npos (XI (XI (XI (XI (XI (XO (XO XH))))))))), (Npos (XI
    (XO (XI XH))))), (Npos (XO (XI (XO XH))))), (Npos (XI (XI (XI (XO (XO (XO
    XH)))))))) :: ((((((Npos (XO (XI (XI (XI (XI XH)))))), (Npos (XI (XI (XO
    (XI (XO (XI (XI XH))))))))), (Npos (XI (XO (XI XH))))), (Npos (XO (XI (XO
    XH))))), (Npos (XI (XO (XO (XI (XO (XO XH)))))))) :: ((((((Npos (XI (XO
    (XI (XO (XO (XO XH))))))), (Npos (XI (XO (XI (XI (XI (XO (XO XH))))))))),
    (Npos (XI (XO (XI XH))))), (Npos (XO (XI (XO XH))))), (Npos (XI (XI (XI
    (XI (XO (XO XH)))))))) :: ((((((Npos (XI (XI (XO (XI (XO (XO XH))))))),
    (Npos (XO (XI (XI (XO (XI (XI (XI (XI XH)))))))))), (Npos (XI (XO (XO (XO
    XH)))))), (Npos (XO (XI (XO XH))))), (Npos (XI (XO (XO (XI (XI (XO
    XH)))))))) :: ((((((Npos (XO (XO (XI (XO (XI (XO XH))))))), (Npos (XO (XI
    (XI (XI (XO (XO (XI (XO XH)))))))))), (Npos (XI (XO (XO (XO XH)))))),
    (Npos (XO (XI (XO XH))))), (Npos (XI (XO (XO (XO (XO (XI
    XH)))))))) :: ((((((Npos (XO (XO (XO (XI (XI (XO XH))))))), (Npos (XI (XI
    (XI (XO (XO (XO (XI (XO (XO XH))))))))))), (Npos (XI (XO (XO (XO
    XH)))))), (Npos (XO (XI (XO XH))))), (Npos (XI (XO (XI (XO (XO (XI
    XH)))))))) :: ((((((Npos (XI (XI (XO (XI (XI (XO XH))))))), (Npos (XO (XI
    (XO (XO (XO (XO XH)))))))), (Npos (XI (XO (XO (XO XH)))))), (Npos (XO (XI
    (XO XH))))), (Npos (XI (XI (XI (XO (XO (XI XH)))))))) :: ((((((Npos (XI
    (XI (XI (XI (XI (XO XH))))))), (Npos (XO (XO (XO (XO (XO (XI (XI (XO
    XH)))))))))), (Npos (XI (XO (XO (XO XH)))))), (Npos (XO (XI (XO XH))))),
    (Npos (XI (XI (XO (XI (XO (XI XH)))))))) :: ((((((Npos (XI (XO (XO (XO
    (XO (XI XH))))))), (Npos (XI (XO (XI (XI (XO (XI (XI (XO XH)))))))))),
    (Npos (XI (XO (XO (XO XH)))))), (Npos (XO (XI (XO XH))))), (Npos (XI (XO
    (XI (XI (XO (XI XH)))))))) :: ((((((Npos (XI (XO (XI (XO (XO (XI
    XH))))))), (Npos (XO (XI (XO (XO (XI (XI (XO (XO (XO XH))))))))))), (Npos
    (XI (XO (XO (XO XH)))))), (Npos (XO (XI (XO XH))))), (Npos (XI (XO (XO
    (XO (XI (XI XH)))))))) :: ((((((Npos (XO (XI (XO (XO (XI (XI XH))))))),
    (Npos (XI (XO XH)))), (Npos (XI (XI (XO (XO XH)))))), (Npos (XO (XI (XO
    XH))))), (Npos (XI (XI (XI (XI (XI (XI XH)))))))) :: ((((((Npos (XI (XI
    (XI (XO (XI (XI XH))))))), (Npos (XI (XI (XO (XI (XI (XO (XI (XO (XO
    XH))))))))))), (Npos (XI (XI (XO (XO XH)))))), (Npos (XO (XI (XO XH))))),
    (Npos (XI (XI (XO (XO (XO (XO (XO XH))))))))) :: ((((((Npos (XI (XO (XI
    (XI (XI (XI XH))))))), (Npos (XI (XO (XO (XO (XI (XO (XI (XI (XO
    XH))))))))))), (Npos (XI (XI (XO (XO XH)))))), (Npos (XO (XI (XO XH))))),
    (Npos (XI (XO (XO (XI (XO (XO (XO XH))))))))) :: ((((((Npos (XI (XI (XI
    (XI (XI (XI XH))))))), (Npos (XO (XO (XI (XI XH)))))), (Npos (XI (XI (XO
    (XO XH)))))), (Npos (XO (XI (XO XH))))), (Npos (XI (XI (XO (XI (XO (XO
    (XO XH))))))))) :: ((((((Npos (XO (XI (XO (XI (XO (XO (XO XH)))))))),
    (Npos (XO (XO (XI (XO (XI (XO (XO (XI (XO XH))))))))))), (Npos (XI (XI
    (XO (XO XH)))))), (Npos (XO (XI (XO XH))))), (Npos (XI (XO (XI (XO (XI
    (XO (XO XH))))))))) :: ((((((Npos (XO (XO (XI (XI (XO (XO (XO XH)))))))),
    (Npos (XI (XO (XI (XI (XI (XI (XO (XO (XI XH))))))))))), (Npos (XI (XI
    (XO (XO XH)))))), (Npos (XO (XI (XO XH))))), (Npos (XI (XI (XI (XO (XI
    (XO (XO XH))))))))) :: ((((((Npos (XI (XO (XI (XO (XI (XO (XO XH)))))))),
    (Npos (XO (XO (XI (XO (XO (XO (XO (XI (XI XH))))))))))), (Npos (XI (XI
    (XI (XO XH)))))), (Npos (XO (XI (XO XH))))), (Npos (XI (XI (XO (XO (XO
    (XI (XO XH))))))))) :: ((((((Npos (XI (XO (XO (XI (XI (XO (XO XH)))))))),
    (Npos (XO (XI (XO (XO (XO (XI (XO (XI (XI XH))))))))))), (Npos (XI (XI
    (XI (XO XH)))))), (Npos (XO (XI (XO XH))))), (Npos (XI (XI (XI (XO (XO
    (XI (XO XH))))))))) :: ((((((Npos (XO (XO (XO (XO (XO (XI (XO XH)))))))),
    (Npos (XO (XI (XI (XI (XO (XI (XO (XO (XI XH))))))))))), (Npos (XI (XI
    (XI (XO XH)))))), (Npos (XO (XI (XO XH))))), (Npos (XI (XO (XI (XI (XO
    (XI (XO XH))))))))) :: ((((((Npos (XO (XI (XI (XO (XO (XI (XO XH)))))))),
    (Npos (XI (XO (XI (XO (XI (XO (XO (XI (XO XH))))))))))), (Npos (XI (XI
    (XI (XO XH)))))), (Npos (XO (XI (XO XH))))), (Npos (XI (XI (XO (XO (XI
    (XI (XO XH))))))))) :: ((((((Npos (XO (XO (XO (XI (XO (XI (XO XH)))))))),
    (Npos (XI (XO (XI (XO (XI (XI (XO (XI (XO XH))))))))))), (Npos (XI (XI
    (XI (XO XH)))))), (Npos (XO (XI (XO XH))))), (Npos (XI (XO (XI (XO (XI
    (XI (XO XH))))))))) :: ((((((Npos (XI (XI (XO (XO (XI (XI (XO XH)))))))),
    (Npos (XO (XO (XI (XI (XO (XO (XO (XO (XI XH))))))))))), (Npos (XI (XI
    (XI (XO XH)))))), (Npos (XO (XI (XO XH))))), (Npos (XI (XI (XI (XI (XI
    (XI (XO XH))))))))) :: ((((((Npos (XI (XO (XI (XO (XI (XI (XO XH)))))))),
    (Npos (XI (XO (XI (XI (XI (XO (XI (XO (XO XH))))))))))), (Npos (XI (XI
    (XI (XO XH)))))), (Npos (XO (XI (XO XH))))), (Npos (XI (XO (XO (XO (XO
    (XO (XI XH))))))))) :: ((((((Npos (XI (XO (XO (XI (XI (XI (XO XH)))))))),
    (Npos (XI (XI (XI (XO (XO (XI (XO (XO (XO XH))))))))))), (Npos (XI (XI
    (XI (XO XH)))))), (Npos (XO (XI (XO XH))))), (Npos (XI (XO (XI (XO (XO
    (XO (XI XH))))))))) :: ((((((Npos (XI (XI (XO (XI (XI (XI (XO XH)))))))),
    (Npos (XI (XO (XO (XI (XO (XO (XO (XO (XI XH))))))))))), (Npos (XI (XI
    (XI (XO XH)))))), (Npos (XO (XI (XO XH))))), (Npos (XI (XI (XI (XO (XO
    (XO (XI XH))))))))) :: ((((((Npos (XO (XO (XO (XI (XO (XO (XI XH)))))))),
    (Npos (XI (XI (XO (XI (XO (XI (XI (XI XH)))))))))), (Npos (XI (XI (XI (XO
    XH)))))), (Npos (XO (XI (XO XH))))), (Npos (XI (XI (XO (XO (XI (XO (XI
    XH))))))))) :: ((((((Npos (XI (XO (XI (XO (XI (XO (XI XH)))))))), (Npos
    (XO (XO (XI (XI (XO (XO (XO (XI XH)))))))))), (Npos (XI (XI (XI (XO
    XH)))))), (Npos (XO (XI (XO XH))))), (Npos (XI (XI (XI (XI (XI (XO (XI
    XH))))))))) :: ((((((Npos (XI (XO (XO (XI (XI (XO (XI XH)))))))), (Npos
    (XO (XO (XI (XI (XI (XI (XI (XI (XO XH))))))))))), (Npos (XI (XO (XI (XI
    XH)))))), (Npos (XO (XI (XO XH))))), (Npos (XI (XO (XO (XI (XO (XI (XI
    XH))))))))) :: ((((((Npos (XI (XO (XO (XO (XO (XI (XI XH)))))))), (Npos
    (XI (XI (XO (XI (XO (XO (XI (XO (XI XH))))))))))), (Npos (XI (XO (XI (XI
    XH)))))), (Npos (XO (XI (XO XH))))), (Npos (XI (XO (XO (XO (XI (XI (XI
    XH))))))))) :: ((((((Npos (XO (XO (XI (XI (XO (XI (XI XH)))))))), (Npos
    (XO (XI (XI (XO (XO (XO (XO (XI (XO XH))))))))))), (Npos (XI (XO (XI (XI
    XH)))))), (Npos (XO (XI (XO XH))))), (Npos (XI (XI (XO (XI (XI (XI (XI
    XH))))))))) :: ((((((Npos (XO (XI (XO (XO (XI (XI (XI XH)))))))), (Npos
    (XI (XO (XI (XI (XO (XI (XO (XO (XO XH))))))))))), (Npos (XI (XO (XI (XI
    XH)))))), (Npos (XO (XI (XO XH))))), (Npos (XI (XO (XO (XO (XO (XO (XO
    (XO XH)))))))))) :: ((((((Npos (XO (XO (XO (XI (XI (XI (XI XH)))))))),
    (Npos (XO (XO (XO (XO (XO (XI (XI (XO (XO XH))))))))))), (Npos (XI (XO
    (XI (XI XH)))))), (Npos (XO (XI (XO XH))))), (Npos (XI (XI (XI (XO (XO
    (XO (XO (XO XH)))))))))) :: ((((((Npos (XI (XO (XO (XO (XO (XO (XO (XO
    XH))))))))), (Npos (XI (XO (XO (XI (XO (XO (XO (XO XH)))))))))), (Npos
    (XI (XO (XI (XI XH)))))), (Npos (XO (XI (XO XH))))), (Npos (XI (XI (XI
    (XI (XO (XO (XO (XO XH)))))))))) :: ((((((Npos (XI (XI (XI (XO (XO (XO
    (XO (XO XH))))))))), (Npos (XI (XO (XO (XI (XI (XI (XI (XI XH)))))))))),
    (Npos (XI (XO (XI (XI XH)))))), (Npos (XO (XI (XO XH))))), (Npos (XI (XO
    (XI (XO (XI (XO (XO (XO XH)))))))))) :: ((((((Npos (XI (XO (XI (XI (XO
    (XO (XO (XO XH))))))))), (Npos (XO (XI (XO (XO (XI (XO (XI (XI (XO
    XH))))))))))), (Npos (XI (XO (XI (XI XH)))))), (Npos (XO (XI (XO XH))))),
    (Npos (XI (XI (XO (XI (XI (XO (XO (XO XH)))))))))) :: ((((((Npos (XO (XO
    (XO (XI (XI (XO (XO (XO XH))))))))), (Npos (XI (XI (XI (XO (XO (XO (XO
    (XO XH)))))))))), (Npos (XI (XO (XI (XI XH)))))), (Npos (XO (XI (XO
    XH))))), (Npos (XI (XO (XI (XO (XO (XI (XO (XO XH)))))))))) :: ((((((Npos
    (XI (XI (XI (XO (XO (XI (XO (XO XH))))))))), (Npos (XI (XI (XI (XO (XO
    (XI (XI (XI (XI XH))))))))))), (Npos (XI (XO (XI (XI XH)))))), (Npos (XO
    (XI (XO XH))))), (Npos (XI (XI (XO (XO (XI (XI (XO (XO
    XH)))))))))) :: ((((((Npos (XI (XO (XI (XI (XO (XI (XO (XO XH))))))))),
    (Npos (XO (XI (XO (XI (XO (XI (XI (XO (XI XH))))))))))), (Npos (XI (XO
    (XI (XI XH)))))), (Npos (XO (XI (XO XH))))), (Npos (XI (XO (XO (XI (XI
    (XI (XO (XO XH)))))))))) :: ((((((Npos (XI (XO (XO (XO (XI (XI (XO (XO
    XH))))))))), (Npos (XO (XO (XO (XO (XO (XI (XO XH))))))))), (Npos (XI (XO
    (XI (XI XH)))))), (Npos (XO (XI (XO XH))))), (Npos (XI (XO (XI (XI (XI
    (XI (XO (XO XH)))))))))) :: ((((((Npos (XO (XO (XI (XO (XO (XO (XI (XO
    XH))))))))), (Npos (XI (XI (XI (XI (XI (XI (XO (XO (XO XH))))))))))),
    (Npos (XI (XI (XI (XI XH)))))), (Npos (XO (XI (XO XH))))), (Npos (XI (XO
    (XO (XO (XI (XO (XI (XO XH)))))))))) :: ((((((Npos (XI (XO (XO (XO (XI
    (XO (XI (XO XH))))))))), (Npos (XO (XI (XO (XO (XI (XO (XI XH))))))))),
    (Npos (XI (XI (XI (XI XH)))))), (Npos (XO (XI (XO XH))))), (Npos (XI (XO
    (XI (XI (XI (XO (XI (XO XH)))))))))) :: ((((((Npos (XI (XO (XI (XO (XI
    (XO (XI (XO XH))))))))), (Npos (XI (XO (XO (XO (XO (XO (XO (XO (XO
    XH))))))))))), (Npos (XI (XI (XI (XI XH)))))), (Npos (XO (XI (XO XH))))),
    (Npos (XI (XO (XO (XO (XO (XI (XI (XO XH)))))))))) :: ((((((Npos (XI (XI
    (XO (XI (XI (XO (XI (XO XH))))))))), (Npos (XI (XI (XI (XO (XI (XI (XI
    (XI XH)))))))))), (Npos (XI (XI (XI (XI XH)))))), (Npos (XO (XI (XO
    XH))))), (Npos (XI (XI (XI (XO (XO (XI (XI (XO XH)))))))))) :: ((((((Npos
    (XI (XI (XO (XO (XO (XI (XI (XO XH))))))))), (Npos (XO (XI (XI (XI (XO
    (XI (XO (XO (XO XH))))))))))), (Npos (XI (XI (XI (XI XH)))))), (Npos (XO
    (XI (XO XH))))), (Npos (XI (XI (XI (XI (XO (XI (XI (XO
    XH)))))))))) :: ((((((Npos (XO (XI (XO (XI (XO (XI (XI (XO XH))))))))),
    (Npos (XO (XO (XI (XO (XO (XI (XO (XI (XI XH))))))))))), (Npos (XI (XI
    (XI (XI XH)))))), (Npos (XO (XI (XO XH))))), (Npos (XI (XO (XI (XO (XI
    (XI (XI (XO XH)))))))))) :: ((((((Npos (XO (XO (XO (XO (XI (XI (XI (XO
    XH))))))))), (Npos (XO (XO (XI (XO (XI (XO (XO (XI XH)))))))))), (Npos
    (XI (XI (XI (XI XH)))))), (Npos (XO (XI (XO XH))))), (Npos (XI (XI (XO
    (XI (XI (XI (XI (XO XH)))))))))) :: ((((((Npos (XO (XO (XI (XO (XI (XI
    (XI (XO XH))))))))), (Npos (XO (XO (XO (XI (XO (XO (XO (XO (XO
    XH))))))))))), (Npos (XI (XO (XI (XO (XO XH))))))), (Npos (XO (XI (XO
    XH))))), (Npos (XI (XO (XI (XO (XO (XO (XO (XI XH)))))))))) :: ((((((Npos
    (XO (XO (XI (XI (XI (XI (XI (XO XH))))))))), (Npos (XO (XI (XI (XI (XO
    (XO (XI (XO (XI XH))))))))))), (Npos (XI (XO (XI (XO (XO XH))))))), (Npos
    (XO (XI (XO XH))))), (Npos (XI (XO (XI (XI (XO (XO (XO (XI
    XH)))))))))) :: ((((((Npos (XI (XO (XO (XO (XO (XO (XO (XI XH))))))))),
    (Npos (XI (XO (XI (XO (XO (XI (XI (XI XH)))))))))), (Npos (XI (XO (XI (XO
    (XO XH))))))), (Npos (XO (XI (XO XH))))), (Npos (XI (XO (XO (XO (XI (XO
    (XO (XI XH)))))))))) :: ((((((Npos (XI (XO (XO (XI (XO (XO (XO (XI
    XH))))))))), (Npos (XO (XO (XO (XI (XI (XO (XI (XI (XO XH))))))))))),
    (Npos (XI (XO (XI (XO (XO XH))))))), (Npos (XO (XI (XO XH))))), (Npos (XI
    (XO (XO (XI (XI (XO (XO (XI XH)))))))))) :: ((((((Npos (XI (XO (XI (XO
    (XI (XO (XO (XI XH))))))))), (Npos (XO (XI (XO (XI (XO (XI (XO (XO (XO
    XH))))))))))), (Npos (XI (XO (XI (XO (XO XH))))))), (Npos (XO (XI (XO
    XH))))), (Npos (XI (XO (XI (XO (XO (XI (XO (XI XH)))))))))) :: ((((((Npos
    (XO (XI (XO (XO (XO (XI (XO (XI XH))))))))), (Npos (XI (XI (XI (XO (XI
    (XO (XI (XI XH)))))))))), (Npos (XI (XO (XI (XO (XO XH))))))), (Npos (XO
    (XI (XO XH))))), (Npos (XI (XO (XO (XO (XI (XI (XO (XI
    XH)))))))))) :: ((((((Npos (XO (XO (XI (XI (XO (XI (XO (XI XH))))))))),
    (Npos (XI (XO (XO (XO (XO (XO (XO (XI (XO XH))))))))))), (Npos (XI (XO
    (XI (XO (XO XH))))))), (Npos (XO (XI (XO XH))))), (Npos (XI (XI (XO (XI
    (XI (XI (XO (XI XH)))))))))) :: ((((((Npos (XO (XI (XO (XO (XI (XI (XO
    (XI XH))))))))), (Npos (XO (XO (XI (XI (XI (XO (XI (XI (XO XH))))))))))),
    (Npos (XI (XO (XI (XO (XO XH))))))), (Npos (XO (XI (XO XH))))), (Npos (XI
    (XO (XO (XO (XO (XO (XI (XI XH)))))))))) :: ((((((Npos (XI (XI (XI (XI
    (XI (XI (XO (XI XH))))))))), (Npos (XI (XO (XO (XO (XO (XO (XI
    XH))))))))), (Npos (XI (XO (XI (XO (XO XH))))))), (Npos (XO (XI (XO
    XH))))), (Npos (XI (XO (XI (XI (XO (XO (XI (XI XH)))))))))) :: ((((((Npos
    (XI (XO (XI (XO (XO (XO (XI (XI XH))))))))), (Npos (XO (XI (XI (XO (XO
    (XI (XO (XI (XI XH))))))))))), (Npos (XI (XO (XI (XO (XO XH))))))), (Npos
    (XO (XI (XO XH))))), (Npos (XI (XI (XO (XO (XI (XO (XI (XI
    XH)))))))))) :: ((((((Npos (XO (XI (XO (XO (XI (XO (XI (XI XH))))))))),
    (Npos (XO (XO (XO (XO (XO (XI (XI (XO (XI XH))))))))))), (Npos (XI (XO
    (XI (XO (XO XH))))))), (Npos (XO (XI (XO XH))))), (Npos (XI (XI (XI (XI
    (XI (XO (XI (XI XH)))))))))) :: ((((((Npos (XO (XI (XI (XI (XI (XO (XI
    (XI XH))))))))), (Npos (XO (XI (XI (XO (XI (XO (XO (XO (XI XH))))))))))),
    (Npos (XI (XO (XI (XO (XO XH))))))), (Npos (XO (XI (XO XH))))), (Npos (XI
    (XI (XO (XI (XO (XI (XI (XI XH)))))))))) :: ((((((Npos (XO (XI (XI (XO
    (XO (XI (XI (XI XH))))))))), (Npos (XO (XO (XO (XO (XI (XO (XO (XI (XI
    XH))))))))))), (Npos (XI (XO (XI (XO (XO XH))))))), (Npos (XO (XI (XO
    XH))))), (Npos (XI (XI (XO (XO (XI (XI (XI (XI XH)))))))))) :: ((((((Npos
    (XI (XI (XO (XI (XO (XI (XI (XI XH))))))))), (Npos (XI (XO (XO (XI (XO
    (XI (XI (XO (XO XH))))))))))), (Npos (XI (XO (XI (XO (XO XH))))))), (Npos
    (XO (XI (XO XH))))), (Npos (XI (XI (XI (XO (XI (XI (XI (XI
    XH)))))))))) :: ((((((Npos (XI (XO (XO (XO (XI (XI (XI (XI XH))))))))),
    (Npos (XI (XI (XO (XI (XO (XO (XI (XO (XO XH))))))))))), (Npos (XI (XO
    (XI (XO (XO XH))))))), (Npos (XO (XI (XO XH))))), (Npos (XI (XO (XI (XI
    (XI (XI (XI (XI XH)))))))))) :: ((((((Npos (XI (XI (XI (XI (XI (XI (XI
    (XI XH))))))))), (Npos (XO (XO (XO (XO (XO (XI (XO (XO (XI XH))))))))))),
    (Npos (XI (XO (XI (XO (XO XH))))))), (Npos (XO (XI (XO XH))))), (Npos (XI
    (XI (XO (XI (XO (XO (XO (XO (XO XH))))))))))) :: ((((((Npos (XO (XI (XI
    (XI (XO (XO (XO (XO (XO XH)))))))))), (Npos (XI (XI (XO (XI (XI (XO (XO
    (XI (XI XH))))))))))), (Npos (XI (XO (XO (XI (XO XH))))))), (Npos (XO (XI
    (XO XH))))), (Npos (XI (XO (XI (XI (XI (XO (XO (XO (XO
    XH))))))))))) :: ((((((Npos (XO (XO (XI (XO (XI (XO (XO (XO (XO
    XH)))))))))), (Npos (XO (XI (XI (XO (XO (XI (XI (XI (XI XH))))))))))),
    (Npos (XI (XO (XO (XI (XO XH))))))), (Npos (XO (XI (XO XH))))), (Npos (XI
    (XI (XO (XO (XO (XI (XO (XO (XO XH))))))))))) :: ((((((Npos (XO (XI (XI
    (XI (XI (XO (XO (XO (XO XH)))))))))), (Npos (XO (XO (XI (XI (XI (XO
    XH)))))))), (Npos (XI (XO (XO (XI (XO XH))))))), (Npos (XO (XI (XO
    XH))))), (Npos (XI (XO (XI (XI (XO (XI (XO (XO (XO
    XH))))))))))) :: ((((((Npos (XI (XO (XI (XO (XO (XI (XO (XO (XO
    XH)))))))))), (Npos (XI (XO (XO (XO (XI (XI (XI (XI XH)))))))))), (Npos
    (XI (XO (XO (XI (XO XH))))))), (Npos (XO (XI (XO XH))))), (Npos (XI (XI
    (XO (XO (XI (XI (XO (XO (XO XH))))))))))) :: ((((((Npos (XI (XO (XI (XI
    (XO (XI (XO (XO (XO XH)))))))))), (Npos (XI (XI (XI (XI (XO (XI (XO (XO
    (XO XH))))))))))), (Npos (XI (XO (XO (XI (XO XH))))))), (Npos (XO (XI (XO
    XH))))), (Npos (XI (XI (XO (XI (XI (XI (XO (XO (XO
    XH))))))))))) :: ((((((Npos (XI (XI (XO (XO (XI (XI (XO (XO (XO
    XH)))))))))), (Npos (XI (XI (XO (XI (XI (XO (XO (XI (XO XH))))))))))),
    (Npos (XI (XO (XO (XI (XO XH))))))), (Npos (XO (XI (XO XH))))), (Npos (XI
    (XO (XO (XO (XO (XO (XI (XO (XO XH))))))))))) :: ((((((Npos (XI (XO (XI
    (XI (XI (XI (XO (XO (XO XH)))))))))), (Npos (XO (XO (XO (XO (XI (XO (XO
    (XI (XI XH))))))))))), (Npos (XI (XO (XO (XI (XO XH))))))), (Npos (XO (XI
    (XO XH))))), (Npos (XI (XI (XO (XI (XO (XO (XI (XO (XO
    XH))))))))))) :: ((((((Npos (XO (XO (XI (XO (XO (XO (XI (XO (XO
    XH)))))))))), (Npos (XO (XI (XI (XO (XO (XO (XO (XO XH)))))))))), (Npos
    (XI (XO (XO (XI (XO XH))))))), (Npos (XO (XI (XO XH))))), (Npos (XI (XO
    (XO (XO (XI (XO (XI (XO (XO XH))))))))))) :: ((((((Npos (XO (XO (XI (XI
    (XO (XO (XI (XO (XO XH)))))))))), (Npos (XO (XO (XO (XI (XI (XO (XO
    XH))))))))), (Npos (XI (XO (XO (XI (XO XH))))))), (Npos (XO (XI (XO
    XH))))), (Npos (XI (XO (XO (XI (XI (XO (XI (XO (XO
    XH))))))))))) :: ((((((Npos (XO (XI (XO (XO (XI (XO (XI (XO (XO
    XH)))))))))), (Npos (XO (XI (XI (XI (XO (XO (XO (XO (XO XH))))))))))),
    (Npos (XI (XO (XO (XI (XO XH))))))), (Npos (XO (XI (XO XH))))), (Npos (XI
    (XI (XI (XI (XI (XO (XI (XO (XO XH))))))))))) :: ((((((Npos (XO (XO (XO
    (XI (XI (XO (XI (XO (XO XH)))))))))), (Npos (XO (XO (XI (XI (XO (XO (XO
    (XO XH)))))))))), (Npos (XI (XO (XO (XI (XO XH))))))), (Npos (XO (XI (XO
    XH))))), (Npos (XI (XO (XI (XO (XO (XI (XI (XO (XO
    XH))))))))))) :: ((((((Npos (XO (XI (XI (XI (XI (XO (XI (XO (XO
    XH)))))))))), (Npos (XO (XO (XI (XO (XI (XO (XI XH))))))))), (Npos (XI
    (XO (XO (XI (XO XH))))))), (Npos (XO (XI (XO XH))))), (Npos (XI (XI (XO
    (XI (XO (XI (XI (XO (XO XH))))))))))) :: ((((((Npos (XI (XI (XO (XI (XO
    (XI (XI (XO (XO XH)))))))))), (Npos (XI (XO (XI (XI (XO XH))))))), (Npos
    (XI (XO (XO (XI (XO XH))))))), (Npos (XO (XI (XO XH))))), (Npos (XI (XI
    (XI (XO (XI (XI (XI (XO (XO XH))))))))))) :: ((((((Npos (XI (XO (XO (XI
    (XI (XI (XI (XO (XO XH)))))))))), (Npos (XO (XI (XO (XO (XO (XO (XO (XI
    (XI XH))))))))))), (Npos (XI (XI (XO (XI (XO XH))))))), (Npos (XO (XI (XO
    XH))))), (Npos (XI (XI (XI (XO (XO (XO (XO (XI (XO
    XH))))))))))) :: ((((((Npos (XO (XO (XO (XO (XO (XO (XO (XI (XO
    XH)))))))))), (Npos (XI (XI (XI (XI (XO (XO (XO (XO (XO XH))))))))))),
    (Npos (XI (XI (XO (XI (XO XH))))))), (Npos (XO (XI (XO XH))))), (Npos (XI
    (XO (XI (XI (XO (XO (XO (XI (XO XH))))))))))) :: ((((((Npos (XO (XO (XO
    (XI (XO (XO (XO (XI (XO XH)))))))))), (Npos (XO (XI (XI (XI (XO (XI (XO
    (XO (XO XH))))))))))), (Npos (XI (XI (XO (XI (XO XH))))))), (Npos (XO (XI
    (XO XH))))), (Npos (XI (XO (XI (XO (XI (XO (XO (XI (XO
    XH))))))))))) :: ((((((Npos (XO (XI (XO (XI (XI (XO (XO (XI (XO
    XH)))))))))), (Npos (XO (XO (XI (XI (XO (XO (XI (XI XH)))))))))), (Npos
    (XI (XI (XI (XI (XO XH))))))), (Npos (XO (XI (XO XH))))), (Npos (XI (XI
    (XO (XI (XO (XI (XO (XI (XO XH))))))))))) :: ((((((Npos (XI (XI (XO (XO
    (XO (XI (XO (XI (XO XH)))))))))), (Npos (XI (XO XH)))), (Npos (XI (XI (XI
    (XI (XO XH))))))), (Npos (XO (XI (XO XH))))), (Npos (XI (XI (XO (XO (XI
    (XI (XO (XI (XO XH))))))))))) :: ((((((Npos (XI (XO (XI (XI (XO (XI (XO
    (XI (XO XH)))))))))), (Npos (XI (XI (XI (XI (XI (XI (XI (XO (XI
    XH))))))))))), (Npos (XI (XI (XI (XI (XO XH))))))), (Npos (XO (XI (XO
    XH))))), (Npos (XI (XO (XI (XI (XI (XI (XO (XI (XO
    XH))))))))))) :: ((((((Npos (XI (XO (XI (XO (XI (XI (XO (XI (XO
    XH)))))))))), (Npos (XO (XO (XI (XO (XO (XI (XI (XI (XI XH))))))))))),
    (Npos (XI (XI (XI (XI (XO XH))))))), (Npos (XO (XI (XO XH))))), (Npos (XI
    (XO (XI (XO (XO (XO (XI (XI (XO XH))))))))))) :: ((((((Npos (XI (XI (XI
    (XI (XI (XI (XO (XI (XO XH)))))))))), (Npos (XO (XI (XO (XI (XI (XO (XO
    (XO XH)))))))))), (Npos (XI (XI (XI (XI (XO XH))))))), (Npos (XO (XI (XO
    XH))))), (Npos (XI (XI (XI (XI (XO (XO (XI (XI (XO
    XH))))))))))) :: ((((((Npos (XO (XI (XI (XI (XO (XO (XI (XI (XO
    XH)))))))))), (Npos (XI (XO (XO (XO (XO (XO (XO (XO (XO XH))))))))))),
    (Npos (XI (XI (XI (XI (XO XH))))))), (Npos (XO (XI (XO XH))))), (Npos (XI
    (XO (XI (XI (XI (XO (XI (XI (XO XH))))))))))) :: ((((((Npos (XO (XO (XO
    (XI (XI (XO (XI (XI (XO XH)))))))))), (Npos (XI (XO (XO (XO (XO (XI (XI
    (XO (XI XH))))))))))), (Npos (XI (XI (XI (XI (XO XH))))))), (Npos (XO (XI
    (XO XH))))), (Npos (XI (XI (XI (XO (XO (XI (XI (XI (XO
    XH))))))))))) :: ((((((Npos (XO (XO (XO (XO (XO (XI (XI (XI (XO
    XH)))))))))), (Npos (XO (XI (XI (XO (XO (XI (XI (XO (XI XH))))))))))),
    (Npos (XI (XI (XI (XI (XO XH))))))), (Npos (XO (XI (XO XH))))), (Npos (XI
    (XI (XI (XI (XO (XI (XI (XI (XO XH))))))))))) :: ((((((Npos (XI (XI (XO
    (XI (XO (XI (XI (XI (XO XH)))))))))), (Npos (XI (XI (XI (XI (XO (XI (XI
    XH))))))))), (Npos (XI (XI (XI (XI (XO XH))))))), (Npos (XO (XI (XO
    XH))))), (Npos (XI (XO (XO (XI (XI (XI (XI (XI (XO
    XH))))))))))) :: ((((((Npos (XI (XI (XI (XO (XI (XI (XI (XI (XO
    XH)))))))))), (Npos (XO (XO (XI (XO (XO (XO (XI (XI XH)))))))))), (Npos
    (XI (XI (XI (XI (XO XH))))))), (Npos (XO (XI (XO XH))))), (Npos (XI (XO
    (XI (XO (XO (XO (XO (XO (XI XH))))))))))) :: ((((((Npos (XO (XI (XO (XI
    (XO (XO (XO (XO (XI XH)))))))))), (Npos (XO (XI (XI (XI (XI (XO (XI (XO
    (XI XH))))))))))), (Npos (XI (XO (XI (XO (XI XH))))))), (Npos (XO (XI (XO
    XH))))), (Npos (XI (XO (XI (XI (XI (XO (XO (XO (XI
    XH))))))))))) :: ((((((Npos (XO (XO (XO (XI (XI (XO (XO (XO (XI
    XH)))))))))), (Npos (XO (XO (XI (XO (XI (XO (XI (XO (XI XH))))))))))),
    (Npos (XI (XO (XI (XO (XI XH))))))), (Npos (XO (XI (XO XH))))), (Npos (XI
    (XI (XO (XI (XO (XI (XO (XO (XI XH))))))))))) :: ((((((Npos (XO (XI (XO
    (XO (XO (XI (XO (XO (XI XH)))))))))), (Npos (XI (XI (XO (XO (XO (XO (XO
    (XI (XO XH))))))))))), (Npos (XI (XO (XI (XO (XI XH))))))), (Npos (XO (XI
    (XO XH))))), (Npos (XI (XO (XI (XO (XI (XI (XO (XO (XI
    XH))))))))))) :: ((((((Npos (XI (XI (XO (XI (XO (XI (XO (XO (XI
    XH)))))))))), (Npos (XI (XI (XI (XI (XI (XO (XO (XO (XO XH))))))))))),
    (Npos (XI (XO (XI (XO (XI XH))))))), (Npos (XO (XI (XO XH))))), (Npos (XI
    (XO (XI (XI (XI (XI (XO (XO (XI XH))))))))))) :: ((((((Npos (XI (XO (XI
    (XO (XI (XI (XO (XO (XI XH)))))))))), (Npos (XI (XI (XI (XI (XI (XI (XO
    (XI XH)))))))))), (Npos (XI (XO (XI (XO (XI XH))))))), (Npos (XO (XI (XO
    XH))))), (Npos (XI (XI (XI (XO (XO (XO (XI (XO (XI
    XH))))))))))) :: ((((((Npos (XI (XI (XO (XO (XO (XO (XI (XO (XI
    XH)))))))))), (Npos (XI (XO (XO (XO (XO (XO (XI (XO XH)))))))))), (Npos
    (XI (XO (XI (XO (XI XH))))))), (Npos (XO (XI (XO XH))))), (Npos (XI (XO
    (XI (XO (XI (XO (XI (XO (XI XH))))))))))) :: ((((((Npos (XI (XO (XI (XI
    (XO (XO (XI (XO (XI XH)))))))))), (Npos (XI (XI (XI (XI (XI (XO (XO (XO
    XH)))))))))), (Npos (XI (XO (XI (XO (XI XH))))))), (Npos (XO (XI (XO
    XH))))), (Npos (XI (XI (XI (XI (XI (XO (XI (XO (XI
    XH))))))))))) :: ((((((Npos (XO (XO (XI (XI (XI (XO (XI (XO (XI
    XH)))))))))), (Npos (XO (XO (XI XH))))), (Npos (XI (XO (XI (XO (XI
    XH))))))), (Npos (XO (XI (XO XH))))), (Npos (XI (XO (XI (XI (XO (XI (XI
    (XO (XI XH))))))))))) :: ((((((Npos (XO (XI (XI (XO (XO (XI (XI (XO (XI
    XH)))))))))), (Npos (XI (XI (XO (XI (XI (XI (XI XH))))))))), (Npos (XI
    (XO (XI (XO (XI XH))))))), (Npos (XO (XI (XO XH))))), (Npos (XI (XI (XI
    (XO (XI (XI (XI (XO (XI XH))))))))))) :: ((((((Npos (XI (XI (XO (XI (XI
    (XI (XI (XO (XI XH)))))))))), (Npos (XO (XI (XI (XI XH)))))), (Npos (XI
    (XO (XI (XO (XI XH))))))), (Npos (XO (XI (XO XH))))), (Npos (XI (XI (XO
    (XI (XO (XO (XO (XI (XI XH))))))))))) :: ((((((Npos (XI (XI (XI (XO (XO
    (XO (XO (XI (XI XH)))))))))), (Npos (XI (XO (XI (XI (XO (XI (XI (XO (XO
    XH))))))))))), (Npos (XI (XO (XI (XO (XI XH))))))), (Npos (XO (XI (XO
    XH))))), (Npos (XI (XI (XI (XO (XI (XO (XO (XI (XI
    XH))))))))))) :: ((((((Npos (XI (XO (XO (XO (XI (XO (XO (XI (XI
    XH)))))))))), (Npos (XI (XI (XO (XI (XO (XI (XO (XO (XO XH))))))))))),
    (Npos (XI (XO (XI (XO (XI XH))))))), (Npos (XO (XI (XO XH))))), (Npos (XI
    (XO (XO (XO (XO (XI (XO (XI (XI XH))))))))))) :: ((((((Npos (XO (XI (XI
    (XI (XI (XO (XO (XI (XI XH)))))))))), (Npos (XI (XI (XI (XI (XI (XI
    XH)))))))), (Npos (XI (XO (XI (XO (XI XH))))))), (Npos (XO (XI (XO
    XH))))), (Npos (XI (XO (XI (XI (XO (XI (XO (XI (XI
    XH))))))))))) :: ((((((Npos (XO (XI (XO (XI (XO (XI (XO (XI (XI
    XH)))))))))), (Npos (XO (XO (XO (XO (XI (XO (XO (XI XH)))))))))), (Npos
    (XI (XO (XI (XO (XI XH))))))), (Npos (XO (XI (XO XH))))), (Npos (XI (XO
    (XO (XI (XI (XI (XO (XI (XI XH))))))))))) :: ((((((Npos (XO (XI (XI (XO
    (XI (XI (XO (XI (XI XH)))))))))), (Npos (XI (XI (XO (XI (XI (XO
    XH)))))))), (Npos (XI (XI (XO (XI (XI XH))))))), (Npos (XO (XI (XO
    XH))))), (Npos (XI (XI (XO (XI (XO (XO (XI (XI (XI
    XH))))))))))) :: ((((((Npos (XI (XI (XO (XO (XO (XO (XI (XI (XI
    XH)))))))))), (Npos (XO (XO (XI (XO (XI (XO (XO (XI (XI XH))))))))))),
    (Npos (XI (XI (XO (XI (XI XH))))))), (Npos (XO (XI (XO XH))))), (Npos (XI
    (XI (XI (XO (XI (XO (XI (XI (XI XH))))))))))) :: ((((((Npos (XI (XO (XO
    (XO (XI (XO (XI (XI (XI XH)))))))))), (Npos (XI (XI (XI (XO (XO (XI (XO
    (XI (XI XH))))))))))), (Npos (XI (XI (XO (XI (XI XH))))))), (Npos (XO (XI
    (XO XH))))), (Npos (XI (XO (XI (XO (XO (XI (XI (XI (XI
    XH))))))))))) :: ((((((Npos (XI (XO (XI (XI (XI (XO (XI (XI (XI
    XH)))))))))), (Npos (XI (XI (XO (XO (XI (XI (XO (XI (XO XH))))))))))),
    (Npos (XI (XI (XO (XI (XI XH))))))), (Npos (XO (XI (XO XH))))), (Npos (XI
    (XO (XO (XO (XI (XI (XI (XI (XI XH))))))))))) :: ((((((Npos (XO (XI (XO
    (XI (XO (XI (XI (XI (XI XH)))))))))), (Npos (XI (XI (XO (XI (XO (XI (XO
    (XO XH)))))))))), (Npos (XI (XI (XO (XI (XI XH))))))), (Npos (XO (XI (XO
    XH))))), (Npos (XI (XO (XI (XI (XI (XI (XI (XI (XI
    XH))))))))))) :: ((((((Npos (XO (XO (XI (XI (XI (XI (XI (XI (XI
    XH)))))))))), (Npos (XO (XI (XO (XI (XI (XO (XO (XO XH)))))))))), (Npos
    (XI (XI (XO (XI (XI XH))))))), (Npos (XO (XI (XO XH))))), (Npos (XI (XI
    (XI (XI (XO (XO (XO (XO (XO (XO XH)))))))))))) :: ((((((Npos (XO (XO (XO
    (XI (XO (XO (XO (XO (XO (XO XH))))))))))), (Npos (XO (XO (XO (XI (XI (XI
    (XO (XO (XI XH))))))))))), (Npos (XI (XI (XO (XI (XI XH))))))), (Npos (XO
    (XI (XO XH))))), (Npos (XI (XI (XO (XI (XI (XO (XO (XO (XO (XO
    XH)))))))))))) :: ((((((Npos (XO (XI (XO (XI (XI (XO (XO (XO (XO (XO
    XH))))))))))), (Npos (XO (XO (XO (XI (XI (XO (XO (XO (XO XH))))))))))),
    (Npos (XI (XI (XO (XI (XI XH))))))), (Npos (XI (XI (XO XH))))), (Npos (XI
    (XO (XI (XI (XO (XI (XO (XO (XO (XO XH)))))))))))) :: ((((((Npos (XO (XI
    (XO (XO (XI (XI (XO (XO (XO (XO XH))))))))))), (Npos (XO (XO (XI (XO (XI
    (XO (XI (XO (XO XH))))))))))), (Npos (XI (XI (XO (XI (XI XH))))))), (Npos
    (XI (XI (XO XH))))), (Npos (XI (XO (XI (XO (XO (XO (XI (XO (XO (XO
    XH)))))))))))) :: ((((((Npos (XI (XO (XI (XI (XI (XI (XO (XO (XO (XO
    XH))))))))))), (Npos (XO (XO (XI (XI XH)))))), (Npos (XI (XI (XO (XI (XI
    XH))))))), (Npos (XI (XI (XO XH))))), (Npos (XI (XI (XI (XI (XO (XO (XI
    (XO (XO (XO XH)))))))))))) :: ((((((Npos (XI (XI (XO (XI (XO (XO (XI (XO
    (XO (XO XH))))))))))), (Npos (XI (XI (XO (XO (XI (XI (XO (XI (XI
    XH))))))))))), (Npos (XI (XI (XO (XI (XI XH))))))), (Npos (XI (XI (XO
    XH))))), (Npos (XI (XO (XI (XI (XI (XO (XI (XO (XO (XO
    XH)))))))))))) :: ((((((Npos (XI (XI (XI (XO (XI (XO (XI (XO (XO (XO
    XH))))))))))), (Npos (XO (XI (XO (XO (XO (XI (XO XH))))))))), (Npos (XI
    (XI (XO (XI (XI XH))))))), (Npos (XI (XI (XO XH))))), (Npos (XI (XO (XO
    (XI (XO (XI (XI (XO (XO (XO XH)))))))))))) :: ((((((Npos (XO (XO (XO (XO
    (XI (XI (XI (XO (XO (XO XH))))))))))), (Npos (XO (XO (XO (XI (XI (XO (XO
    (XO (XO XH))))))))))), (Npos (XI (XI (XO (XI (XI XH))))))), (Npos (XI (XI
    (XO XH))))), (Npos (XI (XO (XO (XO (XO (XO (XO (XI (XO (XO
    XH)))))))))))) :: ((((((Npos (XO (XO (XO (XO (XO (XO (XO (XI (XO (XO
    XH))))))))))), (Npos (XO (XO (XO (XI (XO (XI (XI (XI (XI XH))))))))))),
    (Npos (XI (XO (XI (XI (XI XH))))))), (Npos (XI (XI (XO XH))))), (Npos (XI
    (XI (XO (XO (XI (XO (XO (XI (XO (XO XH)))))))))))) :: ((((((Npos (XI (XO
    (XO (XO (XI (XO (XO (XI (XO (XO XH))))))))))), (Npos (XI (XI (XO (XI (XI
    (XI (XI XH))))))))), (Npos (XI (XO (XI (XI (XI XH))))))), (Npos (XI (XI
    (XO XH))))), (Npos (XI (XI (XO (XO (XO (XI (XO (XI (XO (XO
    XH)))))))))))) :: ((((((Npos (XI (XI (XI (XI (XI (XO (XO (XI (XO (XO
    XH))))))))))), (Npos (XI (XO (XO (XO (XO (XI (XO (XI (XO XH))))))))))),
    (Npos (XI (XO (XI (XI (XI XH))))))), (Npos (XI (XI (XO XH))))), (Npos (XI
    (XO (XO (XO (XI (XI (XO (XI (XO (XO XH)))))))))))) :: ((((((Npos (XI (XO
    (XI (XO (XI (XI (XO (XI (XO (XO XH))))))))))), (Npos (XI (XI (XI (XI (XO
    (XI (XO (XO (XO XH))))))))))), (Npos (XI (XO (XI (XI (XI XH))))))), (Npos
    (XI (XI (XO XH))))), (Npos (XI (XI (XI (XO (XO (XO (XI (XI (XO (XO
    XH)))))))))))) :: ((((((Npos (XO (XO (XI (XO (XO (XO (XI (XI (XO (XO
    XH))))))))))), (Npos (XI (XI (XO (XI (XI (XO (XO (XI (XI XH))))))))))),
    (Npos (XI (XO (XI (XI (XI XH))))))), (Npos (XI (XI (XO XH))))), (Npos (XI
    (XO (XI (XO (XI (XO (XI (XI (XO (XO XH)))))))))))) :: ((((((Npos (XO (XO
    (XI (XO (XI (XO (XI (XI (XO (XO XH))))))))))), (Npos (XI (XO (XO (XO (XI
    (XO XH)))))))), (Npos (XI (XI (XO (XO (XO (XO XH)))))))), (Npos (XI (XI
    (XO XH))))), (Npos (XI (XI (XO (XI (XO (XI (XI (XI (XO (XO
    XH)))))))))))) :: ((((((Npos (XI (XI (XI (XO (XO (XI (XI (XI (XO (XO
    XH))))))))))), (Npos (XO (XI (XI (XI (XI (XO (XI (XI XH)))))))))), (Npos
    (XI (XI (XO (XO (XO (XO XH)))))))), (Npos (XI (XI (XO XH))))), (Npos (XI
    (XO (XI (XI (XI (XI (XI (XI (XO (XO XH)))))))))))) :: ((((((Npos (XI (XO
    (XI (XO (XI (XI (XI (XI (XO (XO XH))))))))))), (Npos (XO (XI (XI (XO (XO
    (XO (XI XH))))))))), (Npos (XI (XI (XO (XO (XO (XO XH)))))))), (Npos (XI
    (XI (XO XH))))), (Npos (XI (XI (XO (XI (XO (XO (XO (XO (XI (XO
    XH)))))))))))) :: ((((((Npos (XI (XO (XI (XO (XO (XO (XO (XO (XI (XO
    XH))))))))))), (Npos (XI (XO (XO (XI (XO (XO (XO XH))))))))), (Npos (XI
    (XI (XO (XO (XO (XO XH)))))))), (Npos (XI (XI (XO XH))))), (Npos (XI (XI
    (XO (XI (XI (XO (XO (XO (XI (XO XH)))))))))))) :: ((((((Npos (XO (XI (XO
    (XI (XI (XO (XO (XO (XI (XO XH))))))))))), (Npos (XI (XI (XO (XI (XO (XO
    XH)))))))), (Npos (XI (XI (XO (XO (XO (XO XH)))))))), (Npos (XI (XI (XO
    XH))))), (Npos (XI (XI (XI (XI (XO (XI (XO (XO (XI (XO
    XH)))))))))))) :: ((((((Npos (XI (XI (XO (XO (XO (XO (XI (XO (XI (XO
    XH))))))))))), (Npos (XI (XO (XI (XI XH)))))), (Npos (XI (XI (XO (XO (XO
    (XO XH)))))))), (Npos (XI (XI (XO XH))))), (Npos (XI (XI (XI (XO (XI (XO
    (XI (XO (XI (XO XH)))))))))))) :: ((((((Npos (XI (XO (XO (XO (XI (XO (XI
    (XO (XI (XO XH))))))))))), (Npos (XI (XI (XI (XO (XO (XI (XI XH))))))))),
    (Npos (XI (XI (XO (XO (XO (XO XH)))))))), (Npos (XI (XI (XO XH))))),
    (Npos (XI (XO (XI (XO (XO (XI (XI (XO (XI (XO
    XH)))))))))))) :: ((((((Npos (XI (XO (XI (XI (XO (XI (XI (XO (XI (XO
    XH))))))))))), (Npos (XO (XO (XI (XO (XI (XO (XO (XO (XO XH))))))))))),
    (Npos (XI (XI (XO (XO (XO (XO XH)))))))), (Npos (XI (XI (XO XH))))),
    (Npos (XI (XO (XO (XO (XO (XO (XO (XI (XI (XO
    XH)))))))))))) :: ((((((Npos (XO (XO (XI (XI (XI (XI (XI (XO (XI (XO
    XH))))))))))), (Npos (XO (XI (XO (XI (XI XH))))))), (Npos (XI (XI (XO (XO
    (XO (XO XH)))))))), (Npos (XI (XI (XO XH))))), (Npos (XI (XI (XI (XI (XO
    (XO (XO (XI (XI (XO XH)))))))))))) :: ((((((Npos (XO (XO (XI (XI (XO (XO
    (XO (XI (XI (XO XH))))))))))), (Npos (XO (XO (XI (XI (XI XH))))))), (Npos
    (XI (XI (XO (XO (XO (XO XH)))))))), (Npos (XI (XI (XO XH))))), (Npos (XI
    (XI (XI (XI (XI (XO (XO (XI (XI (XO XH)))))))))))) :: ((((((Npos (XO (XO
    (XI (XI (XI (XO (XO (XI (XI (XO XH))))))))))), (Npos (XO (XO (XI (XO (XO
    (XO (XI (XI (XI XH))))))))))), (Npos (XI (XI (XI (XO (XO (XO XH)))))))),
    (Npos (XI (XI (XO XH))))), (Npos (XI (XI (XO (XO (XI (XI (XO (XI (XI (XO
    XH)))))))))))) :: ((((((Npos (XI (XO (XI (XO (XI (XI (XO (XI (XI (XO
    XH))))))))))), (Npos (XO (XO (XO (XO (XI (XI (XI (XO (XO XH))))))))))),
    (Npos (XI (XI (XI (XO (XO (XO XH)))))))), (Npos (XI (XI (XO XH))))),
    (Npos (XI (XI (XO (XI (XO (XO (XI (XI (XI (XO
    XH)))))))))))) :: ((((((Npos (XI (XO (XI (XO (XO (XO (XI (XI (XI (XO
    XH))))))))))), (Npos (XO (XI (XI (XO (XI (XI (XI (XI XH)))))))))), (Npos
    (XI (XI (XI (XO (XO (XO XH)))))))), (Npos (XI (XI (XO XH))))), (Npos (XI
    (XI (XO (XI (XI (XO (XI (XI (XI (XO XH)))))))))))) :: ((((((Npos (XO (XI
    (XI (XI (XI (XO (XI (XI (XI (XO XH))))))))))), (Npos (XO (XO (XI (XI (XI
    (XI (XI (XO (XO XH))))))))))), (Npos (XI (XI (XI (XO (XO (XO XH)))))))),
    (Npos (XI (XI (XO XH))))), (Npos (XI (XI (XO (XO (XI (XI (XI (XI (XI (XO
    XH)))))))))))) :: ((((((Npos (XO (XI (XO (XO (XI (XI (XI (XI (XI (XO
    XH))))))))))), (Npos (XO (XI (XO (XI (XI (XO (XI (XI (XI XH))))))))))),
    (Npos (XI (XI (XI (XO (XO (XO XH)))))))), (Npos (XI (XI (XO XH))))),
    (Npos (XI (XI (XI (XO (XO (XO (XO (XO (XO (XI
    XH)))))))))))) :: ((((((Npos (XI (XI (XO (XO (XO (XO (XO (XO (XO (XI
    XH))))))))))), (Npos (XO (XI (XI (XO (XI (XI (XO (XI (XI XH))))))))))),
    (Npos (XI (XI (XI (XO (XO (XO XH)))))))), (Npos (XI (XI (XO XH))))),
    (Npos (XI (XI (XI (XO (XI (XO (XO (XO (XO (XI
    XH)))))))))))) :: ((((((Npos (XI (XO (XO (XI (XI (XO (XO (XO (XO (XI
    XH))))))))))), (Npos (XI (XI (XI (XI (XI (XO (XI (XI (XO XH))))))))))),
    (Npos (XI (XO (XO (XI (XO (XO XH)))))))), (Npos (XI (XI (XO XH))))),
    (Npos (XI (XI (XI (XI (XO (XI (XO (XO (XO (XI
    XH)))))))))))) :: ((((((Npos (XI (XI (XO (XI (XO (XI (XO (XO (XO (XI
    XH))))))))))), (Npos (XO (XI (XO (XO (XO (XI (XI (XO (XI XH))))))))))),
    (Npos (XI (XO (XO (XI (XO (XO XH)))))))), (Npos (XI (XI (XO XH))))),
    (Npos (XI (XO (XO (XO (XO (XO (XI (XO (XO (XI
    XH)))))))))))) :: ((((((Npos (XO (XO (XO (XO (XO (XO (XI (XO (XO (XI
    XH))))))))))), (Npos (XI (XI (XO (XI (XO (XO (XI XH))))))))), (Npos (XI
    (XO (XO (XI (XO (XO XH)))))))), (Npos (XI (XI (XO XH))))), (Npos (XI (XO
    (XI (XO (XI (XO (XI (XO (XO (XI XH)))))))))))) :: ((((((Npos (XO (XO (XO
    (XO (XI (XO (XI (XO (XO (XI XH))))))))))), (Npos (XI (XI (XO (XO (XI (XO
    XH)))))))), (Npos (XI (XO (XO (XI (XO (XO XH)))))))), (Npos (XI (XI (XO
    XH))))), (Npos (XI (XO (XI (XO (XO (XI (XI (XO (XO (XI
    XH)))))))))))) :: ((((((Npos (XI (XO (XO (XO (XI (XI (XI (XO (XO (XI
    XH))))))))))), (Npos (XO (XI (XI XH))))), (Npos (XI (XO (XO (XI (XO (XO
    XH)))))))), (Npos (XI (XI (XO XH))))), (Npos (XI (XO (XI (XO (XO (XO (XO
    (XI (XO (XI XH)))))))))))) :: ((((((Npos (XI (XO (XO (XI (XO (XO (XO (XI
    (XO (XI XH))))))))))), (Npos (XO (XI (XO (XI (XO (XO (XO (XO (XO
    XH))))))))))), (Npos (XI (XI (XI (XI (XO (XO XH)))))))), (Npos (XI (XI
    (XO XH))))), (Npos (XI (XI (XO (XO (XO (XI (XO (XI (XO (XI
    XH)))))))))))) :: ((((((Npos (XO (XI (XO (XO (XO (XI (XO (XI (XO (XI
    XH))))))))))), (Npos (XO (XI (XO (XO (XO (XI (XI XH))))))))), (Npos (XI
    (XI (XI (XI (XO (XO XH)))))))), (Npos (XI (XI (XO XH))))), (Npos (XI (XI
    (XO (XI (XI (XI (XO (XI (XO (XI XH)))))))))))) :: ((((((Npos (XO (XO (XI
    (XO (XI (XI (XO (XI (XO (XI XH))))))))))), (Npos (XO (XI (XO (XI (XI (XO
    (XO (XO XH)))))))))), (Npos (XI (XI (XI (XI (XO (XO XH)))))))), (Npos (XI
    (XI (XO XH))))), (Npos (XI (XO (XI (XI (XO (XO (XI (XI (XO (XI
    XH)))))))))))) :: ((((((Npos (XO (XI (XI (XO (XO (XO (XI (XI (XO (XI
    XH))))))))))), (Npos (XO (XO (XO (XI (XI (XO XH)))))))), (Npos (XI (XI
    (XI (XI (XO (XO XH)))))))), (Npos (XI (XI (XO XH))))), (Npos (XI (XI (XI
    (XI (XI (XO (XI (XI (XO (XI XH)))))))))))) :: ((((((Npos (XI (XI (XI (XI
    (XI (XO (XI (XI (XO (XI XH))))))))))), (Npos (XO (XO (XI (XI (XI (XI (XI
    (XO (XO XH))))))))))), (Npos (XI (XI (XI (XI (XO (XO XH)))))))), (Npos
    (XI (XI (XO XH))))), (Npos (XI (XI (XI (XO (XI (XI (XI (XI (XO (XI
    XH)))))))))))) :: ((((((Npos (XI (XO (XO (XO (XI (XI (XI (XI (XO (XI
    XH))))))))))), (Npos (XO (XO (XI (XI (XI (XO (XI (XO (XI XH))))))))))),
    (Npos (XI (XI (XI (XI (XO (XO XH)))))))), (Npos (XI (XI (XO XH))))),
    (Npos (XI (XO (XO (XI (XO (XO (XO (XO (XI (XI
    XH)))))))))))) :: ((((((Npos (XO (XO (XO (XI (XO (XO (XO (XO (XI (XI
    XH))))))))))), (Npos (XO (XO (XI (XO (XO (XO (XI (XO XH)))))))))), (Npos
    (XI (XI (XI (XI (XO (XO XH)))))))), (Npos (XI (XI (XO XH))))), (Npos (XI
    (XI (XI (XI (XI (XO (XO (XO (XI (XI XH)))))))))))) :: ((((((Npos (XO (XO
    (XO (XO (XO (XI (XO (XO (XI (XI XH))))))))))), (Npos (XO (XO (XO (XI (XO
    (XI (XO (XI XH)))))))))), (Npos (XI (XI (XI (XI (XO (XO XH)))))))), (Npos
    (XI (XI (XO XH))))), (Npos (XI (XI (XI (XO (XI (XI (XO (XO (XI (XI
    XH)))))))))))) :: ((((((Npos (XO (XO (XI (XO (XI (XI (XO (XO (XI (XI
    XH))))))))))), (Npos (XI (XI (XI (XO (XO (XI (XI (XI (XI XH))))))))))),
    (Npos (XI (XI (XI (XI (XO (XO XH)))))))), (Npos (XI (XI (XO XH))))),
    (Npos (XI (XI (XO (XI (XO (XO (XI (XO (XI (XI
    XH)))))))))))) :: ((((((Npos (XI (XI (XI (XO (XO (XO (XI (XO (XI (XI
    XH))))))))))), (Npos (XO (XI (XO (XI (XO (XI (XO (XI (XO XH))))))))))),
    (Npos (XI (XI (XO (XO (XI (XO XH)))))))), (Npos (XI (XI (XO XH))))),
    (Npos (XI (XO (XO (XO (XO (XI (XI (XO (XI (XI
    XH)))))))))))) :: ((((((Npos (XI (XI (XI (XI (XI (XO (XI (XO (XI (XI
    XH))))))))))), (Npos (XO (XI (XI (XI (XO (XI (XO (XO (XI XH))))))))))),
    (Npos (XI (XI (XO (XO (XI (XO XH)))))))), (Npos (XI (XI (XO XH))))),
    (Npos (XI (XO (XO (XI (XI (XI (XI (XO (XI (XI
    XH)))))))))))) :: ((((((Npos (XO (XI (XO (XO (XI (XI (XI (XO (XI (XI
    XH))))))))))), (Npos (XI (XI (XO (XO (XI (XO (XI (XI (XI XH))))))))))),
    (Npos (XI (XI (XO (XO (XI (XO XH)))))))), (Npos (XI (XI (XO XH))))),
    (Npos (XI (XI (XO (XI (XO (XO (XO (XI (XI (XI
    XH)))))))))))) :: ((((((Npos (XO (XI (XI (XO (XO (XO (XO (XI (XI (XI
    XH))))))))))), (Npos (XO (XI (XO (XI (XI (XO (XO (XO (XO XH))))))))))),
    (Npos (XI (XI (XO (XO (XI (XO XH)))))))), (Npos (XI (XI (XO XH))))),
    (Npos (XI (XI (XI (XI (XI (XO (XO (XI (XI (XI
    XH)))))))))))) :: ((((((Npos (XO (XI (XO (XO (XO (XI (XO (XI (XI (XI
    XH))))))))))), (Npos (XO (XI (XI (XO (XI (XO (XO (XO XH)))))))))), (Npos
    (XI (XI (XO (XO (XI (XO XH)))))))), (Npos (XI (XI (XO XH))))), (Npos (XI
    (XI (XO (XI (XI (XI (XO (XI (XI (XI XH)))))))))))) :: ((((((Npos (XI (XI
    (XO (XI (XI (XI (XO (XI (XI (XI XH))))))))))), (Npos (XO (XO (XI (XO (XO
    (XO (XI (XO (XO XH))))))))))), (Npos (XI (XI (XO (XO (XI (XO XH)))))))),
    (Npos (XI (XI (XO XH))))), (Npos (XI (XI (XO (XO (XI (XO (XI (XI (XI (XI
    XH)))))))))))) :: ((((((Npos (XI (XO (XI (XO (XI (XO (XI (XI (XI (XI
    XH))))))))))), (Npos (XI (XO (XI (XO (XO (XO (XO (XO (XI XH))))))))))),
    (Npos (XI (XI (XO (XO (XI (XO XH)))))))), (Npos (XI (XI (XO XH))))),
    (Npos (XI (XO (XI (XI (XO (XI (XI (XI (XI (XI
    XH)))))))))))) :: ((((((Npos (XO (XO (XO (XI (XI (XI (XI (XI (XI (XI
    XH))))))))))), (Npos (XI (XI (XI (XI (XO (XO (XO (XI (XI XH))))))))))),
    (Npos (XI (XO (XO (XI (XI (XO XH)))))))), (Npos (XI (XI (XO XH))))),
    (Npos (XI (XO (XI (XO (XI (XO (XO (XO (XO (XO (XO
    XH))))))))))))) :: ((((((Npos (XO (XI (XI (XO (XI (XO (XO (XO (XO (XO (XO
    XH)))))))))))), (Npos (XO (XI (XO (XI (XI (XI (XI (XI XH)))))))))), (Npos
    (XI (XO (XO (XI (XI (XO XH)))))))), (Npos (XI (XI (XO XH))))), (Npos (XI
    (XI (XO (XO (XI (XI (XO (XO (XO (XO (XO XH))))))))))))) :: ((((((Npos (XI
    (XI (XI (XO (XI (XI (XO (XO (XO (XO (XO XH)))))))))))), (Npos (XO (XO (XI
    (XO (XI (XI (XI (XO (XO XH))))))))))), (Npos (XI (XO (XO (XI (XI (XO
    XH)))))))), (Npos (XI (XI (XO XH))))), (Npos (XI (XI (XO (XO (XI (XO (XI
    (XO (XO (XO (XO XH))))))))))))) :: ((((((Npos (XI (XO (XI (XI (XO (XO (XI
    (XO (XO (XO (XO XH)))))))))))), (Npos (XO (XI (XO (XI (XI (XO (XO (XO
    XH)))))))))), (Npos (XI (XO (XO (XI (XI (XO XH)))))))), (Npos (XI (XI (XO
    XH))))), (Npos (XI (XO (XO (XI (XO (XI (XI (XO (XO (XO (XO
    XH))))))))))))) :: ((((((Npos (XO (XO (XO (XI (XO (XI (XI (XO (XO (XO (XO
    XH)))))))))))), (Npos (XI (XO (XI (XO (XI (XI (XO (XO XH)))))))))), (Npos
    (XI (XO (XO (XI (XI (XO XH)))))))), (Npos (XI (XI (XO XH))))), (Npos (XI
    (XI (XO (XO (XO (XO (XO (XI (XO (XO (XO XH))))))))))))) :: ((((((Npos (XI
    (XI (XO (XO (XI (XO (XO (XI (XO (XO (XO XH)))))))))))), (Npos (XO (XI (XO
    (XI (XI (XO (XI (XO (XI XH))))))))))), (Npos (XI (XO (XO (XI (XI (XO
    XH)))))))), (Npos (XI (XI (XO XH))))), (Npos (XI (XO (XI (XI (XO (XI (XO
    (XI (XO (XO (XO XH))))))))))))) :: ((((((Npos (XI (XO (XO (XI (XO (XI (XO
    (XI (XO (XO (XO XH)))))))))))), (Npos (XO (XI (XO (XI (XI (XI (XO (XI
    XH)))))))))), (Npos (XI (XO (XO (XI (XI (XO XH)))))))), (Npos (XI (XI (XO
    XH))))), (Npos (XI (XI (XO (XO (XO (XO (XI (XI (XO (XO (XO
    XH))))))))))))) :: ((((((Npos (XI (XI (XI (XO (XO (XO (XI (XI (XO (XO (XO
    XH)))))))))))), (Npos (XO (XI (XI (XI (XO (XO (XO (XI (XO XH))))))))))),
    (Npos (XI (XO (XO (XI (XI (XO XH)))))))), (Npos (XI (XI (XO XH))))),
    (Npos (XI (XO (XO (XO (XO (XI (XI (XI (XO (XO (XO
    XH))))))))))))) :: ((((((Npos (XO (XI (XI (XO (XO (XI (XI (XI (XO (XO (XO
    XH)))))))))))), (Npos (XO (XI (XO (XO (XI (XO XH)))))))), (Npos (XI (XO
    (XO (XO (XO (XI XH)))))))), (Npos (XI (XI (XO XH))))), (Npos (XI (XI (XI
    (XO (XO (XO (XO (XO (XI (XO (XO XH))))))))))))) :: ((((((Npos (XI (XI (XO
    (XI (XO (XO (XO (XO (XI (XO (XO XH)))))))))))), (Npos (XO (XO (XI (XI (XO
    (XI (XO (XI XH)))))))))), (Npos (XI (XO (XO (XO (XO (XI XH)))))))), (Npos
    (XI (XI (XO XH))))), (Npos (XI (XI (XO (XI (XO (XI (XO (XO (XI (XO (XO
    XH))))))))))))) :: ((((((Npos (XI (XI (XO (XO (XO (XI (XO (XO (XI (XO (XO
    XH)))))))))))), (Npos (XO (XI (XO (XI (XI (XI (XO (XI XH)))))))))), (Npos
    (XI (XO (XO (XO (XO (XI XH)))))))), (Npos (XI (XI (XO XH))))), (Npos (XI
    (XI (XO (XO (XO (XO (XI (XO (XI (XO (XO XH))))))))))))) :: ((((((Npos (XI
    (XI (XI (XI (XI (XI (XO (XO (XI (XO (XO XH)))))))))))), (Npos (XI (XI (XO
    (XI (XI (XO (XO (XO XH)))))))))), (Npos (XI (XO (XO (XO (XO (XI
    XH)))))))), (Npos (XI (XI (XO XH))))), (Npos (XI (XI (XI (XI (XI (XO (XI
    (XO (XI (XO (XO XH))))))))))))) :: ((((((Npos (XO (XO (XO (XI (XI (XO (XI
    (XO (XI (XO (XO XH)))))))))))), (Npos (XO (XI (XO (XI (XI (XO (XO (XO (XO
    XH))))))))))), (Npos (XI (XO (XO (XO (XO (XI XH)))))))), (Npos (XI (XI
    (XO XH))))), (Npos (XI (XI (XI (XO (XI (XI (XI (XO (XI (XO (XO
    XH))))))))))))) :: ((((((Npos (XO (XO (XO (XO (XI (XI (XI (XO (XI (XO (XO
    XH)))))))))))), (Npos (XI (XO (XI (XI (XI (XI (XO XH))))))))), (Npos (XI
    (XO (XO (XO (XO (XI XH)))))))), (Npos (XI (XI (XO XH))))), (Npos (XI (XI
    (XI (XI (XO (XO (XO (XI (XI (XO (XO XH))))))))))))) :: ((((((Npos (XI (XI
    (XI (XI (XO (XO (XO (XI (XI (XO (XO XH)))))))))))), (Npos (XO (XI (XI (XO
    (XI (XI (XO (XI XH)))))))))), (Npos (XI (XO (XO (XO (XO (XI XH)))))))),
    (Npos (XI (XI (XO XH))))), (Npos (XI (XO (XI (XI (XO (XI (XO (XI (XI (XO
    (XO XH))))))))))))) :: ((((((Npos (XI (XO (XO (XI (XO (XI (XO (XI (XI (XO
    (XO XH)))))))))))), (Npos (XO (XO (XO (XO (XI (XO (XO (XI (XI
    XH))))))))))), (Npos (XI (XO (XO (XO (XO (XI XH)))))))), (Npos (XI (XI
    (XO XH))))), (Npos (XI (XI (XI (XO (XO (XO (XI (XI (XI (XO (XO
    XH))))))))))))) :: ((((((Npos (XO (XI (XI (XO (XO (XO (XI (XI (XI (XO (XO
    XH)))))))))))), (Npos XH)), (Npos (XI (XO (XO (XO (XO (XI XH)))))))),
    (Npos (XI (XI (XO XH))))), (Npos (XI (XI (XO (XO (XO (XI (XI (XI (XI (XO
    (XO XH))))))))))))) :: ((((((Npos (XO (XO (XO (XO (XO (XI (XI (XI (XI (XO
    (XO XH)))))))))))), (Npos (XI (XI (XI (XO (XO (XI (XO XH))))))))), (Npos
    (XI (XO (XO (XO (XO (XI XH)))))))), (Npos (XI (XI (XO XH))))), (Npos (XI
    (XO (XI (XI (XI (XI (XI (XI (XI (XO (XO XH))))))))))))) :: ((((((Npos (XI
    (XO (XI (XO (XO (XO (XO (XO (XO (XI (XO XH)))))))))))), (Npos (XO (XO (XO
    (XO (XI (XO (XO (XO XH)))))))))), (Npos (XI (XO (XO (XO (XO (XI
    XH)))))))), (Npos (XI (XI (XO XH))))), (Npos (XI (XO (XO (XO (XO (XI (XO
    (XO (XO (XI (XO XH))))))))))))) :: ((((((Npos (XI (XO (XO (XI (XO (XI (XO
    (XO (XO (XI (XO XH)))))))))))), (Npos (XI (XO (XO (XO (XI (XO (XI
    XH))))))))), (Npos (XI (XO (XI (XO (XO (XI XH)))))))), (Npos (XI (XI (XO
    XH))))), (Npos (XI (XO (XO (XI (XO (XO (XI (XO (XO (XI (XO
    XH))))))))))))) :: ((((((Npos (XO (XO (XO (XO (XI (XO (XI (XO (XO (XI (XO
    XH)))))))))))), (Npos (XI (XI (XI (XI (XI (XO (XO (XI (XI XH))))))))))),
    (Npos (XI (XO (XI (XO (XO (XI XH)))))))), (Npos (XI (XI (XO XH))))),
    (Npos (XI (XI (XI (XI (XO (XI (XI (XO (XO (XI (XO
    XH))))))))))))) :: ((((((Npos (XO (XO (XI (XI (XO (XI (XI (XO (XO (XI (XO
    XH)))))))))))), (Npos (XO (XI (XO (XO (XO (XO (XO (XI XH)))))))))), (Npos
    (XI (XO (XI (XO (XO (XI XH)))))))), (Npos (XI (XI (XO XH))))), (Npos (XI
    (XI (XO (XI (XO (XO (XO (XI (XO (XI (XO XH))))))))))))) :: ((((((Npos (XI
    (XO (XI (XI (XO (XO (XO (XI (XO (XI (XO XH)))))))))))), (Npos (XI (XO (XI
    (XI (XO (XO (XO (XI (XO XH))))))))))), (Npos (XI (XO (XI (XO (XO (XI
    XH)))))))), (Npos (XI (XI (XO XH))))), (Npos (XI (XI (XO (XI (XO (XI (XO
    (XI (XO (XI (XO XH))))))))))))) :: ((((((Npos (XI (XO (XO (XO (XI (XI (XO
    (XI (XO (XI (XO XH)))))))))))), (Npos (XI (XO (XI (XI (XI (XO (XO (XI (XO
    XH))))))))))), (Npos (XI (XO (XI (XO (XO (XI XH)))))))), (Npos (XI (XI
    (XO XH))))), (Npos (XI (XI (XI (XI (XO (XO (XI (XI (XO (XI (XO
    XH))))))))))))) :: ((((((Npos (XO (XO (XI (XO (XI (XO (XI (XI (XO (XI (XO
    XH)))))))))))), (Npos (XI (XI (XI (XI (XO (XI (XO (XI XH)))))))))), (Npos
    (XI (XO (XI (XO (XO (XI XH)))))))), (Npos (XI (XI (XO XH))))), (Npos (XI
    (XO (XO (XO (XI (XI (XI (XI (XO (XI (XO XH))))))))))))) :: ((((((Npos (XO
    (XI (XO (XO (XI (XI (XI (XI (XO (XI (XO XH)))))))))))), (Npos (XI (XO (XO
    (XI (XI (XO (XO (XO (XI XH))))))))))), (Npos (XI (XI (XI (XO (XO (XI
    XH)))))))), (Npos (XI (XI (XO XH))))), (Npos (XI (XO (XO (XO (XI (XO (XO
    (XO (XI (XI (XO XH))))))))))))) :: ((((((Npos (XI (XI (XI (XI (XO (XO (XO
    (XO (XI (XI (XO XH)))))))))))), (Npos (XO (XO (XI (XI (XO (XO (XI (XO (XO
    XH))))))))))), (Npos (XI (XI (XI (XO (XO (XI XH)))))))), (Npos (XI (XI
    (XO XH))))), (Npos (XI (XO (XI (XI (XO (XI (XO (XO (XI (XI (XO
    XH))))))))))))) :: ((((((Npos (XI (XI (XO (XI (XI (XI (XO (XO (XI (XI (XO
    XH)))))))))))), (Npos (XI (XO (XO (XI (XO (XO (XO (XO (XI XH))))))))))),
    (Npos (XI (XI (XO (XI (XO (XI XH)))))))), (Npos (XI (XI (XO XH))))),
    (Npos (XI (XO (XI (XI (XI (XO (XI (XO (XI (XI (XO
    XH))))))))))))) :: ((((((Npos (XO (XI (XO (XI (XI (XO (XI (XO (XI (XI (XO
    XH)))))))))))), (Npos (XI (XI (XO (XI (XO (XI (XO (XI (XI XH))))))))))),
    (Npos (XI (XI (XO (XI (XO (XI XH)))))))), (Npos (XI (XI (XO XH))))),
    (Npos (XI (XI (XO (XI (XI (XI (XI (XO (XI (XI (XO
    XH))))))))))))) :: ((((((Npos (XO (XI (XO (XI (XI (XI (XI (XO (XI (XI (XO
    XH)))))))))))), (Npos (XO (XO (XO (XO (XO (XI (XI (XO (XI XH))))))))))),
    (Npos (XI (XI (XO (XI (XO (XI XH)))))))), (Npos (XI (XI (XO XH))))),
    (Npos (XI (XI (XO (XI (XI (XO (XO (XI (XI (XI (XO
    XH))))))))))))) :: ((((((Npos (XI (XI (XO (XO (XO (XI (XO (XI (XI (XI (XO
    XH)))))))))))), (Npos (XI (XI (XO (XO (XI (XI (XI (XO (XO XH))))))))))),
    (Npos (XI (XI (XO (XI (XO (XI XH)))))))), (Npos (XI (XI (XO XH))))),
    (Npos (XI (XI (XO (XO (XO (XO (XI (XI (XI (XI (XO
    XH))))))))))))) :: ((((((Npos (XI (XI (XI (XO (XO (XO (XI (XI (XI (XI (XO
    XH)))))))))))), (Npos (XI (XO (XO (XI (XO (XO (XO (XO XH)))))))))), (Npos
    (XI (XO (XI (XI (XO (XI XH)))))))), (Npos (XI (XI (XO XH))))), (Npos (XI
    (XO (XO (XI (XO (XI (XI (XI (XI (XI (XO XH))))))))))))) :: ((((((Npos (XO
    (XO (XO (XO (XI (XI (XI (XI (XI (XI (XO XH)))))))))))), (Npos (XO (XO (XO
    (XO (XI (XO (XI (XI (XI XH))))))))))), (Npos (XI (XO (XI (XI (XO (XI
    XH)))))))), (Npos (XI (XI (XO XH))))), (Npos (XI (XO (XO (XO (XI (XO (XO
    (XO (XO (XO (XI XH))))))))))))) :: ((((((Npos (XI (XO (XI (XI (XI (XO (XO
    (XO (XO (XO (XI XH)))))))))))), (Npos (XO (XO (XI (XI (XI (XO (XI (XI (XI
    XH))))))))))), (Npos (XI (XO (XO (XO (XI (XI XH)))))))), (Npos (XI (XI
    (XO XH))))), (Npos (XI (XO (XO (XO (XO (XO (XI (XO (XO (XO (XI
    XH))))))))))))) :: ((((((Npos (XI (XI (XI (XI (XO (XO (XI (XO (XO (XO (XI
    XH)))))))))))), (Npos (XI (XI (XO (XI (XI (XI (XI (XI XH)))))))))), (Npos
    (XI (XO (XO (XO (XI (XI XH)))))))), (Npos (XI (XI (XO XH))))), (Npos (XI
    (XI (XO (XO (XI (XI (XI (XO (XO (XO (XI XH))))))))))))) :: ((((((Npos (XO
    (XI (XO (XO (XI (XI (XI (XO (XO (XO (XI XH)))))))))))), (Npos (XO (XO (XO
    (XO (XO (XO (XO (XI (XO XH))))))))))), (Npos (XI (XO (XO (XO (XI (XI
    XH)))))))), (Npos (XI (XI (XO XH))))), (Npos (XI (XO (XI (XO (XI (XO (XO
    (XI (XO (XO (XI XH))))))))))))) :: ((((((Npos (XO (XO (XO (XI (XI (XO (XO
    (XI (XO (XO (XI XH)))))))))))), (Npos (XI (XI (XI XH))))), (Npos (XI (XO
    (XO (XO (XI (XI XH)))))))), (Npos (XI (XI (XO XH))))), (Npos (XI (XI (XO
    (XI (XI (XI (XO (XI (XO (XO (XI XH))))))))))))) :: ((((((Npos (XI (XO (XO
    (XO (XO (XO (XI (XI (XO (XO (XI XH)))))))))))), (Npos (XI (XI (XO (XI (XI
    (XO (XO (XI (XO XH))))))))))), (Npos (XI (XO (XO (XO (XI (XI XH)))))))),
    (Npos (XI (XI (XO XH))))), (Npos (XI (XI (XO (XO (XO (XI (XI (XI (XO (XO
    (XI XH))))))))))))) :: ((((((Npos (XI (XI (XO (XO (XO (XI (XI (XI (XO (XO
    (XI XH)))))))))))), (Npos (XO (XO (XO (XI XH)))))), (Npos (XI (XI (XI (XI
    (XI (XI XH)))))))), (Npos (XI (XI (XO XH))))), (Npos (XI (XI (XO (XO (XI
    (XO (XO (XO (XI (XO (XI XH))))))))))))) :: ((((((Npos (XO (XO (XO (XO (XI
    (XO (XO (XO (XI (XO (XI XH)))))))))))), (Npos (XI (XO (XI (XI (XO (XI (XI
    (XO (XI XH))))))))))), (Npos (XI (XI (XI (XI (XI (XI XH)))))))), (Npos
    (XI (XI (XO XH))))), (Npos (XI (XI (XI (XI (XI (XI (XO (XO (XI (XO (XI
    XH))))))))))))) :: ((((((Npos (XI (XI (XO (XI (XI (XI (XO (XO (XI (XO (XI
    XH)))))))))))), (Npos (XO (XO (XO (XO (XI (XI (XI XH))))))))), (Npos (XI
    (XI (XI (XI (XI (XI XH)))))))), (Npos (XI (XI (XO XH))))), (Npos (XI (XO
    (XO (XI (XO (XI (XI (XO (XI (XO (XI XH))))))))))))) :: ((((((Npos (XI (XI
    (XI (XI (XI (XO (XI (XO (XI (XO (XI XH)))))))))))), (Npos (XO (XO (XO (XO
    (XI (XO (XI (XI (XO XH))))))))))), (Npos (XI (XI (XI (XI (XI (XI
    XH)))))))), (Npos (XI (XI (XO XH))))), (Npos (XI (XO (XI (XI (XO (XO (XO
    (XI (XI (XO (XI XH))))))))))))) :: ((((((Npos (XO (XI (XO (XI (XO (XO (XO
    (XI (XI (XO (XI XH)))))))))))), (Npos (XI (XO (XI (XI (XI (XO XH)))))))),
    (Npos (XI (XI (XI (XI (XI (XI XH)))))))), (Npos (XI (XI (XO XH))))),
    (Npos (XI (XI (XI (XO (XI (XI (XO (XI (XI (XO (XI
    XH))))))))))))) :: ((((((Npos (XO (XI (XI (XI (XO (XI (XO (XI (XI (XO (XI
    XH)))))))))))), (Npos (XI (XI (XI (XO (XI (XO (XO (XI (XI XH))))))))))),
    (Npos (XI (XI (XI (XI (XI (XI XH)))))))), (Npos (XI (XI (XO XH))))),
    (Npos (XI (XI (XO (XI (XI (XO (XI (XI (XI (XO (XI
    XH))))))))))))) :: ((((((Npos (XI (XI (XO (XO (XI (XO (XI (XI (XI (XO (XI
    XH)))))))))))), (Npos (XI (XI (XO (XI (XI (XI (XI (XO (XO XH))))))))))),
    (Npos (XI (XI (XI (XI (XI (XI XH)))))))), (Npos (XI (XI (XO XH))))),
    (Npos (XI (XI (XI (XI (XI (XI (XI (XI (XI (XO (XI
    XH))))))))))))) :: ((((((Npos (XI (XI (XO (XI (XI (XI (XI (XI (XI (XO (XI
    XH)))))))))))), (Npos (XO (XI (XI (XI (XO (XI (XO XH))))))))), (Npos (XI
    (XI (XI (XI (XI (XI XH)))))))), (Npos (XI (XI (XO XH))))), (Npos (XI (XI
    (XI (XO (XO (XI (XO (XO (XO (XI (XI XH))))))))))))) :: ((((((Npos (XO (XO
    (XO (XO (XO (XI (XO (XO (XO (XI (XI XH)))))))))))), (Npos (XI (XI (XI (XO
    (XO (XO (XO (XI (XO XH))))))))))), (Npos (XI (XI (XI (XI (XI (XI
    XH)))))))), (Npos (XI (XI (XO XH))))), (Npos (XI (XI (XO (XI (XO (XO (XI
    (XO (XO (XI (XI XH))))))))))))) :: ((((((Npos (XO (XI (XO (XI (XO (XO (XI
    (XO (XO (XI (XI XH)))))))))))), (Npos (XO (XO (XI (XO (XI (XI (XO (XO (XI
    XH))))))))))), (Npos (XI (XI (XI (XI (XI (XI XH)))))))), (Npos (XI (XI
    (XO XH))))), (Npos (XI (XO (XI (XO (XI (XI (XI (XO (XO (XI (XI
    XH))))))))))))) :: ((((((Npos (XI (XO (XO (XO (XI (XI (XI (XO (XO (XI (XI
    XH)))))))))))), (Npos (XO (XO (XO (XI (XI XH))))))), (Npos (XI (XI (XI
    (XI (XI (XI XH)))))))), (Npos (XI (XI (XO XH))))), (Npos (XI (XI (XO (XI
    (XI (XO (XO (XI (XO (XI (XI XH))))))))))))) :: ((((((Npos (XI (XI (XI (XO
    (XO (XI (XO (XI (XO (XI (XI XH)))))))))))), (Npos (XI (XO (XI (XO (XO (XI
    (XI (XI XH)))))))))), (Npos (XI (XI (XI (XI (XI (XI XH)))))))), (Npos (XI
    (XI (XO XH))))), (Npos (XI (XO (XO (XO (XI (XO (XI (XI (XO (XI (XI
    XH))))))))))))) :: ((((((Npos (XO (XO (XO (XO (XI (XO (XI (XI (XO (XI (XI
    XH)))))))))))), (Npos (XO (XI (XO (XO (XI (XO (XI XH))))))))), (Npos (XI
    (XI (XI (XI (XI (XI XH)))))))), (Npos (XI (XI (XO XH))))), (Npos (XI (XO
    (XO (XI (XI (XI (XI (XI (XO (XI (XI XH))))))))))))) :: ((((((Npos (XO (XO
    (XO (XO (XO (XO (XO (XO (XI (XI (XI XH)))))))))))), (Npos (XO (XO (XI (XI
    (XI (XI XH)))))))), (Npos (XI (XI (XI (XI (XI (XI XH)))))))), (Npos (XI
    (XI (XO XH))))), (Npos (XI (XO (XO (XI (XO (XI (XO (XO (XI (XI (XI
    XH))))))))))))) :: ((((((Npos (XI (XI (XO (XI (XO (XI (XO (XO (XI (XI (XI
    XH)))))))))))), (Npos (XO (XI (XO (XO (XO (XI (XO (XO (XO XH))))))))))),
    (Npos (XI (XI (XI (XI (XI (XI XH)))))))), (Npos (XI (XI (XO XH))))),
    (Npos (XI (XI (XO (XO (XI (XO (XI (XO (XI (XI (XI
    XH))))))))))))) :: ((((((Npos (XO (XO (XI (XO (XI (XO (XI (XO (XI (XI (XI
    XH)))))))))))), (Npos (XO (XI (XO (XI (XI (XI (XO (XI (XI XH))))))))))),
    (Npos (XI (XI (XO (XO (XO (XO (XO XH))))))))), (Npos (XI (XI (XO XH))))),
    (Npos (XI (XI (XI (XI (XI (XI (XI (XO (XI (XI (XI
    XH))))))))))))) :: ((((((Npos (XO (XI (XO (XO (XO (XO (XO (XI (XI (XI (XI
    XH)))))))))))), (Npos (XO (XI (XI (XO (XO (XO (XO (XO XH)))))))))), (Npos
    (XI (XI (XO (XO (XO (XO (XO XH))))))))), (Npos (XI (XI (XO XH))))), (Npos
    (XI (XO (XI (XI (XO (XI (XO (XI (XI (XI (XI XH))))))))))))) :: ((((((Npos
    (XI (XI (XI (XI (XO (XI (XO (XI (XI (XI (XI XH)))))))))))), (Npos (XI (XI
    (XI (XI (XI (XO (XO (XI (XI XH))))))))))), (Npos (XI (XI (XO (XO (XO (XO
    (XO XH))))))))), (Npos (XI (XI (XO XH))))), (Npos (XI (XO (XO (XI (XI (XO
    (XI (XI (XI (XI (XI XH))))))))))))) :: ((((((Npos (XI (XO (XI (XO (XO (XI
    (XI (XI (XI (XI (XI XH)))))))))))), (Npos (XI (XO (XI (XI (XI (XI (XO (XI
    (XI XH))))))))))), (Npos (XI (XI (XO (XO (XO (XO (XO XH))))))))), (Npos
    (XI (XI (XO XH))))), (Npos (XI (XI (XI (XI (XO (XO (XO (XO (XO (XO (XO
    (XO XH)))))))))))))) :: ((((((Npos (XO (XO (XO (XO (XI (XO (XO (XO (XO
    (XO (XO (XO XH))))))))))))), (Npos (XO (XI (XI (XO (XI (XO (XI (XI (XO
    XH))))))))))), (Npos (XI (XO (XO (XI (XO (XO (XO XH))))))))), (Npos (XI
    (XI (XO XH))))), (Npos (XI (XI (XI (XI (XI (XI (XO (XO (XO (XO (XO (XO
    XH)))))))))))))) :: ((((((Npos (XI (XO (XI (XO (XO (XO (XI (XO (XO (XO
    (XO (XO XH))))))))))))), (Npos (XI (XI (XI (XO (XO (XO (XI (XO (XO
    XH))))))))))), (Npos (XI (XO (XO (XI (XO (XO (XO XH))))))))), (Npos (XI
    (XI (XO XH))))), (Npos (XI (XI (XO (XO (XI (XI (XI (XO (XO (XO (XO (XO
    XH)))))))))))))) :: ((((((Npos (XI (XI (XI (XI (XO (XI (XI (XO (XO (XO
    (XO (XO XH))))))))))))), (Npos (XO (XI (XI (XI (XO (XO (XO (XO (XI
    XH))))))))))), (Npos (XI (XO (XO (XI (XO (XO (XO XH))))))))), (Npos (XI
    (XI (XO XH))))), (Npos (XI (XO (XI (XI (XI (XO (XO (XI (XO (XO (XO (XO
    XH)))))))))))))) :: ((((((Npos (XO (XO (XI (XI (XI (XO (XO (XI (XO (XO
    (XO (XO XH))))))))))))), (Npos (XI (XO (XI (XO (XO XH))))))), (Npos (XI
    (XO (XO (XI (XO (XO (XO XH))))))))), (Npos (XI (XI (XO XH))))), (Npos (XI
    (XO (XO (XI (XO (XO (XI (XI (XO (XO (XO (XO
    XH)))))))))))))) :: ((((((Npos (XO (XI (XI (XI (XI (XO (XI (XI (XO (XO
    (XO (XO XH))))))))))))), (Npos (XO (XI (XI (XO (XI (XI (XI (XI (XO
    XH))))))))))), (Npos (XI (XO (XO (XI (XO (XO (XO XH))))))))), (Npos (XI
    (XI (XO XH))))), (Npos (XI (XI (XO (XI (XO (XO (XO (XO (XI (XO (XO (XO
    XH)))))))))))))) :: ((((((Npos (XI (XO (XI (XI (XO (XO (XO (XO (XI (XO
    (XO (XO XH))))))))))))), (Npos (XI (XO (XO (XI (XO (XO (XO (XO (XI
    XH))))))))))), (Npos (XI (XO (XO (XI (XO (XO (XO XH))))))))), (Npos (XI
    (XI (XO XH))))), (Npos (XI (XO (XO (XI (XI (XI (XO (XO (XI (XO (XO (XO
    XH)))))))))))))) :: ((((((Npos (XO (XI (XO (XO (XO (XO (XI (XO (XI (XO
    (XO (XO XH))))))))))))), (Npos (XO (XO (XO (XI (XO (XI XH)))))))), (Npos
    (XI (XI (XO (XI (XO (XO (XO XH))))))))), (Npos (XI (XI (XO XH))))), (Npos
    (XI (XI (XI (XI (XO (XI (XI (XO (XI (XO (XO (XO
    XH)))))))))))))) :: ((((((Npos (XO (XO (XI (XO (XI (XI (XI (XO (XI (XO
    (XO (XO XH))))))))))))), (Npos (XO (XO (XI (XI (XI (XO (XI (XI
    XH)))))))))), (Npos (XI (XI (XO (XI (XO (XO (XO XH))))))))), (Npos (XI
    (XI (XO XH))))), (Npos (XI (XO (XO (XO (XO (XI (XO (XI (XI (XO (XO (XO
    XH)))))))))))))) :: ((((((Npos (XI (XO (XO (XO (XO (XI (XO (XI (XI (XO
    (XO (XO XH))))))))))))), (Npos (XI (XO (XO (XO (XI (XI XH)))))))), (Npos
    (XI (XO (XI (XO (XI (XO (XO XH))))))))), (Npos (XI (XI (XO XH))))), (Npos
    (XI (XI (XI (XO (XI (XO (XI (XI (XI (XO (XO (XO
    XH)))))))))))))) :: ((((((Npos (XI (XI (XI (XO (XI (XO (XI (XI (XI (XO
    (XO (XO XH))))))))))))), (Npos (XI (XO (XO (XI (XI (XI (XO (XO
    XH)))))))))), (Npos (XI (XO (XI (XO (XI (XO (XO XH))))))))), (Npos (XI
    (XI (XO XH))))), (Npos (XI (XO (XI (XI (XO (XO (XO (XO (XO (XI (XO (XO
    XH)))))))))))))) :: ((((((Npos (XO (XI (XO (XO (XI (XO (XO (XO (XO (XI
    (XO (XO XH))))))))))))), (Npos (XO (XI (XI (XO (XO (XI XH)))))))), (Npos
    (XI (XO (XI (XO (XI (XO (XO XH))))))))), (Npos (XI (XI (XO XH))))), (Npos
    (XI (XI (XI (XO (XO (XO (XI (XO (XO (XI (XO (XO
    XH)))))))))))))) :: ((((((Npos (XI (XO (XO (XI (XO (XO (XI (XO (XO (XI
    (XO (XO XH))))))))))))), (Npos (XI (XO (XI (XO (XI (XI (XI (XI
    XH)))))))))), (Npos (XI (XO (XI (XO (XI (XO (XO XH))))))))), (Npos (XI
    (XI (XO XH))))), (Npos (XI (XO (XI (XI (XI (XI (XI (XO (XO (XI (XO (XO
    XH)))))))))))))) :: ((((((Npos (XI (XI (XO (XI (XI (XI (XI (XO (XO (XI
    (XO (XO XH))))))))))))), (Npos (XO (XO (XI (XI (XO (XO (XI (XO
    XH)))))))))), (Npos (XI (XO (XI (XO (XI (XO (XO XH))))))))), (Npos (XI
    (XI (XO XH))))), (Npos (XI (XI (XI (XI (XO (XI (XO (XI (XO (XI (XO (XO
    XH)))))))))))))) :: ((((((Npos (XO (XO (XI (XI (XO (XI (XO (XI (XO (XI
    (XO (XO XH))))))))))))), (Npos (XO (XI (XO (XO (XI (XO (XO (XO (XI
    XH))))))))))), (Npos (XI (XO (XI (XO (XI (XO (XO XH))))))))), (Npos (XI
    (XI (XO XH))))), (Npos (XI (XI (XI (XI (XI (XO (XI (XI (XO (XI (XO (XO
    XH)))))))))))))) :: ((((((Npos (XO (XI (XI (XO (XO (XI (XI (XI (XO (XI
    (XO (XO XH))))))))))))), (Npos (XI (XI (XO (XO (XO (XI XH)))))))), (Npos
    (XI (XO (XI (XO (XI (XO (XO XH))))))))), (Npos (XI (XI (XO XH))))), (Npos
    (XI (XO (XO (XI (XI (XO (XO (XO (XI (XI (XO (XO
    XH)))))))))))))) :: ((((((Npos (XI (XO (XI (XO (XO (XI (XO (XO (XI (XI
    (XO (XO XH))))))))))))), (Npos (XO (XI (XO (XO (XI (XO (XO (XI (XO
    XH))))))))))), (Npos (XI (XO (XI (XO (XI (XO (XO XH))))))))), (Npos (XI
    (XI (XO XH))))), (Npos (XI (XI (XI (XO (XI (XO (XI (XO (XI (XI (XO (XO
    XH)))))))))))))) :: ((((((Npos (XO (XI (XO (XI (XI (XO (XI (XO (XI (XI
    (XO (XO XH))))))))))))), (Npos (XO (XI (XO (XI (XI (XO (XO (XO (XI
    XH))))))))))), (Npos (XI (XO (XI (XO (XI (XO (XO XH))))))))), (Npos (XI
    (XI (XO XH))))), (Npos (XI (XI (XO (XI (XO (XO (XO (XI (XI (XI (XO (XO
    XH)))))))))))))) :: ((((((Npos (XO (XO (XO (XO (XI (XO (XO (XI (XI (XI
    (XO (XO XH))))))))))))), (Npos (XI (XO (XI (XO (XO XH))))))), (Npos (XI
    (XI (XI (XO (XI (XO (XO XH))))))))), (Npos (XI (XI (XO XH))))), (Npos (XI
    (XI (XO (XO (XO (XO (XI (XI (XI (XI (XO (XO
    XH)))))))))))))) :: ((((((Npos (XI (XI (XI (XO (XO (XO (XI (XI (XI (XI
    (XO (XO XH))))))))))))), (Npos (XI (XI (XI (XO (XI (XO (XI (XI
    XH)))))))))), (Npos (XI (XI (XI (XO (XI (XO (XO XH))))))))), (Npos (XI
    (XI (XO XH))))), (Npos (XI (XO (XO (XI (XI (XI (XI (XI (XI (XI (XO (XO
    XH)))))))))))))) :: ((((((Npos (XO (XO (XI (XI (XI (XI (XI (XI (XI (XI
    (XO (XO XH))))))))))))), (Npos (XO (XI (XI (XI (XI (XO XH)))))))), (Npos
    (XI (XO (XI (XI (XI (XO (XO XH))))))))), (Npos (XI (XI (XO XH))))), (Npos
    (XI (XI (XO (XO (XI (XI (XO (XO (XO (XO (XI (XO
    XH)))))))))))))) :: ((((((Npos (XO (XO (XI (XO (XI (XI (XO (XO (XO (XO
    (XI (XO XH))))))))))))), (Npos (XI (XO (XO (XI (XO (XI (XI (XO (XI
    XH))))))))))), (Npos (XI (XO (XI (XI (XI (XO (XO XH))))))))), (Npos (XI
    (XI (XO XH))))), (Npos (XI (XI (XO (XI (XO (XI (XI (XO (XO (XO (XI (XO
    XH)))))))))))))) :: ((((((Npos (XI (XO (XO (XI (XO (XI (XI (XO (XO (XO
    (XI (XO XH))))))))))))), (Npos (XO (XI (XI (XO (XI (XO (XO (XI (XI
    XH))))))))))), (Npos (XI (XO (XI (XI (XI (XO (XO XH))))))))), (Npos (XI
    (XI (XO XH))))), (Npos (XI (XI (XI (XI (XI (XO (XO (XI (XO (XO (XI (XO
    XH)))))))))))))) :: ((((((Npos (XI (XI (XI (XI (XI (XO (XO (XI (XO (XO
    (XI (XO XH))))))))))))), (Npos (XI (XO (XO (XO (XI (XI (XO (XI (XI
    XH))))))))))), (Npos (XI (XO (XI (XI (XI (XO (XO XH))))))))), (Npos (XI
    (XI (XO XH))))), (Npos (XI (XO (XI (XO (XI (XO (XI (XI (XO (XO (XI (XO
    XH)))))))))))))) :: ((((((Npos (XO (XI (XI (XO (XI (XO (XI (XI (XO (XO
    (XI (XO XH))))))))))))), (Npos (XI (XI (XO (XO (XI (XO (XI XH))))))))),
    (Npos (XI (XO (XI (XI (XI (XO (XO XH))))))))), (Npos (XI (XI (XO XH))))),
    (Npos (XI (XI (XO (XI (XO (XO (XO (XO (XI (XO (XI (XO
    XH)))))))))))))) :: ((((((Npos (XI (XI (XI (XI (XO (XO (XO (XO (XI (XO
    (XI (XO XH))))))))))))), (Npos (XI (XO (XI (XO (XI (XO (XI (XO
    XH)))))))))), (Npos (XI (XO (XI (XI (XI (XO (XO XH))))))))), (Npos (XI
    (XI (XO XH))))), (Npos (XI (XI (XO (XO (XO (XO (XI (XO (XI (XO (XI (XO
    XH)))))))))))))) :: ((((((Npos (XI (XO (XO (XI (XO (XO (XI (XO (XI (XO
    (XI (XO XH))))))))))))), (Npos (XI (XI (XO XH))))), (Npos (XI (XI (XO (XO
    (XO (XI (XO XH))))))))), (Npos (XI (XI (XO XH))))), (Npos (XI (XI (XO (XO
    (XO (XO (XO (XI (XI (XO (XI (XO XH)))))))))))))) :: ((((((Npos (XO (XI
    (XO (XO (XO (XO (XO (XI (XI (XO (XI (XO XH))))))))))))), (Npos (XO (XI
    (XO (XO (XO (XO (XI (XO (XO XH))))))))))), (Npos (XI (XI (XO (XO (XO (XI
    (XO XH))))))))), (Npos (XI (XI (XO XH))))), (Npos (XI (XI (XO (XI (XI (XI
    (XO (XI (XI (XO (XI (XO XH)))))))))))))) :: ((((((Npos (XO (XI (XI (XI
    (XI (XI (XO (XI (XI (XO (XI (XO XH))))))))))))), (Npos (XO (XI (XI (XI
    (XO (XI (XI (XI XH)))))))))), (Npos (XI (XI (XO (XO (XO (XI (XO
    XH))))))))), (Npos (XI (XI (XO XH))))), (Npos (XI (XI (XI (XO (XI (XI (XI
    (XI (XI (XO (XI (XO XH)))))))))))))) :: ((((((Npos (XI (XO (XI (XO (XO
    (XO (XO (XO (XO (XI (XI (XO XH))))))))))))), (Npos (XO (XI (XI (XO (XI
    (XI (XO (XI (XO XH))))))))))), (Npos (XI (XI (XO (XO (XO (XI (XO
    XH))))))))), (Npos (XI (XI (XO XH))))), (Npos (XI (XO (XI (XI (XI (XI (XO
    (XO (XO (XI (XI (XO XH)))))))))))))) :: ((((((Npos (XO (XI (XI (XI (XI
    (XI (XO (XO (XO (XI (XI (XO XH))))))))))))), (Npos (XO (XO (XI (XI (XI
    (XI (XI XH))))))))), (Npos (XI (XI (XO (XO (XO (XI (XO XH))))))))), (Npos
    (XI (XI (XO XH))))), (Npos (XI (XO (XI (XO (XI (XI (XI (XO (XO (XI (XI
    (XO XH)))))))))))))) :: ((((((Npos (XI (XI (XO (XO (XO (XO (XO (XI (XO
    (XI (XI (XO XH))))))))))))), (Npos (XI (XI (XO (XO (XO (XO (XI (XI
    XH)))))))))), (Npos (XI (XI (XI (XO (XO (XI (XO XH))))))))), (Npos (XI
    (XI (XO XH))))), (Npos (XI (XO (XI (XI (XI (XI (XO (XI (XO (XI (XI (XO
    XH)))))))))))))) :: ((((((Npos (XI (XI (XI (XI (XI (XI (XO (XI (XO (XI
    (XI (XO XH))))))))))))), (Npos (XI (XI (XO (XO (XI (XO XH)))))))), (Npos
    (XI (XI (XI (XO (XO (XI (XO XH))))))))), (Npos (XI (XI (XO XH))))), (Npos
    (XI (XO (XO (XI (XI (XI (XI (XI (XO (XI (XI (XO
    XH)))))))))))))) :: ((((((Npos (XO (XO (XO (XI (XO (XO (XO (XO (XI (XI
    (XI (XO XH))))))))))))), (Npos (XI (XO (XO (XO (XI (XI (XO (XI (XO
    XH))))))))))), (Npos (XI (XI (XI (XO (XO (XI (XO XH))))))))), (Npos (XI
    (XI (XO XH))))), (Npos (XI (XO (XO (XO (XO (XO (XI (XO (XI (XI (XI (XO
    XH)))))))))))))) :: ((((((Npos (XI (XI (XI (XO (XI (XO (XI (XO (XI (XI
    (XI (XO XH))))))))))))), (Npos (XO (XO (XO (XI (XO (XI (XI (XI
    XH)))))))))), (Npos (XI (XO (XI (XI (XO (XI (XO XH))))))))), (Npos (XI
    (XI (XO XH))))), (Npos (XI (XO (XI (XO (XI (XO (XO (XI (XI (XI (XI (XO
    XH)))))))))))))) :: ((((((Npos (XI (XI (XI (XO (XI (XO (XO (XI (XI (XI
    (XI (XO XH))))))))))))), (Npos (XO (XI (XI (XO (XI (XO (XI XH))))))))),
    (Npos (XI (XO (XI (XI (XO (XI (XO XH))))))))), (Npos (XI (XI (XO XH))))),
    (Npos (XI (XO (XI (XO (XI (XO (XI (XI (XI (XI (XI (XO
    XH)))))))))))))) :: ((((((Npos (XO (XI (XI (XO (XI (XO (XI (XI (XI (XI
    (XI (XO XH))))))))))))), (Npos (XI (XO (XO (XO XH)))))), (Npos (XI (XO
    (XI (XI (XO (XI (XO XH))))))))), (Npos (XI (XI (XO XH))))), (Npos (XI (XI
    (XO (XO (XI (XO (XO (XO (XO (XO (XO (XI XH)))))))))))))) :: ((((((Npos
    (XI (XO (XO (XI (XI (XO (XO (XO (XO (XO (XO (XI XH))))))))))))), (Npos
    (XI (XO (XI (XO (XI (XO (XI (XI XH)))))))))), (Npos (XI (XO (XI (XI (XO
    (XI (XO XH))))))))), (Npos (XI (XI (XO XH))))), (Npos (XI (XO (XI (XO (XI
    (XO (XI (XO (XO (XO (XO (XI XH)))))))))))))) :: ((((((Npos (XI (XO (XO
    (XI (XI (XO (XI (XO (XO (XO (XO (XI XH))))))))))))), (Npos (XI (XI (XI
    (XO (XO (XO (XO (XO XH)))))))))), (Npos (XI (XI (XO (XO (XI (XI (XO
    XH))))))))), (Npos (XI (XI (XO XH))))), (Npos (XI (XI (XO (XI (XI (XO (XO
    (XI (XO (XO (XO (XI XH)))))))))))))) :: ((((((Npos (XO (XO (XO (XI (XI
    (XO (XO (XI (XO (XO (XO (XI XH))))))))))))), (Npos (XI (XO (XI (XO (XI
    (XI (XO (XO XH)))))))))), (Npos (XI (XI (XO (XO (XI (XI (XO XH))))))))),
    (Npos (XI (XI (XO XH))))), (Npos (XI (XO (XO (XI (XI (XO (XI (XI (XO (XO
    (XO (XI XH)))))))))))))) :: ((((((Npos (XI (XI (XO (XI (XI (XO (XI (XI
    (XO (XO (XO (XI XH))))))))))))), (Npos (XO (XO (XO (XI (XI (XO (XI (XI
    (XI XH))))))))))), (Npos (XI (XI (XO (XO (XI (XI (XO XH))))))))), (Npos
    (XI (XI (XO XH))))), (Npos (XI (XI (XO (XI (XI (XO (XO (XO (XI (XO (XO
    (XI XH)))))))))))))) :: ((((((Npos (XI (XI (XO (XI (XI (XO (XO (XO (XI
    (XO (XO (XI XH))))))))))))), (Npos (XI (XI (XO (XI (XI (XI XH)))))))),
    (Npos (XI (XI (XO (XO (XI (XI (XO XH))))))))), (Npos (XI (XI (XO XH))))),
    (Npos (XI (XI (XO (XI (XI (XO (XI (XO (XI (XO (XO (XI
    XH)))))))))))))) :: ((((((Npos (XO (XI (XI (XO (XI (XI (XI (XO (XI (XO
    (XO (XI XH))))))))))))), (Npos (XO (XO (XO (XI (XO (XI (XI (XO
    XH)))))))))), (Npos (XI (XI (XO (XO (XI (XI (XO XH))))))))), (Npos (XI
    (XI (XO XH))))), (Npos (XI (XO (XI (XO (XI (XI (XO (XI (XI (XO (XO (XI
    XH)))))))))))))) :: ((((((Npos (XI (XO (XI (XI (XI (XI (XO (XI (XI (XO
    (XO (XI XH))))))))))))), (Npos (XI (XI (XI (XI (XI (XO (XI (XO (XI
    XH))))))))))), (Npos (XI (XO (XI (XO (XI (XI (XO XH))))))))), (Npos (XI
    (XI (XO XH))))), (Npos (XI (XO (XI (XI (XI (XI (XI (XI (XI (XO (XO (XI
    XH)))))))))))))) :: ((((((Npos (XI (XI (XI (XI (XI (XI (XI (XI (XI (XO
    (XO (XI XH))))))))))))), (Npos (XO (XI (XO (XI (XI (XI XH)))))))), (Npos
    (XI (XO (XI (XO (XI (XI (XO XH))))))))), (Npos (XI (XI (XO XH))))), (Npos
    (XI (XI (XI (XI (XI (XI (XO (XO (XO (XI (XO (XI
    XH)))))))))))))) :: ((((((Npos (XO (XI (XO (XI (XO (XO (XI (XO (XO (XI
    (XO (XI XH))))))))))))), (Npos (XO (XI (XO (XI (XO (XO (XO (XO (XO
    XH))))))))))), (Npos (XI (XI (XI (XI (XI (XI (XO XH))))))))), (Npos (XI
    (XI (XO XH))))), (Npos (XI (XI (XO (XO (XI (XO (XO (XI (XO (XI (XO (XI
    XH)))))))))))))) :: ((((((Npos (XI (XI (XI (XI (XO (XO (XO (XI (XO (XI
    (XO (XI XH))))))))))))), (Npos (XI (XI (XO (XI (XI (XO (XO (XO (XO
    XH))))))))))), (Npos (XI (XI (XI (XI (XI (XI (XO XH))))))))), (Npos (XI
    (XI (XO XH))))), (Npos (XI (XI (XI (XO (XI (XO (XI (XI (XO (XI (XO (XI
    XH)))))))))))))) :: ((((((Npos (XO (XI (XI (XI (XI (XO (XI (XI (XO (XI
    (XO (XI XH))))))))))))), (Npos (XI (XO (XI (XO (XI (XI (XO XH))))))))),
    (Npos (XI (XI (XI (XI (XI (XI (XO XH))))))))), (Npos (XI (XI (XO XH))))),
    (Npos (XI (XO (XI (XO (XO (XI (XO (XO (XI (XI (XO (XI
    XH)))))))))))))) :: ((((((Npos (XO (XO (XI (XI (XO (XI (XO (XO (XI (XI
    (XO (XI XH))))))))))))), (Npos (XO (XO (XO (XO (XO (XO XH)))))))), (Npos
    (XI (XI (XI (XI (XI (XI (XO XH))))))))), (Npos (XI (XI (XO XH))))), (Npos
    (XI (XI (XO (XO (XI (XI (XI (XO (XI (XI (XO (XI
    XH)))))))))))))) :: ((((((Npos (XI (XO (XO (XI (XI (XI (XI (XO (XI (XI
    (XO (XI XH))))))))))))), (Npos (XI (XI (XO (XO (XO (XO (XO (XI
    XH)))))))))), (Npos (XI (XI (XI (XI (XI (XI (XO XH))))))))), (Npos (XI
    (XI (XO XH))))), (Npos (XI (XI (XI (XI (XI (XI (XO (XI (XI (XI (XO (XI
    XH)))))))))))))) :: ((((((Npos (XO (XO (XI (XO (XO (XO (XI (XI (XI (XI
    (XO (XI XH))))))))))))), (Npos (XI (XI (XI (XO (XO (XO (XI (XI (XI
    XH))))))))))), (Npos (XI (XI (XI (XI (XI (XI (XO XH))))))))), (Npos (XI
    (XI (XO XH))))), (Npos (XI (XO (XO (XI (XO (XO (XO (XO (XO (XO (XI (XI
    XH)))))))))))))) :: ((((((Npos (XI (XO (XO (XO (XI (XO (XO (XO (XO (XO
    (XI (XI XH))))))))))))), (Npos (XI (XI (XO (XI (XO (XO (XI (XO (XI
    XH))))))))))), (Npos (XI (XI (XI (XI (XI (XI (XO XH))))))))), (Npos (XI
    (XI (XO XH))))), (Npos (XI (XO (XI (XO (XI (XO (XI (XO (XO (XO (XI (XI
    XH)))))))))))))) :: ((((((Npos (XI (XO (XO (XO (XI (XI (XI (XO (XO (XO
    (XI (XI XH))))))))))))), (Npos (XI (XI (XI (XO (XO (XI (XI (XI (XI
    XH))))))))))), (Npos (XI (XO (XO (XO (XO (XO (XI XH))))))))), (Npos (XI
    (XI (XO XH))))), (Npos (XI (XI (XI (XO (XI (XI (XO (XI (XO (XO (XI (XI
    XH)))))))))))))) :: ((((((Npos (XO (XO (XO (XO (XO (XO (XI (XI (XO (XO
    (XI (XI XH))))))))))))), (Npos (XO (XO (XI (XI (XO (XO XH)))))))), (Npos
    (XI (XO (XI (XO (XO (XO (XI XH))))))))), (Npos (XI (XI (XO XH))))), (Npos
    (XI (XO (XO (XI (XO (XO (XO (XO (XI (XO (XI (XI
    XH)))))))))))))) :: ((((((Npos (XI (XO (XI (XO (XI (XO (XO (XO (XI (XO
    (XI (XI XH))))))))))))), (Npos (XO (XI (XI (XI (XO (XO (XO XH))))))))),
    (Npos (XI (XO (XI (XO (XO (XO (XI XH))))))))), (Npos (XI (XI (XO XH))))),
    (Npos (XI (XO (XI (XI (XI (XO (XI (XO (XI (XO (XI (XI
    XH)))))))))))))) :: ((((((Npos (XO (XO (XO (XO (XO (XI (XI (XO (XI (XO
    (XI (XI XH))))))))))))), (Npos (XI (XI (XI (XO (XI (XO (XI (XO (XO
    XH))))))))))), (Npos (XI (XO (XI (XO (XO (XO (XI XH))))))))), (Npos (XI
    (XI (XO XH))))), (Npos (XI (XI (XI (XO (XO (XI (XO (XI (XI (XO (XI (XI
    XH)))))))))))))) :: ((((((Npos (XO (XO (XI (XI (XO (XI (XO (XI (XI (XO
    (XI (XI XH))))))))))))), (Npos (XO (XO (XO (XO (XO (XO (XI (XO (XO
    XH))))))))))), (Npos (XI (XI (XI (XO (XO (XO (XI XH))))))))), (Npos (XI
    (XI (XO XH))))), (Npos (XI (XO (XI (XO (XI (XI (XI (XI (XI (XO (XI (XI
    XH)))))))))))))) :: ((((((Npos (XI (XI (XO (XI (XI (XI (XI (XI (XI (XO
    (XI (XI XH))))))))))))), (Npos (XO (XO (XO (XO (XI (XI (XO XH))))))))),
    (Npos (XI (XI (XO (XO (XI (XO (XI XH))))))))), (Npos (XI (XI (XO XH))))),
    (Npos (XI (XI (XI (XI (XO (XO (XI (XO (XO (XI (XI (XI
    XH)))))))))))))) :: ((((((Npos (XO (XI (XO (XI (XI (XO (XI (XO (XO (XI
    (XI (XI XH))))))))))))), (Npos (XO (XO (XO (XI (XO (XO (XO (XI
    XH)))))))))), (Npos (XI (XI (XO (XO (XI (XO (XI XH))))))))), (Npos (XI
    (XI (XO XH))))), (Npos (XI (XO (XI (XI (XO (XI (XO (XI (XO (XI (XI (XI
    XH)))))))))))))) :: ((((((Npos (XI (XI (XI (XI (XO (XI (XO (XI (XO (XI
    (XI (XI XH))))))))))))), (Npos (XO (XO (XI (XI (XO (XO (XI (XO
    XH)))))))))), (Npos (XI (XI (XO (XO (XI (XO (XI XH))))))))), (Npos (XI
    (XI (XO XH))))), (Npos (XI (XO (XO (XO (XO (XO (XO (XO (XI (XI (XI (XI
    XH)))))))))))))) :: ((((((Npos (XI (XI (XI (XI (XI (XI (XI (XI (XO (XI
    (XI (XI XH))))))))))))), (Npos (XI (XI (XO (XO (XO (XI (XO (XO
    XH)))))))))), (Npos (XI (XI (XO (XO (XI (XO (XI XH))))))))), (Npos (XI
    (XI (XO XH))))), (Npos (XI (XO (XO (XO (XI (XO (XI (XO (XI (XI (XI (XI
    XH)))))))))))))) :: ((((((Npos (XO (XI (XI (XI (XI (XO (XI (XO (XI (XI
    (XI (XI XH))))))))))))), (Npos (XI (XO (XO (XO (XI (XO (XO (XI (XI
    XH))))))))))), (Npos (XI (XI (XO (XO (XI (XO (XI XH))))))))), (Npos (XI
    (XI (XO XH))))), (Npos (XI (XI (XI (XI (XO (XI (XO (XI (XI (XI (XI (XI
    XH)))))))))))))) :: ((((((Npos (XI (XI (XI (XI (XO (XI (XO (XI (XI (XI
    (XI (XI XH))))))))))))), (Npos (XO (XO (XO (XO (XO (XI (XI (XO (XO
    XH))))))))))), (Npos (XI (XI (XO (XO (XI (XO (XI XH))))))))), (Npos (XI
    (XI (XO XH))))), (Npos (XI (XI (XI (XI (XI (XI (XI (XI (XI (XI (XI (XI
    XH)))))))))))))) :: ((((((Npos (XO (XI (XO (XO (XO (XO (XO (XO (XO (XO
    (XO (XO (XO XH)))))))))))))), (Npos (XO (XO (XI (XO (XI (XO (XI
    XH))))))))), (Npos (XI (XI (XO (XO (XI (XO (XI XH))))))))), (Npos (XI (XI
    (XO XH))))), (Npos (XI (XO (XO (XO (XI (XO (XI (XO (XO (XO (XO (XO (XO
    XH))))))))))))))) :: ((((((Npos (XO (XI (XO (XO (XO (XI (XI (XO (XO (XO
    (XO (XO (XO XH)))))))))))))), (Npos (XO (XO (XO (XI (XI (XI (XO (XI (XO
    XH))))))))))), (Npos (XI (XI (XO (XO (XI (XO (XI XH))))))))), (Npos (XI
    (XI (XO XH))))), (Npos (XI (XO (XO (XO (XI (XI (XO (XI (XO (XO (XO (XO
    (XO XH))))))))))))))) :: ((((((Npos (XI (XO (XO (XI (XI (XI (XO (XI (XO
    (XO (XO (XO (XO XH)))))))))))))), (Npos (XI (XI (XO (XO (XO (XI (XO (XI
    (XI XH))))))))))), (Npos (XI (XI (XI (XI (XI (XO (XI XH))))))))), (Npos
    (XI (XI (XO XH))))), (Npos (XI (XI (XO (XO (XI (XO (XO (XO (XI (XO (XO
    (XO (XO XH))))))))))))))) :: ((((((Npos (XO (XI (XO (XI (XI (XO (XO (XO
    (XI (XO (XO (XO (XO XH)))))))))))))), (Npos (XO (XI (XI (XO (XO (XO (XI
    (XO XH)))))))))), (Npos (XI (XI (XI (XI (XI (XO (XI XH))))))))), (Npos
    (XI (XI (XO XH))))), (Npos (XI (XI (XO (XO (XI (XI (XI (XO (XI (XO (XO
    (XO (XO XH))))))))))))))) :: ((((((Npos (XI (XI (XI (XI (XO (XI (XI (XO
    (XI (XO (XO (XO (XO XH)))))))))))))), (Npos (XO (XO (XI (XO (XO (XI (XI
    XH))))))))), (Npos (XI (XI (XI (XI (XI (XO (XI XH))))))))), (Npos (XI (XI
    (XO XH))))), (Npos (XI (XI (XI (XO (XO (XO (XI (XI (XI (XO (XO (XO (XO
    XH))))))))))))))) :: ((((((Npos (XO (XI (XI (XI (XO (XO (XI (XI (XI (XO
    (XO (XO (XO XH)))))))))))))), (Npos (XO (XI (XO (XO (XO (XO (XI (XI (XO
    XH))))))))))), (Npos (XI (XI (XI (XI (XI (XO (XI XH))))))))), (Npos (XI
    (XI (XO XH))))), (Npos (XI (XO (XI (XO (XO (XI (XO (XO (XO (XI (XO (XO
    (XO XH))))))))))))))) :: ((((((Npos (XO (XO (XO (XI (XO (XI (XO (XO (XO
    (XI (XO (XO (XO XH)))))))))))))), (Npos (XO (XO (XO (XO (XI (XO (XO
    XH))))))))), (Npos (XI (XI (XI (XI (XI (XO (XI XH))))))))), (Npos (XI (XI
    (XO XH))))), (Npos (XI (XI (XI (XI (XI (XI (XI (XO (XO (XI (XO (XO (XO
    XH))))))))))))))) :: ((((((Npos (XI (XO (XI (XO (XO (XO (XO (XI (XO (XI
    (XO (XO (XO XH)))))))))))))), (Npos (XI (XI (XO (XO (XI (XO XH)))))))),
    (Npos (XI (XI (XI (XI (XI (XO (XI XH))))))))), (Npos (XI (XI (XO XH))))),
    (Npos (XI (XI (XO (XI (XI (XO (XI (XI (XO (XI (XO (XO (XO
    XH))))))))))))))) :: ((((((Npos (XO (XO (XO (XO (XO (XI (XI (XI (XO (XI
    (XO (XO (XO XH)))))))))))))), (Npos (XI (XI (XI (XO (XO (XI (XI (XI (XO
    XH))))))))))), (Npos (XI (XI (XI (XI (XI (XO (XI XH))))))))), (Npos (XI
    (XI (XO XH))))), (Npos (XI (XO (XI (XO (XI (XI (XO (XO (XI (XI (XO (XO
    (XO XH))))))))))))))) :: ((((((Npos (XI (XI (XO (XI (XI (XI (XO (XO (XI
    (XI (XO (XO (XO XH)))))))))))))), (Npos (XI (XI (XO (XI (XI (XI (XO
    XH))))))))), (Npos (XI (XI (XI (XI (XI (XO (XI XH))))))))), (Npos (XI (XI
    (XO XH))))), (Npos (XI (XI (XI (XI (XO (XO (XO (XI (XI (XI (XO (XO (XO
    XH))))))))))))))) :: ((((((Npos (XI (XI (XI (XO (XI (XO (XO (XI (XI (XI
    (XO (XO (XO XH)))))))))))))), (Npos (XO (XI (XI (XI (XO (XO (XO (XI (XO
    XH))))))))))), (Npos (XI (XI (XO (XO (XO (XI (XI XH))))))))), (Npos (XI
    (XI (XO XH))))), (Npos (XI (XI (XI (XI (XO (XI (XI (XI (XI (XI (XO (XO
    (XO XH))))))))))))))) :: ((((((Npos (XO (XI (XI (XO (XI (XI (XI (XI (XI
    (XI (XO (XO (XO XH)))))))))))))), (Npos (XI (XI (XI (XO (XO (XI (XI (XO
    XH)))))))))), (Npos (XI (XI (XO (XO (XO (XI (XI XH))))))))), (Npos (XI
    (XI (XO XH))))), (Npos (XI (XO (XI (XI (XO (XO (XI (XO (XO (XO (XI (XO
    (XO XH))))))))))))))) :: ((((((Npos (XI (XI (XI (XO (XI (XO (XI (XO (XO
    (XO (XI (XO (XO XH)))))))))))))), (Npos (XI (XO (XI (XI (XO (XI (XI (XI
    XH)))))))))), (Npos (XI (XO (XI (XO (XO (XI (XI XH))))))))), (Npos (XI
    (XI (XO XH))))), (Npos (XI (XI (XI (XI (XO (XI (XO (XI (XO (XO (XI (XO
    (XO XH))))))))))))))) :: ((((((Npos (XO (XO (XO (XI (XI (XI (XO (XI (XO
    (XO (XI (XO (XO XH)))))))))))))), (Npos (XI (XO (XO (XO (XI (XI (XI (XO
    XH)))))))))), (Npos (XI (XO (XO (XI (XO (XI (XI XH))))))))), (Npos (XI
    (XI (XO XH))))), (Npos (XI (XI (XO (XO (XI (XO (XO (XO (XI (XO (XI (XO
    (XO XH))))))))))))))) :: ((((((Npos (XI (XO (XO (XI (XI (XO (XO (XO (XI
    (XO (XI (XO (XO XH)))))))))))))), (Npos (XI (XO (XI (XO (XI (XO (XI (XI
    (XI XH))))))))))), (Npos (XI (XO (XO (XI (XO (XI (XI XH))))))))), (Npos
    (XI (XI (XO XH))))), (Npos (XI (XI (XO (XO (XI (XI (XI (XO (XI (XO (XI
    (XO (XO XH))))))))))))))) :: ((((((Npos (XI (XO (XO (XO (XO (XO (XO (XI
    (XI (XO (XI (XO (XO XH)))))))))))))), (Npos (XO (XO (XI (XO (XI (XO (XO
    (XO XH)))))))))), (Npos (XI (XI (XI (XI (XO (XI (XI XH))))))))), (Npos
    (XI (XI (XO XH))))), (Npos (XI (XO (XO (XO (XO (XI (XI (XI (XI (XO (XI
    (XO (XO XH))))))))))))))) :: ((((((Npos (XO (XO (XI (XI (XO (XI (XI (XI
    (XI (XO (XI (XO (XO XH)))))))))))))), (Npos (XI (XI (XI (XO (XO (XO (XO
    (XI (XO XH))))))))))), (Npos (XI (XI (XI (XI (XO (XI (XI XH))))))))),
    (Npos (XI (XI (XO XH))))), (Npos (XI (XI (XO (XI (XO (XO (XI (XO (XO (XI
    (XI (XO (XO XH))))))))))))))) :: ((((((Npos (XI (XO (XI (XO (XI (XO (XI
    (XO (XO (XI (XI (XO (XO XH)))))))))))))), (Npos (XI (XO (XI (XO (XO (XO
    (XO (XI XH)))))))))), (Npos (XI (XI (XI (XI (XO (XI (XI XH))))))))),
    (Npos (XI (XI (XO XH))))), (Npos (XI (XI (XO (XO (XI (XI (XO (XI (XO (XI
    (XI (XO (XO XH))))))))))))))) :: ((((((Npos (XO (XO (XI (XI (XI (XI (XO
    (XI (XO (XI (XI (XO (XO XH)))))))))))))), (Npos (XO (XO (XO (XO (XI (XO
    XH)))))))), (Npos (XI (XI (XI (XI (XO (XI (XI XH))))))))), (Npos (XI (XI
    (XO XH))))), (Npos (XI (XO (XO (XI (XI (XO (XO (XO (XI (XI (XI (XO (XO
    XH))))))))))))))) :: ((((((Npos (XI (XO (XO (XO (XO (XI (XO (XO (XI (XI
    (XI (XO (XO XH)))))))))))))), (Npos (XO (XO (XI (XI (XO (XO (XO (XI
    XH)))))))))), (Npos (XI (XO (XO (XO (XI (XI (XI XH))))))))), (Npos (XI
    (XI (XO XH))))), (Npos (XI (XI (XI (XI (XI (XI (XI (XO (XI (XI (XI (XO
    (XO XH))))))))))))))) :: ((((((Npos (XO (XO (XO (XI (XO (XO (XO (XI (XI
    (XI (XI (XO (XO XH)))))))))))))), (Npos (XO (XO (XI (XO (XO (XO (XI (XO
    (XO XH))))))))))), (Npos (XI (XI (XO (XI (XI (XI (XI XH))))))))), (Npos
    (XI (XI (XO XH))))), (Npos (XI (XI (XI (XI (XO (XI (XI (XI (XI (XI (XI
    (XO (XO XH))))))))))))))) :: ((((((Npos (XI (XO (XO (XO (XO (XO (XO (XO
    (XO (XO (XO (XI (XO XH)))))))))))))), (Npos (XI (XO (XO (XI (XO (XI (XI
    (XO (XI XH))))))))))), (Npos (XI (XI (XO (XI (XI (XI (XI XH))))))))),
    (Npos (XI (XI (XO XH))))), (Npos (XI (XI (XI (XO (XO (XI (XI (XO (XO (XO
    (XO (XI (XO XH))))))))))))))) :: ((((((Npos (XI (XI (XI (XI (XO (XI (XI
    (XO (XO (XO (XO (XI (XO XH)))))))))))))), (Npos (XI (XI (XI XH))))),
    (Npos (XI (XI (XO (XI (XI (XI (XI XH))))))))), (Npos (XI (XI (XO XH))))),
    (Npos (XI (XO (XI (XO (XI (XO (XI (XI (XO (XO (XO (XI (XO
    XH))))))))))))))) :: ((((((Npos (XO (XI (XO (XI (XI (XO (XI (XI (XO (XO
    (XO (XI (XO XH)))))))))))))), (Npos (XO (XO (XO (XO (XI (XO (XI (XI (XI
    XH))))))))))), (Npos (XI (XI (XO (XI (XI (XI (XI XH))))))))), (Npos (XI
    (XI (XO XH))))), (Npos (XI (XI (XI (XI (XI (XI (XO (XO (XI (XO (XO (XI
    (XO XH))))))))))))))) :: ((((((Npos (XI (XI (XI (XO (XO (XO (XI (XO (XI
    (XO (XO (XI (XO XH)))))))))))))), (Npos (XO (XO (XO (XI (XO (XO (XI (XO
    (XO XH))))))))))), (Npos (XI (XI (XO (XI (XI (XI (XI XH))))))))), (Npos
    (XI (XI (XO XH))))), (Npos (XI (XI (XO (XI (XO (XI (XO (XI (XI (XO (XO
    (XI (XO XH))))))))))))))) :: ((((((Npos (XO (XO (XI (XO (XI (XI (XO (XI
    (XI (XO (XO (XI (XO XH)))))))))))))), (Npos (XI (XI (XO (XI (XO (XO (XO
    (XO XH)))))))))), (Npos (XI (XO (XO (XO (XO (XO (XO (XO XH)))))))))),
    (Npos (XI (XI (XO XH))))), (Npos (XI (XO (XI (XI (XI (XO (XO (XO (XO (XI
    (XO (XI (XO XH))))))))))))))) :: ((((((Npos (XI (XI (XO (XO (XO (XI (XO
    (XO (XO (XI (XO (XI (XO XH)))))))))))))), (Npos (XO (XO (XI (XI (XO (XI
    (XI (XO (XI XH))))))))))), (Npos (XI (XO (XO (XO (XO (XO (XO (XO
    XH)))))))))), (Npos (XI (XI (XO XH))))), (Npos (XI (XI (XO (XI (XO (XO
    (XO (XI (XO (XI (XO (XI (XO XH))))))))))))))) :: ((((((Npos (XI (XI (XO
    (XO (XI (XO (XO (XI (XO (XI (XO (XI (XO XH)))))))))))))), (Npos (XO (XI
    (XO (XO (XO (XO (XO (XI (XO XH))))))))))), (Npos (XI (XO (XO (XO (XO (XO
    (XO (XO XH)))))))))), (Npos (XO (XO (XI XH))))), (Npos (XI (XI (XO (XI
    (XI (XI (XI (XI (XO (XI (XO (XI (XO XH))))))))))))))) :: ((((((Npos (XI
    (XI (XI (XO (XO (XO (XO (XO (XI (XI (XO (XI (XO XH)))))))))))))), (Npos
    (XO (XI (XO (XI (XI (XO (XO (XO (XI XH))))))))))), (Npos (XI (XO (XO (XO
    (XO (XO (XO (XO XH)))))))))), (Npos (XO (XO (XI XH))))), (Npos (XI (XI
    (XI (XI (XO (XI (XI (XO (XI (XI (XO (XI (XO
    XH))))))))))))))) :: ((((((Npos (XO (XI (XO (XI (XI (XI (XI (XO (XI (XI
    (XO (XI (XO XH)))))))))))))), (Npos (XO (XI (XI (XI (XO (XO XH)))))))),
    (Npos (XI (XI (XI (XO (XO (XO (XO (XO XH)))))))))), (Npos (XO (XO (XI
    XH))))), (Npos (XI (XI (XI (XO (XO (XI (XI (XI (XI (XI (XO (XI (XO
    XH))))))))))))))) :: ((((((Npos (XI (XO (XI (XI (XO (XI (XI (XI (XI (XI
    (XO (XI (XO XH)))))))))))))), (Npos (XO (XO (XO (XO (XO (XI (XI (XI (XO
    XH))))))))))), (Npos (XI (XI (XI (XO (XO (XO (XO (XO XH)))))))))), (Npos
    (XO (XO (XI XH))))), (Npos (XI (XO (XO (XI (XI (XO (XI (XO (XO (XO (XI
    (XI (XO XH))))))))))))))) :: ((((((Npos (XO (XI (XI (XI (XI (XO (XI (XO
    (XO (XO (XI (XI (XO XH)))))))))))))), (Npos (XO (XI (XO (XO (XI (XI (XI
    (XO (XI XH))))))))))), (Npos (XI (XO (XI (XI (XO (XO (XO (XO
    XH)))))))))), (Npos (XO (XO (XI XH))))), (Npos (XI (XI (XI (XI (XO (XO
    (XI (XI (XO (XO (XI (XI (XO XH))))))))))))))) :: ((((((Npos (XI (XI (XO
    (XO (XI (XO (XI (XI (XO (XO (XI (XI (XO XH)))))))))))))), (Npos (XI (XI
    (XO (XI (XI (XI (XI XH))))))))), (Npos (XI (XO (XI (XI (XO (XO (XO (XO
    XH)))))))))), (Npos (XO (XO (XI XH))))), (Npos (XI (XI (XO (XO (XO (XO
    (XI (XO (XI (XO (XI (XI (XO XH))))))))))))))) :: ((((((Npos (XO (XI (XI
    (XO (XO (XO (XI (XO (XI (XO (XI (XI (XO XH)))))))))))))), (Npos (XO (XI
    (XO (XO (XI (XI (XO (XI XH)))))))))), (Npos (XI (XO (XI (XI (XO (XO (XO
    (XO XH)))))))))), (Npos (XO (XO (XI XH))))), (Npos (XI (XO (XI (XO (XI
    (XI (XO (XI (XI (XO (XI (XI (XO XH))))))))))))))) :: ((((((Npos (XI (XI
    (XI (XI (XI (XI (XO (XI (XI (XO (XI (XI (XO XH)))))))))))))), (Npos (XO
    (XO (XI (XI (XO (XO (XI XH))))))))), (Npos (XI (XO (XI (XI (XO (XO (XO
    (XO XH)))))))))), (Npos (XO (XO (XI XH))))), (Npos (XI (XO (XI (XI (XO
    (XI (XO (XO (XO (XI (XI (XI (XO XH))))))))))))))) :: ((((((Npos (XI (XO
    (XI (XO (XI (XI (XO (XO (XO (XI (XI (XI (XO XH)))))))))))))), (Npos (XO
    (XO (XO (XO (XO (XO (XO (XO XH)))))))))), (Npos (XI (XI (XI (XI (XO (XO
    (XO (XO XH)))))))))), (Npos (XO (XO (XI XH))))), (Npos (XI (XO (XI (XO
    (XO (XI (XO (XI (XO (XI (XI (XI (XO XH))))))))))))))) :: ((((((Npos (XO
    (XO (XI (XO (XI (XI (XO (XI (XO (XI (XI (XI (XO XH)))))))))))))), (Npos
    (XO (XI (XO (XI (XO (XI XH)))))))), (Npos (XI (XO (XI (XO (XI (XO (XO (XO
    XH)))))))))), (Npos (XO (XO (XI XH))))), (Npos (XI (XO (XO (XI (XO (XI
    (XO (XO (XI (XI (XI (XI (XO XH))))))))))))))) :: ((((((Npos (XI (XI (XI
    (XO (XI (XI (XO (XO (XI (XI (XI (XI (XO XH)))))))))))))), (Npos (XI (XI
    (XI (XO (XI (XI (XI (XO XH)))))))))), (Npos (XI (XO (XI (XO (XI (XO (XO
    (XO XH)))))))))), (Npos (XO (XO (XI XH))))), (Npos (XI (XI (XO (XI (XO
    (XI (XO (XI (XI (XI (XI (XI (XO XH))))))))))))))) :: ((((((Npos (XO (XO
    (XO (XO (XI (XI (XO (XI (XI (XI (XI (XI (XO XH)))))))))))))), (Npos (XO
    (XO (XI (XO (XI (XO (XO XH))))))))), (Npos (XI (XO (XI (XO (XI (XO (XO
    (XO XH)))))))))), (Npos (XO (XO (XI XH))))), (Npos (XI (XI (XO (XO (XO
    (XI (XO (XO (XO (XO (XO (XO (XI XH))))))))))))))) :: ((((((Npos (XI (XO
    (XI (XI (XO (XI (XO (XO (XO (XO (XO (XO (XI XH)))))))))))))), (Npos (XO
    (XO (XO (XO (XI (XI (XI (XI XH)))))))))), (Npos (XI (XO (XO (XI (XI (XO
    (XO (XO XH)))))))))), (Npos (XO (XO (XI XH))))), (Npos (XI (XI (XO (XO
    (XO (XI (XO (XI (XO (XO (XO (XO (XI XH))))))))))))))) :: ((((((Npos (XO
    (XO (XI (XI (XO (XI (XO (XI (XO (XO (XO (XO (XI XH)))))))))))))), (Npos
    (XO (XO (XO (XI (XI (XO XH)))))))), (Npos (XI (XO (XO (XI (XI (XO (XO (XO
    XH)))))))))), (Npos (XO (XO (XI XH))))), (Npos (XI (XO (XO (XO (XO (XI
    (XO (XO (XI (XO (XO (XO (XI XH))))))))))))))) :: ((((((Npos (XI (XO (XO
    (XO (XI (XI (XO (XO (XI (XO (XO (XO (XI XH)))))))))))))), (Npos (XO (XI
    (XO (XI (XI (XI (XO (XO (XI XH))))))))))), (Npos (XI (XO (XI (XO (XO (XI
    (XO (XO XH)))))))))), (Npos (XO (XO (XI XH))))), (Npos (XI (XO (XO (XO
    (XI (XI (XO (XI (XI (XO (XO (XO (XI XH))))))))))))))) :: ((((((Npos (XO
    (XI (XI (XO (XI (XI (XO (XI (XI (XO (XO (XO (XI XH)))))))))))))), (Npos
    (XI (XI (XI (XO (XO (XO XH)))))))), (Npos (XI (XO (XI (XO (XO (XI (XO (XO
    XH)))))))))), (Npos (XO (XO (XI XH))))), (Npos (XI (XO (XI (XO (XI (XI
    (XO (XO (XO (XI (XO (XO (XI XH))))))))))))))) :: ((((((Npos (XI (XO (XO
    (XI (XI (XI (XO (XO (XO (XI (XO (XO (XI XH)))))))))))))), (Npos (XI (XO
    (XI (XI (XI (XO (XO (XI (XI XH))))))))))), (Npos (XI (XO (XI (XO (XO (XI
    (XO (XO XH)))))))))), (Npos (XO (XO (XI XH))))), (Npos (XI (XI (XI (XO
    (XI (XI (XO (XI (XO (XI (XO (XO (XI XH))))))))))))))) :: ((((((Npos (XO
    (XI (XO (XI (XO (XO (XI (XI (XO (XI (XO (XO (XI XH)))))))))))))), (Npos
    (XO (XO (XO (XI (XI (XI (XI (XI (XO XH))))))))))), (Npos (XI (XO (XI (XO
    (XO (XI (XO (XO XH)))))))))), (Npos (XO (XO (XI XH))))), (Npos (XI (XI
    (XI (XO (XO (XO (XI (XO (XI (XI (XO (XO (XI
    XH))))))))))))))) :: ((((((Npos (XI (XI (XI (XO (XI (XO (XI (XO (XI (XI
    (XO (XO (XI XH)))))))))))))), (Npos (XO (XI (XO (XO (XO (XO (XO
    XH))))))))), (Npos (XI (XO (XI (XO (XO (XI (XO (XO XH)))))))))), (Npos
    (XO (XO (XI XH))))), (Npos (XI (XI (XO (XO (XI (XO (XI (XI (XI (XI (XO
    (XO (XI XH))))))))))))))) :: ((((((Npos (XO (XO (XI (XO (XO (XI (XI (XI
    (XI (XI (XO (XO (XI XH)))))))))))))), (Npos (XI (XO (XO (XO (XO (XO (XO
    (XI (XO XH))))))))))), (Npos (XI (XI (XO (XO (XI (XI (XO (XO
    XH)))))))))), (Npos (XO (XO (XI XH))))), (Npos (XI (XO (XI (XI (XO (XI
    (XI (XO (XO (XO (XI (XO (XI XH))))))))))))))) :: ((((((Npos (XI (XO (XO
    (XI (XO (XI (XI (XO (XO (XO (XI (XO (XI XH)))))))))))))), (Npos (XO (XO
    (XO (XO (XI (XO (XO (XI XH)))))))))), (Npos (XI (XI (XO (XO (XI (XI (XO
    (XO XH)))))))))), (Npos (XO (XO (XI XH))))), (Npos (XI (XO (XO (XO (XI
    (XI (XI (XI (XO (XO (XI (XO (XI XH))))))))))))))) :: ((((((Npos (XO (XI
    (XI (XO (XI (XI (XI (XI (XO (XO (XI (XO (XI XH)))))))))))))), (Npos (XO
    (XO (XO (XO (XO (XI (XI (XI XH)))))))))), (Npos (XI (XI (XO (XO (XI (XI
    (XO (XO XH)))))))))), (Npos (XO (XO (XI XH))))), (Npos (XI (XO (XI (XI
    (XI (XI (XI (XO (XI (XO (XI (XO (XI XH))))))))))))))) :: ((((((Npos (XI
    (XI (XI (XI (XI (XI (XI (XO (XI (XO (XI (XO (XI XH)))))))))))))), (Npos
    (XO (XO (XI (XI (XO (XO XH)))))))), (Npos (XI (XI (XO (XO (XI (XI (XO (XO
    XH)))))))))), (Npos (XO (XO (XI XH))))), (Npos (XI (XO (XI (XO (XO (XO
    (XO (XO (XO (XI (XI (XO (XI XH))))))))))))))) :: ((((((Npos (XI (XO (XO
    (XI (XO (XO (XO (XO (XO (XI (XI (XO (XI XH)))))))))))))), (Npos (XI (XO
    (XO (XI (XI (XO (XO (XI (XO XH))))))))))), (Npos (XI (XI (XO (XO (XI (XI
    (XO (XO XH)))))))))), (Npos (XO (XO (XI XH))))), (Npos (XI (XI (XI (XI
    (XO (XO (XO (XI (XO (XI (XI (XO (XI XH))))))))))))))) :: ((((((Npos (XO
    (XI (XI (XO (XI (XO (XO (XI (XO (XI (XI (XO (XI XH)))))))))))))), (Npos
    (XO (XI (XI (XI (XO (XO (XO (XI (XI XH))))))))))), (Npos (XI (XI (XO (XO
    (XI (XI (XO (XO XH)))))))))), (Npos (XO (XO (XI XH))))), (Npos (XI (XI
    (XO (XI (XI (XO (XO (XO (XI (XI (XI (XO (XI
    XH))))))))))))))) :: ((((((Npos (XI (XI (XO (XO (XO (XI (XO (XO (XI (XI
    (XI (XO (XI XH)))))))))))))), (Npos (XI (XI (XO (XO (XI (XO (XI (XI
    XH)))))))))), (Npos (XI (XI (XI (XO (XI (XI (XO (XO XH)))))))))), (Npos
    (XO (XO (XI XH))))), (Npos (XI (XI (XO (XI (XO (XI (XO (XI (XI (XI (XI
    (XO (XI XH))))))))))))))) :: ((((((Npos (XO (XO (XO (XO (XO (XO (XI (XI
    (XI (XI (XI (XO (XI XH)))))))))))))), (Npos (XO (XO (XI (XO (XO (XO (XI
    (XI (XI XH))))))))))), (Npos (XI (XI (XI (XO (XI (XI (XO (XO
    XH)))))))))), (Npos (XO (XO (XI XH))))), (Npos (XI (XI (XI (XO (XO (XO
    (XI (XO (XO (XO (XO (XI (XI XH))))))))))))))) :: ((((((Npos (XI (XI (XI
    (XI (XO (XO (XI (XO (XO (XO (XO (XI (XI XH)))))))))))))), (Npos (XI (XO
    (XO (XO (XI (XI (XI (XO (XO XH))))))))))), (Npos (XI (XO (XO (XI (XI (XI
    (XO (XO XH)))))))))), (Npos (XO (XO (XI XH))))), (Npos (XI (XI (XI (XO
    (XI (XO (XI (XI (XO (XO (XO (XI (XI XH))))))))))))))) :: ((((((Npos (XO
    (XO (XO (XO (XO (XI (XI (XI (XO (XO (XO (XI (XI XH)))))))))))))), (Npos
    (XO (XI (XO (XI (XO (XI (XI (XO XH)))))))))), (Npos (XI (XO (XI (XI (XI
    (XI (XO (XO XH)))))))))), (Npos (XO (XO (XI XH))))), (Npos (XI (XI (XO
    (XI (XO (XI (XI (XO (XI (XO (XO (XI (XI XH))))))))))))))) :: ((((((Npos
    (XI (XO (XO (XI (XI (XI (XI (XO (XI (XO (XO (XI (XI XH)))))))))))))),
    (Npos (XI (XI (XI (XO (XI (XI (XI (XI (XO XH))))))))))), (Npos (XI (XO
    (XI (XI (XI (XI (XO (XO XH)))))))))), (Npos (XO (XO (XI XH))))), (Npos
    (XI (XI (XO (XO (XO (XO (XO (XO (XO (XI (XO (XI (XI
    XH))))))))))))))) :: ((((((Npos (XO (XI (XI (XI (XO (XO (XO (XO (XO (XI
    (XO (XI (XI XH)))))))))))))), (Npos (XO (XO (XO (XI (XI (XO (XI (XI (XO
    XH))))))))))), (Npos (XI (XI (XO (XI (XO (XO (XI (XO XH)))))))))), (Npos
    (XO (XO (XI XH))))), (Npos (XI (XO (XI (XO (XO (XI (XO (XI (XO (XI (XO
    (XI (XI XH))))))))))))))) :: ((((((Npos (XI (XI (XO (XO (XO (XI (XO (XI
    (XO (XI (XO (XI (XI XH)))))))))))))), (Npos (XI (XI (XI (XO (XI (XO (XI
    (XO XH)))))))))), (Npos (XI (XI (XO (XI (XO (XO (XI (XO XH)))))))))),
    (Npos (XO (XO (XI XH))))), (Npos (XI (XO (XO (XI (XI (XI (XO (XO (XI (XI
    (XO (XI (XI XH))))))))))))))) :: ((((((Npos (XO (XI (XO (XO (XO (XO (XI
    (XO (XI (XI (XO (XI (XI XH)))))))))))))), (Npos (XI (XO (XO (XO (XI (XI
    XH)))))))), (Npos (XI (XI (XO (XI (XO (XO (XI (XO XH)))))))))), (Npos (XO
    (XO (XI XH))))), (Npos (XI (XI (XI (XO (XI (XO (XI (XI (XI (XI (XO (XI
    (XI XH))))))))))))))) :: ((((((Npos (XI (XO (XI (XI (XI (XO (XI (XI (XI
    (XI (XO (XI (XI XH)))))))))))))), (Npos (XI (XO (XO (XI (XO (XO (XO
    XH))))))))), (Npos (XI (XI (XO (XI (XO (XO (XI (XO XH)))))))))), (Npos
    (XO (XO (XI XH))))), (Npos (XI (XO (XO (XO (XI (XI (XI (XO (XO (XO (XI
    (XI (XI XH))))))))))))))) :: ((((((Npos (XO (XO (XO (XI (XO (XO (XO (XI
    (XO (XO (XI (XI (XI XH)))))))))))))), (Npos (XO (XO (XI (XO (XI (XI (XO
    (XO XH)))))))))), (Npos (XI (XI (XO (XI (XO (XO (XI (XO XH)))))))))),
    (Npos (XO (XO (XI XH))))), (Npos (XI (XI (XO (XI (XI (XO (XO (XO (XI (XO
    (XI (XI (XI XH))))))))))))))) :: ((((((Npos (XI (XI (XO (XO (XO (XI (XO
    (XO (XI (XO (XI (XI (XI XH)))))))))))))), (Npos (XO (XO (XO (XO (XO (XI
    (XO (XO (XI XH))))))))))), (Npos (XI (XO (XO (XO (XI (XO (XI (XO
    XH)))))))))), (Npos (XO (XO (XI XH))))), (Npos (XI (XI (XO (XI (XI (XI
    (XO (XI (XI (XO (XI (XI (XI XH))))))))))))))) :: ((((((Npos (XO (XO (XO
    (XO (XO (XO (XI (XI (XI (XO (XI (XI (XI XH)))))))))))))), (Npos (XI (XO
    (XO (XO (XI (XI (XO XH))))))))), (Npos (XI (XO (XO (XO (XI (XO (XI (XO
    XH)))))))))), (Npos (XO (XO (XI XH))))), (Npos (XI (XI (XI (XO (XI (XO
    (XI (XO (XO (XI (XI (XI (XI XH))))))))))))))) :: ((((((Npos (XI (XO (XO
    (XI (XO (XI (XI (XO (XO (XI (XI (XI (XI XH)))))))))))))), (Npos (XI (XO
    (XO (XO (XO (XO (XI (XI (XI XH))))))))))), (Npos (XI (XO (XO (XO (XI (XO
    (XI (XO XH)))))))))), (Npos (XO (XO (XI XH))))), (Npos (XI (XI (XI (XI
    (XI (XI (XI (XI (XO (XI (XI (XI (XI XH))))))))))))))) :: ((((((Npos (XI
    (XO (XO (XO (XO (XI (XO (XO (XI (XI (XI (XI (XI XH)))))))))))))), (Npos
    (XO (XI (XI (XI (XI (XI (XO (XI (XI XH))))))))))), (Npos (XI (XI (XO (XI
    (XI (XO (XI (XO XH)))))))))), (Npos (XO (XO (XI XH))))), (Npos (XI (XI
    (XI (XI (XI (XI (XO (XI (XI (XI (XI (XI (XI
    XH))))))))))))))) :: ((((((Npos (XO (XO (XO (XO (XI (XO (XI (XI (XI (XI
    (XI (XI (XI XH)))))))))))))), (Npos (XO (XO (XO (XI (XO (XO XH)))))))),
    (Npos (XI (XI (XO (XI (XI (XO (XI (XO XH)))))))))), (Npos (XO (XO (XI
    XH))))), (Npos (XI (XO (XI (XI (XO (XI (XI (XO (XO (XO (XO (XO (XO (XO
    XH)))))))))))))))) :: ((((((Npos (XI (XO (XO (XI (XI (XI (XI (XO (XO (XO
    (XO (XO (XO (XO XH))))))))))))))), (Npos (XO (XO (XI (XI (XI (XO (XI (XI
    (XO XH))))))))))), (Npos (XI (XI (XO (XI (XI (XO (XI (XO XH)))))))))),
    (Npos (XO (XO (XI XH))))), (Npos (XI (XO (XI (XO (XI (XO (XO (XO (XI (XO
    (XO (XO (XO (XO XH)))))))))))))))) :: ((((((Npos (XO (XI (XO (XO (XO (XI
    (XO (XO (XI (XO (XO (XO (XO (XO XH))))))))))))))), (Npos (XI (XO (XO (XO
    (XI (XO (XO XH))))))))), (Npos (XI (XO (XI (XI (XI (XO (XI (XO
    XH)))))))))), (Npos (XO (XO (XI XH))))), (Npos (XI (XI (XI (XI (XI (XI
    (XO (XI (XI (XO (XO (XO (XO (XO XH)))))))))))))))) :: ((((((Npos (XI (XI
    (XO (XO (XI (XO (XI (XI (XI (XO (XO (XO (XO (XO XH))))))))))))))), (Npos
    (XI (XO (XO (XO (XO (XO (XI (XO (XO XH))))))))))), (Npos (XI (XO (XO (XO
    (XO (XI (XI (XO XH)))))))))), (Npos (XO (XO (XI XH))))), (Npos (XI (XI
    (XO (XO (XI (XI (XI (XO (XO (XI (XO (XO (XO (XO
    XH)))))))))))))))) :: ((((((Npos (XO (XO (XO (XO (XO (XO (XO (XI (XO (XI
    (XO (XO (XO (XO XH))))))))))))))), (Npos (XI (XO (XO (XO (XI (XI (XO (XO
    XH)))))))))), (Npos (XI (XO (XO (XO (XO (XI (XI (XO XH)))))))))), (Npos
    (XO (XO (XI XH))))), (Npos (XI (XI (XI (XI (XI (XO (XO (XO (XI (XI (XO
    (XO (XO (XO XH)))))))))))))))) :: ((((((Npos (XI (XI (XO (XI (XO (XI (XO
    (XO (XI (XI (XO (XO (XO (XO XH))))))))))))))), (Npos (XO (XI (XO (XO (XI
    XH))))))), (Npos (XI (XI (XI (XO (XO (XI (XI (XO XH)))))))))), (Npos (XO
    (XO (XI XH))))), (Npos (XI (XI (XI (XI (XO (XO (XI (XI (XI (XI (XO (XO
    (XO (XO XH)))))))))))))))) :: ((((((Npos (XO (XO (XO (XO (XO (XI (XI (XI
    (XI (XI (XO (XO (XO (XO XH))))))))))))))), (Npos (XI (XI (XI (XI (XI (XO
    (XI (XO XH)))))))))), (Npos (XI (XI (XI (XO (XO (XI (XI (XO XH)))))))))),
    (Npos (XO (XO (XI XH))))), (Npos (XI (XI (XO (XO (XO (XO (XO (XI (XO (XO
    (XI (XO (XO (XO XH)))))))))))))))) :: ((((((Npos (XI (XI (XI (XO (XI (XO
    (XO (XI (XO (XO (XI (XO (XO (XO XH))))))))))))))), (Npos (XI (XI (XI (XI
    (XO (XI (XO XH))))))))), (Npos (XI (XI (XI (XI (XO (XI (XI (XO
    XH)))))))))), (Npos (XO (XO (XI XH))))), (Npos (XI (XO (XO (XO (XO (XO
    (XI (XO (XI (XO (XI (XO (XO (XO XH)))))))))))))))) :: ((((((Npos (XO (XI
    (XI (XI (XO (XO (XI (XO (XI (XO (XI (XO (XO (XO XH))))))))))))))), (Npos
    (XI (XI (XI (XO (XI (XO (XI (XI (XO XH))))))))))), (Npos (XI (XI (XI (XI
    (XO (XI (XI (XO XH)))))))))), (Npos (XO (XO (XI XH))))), (Npos (XI (XI
    (XI (XO (XI (XI (XI (XI (XI (XO (XI (XO (XO (XO
    XH)))))))))))))))) :: ((((((Npos (XI (XO (XO (XI (XO (XO (XO (XO (XO (XI
    (XI (XO (XO (XO XH))))))))))))))), (Npos (XO (XI (XI (XO (XO (XO (XO (XI
    (XI XH))))))))))), (Npos (XI (XI (XI (XI (XO (XI (XI (XO XH)))))))))),
    (Npos (XO (XO (XI XH))))), (Npos (XI (XO (XO (XO (XI (XI (XO (XI (XO (XI
    (XI (XO (XO (XO XH)))))))))))))))) :: ((((((Npos (XO (XO (XI (XO (XO (XO
    (XI (XI (XO (XI (XI (XO (XO (XO XH))))))))))))))), (Npos (XI (XO (XO (XI
    (XI (XO (XO (XI XH)))))))))), (Npos (XI (XO (XI (XO (XI (XI (XI (XO
    XH)))))))))), (Npos (XO (XO (XI XH))))), (Npos (XI (XO (XO (XO (XI (XI
    (XI (XO (XI (XI (XI (XO (XO (XO XH)))))))))))))))) :: ((((((Npos (XI (XO
    (XI (XO (XO (XO (XO (XI (XI (XI (XI (XO (XO (XO XH))))))))))))))), (Npos
    (XO (XO (XO (XI (XO (XO (XO (XO (XI XH))))))))))), (Npos (XI (XO (XI (XO
    (XI (XI (XI (XO XH)))))))))), (Npos (XO (XO (XI XH))))), (Npos (XI (XO
    (XO (XO (XI (XI (XO (XO (XO (XO (XO (XI (XO (XO
    XH)))))))))))))))) :: ((((((Npos (XI (XI (XI (XO (XO (XO (XI (XO (XO (XO
    (XO (XI (XO (XO XH))))))))))))))), (Npos (XO (XI (XO (XI (XO (XO (XI (XO
    (XO XH))))))))))), (Npos (XI (XI (XO (XI (XI (XI (XI (XO XH)))))))))),
    (Npos (XO (XO (XI XH))))), (Npos (XI (XI (XI (XO (XI (XI (XI (XI (XO (XO
    (XO (XI (XO (XO XH)))))))))))))))) :: ((((((Npos (XO (XI (XI (XO (XO (XO
    (XO (XO (XI (XO (XO (XI (XO (XO XH))))))))))))))), (Npos (XI (XI (XO (XO
    (XO (XO (XI (XI XH)))))))))), (Npos (XI (XI (XO (XI (XI (XI (XI (XO
    XH)))))))))), (Npos (XO (XO (XI XH))))), (Npos (XI (XO (XI (XO (XI (XI
    (XO (XI (XI (XO (XO (XI (XO (XO XH)))))))))))))))) :: ((((((Npos (XI (XO
    (XI (XI (XI (XO (XI (XI (XI (XO (XO (XI (XO (XO XH))))))))))))))), (Npos
    (XI (XI (XI (XI (XI (XO (XO (XO XH)))))))))), (Npos (XI (XI (XI (XI (XI
    (XI (XI (XO XH)))))))))), (Npos (XO (XO (XI XH))))), (Npos (XI (XI (XI
    (XI (XO (XO (XO (XI (XO (XI (XO (XI (XO (XO
    XH)))))))))))))))) :: ((((((Npos (XO (XI (XI (XO (XI (XI (XO (XI (XO (XI
    (XO (XI (XO (XO XH))))))))))))))), (Npos (XO (XI (XI (XO (XI (XI (XI
    XH))))))))), (Npos (XI (XO (XI (XO (XO (XO (XO (XI XH)))))))))), (Npos
    (XO (XO (XI XH))))), (Npos (XI (XO (XI (XI (XO (XI (XI (XO (XI (XI (XO
    (XI (XO (XO XH)))))))))))))))) :: ((((((Npos (XI (XO (XI (XI (XI (XI (XI
    (XO (XI (XI (XO (XI (XO (XO XH))))))))))))))), (Npos (XO (XI (XI (XI (XI
    (XO (XI XH))))))))), (Npos (XI (XO (XI (XO (XO (XO (XO (XI XH)))))))))),
    (Npos (XO (XO (XI XH))))), (Npos (XI (XI (XO (XO (XI (XI (XO (XO (XO (XO
    (XI (XI (XO (XO XH)))))))))))))))) :: ((((((Npos (XI (XI (XO (XO (XI (XO
    (XI (XO (XO (XO (XI (XI (XO (XO XH))))))))))))))), (Npos (XI (XI (XO (XO
    (XI (XI (XO (XO (XO XH))))))))))), (Npos (XI (XO (XI (XI (XO (XO (XO (XI
    XH)))))))))), (Npos (XO (XO (XI XH))))), (Npos (XI (XI (XI (XI (XO (XO
    (XO (XO (XI (XO (XI (XI (XO (XO XH)))))))))))))))) :: ((((((Npos (XO (XO
    (XI (XI (XI (XO (XO (XO (XI (XO (XI (XI (XO (XO XH))))))))))))))), (Npos
    (XI (XI (XI (XO (XO (XO (XI (XO (XI XH))))))))))), (Npos (XI (XO (XI (XI
    (XO (XO (XO (XI XH)))))))))), (Npos (XO (XO (XI XH))))), (Npos (XI (XI
    (XI (XO (XI (XO (XI (XI (XI (XO (XI (XI (XO (XO
    XH)))))))))))))))) :: ((((((Npos (XI (XI (XO (XO (XO (XI (XI (XI (XI (XO
    (XI (XI (XO (XO XH))))))))))))))), (Npos (XI (XO (XO (XO (XO (XO (XO (XI
    (XI XH))))))))))), (Npos (XI (XO (XO (XO (XI (XO (XO (XI XH)))))))))),
    (Npos (XO (XO (XI XH))))), (Npos (XI (XO (XO (XO (XO (XI (XO (XI (XO (XI
    (XI (XI (XO (XO XH)))))))))))))))) :: ((((((Npos (XO (XO (XO (XI (XI (XI
    (XO (XI (XO (XI (XI (XI (XO (XO XH))))))))))))))), (Npos (XI (XO (XO (XI
    (XI (XO (XO (XI XH)))))))))), (Npos (XI (XO (XO (XO (XI (XO (XO (XI
    XH)))))))))), (Npos (XO (XO (XI XH))))), (Npos (XI (XO (XI (XO (XI (XI
    (XI (XO (XI (XI (XI (XI (XO (XO XH)))))))))))))))) :: ((((((Npos (XI (XI
    (XO (XO (XO (XO (XO (XI (XI (XI (XI (XI (XO (XO XH))))))))))))))), (Npos
    (XO (XI (XO (XI (XO (XI (XI (XO (XO XH))))))))))), (Npos (XI (XO (XO (XI
    (XI (XO (XO (XI XH)))))))))), (Npos (XO (XO (XI XH))))), (Npos (XI (XI
    (XI (XO (XO (XO (XI (XO (XO (XO (XO (XO (XI (XO
    XH)))))))))))))))) :: ((((((Npos (XO (XO (XI (XO (XI (XO (XI (XO (XO (XO
    (XO (XO (XI (XO XH))))))))))))))), (Npos (XI (XI (XI (XO (XI (XI (XO (XI
    XH)))))))))), (Npos (XI (XO (XO (XI (XI (XO (XO (XI XH)))))))))), (Npos
    (XO (XO (XI XH))))), (Npos (XI (XI (XI (XO (XI (XO (XO (XO (XI (XO (XO
    (XO (XI (XO XH)))))))))))))))) :: ((((((Npos (XO (XI (XO (XI (XO (XI (XO
    (XO (XI (XO (XO (XO (XI (XO XH))))))))))))))), (Npos (XI (XI (XI (XI (XI
    (XO XH)))))))), (Npos (XI (XI (XO (XO (XO (XI (XO (XI XH)))))))))), (Npos
    (XI (XO (XI XH))))), (Npos (XI (XI (XI (XO (XI (XI (XI (XI (XI (XO (XO
    (XO (XI (XO XH)))))))))))))))) :: ((((((Npos (XO (XO (XI (XI (XI (XI (XI
    (XI (XI (XO (XO (XO (XI (XO XH))))))))))))))), (Npos (XO (XO (XO (XO (XO
    (XO (XI (XI XH)))))))))), (Npos (XI (XI (XO (XO (XO (XI (XO (XI
    XH)))))))))), (Npos (XI (XO (XI XH))))), (Npos (XI (XI (XI (XO (XO (XO
    (XI (XI (XO (XI (XO (XO (XI (XO XH)))))))))))))))) :: ((((((Npos (XI (XI
    (XI (XI (XO (XO (XI (XI (XO (XI (XO (XO (XI (XO XH))))))))))))))), (Npos
    (XI (XO (XI (XO (XO (XO (XO XH))))))))), (Npos (XI (XI (XO (XO (XO (XI
    (XO (XI XH)))))))))), (Npos (XI (XO (XI XH))))), (Npos (XI (XO (XO (XI
    (XI (XO (XO (XI (XI (XI (XO (XO (XI (XO XH)))))))))))))))) :: ((((((Npos
    (XO (XO (XI (XO (XO (XI (XO (XI (XI (XI (XO (XO (XI (XO
    XH))))))))))))))), (Npos (XO (XI (XO (XI (XO (XI (XO (XI (XI
    XH))))))))))), (Npos (XI (XI (XO (XO (XO (XI (XO (XI XH)))))))))), (Npos
    (XI (XO (XI XH))))), (Npos (XI (XO (XI (XI (XO (XI (XI (XO (XO (XO (XI
    (XO (XI (XO XH)))))))))))))))) :: ((((((Npos (XI (XO (XI (XI (XI (XI (XI
    (XO (XO (XO (XI (XO (XI (XO XH))))))))))))))), (Npos (XI (XI (XI (XO (XO
    (XI (XO (XI XH)))))))))), (Npos (XI (XI (XI (XI (XO (XI (XO (XI
    XH)))))))))), (Npos (XI (XO (XI XH))))), (Npos (XI (XO (XO (XO (XI (XO
    (XI (XO (XI (XO (XI (XO (XI (XO XH)))))))))))))))) :: ((((((Npos (XO (XO
    (XI (XI (XI (XO (XI (XO (XI (XO (XI (XO (XI (XO XH))))))))))))))), (Npos
    (XO (XI (XO (XI (XI (XO XH)))))))), (Npos (XI (XI (XI (XI (XO (XI (XO (XI
    XH)))))))))), (Npos (XI (XO (XI XH))))), (Npos (XI (XI (XI (XI (XO (XI
    (XO (XO (XO (XI (XI (XO (XI (XO XH)))))))))))))))) :: ((((((Npos (XI (XO
    (XO (XI (XI (XI (XO (XO (XO (XI (XI (XO (XI (XO XH))))))))))))))), (Npos
    (XO (XO (XO (XO (XO (XO (XO (XI (XO XH))))))))))), (Npos (XI (XI (XI (XI
    (XO (XI (XO (XI XH)))))))))), (Npos (XI (XO (XI XH))))), (Npos (XI (XI
    (XO (XI (XO (XO (XO (XO (XI (XI (XI (XO (XI (XO
    XH)))))))))))))))) :: ((((((Npos (XI (XO (XI (XI (XI (XO (XO (XO (XI (XI
    (XI (XO (XI (XO XH))))))))))))))), (Npos (XO (XI (XO (XI (XI (XO (XO (XI
    (XI XH))))))))))), (Npos (XI (XO (XO (XO (XI (XI (XO (XI XH)))))))))),
    (Npos (XI (XO (XI XH))))), (Npos (XI (XI (XI (XI (XO (XI (XI (XI (XI (XI
    (XI (XO (XI (XO XH)))))))))))))))) :: ((((((Npos (XO (XO (XO (XI (XO (XO
    (XO (XO (XO (XO (XO (XI (XI (XO XH))))))))))))))), (Npos (XO (XI (XO (XI
    (XI (XI (XI XH))))))))), (Npos (XI (XI (XI (XO (XI (XI (XO (XI
    XH)))))))))), (Npos (XI (XO (XI XH))))), (Npos (XI (XI (XI (XI (XI (XO
    (XI (XI (XO (XO (XO (XI (XI (XO XH)))))))))))))))) :: ((((((Npos (XI (XI
    (XO (XI (XI (XI (XI (XI (XO (XO (XO (XI (XI (XO XH))))))))))))))), (Npos
    (XI (XI (XI (XI (XO (XI (XI (XO XH)))))))))), (Npos (XI (XI (XI (XO (XI
    (XI (XO (XI XH)))))))))), (Npos (XI (XO (XI XH))))), (Npos (XI (XO (XO
    (XO (XI (XO (XI (XI (XI (XO (XO (XI (XI (XO
    XH)))))))))))))))) :: ((((((Npos (XO (XI (XO (XO (XO (XI (XI (XI (XI (XO
    (XO (XI (XI (XO XH))))))))))))))), (Npos (XI (XI (XI (XI (XI (XI (XO (XI
    XH)))))))))), (Npos (XI (XI (XO (XI (XI (XI (XO (XI XH)))))))))), (Npos
    (XI (XO (XI XH))))), (Npos (XI (XI (XO (XI (XI (XI (XO (XI (XO (XI (XO
    (XI (XI (XO XH)))))))))))))))) :: ((((((Npos (XO (XO (XI (XO (XI (XO (XI
    (XI (XO (XI (XO (XI (XI (XO XH))))))))))))))), (Npos (XI (XI (XI (XI (XO
    (XI (XO (XO (XO XH))))))))))), (Npos (XI (XO (XO (XO (XO (XO (XI (XI
    XH)))))))))), (Npos (XI (XO (XI XH))))), (Npos (XI (XO (XO (XO (XI (XI
    (XO (XI (XI (XI (XO (XI (XI (XO XH)))))))))))))))) :: ((((((Npos (XI (XI
    (XO (XO (XO (XO (XI (XI (XI (XI (XO (XI (XI (XO XH))))))))))))))), (Npos
    (XI (XO (XO (XI (XI (XI XH)))))))), (Npos (XI (XO (XO (XI (XO (XO (XI (XI
    XH)))))))))), (Npos (XI (XO (XI XH))))), (Npos (XI (XI (XI (XO (XO (XI
    (XO (XI (XO (XO (XI (XI (XI (XO XH)))))))))))))))) :: ((((((Npos (XO (XI
    (XO (XO (XI (XI (XO (XI (XO (XO (XI (XI (XI (XO XH))))))))))))))), (Npos
    (XI (XI (XI (XI (XO (XI (XI (XO (XO XH))))))))))), (Npos (XI (XO (XO (XI
    (XO (XO (XI (XI XH)))))))))), (Npos (XI (XO (XI XH))))), (Npos (XI (XO
    (XI (XO (XI (XO (XO (XI (XI (XO (XI (XI (XI (XO
    XH)))))))))))))))) :: ((((((Npos (XI (XI (XO (XO (XO (XI (XO (XI (XI (XO
    (XI (XI (XI (XO XH))))))))))))))), (Npos (XO (XI (XO (XO (XO (XO (XI (XI
    XH)))))))))), (Npos (XI (XO (XO (XI (XO (XO (XI (XI XH)))))))))), (Npos
    (XI (XO (XI XH))))), (Npos (XI (XO (XI (XO (XO (XO (XO (XI (XO (XI (XI
    (XI (XI (XO XH)))))))))))))))) :: ((((((Npos (XI (XI (XI (XO (XI (XO (XO
    (XI (XO (XI (XI (XI (XI (XO XH))))))))))))))), (Npos (XI (XO (XI (XI (XI
    (XI (XI XH))))))))), (Npos (XI (XO (XI (XI (XO (XO (XI (XI XH)))))))))),
    (Npos (XI (XO (XI XH))))), (Npos (XI (XI (XO (XI (XI (XI (XI (XO (XI (XI
    (XI (XI (XI (XO XH)))))))))))))))) :: ((((((Npos (XO (XO (XI (XI (XI (XO
    (XO (XI (XI (XI (XI (XI (XI (XO XH))))))))))))))), (Npos (XO (XI (XO (XI
    (XO (XI XH)))))))), (Npos (XI (XI (XO (XO (XI (XO (XI (XI XH)))))))))),
    (Npos (XI (XO (XI XH))))), (Npos (XI (XO (XI (XO (XO (XO (XO (XI (XO (XO
    (XO (XO (XO (XI XH)))))))))))))))) :: ((((((Npos (XI (XO (XO (XO (XI (XO
    (XO (XI (XO (XO (XO (XO (XO (XI XH))))))))))))))), (Npos (XI (XI (XI (XI
    (XI (XO (XI (XO (XI XH))))))))))), (Npos (XI (XI (XO (XO (XI (XO (XI (XI
    XH)))))))))), (Npos (XI (XO (XI XH))))), (Npos (XI (XO (XO (XI (XI (XI
    (XI (XO (XI (XO (XO (XO (XO (XI XH)))))))))))))))) :: ((((((Npos (XO (XO
    (XO (XO (XI (XO (XO (XI (XI (XO (XO (XO (XO (XI XH))))))))))))))), (Npos
    (XO (XO (XI (XO (XI (XO (XO XH))))))))), (Npos (XI (XI (XI (XI (XI (XO
    (XI (XI XH)))))))))), (Npos (XI (XO (XI XH))))), (Npos (XI (XI (XO (XO
    (XO (XO (XO (XI (XO (XI (XO (XO (XO (XI XH)))))))))))))))) :: ((((((Npos
    (XO (XI (XI (XI (XO (XO (XO (XI (XO (XI (XO (XO (XO (XI
    XH))))))))))))))), (Npos (XI (XI (XO (XI (XO (XI (XO (XI XH)))))))))),
    (Npos (XI (XI (XI (XI (XI (XO (XI (XI XH)))))))))), (Npos (XI (XO (XI
    XH))))), (Npos (XI (XI (XI (XI (XI (XI (XI (XO (XI (XI (XO (XO (XO (XI
    XH)))))))))))))))) :: ((((((Npos (XI (XO (XI (XO (XI (XO (XO (XI (XI (XI
    (XO (XO (XO (XI XH))))))))))))))), (Npos (XO (XI (XO (XI (XO (XO (XO
    XH))))))))), (Npos (XI (XI (XI (XI (XI (XO (XI (XI XH)))))))))), (Npos
    (XI (XO (XI XH))))), (Npos (XI (XO (XI (XO (XO (XO (XO (XI (XO (XO (XI
    (XO (XO (XI XH)))))))))))))))) :: ((((((Npos (XO (XO (XI (XI (XI (XO (XO
    (XI (XO (XO (XI (XO (XO (XI XH))))))))))))))), (Npos (XO (XI (XO (XI (XI
    (XO (XO (XO (XI XH))))))))))), (Npos (XI (XI (XI (XO (XO (XI (XI (XI
    XH)))))))))), (Npos (XI (XO (XI XH))))), (Npos (XI (XI (XO (XO (XI (XO
    (XO (XI (XI (XO (XI (XO (XO (XI XH)))))))))))))))) :: ((((((Npos (XO (XI
    (XI (XO (XO (XI (XO (XI (XI (XO (XI (XO (XO (XI XH))))))))))))))), (Npos
    (XI (XI (XI (XO (XI (XI (XI XH))))))))), (Npos (XI (XI (XI (XO (XO (XI
    (XI (XI XH)))))))))), (Npos (XI (XO (XI XH))))), (Npos (XI (XI (XO (XI
    (XI (XO (XO (XI (XO (XI (XI (XO (XO (XI XH)))))))))))))))) :: ((((((Npos
    (XI (XI (XO (XO (XI (XI (XO (XI (XO (XI (XI (XO (XO (XI
    XH))))))))))))))), (Npos (XO (XI (XO (XO (XI (XI (XO (XO (XO
    XH))))))))))), (Npos (XI (XI (XO (XI (XO (XI (XI (XI XH)))))))))), (Npos
    (XI (XO (XI XH))))), (Npos (XI (XI (XO (XI (XO (XI (XO (XI (XI (XI (XI
    (XO (XO (XI XH)))))))))))))))) :: ((((((Npos (XO (XI (XI (XO (XO (XO (XI
    (XI (XI (XI (XI (XO (XO (XI XH))))))))))))))), (Npos (XI (XO (XI (XO (XI
    XH))))))), (Npos (XI (XI (XO (XO (XI (XI (XI (XI XH)))))))))), (Npos (XI
    (XO (XI XH))))), (Npos (XI (XO (XI (XO (XO (XO (XI (XI (XO (XO (XO (XI
    (XO (XI XH)))))))))))))))) :: ((((((Npos (XO (XI (XI (XO (XI (XO (XI (XI
    (XO (XO (XO (XI (XO (XI XH))))))))))))))), (Npos (XI (XI (XI (XO (XO (XO
    (XO XH))))))))), (Npos (XI (XI (XO (XO (XI (XI (XI (XI XH)))))))))),
    (Npos (XI (XO (XI XH))))), (Npos (XI (XI (XO (XO (XI (XO (XI (XI (XI (XO
    (XO (XI (XO (XI XH)))))))))))))))) :: ((((((Npos (XI (XI (XI (XO (XO (XI
    (XI (XI (XI (XO (XO (XI (XO (XI XH))))))))))))))), (Npos (XI (XO (XI (XO
    XH)))))), (Npos (XI (XI (XI (XO (XI (XI (XI (XI XH)))))))))), (Npos (XI
    (XO (XI XH))))), (Npos (XI (XI (XI (XO (XO (XI (XI (XI (XO (XI (XO (XI
    (XO (XI XH)))))))))))))))) :: ((((((Npos (XO (XO (XO (XO (XO (XO (XO (XO
    (XI (XI (XO (XI (XO (XI XH))))))))))))))), (Npos (XI (XO (XO (XI (XO (XO
    (XI XH))))))))), (Npos (XI (XO (XI (XI (XI (XI (XI (XI XH)))))))))),
    (Npos (XI (XO (XI XH))))), (Npos (XI (XO (XI (XO (XO (XO (XO (XO (XO (XO
    (XI (XI (XO (XI XH)))))))))))))))) :: ((((((Npos (XO (XI (XO (XO (XO (XI
    (XO (XO (XO (XO (XI (XI (XO (XI XH))))))))))))))), (Npos (XI (XO (XO (XI
    (XO (XI (XO XH))))))))), (Npos (XI (XO (XO (XI (XO (XO (XO (XO (XO
    XH))))))))))), (Npos (XI (XO (XI XH))))), (Npos (XI (XO (XO (XO (XI (XI
    (XO (XO (XI (XO (XI (XI (XO (XI XH)))))))))))))))) :: ((((((Npos (XI (XI
    (XI (XO (XI (XI (XO (XO (XI (XO (XI (XI (XO (XI XH))))))))))))))), (Npos
    (XO (XI (XI (XO (XO (XO XH)))))))), (Npos (XI (XO (XO (XI (XO (XO (XO (XO
    (XO XH))))))))))), (Npos (XI (XO (XI XH))))), (Npos (XI (XO (XI (XO (XO
    (XO (XI (XO (XO (XI (XI (XI (XO (XI XH)))))))))))))))) :: ((((((Npos (XO
    (XO (XO (XI (XI (XO (XI (XO (XO (XI (XI (XI (XO (XI XH))))))))))))))),
    (Npos (XO (XI (XO (XO (XO (XO (XO (XI XH)))))))))), (Npos (XI (XO (XO (XI
    (XO (XO (XO (XO (XO XH))))))))))), (Npos (XI (XO (XI XH))))), (Npos (XI
    (XO (XI (XO (XO (XI (XI (XO (XI (XI (XI (XI (XO (XI
    XH)))))))))))))))) :: ((((((Npos (XO (XO (XI (XO (XO (XO (XO (XI (XI (XI
    (XI (XI (XO (XI XH))))))))))))))), (Npos (XO (XI (XO (XO (XO (XI (XI
    XH))))))))), (Npos (XI (XI (XO (XI (XO (XO (XO (XO (XO XH))))))))))),
    (Npos (XI (XO (XI XH))))), (Npos (XI (XO (XO (XO (XI (XO (XO (XI (XO (XO
    (XO (XO (XI (XI XH)))))))))))))))) :: ((((((Npos (XI (XO (XI (XI (XO (XI
    (XO (XI (XO (XO (XO (XO (XI (XI XH))))))))))))))), (Npos (XI XH))), (Npos
    (XI (XO (XI (XI (XI (XO (XO (XO (XO XH))))))))))), (Npos (XI (XO (XI
    XH))))), (Npos (XI (XI (XO (XI (XO (XO (XI (XI (XI (XO (XO (XO (XI (XI
    XH)))))))))))))))) :: ((((((Npos (XO (XI (XO (XO (XI (XO (XI (XI (XI (XO
    (XO (XO (XI (XI XH))))))))))))))), (Npos (XI (XO (XO (XO (XO (XO (XO (XO
    (XI XH))))))))))), (Npos (XI (XO (XI (XI (XI (XO (XO (XO (XO
    XH))))))))))), (Npos (XI (XO (XI XH))))), (Npos (XI (XI (XI (XI (XO (XI
    (XI (XI (XO (XI (XO (XO (XI (XI XH)))))))))))))))) :: ((((((Npos (XO (XI
    (XO (XI (XI (XI (XI (XI (XO (XI (XO (XO (XI (XI XH))))))))))))))), (Npos
    (XO (XI (XI (XI (XO (XO (XI (XO (XO XH))))))))))), (Npos (XI (XO (XI (XI
    (XI (XO (XO (XO (XO XH))))))))))), (Npos (XI (XO (XI XH))))), (Npos (XI
    (XO (XI (XO (XI (XO (XO (XO (XO (XO (XI (XO (XI (XI
    XH)))))))))))))))) :: ((((((Npos (XI (XI (XO (XO (XO (XI (XO (XO (XO (XO
    (XI (XO (XI (XI XH))))))))))))))), (Npos (XO (XO (XO (XO (XO (XI (XO (XI
    (XO XH))))))))))), (Npos (XI (XO (XI (XI (XI (XO (XO (XO (XO
    XH))))))))))), (Npos (XI (XO (XI XH))))), (Npos (XI (XO (XI (XI (XI (XI
    (XO (XO (XI (XO (XI (XO (XI (XI XH)))))))))))))))) :: ((((((Npos (XI (XO
    (XI (XO (XI (XO (XI (XO (XI (XO (XI (XO (XI (XI XH))))))))))))))), (Npos
    (XI (XO (XO (XI (XO (XO (XI (XI (XO XH))))))))))), (Npos (XI (XI (XO (XO
    (XO (XI (XO (XO (XO XH))))))))))), (Npos (XI (XO (XI XH))))), (Npos (XI
    (XI (XO (XO (XI (XI (XI (XO (XO (XI (XI (XO (XI (XI
    XH)))))))))))))))) :: ((((((Npos (XO (XI (XO (XI (XO (XO (XO (XI (XO (XI
    (XI (XO (XI (XI XH))))))))))))))), (Npos (XI (XI (XI (XO (XO (XO (XI (XI
    (XI XH))))))))))), (Npos (XI (XI (XO (XO (XO (XI (XO (XO (XO
    XH))))))))))), (Npos (XI (XO (XI XH))))), (Npos (XI (XI (XI (XO (XO (XI
    (XO (XI (XI (XI (XI (XO (XI (XI XH)))))))))))))))) :: ((((((Npos (XO (XI
    (XI (XI (XI (XI (XO (XI (XI (XI (XI (XO (XI (XI XH))))))))))))))), (Npos
    (XO (XO (XO (XO (XI (XI (XI (XO XH)))))))))), (Npos (XI (XO (XI (XI (XO
    (XI (XO (XO (XO XH))))))))))), (Npos (XO (XI (XI XH))))), (Npos (XI (XO
    (XI (XO (XO (XI (XI (XI (XO (XO (XO (XI (XI (XI
    XH)))))))))))))))) :: ((((((Npos (XO (XI (XI (XI (XI (XI (XI (XI (XO (XO
    (XO (XI (XI (XI XH))))))))))))))), (Npos (XO (XO (XI (XI (XI (XO (XI (XO
    XH)))))))))), (Npos (XI (XO (XI (XI (XO (XI (XO (XO (XO XH))))))))))),
    (Npos (XO (XI (XI XH))))), (Npos (XI (XI (XO (XO (XO (XI (XO (XO (XO (XI
    (XO (XI (XI (XI XH)))))))))))))))) :: ((((((Npos (XI (XO (XI (XO (XI (XI
    (XO (XO (XO (XI (XO (XI (XI (XI XH))))))))))))))), (Npos (XI (XI (XI (XO
    (XI (XI XH)))))))), (Npos (XI (XI (XO (XO (XI (XI (XO (XO (XO
    XH))))))))))), (Npos (XO (XI (XI XH))))), (Npos (XI (XI (XI (XI (XI (XO
    (XI (XO (XI (XI (XO (XI (XI (XI XH)))))))))))))))) :: ((((((Npos (XI (XO
    (XI (XO (XI (XI (XI (XO (XI (XI (XO (XI (XI (XI XH))))))))))))))), (Npos
    (XI (XI (XI (XO (XI (XI (XI (XI XH)))))))))), (Npos (XI (XO (XO (XI (XI
    (XI (XO (XO (XO XH))))))))))), (Npos (XO (XI (XI XH))))), (Npos (XI (XI
    (XO (XO (XO (XI (XO (XI (XO (XO (XI (XI (XI (XI
    XH)))))))))))))))) :: ((((((Npos (XO (XO (XI (XI (XO (XO (XI (XI (XO (XO
    (XI (XI (XI (XI XH))))))))))))))), (Npos (XI (XO (XI (XO (XI (XI (XO
    XH))))))))), (Npos (XI (XI (XO (XI (XI (XI (XO (XO (XO XH))))))))))),
    (Npos (XO (XI (XI XH))))), (Npos (XI (XI (XO (XI (XI (XI (XI (XI (XI (XO
    (XI (XI (XI (XI XH)))))))))))))))) :: ((((((Npos (XO (XO (XO (XO (XI (XO
    (XO (XO (XO (XI (XI (XI (XI (XI XH))))))))))))))), (Npos (XO (XI (XO (XI
    (XO (XO (XO (XI XH)))))))))), (Npos (XI (XO (XO (XO (XO (XO (XI (XO (XO
    XH))))))))))), (Npos (XO (XI (XI XH))))), (Npos (XI (XI (XO (XO (XO (XO
    (XI (XO (XI (XI (XI (XI (XI (XI XH)))))))))))))))) :: ((((((Npos (XI (XO
    (XO (XI (XI (XO (XI (XO (XI (XI (XI (XI (XI (XI XH))))))))))))))), (Npos
    (XI (XO (XI (XI (XI (XI (XO XH))))))))), (Npos (XI (XI (XO (XI (XO (XO
    (XI (XO (XO XH))))))))))), (Npos (XO (XI (XI XH))))), (Npos (XI (XO (XI
    (XO (XI (XO (XO (XI (XO (XO (XO (XO (XO (XO (XO
    XH))))))))))))))))) :: ((((((Npos (XO (XO (XI (XO (XO (XI (XO (XI (XO (XO
    (XO (XO (XO (XO (XO XH)))))))))))))))), (Npos (XO (XI (XO (XO (XI (XO (XI
    XH))))))))), (Npos (XI (XI (XO (XI (XO (XO (XI (XO (XO XH))))))))))),
    (Npos (XO (XI (XI XH))))), (Npos (XI (XI (XI (XI (XI (XO (XI (XI (XI (XO
    (XO (XO (XO (XO (XO XH))))))))))))))))) :: ((((((Npos (XO (XI (XO (XO (XO
    (XO (XO (XO (XO (XI (XO (XO (XO (XO (XO XH)))))))))))))))), (Npos (XO (XI
    (XI (XI (XI XH))))))), (Npos (XI (XO (XO (XO (XI (XO (XI (XO (XO
    XH))))))))))), (Npos (XO (XI (XI XH))))), (Npos (XI (XO (XO (XO (XO (XO
    (XI (XO (XI (XI (XO (XO (XO (XO (XO XH))))))))))))))))) :: ((((((Npos (XI
    (XI (XI (XO (XI (XO (XI (XO (XI (XI (XO (XO (XO (XO (XO
    XH)))))))))))))))), (Npos (XI (XO (XO (XO (XI (XO (XO (XO XH)))))))))),
    (Npos (XI (XO (XO (XO (XI (XO (XI (XO (XO XH))))))))))), (Npos (XO (XI
    (XI XH))))), (Npos (XI (XO (XI (XO (XI (XO (XO (XI (XO (XO (XI (XO (XO
    (XO (XO XH))))))))))))))))) :: ((((((Npos (XI (XO (XO (XI (XO (XI (XO (XI
    (XO (XO (XI (XO (XO (XO (XO XH)))))))))))))))), (Npos (XO (XI (XO (XI (XO
    (XI (XO (XO (XO XH))))))))))), (Npos (XI (XI (XI (XO (XI (XO (XI (XO (XO
    XH))))))))))), (Npos (XO (XI (XI XH))))), (Npos (XI (XI (XO (XI (XO (XI
    (XI (XI (XI (XO (XI (XO (XO (XO (XO XH))))))))))))))))) :: ((((((Npos (XO
    (XI (XI (XI (XI (XI (XI (XI (XI (XO (XI (XO (XO (XO (XO
    XH)))))))))))))))), (Npos (XO (XO (XO (XI (XO (XI (XO (XI (XI
    XH))))))))))), (Npos (XI (XI (XI (XI (XI (XO (XI (XO (XO XH))))))))))),
    (Npos (XO (XI (XI XH))))), (Npos (XI (XI (XI (XO (XO (XO (XI (XO (XI (XI
    (XI (XO (XO (XO (XO XH))))))))))))))))) :: ((((((Npos (XO (XI (XI (XI (XI
    (XO (XI (XO (XI (XI (XI (XO (XO (XO (XO XH)))))))))))))))), (Npos (XI (XI
    (XO (XO (XO (XI (XI (XI XH)))))))))), (Npos (XI (XI (XI (XI (XI (XO (XI
    (XO (XO XH))))))))))), (Npos (XO (XI (XI XH))))), (Npos (XI (XO (XI (XO
    (XO (XI (XO (XI (XO (XO (XO (XI (XO (XO (XO
    XH))))))))))))))))) :: ((((((Npos (XI (XI (XI (XO (XI (XO (XI (XI (XO (XO
    (XO (XI (XO (XO (XO XH)))))))))))))))), (Npos (XI (XO (XI (XI (XO (XO (XO
    (XI XH)))))))))), (Npos (XI (XO (XI (XO (XO (XI (XI (XO (XO
    XH))))))))))), (Npos (XO (XI (XI XH))))), (Npos (XI (XI (XO (XO (XO (XI
    (XO (XO (XO (XI (XO (XI (XO (XO (XO XH))))))))))))))))) :: ((((((Npos (XI
    (XI (XO (XO (XO (XO (XI (XO (XO (XI (XO (XI (XO (XO (XO
    XH)))))))))))))))), (Npos (XI (XO (XO (XO (XI (XI (XI XH))))))))), (Npos
    (XI (XI (XO (XI (XO (XI (XI (XO (XO XH))))))))))), (Npos (XO (XI (XI
    XH))))), (Npos (XI (XI (XO (XO (XI (XO (XO (XI (XI (XI (XO (XI (XO (XO
    (XO XH))))))))))))))))) :: ((((((Npos (XO (XI (XI (XO (XO (XI (XO (XI (XI
    (XI (XO (XI (XO (XO (XO XH)))))))))))))))), (Npos (XO (XO (XI (XO (XI (XI
    (XI (XI XH)))))))))), (Npos (XI (XI (XI (XO (XI (XI (XI (XO (XO
    XH))))))))))), (Npos (XO (XI (XI XH))))), (Npos (XI (XO (XO (XO (XO (XO
    (XO (XO (XI (XO (XI (XI (XO (XO (XO XH))))))))))))))))) :: ((((((Npos (XO
    (XO (XO (XO (XI (XO (XO (XO (XI (XO (XI (XI (XO (XO (XO
    XH)))))))))))))))), (Npos (XO (XO (XI XH))))), (Npos (XI (XI (XI (XO (XI
    (XI (XI (XO (XO XH))))))))))), (Npos (XO (XI (XI XH))))), (Npos (XI (XO
    (XO (XI (XO (XI (XI (XO (XO (XI (XI (XI (XO (XO (XO
    XH))))))))))))))))) :: ((((((Npos (XI (XI (XI (XI (XI (XI (XI (XO (XO (XI
    (XI (XI (XO (XO (XO XH)))))))))))))))), (Npos (XO (XI (XI (XI (XI (XI (XO
    (XI (XI XH))))))))))), (Npos (XI (XO (XO (XO (XO (XO (XO (XI (XO
    XH))))))))))), (Npos (XO (XI (XI XH))))), (Npos (XI (XO (XO (XO (XO (XI
    (XI (XI (XI (XI (XI (XI (XO (XO (XO XH))))))))))))))))) :: ((((((Npos (XI
    (XO (XO (XO (XI (XI (XI (XI (XI (XI (XI (XI (XO (XO (XO
    XH)))))))))))))))), (Npos (XO (XO (XI (XI (XO (XO (XO (XO (XO
    XH))))))))))), (Npos (XI (XO (XO (XO (XO (XO (XO (XI (XO XH))))))))))),
    (Npos (XO (XI (XI XH))))), (Npos (XI (XO (XO (XO (XI (XO (XI (XO (XI (XO
    (XO (XO (XI (XO (XO XH))))))))))))))))) :: ((((((Npos (XI (XI (XO (XI (XO
    (XI (XI (XO (XI (XO (XO (XO (XI (XO (XO XH)))))))))))))))), (Npos (XO (XO
    (XO XH))))), (Npos (XI (XI (XO (XO (XO (XO (XO (XI (XO XH))))))))))),
    (Npos (XO (XI (XI XH))))), (Npos (XI (XI (XO (XI (XO (XO (XI (XI (XO (XI
    (XO (XO (XI (XO (XO XH))))))))))))))))) :: ((((((Npos (XO (XI (XI (XO (XO
    (XI (XI (XI (XO (XI (XO (XO (XI (XO (XO XH)))))))))))))))), (Npos (XO (XO
    (XI (XO (XO (XI XH)))))))), (Npos (XI (XO (XI (XI (XO (XO (XO (XI (XO
    XH))))))))))), (Npos (XO (XI (XI XH))))), (Npos (XI (XI (XI (XI (XO (XO
    (XI (XO (XO (XO (XI (XO (XI (XO (XO XH))))))))))))))))) :: ((((((Npos (XO
    (XO (XO (XI (XO (XI (XI (XO (XO (XO (XI (XO (XI (XO (XO
    XH)))))))))))))))), (Npos (XI (XI (XO (XO (XI (XO (XI (XO XH)))))))))),
    (Npos (XI (XO (XI (XI (XO (XO (XO (XI (XO XH))))))))))), (Npos (XO (XI
    (XI XH))))), (Npos (XI (XI (XI (XI (XO (XO (XI (XI (XI (XO (XI (XO (XI
    (XO (XO XH))))))))))))))))) :: ((((((Npos (XI (XO (XO (XO (XI (XI (XI (XI
    (XI (XO (XI (XO (XI (XO (XO XH)))))))))))))))), (Npos (XO (XO (XI (XO (XO
    (XI (XO (XO (XI XH))))))))))), (Npos (XI (XI (XO (XO (XI (XO (XO (XI (XO
    XH))))))))))), (Npos (XO (XI (XI XH))))), (Npos (XI (XO (XI (XI (XI (XO
    (XI (XO (XI (XI (XI (XO (XI (XO (XO XH))))))))))))))))) :: ((((((Npos (XI
    (XI (XO (XO (XO (XO (XO (XI (XI (XI (XI (XO (XI (XO (XO
    XH)))))))))))))))), (Npos (XO (XI (XI (XI (XI (XI (XI (XI XH)))))))))),
    (Npos (XI (XO (XO (XO (XO (XI (XO (XI (XO XH))))))))))), (Npos (XO (XI
    (XI XH))))), (Npos (XI (XI (XO (XI (XI (XI (XI (XI (XO (XO (XO (XI (XI
    (XO (XO XH))))))))))))))))) :: ((((((Npos (XO (XO (XO (XI (XO (XO (XO (XO
    (XI (XO (XO (XI (XI (XO (XO XH)))))))))))))))), (Npos (XO (XI (XO (XO
    XH)))))), (Npos (XI (XO (XO (XO (XO (XI (XO (XI (XO XH))))))))))), (Npos
    (XO (XI (XI XH))))), (Npos (XI (XI (XI (XI (XI (XI (XI (XO (XO (XI (XO
    (XI (XI (XO (XO XH))))))))))))))))) :: ((((((Npos (XO (XO (XO (XI (XI (XO
    (XO (XI (XO (XI (XO (XI (XI (XO (XO XH)))))))))))))))), (Npos (XO (XO (XI
    (XI (XI (XO (XO (XI XH)))))))))), (Npos (XI (XO (XI (XO (XO (XI (XO (XI
    (XO XH))))))))))), (Npos (XO (XI (XI XH))))), (Npos (XI (XO (XO (XO (XI
    (XO (XO (XO (XO (XO (XI (XI (XI (XO (XO XH))))))))))))))))) :: ((((((Npos
    (XO (XO (XI (XI (XO (XI (XO (XO (XO (XO (XI (XI (XI (XO (XO
    XH)))))))))))))))), (Npos (XO (XI (XO (XI (XO (XO (XO (XI XH)))))))))),
    (Npos (XI (XI (XO (XI (XO (XI (XO (XI (XO XH))))))))))), (Npos (XO (XI
    (XI XH))))), (Npos (XI (XO (XO (XI (XO (XI (XO (XI (XI (XO (XI (XI (XI
    (XO (XO XH))))))))))))))))) :: ((((((Npos (XO (XI (XI (XI (XO (XO (XI (XI
    (XI (XO (XI (XI (XI (XO (XO XH)))))))))))))))), (Npos (XO (XI (XI (XI (XI
    (XI (XO (XO (XI XH))))))))))), (Npos (XI (XI (XO (XO (XI (XI (XO (XI (XO
    XH))))))))))), (Npos (XI (XI (XI XH))))), (Npos (XI (XI (XO (XO (XI (XO
    (XI (XO (XI (XI (XI (XI (XI (XO (XO XH))))))))))))))))) :: ((((((Npos (XO
    (XO (XO (XO (XI (XI (XI (XO (XI (XI (XI (XI (XI (XO (XO
    XH)))))))))))))))), (Npos (XI (XI (XI (XO (XI (XO (XO (XO (XO
    XH))))))))))), (Npos (XI (XO (XI (XI (XI (XI (XO (XI (XO XH))))))))))),
    (Npos (XI (XI (XI XH))))), (Npos (XI (XO (XI (XI (XI (XI (XI (XI (XO (XO
    (XO (XO (XO (XI (XO XH))))))))))))))))) :: ((((((Npos (XO (XI (XO (XI (XO
    (XO (XO (XO (XI (XO (XO (XO (XO (XI (XO XH)))))))))))))))), (Npos (XI (XI
    (XI (XO (XO (XO (XI XH))))))))), (Npos (XI (XO (XI (XI (XI (XI (XO (XI
    (XO XH))))))))))), (Npos (XI (XI (XI XH))))), (Npos (XI (XO (XI (XO (XI
    (XO (XO (XI (XO (XI (XO (XO (XO (XI (XO XH))))))))))))))))) :: ((((((Npos
    (XI (XO (XO (XI (XO (XI (XO (XI (XO (XI (XO (XO (XO (XI (XO
    XH)))))))))))))))), (Npos (XI (XI (XO (XI XH)))))), (Npos (XI (XO (XI (XO
    (XO (XO (XI (XI (XO XH))))))))))), (Npos (XI (XI (XI XH))))), (Npos (XI
    (XI (XO (XI (XI (XI (XO (XO (XO (XO (XI (XO (XO (XI (XO
    XH))))))))))))))))) :: ((((((Npos (XI (XI (XO (XO (XI (XO (XI (XO (XO (XO
    (XI (XO (XO (XI (XO XH)))))))))))))))), (Npos (XO (XI (XO (XI (XO (XI (XO
    (XO XH)))))))))), (Npos (XI (XO (XI (XO (XO (XO (XI (XI (XO
    XH))))))))))), (Npos (XI (XI (XI XH))))), (Npos (XI (XI (XO (XO (XO (XI
    (XI (XI (XI (XO (XI (XO (XO (XI (XO XH))))))))))))))))) :: ((((((Npos (XO
    (XI (XO (XI (XI (XI (XI (XI (XI (XO (XI (XO (XO (XI (XO
    XH)))))))))))))))), (Npos (XO (XO (XO (XO (XI (XI (XI (XO XH)))))))))),
    (Npos (XI (XI (XI (XI (XO (XO (XI (XI (XO XH))))))))))), (Npos (XI (XI
    (XI XH))))), (Npos (XI (XI (XO (XO (XI (XO (XO (XI (XI (XI (XI (XO (XO
    (XI (XO XH))))))))))))))))) :: ((((((Npos (XO (XO (XI (XO (XO (XI (XO (XI
    (XI (XI (XI (XO (XO (XI (XO XH)))))))))))))))), (Npos (XI (XI (XO (XO (XI
    (XI (XI (XI (XO XH))))))))))), (Npos (XI (XI (XI (XO (XI (XO (XI (XI (XO
    XH))))))))))), (Npos (XI (XI (XI XH))))), (Npos (XI (XI (XO (XO (XO (XO
    (XI (XO (XI (XO (XO (XI (XO (XI (XO XH))))))))))))))))) :: ((((((Npos (XO
    (XO (XI (XI (XI (XI (XI (XO (XI (XO (XO (XI (XO (XI (XO
    XH)))))))))))))))), (Npos (XI (XI (XO (XI (XI (XI (XI (XO XH)))))))))),
    (Npos (XI (XI (XI (XO (XI (XO (XI (XI (XO XH))))))))))), (Npos (XI (XI
    (XI XH))))), (Npos (XI (XO (XO (XI (XI (XO (XO (XO (XI (XI (XO (XI (XO
    (XI (XO XH))))))))))))))))) :: ((((((Npos (XO (XO (XO (XO (XO (XO (XI (XO
    (XI (XI (XO (XI (XO (XI (XO XH)))))))))))))))), (Npos (XI (XO (XO (XI (XO
    (XO XH)))))))), (Npos (XI (XO (XI (XI (XI (XO (XI (XI (XO XH))))))))))),
    (Npos (XI (XI (XI XH))))), (Npos (XI (XO (XO (XO (XO (XI (XI (XI (XO (XO
    (XI (XI (XO (XI (XO XH))))))))))))))))) :: ((((((Npos (XI (XI (XI (XO (XI
    (XI (XI (XI (XO (XO (XI (XI (XO (XI (XO XH)))))))))))))))), (Npos (XI (XI
    (XO (XO (XO (XO (XO (XI XH)))))))))), (Npos (XI (XI (XO (XO (XO (XI (XI
    (XI (XO XH))))))))))), (Npos (XI (XI (XI XH))))), (Npos (XI (XO (XI (XI
    (XI (XO (XO (XI (XO (XI (XI (XI (XO (XI (XO
    XH))))))))))))))))) :: ((((((Npos (XI (XO (XO (XI (XI (XI (XO (XI (XO (XI
    (XI (XI (XO (XI (XO XH)))))))))))))))), (Npos (XI (XO (XO (XI (XO (XO (XI
    (XI XH)))))))))), (Npos (XI (XI (XI (XI (XO (XI (XI (XI (XO
    XH))))))))))), (Npos (XI (XI (XI XH))))), (Npos (XI (XO (XO (XI (XO (XI
    (XI (XO (XO (XO (XO (XO (XI (XI (XO XH))))))))))))))))) :: ((((((Npos (XI
    (XI (XI (XI (XI (XI (XI (XO (XO (XO (XO (XO (XI (XI (XO
    XH)))))))))))))))), (Npos (XI (XO (XO (XI (XI (XI (XI (XI (XO
    XH))))))))))), (Npos (XI (XI (XI (XI (XO (XI (XI (XI (XO XH))))))))))),
    (Npos (XI (XI (XI XH))))), (Npos (XI (XO (XI (XI (XO (XI (XO (XO (XO (XI
    (XO (XO (XI (XI (XO XH))))))))))))))))) :: ((((((Npos (XO (XI (XI (XO (XO
    (XO (XI (XO (XO (XI (XO (XO (XI (XI (XO XH)))))))))))))))), (Npos (XI (XI
    (XI (XO (XI (XO (XI (XO (XI XH))))))))))), (Npos (XI (XO (XI (XO (XI (XI
    (XI (XI (XO XH))))))))))), (Npos (XI (XI (XI XH))))), (Npos (XI (XO (XO
    (XI (XI (XI (XI (XI (XI (XI (XO (XO (XI (XI (XO
    XH))))))))))))))))) :: ((((((Npos (XO (XO (XO (XI (XI (XO (XO (XO (XO (XO
    (XI (XO (XI (XI (XO XH)))))))))))))))), (Npos (XO (XI (XO (XO (XI (XI (XI
    (XO XH)))))))))), (Npos (XI (XO (XO (XO (XO (XO (XO (XO (XI
    XH))))))))))), (Npos (XI (XI (XI XH))))), (Npos (XI (XO (XI (XO (XI (XO
    (XI (XI (XI (XO (XI (XO (XI (XI (XO XH))))))))))))))))) :: ((((((Npos (XO
    (XI (XI (XI (XO (XI (XI (XI (XI (XO (XI (XO (XI (XI (XO
    XH)))))))))))))))), (Npos (XI (XO (XI (XO (XO (XO (XO (XO XH)))))))))),
    (Npos (XI (XO (XO (XO (XO (XO (XO (XO (XI XH))))))))))), (Npos (XI (XI
    (XI XH))))), (Npos (XI (XO (XO (XI (XO (XI (XO (XI (XI (XI (XI (XO (XI
    (XI (XO XH))))))))))))))))) :: ((((((Npos (XI (XI (XI (XO (XO (XO (XI (XI
    (XI (XI (XI (XO (XI (XI (XO XH)))))))))))))))), (Npos (XI (XI (XO (XI (XO
    (XI (XO (XO XH)))))))))), (Npos (XI (XI (XO (XO (XI (XO (XO (XO (XI
    XH))))))))))), (Npos (XI (XI (XI XH))))), (Npos (XI (XI (XO (XO (XI (XO
    (XO (XI (XI (XO (XO (XI (XI (XI (XO XH))))))))))))))))) :: ((((((Npos (XI
    (XI (XO (XO (XO (XI (XO (XI (XI (XO (XO (XI (XI (XI (XO
    XH)))))))))))))))), (Npos (XO (XO (XO (XI (XI (XO (XO (XI (XI
    XH))))))))))), (Npos (XI (XI (XO (XO (XI (XO (XO (XO (XI XH))))))))))),
    (Npos (XI (XI (XI XH))))), (Npos (XI (XO (XI (XI (XO (XI (XI (XO (XI (XI
    (XO (XI (XI (XI (XO XH))))))))))))))))) :: ((((((Npos (XI (XI (XI (XO (XO
    (XO (XO (XI (XI (XI (XO (XI (XI (XI (XO XH)))))))))))))))), (Npos (XI (XO
    (XI (XI (XO (XO (XO (XO XH)))))))))), (Npos (XI (XI (XO (XO (XI (XO (XO
    (XO (XI XH))))))))))), (Npos (XI (XI (XI XH))))), (Npos (XI (XI (XI (XI
    (XO (XO (XI (XO (XI (XO (XI (XI (XI (XI (XO
    XH))))))))))))))))) :: ((((((Npos (XI (XO (XO (XI (XO (XI (XI (XO (XI (XO
    (XI (XI (XI (XI (XO XH)))))))))))))))), (Npos (XO (XI (XI (XI (XI (XO (XI
    (XO (XI XH))))))))))), (Npos (XI (XO (XI (XI (XI (XO (XO (XO (XI
    XH))))))))))), (Npos (XI (XI (XI XH))))), (Npos (XI (XO (XO (XI (XI (XI
    (XO (XO (XI (XI (XI (XI (XI (XI (XO XH))))))))))))))))) :: ((((((Npos (XO
    (XO (XO (XO (XI (XO (XI (XO (XI (XI (XI (XI (XI (XI (XO
    XH)))))))))))))))), (Npos (XI (XO (XI (XI (XI (XO (XI (XO XH)))))))))),
    (Npos (XI (XO (XO (XI (XO (XI (XO (XO (XI XH))))))))))), (Npos (XI (XI
    (XI XH))))), (Npos (XI (XI (XO (XI (XO (XI (XO (XO (XI (XO (XO (XO (XO
    (XO (XI XH))))))))))))))))) :: ((((((Npos (XO (XI (XI (XI (XI (XI (XO (XO
    (XI (XO (XO (XO (XO (XO (XI XH)))))))))))))))), (Npos (XI (XI (XI (XO (XO
    (XI XH)))))))), (Npos (XI (XO (XO (XI (XO (XI (XO (XO (XI XH))))))))))),
    (Npos (XI (XI (XI XH))))), (Npos (XI (XI (XI (XO (XI (XO (XO (XO (XI (XI
    (XO (XO (XO (XO (XI XH))))))))))))))))) :: ((((((Npos (XO (XI (XO (XI (XI
    (XI (XO (XO (XI (XI (XO (XO (XO (XO (XI XH)))))))))))))))), (Npos (XI (XI
    (XO (XO (XI (XI XH)))))))), (Npos (XI (XO (XI (XO (XI (XI (XO (XO (XI
    XH))))))))))), (Npos (XI (XI (XI XH))))), (Npos (XI (XO (XI (XI (XI (XO
    (XO (XO (XI (XO (XI (XO (XO (XO (XI XH))))))))))))))))) :: ((((((Npos (XI
    (XI (XI (XI (XO (XO (XI (XO (XI (XO (XI (XO (XO (XO (XI
    XH)))))))))))))))), (Npos (XI (XO (XI (XI (XI (XO XH)))))))), (Npos (XI
    (XO (XI (XO (XI (XI (XO (XO (XI XH))))))))))), (Npos (XO (XO (XO (XO
    XH)))))), (Npos (XI (XO (XO (XO (XI (XI (XO (XO (XI (XI (XI (XO (XO (XO
    (XI XH))))))))))))))))) :: ((((((Npos (XI (XO (XO (XI (XO (XO (XI (XO (XI
    (XI (XI (XO (XO (XO (XI XH)))))))))))))))), (Npos (XO (XI (XI (XO (XI (XO
    (XI (XI (XI XH))))))))))), (Npos (XI (XI (XO (XI (XI (XI (XO (XO (XI
    XH))))))))))), (Npos (XO (XO (XO (XO XH)))))), (Npos (XI (XI (XI (XI (XO
    (XI (XO (XO (XI (XO (XO (XI (XO (XO (XI XH))))))))))))))))) :: ((((((Npos
    (XO (XI (XO (XI (XO (XO (XI (XO (XI (XO (XO (XI (XO (XO (XI
    XH)))))))))))))))), (Npos (XO (XO (XO (XO (XI (XI (XO (XI XH)))))))))),
    (Npos (XI (XI (XI (XO (XO (XO (XI (XO (XI XH))))))))))), (Npos (XO (XO
    (XO (XO XH)))))), (Npos (XI (XI (XO (XI (XI (XI (XO (XO (XI (XI (XO (XI
    (XO (XO (XI XH))))))))))))))))) :: ((((((Npos (XO (XI (XI (XI (XI (XO (XI
    (XO (XI (XI (XO (XI (XO (XO (XI XH)))))))))))))))), (Npos (XO (XO (XI (XO
    (XI (XO (XI (XO XH)))))))))), (Npos (XI (XO (XI (XO (XI (XO (XI (XO (XI
    XH))))))))))), (Npos (XO (XO (XO (XO XH)))))), (Npos (XI (XI (XO (XI (XI
    (XO (XI (XO (XI (XO (XI (XI (XO (XO (XI XH))))))))))))))))) :: ((((((Npos
    (XO (XI (XO (XI (XO (XI (XI (XO (XI (XO (XI (XI (XO (XO (XI
    XH)))))))))))))))), (Npos (XI (XO (XI (XI (XO (XI (XO XH))))))))), (Npos
    (XI (XO (XI (XO (XI (XO (XI (XO (XI XH))))))))))), (Npos (XO (XO (XO (XO
    XH)))))), (Npos (XI (XO (XI (XO (XO (XI (XI (XO (XI (XI (XI (XI (XO (XO
    (XI XH))))))))))))))))) :: ((((((Npos (XO (XI (XO (XI (XI (XI (XI (XO (XI
    (XI (XI (XI (XO (XO (XI XH)))))))))))))))), (Npos (XI (XO (XI (XO (XO (XI
    (XO (XI XH)))))))))), (Npos (XI (XO (XO (XI (XI (XO (XI (XO (XI
    XH))))))))))), (Npos (XO (XO (XO (XO XH)))))), (Npos (XI (XI (XI (XO (XI
    (XI (XI (XO (XI (XO (XO (XO (XI (XO (XI XH))))))))))))))))) :: ((((((Npos
    (XO (XI (XO (XO (XI (XO (XO (XI (XI (XO (XO (XO (XI (XO (XI
    XH)))))))))))))))), (Npos (XO (XI (XO (XI (XO (XO (XI (XO XH)))))))))),
    (Npos (XI (XI (XI (XI (XI (XO (XI (XO (XI XH))))))))))), (Npos (XO (XO
    (XO (XO XH)))))), (Npos (XI (XI (XO (XO (XI (XO (XO (XI (XI (XI (XO (XO
    (XI (XO (XI XH))))))))))))))))) :: ((((((Npos (XO (XO (XI (XI (XO (XI (XO
    (XI (XI (XI (XO (XO (XI (XO (XI XH)))))))))))))))), (Npos (XO (XO (XO (XO
    (XI (XI (XI (XO (XO XH))))))))))), (Npos (XI (XO (XI (XI (XO (XI (XI (XO
    (XI XH))))))))))), (Npos (XO (XO (XO (XO XH)))))), (Npos (XI (XO (XO (XI
    (XI (XI (XO (XI (XI (XO (XI (XO (XI (XO (XI
    XH))))))))))))))))) :: ((((((Npos (XI (XI (XI (XI (XO (XO (XI (XI (XI (XO
    (XI (XO (XI (XO (XI XH)))))))))))))))), (Npos (XI (XO (XO (XI (XO (XI (XI
    XH))))))))), (Npos (XI (XO (XI (XI (XO (XI (XI (XO (XI XH))))))))))),
    (Npos (XO (XO (XO (XO XH)))))), (Npos (XI (XI (XO (XI (XI (XO (XI (XI (XI
    (XI (XI (XO (XI (XO (XI XH))))))))))))))))) :: ((((((Npos (XI (XO (XO (XI
    (XI (XI (XI (XI (XI (XI (XI (XO (XI (XO (XI XH)))))))))))))))), (Npos (XO
    (XI (XO (XI (XO (XI (XI (XO XH)))))))))), (Npos (XI (XI (XO (XO (XI (XI
    (XI (XO (XI XH))))))))))), (Npos (XO (XO (XO (XO XH)))))), (Npos (XI (XO
    (XO (XI (XO (XO (XO (XO (XO (XI (XO (XI (XI (XO (XI
    XH))))))))))))))))) :: ((((((Npos (XI (XI (XO (XO (XO (XI (XO (XO (XO (XI
    (XO (XI (XI (XO (XI XH)))))))))))))))), (Npos (XI (XI (XO (XO (XO (XO (XI
    (XI (XI XH))))))))))), (Npos (XI (XI (XO (XI (XO (XO (XO (XI (XI
    XH))))))))))), (Npos (XO (XO (XO (XO XH)))))), (Npos (XI (XO (XO (XI (XO
    (XO (XI (XO (XO (XO (XI (XI (XI (XO (XI XH))))))))))))))))) :: ((((((Npos
    (XI (XI (XO (XO (XI (XO (XI (XO (XO (XO (XI (XI (XI (XO (XI
    XH)))))))))))))))), (Npos (XI (XI (XI (XO (XI (XO (XI (XI XH)))))))))),
    (Npos (XI (XI (XO (XI (XO (XO (XO (XI (XI XH))))))))))), (Npos (XO (XO
    (XO (XO XH)))))), (Npos (XI (XI (XI (XO (XI (XI (XI (XO (XO (XI (XI (XI
    (XI (XO (XI
    XH))))))))))))))))) :: []))))))))))))))))))))))))))))))))))))))))))))))))))))))))))))))))))))))))))))))))))))))))))))))))))))))))))))))))))))))))))))))))))))))))))))))))))))))))))))))))))))))))))))))))))))))))))))))))))))))))))))))))))))))))))))))))))))))))))))))))))))))))))))))))))))))))))))))))))))))))))))))))))))))))))))))))))))))))))))))))))))))))))))))))))))))))))))))))))))))))))))))))))))))))))))))))))))))))))))))))))))))))))))))))))))))))))))))))))))))))))))))))))))))))))))))))))))))))))))

(** val p1_TABLE : (n * n) list **)

let p1_TABLE =
  ((Npos (XO (XI (XO XH)))), (Npos (XI (XI (XO XH))))) :: (((Npos (XO (XO (XI
    XH)))), (Npos (XI (XI (XO XH))))) :: (((Npos (XO (XI (XO (XO XH))))),
    (Npos (XI (XI (XO XH))))) :: (((Npos (XO (XO (XI (XO XH))))), (Npos (XI
    (XI (XO XH))))) :: (((Npos (XO (XI (XO (XI XH))))), (Npos (XI (XI (XO
    XH))))) :: (((Npos (XO (XI (XI (XI XH))))), (Npos (XI (XI (XO
    XH))))) :: (((Npos (XO (XO (XO (XO (XO XH)))))), (Npos (XI (XI (XO
    XH))))) :: (((Npos (XO (XO (XI (XO (XO XH)))))), (Npos (XI (XI (XO
    XH))))) :: (((Npos (XO (XI (XO (XI (XO XH)))))), (Npos (XI (XI (XO
    XH))))) :: (((Npos (XO (XI (XI (XI (XO XH)))))), (Npos (XI (XI (XO
    XH))))) :: (((Npos (XO (XO (XO (XO (XI XH)))))), (Npos (XI (XI (XO
    XH))))) :: (((Npos (XI (XO (XO (XO (XI XH)))))), (Npos (XI (XI (XO
    XH))))) :: (((Npos (XI (XI (XI (XO (XI XH)))))), (Npos (XI (XI (XO
    XH))))) :: (((Npos (XO (XO (XI (XI (XI XH)))))), (Npos (XI (XO (XI
    XH))))) :: (((Npos (XO (XI (XI (XI (XI XH)))))), (Npos (XI (XO (XI
    XH))))) :: (((Npos (XI (XO (XI (XO (XO (XO XH))))))), (Npos (XI (XO (XI
    XH))))) :: (((Npos (XI (XI (XO (XI (XO (XO XH))))))), (Npos (XI (XO (XI
    XH))))) :: (((Npos (XO (XO (XI (XO (XI (XO XH))))))), (Npos (XI (XO (XO
    (XO XH)))))) :: (((Npos (XO (XO (XO (XI (XI (XO XH))))))), (Npos (XI (XO
    (XO (XO XH)))))) :: (((Npos (XI (XI (XO (XI (XI (XO XH))))))), (Npos (XI
    (XO (XO (XO XH)))))) :: (((Npos (XI (XI (XI (XI (XI (XO XH))))))), (Npos
    (XI (XO (XO (XO XH)))))) :: (((Npos (XI (XO (XO (XO (XO (XI XH))))))),
    (Npos (XI (XO (XO (XO XH)))))) :: (((Npos (XI (XO (XI (XO (XO (XI
    XH))))))), (Npos (XI (XO (XO (XO XH)))))) :: (((Npos (XO (XI (XO (XO (XI
    (XI XH))))))), (Npos (XI (XO (XO (XO XH)))))) :: (((Npos (XI (XI (XI (XO
    (XI (XI XH))))))), (Npos (XI (XO (XO (XO XH)))))) :: (((Npos (XI (XO (XI
    (XI (XI (XI XH))))))), (Npos (XI (XO (XO (XO XH)))))) :: (((Npos (XI (XI
    (XI (XI (XI (XI XH))))))), (Npos (XI (XO (XO (XO XH)))))) :: (((Npos (XO
    (XI (XO (XI (XO (XO (XO XH)))))))), (Npos (XI (XI (XO (XO
    XH)))))) :: (((Npos (XO (XO (XI (XI (XO (XO (XO XH)))))))), (Npos (XI (XI
    (XO (XO XH)))))) :: (((Npos (XI (XO (XI (XO (XI (XO (XO XH)))))))), (Npos
    (XI (XI (XO (XO XH)))))) :: (((Npos (XI (XO (XO (XI (XI (XO (XO
    XH)))))))), (Npos (XI (XI (XO (XO XH)))))) :: (((Npos (XO (XO (XO (XO (XO
    (XI (XO XH)))))))), (Npos (XI (XI (XI (XO XH)))))) :: (((Npos (XO (XI (XI
    (XO (XO (XI (XO XH)))))))), (Npos (XI (XI (XI (XO XH)))))) :: (((Npos (XO
    (XO (XO (XI (XO (XI (XO XH)))))))), (Npos (XI (XI (XI (XO
    XH)))))) :: (((Npos (XI (XI (XO (XO (XI (XI (XO XH)))))))), (Npos (XI (XI
    (XI (XO XH)))))) :: (((Npos (XI (XO (XI (XO (XI (XI (XO XH)))))))), (Npos
    (XI (XI (XI (XO XH)))))) :: (((Npos (XI (XO (XO (XI (XI (XI (XO
    XH)))))))), (Npos (XI (XI (XI (XO XH)))))) :: (((Npos (XI (XI (XO (XI (XI
    (XI (XO XH)))))))), (Npos (XI (XI (XI (XO XH)))))) :: (((Npos (XO (XO (XO
    (XI (XO (XO (XI XH)))))))), (Npos (XI (XI (XI (XO XH)))))) :: (((Npos (XI
    (XO (XI (XO (XI (XO (XI XH)))))))), (Npos (XI (XI (XI (XO
    XH)))))) :: (((Npos (XI (XO (XO (XI (XI (XO (XI XH)))))))), (Npos (XI (XI
    (XI (XO XH)))))) :: (((Npos (XI (XO (XO (XO (XO (XI (XI XH)))))))), (Npos
    (XI (XI (XI (XO XH)))))) :: (((Npos (XO (XO (XI (XI (XO (XI (XI
    XH)))))))), (Npos (XI (XO (XI (XI XH)))))) :: (((Npos (XO (XI (XO (XO (XI
    (XI (XI XH)))))))), (Npos (XI (XO (XI (XI XH)))))) :: (((Npos (XO (XO (XO
    (XI (XI (XI (XI XH)))))))), (Npos (XI (XO (XI (XI XH)))))) :: (((Npos (XI
    (XO (XO (XO (XO (XO (XO (XO XH))))))))), (Npos (XI (XO (XI (XI
    XH)))))) :: (((Npos (XI (XI (XI (XO (XO (XO (XO (XO XH))))))))), (Npos
    (XI (XO (XI (XI XH)))))) :: (((Npos (XI (XO (XI (XI (XO (XO (XO (XO
    XH))))))))), (Npos (XI (XO (XI (XI XH)))))) :: (((Npos (XO (XO (XO (XI
    (XI (XO (XO (XO XH))))))))), (Npos (XI (XO (XI (XI XH)))))) :: (((Npos
    (XI (XI (XI (XO (XO (XI (XO (XO XH))))))))), (Npos (XI (XO (XI (XI
    XH)))))) :: (((Npos (XI (XO (XI (XI (XO (XI (XO (XO XH))))))))), (Npos
    (XI (XO (XI (XI XH)))))) :: (((Npos (XI (XO (XO (XO (XI (XI (XO (XO
    XH))))))))), (Npos (XI (XO (XI (XI XH)))))) :: (((Npos (XO (XO (XI (XO
    (XO (XO (XI (XO XH))))))))), (Npos (XI (XO (XI (XI XH)))))) :: (((Npos
    (XI (XO (XO (XO (XI (XO (XI (XO XH))))))))), (Npos (XI (XO (XI (XI
    XH)))))) :: (((Npos (XI (XO (XI (XO (XI (XO (XI (XO XH))))))))), (Npos
    (XI (XO (XI (XI XH)))))) :: (((Npos (XI (XI (XO (XI (XI (XO (XI (XO
    XH))))))))), (Npos (XI (XO (XI (XI XH)))))) :: (((Npos (XI (XI (XO (XO
    (XO (XI (XI (XO XH))))))))), (Npos (XI (XO (XI (XI XH)))))) :: (((Npos
    (XO (XI (XO (XI (XO (XI (XI (XO XH))))))))), (Npos (XI (XI (XI (XI
    XH)))))) :: (((Npos (XO (XO (XO (XO (XI (XI (XI (XO XH))))))))), (Npos
    (XI (XI (XI (XI XH)))))) :: (((Npos (XO (XO (XI (XO (XI (XI (XI (XO
    XH))))))))), (Npos (XI (XI (XI (XI XH)))))) :: (((Npos (XO (XO (XI (XI
    (XI (XI (XI (XO XH))))))))), (Npos (XI (XI (XI (XI XH)))))) :: (((Npos
    (XI (XO (XO (XO (XO (XO (XO (XI XH))))))))), (Npos (XI (XI (XI (XI
    XH)))))) :: (((Npos (XI (XO (XO (XI (XO (XO (XO (XI XH))))))))), (Npos
    (XI (XI (XI (XI XH)))))) :: (((Npos (XI (XO (XI (XO (XI (XO (XO (XI
    XH))))))))), (Npos (XI (XI (XI (XI XH)))))) :: (((Npos (XO (XI (XO (XO
    (XO (XI (XO (XI XH))))))))), (Npos (XI (XO (XI (XO (XO
    XH))))))) :: (((Npos (XO (XO (XI (XI (XO (XI (XO (XI XH))))))))), (Npos
    (XI (XO (XI (XO (XO XH))))))) :: (((Npos (XO (XI (XO (XO (XI (XI (XO (XI
    XH))))))))), (Npos (XI (XO (XI (XO (XO XH))))))) :: (((Npos (XI (XI (XI
    (XI (XI (XI (XO (XI XH))))))))), (Npos (XI (XO (XI (XO (XO
    XH))))))) :: (((Npos (XI (XO (XI (XO (XO (XO (XI (XI XH))))))))), (Npos
    (XI (XO (XI (XO (XO XH))))))) :: (((Npos (XO (XI (XO (XO (XI (XO (XI (XI
    XH))))))))), (Npos (XI (XO (XI (XO (XO XH))))))) :: (((Npos (XO (XI (XI
    (XI (XI (XO (XI (XI XH))))))))), (Npos (XI (XO (XI (XO (XO
    XH))))))) :: (((Npos (XO (XI (XI (XO (XO (XI (XI (XI XH))))))))), (Npos
    (XI (XO (XI (XO (XO XH))))))) :: (((Npos (XI (XI (XO (XI (XO (XI (XI (XI
    XH))))))))), (Npos (XI (XO (XI (XO (XO XH))))))) :: (((Npos (XI (XO (XO
    (XO (XI (XI (XI (XI XH))))))))), (Npos (XI (XO (XI (XO (XO
    XH))))))) :: (((Npos (XI (XI (XI (XI (XI (XI (XI (XI XH))))))))), (Npos
    (XI (XO (XI (XO (XO XH))))))) :: (((Npos (XO (XI (XI (XI (XO (XO (XO (XO
    (XO XH)))))))))), (Npos (XI (XO (XI (XO (XO XH))))))) :: (((Npos (XO (XO
    (XI (XO (XI (XO (XO (XO (XO XH)))))))))), (Npos (XI (XO (XI (XO (XO
    XH))))))) :: (((Npos (XO (XI (XI (XI (XI (XO (XO (XO (XO XH)))))))))),
    (Npos (XI (XO (XI (XO (XO XH))))))) :: (((Npos (XI (XO (XI (XO (XO (XI
    (XO (XO (XO XH)))))))))), (Npos (XI (XO (XI (XO (XO XH))))))) :: (((Npos
    (XI (XO (XI (XI (XO (XI (XO (XO (XO XH)))))))))), (Npos (XI (XO (XI (XO
    (XO XH))))))) :: (((Npos (XI (XI (XO (XO (XI (XI (XO (XO (XO
    XH)))))))))), (Npos (XI (XO (XI (XO (XO XH))))))) :: (((Npos (XI (XO (XI
    (XI (XI (XI (XO (XO (XO XH)))))))))), (Npos (XI (XO (XI (XO (XO
    XH))))))) :: (((Npos (XO (XO (XI (XO (XO (XO (XI (XO (XO XH)))))))))),
    (Npos (XI (XO (XO (XI (XO XH))))))) :: (((Npos (XO (XO (XI (XI (XO (XO
    (XI (XO (XO XH)))))))))), (Npos (XI (XO (XO (XI (XO XH))))))) :: (((Npos
    (XO (XI (XO (XO (XI (XO (XI (XO (XO XH)))))))))), (Npos (XI (XO (XO (XI
    (XO XH))))))) :: (((Npos (XO (XO (XO (XI (XI (XO (XI (XO (XO
    XH)))))))))), (Npos (XI (XO (XO (XI (XO XH))))))) :: (((Npos (XO (XI (XI
    (XI (XI (XO (XI (XO (XO XH)))))))))), (Npos (XI (XO (XO (XI (XO
    XH))))))) :: (((Npos (XI (XI (XO (XI (XO (XI (XI (XO (XO XH)))))))))),
    (Npos (XI (XO (XO (XI (XO XH))))))) :: (((Npos (XI (XO (XO (XI (XI (XI
    (XI (XO (XO XH)))))))))), (Npos (XI (XO (XO (XI (XO XH))))))) :: (((Npos
    (XO (XO (XO (XO (XO (XO (XO (XI (XO XH)))))))))), (Npos (XI (XO (XO (XI
    (XO XH))))))) :: (((Npos (XO (XO (XO (XI (XO (XO (XO (XI (XO
    XH)))))))))), (Npos (XI (XO (XO (XI (XO XH))))))) :: (((Npos (XO (XI (XO
    (XI (XI (XO (XO (XI (XO XH)))))))))), (Npos (XI (XO (XO (XI (XO
    XH))))))) :: (((Npos (XI (XI (XO (XO (XO (XI (XO (XI (XO XH)))))))))),
    (Npos (XI (XO (XO (XI (XO XH))))))) :: (((Npos (XI (XO (XI (XI (XO (XI
    (XO (XI (XO XH)))))))))), (Npos (XI (XO (XO (XI (XO XH))))))) :: (((Npos
    (XI (XO (XI (XO (XI (XI (XO (XI (XO XH)))))))))), (Npos (XI (XO (XO (XI
    (XO XH))))))) :: (((Npos (XI (XI (XI (XI (XI (XI (XO (XI (XO
    XH)))))))))), (Npos (XI (XO (XO (XI (XO XH))))))) :: (((Npos (XO (XI (XI
    (XI (XO (XO (XI (XI (XO XH)))))))))), (Npos (XI (XI (XO (XI (XO
    XH))))))) :: (((Npos (XO (XO (XO (XI (XI (XO (XI (XI (XO XH)))))))))),
    (Npos (XI (XI (XO (XI (XO XH))))))) :: (((Npos (XO (XO (XO (XO (XO (XI
    (XI (XI (XO XH)))))))))), (Npos (XI (XI (XO (XI (XO XH))))))) :: (((Npos
    (XI (XI (XO (XI (XO (XI (XI (XI (XO XH)))))))))), (Npos (XI (XI (XO (XI
    (XO XH))))))) :: (((Npos (XI (XI (XI (XO (XI (XI (XI (XI (XO
    XH)))))))))), (Npos (XI (XI (XO (XI (XO XH))))))) :: (((Npos (XO (XI (XO
    (XI (XO (XO (XO (XO (XI XH)))))))))), (Npos (XI (XI (XI (XI (XO
    XH))))))) :: (((Npos (XO (XO (XO (XI (XI (XO (XO (XO (XI XH)))))))))),
    (Npos (XI (XI (XI (XI (XO XH))))))) :: (((Npos (XO (XI (XO (XO (XO (XI
    (XO (XO (XI XH)))))))))), (Npos (XI (XI (XI (XI (XO XH))))))) :: (((Npos
    (XI (XI (XO (XI (XO (XI (XO (XO (XI XH)))))))))), (Npos (XI (XI (XI (XI
    (XO XH))))))) :: (((Npos (XI (XO (XI (XO (XI (XI (XO (XO (XI
    XH)))))))))), (Npos (XI (XI (XI (XI (XO XH))))))) :: (((Npos (XI (XI (XO
    (XO (XO (XO (XI (XO (XI XH)))))))))), (Npos (XI (XI (XI (XI (XO
    XH))))))) :: (((Npos (XI (XO (XI (XI (XO (XO (XI (XO (XI XH)))))))))),
    (Npos (XI (XI (XI (XI (XO XH))))))) :: (((Npos (XO (XO (XI (XI (XI (XO
    (XI (XO (XI XH)))))))))), (Npos (XI (XI (XI (XI (XO XH))))))) :: (((Npos
    (XO (XI (XI (XO (XO (XI (XI (XO (XI XH)))))))))), (Npos (XI (XI (XI (XI
    (XO XH))))))) :: (((Npos (XI (XI (XO (XI (XI (XI (XI (XO (XI
    XH)))))))))), (Npos (XI (XI (XI (XI (XO XH))))))) :: (((Npos (XI (XI (XI
    (XO (XO (XO (XO (XI (XI XH)))))))))), (Npos (XI (XI (XI (XI (XO
    XH))))))) :: (((Npos (XI (XO (XO (XO (XI (XO (XO (XI (XI XH)))))))))),
    (Npos (XI (XI (XI (XI (XO XH))))))) :: (((Npos (XO (XI (XI (XI (XI (XO
    (XO (XI (XI XH)))))))))), (Npos (XI (XO (XI (XO (XI XH))))))) :: (((Npos
    (XO (XI (XO (XI (XO (XI (XO (XI (XI XH)))))))))), (Npos (XI (XO (XI (XO
    (XI XH))))))) :: (((Npos (XO (XI (XI (XO (XI (XI (XO (XI (XI
    XH)))))))))), (Npos (XI (XO (XI (XO (XI XH))))))) :: (((Npos (XI (XI (XO
    (XO (XO (XO (XI (XI (XI XH)))))))))), (Npos (XI (XO (XI (XO (XI
    XH))))))) :: (((Npos (XI (XO (XO (XO (XI (XO (XI (XI (XI XH)))))))))),
    (Npos (XI (XO (XI (XO (XI XH))))))) :: (((Npos (XI (XO (XI (XI (XI (XO
    (XI (XI (XI XH)))))))))), (Npos (XI (XO (XI (XO (XI XH))))))) :: (((Npos
    (XO (XI (XO (XI (XO (XI (XI (XI (XI XH)))))))))), (Npos (XI (XO (XI (XO
    (XI XH))))))) :: (((Npos (XO (XO (XI (XI (XI (XI (XI (XI (XI
    XH)))))))))), (Npos (XI (XO (XI (XO (XI XH))))))) :: (((Npos (XO (XO (XO
    (XI (XO (XO (XO (XO (XO (XO XH))))))))))), (Npos (XI (XO (XI (XO (XI
    XH))))))) :: (((Npos (XO (XI (XO (XI (XI (XO (XO (XO (XO (XO
    XH))))))))))), (Npos (XI (XO (XI (XO (XI XH))))))) :: (((Npos (XO (XI (XO
    (XO (XI (XI (XO (XO (XO (XO XH))))))))))), (Npos (XI (XO (XI (XO (XI
    XH))))))) :: (((Npos (XI (XO (XI (XI (XI (XI (XO (XO (XO (XO
    XH))))))))))), (Npos (XI (XO (XI (XO (XI XH))))))) :: (((Npos (XI (XI (XO
    (XI (XO (XO (XI (XO (XO (XO XH))))))))))), (Npos (XI (XO (XI (XO (XI
    XH))))))) :: (((Npos (XI (XI (XI (XO (XI (XO (XI (XO (XO (XO
    XH))))))))))), (Npos (XI (XO (XI (XO (XI XH))))))) :: (((Npos (XO (XO (XO
    (XO (XI (XI (XI (XO (XO (XO XH))))))))))), (Npos (XI (XO (XI (XO (XI
    XH))))))) :: (((Npos (XO (XO (XO (XO (XO (XO (XO (XI (XO (XO
    XH))))))))))), (Npos (XI (XO (XI (XO (XI XH))))))) :: (((Npos (XI (XO (XO
    (XO (XI (XO (XO (XI (XO (XO XH))))))))))), (Npos (XI (XI (XO (XI (XI
    XH))))))) :: (((Npos (XI (XI (XI (XI (XI (XO (XO (XI (XO (XO
    XH))))))))))), (Npos (XI (XI (XO (XI (XI XH))))))) :: (((Npos (XI (XO (XI
    (XO (XI (XI (XO (XI (XO (XO XH))))))))))), (Npos (XI (XI (XO (XI (XI
    XH))))))) :: (((Npos (XO (XO (XI (XO (XO (XO (XI (XI (XO (XO
    XH))))))))))), (Npos (XI (XI (XO (XI (XI XH))))))) :: (((Npos (XO (XO (XI
    (XO (XI (XO (XI (XI (XO (XO XH))))))))))), (Npos (XI (XI (XO (XI (XI
    XH))))))) :: (((Npos (XI (XI (XI (XO (XO (XI (XI (XI (XO (XO
    XH))))))))))), (Npos (XI (XI (XO (XI (XI XH))))))) :: (((Npos (XI (XO (XI
    (XO (XI (XI (XI (XI (XO (XO XH))))))))))), (Npos (XI (XI (XO (XI (XI
    XH))))))) :: (((Npos (XI (XO (XI (XO (XO (XO (XO (XO (XI (XO
    XH))))))))))), (Npos (XI (XI (XO (XI (XI XH))))))) :: (((Npos (XO (XI (XO
    (XI (XI (XO (XO (XO (XI (XO XH))))))))))), (Npos (XI (XI (XO (XI (XI
    XH))))))) :: (((Npos (XI (XI (XO (XO (XO (XO (XI (XO (XI (XO
    XH))))))))))), (Npos (XI (XI (XO (XI (XI XH))))))) :: (((Npos (XI (XO (XO
    (XO (XI (XO (XI (XO (XI (XO XH))))))))))), (Npos (XI (XI (XO (XI (XI
    XH))))))) :: (((Npos (XI (XO (XI (XI (XO (XI (XI (XO (XI (XO
    XH))))))))))), (Npos (XI (XI (XO (XI (XI XH))))))) :: (((Npos (XO (XO (XI
    (XI (XI (XI (XI (XO (XI (XO XH))))))))))), (Npos (XI (XI (XO (XI (XI
    XH))))))) :: (((Npos (XO (XO (XI (XI (XO (XO (XO (XI (XI (XO
    XH))))))))))), (Npos (XI (XI (XO (XI (XI XH))))))) :: (((Npos (XO (XO (XI
    (XI (XI (XO (XO (XI (XI (XO XH))))))))))), (Npos (XI (XI (XO (XI (XI
    XH))))))) :: (((Npos (XI (XO (XI (XO (XI (XI (XO (XI (XI (XO
    XH))))))))))), (Npos (XI (XO (XI (XI (XI XH))))))) :: (((Npos (XI (XO (XI
    (XO (XO (XO (XI (XI (XI (XO XH))))))))))), (Npos (XI (XO (XI (XI (XI
    XH))))))) :: (((Npos (XO (XI (XI (XI (XI (XO (XI (XI (XI (XO
    XH))))))))))), (Npos (XI (XO (XI (XI (XI XH))))))) :: (((Npos (XO (XI (XO
    (XO (XI (XI (XI (XI (XI (XO XH))))))))))), (Npos (XI (XO (XI (XI (XI
    XH))))))) :: (((Npos (XI (XI (XO (XO (XO (XO (XO (XO (XO (XI
    XH))))))))))), (Npos (XI (XI (XO (XO (XO (XO XH)))))))) :: (((Npos (XI
    (XO (XO (XI (XI (XO (XO (XO (XO (XI XH))))))))))), (Npos (XI (XI (XO (XO
    (XO (XO XH)))))))) :: (((Npos (XI (XI (XO (XI (XO (XI (XO (XO (XO (XI
    XH))))))))))), (Npos (XI (XI (XO (XO (XO (XO XH)))))))) :: (((Npos (XO
    (XO (XO (XO (XO (XO (XI (XO (XO (XI XH))))))))))), (Npos (XI (XI (XO (XO
    (XO (XO XH)))))))) :: (((Npos (XO (XO (XO (XO (XI (XO (XI (XO (XO (XI
    XH))))))))))), (Npos (XI (XI (XO (XO (XO (XO XH)))))))) :: (((Npos (XI
    (XO (XO (XO (XI (XI (XI (XO (XO (XI XH))))))))))), (Npos (XI (XI (XO (XO
    (XO (XO XH)))))))) :: (((Npos (XI (XO (XO (XI (XO (XO (XO (XI (XO (XI
    XH))))))))))), (Npos (XI (XI (XO (XO (XO (XO XH)))))))) :: (((Npos (XO
    (XI (XO (XO (XO (XI (XO (XI (XO (XI XH))))))))))), (Npos (XI (XI (XO (XO
    (XO (XO XH)))))))) :: (((Npos (XO (XO (XI (XO (XI (XI (XO (XI (XO (XI
    XH))))))))))), (Npos (XI (XI (XO (XO (XO (XO XH)))))))) :: (((Npos (XO
    (XI (XI (XO (XO (XO (XI (XI (XO (XI XH))))))))))), (Npos (XI (XI (XO (XO
    (XO (XO XH)))))))) :: (((Npos (XI (XI (XI (XI (XI (XO (XI (XI (XO (XI
    XH))))))))))), (Npos (XI (XI (XO (XO (XO (XO XH)))))))) :: (((Npos (XI
    (XO (XO (XO (XI (XI (XI (XI (XO (XI XH))))))))))), (Npos (XI (XI (XO (XO
    (XO (XO XH)))))))) :: (((Npos (XO (XO (XO (XI (XO (XO (XO (XO (XI (XI
    XH))))))))))), (Npos (XI (XI (XO (XO (XO (XO XH)))))))) :: (((Npos (XO
    (XO (XO (XO (XO (XI (XO (XO (XI (XI XH))))))))))), (Npos (XI (XI (XO (XO
    (XO (XO XH)))))))) :: (((Npos (XO (XO (XI (XO (XI (XI (XO (XO (XI (XI
    XH))))))))))), (Npos (XI (XI (XO (XO (XO (XO XH)))))))) :: (((Npos (XI
    (XI (XI (XO (XO (XO (XI (XO (XI (XI XH))))))))))), (Npos (XI (XI (XI (XO
    (XO (XO XH)))))))) :: (((Npos (XI (XI (XI (XI (XI (XO (XI (XO (XI (XI
    XH))))))))))), (Npos (XI (XI (XI (XO (XO (XO XH)))))))) :: (((Npos (XO
    (XI (XO (XO (XI (XI (XI (XO (XI (XI XH))))))))))), (Npos (XI (XI (XI (XO
    (XO (XO XH)))))))) :: (((Npos (XO (XI (XI (XO (XO (XO (XO (XI (XI (XI
    XH))))))))))), (Npos (XI (XI (XI (XO (XO (XO XH)))))))) :: (((Npos (XO
    (XI (XO (XO (XO (XI (XO (XI (XI (XI XH))))))))))), (Npos (XI (XI (XI (XO
    (XO (XO XH)))))))) :: (((Npos (XI (XI (XO (XI (XI (XI (XO (XI (XI (XI
    XH))))))))))), (Npos (XI (XI (XI (XO (XO (XO XH)))))))) :: (((Npos (XI
    (XO (XI (XO (XI (XO (XI (XI (XI (XI XH))))))))))), (Npos (XI (XI (XI (XO
    (XO (XO XH)))))))) :: (((Npos (XO (XO (XO (XI (XI (XI (XI (XI (XI (XI
    XH))))))))))), (Npos (XI (XI (XI (XO (XO (XO XH)))))))) :: (((Npos (XO
    (XI (XI (XO (XI (XO (XO (XO (XO (XO (XO XH)))))))))))), (Npos (XI (XI (XI
    (XO (XO (XO XH)))))))) :: (((Npos (XI (XI (XI (XO (XI (XI (XO (XO (XO (XO
    (XO XH)))))))))))), (Npos (XI (XO (XO (XI (XO (XO XH)))))))) :: (((Npos
    (XI (XO (XI (XI (XO (XO (XI (XO (XO (XO (XO XH)))))))))))), (Npos (XI (XO
    (XO (XI (XO (XO XH)))))))) :: (((Npos (XO (XO (XO (XI (XO (XI (XI (XO (XO
    (XO (XO XH)))))))))))), (Npos (XI (XO (XO (XI (XO (XO
    XH)))))))) :: (((Npos (XI (XI (XO (XO (XI (XO (XO (XI (XO (XO (XO
    XH)))))))))))), (Npos (XI (XI (XI (XI (XO (XO XH)))))))) :: (((Npos (XI
    (XO (XO (XI (XO (XI (XO (XI (XO (XO (XO XH)))))))))))), (Npos (XI (XI (XI
    (XI (XO (XO XH)))))))) :: (((Npos (XI (XI (XI (XO (XO (XO (XI (XI (XO (XO
    (XO XH)))))))))))), (Npos (XI (XI (XI (XI (XO (XO XH)))))))) :: (((Npos
    (XO (XI (XI (XO (XO (XI (XI (XI (XO (XO (XO XH)))))))))))), (Npos (XI (XI
    (XI (XI (XO (XO XH)))))))) :: (((Npos (XI (XI (XO (XI (XO (XO (XO (XO (XI
    (XO (XO XH)))))))))))), (Npos (XI (XI (XI (XI (XO (XO
    XH)))))))) :: (((Npos (XI (XI (XO (XO (XO (XI (XO (XO (XI (XO (XO
    XH)))))))))))), (Npos (XI (XI (XI (XI (XO (XO XH)))))))) :: (((Npos (XI
    (XI (XI (XI (XI (XI (XO (XO (XI (XO (XO XH)))))))))))), (Npos (XI (XI (XI
    (XI (XO (XO XH)))))))) :: (((Npos (XO (XO (XO (XI (XI (XO (XI (XO (XI (XO
    (XO XH)))))))))))), (Npos (XI (XI (XI (XI (XO (XO XH)))))))) :: (((Npos
    (XO (XO (XO (XO (XI (XI (XI (XO (XI (XO (XO XH)))))))))))), (Npos (XI (XI
    (XI (XI (XO (XO XH)))))))) :: (((Npos (XI (XI (XI (XI (XO (XO (XO (XI (XI
    (XO (XO XH)))))))))))), (Npos (XI (XI (XI (XI (XO (XO
    XH)))))))) :: (((Npos (XI (XO (XO (XI (XO (XI (XO (XI (XI (XO (XO
    XH)))))))))))), (Npos (XI (XI (XI (XI (XO (XO XH)))))))) :: (((Npos (XO
    (XI (XI (XO (XO (XO (XI (XI (XI (XO (XO XH)))))))))))), (Npos (XI (XI (XI
    (XI (XO (XO XH)))))))) :: (((Npos (XO (XO (XO (XO (XO (XI (XI (XI (XI (XO
    (XO XH)))))))))))), (Npos (XI (XI (XI (XI (XO (XO XH)))))))) :: (((Npos
    (XI (XO (XI (XO (XO (XO (XO (XO (XO (XI (XO XH)))))))))))), (Npos (XI (XI
    (XO (XO (XI (XO XH)))))))) :: (((Npos (XI (XO (XO (XI (XO (XI (XO (XO (XO
    (XI (XO XH)))))))))))), (Npos (XI (XI (XO (XO (XI (XO
    XH)))))))) :: (((Npos (XO (XO (XO (XO (XI (XO (XI (XO (XO (XI (XO
    XH)))))))))))), (Npos (XI (XI (XO (XO (XI (XO XH)))))))) :: (((Npos (XO
    (XO (XI (XI (XO (XI (XI (XO (XO (XI (XO XH)))))))))))), (Npos (XI (XI (XO
    (XO (XI (XO XH)))))))) :: (((Npos (XI (XO (XI (XI (XO (XO (XO (XI (XO (XI
    (XO XH)))))))))))), (Npos (XI (XI (XO (XO (XI (XO XH)))))))) :: (((Npos
    (XI (XO (XO (XO (XI (XI (XO (XI (XO (XI (XO XH)))))))))))), (Npos (XI (XI
    (XO (XO (XI (XO XH)))))))) :: (((Npos (XO (XO (XI (XO (XI (XO (XI (XI (XO
    (XI (XO XH)))))))))))), (Npos (XI (XI (XO (XO (XI (XO
    XH)))))))) :: (((Npos (XO (XI (XO (XO (XI (XI (XI (XI (XO (XI (XO
    XH)))))))))))), (Npos (XI (XI (XO (XO (XI (XO XH)))))))) :: (((Npos (XI
    (XI (XI (XI (XO (XO (XO (XO (XI (XI (XO XH)))))))))))), (Npos (XI (XO (XO
    (XI (XI (XO XH)))))))) :: (((Npos (XI (XI (XO (XI (XI (XI (XO (XO (XI (XI
    (XO XH)))))))))))), (Npos (XI (XO (XO (XI (XI (XO XH)))))))) :: (((Npos
    (XO (XI (XO (XI (XI (XO (XI (XO (XI (XI (XO XH)))))))))))), (Npos (XI (XO
    (XO (XI (XI (XO XH)))))))) :: (((Npos (XO (XI (XO (XI (XI (XI (XI (XO (XI
    (XI (XO XH)))))))))))), (Npos (XI (XO (XO (XI (XI (XO
    XH)))))))) :: (((Npos (XI (XI (XO (XO (XO (XI (XO (XI (XI (XI (XO
    XH)))))))))))), (Npos (XI (XO (XO (XI (XI (XO XH)))))))) :: (((Npos (XI
    (XI (XI (XO (XO (XO (XI (XI (XI (XI (XO XH)))))))))))), (Npos (XI (XO (XO
    (XI (XI (XO XH)))))))) :: (((Npos (XO (XO (XO (XO (XI (XI (XI (XI (XI (XI
    (XO XH)))))))))))), (Npos (XI (XO (XO (XI (XI (XO XH)))))))) :: (((Npos
    (XI (XO (XI (XI (XI (XO (XO (XO (XO (XO (XI XH)))))))))))), (Npos (XI (XO
    (XO (XI (XI (XO XH)))))))) :: (((Npos (XI (XI (XI (XI (XO (XO (XI (XO (XO
    (XO (XI XH)))))))))))), (Npos (XI (XO (XO (XI (XI (XO
    XH)))))))) :: (((Npos (XO (XI (XO (XO (XI (XI (XI (XO (XO (XO (XI
    XH)))))))))))), (Npos (XI (XO (XO (XI (XI (XO XH)))))))) :: (((Npos (XO
    (XO (XO (XI (XI (XO (XO (XI (XO (XO (XI XH)))))))))))), (Npos (XI (XO (XO
    (XI (XI (XO XH)))))))) :: (((Npos (XI (XO (XO (XO (XO (XO (XI (XI (XO (XO
    (XI XH)))))))))))), (Npos (XI (XO (XO (XO (XO (XI XH)))))))) :: (((Npos
    (XI (XI (XO (XO (XO (XI (XI (XI (XO (XO (XI XH)))))))))))), (Npos (XI (XO
    (XO (XO (XO (XI XH)))))))) :: (((Npos (XO (XO (XO (XO (XI (XO (XO (XO (XI
    (XO (XI XH)))))))))))), (Npos (XI (XO (XO (XO (XO (XI
    XH)))))))) :: (((Npos (XI (XI (XO (XI (XI (XI (XO (XO (XI (XO (XI
    XH)))))))))))), (Npos (XI (XO (XO (XO (XO (XI XH)))))))) :: (((Npos (XI
    (XI (XI (XI (XI (XO (XI (XO (XI (XO (XI XH)))))))))))), (Npos (XI (XO (XO
    (XO (XO (XI XH)))))))) :: (((Npos (XO (XI (XO (XI (XO (XO (XO (XI (XI (XO
    (XI XH)))))))))))), (Npos (XI (XO (XO (XO (XO (XI XH)))))))) :: (((Npos
    (XO (XI (XI (XI (XO (XI (XO (XI (XI (XO (XI XH)))))))))))), (Npos (XI (XO
    (XO (XO (XO (XI XH)))))))) :: (((Npos (XI (XI (XO (XO (XI (XO (XI (XI (XI
    (XO (XI XH)))))))))))), (Npos (XI (XO (XO (XO (XO (XI
    XH)))))))) :: (((Npos (XI (XI (XO (XI (XI (XI (XI (XI (XI (XO (XI
    XH)))))))))))), (Npos (XI (XO (XO (XO (XO (XI XH)))))))) :: (((Npos (XO
    (XO (XO (XO (XO (XI (XO (XO (XO (XI (XI XH)))))))))))), (Npos (XI (XO (XO
    (XO (XO (XI XH)))))))) :: (((Npos (XO (XI (XO (XI (XO (XO (XI (XO (XO (XI
    (XI XH)))))))))))), (Npos (XI (XO (XO (XO (XO (XI XH)))))))) :: (((Npos
    (XI (XO (XO (XO (XI (XI (XI (XO (XO (XI (XI XH)))))))))))), (Npos (XI (XO
    (XO (XO (XO (XI XH)))))))) :: (((Npos (XI (XI (XI (XO (XO (XI (XO (XI (XO
    (XI (XI XH)))))))))))), (Npos (XI (XO (XO (XO (XO (XI
    XH)))))))) :: (((Npos (XO (XO (XO (XO (XI (XO (XI (XI (XO (XI (XI
    XH)))))))))))), (Npos (XI (XO (XO (XO (XO (XI XH)))))))) :: (((Npos (XO
    (XO (XO (XO (XO (XO (XO (XO (XI (XI (XI XH)))))))))))), (Npos (XI (XO (XO
    (XO (XO (XI XH)))))))) :: (((Npos (XI (XI (XO (XI (XO (XI (XO (XO (XI (XI
    (XI XH)))))))))))), (Npos (XI (XO (XI (XO (XO (XI XH)))))))) :: (((Npos
    (XO (XO (XI (XO (XI (XO (XI (XO (XI (XI (XI XH)))))))))))), (Npos (XI (XO
    (XI (XO (XO (XI XH)))))))) :: (((Npos (XO (XI (XO (XO (XO (XO (XO (XI (XI
    (XI (XI XH)))))))))))), (Npos (XI (XO (XI (XO (XO (XI
    XH)))))))) :: (((Npos (XI (XI (XI (XI (XO (XI (XO (XI (XI (XI (XI
    XH)))))))))))), (Npos (XI (XO (XI (XO (XO (XI XH)))))))) :: (((Npos (XI
    (XO (XI (XO (XO (XI (XI (XI (XI (XI (XI XH)))))))))))), (Npos (XI (XO (XI
    (XO (XO (XI XH)))))))) :: (((Npos (XO (XO (XO (XO (XI (XO (XO (XO (XO (XO
    (XO (XO XH))))))))))))), (Npos (XI (XO (XI (XO (XO (XI
    XH)))))))) :: (((Npos (XI (XO (XI (XO (XO (XO (XI (XO (XO (XO (XO (XO
    XH))))))))))))), (Npos (XI (XI (XI (XO (XO (XI XH)))))))) :: (((Npos (XI
    (XI (XI (XI (XO (XI (XI (XO (XO (XO (XO (XO XH))))))))))))), (Npos (XI
    (XI (XI (XO (XO (XI XH)))))))) :: (((Npos (XO (XO (XI (XI (XI (XO (XO (XI
    (XO (XO (XO (XO XH))))))))))))), (Npos (XI (XI (XI (XO (XO (XI
    XH)))))))) :: (((Npos (XO (XI (XI (XI (XI (XO (XI (XI (XO (XO (XO (XO
    XH))))))))))))), (Npos (XI (XI (XI (XO (XO (XI XH)))))))) :: (((Npos (XI
    (XO (XI (XI (XO (XO (XO (XO (XI (XO (XO (XO XH))))))))))))), (Npos (XI
    (XI (XO (XI (XO (XI XH)))))))) :: (((Npos (XO (XI (XO (XO (XO (XO (XI (XO
    (XI (XO (XO (XO XH))))))))))))), (Npos (XI (XI (XO (XI (XO (XI
    XH)))))))) :: (((Npos (XO (XO (XI (XO (XI (XI (XI (XO (XI (XO (XO (XO
    XH))))))))))))), (Npos (XI (XI (XO (XI (XO (XI XH)))))))) :: (((Npos (XI
    (XO (XO (XO (XO (XI (XO (XI (XI (XO (XO (XO XH))))))))))))), (Npos (XI
    (XI (XO (XI (XO (XI XH)))))))) :: (((Npos (XI (XI (XI (XO (XI (XO (XI (XI
    (XI (XO (XO (XO XH))))))))))))), (Npos (XI (XI (XO (XI (XO (XI
    XH)))))))) :: (((Npos (XO (XI (XO (XO (XI (XO (XO (XO (XO (XI (XO (XO
    XH))))))))))))), (Npos (XI (XI (XO (XI (XO (XI XH)))))))) :: (((Npos (XI
    (XO (XO (XI (XO (XO (XI (XO (XO (XI (XO (XO XH))))))))))))), (Npos (XI
    (XO (XI (XI (XO (XI XH)))))))) :: (((Npos (XI (XI (XO (XI (XI (XI (XI (XO
    (XO (XI (XO (XO XH))))))))))))), (Npos (XI (XO (XI (XI (XO (XI
    XH)))))))) :: (((Npos (XO (XO (XI (XI (XO (XI (XO (XI (XO (XI (XO (XO
    XH))))))))))))), (Npos (XI (XO (XI (XI (XO (XI XH)))))))) :: (((Npos (XO
    (XI (XI (XO (XO (XI (XI (XI (XO (XI (XO (XO XH))))))))))))), (Npos (XI
    (XO (XI (XI (XO (XI XH)))))))) :: (((Npos (XI (XO (XI (XO (XO (XI (XO (XO
    (XI (XI (XO (XO XH))))))))))))), (Npos (XI (XO (XO (XO (XI (XI
    XH)))))))) :: (((Npos (XO (XI (XO (XI (XI (XO (XI (XO (XI (XI (XO (XO
    XH))))))))))))), (Npos (XI (XO (XO (XO (XI (XI XH)))))))) :: (((Npos (XO
    (XO (XO (XO (XI (XO (XO (XI (XI (XI (XO (XO XH))))))))))))), (Npos (XI
    (XO (XO (XO (XI (XI XH)))))))) :: (((Npos (XI (XI (XI (XO (XO (XO (XI (XI
    (XI (XI (XO (XO XH))))))))))))), (Npos (XI (XO (XO (XO (XI (XI
    XH)))))))) :: (((Npos (XO (XO (XI (XI (XI (XI (XI (XI (XI (XI (XO (XO
    XH))))))))))))), (Npos (XI (XO (XO (XO (XI (XI XH)))))))) :: (((Npos (XO
    (XO (XI (XO (XI (XI (XO (XO (XO (XO (XI (XO XH))))))))))))), (Npos (XI
    (XO (XO (XO (XI (XI XH)))))))) :: (((Npos (XI (XO (XO (XI (XO (XI (XI (XO
    (XO (XO (XI (XO XH))))))))))))), (Npos (XI (XI (XI (XI (XI (XI
    XH)))))))) :: (((Npos (XI (XI (XI (XI (XI (XO (XO (XI (XO (XO (XI (XO
    XH))))))))))))), (Npos (XI (XI (XI (XI (XI (XI XH)))))))) :: (((Npos (XO
    (XI (XI (XO (XI (XO (XI (XI (XO (XO (XI (XO XH))))))))))))), (Npos (XI
    (XI (XI (XI (XI (XI XH)))))))) :: (((Npos (XI (XI (XI (XI (XO (XO (XO (XO
    (XI (XO (XI (XO XH))))))))))))), (Npos (XI (XI (XI (XI (XI (XI
    XH)))))))) :: (((Npos (XI (XO (XO (XI (XO (XO (XI (XO (XI (XO (XI (XO
    XH))))))))))))), (Npos (XI (XI (XI (XI (XI (XI XH)))))))) :: (((Npos (XO
    (XI (XO (XO (XO (XO (XO (XI (XI (XO (XI (XO XH))))))))))))), (Npos (XI
    (XI (XI (XI (XI (XI XH)))))))) :: (((Npos (XO (XI (XI (XI (XI (XI (XO (XI
    (XI (XO (XI (XO XH))))))))))))), (Npos (XI (XI (XI (XI (XI (XI
    XH)))))))) :: (((Npos (XI (XO (XI (XO (XO (XO (XO (XO (XO (XI (XI (XO
    XH))))))))))))), (Npos (XI (XI (XI (XI (XI (XI XH)))))))) :: (((Npos (XO
    (XI (XI (XI (XI (XI (XO (XO (XO (XI (XI (XO XH))))))))))))), (Npos (XI
    (XI (XI (XI (XI (XI XH)))))))) :: (((Npos (XI (XI (XO (XO (XO (XO (XO (XI
    (XO (XI (XI (XO XH))))))))))))), (Npos (XI (XI (XI (XI (XI (XI
    XH)))))))) :: (((Npos (XI (XI (XI (XI (XI (XI (XO (XI (XO (XI (XI (XO
    XH))))))))))))), (Npos (XI (XI (XI (XI (XI (XI XH)))))))) :: (((Npos (XO
    (XO (XO (XI (XO (XO (XO (XO (XI (XI (XI (XO XH))))))))))))), (Npos (XI
    (XI (XI (XI (XI (XI XH)))))))) :: (((Npos (XI (XI (XI (XO (XI (XO (XI (XO
    (XI (XI (XI (XO XH))))))))))))), (Npos (XI (XI (XI (XI (XI (XI
    XH)))))))) :: (((Npos (XI (XI (XI (XO (XI (XO (XO (XI (XI (XI (XI (XO
    XH))))))))))))), (Npos (XI (XI (XI (XI (XI (XI XH)))))))) :: (((Npos (XO
    (XI (XI (XO (XI (XO (XI (XI (XI (XI (XI (XO XH))))))))))))), (Npos (XI
    (XI (XI (XI (XI (XI XH)))))))) :: (((Npos (XI (XO (XO (XI (XI (XO (XO (XO
    (XO (XO (XO (XI XH))))))))))))), (Npos (XI (XI (XI (XI (XI (XI
    XH)))))))) :: (((Npos (XI (XO (XO (XI (XI (XO (XI (XO (XO (XO (XO (XI
    XH))))))))))))), (Npos (XI (XI (XI (XI (XI (XI XH)))))))) :: (((Npos (XO
    (XO (XO (XI (XI (XO (XO (XI (XO (XO (XO (XI XH))))))))))))), (Npos (XI
    (XI (XI (XI (XI (XI XH)))))))) :: (((Npos (XI (XI (XO (XI (XI (XO (XI (XI
    (XO (XO (XO (XI XH))))))))))))), (Npos (XI (XI (XI (XI (XI (XI
    XH)))))))) :: (((Npos (XI (XI (XO (XI (XI (XO (XO (XO (XI (XO (XO (XI
    XH))))))))))))), (Npos (XI (XI (XI (XI (XI (XI XH)))))))) :: (((Npos (XO
    (XI (XI (XO (XI (XI (XI (XO (XI (XO (XO (XI XH))))))))))))), (Npos (XI
    (XI (XI (XI (XI (XI XH)))))))) :: (((Npos (XI (XO (XI (XI (XI (XI (XO (XI
    (XI (XO (XO (XI XH))))))))))))), (Npos (XI (XI (XO (XO (XO (XO (XO
    XH))))))))) :: (((Npos (XI (XI (XI (XI (XI (XI (XI (XI (XI (XO (XO (XI
    XH))))))))))))), (Npos (XI (XI (XO (XO (XO (XO (XO XH))))))))) :: (((Npos
    (XO (XI (XO (XI (XO (XO (XI (XO (XO (XI (XO (XI XH))))))))))))), (Npos
    (XI (XI (XO (XO (XO (XO (XO XH))))))))) :: (((Npos (XI (XI (XI (XI (XO
    (XO (XO (XI (XO (XI (XO (XI XH))))))))))))), (Npos (XI (XI (XO (XO (XO
    (XO (XO XH))))))))) :: (((Npos (XO (XI (XI (XI (XI (XO (XI (XI (XO (XI
    (XO (XI XH))))))))))))), (Npos (XI (XI (XO (XO (XO (XO (XO
    XH))))))))) :: (((Npos (XO (XO (XI (XI (XO (XI (XO (XO (XI (XI (XO (XI
    XH))))))))))))), (Npos (XI (XI (XO (XO (XO (XO (XO XH))))))))) :: (((Npos
    (XI (XO (XO (XI (XI (XI (XI (XO (XI (XI (XO (XI XH))))))))))))), (Npos
    (XI (XO (XO (XI (XO (XO (XO XH))))))))) :: (((Npos (XO (XO (XI (XO (XO
    (XO (XI (XI (XI (XI (XO (XI XH))))))))))))), (Npos (XI (XO (XO (XI (XO
    (XO (XO XH))))))))) :: (((Npos (XI (XO (XO (XO (XI (XO (XO (XO (XO (XO
    (XI (XI XH))))))))))))), (Npos (XI (XO (XO (XI (XO (XO (XO
    XH))))))))) :: (((Npos (XI (XO (XO (XO (XI (XI (XI (XO (XO (XO (XI (XI
    XH))))))))))))), (Npos (XI (XO (XO (XI (XO (XO (XO XH))))))))) :: (((Npos
    (XO (XO (XO (XO (XO (XO (XI (XI (XO (XO (XI (XI XH))))))))))))), (Npos
    (XI (XO (XO (XI (XO (XO (XO XH))))))))) :: (((Npos (XI (XO (XI (XO (XI
    (XO (XO (XO (XI (XO (XI (XI XH))))))))))))), (Npos (XI (XO (XO (XI (XO
    (XO (XO XH))))))))) :: (((Npos (XO (XO (XO (XO (XO (XI (XI (XO (XI (XO
    (XI (XI XH))))))))))))), (Npos (XI (XO (XO (XI (XO (XO (XO
    XH))))))))) :: (((Npos (XO (XO (XI (XI (XO (XI (XO (XI (XI (XO (XI (XI
    XH))))))))))))), (Npos (XI (XO (XO (XI (XO (XO (XO XH))))))))) :: (((Npos
    (XI (XI (XO (XI (XI (XI (XI (XI (XI (XO (XI (XI XH))))))))))))), (Npos
    (XI (XI (XO (XI (XO (XO (XO XH))))))))) :: (((Npos (XO (XI (XO (XI (XI
    (XO (XI (XO (XO (XI (XI (XI XH))))))))))))), (Npos (XI (XI (XO (XI (XO
    (XO (XO XH))))))))) :: (((Npos (XI (XI (XI (XI (XO (XI (XO (XI (XO (XI
    (XI (XI XH))))))))))))), (Npos (XI (XO (XI (XO (XI (XO (XO
    XH))))))))) :: (((Npos (XI (XI (XI (XI (XI (XI (XI (XI (XO (XI (XI (XI
    XH))))))))))))), (Npos (XI (XO (XI (XO (XI (XO (XO XH))))))))) :: (((Npos
    (XO (XI (XI (XI (XI (XO (XI (XO (XI (XI (XI (XI XH))))))))))))), (Npos
    (XI (XO (XI (XO (XI (XO (XO XH))))))))) :: (((Npos (XI (XI (XI (XI (XO
    (XI (XO (XI (XI (XI (XI (XI XH))))))))))))), (Npos (XI (XO (XI (XO (XI
    (XO (XO XH))))))))) :: (((Npos (XO (XI (XO (XO (XO (XO (XO (XO (XO (XO
    (XO (XO (XO XH)))))))))))))), (Npos (XI (XO (XI (XO (XI (XO (XO
    XH))))))))) :: (((Npos (XO (XI (XO (XO (XO (XI (XI (XO (XO (XO (XO (XO
    (XO XH)))))))))))))), (Npos (XI (XO (XI (XO (XI (XO (XO
    XH))))))))) :: (((Npos (XI (XO (XO (XI (XI (XI (XO (XI (XO (XO (XO (XO
    (XO XH)))))))))))))), (Npos (XI (XO (XI (XO (XI (XO (XO
    XH))))))))) :: (((Npos (XO (XI (XO (XI (XI (XO (XO (XO (XI (XO (XO (XO
    (XO XH)))))))))))))), (Npos (XI (XO (XI (XO (XI (XO (XO
    XH))))))))) :: (((Npos (XI (XI (XI (XI (XO (XI (XI (XO (XI (XO (XO (XO
    (XO XH)))))))))))))), (Npos (XI (XO (XI (XO (XI (XO (XO
    XH))))))))) :: (((Npos (XO (XI (XI (XI (XO (XO (XI (XI (XI (XO (XO (XO
    (XO XH)))))))))))))), (Npos (XI (XO (XI (XO (XI (XO (XO
    XH))))))))) :: (((Npos (XO (XO (XO (XI (XO (XI (XO (XO (XO (XI (XO (XO
    (XO XH)))))))))))))), (Npos (XI (XO (XI (XO (XI (XO (XO
    XH))))))))) :: (((Npos (XI (XO (XI (XO (XO (XO (XO (XI (XO (XI (XO (XO
    (XO XH)))))))))))))), (Npos (XI (XO (XI (XO (XI (XO (XO
    XH))))))))) :: (((Npos (XO (XO (XO (XO (XO (XI (XI (XI (XO (XI (XO (XO
    (XO XH)))))))))))))), (Npos (XI (XO (XI (XO (XI (XO (XO
    XH))))))))) :: (((Npos (XI (XI (XO (XI (XI (XI (XO (XO (XI (XI (XO (XO
    (XO XH)))))))))))))), (Npos (XI (XI (XI (XO (XI (XO (XO
    XH))))))))) :: (((Npos (XI (XI (XI (XO (XI (XO (XO (XI (XI (XI (XO (XO
    (XO XH)))))))))))))), (Npos (XI (XI (XI (XO (XI (XO (XO
    XH))))))))) :: (((Npos (XO (XI (XI (XO (XI (XI (XI (XI (XI (XI (XO (XO
    (XO XH)))))))))))))), (Npos (XI (XI (XI (XO (XI (XO (XO
    XH))))))))) :: (((Npos (XI (XI (XI (XO (XI (XO (XI (XO (XO (XO (XI (XO
    (XO XH)))))))))))))), (Npos (XI (XO (XI (XI (XI (XO (XO
    XH))))))))) :: (((Npos (XO (XO (XO (XI (XI (XI (XO (XI (XO (XO (XI (XO
    (XO XH)))))))))))))), (Npos (XI (XO (XI (XI (XI (XO (XO
    XH))))))))) :: (((Npos (XI (XO (XO (XI (XI (XO (XO (XO (XI (XO (XI (XO
    (XO XH)))))))))))))), (Npos (XI (XO (XI (XI (XI (XO (XO
    XH))))))))) :: (((Npos (XI (XO (XO (XO (XO (XO (XO (XI (XI (XO (XI (XO
    (XO XH)))))))))))))), (Npos (XI (XO (XI (XI (XI (XO (XO
    XH))))))))) :: (((Npos (XO (XO (XI (XI (XO (XI (XI (XI (XI (XO (XI (XO
    (XO XH)))))))))))))), (Npos (XI (XO (XI (XI (XI (XO (XO
    XH))))))))) :: (((Npos (XI (XO (XI (XO (XI (XO (XI (XO (XO (XI (XI (XO
    (XO XH)))))))))))))), (Npos (XI (XO (XI (XI (XI (XO (XO
    XH))))))))) :: (((Npos (XO (XO (XI (XI (XI (XI (XO (XI (XO (XI (XI (XO
    (XO XH)))))))))))))), (Npos (XI (XO (XI (XI (XI (XO (XO
    XH))))))))) :: (((Npos (XI (XO (XO (XO (XO (XI (XO (XO (XI (XI (XI (XO
    (XO XH)))))))))))))), (Npos (XI (XI (XO (XO (XO (XI (XO
    XH))))))))) :: (((Npos (XO (XO (XO (XI (XO (XO (XO (XI (XI (XI (XI (XO
    (XO XH)))))))))))))), (Npos (XI (XI (XO (XO (XO (XI (XO
    XH))))))))) :: (((Npos (XI (XO (XO (XO (XO (XO (XO (XO (XO (XO (XO (XI
    (XO XH)))))))))))))), (Npos (XI (XI (XO (XO (XO (XI (XO
    XH))))))))) :: (((Npos (XI (XI (XI (XI (XO (XI (XI (XO (XO (XO (XO (XI
    (XO XH)))))))))))))), (Npos (XI (XI (XO (XO (XO (XI (XO
    XH))))))))) :: (((Npos (XO (XI (XO (XI (XI (XO (XI (XI (XO (XO (XO (XI
    (XO XH)))))))))))))), (Npos (XI (XI (XO (XO (XO (XI (XO
    XH))))))))) :: (((Npos (XI (XI (XI (XO (XO (XO (XI (XO (XI (XO (XO (XI
    (XO XH)))))))))))))), (Npos (XI (XI (XO (XO (XO (XI (XO
    XH))))))))) :: (((Npos (XO (XO (XI (XO (XI (XI (XO (XI (XI (XO (XO (XI
    (XO XH)))))))))))))), (Npos (XI (XI (XO (XO (XO (XI (XO
    XH))))))))) :: (((Npos (XI (XI (XO (XO (XO (XI (XO (XO (XO (XI (XO (XI
    (XO XH)))))))))))))), (Npos (XI (XI (XI (XO (XO (XI (XO
    XH))))))))) :: (((Npos (XI (XI (XO (XO (XI (XO (XO (XI (XO (XI (XO (XI
    (XO XH)))))))))))))), (Npos (XI (XI (XI (XO (XO (XI (XO
    XH))))))))) :: (((Npos (XI (XI (XI (XO (XO (XO (XO (XO (XI (XI (XO (XI
    (XO XH)))))))))))))), (Npos (XI (XI (XI (XO (XO (XI (XO
    XH))))))))) :: (((Npos (XO (XI (XO (XI (XI (XI (XI (XO (XI (XI (XO (XI
    (XO XH)))))))))))))), (Npos (XI (XI (XI (XO (XO (XI (XO
    XH))))))))) :: (((Npos (XI (XO (XI (XI (XO (XI (XI (XI (XI (XI (XO (XI
    (XO XH)))))))))))))), (Npos (XI (XI (XI (XO (XO (XI (XO
    XH))))))))) :: (((Npos (XO (XI (XI (XI (XI (XO (XI (XO (XO (XO (XI (XI
    (XO XH)))))))))))))), (Npos (XI (XO (XI (XI (XO (XI (XO
    XH))))))))) :: (((Npos (XI (XI (XO (XO (XI (XO (XI (XI (XO (XO (XI (XI
    (XO XH)))))))))))))), (Npos (XI (XO (XI (XI (XO (XI (XO
    XH))))))))) :: (((Npos (XO (XI (XI (XO (XO (XO (XI (XO (XI (XO (XI (XI
    (XO XH)))))))))))))), (Npos (XI (XO (XI (XI (XO (XI (XO
    XH))))))))) :: (((Npos (XI (XI (XI (XI (XI (XI (XO (XI (XI (XO (XI (XI
    (XO XH)))))))))))))), (Npos (XI (XO (XI (XI (XO (XI (XO
    XH))))))))) :: (((Npos (XI (XO (XI (XO (XI (XI (XO (XO (XO (XI (XI (XI
    (XO XH)))))))))))))), (Npos (XI (XO (XI (XI (XO (XI (XO
    XH))))))))) :: (((Npos (XO (XO (XI (XO (XI (XI (XO (XI (XO (XI (XI (XI
    (XO XH)))))))))))))), (Npos (XI (XO (XI (XI (XO (XI (XO
    XH))))))))) :: (((Npos (XI (XI (XI (XO (XI (XI (XO (XO (XI (XI (XI (XI
    (XO XH)))))))))))))), (Npos (XI (XO (XI (XI (XO (XI (XO
    XH))))))))) :: (((Npos (XO (XO (XO (XO (XI (XI (XO (XI (XI (XI (XI (XI
    (XO XH)))))))))))))), (Npos (XI (XI (XO (XO (XI (XI (XO
    XH))))))))) :: (((Npos (XI (XO (XI (XI (XO (XI (XO (XO (XO (XO (XO (XO
    (XI XH)))))))))))))), (Npos (XI (XI (XO (XO (XI (XI (XO
    XH))))))))) :: (((Npos (XO (XO (XI (XI (XO (XI (XO (XI (XO (XO (XO (XO
    (XI XH)))))))))))))), (Npos (XI (XI (XO (XO (XI (XI (XO
    XH))))))))) :: (((Npos (XI (XO (XO (XO (XI (XI (XO (XO (XI (XO (XO (XO
    (XI XH)))))))))))))), (Npos (XI (XI (XO (XO (XI (XI (XO
    XH))))))))) :: (((Npos (XO (XI (XI (XO (XI (XI (XO (XI (XI (XO (XO (XO
    (XI XH)))))))))))))), (Npos (XI (XI (XO (XO (XI (XI (XO
    XH))))))))) :: (((Npos (XI (XO (XO (XI (XI (XI (XO (XO (XO (XI (XO (XO
    (XI XH)))))))))))))), (Npos (XI (XI (XO (XO (XI (XI (XO
    XH))))))))) :: (((Npos (XO (XI (XO (XI (XO (XO (XI (XI (XO (XI (XO (XO
    (XI XH)))))))))))))), (Npos (XI (XO (XI (XO (XI (XI (XO
    XH))))))))) :: (((Npos (XI (XI (XI (XO (XI (XO (XI (XO (XI (XI (XO (XO
    (XI XH)))))))))))))), (Npos (XI (XO (XI (XO (XI (XI (XO
    XH))))))))) :: (((Npos (XO (XO (XI (XO (XO (XI (XI (XI (XI (XI (XO (XO
    (XI XH)))))))))))))), (Npos (XI (XI (XI (XI (XI (XI (XO
    XH))))))))) :: (((Npos (XI (XO (XO (XI (XO (XI (XI (XO (XO (XO (XI (XO
    (XI XH)))))))))))))), (Npos (XI (XI (XI (XI (XI (XI (XO
    XH))))))))) :: (((Npos (XO (XI (XI (XO (XI (XI (XI (XI (XO (XO (XI (XO
    (XI XH)))))))))))))), (Npos (XI (XI (XI (XI (XI (XI (XO
    XH))))))))) :: (((Npos (XI (XI (XI (XI (XI (XI (XI (XO (XI (XO (XI (XO
    (XI XH)))))))))))))), (Npos (XI (XI (XI (XI (XI (XI (XO
    XH))))))))) :: (((Npos (XI (XO (XO (XI (XO (XO (XO (XO (XO (XI (XI (XO
    (XI XH)))))))))))))), (Npos (XI (XI (XI (XI (XI (XI (XO
    XH))))))))) :: (((Npos (XO (XI (XI (XO (XI (XO (XO (XI (XO (XI (XI (XO
    (XI XH)))))))))))))), (Npos (XI (XI (XI (XI (XI (XI (XO
    XH))))))))) :: (((Npos (XI (XI (XO (XO (XO (XI (XO (XO (XI (XI (XI (XO
    (XI XH)))))))))))))), (Npos (XI (XI (XI (XI (XI (XI (XO
    XH))))))))) :: (((Npos (XO (XO (XO (XO (XO (XO (XI (XI (XI (XI (XI (XO
    (XI XH)))))))))))))), (Npos (XI (XI (XI (XI (XI (XI (XO
    XH))))))))) :: (((Npos (XI (XI (XI (XI (XO (XO (XI (XO (XO (XO (XO (XI
    (XI XH)))))))))))))), (Npos (XI (XI (XI (XI (XI (XI (XO
    XH))))))))) :: (((Npos (XO (XO (XO (XO (XO (XI (XI (XI (XO (XO (XO (XI
    (XI XH)))))))))))))), (Npos (XI (XI (XI (XI (XI (XI (XO
    XH))))))))) :: (((Npos (XI (XO (XO (XI (XI (XI (XI (XO (XI (XO (XO (XI
    (XI XH)))))))))))))), (Npos (XI (XI (XI (XI (XI (XI (XO
    XH))))))))) :: (((Npos (XO (XI (XI (XI (XO (XO (XO (XO (XO (XI (XO (XI
    (XI XH)))))))))))))), (Npos (XI (XO (XO (XO (XO (XO (XI
    XH))))))))) :: (((Npos (XI (XI (XO (XO (XO (XI (XO (XI (XO (XI (XO (XI
    (XI XH)))))))))))))), (Npos (XI (XO (XO (XO (XO (XO (XI
    XH))))))))) :: (((Npos (XO (XI (XO (XO (XO (XO (XI (XO (XI (XI (XO (XI
    (XI XH)))))))))))))), (Npos (XI (XO (XI (XO (XO (XO (XI
    XH))))))))) :: (((Npos (XI (XO (XI (XI (XI (XO (XI (XI (XI (XI (XO (XI
    (XI XH)))))))))))))), (Npos (XI (XO (XI (XO (XO (XO (XI
    XH))))))))) :: (((Npos (XO (XO (XO (XI (XO (XO (XO (XI (XO (XO (XI (XI
    (XI XH)))))))))))))), (Npos (XI (XO (XI (XO (XO (XO (XI
    XH))))))))) :: (((Npos (XI (XI (XO (XO (XO (XI (XO (XO (XI (XO (XI (XI
    (XI XH)))))))))))))), (Npos (XI (XO (XI (XO (XO (XO (XI
    XH))))))))) :: (((Npos (XO (XO (XO (XO (XO (XO (XI (XI (XI (XO (XI (XI
    (XI XH)))))))))))))), (Npos (XI (XI (XI (XO (XO (XO (XI
    XH))))))))) :: (((Npos (XI (XO (XO (XI (XO (XI (XI (XO (XO (XI (XI (XI
    (XI XH)))))))))))))), (Npos (XI (XI (XI (XO (XO (XO (XI
    XH))))))))) :: (((Npos (XI (XO (XO (XO (XO (XI (XO (XO (XI (XI (XI (XI
    (XI XH)))))))))))))), (Npos (XI (XI (XO (XO (XI (XO (XI
    XH))))))))) :: (((Npos (XO (XO (XO (XO (XI (XO (XI (XI (XI (XI (XI (XI
    (XI XH)))))))))))))), (Npos (XI (XI (XO (XO (XI (XO (XI
    XH))))))))) :: (((Npos (XI (XO (XO (XI (XI (XI (XI (XO (XO (XO (XO (XO
    (XO (XO XH))))))))))))))), (Npos (XI (XI (XO (XO (XI (XO (XI
    XH))))))))) :: (((Npos (XO (XI (XO (XO (XO (XI (XO (XO (XI (XO (XO (XO
    (XO (XO XH))))))))))))))), (Npos (XI (XI (XO (XO (XI (XO (XI
    XH))))))))) :: (((Npos (XI (XI (XO (XO (XI (XO (XI (XI (XI (XO (XO (XO
    (XO (XO XH))))))))))))))), (Npos (XI (XI (XO (XO (XI (XO (XI
    XH))))))))) :: (((Npos (XO (XO (XO (XO (XO (XO (XO (XI (XO (XI (XO (XO
    (XO (XO XH))))))))))))))), (Npos (XI (XI (XO (XO (XI (XO (XI
    XH))))))))) :: (((Npos (XI (XI (XO (XI (XO (XI (XO (XO (XI (XI (XO (XO
    (XO (XO XH))))))))))))))), (Npos (XI (XI (XO (XO (XI (XO (XI
    XH))))))))) :: (((Npos (XO (XO (XO (XO (XO (XI (XI (XI (XI (XI (XO (XO
    (XO (XO XH))))))))))))))), (Npos (XI (XI (XO (XO (XI (XO (XI
    XH))))))))) :: (((Npos (XI (XI (XI (XO (XI (XO (XO (XI (XO (XO (XI (XO
    (XO (XO XH))))))))))))))), (Npos (XI (XI (XO (XO (XI (XO (XI
    XH))))))))) :: (((Npos (XO (XI (XI (XI (XO (XO (XI (XO (XI (XO (XI (XO
    (XO (XO XH))))))))))))))), (Npos (XI (XI (XO (XO (XI (XO (XI
    XH))))))))) :: (((Npos (XI (XO (XO (XI (XO (XO (XO (XO (XO (XI (XI (XO
    (XO (XO XH))))))))))))))), (Npos (XI (XI (XO (XO (XI (XO (XI
    XH))))))))) :: (((Npos (XO (XO (XI (XO (XO (XO (XI (XI (XO (XI (XI (XO
    (XO (XO XH))))))))))))))), (Npos (XI (XI (XI (XI (XI (XO (XI
    XH))))))))) :: (((Npos (XI (XO (XI (XO (XO (XO (XO (XI (XI (XI (XI (XO
    (XO (XO XH))))))))))))))), (Npos (XI (XI (XI (XI (XI (XO (XI
    XH))))))))) :: (((Npos (XI (XI (XI (XO (XO (XO (XI (XO (XO (XO (XO (XI
    (XO (XO XH))))))))))))))), (Npos (XI (XI (XI (XI (XI (XO (XI
    XH))))))))) :: (((Npos (XO (XI (XI (XO (XO (XO (XO (XO (XI (XO (XO (XI
    (XO (XO XH))))))))))))))), (Npos (XI (XI (XI (XI (XI (XO (XI
    XH))))))))) :: (((Npos (XI (XO (XI (XI (XI (XO (XI (XI (XI (XO (XO (XI
    (XO (XO XH))))))))))))))), (Npos (XI (XI (XI (XI (XI (XO (XI
    XH))))))))) :: (((Npos (XO (XI (XI (XO (XI (XI (XO (XI (XO (XI (XO (XI
    (XO (XO XH))))))))))))))), (Npos (XI (XI (XI (XI (XI (XO (XI
    XH))))))))) :: (((Npos (XI (XO (XI (XI (XI (XI (XI (XO (XI (XI (XO (XI
    (XO (XO XH))))))))))))))), (Npos (XI (XI (XI (XI (XI (XO (XI
    XH))))))))) :: (((Npos (XI (XI (XO (XO (XI (XO (XI (XO (XO (XO (XI (XI
    (XO (XO XH))))))))))))))), (Npos (XI (XI (XI (XI (XI (XO (XI
    XH))))))))) :: (((Npos (XO (XO (XI (XI (XI (XO (XO (XO (XI (XO (XI (XI
    (XO (XO XH))))))))))))))), (Npos (XI (XI (XI (XI (XI (XO (XI
    XH))))))))) :: (((Npos (XI (XI (XO (XO (XO (XI (XI (XI (XI (XO (XI (XI
    (XO (XO XH))))))))))))))), (Npos (XI (XI (XI (XI (XI (XO (XI
    XH))))))))) :: (((Npos (XO (XO (XO (XI (XI (XI (XO (XI (XO (XI (XI (XI
    (XO (XO XH))))))))))))))), (Npos (XI (XI (XO (XO (XO (XI (XI
    XH))))))))) :: (((Npos (XI (XI (XO (XO (XO (XO (XO (XI (XI (XI (XI (XI
    (XO (XO XH))))))))))))))), (Npos (XI (XI (XO (XO (XO (XI (XI
    XH))))))))) :: (((Npos (XO (XO (XI (XO (XI (XO (XI (XO (XO (XO (XO (XO
    (XI (XO XH))))))))))))))), (Npos (XI (XI (XO (XO (XO (XI (XI
    XH))))))))) :: (((Npos (XO (XI (XO (XI (XO (XI (XO (XO (XI (XO (XO (XO
    (XI (XO XH))))))))))))))), (Npos (XI (XI (XO (XO (XO (XI (XI
    XH))))))))) :: (((Npos (XO (XO (XI (XI (XI (XI (XI (XI (XI (XO (XO (XO
    (XI (XO XH))))))))))))))), (Npos (XI (XO (XI (XO (XO (XI (XI
    XH))))))))) :: (((Npos (XI (XI (XI (XI (XO (XO (XI (XI (XO (XI (XO (XO
    (XI (XO XH))))))))))))))), (Npos (XI (XO (XO (XI (XO (XI (XI
    XH))))))))) :: (((Npos (XO (XO (XI (XO (XO (XI (XO (XI (XI (XI (XO (XO
    (XI (XO XH))))))))))))))), (Npos (XI (XO (XO (XI (XO (XI (XI
    XH))))))))) :: (((Npos (XI (XO (XI (XI (XI (XI (XI (XO (XO (XO (XI (XO
    (XI (XO XH))))))))))))))), (Npos (XI (XO (XO (XI (XO (XI (XI
    XH))))))))) :: (((Npos (XO (XO (XI (XI (XI (XO (XI (XO (XI (XO (XI (XO
    (XI (XO XH))))))))))))))), (Npos (XI (XO (XO (XI (XO (XI (XI
    XH))))))))) :: (((Npos (XI (XO (XO (XI (XI (XI (XO (XO (XO (XI (XI (XO
    (XI (XO XH))))))))))))))), (Npos (XI (XI (XI (XI (XO (XI (XI
    XH))))))))) :: (((Npos (XI (XO (XI (XI (XI (XO (XO (XO (XI (XI (XI (XO
    (XI (XO XH))))))))))))))), (Npos (XI (XI (XI (XI (XO (XI (XI
    XH))))))))) :: (((Npos (XO (XO (XO (XI (XO (XO (XO (XO (XO (XO (XO (XI
    (XI (XO XH))))))))))))))), (Npos (XI (XI (XI (XI (XO (XI (XI
    XH))))))))) :: (((Npos (XI (XI (XO (XI (XI (XI (XI (XI (XO (XO (XO (XI
    (XI (XO XH))))))))))))))), (Npos (XI (XI (XI (XI (XO (XI (XI
    XH))))))))) :: (((Npos (XO (XI (XO (XO (XO (XI (XI (XI (XI (XO (XO (XI
    (XI (XO XH))))))))))))))), (Npos (XI (XI (XI (XI (XO (XI (XI
    XH))))))))) :: (((Npos (XO (XO (XI (XO (XI (XO (XI (XI (XO (XI (XO (XI
    (XI (XO XH))))))))))))))), (Npos (XI (XO (XO (XO (XI (XI (XI
    XH))))))))) :: (((Npos (XI (XI (XO (XO (XO (XO (XI (XI (XI (XI (XO (XI
    (XI (XO XH))))))))))))))), (Npos (XI (XI (XO (XI (XI (XI (XI
    XH))))))))) :: (((Npos (XO (XI (XO (XO (XI (XI (XO (XI (XO (XO (XI (XI
    (XI (XO XH))))))))))))))), (Npos (XI (XI (XO (XI (XI (XI (XI
    XH))))))))) :: (((Npos (XI (XI (XO (XO (XO (XI (XO (XI (XI (XO (XI (XI
    (XI (XO XH))))))))))))))), (Npos (XI (XI (XO (XI (XI (XI (XI
    XH))))))))) :: (((Npos (XI (XI (XI (XO (XI (XO (XO (XI (XO (XI (XI (XI
    (XI (XO XH))))))))))))))), (Npos (XI (XI (XO (XI (XI (XI (XI
    XH))))))))) :: (((Npos (XO (XO (XI (XI (XI (XO (XO (XI (XI (XI (XI (XI
    (XI (XO XH))))))))))))))), (Npos (XI (XI (XO (XI (XI (XI (XI
    XH))))))))) :: (((Npos (XI (XO (XO (XO (XI (XO (XO (XI (XO (XO (XO (XO
    (XO (XI XH))))))))))))))), (Npos (XI (XI (XO (XI (XI (XI (XI
    XH))))))))) :: (((Npos (XO (XO (XO (XO (XI (XO (XO (XI (XI (XO (XO (XO
    (XO (XI XH))))))))))))))), (Npos (XI (XI (XO (XI (XI (XI (XI
    XH))))))))) :: (((Npos (XO (XI (XI (XI (XO (XO (XO (XI (XO (XI (XO (XO
    (XO (XI XH))))))))))))))), (Npos (XI (XI (XO (XI (XI (XI (XI
    XH))))))))) :: (((Npos (XI (XO (XI (XO (XI (XO (XO (XI (XI (XI (XO (XO
    (XO (XI XH))))))))))))))), (Npos (XI (XO (XO (XO (XO (XO (XO (XO
    XH)))))))))) :: (((Npos (XO (XO (XI (XI (XI (XO (XO (XI (XO (XO (XI (XO
    (XO (XI XH))))))))))))))), (Npos (XI (XO (XO (XO (XO (XO (XO (XO
    XH)))))))))) :: (((Npos (XO (XI (XI (XO (XO (XI (XO (XI (XI (XO (XI (XO
    (XO (XI XH))))))))))))))), (Npos (XI (XO (XO (XO (XO (XO (XO (XO
    XH)))))))))) :: (((Npos (XI (XI (XO (XO (XI (XI (XO (XI (XO (XI (XI (XO
    (XO (XI XH))))))))))))))), (Npos (XI (XO (XO (XO (XO (XO (XO (XO
    XH)))))))))) :: (((Npos (XO (XI (XI (XO (XO (XO (XI (XI (XI (XI (XI (XO
    (XO (XI XH))))))))))))))), (Npos (XI (XO (XO (XO (XO (XO (XO (XO
    XH)))))))))) :: (((Npos (XO (XI (XI (XO (XI (XO (XI (XI (XO (XO (XO (XI
    (XO (XI XH))))))))))))))), (Npos (XI (XI (XI (XO (XO (XO (XO (XO
    XH)))))))))) :: (((Npos (XI (XI (XI (XO (XO (XI (XI (XI (XI (XO (XO (XI
    (XO (XI XH))))))))))))))), (Npos (XI (XI (XI (XO (XO (XO (XO (XO
    XH)))))))))) :: (((Npos (XO (XO (XO (XO (XO (XO (XO (XO (XI (XI (XO (XI
    (XO (XI XH))))))))))))))), (Npos (XI (XI (XI (XO (XO (XO (XO (XO
    XH)))))))))) :: (((Npos (XO (XI (XO (XO (XO (XI (XO (XO (XO (XO (XI (XI
    (XO (XI XH))))))))))))))), (Npos (XI (XI (XI (XO (XO (XO (XO (XO
    XH)))))))))) :: (((Npos (XI (XI (XI (XO (XI (XI (XO (XO (XI (XO (XI (XI
    (XO (XI XH))))))))))))))), (Npos (XI (XO (XI (XI (XO (XO (XO (XO
    XH)))))))))) :: (((Npos (XO (XO (XO (XI (XI (XO (XI (XO (XO (XI (XI (XI
    (XO (XI XH))))))))))))))), (Npos (XI (XO (XI (XI (XO (XO (XO (XO
    XH)))))))))) :: (((Npos (XO (XO (XI (XO (XO (XO (XO (XI (XI (XI (XI (XI
    (XO (XI XH))))))))))))))), (Npos (XI (XO (XI (XI (XO (XO (XO (XO
    XH)))))))))) :: (((Npos (XI (XO (XI (XI (XO (XI (XO (XI (XO (XO (XO (XO
    (XI (XI XH))))))))))))))), (Npos (XI (XO (XI (XI (XO (XO (XO (XO
    XH)))))))))) :: (((Npos (XO (XI (XO (XO (XI (XO (XI (XI (XI (XO (XO (XO
    (XI (XI XH))))))))))))))), (Npos (XI (XO (XI (XI (XO (XO (XO (XO
    XH)))))))))) :: (((Npos (XO (XI (XO (XI (XI (XI (XI (XI (XO (XI (XO (XO
    (XI (XI XH))))))))))))))), (Npos (XI (XI (XI (XI (XO (XO (XO (XO
    XH)))))))))) :: (((Npos (XI (XI (XO (XO (XO (XI (XO (XO (XO (XO (XI (XO
    (XI (XI XH))))))))))))))), (Npos (XI (XO (XI (XO (XI (XO (XO (XO
    XH)))))))))) :: (((Npos (XI (XO (XI (XO (XI (XO (XI (XO (XI (XO (XI (XO
    (XI (XI XH))))))))))))))), (Npos (XI (XO (XI (XO (XI (XO (XO (XO
    XH)))))))))) :: (((Npos (XO (XI (XO (XI (XO (XO (XO (XI (XO (XI (XI (XO
    (XI (XI XH))))))))))))))), (Npos (XI (XO (XI (XO (XI (XO (XO (XO
    XH)))))))))) :: (((Npos (XO (XI (XI (XI (XI (XI (XO (XI (XI (XI (XI (XO
    (XI (XI XH))))))))))))))), (Npos (XI (XO (XI (XO (XI (XO (XO (XO
    XH)))))))))) :: (((Npos (XO (XI (XI (XI (XI (XI (XI (XI (XO (XO (XO (XI
    (XI (XI XH))))))))))))))), (Npos (XI (XO (XO (XI (XI (XO (XO (XO
    XH)))))))))) :: (((Npos (XI (XO (XI (XO (XI (XI (XO (XO (XO (XI (XO (XI
    (XI (XI XH))))))))))))))), (Npos (XI (XO (XO (XI (XI (XO (XO (XO
    XH)))))))))) :: (((Npos (XI (XO (XI (XO (XI (XI (XI (XO (XI (XI (XO (XI
    (XI (XI XH))))))))))))))), (Npos (XI (XO (XO (XI (XI (XO (XO (XO
    XH)))))))))) :: (((Npos (XO (XO (XI (XI (XO (XO (XI (XI (XO (XO (XI (XI
    (XI (XI XH))))))))))))))), (Npos (XI (XI (XO (XI (XI (XO (XO (XO
    XH)))))))))) :: (((Npos (XO (XO (XO (XO (XI (XO (XO (XO (XO (XI (XI (XI
    (XI (XI XH))))))))))))))), (Npos (XI (XO (XI (XO (XO (XI (XO (XO
    XH)))))))))) :: (((Npos (XI (XO (XO (XI (XI (XO (XI (XO (XI (XI (XI (XI
    (XI (XI XH))))))))))))))), (Npos (XI (XO (XI (XO (XO (XI (XO (XO
    XH)))))))))) :: (((Npos (XO (XO (XI (XO (XO (XI (XO (XI (XO (XO (XO (XO
    (XO (XO (XO XH)))))))))))))))), (Npos (XI (XO (XI (XO (XO (XI (XO (XO
    XH)))))))))) :: (((Npos (XO (XI (XO (XO (XO (XO (XO (XO (XO (XI (XO (XO
    (XO (XO (XO XH)))))))))))))))), (Npos (XI (XO (XI (XO (XO (XI (XO (XO
    XH)))))))))) :: (((Npos (XI (XI (XI (XO (XI (XO (XI (XO (XI (XI (XO (XO
    (XO (XO (XO XH)))))))))))))))), (Npos (XI (XO (XI (XO (XO (XI (XO (XO
    XH)))))))))) :: (((Npos (XI (XO (XO (XI (XO (XI (XO (XI (XO (XO (XI (XO
    (XO (XO (XO XH)))))))))))))))), (Npos (XI (XO (XI (XO (XO (XI (XO (XO
    XH)))))))))) :: (((Npos (XO (XI (XI (XI (XI (XI (XI (XI (XI (XO (XI (XO
    (XO (XO (XO XH)))))))))))))))), (Npos (XI (XO (XI (XO (XO (XI (XO (XO
    XH)))))))))) :: (((Npos (XO (XI (XI (XI (XI (XO (XI (XO (XI (XI (XI (XO
    (XO (XO (XO XH)))))))))))))))), (Npos (XI (XI (XO (XO (XI (XI (XO (XO
    XH)))))))))) :: (((Npos (XI (XI (XI (XO (XI (XO (XI (XI (XO (XO (XO (XI
    (XO (XO (XO XH)))))))))))))))), (Npos (XI (XI (XO (XO (XI (XI (XO (XO
    XH)))))))))) :: (((Npos (XI (XI (XO (XO (XO (XO (XI (XO (XO (XI (XO (XI
    (XO (XO (XO XH)))))))))))))))), (Npos (XI (XI (XO (XO (XI (XI (XO (XO
    XH)))))))))) :: (((Npos (XO (XI (XI (XO (XO (XI (XO (XI (XI (XI (XO (XI
    (XO (XO (XO XH)))))))))))))))), (Npos (XI (XI (XO (XO (XI (XI (XO (XO
    XH)))))))))) :: (((Npos (XO (XO (XO (XO (XI (XO (XO (XO (XI (XO (XI (XI
    (XO (XO (XO XH)))))))))))))))), (Npos (XI (XI (XO (XO (XI (XI (XO (XO
    XH)))))))))) :: (((Npos (XI (XI (XI (XI (XI (XI (XI (XO (XO (XI (XI (XI
    (XO (XO (XO XH)))))))))))))))), (Npos (XI (XI (XO (XO (XI (XI (XO (XO
    XH)))))))))) :: (((Npos (XI (XO (XO (XO (XI (XI (XI (XI (XI (XI (XI (XI
    (XO (XO (XO XH)))))))))))))))), (Npos (XI (XI (XO (XO (XI (XI (XO (XO
    XH)))))))))) :: (((Npos (XI (XI (XO (XI (XO (XI (XI (XO (XI (XO (XO (XO
    (XI (XO (XO XH)))))))))))))))), (Npos (XI (XI (XO (XO (XI (XI (XO (XO
    XH)))))))))) :: (((Npos (XO (XI (XI (XO (XO (XI (XI (XI (XO (XI (XO (XO
    (XI (XO (XO XH)))))))))))))))), (Npos (XI (XI (XO (XO (XI (XI (XO (XO
    XH)))))))))) :: (((Npos (XO (XO (XO (XI (XO (XI (XI (XO (XO (XO (XI (XO
    (XI (XO (XO XH)))))))))))))))), (Npos (XI (XI (XI (XO (XI (XI (XO (XO
    XH)))))))))) :: (((Npos (XI (XO (XO (XO (XI (XI (XI (XI (XI (XO (XI (XO
    (XI (XO (XO XH)))))))))))))))), (Npos (XI (XI (XI (XO (XI (XI (XO (XO
    XH)))))))))) :: (((Npos (XI (XI (XO (XO (XO (XO (XO (XI (XI (XI (XI (XO
    (XI (XO (XO XH)))))))))))))))), (Npos (XI (XI (XI (XO (XI (XI (XO (XO
    XH)))))))))) :: (((Npos (XO (XO (XO (XI (XO (XO (XO (XO (XI (XO (XO (XI
    (XI (XO (XO XH)))))))))))))))), (Npos (XI (XO (XO (XI (XI (XI (XO (XO
    XH)))))))))) :: (((Npos (XO (XO (XO (XI (XI (XO (XO (XI (XO (XI (XO (XI
    (XI (XO (XO XH)))))))))))))))), (Npos (XI (XO (XI (XI (XI (XI (XO (XO
    XH)))))))))) :: (((Npos (XO (XO (XI (XI (XO (XI (XO (XO (XO (XO (XI (XI
    (XI (XO (XO XH)))))))))))))))), (Npos (XI (XO (XI (XI (XI (XI (XO (XO
    XH)))))))))) :: (((Npos (XO (XI (XI (XI (XO (XO (XI (XI (XI (XO (XI (XI
    (XI (XO (XO XH)))))))))))))))), (Npos (XI (XO (XI (XI (XI (XI (XO (XO
    XH)))))))))) :: (((Npos (XO (XO (XO (XO (XI (XI (XI (XO (XI (XI (XI (XI
    (XI (XO (XO XH)))))))))))))))), (Npos (XI (XI (XO (XI (XO (XO (XI (XO
    XH)))))))))) :: (((Npos (XO (XI (XO (XI (XO (XO (XO (XO (XI (XO (XO (XO
    (XO (XI (XO XH)))))))))))))))), (Npos (XI (XI (XO (XI (XO (XO (XI (XO
    XH)))))))))) :: (((Npos (XI (XO (XO (XI (XO (XI (XO (XI (XO (XI (XO (XO
    (XO (XI (XO XH)))))))))))))))), (Npos (XI (XI (XO (XI (XO (XO (XI (XO
    XH)))))))))) :: (((Npos (XI (XI (XO (XO (XI (XO (XI (XO (XO (XO (XI (XO
    (XO (XI (XO XH)))))))))))))))), (Npos (XI (XI (XO (XI (XO (XO (XI (XO
    XH)))))))))) :: (((Npos (XO (XI (XO (XI (XI (XI (XI (XI (XI (XO (XI (XO
    (XO (XI (XO XH)))))))))))))))), (Npos (XI (XI (XO (XI (XO (XO (XI (XO
    XH)))))))))) :: (((Npos (XO (XO (XI (XO (XO (XI (XO (XI (XI (XI (XI (XO
    (XO (XI (XO XH)))))))))))))))), (Npos (XI (XI (XO (XI (XO (XO (XI (XO
    XH)))))))))) :: (((Npos (XO (XO (XI (XI (XI (XI (XI (XO (XI (XO (XO (XI
    (XO (XI (XO XH)))))))))))))))), (Npos (XI (XI (XO (XI (XO (XO (XI (XO
    XH)))))))))) :: (((Npos (XO (XO (XO (XO (XO (XO (XI (XO (XI (XI (XO (XI
    (XO (XI (XO XH)))))))))))))))), (Npos (XI (XI (XO (XI (XO (XO (XI (XO
    XH)))))))))) :: (((Npos (XI (XI (XI (XO (XI (XI (XI (XI (XO (XO (XI (XI
    (XO (XI (XO XH)))))))))))))))), (Npos (XI (XO (XO (XO (XI (XO (XI (XO
    XH)))))))))) :: (((Npos (XI (XO (XO (XI (XI (XI (XO (XI (XO (XI (XI (XI
    (XO (XI (XO XH)))))))))))))))), (Npos (XI (XO (XO (XO (XI (XO (XI (XO
    XH)))))))))) :: (((Npos (XI (XI (XI (XI (XI (XI (XI (XO (XO (XO (XO (XO
    (XI (XI (XO XH)))))))))))))))), (Npos (XI (XO (XO (XO (XI (XO (XI (XO
    XH)))))))))) :: (((Npos (XO (XI (XI (XO (XO (XO (XI (XO (XO (XI (XO (XO
    (XI (XI (XO XH)))))))))))))))), (Npos (XI (XO (XO (XO (XI (XO (XI (XO
    XH)))))))))) :: (((Npos (XO (XO (XO (XI (XI (XO (XO (XO (XO (XO (XI (XO
    (XI (XI (XO XH)))))))))))))))), (Npos (XI (XI (XO (XI (XI (XO (XI (XO
    XH)))))))))) :: (((Npos (XO (XI (XI (XI (XO (XI (XI (XI (XI (XO (XI (XO
    (XI (XI (XO XH)))))))))))))))), (Npos (XI (XI (XO (XI (XI (XO (XI (XO
    XH)))))))))) :: (((Npos (XI (XI (XI (XO (XO (XO (XI (XI (XI (XI (XI (XO
    (XI (XI (XO XH)))))))))))))))), (Npos (XI (XI (XO (XI (XI (XO (XI (XO
    XH)))))))))) :: (((Npos (XI (XI (XO (XO (XO (XI (XO (XI (XI (XO (XO (XI
    (XI (XI (XO XH)))))))))))))))), (Npos (XI (XI (XO (XI (XI (XO (XI (XO
    XH)))))))))) :: (((Npos (XI (XI (XI (XO (XO (XO (XO (XI (XI (XI (XO (XI
    (XI (XI (XO XH)))))))))))))))), (Npos (XI (XI (XO (XI (XI (XO (XI (XO
    XH)))))))))) :: (((Npos (XI (XO (XO (XI (XO (XI (XI (XO (XI (XO (XI (XI
    (XI (XI (XO XH)))))))))))))))), (Npos (XI (XO (XI (XI (XI (XO (XI (XO
    XH)))))))))) :: (((Npos (XO (XO (XO (XO (XI (XO (XI (XO (XI (XI (XI (XI
    (XI (XI (XO XH)))))))))))))))), (Npos (XI (XO (XI (XI (XI (XO (XI (XO
    XH)))))))))) :: (((Npos (XO (XI (XI (XI (XI (XI (XO (XO (XI (XO (XO (XO
    (XO (XO (XI XH)))))))))))))))), (Npos (XI (XO (XO (XO (XO (XI (XI (XO
    XH)))))))))) :: (((Npos (XO (XI (XO (XI (XI (XI (XO (XO (XI (XI (XO (XO
    (XO (XO (XI XH)))))))))))))))), (Npos (XI (XO (XO (XO (XO (XI (XI (XO
    XH)))))))))) :: (((Npos (XI (XI (XI (XI (XO (XO (XI (XO (XI (XO (XI (XO
    (XO (XO (XI XH)))))))))))))))), (Npos (XI (XI (XI (XO (XO (XI (XI (XO
    XH)))))))))) :: (((Npos (XI (XO (XO (XI (XO (XO (XI (XO (XI (XI (XI (XO
    (XO (XO (XI XH)))))))))))))))), (Npos (XI (XI (XI (XO (XO (XI (XI (XO
    XH)))))))))) :: (((Npos (XO (XI (XO (XI (XO (XO (XI (XO (XI (XO (XO (XI
    (XO (XO (XI XH)))))))))))))))), (Npos (XI (XI (XI (XO (XO (XI (XI (XO
    XH)))))))))) :: (((Npos (XO (XI (XI (XI (XI (XO (XI (XO (XI (XI (XO (XI
    (XO (XO (XI XH)))))))))))))))), (Npos (XI (XI (XI (XI (XO (XI (XI (XO
    XH)))))))))) :: (((Npos (XO (XI (XO (XI (XO (XI (XI (XO (XI (XO (XI (XI
    (XO (XO (XI XH)))))))))))))))), (Npos (XI (XI (XI (XI (XO (XI (XI (XO
    XH)))))))))) :: (((Npos (XO (XI (XO (XI (XI (XI (XI (XO (XI (XI (XI (XI
    (XO (XO (XI XH)))))))))))))))), (Npos (XI (XI (XI (XI (XO (XI (XI (XO
    XH)))))))))) :: (((Npos (XO (XI (XO (XO (XI (XO (XO (XI (XI (XO (XO (XO
    (XI (XO (XI XH)))))))))))))))), (Npos (XI (XI (XI (XI (XO (XI (XI (XO
    XH)))))))))) :: (((Npos (XO (XO (XI (XI (XO (XI (XO (XI (XI (XI (XO (XO
    (XI (XO (XI XH)))))))))))))))), (Npos (XI (XO (XI (XO (XI (XI (XI (XO
    XH)))))))))) :: (((Npos (XI (XI (XI (XI (XO (XO (XI (XI (XI (XO (XI (XO
    (XI (XO (XI XH)))))))))))))))), (Npos (XI (XO (XI (XO (XI (XI (XI (XO
    XH)))))))))) :: (((Npos (XI (XO (XO (XI (XI (XI (XI (XI (XI (XI (XI (XO
    (XI (XO (XI XH)))))))))))))))), (Npos (XI (XO (XI (XO (XI (XI (XI (XO
    XH)))))))))) :: (((Npos (XI (XI (XO (XO (XO (XI (XO (XO (XO (XI (XO (XI
    (XI (XO (XI XH)))))))))))))))), (Npos (XI (XO (XI (XO (XI (XI (XI (XO
    XH)))))))))) :: (((Npos (XI (XI (XO (XO (XI (XO (XI (XO (XO (XO (XI (XI
    (XI (XO (XI XH)))))))))))))))), (Npos (XI (XI (XO (XI (XI (XI (XI (XO
    XH)))))))))) :: []))))))))))))))))))))))))))))))))))))))))))))))))))))))))))))))))))))))))))))))))))))))))))))))))))))))))))))))))))))))))))))))))))))))))))))))))))))))))))))))))))))))))))))))))))))))))))))))))))))))))))))))))))))))))))))))))))))))))))))))))))))))))))))))))))))))))))))))))))))))))))))))))))))))))))))))))))))))))))))))))))))))))))))))))))))))))))))))))))))))))))))))))))))))))))))))))))))))))))))))))))))))))))))))))))))))))))))))))))))))))))))))))))))))))))))))))))))))))))))

(** val kprimes : n list **)

let kprimes =
  map (fun r ->
    let (p, _) = r in
    let (p0, _) = p in let (p1, _) = p0 in let (k, _) = p1 in k) tABLE2

(** val pick_le : n -> n -> n option -> n option **)

let pick_le b k r =
  if N.leb k b
  then (match r with
        | Some a -> Some (N.max k a)
        | None -> Some k)
  else r

(** val greatest_le : n -> n list -> n option **)

let rec greatest_le b = function
| [] -> None
| k :: t0 -> pick_le b k (greatest_le b t0)

(** val al_of : n -> n **)

let al_of mtu =
  if N.leb (Npos (XO (XO (XO (XO (XO (XO XH))))))) mtu
  then Npos (XO (XO (XO XH)))
  else Npos XH

(** val sS_of : n -> n **)

let sS_of mtu =
  if N.leb (Npos (XO (XO (XO (XO (XO (XO XH))))))) mtu
  then Npos (XO (XO (XO XH)))
  else Npos XH

(** val t_of : n -> n **)

let t_of mtu =
  N.mul (N.div mtu (al_of mtu)) (al_of mtu)

(** val kt_of : n -> n -> n **)

let kt_of f mtu =
  ceil_div f (t_of mtu)

(** val nmax_of : n -> n **)

let nmax_of mtu =
  N.div (t_of mtu) (N.mul (sS_of mtu) (al_of mtu))

(** val kL_bound : n -> n -> n -> n **)

let kL_bound mtu wS n0 =
  N.div wS (N.mul (al_of mtu) (ceil_div (t_of mtu) (N.mul (al_of mtu) n0)))

(** val kL : n -> n -> n -> n option **)

let kL mtu wS n0 =
  greatest_le (kL_bound mtu wS n0) kprimes

(** val z_of : n -> n -> n -> n **)

let z_of f mtu wS =
  match kL mtu wS (nmax_of mtu) with
  | Some k -> ceil_div (kt_of f mtu) k
  | None -> N0

(** val fits : n -> n -> n -> n -> bool **)

let fits f mtu wS n0 =
  match kL mtu wS n0 with
  | Some k -> N.leb (ceil_div (kt_of f mtu) (z_of f mtu wS)) k
  | None -> false

(** val n_opt : n -> n -> n -> n option **)

let n_opt f mtu wS =
  find (fits f mtu wS) (map N.of_nat (seq (S O) (N.to_nat (nmax_of mtu))))

(** val n_of : n -> n -> n -> n **)

let n_of f mtu wS =
  match n_opt f mtu wS with
  | Some n0 -> n0
  | None -> N0

(** val db : n -> n -> n -> bool **)

let db f mtu wS =
  (&&)
    ((&&)
      ((&&)
        ((&&) ((&&) (N.leb (Npos XH) f) (N.leb (al_of mtu) mtu))
          (N.leb f
            (N.mul
              (N.mul (Npos (XI (XI (XO (XO (XI (XO (XI (XO (XO (XO (XI (XI
                (XI (XO (XI XH)))))))))))))))) (Npos (XI (XI (XI (XI (XI (XI
                (XI XH))))))))) (t_of mtu))))
        (match kL mtu wS (nmax_of mtu) with
         | Some _ -> true
         | None -> false))
      (N.leb (z_of f mtu wS) (Npos (XI (XI (XI (XI (XI (XI (XI XH))))))))))
    (N.ltb (kt_of f mtu)
      (N.pow (Npos (XO XH)) (Npos (XO (XO (XO (XO (XO XH))))))))

(** val int_div_ceil : mode -> n -> n -> n outcome **)

let int_div_ceil m num denom =
  if N.eqb denom N0
  then Panic PDivZero
  else if N.eqb (N.modulo num denom) N0
       then Ok (u32 (N.div num denom))
       else obind
              (add_w m (Npos (XO (XO (XO (XO (XO (XO XH)))))))
                (N.div num denom) (Npos XH)) (fun s -> Ok (u32 s))

(** val kl_scan :
    bool -> mode -> n -> n -> n -> n -> ((((n * n) * n) * n) * n) list -> n
    outcome **)

let rec kl_scan fixed m symbol_size alignment n0 wS = function
| [] -> if fixed then Ok N0 else Panic PUnreachable
| p :: rest ->
  let (p0, _) = p in
  let (p1, _) = p0 in
  let (p2, _) = p1 in
  let (kprime, _) = p2 in
  obind (mul_w m (Npos (XO (XO (XO (XO (XO (XO XH))))))) alignment n0)
    (fun d ->
    obind (int_div_ceil m symbol_size d) (fun x ->
      obind (mul_w m (Npos (XO (XO (XO (XO (XO (XO XH))))))) alignment x)
        (fun d2 ->
        obind (div_ok wS d2) (fun q ->
          if if fixed then N.leb kprime q else N.leb kprime (u32 q)
          then Ok kprime
          else kl_scan fixed m symbol_size alignment n0 wS rest))))

(** val kl : bool -> mode -> n -> n -> n -> n -> n outcome **)

let kl fixed m symbol_size alignment n0 wS =
  kl_scan fixed m symbol_size alignment n0 wS (rev tABLE2)

(** val nsearch :
    bool -> mode -> n -> n -> n -> n -> n -> nat -> n -> n -> n outcome **)

let rec nsearch fixed m symbol_size alignment wS kt0 nsb cnt i n0 =
  match cnt with
  | O -> Ok n0
  | S c ->
    obind (int_div_ceil m kt0 nsb) (fun lhs ->
      obind (kl fixed m symbol_size alignment i wS) (fun k ->
        if N.leb lhs k
        then Ok i
        else nsearch fixed m symbol_size alignment wS kt0 nsb c
               (N.add i (Npos XH)) i))

(** val gen_params_body :
    bool -> mode -> n -> n -> n -> n -> n -> ((((n * n) * n) * n) * n) outcome **)

let gen_params_body fixed m f mtu wS alignment sub_symbol_size =
  obind (assert_ok (N.leb alignment mtu)) (fun _ ->
    obind (rem_ok mtu alignment) (fun r ->
      obind (sub_w m (Npos (XO (XO (XO (XO XH))))) mtu r) (fun symbol_size ->
        obind (int_div_ceil m f symbol_size) (fun kt0 ->
          obind
            (mul_w m (Npos (XO (XO (XO (XO XH))))) sub_symbol_size alignment)
            (fun sa ->
            obind (div_ok symbol_size sa) (fun n_max ->
              obind (kl fixed m symbol_size alignment n_max wS) (fun klmax ->
                obind (int_div_ceil m kt0 klmax) (fun nsb ->
                  obind
                    (nsearch fixed m symbol_size alignment wS kt0 nsb
                      (N.to_nat n_max) (Npos XH) (Npos XH)) (fun n0 -> Ok
                    ((((f, symbol_size), (u8 nsb)), (u16 n0)),
                    (u8 alignment)))))))))))

(** val gen_params :
    bool -> mode -> n -> n -> n -> ((((n * n) * n) * n) * n) outcome **)

let gen_params fixed m f mtu wS =
  if N.leb (N.mul (Npos (XO (XO (XO XH)))) (Npos (XO (XO (XO XH))))) mtu
  then let alignment = Npos (XO (XO (XO XH))) in
       let sub_symbol_size = Npos (XO (XO (XO XH))) in
       gen_params_body fixed m f mtu wS alignment sub_symbol_size
  else let alignment = Npos XH in
       let sub_symbol_size = Npos XH in
       gen_params_body fixed m f mtu wS alignment sub_symbol_size

(** val with_defaults :
    bool -> mode -> n -> n -> ((((n * n) * n) * n) * n) outcome **)

let with_defaults fixed m f mtu =
  gen_params fixed m f mtu dEFAULT_MEMORY

(** val oCT_EXP : n list **)

let oCT_EXP =
  (Npos XH) :: ((Npos (XO XH)) :: ((Npos (XO (XO XH))) :: ((Npos (XO (XO (XO
    XH)))) :: ((Npos (XO (XO (XO (XO XH))))) :: ((Npos (XO (XO (XO (XO (XO
    XH)))))) :: ((Npos (XO (XO (XO (XO (XO (XO XH))))))) :: ((Npos (XO (XO
    (XO (XO (XO (XO (XO XH)))))))) :: ((Npos (XI (XO (XI (XI
    XH))))) :: ((Npos (XO (XI (XO (XI (XI XH)))))) :: ((Npos (XO (XO (XI (XO
    (XI (XI XH))))))) :: ((Npos (XO (XO (XO (XI (XO (XI (XI
    XH)))))))) :: ((Npos (XI (XO (XI (XI (XO (XO (XI XH)))))))) :: ((Npos (XI
    (XI (XI (XO (XO (XO (XO XH)))))))) :: ((Npos (XI (XI (XO (XO
    XH))))) :: ((Npos (XO (XI (XI (XO (XO XH)))))) :: ((Npos (XO (XO (XI (XI
    (XO (XO XH))))))) :: ((Npos (XO (XO (XO (XI (XI (XO (XO
    XH)))))))) :: ((Npos (XI (XO (XI (XI (XO XH)))))) :: ((Npos (XO (XI (XO
    (XI (XI (XO XH))))))) :: ((Npos (XO (XO (XI (XO (XI (XI (XO
    XH)))))))) :: ((Npos (XI (XO (XI (XO (XI (XI XH))))))) :: ((Npos (XO (XI
    (XO (XI (XO (XI (XI XH)))))))) :: ((Npos (XI (XO (XO (XI (XO (XO (XI
    XH)))))))) :: ((Npos (XI (XI (XI (XI (XO (XO (XO XH)))))))) :: ((Npos (XI
    XH)) :: ((Npos (XO (XI XH))) :: ((Npos (XO (XO (XI XH)))) :: ((Npos (XO
    (XO (XO (XI XH))))) :: ((Npos (XO (XO (XO (XO (XI XH)))))) :: ((Npos (XO
    (XO (XO (XO (XO (XI XH))))))) :: ((Npos (XO (XO (XO (XO (XO (XO (XI
    XH)))))))) :: ((Npos (XI (XO (XI (XI (XI (XO (XO XH)))))))) :: ((Npos (XI
    (XI (XI (XO (XO XH)))))) :: ((Npos (XO (XI (XI (XI (XO (XO
    XH))))))) :: ((Npos (XO (XO (XI (XI (XI (XO (XO XH)))))))) :: ((Npos (XI
    (XO (XI (XO (XO XH)))))) :: ((Npos (XO (XI (XO (XI (XO (XO
    XH))))))) :: ((Npos (XO (XO (XI (XO (XI (XO (XO XH)))))))) :: ((Npos (XI
    (XO (XI (XO (XI XH)))))) :: ((Npos (XO (XI (XO (XI (XO (XI
    XH))))))) :: ((Npos (XO (XO (XI (XO (XI (XO (XI XH)))))))) :: ((Npos (XI
    (XO (XI (XO (XI (XI (XO XH)))))))) :: ((Npos (XI (XI (XI (XO (XI (XI
    XH))))))) :: ((Npos (XO (XI (XI (XI (XO (XI (XI XH)))))))) :: ((Npos (XI
    (XO (XO (XO (XO (XO (XI XH)))))))) :: ((Npos (XI (XI (XI (XI (XI (XO (XO
    XH)))))))) :: ((Npos (XI (XI (XO (XO (XO XH)))))) :: ((Npos (XO (XI (XI
    (XO (XO (XO XH))))))) :: ((Npos (XO (XO (XI (XI (XO (XO (XO
    XH)))))))) :: ((Npos (XI (XO XH))) :: ((Npos (XO (XI (XO XH)))) :: ((Npos
    (XO (XO (XI (XO XH))))) :: ((Npos (XO (XO (XO (XI (XO XH)))))) :: ((Npos
    (XO (XO (XO (XO (XI (XO XH))))))) :: ((Npos (XO (XO (XO (XO (XO (XI (XO
    XH)))))))) :: ((Npos (XI (XO (XI (XI (XI (XO XH))))))) :: ((Npos (XO (XI
    (XO (XI (XI (XI (XO XH)))))))) :: ((Npos (XI (XO (XO (XI (XO (XI
    XH))))))) :: ((Npos (XO (XI (XO (XO (XI (XO (XI XH)))))))) :: ((Npos (XI
    (XO (XO (XI (XI (XI (XO XH)))))))) :: ((Npos (XI (XI (XI (XI (XO (XI
    XH))))))) :: ((Npos (XO (XI (XI (XI (XI (XO (XI XH)))))))) :: ((Npos (XI
    (XO (XO (XO (XO (XI (XO XH)))))))) :: ((Npos (XI (XI (XI (XI (XI (XO
    XH))))))) :: ((Npos (XO (XI (XI (XI (XI (XI (XO XH)))))))) :: ((Npos (XI
    (XO (XO (XO (XO (XI XH))))))) :: ((Npos (XO (XI (XO (XO (XO (XO (XI
    XH)))))))) :: ((Npos (XI (XO (XO (XI (XI (XO (XO XH)))))))) :: ((Npos (XI
    (XI (XI (XI (XO XH)))))) :: ((Npos (XO (XI (XI (XI (XI (XO
    XH))))))) :: ((Npos (XO (XO (XI (XI (XI (XI (XO XH)))))))) :: ((Npos (XI
    (XO (XI (XO (XO (XI XH))))))) :: ((Npos (XO (XI (XO (XI (XO (XO (XI
    XH)))))))) :: ((Npos (XI (XO (XO (XI (XO (XO (XO XH)))))))) :: ((Npos (XI
    (XI (XI XH)))) :: ((Npos (XO (XI (XI (XI XH))))) :: ((Npos (XO (XO (XI
    (XI (XI XH)))))) :: ((Npos (XO (XO (XO (XI (XI (XI XH))))))) :: ((Npos
    (XO (XO (XO (XO (XI (XI (XI XH)))))))) :: ((Npos (XI (XO (XI (XI (XI (XI
    (XI XH)))))))) :: ((Npos (XI (XI (XI (XO (XO (XI (XI XH)))))))) :: ((Npos
    (XI (XI (XO (XO (XI (XO (XI XH)))))))) :: ((Npos (XI (XI (XO (XI (XI (XI
    (XO XH)))))))) :: ((Npos (XI (XI (XO (XI (XO (XI XH))))))) :: ((Npos (XO
    (XI (XI (XO (XI (XO (XI XH)))))))) :: ((Npos (XI (XO (XO (XO (XI (XI (XO
    XH)))))))) :: ((Npos (XI (XI (XI (XI (XI (XI XH))))))) :: ((Npos (XO (XI
    (XI (XI (XI (XI (XI XH)))))))) :: ((Npos (XI (XO (XO (XO (XO (XI (XI
    XH)))))))) :: ((Npos (XI (XI (XI (XI (XI (XO (XI XH)))))))) :: ((Npos (XI
    (XI (XO (XO (XO (XI (XO XH)))))))) :: ((Npos (XI (XI (XO (XI (XI (XO
    XH))))))) :: ((Npos (XO (XI (XI (XO (XI (XI (XO XH)))))))) :: ((Npos (XI
    (XO (XO (XO (XI (XI XH))))))) :: ((Npos (XO (XI (XO (XO (XO (XI (XI
    XH)))))))) :: ((Npos (XI (XO (XO (XI (XI (XO (XI XH)))))))) :: ((Npos (XI
    (XI (XI (XI (XO (XI (XO XH)))))))) :: ((Npos (XI (XI (XO (XO (XO (XO
    XH))))))) :: ((Npos (XO (XI (XI (XO (XO (XO (XO XH)))))))) :: ((Npos (XI
    (XO (XO (XO XH))))) :: ((Npos (XO (XI (XO (XO (XO XH)))))) :: ((Npos (XO
    (XO (XI (XO (XO (XO XH))))))) :: ((Npos (XO (XO (XO (XI (XO (XO (XO
    XH)))))))) :: ((Npos (XI (XO (XI XH)))) :: ((Npos (XO (XI (XO (XI
    XH))))) :: ((Npos (XO (XO (XI (XO (XI XH)))))) :: ((Npos (XO (XO (XO (XI
    (XO (XI XH))))))) :: ((Npos (XO (XO (XO (XO (XI (XO (XI
    XH)))))))) :: ((Npos (XI (XO (XI (XI (XI (XI (XO XH)))))))) :: ((Npos (XI
    (XI (XI (XO (XO (XI XH))))))) :: ((Npos (XO (XI (XI (XI (XO (XO (XI
    XH)))))))) :: ((Npos (XI (XO (XO (XO (XO (XO (XO XH)))))))) :: ((Npos (XI
    (XI (XI (XI XH))))) :: ((Npos (XO (XI (XI (XI (XI XH)))))) :: ((Npos (XO
    (XO (XI (XI (XI (XI XH))))))) :: ((Npos (XO (XO (XO (XI (XI (XI (XI
    XH)))))))) :: ((Npos (XI (XO (XI (XI (XO (XI (XI XH)))))))) :: ((Npos (XI
    (XI (XI (XO (XO (XO (XI XH)))))))) :: ((Npos (XI (XI (XO (XO (XI (XO (XO
    XH)))))))) :: ((Npos (XI (XI (XO (XI (XI XH)))))) :: ((Npos (XO (XI (XI
    (XO (XI (XI XH))))))) :: ((Npos (XO (XO (XI (XI (XO (XI (XI
    XH)))))))) :: ((Npos (XI (XO (XI (XO (XO (XO (XI XH)))))))) :: ((Npos (XI
    (XI (XI (XO (XI (XO (XO XH)))))))) :: ((Npos (XI (XI (XO (XO (XI
    XH)))))) :: ((Npos (XO (XI (XI (XO (XO (XI XH))))))) :: ((Npos (XO (XO
    (XI (XI (XO (XO (XI XH)))))))) :: ((Npos (XI (XO (XI (XO (XO (XO (XO
    XH)))))))) :: ((Npos (XI (XI (XI (XO XH))))) :: ((Npos (XO (XI (XI (XI
    (XO XH)))))) :: ((Npos (XO (XO (XI (XI (XI (XO XH))))))) :: ((Npos (XO
    (XO (XO (XI (XI (XI (XO XH)))))))) :: ((Npos (XI (XO (XI (XI (XO (XI
    XH))))))) :: ((Npos (XO (XI (XO (XI (XI (XO (XI XH)))))))) :: ((Npos (XI
    (XO (XO (XI (XO (XI (XO XH)))))))) :: ((Npos (XI (XI (XI (XI (XO (XO
    XH))))))) :: ((Npos (XO (XI (XI (XI (XI (XO (XO XH)))))))) :: ((Npos (XI
    (XO (XO (XO (XO XH)))))) :: ((Npos (XO (XI (XO (XO (XO (XO
    XH))))))) :: ((Npos (XO (XO (XI (XO (XO (XO (XO XH)))))))) :: ((Npos (XI
    (XO (XI (XO XH))))) :: ((Npos (XO (XI (XO (XI (XO XH)))))) :: ((Npos (XO
    (XO (XI (XO (XI (XO XH))))))) :: ((Npos (XO (XO (XO (XI (XO (XI (XO
    XH)))))))) :: ((Npos (XI (XO (XI (XI (XO (XO XH))))))) :: ((Npos (XO (XI
    (XO (XI (XI (XO (XO XH)))))))) :: ((Npos (XI (XO (XO (XI (XO
    XH)))))) :: ((Npos (XO (XI (XO (XO (XI (XO XH))))))) :: ((Npos (XO (XO
    (XI (XO (XO (XI (XO XH)))))))) :: ((Npos (XI (XO (XI (XO (XI (XO
    XH))))))) :: ((Npos (XO (XI (XO (XI (XO (XI (XO XH)))))))) :: ((Npos (XI
    (XO (XO (XI (XO (XO XH))))))) :: ((Npos (XO (XI (XO (XO (XI (XO (XO
    XH)))))))) :: ((Npos (XI (XO (XO (XI (XI XH)))))) :: ((Npos (XO (XI (XO
    (XO (XI (XI XH))))))) :: ((Npos (XO (XO (XI (XO (XO (XI (XI
    XH)))))))) :: ((Npos (XI (XO (XI (XO (XI (XO (XI XH)))))))) :: ((Npos (XI
    (XI (XI (XO (XI (XI (XO XH)))))))) :: ((Npos (XI (XI (XO (XO (XI (XI
    XH))))))) :: ((Npos (XO (XI (XI (XO (XO (XI (XI XH)))))))) :: ((Npos (XI
    (XO (XO (XO (XI (XO (XI XH)))))))) :: ((Npos (XI (XI (XI (XI (XI (XI (XO
    XH)))))))) :: ((Npos (XI (XI (XO (XO (XO (XI XH))))))) :: ((Npos (XO (XI
    (XI (XO (XO (XO (XI XH)))))))) :: ((Npos (XI (XO (XO (XO (XI (XO (XO
    XH)))))))) :: ((Npos (XI (XI (XI (XI (XI XH)))))) :: ((Npos (XO (XI (XI
    (XI (XI (XI XH))))))) :: ((Npos (XO (XO (XI (XI (XI (XI (XI
    XH)))))))) :: ((Npos (XI (XO (XI (XO (XO (XI (XI XH)))))))) :: ((Npos (XI
    (XI (XI (XO (XI (XO (XI XH)))))))) :: ((Npos (XI (XI (XO (XO (XI (XI (XO
    XH)))))))) :: ((Npos (XI (XI (XO (XI (XI (XI XH))))))) :: ((Npos (XO (XI
    (XI (XO (XI (XI (XI XH)))))))) :: ((Npos (XI (XO (XO (XO (XI (XI (XI
    XH)))))))) :: ((Npos (XI (XI (XI (XI (XI (XI (XI XH)))))))) :: ((Npos (XI
    (XI (XO (XO (XO (XI (XI XH)))))))) :: ((Npos (XI (XI (XO (XI (XI (XO (XI
    XH)))))))) :: ((Npos (XI (XI (XO (XI (XO (XI (XO XH)))))))) :: ((Npos (XI
    (XI (XO (XI (XO (XO XH))))))) :: ((Npos (XO (XI (XI (XO (XI (XO (XO
    XH)))))))) :: ((Npos (XI (XO (XO (XO (XI XH)))))) :: ((Npos (XO (XI (XO
    (XO (XO (XI XH))))))) :: ((Npos (XO (XO (XI (XO (XO (XO (XI
    XH)))))))) :: ((Npos (XI (XO (XI (XO (XI (XO (XO XH)))))))) :: ((Npos (XI
    (XI (XI (XO (XI XH)))))) :: ((Npos (XO (XI (XI (XI (XO (XI
    XH))))))) :: ((Npos (XO (XO (XI (XI (XI (XO (XI XH)))))))) :: ((Npos (XI
    (XO (XI (XO (XO (XI (XO XH)))))))) :: ((Npos (XI (XI (XI (XO (XI (XO
    XH))))))) :: ((Npos (XO (XI (XI (XI (XO (XI (XO XH)))))))) :: ((Npos (XI
    (XO (XO (XO (XO (XO XH))))))) :: ((Npos (XO (XI (XO (XO (XO (XO (XO
    XH)))))))) :: ((Npos (XI (XO (XO (XI XH))))) :: ((Npos (XO (XI (XO (XO
    (XI XH)))))) :: ((Npos (XO (XO (XI (XO (XO (XI XH))))))) :: ((Npos (XO
    (XO (XO (XI (XO (XO (XI XH)))))))) :: ((Npos (XI (XO (XI (XI (XO (XO (XO
    XH)))))))) :: ((Npos (XI (XI XH))) :: ((Npos (XO (XI (XI XH)))) :: ((Npos
    (XO (XO (XI (XI XH))))) :: ((Npos (XO (XO (XO (XI (XI XH)))))) :: ((Npos
    (XO (XO (XO (XO (XI (XI XH))))))) :: ((Npos (XO (XO (XO (XO (XO (XI (XI
    XH)))))))) :: ((Npos (XI (XO (XI (XI (XI (XO (XI XH)))))))) :: ((Npos (XI
    (XI (XI (XO (XO (XI (XO XH)))))))) :: ((Npos (XI (XI (XO (XO (XI (XO
    XH))))))) :: ((Npos (XO (XI (XI (XO (XO (XI (XO XH)))))))) :: ((Npos (XI
    (XO (XO (XO (XI (XO XH))))))) :: ((Npos (XO (XI (XO (XO (XO (XI (XO
    XH)))))))) :: ((Npos (XI (XO (XO (XI (XI (XO XH))))))) :: ((Npos (XO (XI
    (XO (XO (XI (XI (XO XH)))))))) :: ((Npos (XI (XO (XO (XI (XI (XI
    XH))))))) :: ((Npos (XO (XI (XO (XO (XI (XI (XI XH)))))))) :: ((Npos (XI
    (XO (XO (XI (XI (XI (XI XH)))))))) :: ((Npos (XI (XI (XI (XI (XO (XI (XI
    XH)))))))) :: ((Npos (XI (XI (XO (XO (XO (XO (XI XH)))))))) :: ((Npos (XI
    (XI (XO (XI (XI (XO (XO XH)))))))) :: ((Npos (XI (XI (XO (XI (XO
    XH)))))) :: ((Npos (XO (XI (XI (XO (XI (XO XH))))))) :: ((Npos (XO (XO
    (XI (XI (XO (XI (XO XH)))))))) :: ((Npos (XI (XO (XI (XO (XO (XO
    XH))))))) :: ((Npos (XO (XI (XO (XI (XO (XO (XO XH)))))))) :: ((Npos (XI
    (XO (XO XH)))) :: ((Npos (XO (XI (XO (XO XH))))) :: ((Npos (XO (XO (XI
    (XO (XO XH)))))) :: ((Npos (XO (XO (XO (XI (XO (XO XH))))))) :: ((Npos
    (XO (XO (XO (XO (XI (XO (XO XH)))))))) :: ((Npos (XI (XO (XI (XI (XI
    XH)))))) :: ((Npos (XO (XI (XO (XI (XI (XI XH))))))) :: ((Npos (XO (XO
    (XI (XO (XI (XI (XI XH)))))))) :: ((Npos (XI (XO (XI (XO (XI (XI (XI
    XH)))))))) :: ((Npos (XI (XI (XI (XO (XI (XI (XI XH)))))))) :: ((Npos (XI
    (XI (XO (XO (XI (XI (XI XH)))))))) :: ((Npos (XI (XI (XO (XI (XI (XI (XI
    XH)))))))) :: ((Npos (XI (XI (XO (XI (XO (XI (XI XH)))))))) :: ((Npos (XI
    (XI (XO (XI (XO (XO (XI XH)))))))) :: ((Npos (XI (XI (XO (XI (XO (XO (XO
    XH)))))))) :: ((Npos (XI (XI (XO XH)))) :: ((Npos (XO (XI (XI (XO
    XH))))) :: ((Npos (XO (XO (XI (XI (XO XH)))))) :: ((Npos (XO (XO (XO (XI
    (XI (XO XH))))))) :: ((Npos (XO (XO (XO (XO (XI (XI (XO
    XH)))))))) :: ((Npos (XI (XO (XI (XI (XI (XI XH))))))) :: ((Npos (XO (XI
    (XO (XI (XI (XI (XI XH)))))))) :: ((Npos (XI (XO (XO (XI (XO (XI (XI
    XH)))))))) :: ((Npos (XI (XI (XI (XI (XO (XO (XI XH)))))))) :: ((Npos (XI
    (XI (XO (XO (XO (XO (XO XH)))))))) :: ((Npos (XI (XI (XO (XI
    XH))))) :: ((Npos (XO (XI (XI (XO (XI XH)))))) :: ((Npos (XO (XO (XI (XI
    (XO (XI XH))))))) :: ((Npos (XO (XO (XO (XI (XI (XO (XI
    XH)))))))) :: ((Npos (XI (XO (XI (XI (XO (XI (XO XH)))))))) :: ((Npos (XI
    (XI (XI (XO (XO (XO XH))))))) :: ((Npos (XO (XI (XI (XI (XO (XO (XO
    XH)))))))) :: ((Npos XH) :: ((Npos (XO XH)) :: ((Npos (XO (XO
    XH))) :: ((Npos (XO (XO (XO XH)))) :: ((Npos (XO (XO (XO (XO
    XH))))) :: ((Npos (XO (XO (XO (XO (XO XH)))))) :: ((Npos (XO (XO (XO (XO
    (XO (XO XH))))))) :: ((Npos (XO (XO (XO (XO (XO (XO (XO
    XH)))))))) :: ((Npos (XI (XO (XI (XI XH))))) :: ((Npos (XO (XI (XO (XI
    (XI XH)))))) :: ((Npos (XO (XO (XI (XO (XI (XI XH))))))) :: ((Npos (XO
    (XO (XO (XI (XO (XI (XI XH)))))))) :: ((Npos (XI (XO (XI (XI (XO (XO (XI
    XH)))))))) :: ((Npos (XI (XI (XI (XO (XO (XO (XO XH)))))))) :: ((Npos (XI
    (XI (XO (XO XH))))) :: ((Npos (XO (XI (XI (XO (XO XH)))))) :: ((Npos (XO
    (XO (XI (XI (XO (XO XH))))))) :: ((Npos (XO (XO (XO (XI (XI (XO (XO
    XH)))))))) :: ((Npos (XI (XO (XI (XI (XO XH)))))) :: ((Npos (XO (XI (XO
    (XI (XI (XO XH))))))) :: ((Npos (XO (XO (XI (XO (XI (XI (XO
    XH)))))))) :: ((Npos (XI (XO (XI (XO (XI (XI XH))))))) :: ((Npos (XO (XI
    (XO (XI (XO (XI (XI XH)))))))) :: ((Npos (XI (XO (XO (XI (XO (XO (XI
    XH)))))))) :: ((Npos (XI (XI (XI (XI (XO (XO (XO XH)))))))) :: ((Npos (XI
    XH)) :: ((Npos (XO (XI XH))) :: ((Npos (XO (XO (XI XH)))) :: ((Npos (XO
    (XO (XO (XI XH))))) :: ((Npos (XO (XO (XO (XO (XI XH)))))) :: ((Npos (XO
    (XO (XO (XO (XO (XI XH))))))) :: ((Npos (XO (XO (XO (XO (XO (XO (XI
    XH)))))))) :: ((Npos (XI (XO (XI (XI (XI (XO (XO XH)))))))) :: ((Npos (XI
    (XI (XI (XO (XO XH)))))) :: ((Npos (XO (XI (XI (XI (XO (XO
    XH))))))) :: ((Npos (XO (XO (XI (XI (XI (XO (XO XH)))))))) :: ((Npos (XI
    (XO (XI (XO (XO XH)))))) :: ((Npos (XO (XI (XO (XI (XO (XO
    XH))))))) :: ((Npos (XO (XO (XI (XO (XI (XO (XO XH)))))))) :: ((Npos (XI
    (XO (XI (XO (XI XH)))))) :: ((Npos (XO (XI (XO (XI (XO (XI
    XH))))))) :: ((Npos (XO (XO (XI (XO (XI (XO (XI XH)))))))) :: ((Npos (XI
    (XO (XI (XO (XI (XI (XO XH)))))))) :: ((Npos (XI (XI (XI (XO (XI (XI
    XH))))))) :: ((Npos (XO (XI (XI (XI (XO (XI (XI XH)))))))) :: ((Npos (XI
    (XO (XO (XO (XO (XO (XI XH)))))))) :: ((Npos (XI (XI (XI (XI (XI (XO (XO
    XH)))))))) :: ((Npos (XI (XI (XO (XO (XO XH)))))) :: ((Npos (XO (XI (XI
    (XO (XO (XO XH))))))) :: ((Npos (XO (XO (XI (XI (XO (XO (XO
    XH)))))))) :: ((Npos (XI (XO XH))) :: ((Npos (XO (XI (XO XH)))) :: ((Npos
    (XO (XO (XI (XO XH))))) :: ((Npos (XO (XO (XO (XI (XO XH)))))) :: ((Npos
    (XO (XO (XO (XO (XI (XO XH))))))) :: ((Npos (XO (XO (XO (XO (XO (XI (XO
    XH)))))))) :: ((Npos (XI (XO (XI (XI (XI (XO XH))))))) :: ((Npos (XO (XI
    (XO (XI (XI (XI (XO XH)))))))) :: ((Npos (XI (XO (XO (XI (XO (XI
    XH))))))) :: ((Npos (XO (XI (XO (XO (XI (XO (XI XH)))))))) :: ((Npos (XI
    (XO (XO (XI (XI (XI (XO XH)))))))) :: ((Npos (XI (XI (XI (XI (XO (XI
    XH))))))) :: ((Npos (XO (XI (XI (XI (XI (XO (XI XH)))))))) :: ((Npos (XI
    (XO (XO (XO (XO (XI (XO XH)))))))) :: ((Npos (XI (XI (XI (XI (XI (XO
    XH))))))) :: ((Npos (XO (XI (XI (XI (XI (XI (XO XH)))))))) :: ((Npos (XI
    (XO (XO (XO (XO (XI XH))))))) :: ((Npos (XO (XI (XO (XO (XO (XO (XI
    XH)))))))) :: ((Npos (XI (XO (XO (XI (XI (XO (XO XH)))))))) :: ((Npos (XI
    (XI (XI (XI (XO XH)))))) :: ((Npos (XO (XI (XI (XI (XI (XO
    XH))))))) :: ((Npos (XO (XO (XI (XI (XI (XI (XO XH)))))))) :: ((Npos (XI
    (XO (XI (XO (XO (XI XH))))))) :: ((Npos (XO (XI (XO (XI (XO (XO (XI
    XH)))))))) :: ((Npos (XI (XO (XO (XI (XO (XO (XO XH)))))))) :: ((Npos (XI
    (XI (XI XH)))) :: ((Npos (XO (XI (XI (XI XH))))) :: ((Npos (XO (XO (XI
    (XI (XI XH)))))) :: ((Npos (XO (XO (XO (XI (XI (XI XH))))))) :: ((Npos
    (XO (XO (XO (XO (XI (XI (XI XH)))))))) :: ((Npos (XI (XO (XI (XI (XI (XI
    (XI XH)))))))) :: ((Npos (XI (XI (XI (XO (XO (XI (XI XH)))))))) :: ((Npos
    (XI (XI (XO (XO (XI (XO (XI XH)))))))) :: ((Npos (XI (XI (XO (XI (XI (XI
    (XO XH)))))))) :: ((Npos (XI (XI (XO (XI (XO (XI XH))))))) :: ((Npos (XO
    (XI (XI (XO (XI (XO (XI XH)))))))) :: ((Npos (XI (XO (XO (XO (XI (XI (XO
    XH)))))))) :: ((Npos (XI (XI (XI (XI (XI (XI XH))))))) :: ((Npos (XO (XI
    (XI (XI (XI (XI (XI XH)))))))) :: ((Npos (XI (XO (XO (XO (XO (XI (XI
    XH)))))))) :: ((Npos (XI (XI (XI (XI (XI (XO (XI XH)))))))) :: ((Npos (XI
    (XI (XO (XO (XO (XI (XO XH)))))))) :: ((Npos (XI (XI (XO (XI (XI (XO
    XH))))))) :: ((Npos (XO (XI (XI (XO (XI (XI (XO XH)))))))) :: ((Npos (XI
    (XO (XO (XO (XI (XI XH))))))) :: ((Npos (XO (XI (XO (XO (XO (XI (XI
    XH)))))))) :: ((Npos (XI (XO (XO (XI (XI (XO (XI XH)))))))) :: ((Npos (XI
    (XI (XI (XI (XO (XI (XO XH)))))))) :: ((Npos (XI (XI (XO (XO (XO (XO
    XH))))))) :: ((Npos (XO (XI (XI (XO (XO (XO (XO XH)))))))) :: ((Npos (XI
    (XO (XO (XO XH))))) :: ((Npos (XO (XI (XO (XO (XO XH)))))) :: ((Npos (XO
    (XO (XI (XO (XO (XO XH))))))) :: ((Npos (XO (XO (XO (XI (XO (XO (XO
    XH)))))))) :: ((Npos (XI (XO (XI XH)))) :: ((Npos (XO (XI (XO (XI
    XH))))) :: ((Npos (XO (XO (XI (XO (XI XH)))))) :: ((Npos (XO (XO (XO (XI
    (XO (XI XH))))))) :: ((Npos (XO (XO (XO (XO (XI (XO (XI
    XH)))))))) :: ((Npos (XI (XO (XI (XI (XI (XI (XO XH)))))))) :: ((Npos (XI
    (XI (XI (XO (XO (XI XH))))))) :: ((Npos (XO (XI (XI (XI (XO (XO (XI
    XH)))))))) :: ((Npos (XI (XO (XO (XO (XO (XO (XO XH)))))))) :: ((Npos (XI
    (XI (XI (XI XH))))) :: ((Npos (XO (XI (XI (XI (XI XH)))))) :: ((Npos (XO
    (XO (XI (XI (XI (XI XH))))))) :: ((Npos (XO (XO (XO (XI (XI (XI (XI
    XH)))))))) :: ((Npos (XI (XO (XI (XI (XO (XI (XI XH)))))))) :: ((Npos (XI
    (XI (XI (XO (XO (XO (XI XH)))))))) :: ((Npos (XI (XI (XO (XO (XI (XO (XO
    XH)))))))) :: ((Npos (XI (XI (XO (XI (XI XH)))))) :: ((Npos (XO (XI (XI
    (XO (XI (XI XH))))))) :: ((Npos (XO (XO (XI (XI (XO (XI (XI
    XH)))))))) :: ((Npos (XI (XO (XI (XO (XO (XO (XI XH)))))))) :: ((Npos (XI
    (XI (XI (XO (XI (XO (XO XH)))))))) :: ((Npos (XI (XI (XO (XO (XI
    XH)))))) :: ((Npos (XO (XI (XI (XO (XO (XI XH))))))) :: ((Npos (XO (XO
    (XI (XI (XO (XO (XI XH)))))))) :: ((Npos (XI (XO (XI (XO (XO (XO (XO
    XH)))))))) :: ((Npos (XI (XI (XI (XO XH))))) :: ((Npos (XO (XI (XI (XI
    (XO XH)))))) :: ((Npos (XO (XO (XI (XI (XI (XO XH))))))) :: ((Npos (XO
    (XO (XO (XI (XI (XI (XO XH)))))))) :: ((Npos (XI (XO (XI (XI (XO (XI
    XH))))))) :: ((Npos (XO (XI (XO (XI (XI (XO (XI XH)))))))) :: ((Npos (XI
    (XO (XO (XI (XO (XI (XO XH)))))))) :: ((Npos (XI (XI (XI (XI (XO (XO
    XH))))))) :: ((Npos (XO (XI (XI (XI (XI (XO (XO XH)))))))) :: ((Npos (XI
    (XO (XO (XO (XO XH)))))) :: ((Npos (XO (XI (XO (XO (XO (XO
    XH))))))) :: ((Npos (XO (XO (XI (XO (XO (XO (XO XH)))))))) :: ((Npos (XI
    (XO (XI (XO XH))))) :: ((Npos (XO (XI (XO (XI (XO XH)))))) :: ((Npos (XO
    (XO (XI (XO (XI (XO XH))))))) :: ((Npos (XO (XO (XO (XI (XO (XI (XO
    XH)))))))) :: ((Npos (XI (XO (XI (XI (XO (XO XH))))))) :: ((Npos (XO (XI
    (XO (XI (XI (XO (XO XH)))))))) :: ((Npos (XI (XO (XO (XI (XO
    XH)))))) :: ((Npos (XO (XI (XO (XO (XI (XO XH))))))) :: ((Npos (XO (XO
    (XI (XO (XO (XI (XO XH)))))))) :: ((Npos (XI (XO (XI (XO (XI (XO
    XH))))))) :: ((Npos (XO (XI (XO (XI (XO (XI (XO XH)))))))) :: ((Npos (XI
    (XO (XO (XI (XO (XO XH))))))) :: ((Npos (XO (XI (XO (XO (XI (XO (XO
    XH)))))))) :: ((Npos (XI (XO (XO (XI (XI XH)))))) :: ((Npos (XO (XI (XO
    (XO (XI (XI XH))))))) :: ((Npos (XO (XO (XI (XO (XO (XI (XI
    XH)))))))) :: ((Npos (XI (XO (XI (XO (XI (XO (XI XH)))))))) :: ((Npos (XI
    (XI (XI (XO (XI (XI (XO XH)))))))) :: ((Npos (XI (XI (XO (XO (XI (XI
    XH))))))) :: ((Npos (XO (XI (XI (XO (XO (XI (XI XH)))))))) :: ((Npos (XI
    (XO (XO (XO (XI (XO (XI XH)))))))) :: ((Npos (XI (XI (XI (XI (XI (XI (XO
    XH)))))))) :: ((Npos (XI (XI (XO (XO (XO (XI XH))))))) :: ((Npos (XO (XI
    (XI (XO (XO (XO (XI XH)))))))) :: ((Npos (XI (XO (XO (XO (XI (XO (XO
    XH)))))))) :: ((Npos (XI (XI (XI (XI (XI XH)))))) :: ((Npos (XO (XI (XI
    (XI (XI (XI XH))))))) :: ((Npos (XO (XO (XI (XI (XI (XI (XI
    XH)))))))) :: ((Npos (XI (XO (XI (XO (XO (XI (XI XH)))))))) :: ((Npos (XI
    (XI (XI (XO (XI (XO (XI XH)))))))) :: ((Npos (XI (XI (XO (XO (XI (XI (XO
    XH)))))))) :: ((Npos (XI (XI (XO (XI (XI (XI XH))))))) :: ((Npos (XO (XI
    (XI (XO (XI (XI (XI XH)))))))) :: ((Npos (XI (XO (XO (XO (XI (XI (XI
    XH)))))))) :: ((Npos (XI (XI (XI (XI (XI (XI (XI XH)))))))) :: ((Npos (XI
    (XI (XO (XO (XO (XI (XI XH)))))))) :: ((Npos (XI (XI (XO (XI (XI (XO (XI
    XH)))))))) :: ((Npos (XI (XI (XO (XI (XO (XI (XO XH)))))))) :: ((Npos (XI
    (XI (XO (XI (XO (XO XH))))))) :: ((Npos (XO (XI (XI (XO (XI (XO (XO
    XH)))))))) :: ((Npos (XI (XO (XO (XO (XI XH)))))) :: ((Npos (XO (XI (XO
    (XO (XO (XI XH))))))) :: ((Npos (XO (XO (XI (XO (XO (XO (XI
    XH)))))))) :: ((Npos (XI (XO (XI (XO (XI (XO (XO XH)))))))) :: ((Npos (XI
    (XI (XI (XO (XI XH)))))) :: ((Npos (XO (XI (XI (XI (XO (XI
    XH))))))) :: ((Npos (XO (XO (XI (XI (XI (XO (XI XH)))))))) :: ((Npos (XI
    (XO (XI (XO (XO (XI (XO XH)))))))) :: ((Npos (XI (XI (XI (XO (XI (XO
    XH))))))) :: ((Npos (XO (XI (XI (XI (XO (XI (XO XH)))))))) :: ((Npos (XI
    (XO (XO (XO (XO (XO XH))))))) :: ((Npos (XO (XI (XO (XO (XO (XO (XO
    XH)))))))) :: ((Npos (XI (XO (XO (XI XH))))) :: ((Npos (XO (XI (XO (XO
    (XI XH)))))) :: ((Npos (XO (XO (XI (XO (XO (XI XH))))))) :: ((Npos (XO
    (XO (XO (XI (XO (XO (XI XH)))))))) :: ((Npos (XI (XO (XI (XI (XO (XO (XO
    XH)))))))) :: ((Npos (XI (XI XH))) :: ((Npos (XO (XI (XI XH)))) :: ((Npos
    (XO (XO (XI (XI XH))))) :: ((Npos (XO (XO (XO (XI (XI XH)))))) :: ((Npos
    (XO (XO (XO (XO (XI (XI XH))))))) :: ((Npos (XO (XO (XO (XO (XO (XI (XI
    XH)))))))) :: ((Npos (XI (XO (XI (XI (XI (XO (XI XH)))))))) :: ((Npos (XI
    (XI (XI (XO (XO (XI (XO XH)))))))) :: ((Npos (XI (XI (XO (XO (XI (XO
    XH))))))) :: ((Npos (XO (XI (XI (XO (XO (XI (XO XH)))))))) :: ((Npos (XI
    (XO (XO (XO (XI (XO XH))))))) :: ((Npos (XO (XI (XO (XO (XO (XI (XO
    XH)))))))) :: ((Npos (XI (XO (XO (XI (XI (XO XH))))))) :: ((Npos (XO (XI
    (XO (XO (XI (XI (XO XH)))))))) :: ((Npos (XI (XO (XO (XI (XI (XI
    XH))))))) :: ((Npos (XO (XI (XO (XO (XI (XI (XI XH)))))))) :: ((Npos (XI
    (XO (XO (XI (XI (XI (XI XH)))))))) :: ((Npos (XI (XI (XI (XI (XO (XI (XI
    XH)))))))) :: ((Npos (XI (XI (XO (XO (XO (XO (XI XH)))))))) :: ((Npos (XI
    (XI (XO (XI (XI (XO (XO XH)))))))) :: ((Npos (XI (XI (XO (XI (XO
    XH)))))) :: ((Npos (XO (XI (XI (XO (XI (XO XH))))))) :: ((Npos (XO (XO
    (XI (XI (XO (XI (XO XH)))))))) :: ((Npos (XI (XO (XI (XO (XO (XO
    XH))))))) :: ((Npos (XO (XI (XO (XI (XO (XO (XO XH)))))))) :: ((Npos (XI
    (XO (XO XH)))) :: ((Npos (XO (XI (XO (XO XH))))) :: ((Npos (XO (XO (XI
    (XO (XO XH)))))) :: ((Npos (XO (XO (XO (XI (XO (XO XH))))))) :: ((Npos
    (XO (XO (XO (XO (XI (XO (XO XH)))))))) :: ((Npos (XI (XO (XI (XI (XI
    XH)))))) :: ((Npos (XO (XI (XO (XI (XI (XI XH))))))) :: ((Npos (XO (XO
    (XI (XO (XI (XI (XI XH)))))))) :: ((Npos (XI (XO (XI (XO (XI (XI (XI
    XH)))))))) :: ((Npos (XI (XI (XI (XO (XI (XI (XI XH)))))))) :: ((Npos (XI
    (XI (XO (XO (XI (XI (XI XH)))))))) :: ((Npos (XI (XI (XO (XI (XI (XI (XI
    XH)))))))) :: ((Npos (XI (XI (XO (XI (XO (XI (XI XH)))))))) :: ((Npos (XI
    (XI (XO (XI (XO (XO (XI XH)))))))) :: ((Npos (XI (XI (XO (XI (XO (XO (XO
    XH)))))))) :: ((Npos (XI (XI (XO XH)))) :: ((Npos (XO (XI (XI (XO
    XH))))) :: ((Npos (XO (XO (XI (XI (XO XH)))))) :: ((Npos (XO (XO (XO (XI
    (XI (XO XH))))))) :: ((Npos (XO (XO (XO (XO (XI (XI (XO
    XH)))))))) :: ((Npos (XI (XO (XI (XI (XI (XI XH))))))) :: ((Npos (XO (XI
    (XO (XI (XI (XI (XI XH)))))))) :: ((Npos (XI (XO (XO (XI (XO (XI (XI
    XH)))))))) :: ((Npos (XI (XI (XI (XI (XO (XO (XI XH)))))))) :: ((Npos (XI
    (XI (XO (XO (XO (XO (XO XH)))))))) :: ((Npos (XI (XI (XO (XI
    XH))))) :: ((Npos (XO (XI (XI (XO (XI XH)))))) :: ((Npos (XO (XO (XI (XI
    (XO (XI XH))))))) :: ((Npos (XO (XO (XO (XI (XI (XO (XI
    XH)))))))) :: ((Npos (XI (XO (XI (XI (XO (XI (XO XH)))))))) :: ((Npos (XI
    (XI (XI (XO (XO (XO XH))))))) :: ((Npos (XO (XI (XI (XI (XO (XO (XO
    XH)))))))) :: [])))))))))))))))))))))))))))))))))))))))))))))))))))))))))))))))))))))))))))))))))))))))))))))))))))))))))))))))))))))))))))))))))))))))))))))))))))))))))))))))))))))))))))))))))))))))))))))))))))))))))))))))))))))))))))))))))))))))))))))))))))))))))))))))))))))))))))))))))))))))))))))))))))))))))))))))))))))))))))))))))))))))))))))))))))))))))))))))))))))))))))))))))))))))))))))))))))))))))))))))))))))))))))))))))))))))))))))))))))))))))))))))))))))))))))))))))))))))))))))))))))))))))))))))))))))))))))))

(** val oCT_LOG : n list **)

let oCT_LOG =
  N0 :: (N0 :: ((Npos XH) :: ((Npos (XI (XO (XO (XI XH))))) :: ((Npos (XO
    XH)) :: ((Npos (XO (XI (XO (XO (XI XH)))))) :: ((Npos (XO (XI (XO (XI
    XH))))) :: ((Npos (XO (XI (XI (XO (XO (XO (XI XH)))))))) :: ((Npos (XI
    XH)) :: ((Npos (XI (XI (XI (XI (XI (XO (XI XH)))))))) :: ((Npos (XI (XI
    (XO (XO (XI XH)))))) :: ((Npos (XO (XI (XI (XI (XO (XI (XI
    XH)))))))) :: ((Npos (XI (XI (XO (XI XH))))) :: ((Npos (XO (XO (XO (XI
    (XO (XI XH))))))) :: ((Npos (XI (XI (XI (XO (XO (XO (XI
    XH)))))))) :: ((Npos (XI (XI (XO (XI (XO (XO XH))))))) :: ((Npos (XO (XO
    XH))) :: ((Npos (XO (XO (XI (XO (XO (XI XH))))))) :: ((Npos (XO (XO (XO
    (XO (XO (XI (XI XH)))))))) :: ((Npos (XO (XI (XI XH)))) :: ((Npos (XO (XO
    (XI (XO (XI XH)))))) :: ((Npos (XI (XO (XI (XI (XO (XO (XO
    XH)))))))) :: ((Npos (XI (XI (XI (XI (XO (XI (XI XH)))))))) :: ((Npos (XI
    (XO (XO (XO (XO (XO (XO XH)))))))) :: ((Npos (XO (XO (XI (XI
    XH))))) :: ((Npos (XI (XO (XO (XO (XO (XO (XI XH)))))))) :: ((Npos (XI
    (XO (XO (XI (XO (XI XH))))))) :: ((Npos (XO (XO (XO (XI (XI (XI (XI
    XH)))))))) :: ((Npos (XO (XO (XO (XI (XO (XO (XI XH)))))))) :: ((Npos (XO
    (XO (XO XH)))) :: ((Npos (XO (XO (XI (XI (XO (XO XH))))))) :: ((Npos (XI
    (XO (XO (XO (XI (XI XH))))))) :: ((Npos (XI (XO XH))) :: ((Npos (XO (XI
    (XO (XI (XO (XO (XO XH)))))))) :: ((Npos (XI (XO (XI (XO (XO (XI
    XH))))))) :: ((Npos (XI (XI (XI (XI (XO XH)))))) :: ((Npos (XI (XO (XO
    (XO (XO (XI (XI XH)))))))) :: ((Npos (XO (XO (XI (XO (XO
    XH)))))) :: ((Npos (XI (XI (XI XH)))) :: ((Npos (XI (XO (XO (XO (XO
    XH)))))) :: ((Npos (XI (XO (XI (XO (XI XH)))))) :: ((Npos (XI (XI (XO (XO
    (XI (XO (XO XH)))))))) :: ((Npos (XO (XI (XI (XI (XO (XO (XO
    XH)))))))) :: ((Npos (XO (XI (XO (XI (XI (XO (XI XH)))))))) :: ((Npos (XO
    (XO (XO (XO (XI (XI (XI XH)))))))) :: ((Npos (XO (XI (XO (XO
    XH))))) :: ((Npos (XO (XI (XO (XO (XO (XO (XO XH)))))))) :: ((Npos (XI
    (XO (XI (XO (XO (XO XH))))))) :: ((Npos (XI (XO (XI (XI XH))))) :: ((Npos
    (XI (XO (XI (XO (XI (XI (XO XH)))))))) :: ((Npos (XO (XI (XO (XO (XO (XO
    (XI XH)))))))) :: ((Npos (XI (XO (XI (XI (XI (XI XH))))))) :: ((Npos (XO
    (XI (XO (XI (XO (XI XH))))))) :: ((Npos (XI (XI (XI (XO (XO
    XH)))))) :: ((Npos (XI (XO (XO (XI (XI (XI (XI XH)))))))) :: ((Npos (XI
    (XO (XO (XI (XI (XI (XO XH)))))))) :: ((Npos (XI (XO (XO (XI (XO (XO (XI
    XH)))))))) :: ((Npos (XO (XI (XO (XI (XI (XO (XO XH)))))))) :: ((Npos (XI
    (XO (XO XH)))) :: ((Npos (XO (XO (XO (XI (XI (XI XH))))))) :: ((Npos (XI
    (XO (XI (XI (XO (XO XH))))))) :: ((Npos (XO (XO (XI (XO (XO (XI (XI
    XH)))))))) :: ((Npos (XO (XI (XO (XO (XI (XI XH))))))) :: ((Npos (XO (XI
    (XI (XO (XO (XI (XO XH)))))))) :: ((Npos (XO (XI XH))) :: ((Npos (XI (XI
    (XI (XI (XI (XI (XO XH)))))))) :: ((Npos (XI (XI (XO (XI (XO (XO (XO
    XH)))))))) :: ((Npos (XO (XI (XO (XO (XO (XI XH))))))) :: ((Npos (XO (XI
    (XI (XO (XO (XI XH))))))) :: ((Npos (XI (XO (XI (XI (XI (XO (XI
    XH)))))))) :: ((Npos (XO (XO (XO (XO (XI XH)))))) :: ((Npos (XI (XO (XI
    (XI (XI (XI (XI XH)))))))) :: ((Npos (XO (XI (XO (XO (XO (XI (XI
    XH)))))))) :: ((Npos (XO (XO (XO (XI (XI (XO (XO XH)))))))) :: ((Npos (XI
    (XO (XI (XO (XO XH)))))) :: ((Npos (XI (XI (XO (XO (XI (XI (XO
    XH)))))))) :: ((Npos (XO (XO (XO (XO XH))))) :: ((Npos (XI (XO (XO (XO
    (XI (XO (XO XH)))))))) :: ((Npos (XO (XI (XO (XO (XO XH)))))) :: ((Npos
    (XO (XO (XO (XI (XO (XO (XO XH)))))))) :: ((Npos (XO (XI (XI (XO (XI
    XH)))))) :: ((Npos (XO (XO (XO (XO (XI (XO (XI XH)))))))) :: ((Npos (XO
    (XO (XI (XO (XI (XO (XO XH)))))))) :: ((Npos (XO (XI (XI (XI (XO (XO (XI
    XH)))))))) :: ((Npos (XI (XI (XI (XI (XO (XO (XO XH)))))))) :: ((Npos (XO
    (XI (XI (XO (XI (XO (XO XH)))))))) :: ((Npos (XI (XI (XO (XI (XI (XO (XI
    XH)))))))) :: ((Npos (XI (XO (XI (XI (XI (XI (XO XH)))))))) :: ((Npos (XI
    (XO (XO (XO (XI (XI (XI XH)))))))) :: ((Npos (XO (XI (XO (XO (XI (XO (XI
    XH)))))))) :: ((Npos (XI (XI (XO (XO XH))))) :: ((Npos (XO (XO (XI (XI
    (XI (XO XH))))))) :: ((Npos (XI (XI (XO (XO (XO (XO (XO
    XH)))))))) :: ((Npos (XO (XO (XO (XI (XI XH)))))) :: ((Npos (XO (XI (XI
    (XO (XO (XO XH))))))) :: ((Npos (XO (XO (XO (XO (XO (XO
    XH))))))) :: ((Npos (XO (XI (XI (XI XH))))) :: ((Npos (XO (XI (XO (XO (XO
    (XO XH))))))) :: ((Npos (XO (XI (XI (XO (XI (XI (XO XH)))))))) :: ((Npos
    (XI (XI (XO (XO (XO (XI (XO XH)))))))) :: ((Npos (XI (XI (XO (XO (XO (XO
    (XI XH)))))))) :: ((Npos (XO (XO (XO (XI (XO (XO XH))))))) :: ((Npos (XO
    (XI (XI (XI (XI (XI XH))))))) :: ((Npos (XO (XI (XI (XI (XO (XI
    XH))))))) :: ((Npos (XI (XI (XO (XI (XO (XI XH))))))) :: ((Npos (XO (XI
    (XO (XI (XI XH)))))) :: ((Npos (XO (XO (XO (XI (XO XH)))))) :: ((Npos (XO
    (XO (XI (XO (XI (XO XH))))))) :: ((Npos (XO (XI (XO (XI (XI (XI (XI
    XH)))))))) :: ((Npos (XI (XO (XI (XO (XO (XO (XO XH)))))))) :: ((Npos (XO
    (XI (XO (XI (XI (XI (XO XH)))))))) :: ((Npos (XI (XO (XI (XI (XI
    XH)))))) :: ((Npos (XO (XI (XO (XI (XO (XO (XI XH)))))))) :: ((Npos (XO
    (XI (XI (XI (XI (XO XH))))))) :: ((Npos (XI (XI (XO (XI (XI (XO (XO
    XH)))))))) :: ((Npos (XI (XI (XI (XI (XI (XO (XO XH)))))))) :: ((Npos (XO
    (XI (XO XH)))) :: ((Npos (XI (XO (XI (XO XH))))) :: ((Npos (XI (XO (XO
    (XI (XI (XI XH))))))) :: ((Npos (XI (XI (XO (XI (XO XH)))))) :: ((Npos
    (XO (XI (XI (XI (XO (XO XH))))))) :: ((Npos (XO (XO (XI (XO (XI (XO (XI
    XH)))))))) :: ((Npos (XI (XO (XI (XO (XO (XI (XI XH)))))))) :: ((Npos (XO
    (XO (XI (XI (XO (XI (XO XH)))))))) :: ((Npos (XI (XI (XO (XO (XI (XI
    XH))))))) :: ((Npos (XI (XI (XO (XO (XI (XI (XI XH)))))))) :: ((Npos (XI
    (XI (XI (XO (XO (XI (XO XH)))))))) :: ((Npos (XI (XI (XI (XO (XI (XO
    XH))))))) :: ((Npos (XI (XI XH))) :: ((Npos (XO (XO (XO (XO (XI (XI
    XH))))))) :: ((Npos (XO (XO (XO (XO (XO (XO (XI XH)))))))) :: ((Npos (XI
    (XI (XI (XO (XI (XI (XI XH)))))))) :: ((Npos (XO (XO (XI (XI (XO (XO (XO
    XH)))))))) :: ((Npos (XO (XO (XO (XO (XO (XO (XO XH)))))))) :: ((Npos (XI
    (XI (XO (XO (XO (XI XH))))))) :: ((Npos (XI (XO (XI XH)))) :: ((Npos (XI
    (XI (XI (XO (XO (XI XH))))))) :: ((Npos (XO (XI (XO (XI (XO (XO
    XH))))))) :: ((Npos (XO (XI (XI (XI (XI (XO (XI XH)))))))) :: ((Npos (XI
    (XO (XI (XI (XO (XI (XI XH)))))))) :: ((Npos (XI (XO (XO (XO (XI
    XH)))))) :: ((Npos (XI (XO (XI (XO (XO (XO (XI XH)))))))) :: ((Npos (XO
    (XI (XI (XI (XI (XI (XI XH)))))))) :: ((Npos (XO (XO (XO (XI
    XH))))) :: ((Npos (XI (XI (XO (XO (XO (XI (XI XH)))))))) :: ((Npos (XI
    (XO (XI (XO (XO (XI (XO XH)))))))) :: ((Npos (XI (XO (XO (XI (XI (XO (XO
    XH)))))))) :: ((Npos (XI (XI (XI (XO (XI (XI XH))))))) :: ((Npos (XO (XI
    (XI (XO (XO XH)))))) :: ((Npos (XO (XO (XO (XI (XI (XI (XO
    XH)))))))) :: ((Npos (XO (XO (XI (XO (XI (XI (XO XH)))))))) :: ((Npos (XO
    (XO (XI (XI (XI (XI XH))))))) :: ((Npos (XI (XO (XO (XO XH))))) :: ((Npos
    (XO (XO (XI (XO (XO (XO XH))))))) :: ((Npos (XO (XI (XO (XO (XI (XO (XO
    XH)))))))) :: ((Npos (XI (XO (XO (XI (XI (XO (XI XH)))))))) :: ((Npos (XI
    (XI (XO (XO (XO XH)))))) :: ((Npos (XO (XO (XO (XO (XO XH)))))) :: ((Npos
    (XI (XO (XO (XI (XO (XO (XO XH)))))))) :: ((Npos (XO (XI (XI (XI (XO
    XH)))))) :: ((Npos (XI (XI (XI (XO (XI XH)))))) :: ((Npos (XI (XI (XI (XI
    (XI XH)))))) :: ((Npos (XI (XO (XO (XO (XI (XO (XI XH)))))))) :: ((Npos
    (XI (XI (XO (XI (XI (XO XH))))))) :: ((Npos (XI (XO (XI (XO (XI (XO (XO
    XH)))))))) :: ((Npos (XO (XO (XI (XI (XI (XI (XO XH)))))))) :: ((Npos (XI
    (XI (XI (XI (XO (XO (XI XH)))))))) :: ((Npos (XI (XO (XI (XI (XO (XO (XI
    XH)))))))) :: ((Npos (XO (XO (XO (XO (XI (XO (XO XH)))))))) :: ((Npos (XI
    (XI (XI (XO (XO (XO (XO XH)))))))) :: ((Npos (XI (XI (XI (XO (XI (XO (XO
    XH)))))))) :: ((Npos (XO (XI (XO (XO (XI (XI (XO XH)))))))) :: ((Npos (XO
    (XO (XI (XI (XI (XO (XI XH)))))))) :: ((Npos (XO (XO (XI (XI (XI (XI (XI
    XH)))))))) :: ((Npos (XO (XI (XI (XI (XI (XI (XO XH)))))))) :: ((Npos (XI
    (XO (XO (XO (XO (XI XH))))))) :: ((Npos (XO (XI (XO (XO (XI (XI (XI
    XH)))))))) :: ((Npos (XO (XI (XI (XO (XI (XO XH))))))) :: ((Npos (XI (XI
    (XO (XO (XI (XO (XI XH)))))))) :: ((Npos (XI (XI (XO (XI (XO (XI (XO
    XH)))))))) :: ((Npos (XO (XO (XI (XO XH))))) :: ((Npos (XO (XI (XO (XI
    (XO XH)))))) :: ((Npos (XI (XO (XI (XI (XI (XO XH))))))) :: ((Npos (XO
    (XI (XI (XI (XI (XO (XO XH)))))))) :: ((Npos (XO (XO (XI (XO (XO (XO (XO
    XH)))))))) :: ((Npos (XO (XO (XI (XI (XI XH)))))) :: ((Npos (XI (XO (XO
    (XI (XI XH)))))) :: ((Npos (XI (XI (XO (XO (XI (XO XH))))))) :: ((Npos
    (XI (XI (XI (XO (XO (XO XH))))))) :: ((Npos (XI (XO (XI (XI (XO (XI
    XH))))))) :: ((Npos (XI (XO (XO (XO (XO (XO XH))))))) :: ((Npos (XO (XI
    (XO (XO (XO (XI (XO XH)))))))) :: ((Npos (XI (XI (XI (XI
    XH))))) :: ((Npos (XI (XO (XI (XI (XO XH)))))) :: ((Npos (XI (XI (XO (XO
    (XO (XO XH))))))) :: ((Npos (XO (XO (XO (XI (XI (XO (XI
    XH)))))))) :: ((Npos (XI (XI (XI (XO (XI (XI (XO XH)))))))) :: ((Npos (XI
    (XI (XO (XI (XI (XI XH))))))) :: ((Npos (XO (XO (XI (XO (XO (XI (XO
    XH)))))))) :: ((Npos (XO (XI (XI (XO (XI (XI XH))))))) :: ((Npos (XO (XO
    (XI (XO (XO (XO (XI XH)))))))) :: ((Npos (XI (XI (XI (XO
    XH))))) :: ((Npos (XI (XO (XO (XI (XO (XO XH))))))) :: ((Npos (XO (XO (XI
    (XI (XO (XI (XI XH)))))))) :: ((Npos (XI (XI (XI (XI (XI (XI
    XH))))))) :: ((Npos (XO (XO (XI XH)))) :: ((Npos (XI (XI (XI (XI (XO (XI
    XH))))))) :: ((Npos (XO (XI (XI (XO (XI (XI (XI XH)))))))) :: ((Npos (XO
    (XO (XI (XI (XO (XI XH))))))) :: ((Npos (XI (XO (XO (XO (XO (XI (XO
    XH)))))))) :: ((Npos (XI (XI (XO (XI (XI XH)))))) :: ((Npos (XO (XI (XO
    (XO (XI (XO XH))))))) :: ((Npos (XI (XO (XO (XI (XO XH)))))) :: ((Npos
    (XI (XO (XI (XI (XI (XO (XO XH)))))))) :: ((Npos (XI (XO (XI (XO (XI (XO
    XH))))))) :: ((Npos (XO (XI (XO (XI (XO (XI (XO XH)))))))) :: ((Npos (XI
    (XI (XO (XI (XI (XI (XI XH)))))))) :: ((Npos (XO (XO (XO (XO (XO (XI
    XH))))))) :: ((Npos (XO (XI (XI (XO (XO (XO (XO XH)))))))) :: ((Npos (XI
    (XO (XO (XO (XI (XI (XO XH)))))))) :: ((Npos (XI (XI (XO (XI (XI (XI (XO
    XH)))))))) :: ((Npos (XO (XO (XI (XI (XO (XO (XI XH)))))))) :: ((Npos (XO
    (XI (XI (XI (XI XH)))))) :: ((Npos (XO (XI (XO (XI (XI (XO
    XH))))))) :: ((Npos (XI (XI (XO (XI (XO (XO (XI XH)))))))) :: ((Npos (XI
    (XO (XO (XI (XI (XO XH))))))) :: ((Npos (XI (XI (XI (XI (XI (XO
    XH))))))) :: ((Npos (XO (XO (XO (XO (XI (XI (XO XH)))))))) :: ((Npos (XO
    (XO (XI (XI (XI (XO (XO XH)))))))) :: ((Npos (XI (XO (XO (XI (XO (XI (XO
    XH)))))))) :: ((Npos (XO (XO (XO (XO (XO (XI (XO XH)))))))) :: ((Npos (XI
    (XO (XO (XO (XI (XO XH))))))) :: ((Npos (XI (XI (XO XH)))) :: ((Npos (XI
    (XO (XI (XO (XI (XI (XI XH)))))))) :: ((Npos (XO (XI (XI (XO
    XH))))) :: ((Npos (XI (XI (XO (XI (XO (XI (XI XH)))))))) :: ((Npos (XO
    (XI (XO (XI (XI (XI XH))))))) :: ((Npos (XI (XO (XI (XO (XI (XI
    XH))))))) :: ((Npos (XO (XO (XI (XI (XO XH)))))) :: ((Npos (XI (XI (XI
    (XO (XI (XO (XI XH)))))))) :: ((Npos (XI (XI (XI (XI (XO (XO
    XH))))))) :: ((Npos (XO (XI (XI (XI (XO (XI (XO XH)))))))) :: ((Npos (XI
    (XO (XI (XO (XI (XO (XI XH)))))))) :: ((Npos (XI (XO (XO (XI (XO (XI (XI
    XH)))))))) :: ((Npos (XO (XI (XI (XO (XO (XI (XI XH)))))))) :: ((Npos (XI
    (XI (XI (XO (XO (XI (XI XH)))))))) :: ((Npos (XI (XO (XI (XI (XO (XI (XO
    XH)))))))) :: ((Npos (XO (XO (XO (XI (XO (XI (XI XH)))))))) :: ((Npos (XO
    (XO (XI (XO (XI (XI XH))))))) :: ((Npos (XO (XI (XI (XO (XI (XO (XI
    XH)))))))) :: ((Npos (XO (XO (XI (XO (XI (XI (XI XH)))))))) :: ((Npos (XO
    (XI (XO (XI (XO (XI (XI XH)))))))) :: ((Npos (XO (XO (XO (XI (XO (XI (XO
    XH)))))))) :: ((Npos (XO (XO (XO (XO (XI (XO XH))))))) :: ((Npos (XO (XO
    (XO (XI (XI (XO XH))))))) :: ((Npos (XI (XI (XI (XI (XO (XI (XO
    XH)))))))) :: [])))))))))))))))))))))))))))))))))))))))))))))))))))))))))))))))))))))))))))))))))))))))))))))))))))))))))))))))))))))))))))))))))))))))))))))))))))))))))))))))))))))))))))))))))))))))))))))))))))))))))))))))))))))))))))))))))))))))))))))))))))))))))))))))

(** val exp_at : n -> n outcome **)

let exp_at i =
  nth_ok oCT_EXP (N.to_nat i)

(** val log_at : n -> n outcome **)

let log_at a =
  nth_ok oCT_LOG (N.to_nat a)

(** val expN : n -> n **)

let expN i =
  nth (N.to_nat i) oCT_EXP N0

(** val logN : n -> n **)

let logN a =
  nth (N.to_nat a) oCT_LOG N0

(** val mulN : n -> n -> n **)

let mulN a b =
  if (||) (N.eqb a N0) (N.eqb b N0)
  then N0
  else expN (N.add (logN a) (logN b))

(** val divN : n -> n -> n **)

let divN a b =
  if N.eqb a N0
  then N0
  else expN
         (N.sub (N.add (Npos (XI (XI (XI (XI (XI (XI (XI XH)))))))) (logN a))
           (logN b))

(** val oct_add : n -> n -> n **)

let oct_add =
  N.coq_lxor

(** val oct_mul : n -> n -> n outcome **)

let oct_mul a b =
  if (||) (N.eqb a N0) (N.eqb b N0)
  then Ok N0
  else obind (log_at a) (fun la ->
         obind (log_at b) (fun lb -> exp_at (N.add la lb)))

(** val oct_div : n -> n -> n outcome **)

let oct_div a b =
  if N.eqb b N0
  then Panic PAssert
  else if N.eqb a N0
       then Ok N0
       else obind (log_at a) (fun la ->
              obind (log_at b) (fun lb ->
                if N.ltb
                     (N.add (Npos (XI (XI (XI (XI (XI (XI (XI XH)))))))) la)
                     lb
                then Panic POverflow
                else exp_at
                       (N.sub
                         (N.add (Npos (XI (XI (XI (XI (XI (XI (XI XH))))))))
                           la) lb)))

(** val oct_fma : n -> n -> n -> n outcome **)

let oct_fma acc a b =
  if (&&) (negb (N.eqb a N0)) (negb (N.eqb b N0))
  then obind (log_at a) (fun la ->
         obind (log_at b) (fun lb ->
           obind (exp_at (N.add la lb)) (fun e -> Ok (N.coq_lxor acc e))))
  else Ok acc

(** val oct_alpha : n -> n outcome **)

let oct_alpha i =
  if N.ltb i (Npos (XO (XO (XO (XO (XO (XO (XO (XO XH)))))))))
  then exp_at i
  else Panic PAssert

(** val const_mul : n -> n -> n outcome **)

let const_mul x y =
  obind (log_at x) (fun lx ->
    obind (log_at y) (fun ly -> exp_at (N.add lx ly)))

(** val or0 : n outcome -> n **)

let or0 = function
| Ok v -> v
| Panic _ -> N0

(** val octet_mul_table : n list list **)

let octet_mul_table =
  map (fun i ->
    map (fun j ->
      if (||) (N.eqb i N0) (N.eqb j N0) then N0 else or0 (const_mul i j))
      (rangeN (S (S (S (S (S (S (S (S (S (S (S (S (S (S (S (S (S (S (S (S (S
        (S (S (S (S (S (S (S (S (S (S (S (S (S (S (S (S (S (S (S (S (S (S (S
        (S (S (S (S (S (S (S (S (S (S (S (S (S (S (S (S (S (S (S (S (S (S (S
        (S (S (S (S (S (S (S (S (S (S (S (S (S (S (S (S (S (S (S (S (S (S (S
        (S (S (S (S (S (S (S (S (S (S (S (S (S (S (S (S (S (S (S (S (S (S (S
        (S (S (S (S (S (S (S (S (S (S (S (S (S (S (S (S (S (S (S (S (S (S (S
        (S (S (S (S (S (S (S (S (S (S (S (S (S (S (S (S (S (S (S (S (S (S (S
        (S (S (S (S (S (S (S (S (S (S (S (S (S (S (S (S (S (S (S (S (S (S (S
        (S (S (S (S (S (S (S (S (S (S (S (S (S (S (S (S (S (S (S (S (S (S (S
        (S (S (S (S (S (S (S (S (S (S (S (S (S (S (S (S (S (S (S (S (S (S (S
        (S (S (S (S (S (S (S (S (S (S (S (S (S (S (S (S (S (S (S (S (S (S (S
        (S (S (S (S (S
        O))))))))))))))))))))))))))))))))))))))))))))))))))))))))))))))))))))))))))))))))))))))))))))))))))))))))))))))))))))))))))))))))))))))))))))))))))))))))))))))))))))))))))))))))))))))))))))))))))))))))))))))))))))))))))))))))))))))))))))))))))))))))))))))))))
    (rangeN (S (S (S (S (S (S (S (S (S (S (S (S (S (S (S (S (S (S (S (S (S (S
      (S (S (S (S (S (S (S (S (S (S (S (S (S (S (S (S (S (S (S (S (S (S (S (S
      (S (S (S (S (S (S (S (S (S (S (S (S (S (S (S (S (S (S (S (S (S (S (S (S
      (S (S (S (S (S (S (S (S (S (S (S (S (S (S (S (S (S (S (S (S (S (S (S (S
      (S (S (S (S (S (S (S (S (S (S (S (S (S (S (S (S (S (S (S (S (S (S (S (S
      (S (S (S (S (S (S (S (S (S (S (S (S (S (S (S (S (S (S (S (S (S (S (S (S
      (S (S (S (S (S (S (S (S (S (S (S (S (S (S (S (S (S (S (S (S (S (S (S (S
      (S (S (S (S (S (S (S (S (S (S (S (S (S (S (S (S (S (S (S (S (S (S (S (S
      (S (S (S (S (S (S (S (S (S (S (S (S (S (S (S (S (S (S (S (S (S (S (S (S
      (S (S (S (S (S (S (S (S (S (S (S (S (S (S (S (S (S (S (S (S (S (S (S (S
      (S (S (S (S (S (S (S (S (S (S (S (S (S (S (S (S (S (S
      O)))))))))))))))))))))))))))))))))))))))))))))))))))))))))))))))))))))))))))))))))))))))))))))))))))))))))))))))))))))))))))))))))))))))))))))))))))))))))))))))))))))))))))))))))))))))))))))))))))))))))))))))))))))))))))))))))))))))))))))))))))))))))))))))))

(** val low_entry : n -> n -> n **)

let low_entry i j =
  let jj = N.modulo j (Npos (XO (XO (XO (XO XH))))) in
  if (||) (N.eqb i N0) (N.eqb jj N0) then N0 else or0 (const_mul i jj)

(** val octet_mul_low_table : n list list **)

let octet_mul_low_table =
  map (fun i ->
    map (fun j -> low_entry i j)
      (rangeN (S (S (S (S (S (S (S (S (S (S (S (S (S (S (S (S (S (S (S (S (S
        (S (S (S (S (S (S (S (S (S (S (S O))))))))))))))))))))))))))))))))))
    (rangeN (S (S (S (S (S (S (S (S (S (S (S (S (S (S (S (S (S (S (S (S (S (S
      (S (S (S (S (S (S (S (S (S (S (S (S (S (S (S (S (S (S (S (S (S (S (S (S
      (S (S (S (S (S (S (S (S (S (S (S (S (S (S (S (S (S (S (S (S (S (S (S (S
      (S (S (S (S (S (S (S (S (S (S (S (S (S (S (S (S (S (S (S (S (S (S (S (S
      (S (S (S (S (S (S (S (S (S (S (S (S (S (S (S (S (S (S (S (S (S (S (S (S
      (S (S (S (S (S (S (S (S (S (S (S (S (S (S (S (S (S (S (S (S (S (S (S (S
      (S (S (S (S (S (S (S (S (S (S (S (S (S (S (S (S (S (S (S (S (S (S (S (S
      (S (S (S (S (S (S (S (S (S (S (S (S (S (S (S (S (S (S (S (S (S (S (S (S
      (S (S (S (S (S (S (S (S (S (S (S (S (S (S (S (S (S (S (S (S (S (S (S (S
      (S (S (S (S (S (S (S (S (S (S (S (S (S (S (S (S (S (S (S (S (S (S (S (S
      (S (S (S (S (S (S (S (S (S (S (S (S (S (S (S (S (S (S
      O)))))))))))))))))))))))))))))))))))))))))))))))))))))))))))))))))))))))))))))))))))))))))))))))))))))))))))))))))))))))))))))))))))))))))))))))))))))))))))))))))))))))))))))))))))))))))))))))))))))))))))))))))))))))))))))))))))))))))))))))))))))))))))))))))

(** val hi_entry : n -> n -> n **)

let hi_entry i j =
  let jj = N.modulo j (Npos (XO (XO (XO (XO XH))))) in
  if (||) (N.eqb i N0) (N.eqb jj N0)
  then N0
  else or0 (const_mul i (N.shiftl jj (Npos (XO (XO XH)))))

(** val octet_mul_hi_table : n list list **)

let octet_mul_hi_table =
  map (fun i ->
    map (fun j -> hi_entry i j)
      (rangeN (S (S (S (S (S (S (S (S (S (S (S (S (S (S (S (S (S (S (S (S (S
        (S (S (S (S (S (S (S (S (S (S (S O))))))))))))))))))))))))))))))))))
    (rangeN (S (S (S (S (S (S (S (S (S (S (S (S (S (S (S (S (S (S (S (S (S (S
      (S (S (S (S (S (S (S (S (S (S (S (S (S (S (S (S (S (S (S (S (S (S (S (S
      (S (S (S (S (S (S (S (S (S (S (S (S (S (S (S (S (S (S (S (S (S (S (S (S
      (S (S (S (S (S (S (S (S (S (S (S (S (S (S (S (S (S (S (S (S (S (S (S (S
      (S (S (S (S (S (S (S (S (S (S (S (S (S (S (S (S (S (S (S (S (S (S (S (S
      (S (S (S (S (S (S (S (S (S (S (S (S (S (S (S (S (S (S (S (S (S (S (S (S
      (S (S (S (S (S (S (S (S (S (S (S (S (S (S (S (S (S (S (S (S (S (S (S (S
      (S (S (S (S (S (S (S (S (S (S (S (S (S (S (S (S (S (S (S (S (S (S (S (S
      (S (S (S (S (S (S (S (S (S (S (S (S (S (S (S (S (S (S (S (S (S (S (S (S
      (S (S (S (S (S (S (S (S (S (S (S (S (S (S (S (S (S (S (S (S (S (S (S (S
      (S (S (S (S (S (S (S (S (S (S (S (S (S (S (S (S (S (S
      O)))))))))))))))))))))))))))))))))))))))))))))))))))))))))))))))))))))))))))))))))))))))))))))))))))))))))))))))))))))))))))))))))))))))))))))))))))))))))))))))))))))))))))))))))))))))))))))))))))))))))))))))))))))))))))))))))))))))))))))))))))))))))))))))))

(** val tbl2 : n list list -> n -> n -> n outcome **)

let tbl2 t0 i j =
  obind (nth_ok t0 (N.to_nat i)) (fun r -> nth_ok r (N.to_nat j))

(** val pid_new : n -> n -> (n * n) outcome **)

let pid_new sbn esi =
  if N.ltb esi eSI_LIMIT then Ok (sbn, esi) else Panic PAssert

(** val pid_ser : (n * n) -> n list **)

let pid_ser = function
| (sbn, esi) ->
  sbn :: ((u8 (N.shiftr esi (Npos (XO (XO (XO (XO XH))))))) :: ((u8
                                                                  (N.coq_land
                                                                    (N.shiftr
                                                                    esi (Npos
                                                                    (XO (XO
                                                                    (XO
                                                                    XH)))))
                                                                    (Npos (XI
                                                                    (XI (XI
                                                                    (XI (XI
                                                                    (XI (XI
                                                                    XH)))))))))) :: (
    (u8 (N.coq_land esi (Npos (XI (XI (XI (XI (XI (XI (XI XH)))))))))) :: [])))

(** val pid_deser : n list -> (n * n) outcome **)

let pid_deser = function
| [] -> Panic PIndex
| d0 :: l ->
  (match l with
   | [] -> Panic PIndex
   | d1 :: l0 ->
     (match l0 with
      | [] -> Panic PIndex
      | d2 :: l1 ->
        (match l1 with
         | [] -> Panic PIndex
         | d3 :: l2 ->
           (match l2 with
            | [] ->
              Ok (d0,
                (N.add
                  (N.add (N.shiftl d1 (Npos (XO (XO (XO (XO XH))))))
                    (N.shiftl d2 (Npos (XO (XO (XO XH)))))) d3))
            | _ :: _ -> Panic PIndex))))

(** val slice_from : 'a1 list -> nat -> 'a1 list outcome **)

let slice_from l n0 =
  if leb n0 (length l) then Ok (skipn n0 l) else Panic PIndex

(** val pkt_ser : ((n * n) * n list) -> n list **)

let pkt_ser = function
| (id, data) -> app (pid_ser id) data

(** val pkt_deser : n list -> ((n * n) * n list) outcome **)

let pkt_deser b =
  obind (nth_ok b O) (fun d0 ->
    obind (nth_ok b (S O)) (fun d1 ->
      obind (nth_ok b (S (S O))) (fun d2 ->
        obind (nth_ok b (S (S (S O)))) (fun d3 ->
          obind (pid_deser (d0 :: (d1 :: (d2 :: (d3 :: []))))) (fun id ->
            obind (slice_from b (S (S (S (S O))))) (fun rest -> Ok (id, rest)))))))

type oti = (((n * n) * n) * n) * n

(** val oti_ser : oti -> n list **)

let oti_ser = function
| (p, al) ->
  let (p0, nsub) = p in
  let (p1, z) = p0 in
  let (f, t0) = p1 in
  (u8
    (N.coq_land (N.shiftr f (Npos (XO (XO (XO (XO (XO XH))))))) (Npos (XI (XI
      (XI (XI (XI (XI (XI XH)))))))))) :: ((u8
                                             (N.coq_land
                                               (N.shiftr f (Npos (XO (XO (XO
                                                 (XI XH)))))) (Npos (XI (XI
                                               (XI (XI (XI (XI (XI XH)))))))))) :: (
  (u8
    (N.coq_land (N.shiftr f (Npos (XO (XO (XO (XO XH)))))) (Npos (XI (XI (XI
      (XI (XI (XI (XI XH)))))))))) :: ((u8
                                         (N.coq_land
                                           (N.shiftr f (Npos (XO (XO (XO
                                             XH))))) (Npos (XI (XI (XI (XI
                                           (XI (XI (XI XH)))))))))) :: (
  (u8 (N.coq_land f (Npos (XI (XI (XI (XI (XI (XI (XI XH)))))))))) :: (N0 :: (
  (u8 (N.shiftr t0 (Npos (XO (XO (XO XH)))))) :: ((u8
                                                    (N.coq_land t0 (Npos (XI
                                                      (XI (XI (XI (XI (XI (XI
                                                      XH)))))))))) :: (z :: (
  (u8 (N.shiftr nsub (Npos (XO (XO (XO XH)))))) :: ((u8
                                                      (N.coq_land nsub (Npos
                                                        (XI (XI (XI (XI (XI
                                                        (XI (XI XH)))))))))) :: (al :: [])))))))))))

(** val oti_deser : n list -> oti outcome **)

let oti_deser = function
| [] -> Panic PIndex
| d0 :: l ->
  (match l with
   | [] -> Panic PIndex
   | d1 :: l0 ->
     (match l0 with
      | [] -> Panic PIndex
      | d2 :: l1 ->
        (match l1 with
         | [] -> Panic PIndex
         | d3 :: l2 ->
           (match l2 with
            | [] -> Panic PIndex
            | d4 :: l3 ->
              (match l3 with
               | [] -> Panic PIndex
               | _ :: l4 ->
                 (match l4 with
                  | [] -> Panic PIndex
                  | d6 :: l5 ->
                    (match l5 with
                     | [] -> Panic PIndex
                     | d7 :: l6 ->
                       (match l6 with
                        | [] -> Panic PIndex
                        | d8 :: l7 ->
                          (match l7 with
                           | [] -> Panic PIndex
                           | d9 :: l8 ->
                             (match l8 with
                              | [] -> Panic PIndex
                              | d10 :: l9 ->
                                (match l9 with
                                 | [] -> Panic PIndex
                                 | d11 :: l10 ->
                                   (match l10 with
                                    | [] ->
                                      Ok
                                        (((((N.add
                                              (N.add
                                                (N.add
                                                  (N.add
                                                    (N.shiftl d0 (Npos (XO
                                                      (XO (XO (XO (XO
                                                      XH)))))))
                                                    (N.shiftl d1 (Npos (XO
                                                      (XO (XO (XI XH)))))))
                                                  (N.shiftl d2 (Npos (XO (XO
                                                    (XO (XO XH)))))))
                                                (N.shiftl d3 (Npos (XO (XO
                                                  (XO XH)))))) d4),
                                        (N.add
                                          (N.shiftl d6 (Npos (XO (XO (XO
                                            XH))))) d7)), d8),
                                        (N.add
                                          (N.shiftl d9 (Npos (XO (XO (XO
                                            XH))))) d10)), d11)
                                    | _ :: _ -> Panic PIndex))))))))))))

(** val ceil_div64 : n -> n -> n **)

let ceil_div64 num den =
  if N.eqb (N.modulo num den) N0
  then N.div num den
  else N.add (N.div num den) (Npos XH)

(** val int_div_ceil_pinned : n -> n -> n **)

let int_div_ceil_pinned num den =
  u32
    (if N.eqb (N.modulo num den) N0
     then N.div num den
     else N.add (N.div num den) (Npos XH))

(** val oti_new_gen :
    (n -> n -> n) -> mode -> n -> n -> n -> n -> n -> oti outcome **)

let oti_new_gen idc _ f t0 z nsub al =
  obind (assert_ok (N.leb f mAX_TRANSFER_LENGTH)) (fun _ ->
    obind (rem_ok t0 al) (fun r ->
      obind (assert_ok (N.eqb r N0)) (fun _ ->
        obind
          (if (&&) (negb (N.eqb t0 N0)) (negb (N.eqb z N0))
           then let symbols_required = idc (idc f t0) z in
                assert_ok
                  (N.leb symbols_required mAX_SOURCE_SYMBOLS_PER_BLOCK)
           else Ok ()) (fun _ -> Ok ((((f, t0), z), nsub), al)))))

(** val oti_new_pinned : mode -> n -> n -> n -> n -> n -> oti outcome **)

let oti_new_pinned =
  oti_new_gen int_div_ceil_pinned

(** val oti_new_fixed : mode -> n -> n -> n -> n -> n -> oti outcome **)

let oti_new_fixed =
  oti_new_gen ceil_div64

(** val oti_new : mode -> n -> n -> n -> n -> n -> oti outcome **)

let oti_new =
  oti_new_fixed

(** val assoc_get : n -> (n * 'a1) list -> 'a1 option **)

let rec assoc_get k = function
| [] -> None
| p :: t0 -> let (k', v) = p in if N.eqb k' k then Some v else assoc_get k t0

(** val assoc_remove : n -> (n * 'a1) list -> (n * 'a1) list **)

let assoc_remove k l =
  filter (fun kv -> negb (N.eqb (fst kv) k)) l

(** val assoc_insert : n -> 'a1 -> (n * 'a1) list -> (n * 'a1) list **)

let rec assoc_insert k v = function
| [] -> (k, v) :: []
| p :: t0 ->
  let (k', v') = p in
  if N.eqb k' k then (k, v) :: t0 else (k', v') :: (assoc_insert k v t0)

(** val keys : (n * 'a1) list -> n list **)

let keys l =
  map fst l

type 'plan pc =
| Idle
| Missed of n
| Generated of n * 'plan

(** val get_pc : nat -> (nat * 'a1 pc) list -> 'a1 pc **)

let rec get_pc t0 = function
| [] -> Idle
| p :: r -> let (t', c) = p in if Nat.eqb t' t0 then c else get_pc t0 r

(** val set_pc :
    nat -> 'a1 pc -> (nat * 'a1 pc) list -> (nat * 'a1 pc) list **)

let rec set_pc t0 c = function
| [] -> (t0, c) :: []
| p :: r ->
  let (t', c') = p in
  if Nat.eqb t' t0 then (t0, c) :: r else (t', c') :: (set_pc t0 c r)

type 'plan sysstate = { plans : (n * 'plan) list; order : n list;
                        threads : (nat * 'plan pc) list }

type step =
| Lookup of nat * n
| Generate of nat
| Insert of nat

type 'plan event =
| Ret of nat * n * 'plan

(** val init : 'a1 sysstate **)

let init =
  { plans = []; order = []; threads = [] }

(** val do_lookup :
    nat -> n -> 'a1 sysstate -> 'a1 sysstate * 'a1 event list **)

let do_lookup t0 k st =
  match get_pc t0 st.threads with
  | Idle ->
    (match assoc_get k st.plans with
     | Some p -> (st, ((Ret (t0, k, p)) :: []))
     | None ->
       ({ plans = st.plans; order = st.order; threads =
         (set_pc t0 (Missed k) st.threads) }, []))
  | _ -> (st, [])

(** val do_generate :
    (n -> 'a1) -> nat -> 'a1 sysstate -> 'a1 sysstate * 'a1 event list **)

let do_generate gen t0 st =
  match get_pc t0 st.threads with
  | Missed k ->
    ({ plans = st.plans; order = st.order; threads =
      (set_pc t0 (Generated (k, (gen k))) st.threads) }, [])
  | _ -> (st, [])

(** val evict : nat -> (n * 'a1) list -> n list -> (n * 'a1) list * n list **)

let evict capacity pl ord =
  if Nat.leb capacity (length pl)
  then (match ord with
        | [] -> (pl, ord)
        | e :: rest -> ((assoc_remove e pl), rest))
  else (pl, ord)

(** val do_insert :
    nat -> nat -> 'a1 sysstate -> 'a1 sysstate * 'a1 event list **)

let do_insert capacity t0 st =
  match get_pc t0 st.threads with
  | Generated (k, p) ->
    (match assoc_get k st.plans with
     | Some p' ->
       ({ plans = st.plans; order = st.order; threads =
         (set_pc t0 Idle st.threads) }, ((Ret (t0, k, p')) :: []))
     | None ->
       let (pl1, ord1) = evict capacity st.plans st.order in
       ({ plans = (assoc_insert k p pl1); order = (app ord1 (k :: []));
       threads = (set_pc t0 Idle st.threads) }, ((Ret (t0, k, p)) :: [])))
  | _ -> (st, [])

(** val exec :
    (n -> 'a1) -> nat -> step -> 'a1 sysstate -> 'a1 sysstate * 'a1 event list **)

let exec gen capacity s st =
  match s with
  | Lookup (t0, k) -> do_lookup t0 k st
  | Generate t0 -> do_generate gen t0 st
  | Insert t0 -> do_insert capacity t0 st

(** val insert_sorted : n -> n list -> n list **)

let rec insert_sorted x l = match l with
| [] -> x :: []
| y :: t0 -> if N.leb x y then x :: l else y :: (insert_sorted x t0)

(** val sort_N : n list -> n list **)

let sort_N l =
  fold_right insert_sorted [] l

(** val decode_step : ((n * n) * n) -> step option **)

let decode_step = function
| (p, k) ->
  let (t0, kind) = p in
  (match kind with
   | N0 -> Some (Lookup ((N.to_nat t0), k))
   | Npos p0 ->
     (match p0 with
      | XI _ -> None
      | XO p1 -> (match p1 with
                  | XH -> Some (Insert (N.to_nat t0))
                  | _ -> None)
      | XH -> Some (Generate (N.to_nat t0))))

(** val observe : n sysstate -> n event list -> n list **)

let observe st evs =
  app
    (match evs with
     | [] -> N0 :: (N0 :: [])
     | e :: _ -> let Ret (_, _, p) = e in (Npos XH) :: (p :: []))
    (app ((N.of_nat (length st.order)) :: [])
      (app st.order
        (app ((N.of_nat (length st.plans)) :: []) (sort_N (keys st.plans)))))

(** val cache_trace_from :
    nat -> ((n * n) * n) list -> n sysstate -> n list list **)

let rec cache_trace_from capacity sched st =
  match sched with
  | [] -> []
  | e :: rest ->
    let (st1, evs) =
      match decode_step e with
      | Some s -> exec (fun k -> k) capacity s st
      | None -> (st, [])
    in
    (observe st1 evs) :: (cache_trace_from capacity rest st1)

(** val cache_trace : nat -> ((n * n) * n) list -> n list list **)

let cache_trace capacity sched =
  cache_trace_from capacity sched init

(** val r_k : ((((n * n) * n) * n) * n) -> n **)

let r_k = function
| (p, _) -> let (p0, _) = p in let (p1, _) = p0 in let (k, _) = p1 in k

(** val r_j : ((((n * n) * n) * n) * n) -> n **)

let r_j = function
| (p, _) -> let (p0, _) = p in let (p1, _) = p0 in let (_, j) = p1 in j

(** val r_s : ((((n * n) * n) * n) * n) -> n **)

let r_s = function
| (p, _) -> let (p0, _) = p in let (_, s) = p0 in s

(** val r_h : ((((n * n) * n) * n) * n) -> n **)

let r_h = function
| (p, _) -> let (_, h) = p in h

(** val r_w : ((((n * n) * n) * n) * n) -> n **)

let r_w = function
| (_, w) -> w

(** val scan_tab : ('a1 -> n) -> ('a1 -> n) -> n -> 'a1 list -> n outcome **)

let rec scan_tab key0 sel0 k = function
| [] -> Panic PUnreachable
| r :: t0 -> if N.leb k (key0 r) then Ok (sel0 r) else scan_tab key0 sel0 k t0

(** val lookup5 : (((((n * n) * n) * n) * n) -> n) -> n -> n outcome **)

let lookup5 sel0 k =
  if N.leb k mAX_SOURCE_SYMBOLS_PER_BLOCK
  then scan_tab r_k sel0 k tABLE2
  else Panic PAssert

(** val extended_source_block_symbols : n -> n outcome **)

let extended_source_block_symbols k =
  lookup5 r_k k

(** val systematic_index : n -> n outcome **)

let systematic_index k =
  lookup5 r_j k

(** val num_hdpc_symbols : n -> n outcome **)

let num_hdpc_symbols k =
  lookup5 r_h k

(** val num_ldpc_symbols : n -> n outcome **)

let num_ldpc_symbols k =
  lookup5 r_s k

(** val num_lt_symbols : n -> n outcome **)

let num_lt_symbols k =
  lookup5 r_w k

(** val num_intermediate_symbols : n -> n outcome **)

let num_intermediate_symbols k =
  obind (extended_source_block_symbols k) (fun k' ->
    obind (num_ldpc_symbols k) (fun s ->
      obind (num_hdpc_symbols k) (fun h -> Ok (N.add (N.add k' s) h))))

(** val num_pi_symbols : n -> n outcome **)

let num_pi_symbols k =
  obind (num_intermediate_symbols k) (fun l ->
    obind (num_lt_symbols k) (fun w -> Ok (N.sub l w)))

(** val calculate_p1 : n -> n outcome **)

let calculate_p1 k =
  if N.leb k mAX_SOURCE_SYMBOLS_PER_BLOCK
  then scan_tab fst snd k p1_TABLE
  else Panic PAssert

(** val v0 : n list **)

let v0 =
  (Npos (XO (XO (XO (XO (XO (XO (XO (XO (XO (XI (XI (XO (XO (XI (XI (XO (XO
    (XI (XO (XI (XI (XI (XI (XI (XO (XI (XI
    XH)))))))))))))))))))))))))))) :: ((Npos (XI (XI (XI (XI (XO (XO (XI (XI
    (XO (XO (XI (XO (XO (XO (XI (XO (XO (XI (XO (XO (XI (XO (XO (XI (XI (XI
    (XO (XI (XO (XI (XI XH)))))))))))))))))))))))))))))))) :: ((Npos (XO (XO
    (XI (XO (XO (XI (XO (XO (XI (XI (XI (XI (XI (XI (XO (XI (XO (XO (XI (XI
    (XO (XI (XI (XI (XO (XO (XO (XI (XO (XO (XI
    XH)))))))))))))))))))))))))))))))) :: ((Npos (XO (XO (XO (XO (XO (XO (XO
    (XI (XI (XO (XI (XO (XI (XO (XI (XI (XI (XO (XO (XI (XI (XO (XO (XI (XO
    (XI (XO (XO (XI (XI (XI XH)))))))))))))))))))))))))))))))) :: ((Npos (XI
    (XI (XI (XO (XO (XO (XO (XI (XI (XI (XI (XO (XI (XI (XI (XO (XO (XI (XI
    (XI (XI (XO (XI (XO (XI (XI XH))))))))))))))))))))))))))) :: ((Npos (XI
    (XI (XO (XI (XO (XO (XO (XI (XO (XI (XO (XO (XO (XI (XI (XI (XI (XO (XI
    (XI (XI (XI (XO (XI (XI (XI (XI (XO (XO (XO (XI
    XH)))))))))))))))))))))))))))))))) :: ((Npos (XI (XO (XO (XI (XO (XO (XI
    (XI (XO (XI (XO (XI (XI (XO (XO (XO (XI (XO (XO (XI (XI (XO (XI (XI (XI
    (XI (XI (XI (XI (XI (XO XH)))))))))))))))))))))))))))))))) :: ((Npos (XI
    (XI (XO (XO (XI (XI (XO (XI (XI (XO (XO (XI (XI (XI (XO (XO (XI (XI (XI
    (XO (XO (XI (XI (XI (XI (XI (XI (XO (XI (XI
    XH))))))))))))))))))))))))))))))) :: ((Npos (XO (XI (XO (XO (XI (XO (XI
    (XI (XI (XO (XO (XO (XO (XO (XO (XI (XI (XI (XO (XI (XO (XI (XO (XO (XO
    (XI (XI (XI (XO XH)))))))))))))))))))))))))))))) :: ((Npos (XI (XO (XI
    (XO (XO (XO (XI (XO (XI (XO (XI (XO (XO (XI (XI (XI (XI (XI (XI (XO (XI
    (XI (XO (XO (XI (XI (XI (XI (XO (XO (XO
    XH)))))))))))))))))))))))))))))))) :: ((Npos (XO (XI (XO (XO (XI (XO (XI
    (XO (XO (XO (XI (XI (XO (XI (XI (XO (XI (XO (XI (XI (XI (XO (XI (XI (XI
    (XI (XO (XI (XI XH)))))))))))))))))))))))))))))) :: ((Npos (XI (XO (XO
    (XO (XI (XI (XO (XI (XO (XI (XO (XI (XO (XI (XI (XO (XO (XO (XO (XI (XO
    (XI (XI (XI (XI (XO (XI (XI (XO (XI
    XH))))))))))))))))))))))))))))))) :: ((Npos (XO (XO (XI (XI (XI (XI (XI
    (XI (XI (XI (XO (XI (XI (XO (XI (XO (XO (XO (XO (XO (XI (XO (XO (XI (XI
    (XO (XO (XI XH))))))))))))))))))))))))))))) :: ((Npos (XO (XO (XO (XO (XI
    (XO (XI (XO (XI (XO (XI (XI (XI (XI (XI (XO (XO (XO (XI (XI (XO (XO (XI
    (XO (XI (XI (XI (XI (XI (XO (XI
    XH)))))))))))))))))))))))))))))))) :: ((Npos (XO (XO (XO (XI (XI (XO (XO
    (XI (XI (XI (XO (XI (XO (XI (XO (XI (XO (XO (XO (XI (XI (XO (XI (XI (XO
    (XI (XI (XI (XI (XO XH))))))))))))))))))))))))))))))) :: ((Npos (XI (XI
    (XO (XI (XI (XI (XO (XO (XI (XO (XI (XO (XI (XI (XI (XI (XO (XI (XI (XI
    (XO (XO (XI (XI (XO (XI (XI (XO (XI (XI (XO
    XH)))))))))))))))))))))))))))))))) :: ((Npos (XI (XI (XI (XI (XI (XI (XO
    (XI (XO (XI (XI (XO (XO (XO (XI (XI (XI (XI (XI (XI (XO (XI (XI (XO (XI
    (XO (XI (XO (XI (XO XH))))))))))))))))))))))))))))))) :: ((Npos (XO (XI
    (XO (XI (XI (XI (XI (XO (XI (XI (XO (XO (XO (XO (XO (XI (XO (XI (XO (XI
    (XO (XO (XO (XO (XO (XI (XI (XI XH))))))))))))))))))))))))))))) :: ((Npos
    (XI (XO (XI (XI (XO (XO (XO (XO (XO (XI (XI (XO (XO (XI (XI (XI (XI (XI
    (XI (XO (XO (XI (XO (XO (XI (XO (XO (XI (XI (XI
    XH))))))))))))))))))))))))))))))) :: ((Npos (XO (XO (XO (XI (XO (XI (XI
    (XI (XI (XO (XI (XI (XO (XI (XO (XI (XO (XI (XI (XI (XO (XO (XI (XI (XI
    (XI (XO (XI (XO (XO (XI XH)))))))))))))))))))))))))))))))) :: ((Npos (XO
    (XI (XI (XO (XO (XI (XI (XI (XI (XI (XI (XI (XI (XO (XI (XO (XI (XI (XO
    (XI (XI (XI (XO (XO (XI (XI (XI (XO (XO (XI (XO
    XH)))))))))))))))))))))))))))))))) :: ((Npos (XO (XI (XO (XI (XI (XI (XI
    (XO (XO (XI (XI (XI (XO (XI (XI (XO (XI (XI (XO (XI (XO (XI (XI (XI (XO
    (XO (XO (XI (XI (XI (XO XH)))))))))))))))))))))))))))))))) :: ((Npos (XO
    (XI (XO (XO (XI (XI (XO (XI (XI (XO (XI (XO (XI (XI (XO (XI (XI (XI (XO
    (XO (XO (XO (XO (XO (XI (XI (XO (XO (XO (XI (XI
    XH)))))))))))))))))))))))))))))))) :: ((Npos (XI (XI (XO (XI (XI (XI (XI
    (XI (XO (XO (XI (XI (XI (XO (XO (XO (XI (XI (XO (XI (XI (XO (XO (XO (XI
    (XO (XI (XO (XI (XO (XO XH)))))))))))))))))))))))))))))))) :: ((Npos (XI
    (XO (XI (XO (XO (XI (XO (XI (XI (XI (XI (XI (XI (XO (XI (XI (XI (XO (XO
    (XI (XO (XI (XO (XO (XI (XO (XI (XI (XO (XI (XI
    XH)))))))))))))))))))))))))))))))) :: ((Npos (XI (XO (XI (XI (XO (XI (XO
    (XO (XI (XO (XI (XO (XI (XO (XI (XO (XO (XI (XO (XI (XO (XI (XO (XI (XO
    (XI (XI XH)))))))))))))))))))))))))))) :: ((Npos (XI (XI (XO (XI (XI (XI
    (XO (XO (XI (XO (XO (XO (XO (XO (XO (XO (XI (XO (XI (XI (XO (XI (XI (XO
    (XI (XI (XI (XI (XO (XI (XI XH)))))))))))))))))))))))))))))))) :: ((Npos
    (XO (XO (XO (XI (XI (XI (XI (XI (XO (XO (XI (XI (XO (XO (XI (XO (XO (XI
    (XO (XI (XI (XI (XO (XI (XO (XI (XI (XO (XO
    XH)))))))))))))))))))))))))))))) :: ((Npos (XO (XO (XI (XO (XI (XI (XI
    (XI (XO (XI (XO (XI (XO (XI (XI (XI (XI (XI (XI (XO (XI (XI (XO (XI (XI
    (XO (XI (XO (XI (XI XH))))))))))))))))))))))))))))))) :: ((Npos (XO (XI
    (XI (XO (XO (XI (XO (XO (XO (XI (XO (XI (XI (XI (XO (XO (XI (XI (XI (XO
    (XO (XO (XO (XO (XO (XI (XI (XI (XI (XO (XO
    XH)))))))))))))))))))))))))))))))) :: ((Npos (XI (XO (XO (XO (XO (XO (XI
    (XI (XO (XO (XO (XO (XI (XO (XO (XI (XI (XI (XO (XI (XO (XO (XO (XI (XO
    (XO (XI (XI (XO (XO (XO XH)))))))))))))))))))))))))))))))) :: ((Npos (XO
    (XO (XO (XI (XI (XI (XI (XI (XI (XO (XO (XI (XO (XO (XO (XI (XO (XI (XO
    (XI (XI (XO (XO (XO (XI (XO (XO (XI (XO
    XH)))))))))))))))))))))))))))))) :: ((Npos (XO (XO (XI (XO (XO (XO (XI
    (XI (XI (XO (XO (XI (XI (XO (XI (XO (XO (XI (XO (XI (XO (XI (XO (XI (XO
    (XI (XO (XI (XO XH)))))))))))))))))))))))))))))) :: ((Npos (XO (XI (XI
    (XO (XO (XO (XO (XO (XO (XO (XO (XI (XO (XI (XO (XI (XI (XO (XO (XI (XO
    (XO (XI (XO (XO (XI (XO (XO (XO (XI (XO
    XH)))))))))))))))))))))))))))))))) :: ((Npos (XO (XO (XI (XO (XI (XI (XI
    (XO (XO (XI (XO (XO (XO (XO (XI (XI (XO (XO (XO (XO (XI (XI (XI (XO (XI
    (XI (XO XH)))))))))))))))))))))))))))) :: ((Npos (XI (XI (XO (XO (XI (XO
    (XO (XI (XI (XO (XO (XO (XO (XO (XI (XI (XI (XI (XO (XI (XI (XI (XO (XI
    (XO (XI (XO (XO (XI (XO (XI XH)))))))))))))))))))))))))))))))) :: ((Npos
    (XI (XO (XO (XO (XI (XI (XO (XI (XI (XO (XO (XI (XI (XO (XI (XO (XI (XI
    (XO (XO (XI (XO (XI (XO (XI (XI (XO (XO (XO (XO (XI
    XH)))))))))))))))))))))))))))))))) :: ((Npos (XI (XO (XI (XO (XO (XI (XI
    (XO (XO (XI (XO (XO (XI (XO (XO (XO (XI (XO (XI (XO (XO (XI (XO (XI (XI
    (XI (XI (XO (XI (XO XH))))))))))))))))))))))))))))))) :: ((Npos (XO (XI
    (XI (XO (XO (XO (XO (XO (XO (XO (XO (XO (XO (XI (XI (XO (XO (XO (XI (XI
    (XO (XO (XI (XO (XO (XO (XO (XO (XO (XI (XI
    XH)))))))))))))))))))))))))))))))) :: ((Npos (XI (XI (XI (XI (XI (XO (XO
    (XO (XO (XO (XO (XI (XO (XI (XO (XI (XO (XI (XO (XI (XO (XI (XO (XI (XO
    (XO (XO (XO (XO (XO (XI XH)))))))))))))))))))))))))))))))) :: ((Npos (XI
    (XI (XO (XI (XO (XI (XI (XO (XI (XO (XI (XO (XO (XO (XI (XO (XO (XO (XO
    (XO (XI (XO (XI (XO (XI (XI XH))))))))))))))))))))))))))) :: ((Npos (XI
    (XO (XI (XO (XI (XO (XI (XI (XO (XI (XI (XO (XI (XI (XI (XO (XI (XI (XO
    (XO (XI (XI (XO (XI (XI (XO (XO (XI (XO (XI (XI
    XH)))))))))))))))))))))))))))))))) :: ((Npos (XI (XI (XO (XO (XO (XI (XO
    (XO (XO (XO (XI (XO (XO (XI (XO (XO (XO (XO (XO (XO (XO (XI (XO (XI (XO
    (XI (XI (XI (XO XH)))))))))))))))))))))))))))))) :: ((Npos (XO (XI (XI
    (XI (XI (XO (XI (XI (XO (XI (XI (XI (XI (XO (XO (XO (XO (XI (XI (XI (XO
    (XI (XO (XO (XO (XI (XI (XO XH))))))))))))))))))))))))))))) :: ((Npos (XI
    (XO (XI (XO (XI (XI (XI (XO (XI (XI (XO (XI (XO (XO (XI (XO (XI (XO (XI
    (XI (XO (XO (XO (XI (XO (XI (XO (XO (XI (XI (XO
    XH)))))))))))))))))))))))))))))))) :: ((Npos (XI (XI (XI (XI (XO (XO (XO
    (XO (XO (XI (XO (XO (XO (XI (XI (XI (XO (XI (XI (XI (XO (XI (XI (XI (XI
    (XO (XO (XI (XI (XI XH))))))))))))))))))))))))))))))) :: ((Npos (XO (XI
    (XI (XO (XI (XI (XO (XO (XI (XO (XI (XI (XO (XI (XO (XO (XO (XI (XI (XI
    (XO (XO (XO (XO (XI (XI (XO (XI (XO (XO (XO
    XH)))))))))))))))))))))))))))))))) :: ((Npos (XI (XI (XI (XO (XO (XI (XO
    (XI (XI (XI (XO (XO (XI (XO (XO (XO (XI (XO (XI (XI (XI (XI (XO (XI (XO
    (XI (XI (XI (XO (XI (XI XH)))))))))))))))))))))))))))))))) :: ((Npos (XI
    (XI (XO (XI (XI (XI (XI (XI (XI (XI (XO (XO (XO (XO (XO (XI (XI (XI (XI
    (XO (XO (XO (XO (XO (XI (XO (XI XH)))))))))))))))))))))))))))) :: ((Npos
    (XI (XI (XI (XI (XO (XO (XI (XI (XI (XI (XI (XO (XI (XO (XO (XI (XO (XI
    (XO (XO (XI (XO (XO (XI (XI (XI (XO (XI (XO (XO (XI
    XH)))))))))))))))))))))))))))))))) :: ((Npos (XO (XI (XI (XO (XO (XO (XO
    (XI (XI (XI (XO (XO (XI (XO (XO (XO (XI (XI (XO (XI (XO (XO (XI (XI (XO
    (XI (XO (XI (XI (XI (XI XH)))))))))))))))))))))))))))))))) :: ((Npos (XI
    (XI (XI (XO (XO (XI (XI (XI (XO (XO (XI (XI (XI (XO (XO (XI (XI (XI (XO
    (XO (XI (XO (XI (XO (XI (XI (XO (XO (XI
    XH)))))))))))))))))))))))))))))) :: ((Npos (XI (XO (XI (XO (XI (XI (XO
    (XO (XO (XI (XI (XO (XI (XO (XO (XO (XO (XO (XI (XO (XO (XI (XO (XO (XI
    (XI (XO (XI (XI (XO (XI XH)))))))))))))))))))))))))))))))) :: ((Npos (XO
    (XO (XO (XI (XO (XO (XO (XO (XO (XO (XO (XO (XI (XI (XO (XO (XI (XO (XO
    (XO (XO (XI (XI (XI (XI (XO (XO (XI (XI (XO (XO
    XH)))))))))))))))))))))))))))))))) :: ((Npos (XO (XO (XO (XO (XO (XO (XI
    (XO (XI (XO (XO (XI (XI (XI (XI (XO (XO (XO (XI (XI (XO (XI (XI (XO (XI
    (XO (XI (XO (XO (XO (XI XH)))))))))))))))))))))))))))))))) :: ((Npos (XI
    (XI (XO (XO (XO (XI (XO (XO (XO (XO (XO (XI (XO (XO (XI (XI (XO (XI (XO
    (XI (XI (XO (XO (XI (XO (XO (XO (XI (XO
    XH)))))))))))))))))))))))))))))) :: ((Npos (XO (XI (XO (XO (XI (XI (XI
    (XO (XI (XO (XO (XO (XO (XI (XO (XO (XI (XO (XO (XO (XI (XO (XI (XO (XO
    (XI (XO (XO XH))))))))))))))))))))))))))))) :: ((Npos (XO (XO (XI (XO (XO
    (XO (XO (XI (XO (XO (XI (XO (XI (XO (XI (XI (XI (XI (XI (XI (XI (XO (XO
    (XO (XI (XO (XI (XO (XI (XI (XI
    XH)))))))))))))))))))))))))))))))) :: ((Npos (XO (XI (XI (XI (XO (XO (XO
    (XO (XI (XO (XO (XO (XO (XI (XI (XO (XI (XI (XI (XO (XO (XO (XO (XO (XI
    (XO (XI (XO (XO (XO XH))))))))))))))))))))))))))))))) :: ((Npos (XO (XI
    (XO (XI (XI (XO (XO (XO (XI (XO (XI (XO (XI (XI (XI (XI (XI (XO (XI (XO
    (XO (XO (XI (XO (XO (XI (XO (XI (XO
    XH)))))))))))))))))))))))))))))) :: ((Npos (XI (XO (XO (XO (XI (XO (XO
    (XI (XI (XO (XI (XO (XI (XO (XO (XO (XI (XI (XI (XI (XI (XO (XI (XO (XO
    (XI (XO (XO (XO (XI (XO XH)))))))))))))))))))))))))))))))) :: ((Npos (XI
    (XI (XO (XI (XI (XI (XO (XO (XI (XI (XI (XO (XI (XI (XO (XI (XI (XI (XI
    (XO (XO (XI (XI (XO (XO (XI (XO (XI (XI (XI (XI
    XH)))))))))))))))))))))))))))))))) :: ((Npos (XI (XO (XO (XO (XI (XI (XI
    (XI (XI (XO (XO (XI (XI (XO (XO (XI (XO (XI (XO (XI (XO (XO (XI (XO (XI
    (XI (XO (XI (XI (XI (XI XH)))))))))))))))))))))))))))))))) :: ((Npos (XI
    (XI (XO (XO (XO (XI (XI (XI (XI (XI (XO (XO (XI (XI (XI (XI (XO (XO (XI
    (XO (XI (XO (XI (XO (XI (XO (XO (XO (XI (XI (XI
    XH)))))))))))))))))))))))))))))))) :: ((Npos (XI (XO (XI (XO (XO (XO (XO
    (XO (XO (XI (XO (XI (XI (XI (XI (XO (XI (XI (XO (XO (XI (XI (XO (XI (XO
    (XO (XI (XO (XI (XI (XO XH)))))))))))))))))))))))))))))))) :: ((Npos (XO
    (XI (XO (XO (XI (XO (XI (XO (XI (XO (XI (XO (XI (XO (XI (XO (XO (XI (XO
    (XI (XO (XO (XI (XI (XI (XO (XO (XO (XI (XI
    XH))))))))))))))))))))))))))))))) :: ((Npos (XI (XO (XO (XI (XO (XO (XI
    (XO (XI (XI (XO (XO (XO (XO (XO (XO (XI (XO (XI (XO (XI (XI (XI (XO (XO
    (XI (XI (XI XH))))))))))))))))))))))))))))) :: ((Npos (XO (XI (XO (XI (XI
    (XI (XI (XO (XI (XO (XO (XO (XO (XI (XO (XI (XI (XO (XO (XI (XO (XI (XO
    (XO (XI (XO (XO (XO (XI (XO XH))))))))))))))))))))))))))))))) :: ((Npos
    (XI (XI (XO (XO (XI (XI (XI (XI (XO (XO (XO (XI (XI (XO (XO (XO (XO (XO
    (XI (XO (XI (XI (XO (XI (XI (XI XH))))))))))))))))))))))))))) :: ((Npos
    (XI (XI (XO (XO (XO (XO (XI (XO (XO (XO (XO (XI (XO (XI (XI (XI (XO (XO
    (XI (XI (XO (XO (XI (XO (XI (XI (XO (XI (XI (XI (XO
    XH)))))))))))))))))))))))))))))))) :: ((Npos (XI (XI (XO (XO (XI (XI (XO
    (XO (XI (XI (XI (XI (XO (XI (XO (XI (XO (XO (XI (XI (XO (XI (XO (XO (XI
    (XO (XO (XI (XI (XO (XO XH)))))))))))))))))))))))))))))))) :: ((Npos (XO
    (XI (XI (XI (XO (XI (XO (XO (XO (XO (XO (XO (XO (XO (XO (XO (XO (XO (XI
    (XI (XO (XO (XI (XI (XO (XO (XI (XO (XI (XI (XO
    XH)))))))))))))))))))))))))))))))) :: ((Npos (XO (XI (XI (XO (XI (XI (XI
    (XO (XI (XI (XI (XI (XI (XO (XI (XI (XO (XO (XI (XO (XI (XO (XI (XI (XO
    (XI (XO (XO (XO (XI XH))))))))))))))))))))))))))))))) :: ((Npos (XO (XI
    (XI (XI (XO (XI (XO (XO (XO (XO (XI (XI (XI (XO (XI (XI (XO (XI (XI (XI
    (XO (XO (XO (XI (XI (XI (XI (XO (XI
    XH)))))))))))))))))))))))))))))) :: ((Npos (XI (XO (XI (XI (XI (XI (XI
    (XO (XO (XO (XO (XI (XI (XO (XI (XO (XI (XI (XI (XO (XO (XI (XO (XO (XO
    (XI (XI (XO (XI (XI XH))))))))))))))))))))))))))))))) :: ((Npos (XI (XI
    (XO (XO (XI (XO (XO (XO (XI (XI (XO (XI (XI (XI (XO (XO (XO (XI (XI (XI
    (XO (XO (XI (XI (XI (XO (XO (XO (XI (XI (XO
    XH)))))))))))))))))))))))))))))))) :: ((Npos (XO (XI (XO (XO (XO (XI (XO
    (XO (XO (XI (XO (XI (XO (XI (XI (XO (XI (XO (XI (XO (XO (XO (XI (XO (XI
    (XI (XO (XO (XI (XI (XO XH)))))))))))))))))))))))))))))))) :: ((Npos (XO
    (XO (XO (XO (XO (XO (XI (XO (XI (XI (XI (XO (XO (XI (XI (XI (XI (XO (XI
    (XO (XO (XO (XO (XI (XI (XO (XI (XI (XO (XO (XI
    XH)))))))))))))))))))))))))))))))) :: ((Npos (XO (XI (XO (XO (XO (XO (XI
    (XO (XI (XO (XO (XO (XI (XI (XO (XO (XI (XO (XO (XO (XO (XO (XI (XI (XO
    (XO (XO (XI (XO XH)))))))))))))))))))))))))))))) :: ((Npos (XI (XO (XO
    (XI (XO (XO (XI (XI (XI (XO (XI (XI (XI (XO (XI (XI (XI (XI (XO (XO (XO
    (XI (XI (XO (XO (XI (XI (XI (XO
    XH)))))))))))))))))))))))))))))) :: ((Npos (XI (XO (XI (XI (XO (XI (XI
    (XO (XO (XO (XI (XO (XI (XI (XI (XI (XO (XO (XI (XO (XO (XI (XI (XO (XI
    (XI (XO (XO (XI (XO XH))))))))))))))))))))))))))))))) :: ((Npos (XO (XO
    (XI (XI (XI (XI (XO (XI (XI (XI (XO (XO (XI (XI (XI (XI (XO (XO (XO (XI
    (XI (XO (XO (XI (XI (XI (XO (XO (XI (XI
    XH))))))))))))))))))))))))))))))) :: ((Npos (XI (XI (XO (XO (XO (XO (XO
    (XI (XO (XI (XI (XI (XO (XO (XO (XI (XO (XO (XI (XI (XI (XO (XI (XI (XO
    (XO (XI (XO (XO (XI XH))))))))))))))))))))))))))))))) :: ((Npos (XO (XO
    (XO (XO (XO (XO (XI (XI (XI (XI (XI (XI (XO (XO (XO (XI (XI (XO (XO (XO
    (XI (XO (XO (XI (XO (XI (XI (XO (XO (XI (XI
    XH)))))))))))))))))))))))))))))))) :: ((Npos (XO (XI (XO (XO (XI (XI (XI
    (XO (XI (XO (XI (XO (XO (XO (XI (XO (XI (XO (XO (XI (XO (XO (XI (XI (XO
    (XO (XI (XO (XI (XO XH))))))))))))))))))))))))))))))) :: ((Npos (XO (XI
    (XO (XI (XI (XO (XO (XO (XO (XO (XI (XO (XO (XI (XI (XI (XI (XO (XO (XI
    (XI (XO (XI (XO (XI (XI (XO (XO (XO
    XH)))))))))))))))))))))))))))))) :: ((Npos (XI (XO (XO (XI (XO (XI (XO
    (XI (XI (XO (XI (XI (XI (XO (XI (XI (XO (XI (XI (XI (XI (XI (XI (XI (XI
    (XI (XI (XI (XO (XI XH))))))))))))))))))))))))))))))) :: ((Npos (XI (XO
    (XI (XO (XI (XO (XI (XI (XI (XI (XO (XI (XO (XI (XO (XO (XO (XO (XI (XO
    (XI (XO (XO (XI (XO (XI (XI (XO (XI (XO (XO
    XH)))))))))))))))))))))))))))))))) :: ((Npos (XI (XI (XO (XI (XO (XO (XO
    (XI (XO (XI (XI (XI (XO (XI (XI (XI (XI (XO (XI (XI (XI (XO (XI (XI (XO
    (XI (XI (XI (XI (XO XH))))))))))))))))))))))))))))))) :: ((Npos (XO (XI
    (XI (XO (XO (XO (XO (XO (XI (XO (XI (XO (XI (XI (XI (XI (XI (XI (XI (XO
    (XI (XO (XO (XI (XI (XO (XI (XI (XO (XI (XI
    XH)))))))))))))))))))))))))))))))) :: ((Npos (XI (XO (XO (XO (XI (XO (XO
    (XI (XO (XO (XO (XI (XO (XO (XI (XI (XI (XI (XO (XI (XO (XO (XI (XO (XO
    (XO (XI (XI (XO (XI (XI XH)))))))))))))))))))))))))))))))) :: ((Npos (XI
    (XI (XI (XI (XI (XI (XI (XI (XO (XO (XO (XI (XO (XI (XI (XI (XO (XI (XO
    (XO (XO (XI (XO (XI (XO (XO (XO (XO (XO (XI (XO
    XH)))))))))))))))))))))))))))))))) :: ((Npos (XI (XI (XO (XI (XO (XI (XI
    (XO (XI (XO (XI (XO (XI (XO (XI (XO (XI (XO (XO (XO (XO (XO (XI (XI (XI
    (XI (XO (XO (XI (XI XH))))))))))))))))))))))))))))))) :: ((Npos (XI (XI
    (XI (XI (XI (XO (XO (XI (XI (XO (XO (XI (XO (XI (XO (XO (XI (XI (XI (XI
    (XO (XO (XI (XO (XI (XO (XO (XI XH))))))))))))))))))))))))))))) :: ((Npos
    (XI (XI (XO (XO (XO (XO (XI (XI (XO (XO (XI (XO (XI (XI (XO (XI (XO (XO
    (XI (XI (XO (XO (XI (XO (XO (XO (XO (XO (XI (XO
    XH))))))))))))))))))))))))))))))) :: ((Npos (XO (XO (XI (XO (XO (XO (XI
    (XO (XI (XI (XO (XO (XI (XI (XI (XO (XO (XO (XO (XI (XI (XO (XO (XO (XI
    (XI (XI (XI (XI (XO (XO XH)))))))))))))))))))))))))))))))) :: ((Npos (XO
    (XI (XO (XO (XI (XO (XO (XO (XO (XO (XI (XO (XO (XI (XI (XO (XO (XI (XO
    (XI (XI (XO (XO (XO (XI (XO (XO (XO (XI (XO (XO
    XH)))))))))))))))))))))))))))))))) :: ((Npos (XI (XI (XO (XI (XI (XO (XO
    (XI (XI (XI (XI (XI (XO (XO (XO (XI (XI (XO (XO (XO (XI (XI (XI (XO (XI
    (XI (XI (XO (XI (XO (XO XH)))))))))))))))))))))))))))))))) :: ((Npos (XO
    (XO (XO (XO (XI (XO (XO (XI (XO (XI (XO (XI (XI (XI (XO (XO (XI (XI (XI
    (XI (XI (XI (XI (XO (XO (XI (XO (XO (XI (XO
    XH))))))))))))))))))))))))))))))) :: ((Npos (XI (XI (XO (XI (XI (XO (XO
    (XO (XO (XO (XO (XI (XI (XO (XI (XI (XO (XO (XO (XI (XO (XO (XI (XI (XI
    (XO (XI (XO (XI (XI (XI XH)))))))))))))))))))))))))))))))) :: ((Npos (XO
    (XI (XO (XI (XO (XO (XI (XI (XO (XO (XI (XI (XI (XO (XI (XO (XI (XO (XO
    (XO (XI (XO (XI (XI (XO (XI (XO (XI (XI (XO
    XH))))))))))))))))))))))))))))))) :: ((Npos (XI (XO (XO (XO (XO (XI (XO
    (XI (XI (XO (XI (XI (XO (XO (XO (XO (XO (XO (XO (XO (XI (XI (XI (XO (XI
    (XO (XO (XO (XO (XI (XO XH)))))))))))))))))))))))))))))))) :: ((Npos (XI
    (XO (XO (XO (XI (XO (XO (XI (XI (XO (XI (XO (XI (XI (XI (XO (XO (XO (XI
    (XO (XO (XI (XI (XO (XO (XI (XI (XI (XI
    XH)))))))))))))))))))))))))))))) :: ((Npos (XO (XO (XO (XO (XI (XI (XO
    (XI (XO (XO (XI (XI (XI (XI (XI (XI (XI (XI (XI (XO (XO (XI (XI (XI (XO
    (XO (XI (XO (XO (XO (XO XH)))))))))))))))))))))))))))))))) :: ((Npos (XO
    (XO (XI (XO (XI (XI (XO (XO (XO (XI (XO (XI (XO (XO (XI (XO (XO (XO (XI
    (XO (XI (XO (XI (XI (XO (XI (XO (XI (XO (XO
    XH))))))))))))))))))))))))))))))) :: ((Npos (XI (XO (XO (XO (XI (XI (XI
    (XO (XI (XO (XI (XO (XO (XI (XI (XO (XI (XI (XI (XO (XO (XI (XO (XO (XI
    (XI (XO (XI (XI (XI (XI XH)))))))))))))))))))))))))))))))) :: ((Npos (XI
    (XI (XO (XI (XI (XO (XO (XI (XO (XO (XI (XI (XO (XO (XI (XI (XI (XO (XI
    (XI (XO (XI (XO (XI (XO (XI (XO (XI (XI (XO
    XH))))))))))))))))))))))))))))))) :: ((Npos (XI (XO (XO (XO (XO (XI (XO
    (XO (XI (XO (XO (XI (XI (XO (XI (XI (XO (XI (XI (XI (XO (XO (XI (XO (XI
    (XO (XI (XO (XI (XI (XO XH)))))))))))))))))))))))))))))))) :: ((Npos (XO
    (XI (XI (XI (XI (XI (XO (XI (XO (XI (XI (XI (XO (XI (XO (XI (XO (XI (XO
    (XI (XO (XO (XO (XO (XI (XO (XO (XI
    XH))))))))))))))))))))))))))))) :: ((Npos (XI (XI (XO (XO (XO (XI (XI (XO
    (XI (XI (XO (XI (XO (XI (XI (XI (XO (XI (XO (XO (XO (XI (XO
    XH)))))))))))))))))))))))) :: ((Npos (XO (XO (XO (XI (XO (XO (XO (XO (XI
    (XO (XO (XI (XO (XO (XI (XI (XI (XI (XO (XI (XI (XI (XO (XI (XO (XI (XI
    (XI XH))))))))))))))))))))))))))))) :: ((Npos (XO (XI (XI (XI (XO (XI (XI
    (XI (XI (XO (XI (XI (XO (XO (XI (XO (XI (XO (XI (XO (XI (XO (XO (XO (XO
    (XI (XI (XI (XO (XO (XI XH)))))))))))))))))))))))))))))))) :: ((Npos (XO
    (XI (XO (XI (XI (XO (XI (XI (XO (XI (XI (XI (XI (XO (XI (XI (XO (XO (XI
    (XI (XI (XO (XO (XO (XO (XI (XI (XI (XI (XI
    XH))))))))))))))))))))))))))))))) :: ((Npos (XO (XI (XI (XI (XI (XO (XI
    (XO (XI (XI (XI (XI (XO (XO (XI (XI (XI (XO (XO (XO (XO (XI (XO (XO (XO
    (XI (XO (XO (XO (XI (XO XH)))))))))))))))))))))))))))))))) :: ((Npos (XO
    (XI (XO (XI (XI (XO (XI (XI (XO (XO (XO (XI (XO (XO (XI (XI (XI (XO (XI
    (XO (XO (XO (XI (XO (XI (XO (XO (XO (XO (XO (XI
    XH)))))))))))))))))))))))))))))))) :: ((Npos (XO (XO (XI (XI (XI (XO (XI
    (XI (XO (XO (XI (XI (XI (XI (XO (XI (XI (XI (XO (XI (XO (XI (XI (XI (XO
    (XI (XO (XO (XI XH)))))))))))))))))))))))))))))) :: ((Npos (XI (XI (XO
    (XO (XO (XI (XI (XI (XO (XO (XO (XI (XI (XO (XI (XI (XI (XI (XO (XO (XO
    (XI (XI (XO (XI (XO (XO (XI XH))))))))))))))))))))))))))))) :: ((Npos (XO
    (XI (XI (XI (XI (XI (XO (XI (XO (XI (XI (XI (XO (XO (XI (XI (XI (XI (XO
    (XI (XO (XI (XI (XO (XI (XI (XO (XO
    XH))))))))))))))))))))))))))))) :: ((Npos (XO (XO (XI (XI (XI (XO (XI (XO
    (XO (XI (XI (XO (XO (XO (XI (XI (XI (XO (XO (XI (XI (XO (XO (XO (XI (XI
    (XO (XI (XO (XI XH))))))))))))))))))))))))))))))) :: ((Npos (XI (XI (XO
    (XI (XI (XO (XI (XO (XI (XI (XI (XI (XI (XI (XI (XO (XO (XI (XO (XI (XO
    (XO (XI (XI (XO (XI (XO (XO (XI (XO (XO
    XH)))))))))))))))))))))))))))))))) :: ((Npos (XO (XI (XO (XI (XI (XO (XI
    (XI (XO (XO (XI (XO (XO (XO (XI (XI (XI (XO (XO (XO (XI (XO (XI (XI (XI
    (XO (XI (XO (XI (XI XH))))))))))))))))))))))))))))))) :: ((Npos (XI (XO
    (XO (XO (XI (XI (XO (XI (XI (XI (XI (XI (XI (XO (XO (XI (XO (XI (XI (XO
    (XI (XI (XI (XI (XI (XI (XO (XO (XI (XO
    XH))))))))))))))))))))))))))))))) :: ((Npos (XO (XO (XO (XO (XI (XO (XO
    (XI (XI (XO (XI (XO (XO (XO (XI (XO (XO (XI (XI (XI (XI (XI (XO (XO (XI
    (XO (XO (XI (XO (XO XH))))))))))))))))))))))))))))))) :: ((Npos (XI (XI
    (XO (XO (XI (XO (XO (XI (XI (XO (XO (XO (XO (XI (XI (XI (XI (XI (XO (XI
    (XI (XI (XI (XO (XI (XO (XO (XI (XO (XI (XI
    XH)))))))))))))))))))))))))))))))) :: ((Npos (XI (XO (XI (XO (XO (XO (XI
    (XI (XO (XI (XI (XO (XI (XI (XI (XI (XI (XI (XO (XI (XI (XI (XO (XI (XI
    (XI (XI XH)))))))))))))))))))))))))))) :: ((Npos (XI (XO (XO (XI (XI (XO
    (XO (XO (XI (XI (XI (XO (XO (XO (XI (XO (XI (XO (XO (XI (XI (XO (XO (XI
    (XO (XI (XO (XI (XI (XO (XO XH)))))))))))))))))))))))))))))))) :: ((Npos
    (XI (XO (XI (XO (XO (XO (XI (XI (XI (XI (XI (XO (XO (XI (XI (XO (XO (XI
    (XO (XO (XI (XO (XI (XO (XI (XI (XO (XO (XI (XO (XO
    XH)))))))))))))))))))))))))))))))) :: ((Npos (XI (XI (XI (XI (XI (XI (XO
    (XO (XI (XO (XI (XI (XI (XO (XI (XI (XO (XO (XO (XI (XO (XO (XI (XI (XI
    (XI (XI (XI (XI (XI (XI XH)))))))))))))))))))))))))))))))) :: ((Npos (XO
    (XO (XI (XI (XO (XI (XI (XI (XI (XI (XI (XI (XO (XO (XI (XO (XO (XI (XO
    (XI (XO (XO (XI (XI (XO (XI (XI (XO (XO
    XH)))))))))))))))))))))))))))))) :: ((Npos (XI (XI (XO (XI (XO (XO (XO
    (XI (XO (XO (XO (XO (XO (XI (XO (XO (XO (XI (XI (XO (XO (XO (XO (XO (XI
    (XI (XI (XO (XO (XO XH))))))))))))))))))))))))))))))) :: ((Npos (XI (XI
    (XI (XO (XI (XI (XO (XO (XO (XI (XI (XO (XI (XO (XI (XI (XO (XI (XI (XO
    (XI (XO (XO (XI (XI (XO (XI (XO (XI (XI (XO
    XH)))))))))))))))))))))))))))))))) :: ((Npos (XI (XI (XO (XO (XO (XO (XO
    (XI (XO (XO (XI (XO (XO (XO (XI (XO (XO (XO (XI (XO (XO (XO (XO (XO (XI
    (XI (XO (XO (XI (XO (XO XH)))))))))))))))))))))))))))))))) :: ((Npos (XO
    (XI (XO (XI (XO (XI (XI (XO (XO (XI (XI (XI (XI (XO (XO (XI (XO (XO (XO
    (XO (XO (XO (XI (XI (XI (XI (XI (XO (XI (XO (XO
    XH)))))))))))))))))))))))))))))))) :: ((Npos (XO (XO (XI (XO (XI (XI (XO
    (XO (XO (XI (XI (XO (XI (XO (XI (XO (XO (XO (XI (XO (XO (XO (XI (XI (XI
    (XO (XO (XI (XI XH)))))))))))))))))))))))))))))) :: ((Npos (XO (XO (XO
    (XI (XI (XI (XO (XO (XI (XO (XO (XO (XI (XO (XI (XI (XO (XO (XI (XI (XI
    (XO (XI (XO (XO (XO (XO (XI (XI (XI
    XH))))))))))))))))))))))))))))))) :: ((Npos (XI (XO (XO (XO (XO (XO (XO
    (XO (XO (XI (XI (XO (XI (XO (XO (XO (XO (XO (XO (XO (XI (XI (XO (XO (XI
    (XI (XI (XO (XO (XO (XO XH)))))))))))))))))))))))))))))))) :: ((Npos (XO
    (XO (XI (XI (XO (XI (XO (XO (XO (XI (XO (XI (XO (XO (XI (XI (XO (XI (XO
    (XO (XI (XI (XO (XI (XI (XO (XI (XO (XO (XO
    XH))))))))))))))))))))))))))))))) :: ((Npos (XI (XO (XO (XI (XO (XO (XO
    (XO (XO (XI (XO (XI (XI (XI (XO (XI (XO (XI (XO (XI (XI (XI (XO (XI (XI
    (XO (XO (XO (XO (XO (XI XH)))))))))))))))))))))))))))))))) :: ((Npos (XI
    (XO (XO (XO (XO (XI (XO (XI (XO (XO (XI (XO (XI (XI (XO (XO (XO (XI (XI
    (XI (XI (XI (XO (XO (XO (XO (XI (XI (XO (XI (XI
    XH)))))))))))))))))))))))))))))))) :: ((Npos (XI (XO (XO (XI (XO (XI (XO
    (XI (XI (XO (XI (XO (XO (XO (XO (XO (XO (XI (XO (XO (XO (XI (XO (XI (XO
    (XO (XO (XI (XI (XO (XO XH)))))))))))))))))))))))))))))))) :: ((Npos (XO
    (XO (XI (XI (XI (XI (XO (XO (XO (XI (XO (XI (XO (XO (XO (XI (XI (XI (XI
    (XI (XO (XO (XI (XO (XO (XI (XI (XO (XI
    XH)))))))))))))))))))))))))))))) :: ((Npos (XI (XO (XO (XI (XO (XI (XO
    (XI (XO (XO (XO (XI (XO (XO (XO (XI (XI (XO (XO (XI (XI (XO (XI (XO (XI
    (XO (XI (XI (XO XH)))))))))))))))))))))))))))))) :: ((Npos (XI (XO (XI
    (XO (XI (XO (XO (XO (XO (XO (XI (XO (XI (XO (XI (XO (XI (XI (XI (XI (XI
    (XI (XO (XI (XO (XO (XI (XO (XI (XO (XI
    XH)))))))))))))))))))))))))))))))) :: ((Npos (XI (XO (XO (XO (XO (XI (XO
    (XO (XI (XO (XI (XO (XI (XO (XO (XO (XO (XO (XI (XI (XO (XI (XO (XO (XO
    (XO (XO (XO (XO (XI (XO XH)))))))))))))))))))))))))))))))) :: ((Npos (XI
    (XO (XO (XI (XO (XO (XI (XI (XI (XI (XO (XO (XO (XI (XO (XI (XO (XI (XO
    (XO (XO (XO (XI (XI (XO (XI (XI (XO
    XH))))))))))))))))))))))))))))) :: ((Npos (XO (XO (XI (XO (XI (XI (XO (XO
    (XI (XI (XO (XI (XI (XO (XI (XI (XI (XI (XO (XI (XO (XO (XI (XI (XI (XI
    (XO (XI (XI (XO (XO XH)))))))))))))))))))))))))))))))) :: ((Npos (XO (XI
    (XO (XO (XI (XO (XI (XO (XO (XO (XO (XI (XI (XI (XO (XI (XO (XI (XO (XO
    (XI (XO (XO (XI (XO (XO (XI (XO (XO (XI (XO
    XH)))))))))))))))))))))))))))))))) :: ((Npos (XI (XI (XI (XI (XO (XO (XI
    (XI (XI (XO (XI (XI (XI (XI (XI (XI (XO (XI (XO (XO (XI (XO (XI (XI (XO
    (XI (XI (XO (XI (XO XH))))))))))))))))))))))))))))))) :: ((Npos (XI (XI
    (XO (XI (XI (XO (XI (XI (XI (XI (XO (XI (XI (XO (XO (XO (XI (XO (XI (XI
    (XO (XI (XO (XI (XO (XO (XI (XO (XI
    XH)))))))))))))))))))))))))))))) :: ((Npos (XO (XI (XI (XI (XI (XI (XI
    (XI (XO (XO (XO (XI (XI (XI (XI (XI (XO (XO (XI (XO (XO (XI (XI (XO (XO
    (XO (XI (XO (XO (XO (XI XH)))))))))))))))))))))))))))))))) :: ((Npos (XI
    (XI (XI (XI (XO (XI (XO (XO (XI (XI (XO (XI (XI (XI (XO (XO (XO (XO (XI
    (XO (XO (XI (XO (XI (XI (XI (XI (XI (XI (XO
    XH))))))))))))))))))))))))))))))) :: ((Npos (XO (XI (XI (XO (XO (XI (XO
    (XO (XO (XI (XI (XO (XO (XI (XI (XO (XI (XO (XI (XO (XI (XO (XI (XO (XO
    (XI (XI (XO (XI (XI XH))))))))))))))))))))))))))))))) :: ((Npos (XI (XI
    (XI (XI (XO (XI (XO (XO (XO (XI (XI (XI (XI (XO (XO (XO (XI (XO (XO (XI
    (XI (XI (XI (XO (XO (XO (XI (XI (XI
    XH)))))))))))))))))))))))))))))) :: ((Npos (XI (XI (XI (XO (XI (XI (XI
    (XO (XI (XO (XI (XO (XI (XO (XO (XI (XI (XI (XO (XI (XO (XI (XI (XO (XO
    (XI (XO (XO (XO (XI (XO XH)))))))))))))))))))))))))))))))) :: ((Npos (XI
    (XI (XO (XO (XI (XO (XO (XO (XI (XO (XO (XO (XI (XO (XI (XO (XO (XI (XO
    (XI (XO (XO (XO (XI (XO (XI (XI (XO (XI (XI (XO
    XH)))))))))))))))))))))))))))))))) :: ((Npos (XI (XO (XI (XI (XI (XI (XI
    (XO (XI (XO (XO (XI (XI (XO (XO (XI (XI (XI (XI (XI (XO (XI (XO (XI (XI
    (XO (XO (XI (XI (XI (XO XH)))))))))))))))))))))))))))))))) :: ((Npos (XO
    (XO (XO (XO (XI (XI (XO (XO (XI (XO (XI (XI (XI (XI (XO (XI (XO (XI (XI
    (XO (XO (XO (XI (XO (XO (XO (XO XH)))))))))))))))))))))))))))) :: ((Npos
    (XI (XO (XI (XI (XO (XO (XI (XI (XI (XI (XO (XO (XO (XI (XO (XI (XO (XI
    (XO (XI (XI (XI (XI (XI (XI (XI (XI (XO (XI (XI (XI
    XH)))))))))))))))))))))))))))))))) :: ((Npos (XO (XI (XO (XI (XO (XI (XI
    (XO (XO (XO (XO (XO (XO (XI (XI (XO (XI (XO (XI (XO (XO (XO (XO (XO (XO
    (XI (XI (XO (XO (XO (XI XH)))))))))))))))))))))))))))))))) :: ((Npos (XO
    (XI (XO (XO (XI (XO (XO (XO (XI (XI (XI (XI (XO (XI (XO (XO (XO (XI (XO
    (XO (XI (XO (XI (XO (XI (XI (XO (XI (XI (XI
    XH))))))))))))))))))))))))))))))) :: ((Npos (XO (XI (XI (XO (XO (XO (XO
    (XO (XO (XI (XI (XI (XI (XI (XI (XI (XI (XO (XI (XO (XI (XI (XI (XI (XI
    (XO (XI (XO (XO (XO (XO XH)))))))))))))))))))))))))))))))) :: ((Npos (XO
    (XI (XO (XI (XI (XI (XO (XI (XI (XI (XI (XI (XI (XI (XI (XO (XO (XO (XO
    (XI (XI (XI (XO (XI (XO (XI (XO (XI (XI (XO (XI
    XH)))))))))))))))))))))))))))))))) :: ((Npos (XI (XI (XI (XI (XO (XI (XI
    (XO (XO (XO (XI (XO (XI (XO (XI (XI (XO (XI (XO (XO (XO (XI (XI (XI (XI
    (XO (XI (XI (XI (XO XH))))))))))))))))))))))))))))))) :: ((Npos (XO (XO
    (XO (XI (XO (XI (XO (XI (XI (XI (XO (XI (XI (XI (XO (XI (XO (XI (XO (XI
    (XI (XO (XI (XO (XI (XO (XO (XO (XI
    XH)))))))))))))))))))))))))))))) :: ((Npos (XI (XI (XO (XI (XI (XO (XI
    (XO (XO (XI (XO (XO (XI (XO (XI (XI (XI (XO (XO (XO (XI (XI (XI (XO (XO
    (XI (XI (XI (XI (XO (XI XH)))))))))))))))))))))))))))))))) :: ((Npos (XO
    (XO (XI (XO (XI (XO (XI (XI (XO (XI (XO (XI (XI (XI (XI (XI (XI (XI (XI
    (XO (XI (XI (XI (XI (XI (XI (XO (XI (XO (XO (XI
    XH)))))))))))))))))))))))))))))))) :: ((Npos (XI (XO (XO (XO (XO (XO (XI
    (XI (XI (XO (XI (XI (XO (XI (XO (XI (XO (XO (XI (XI (XO (XI (XI (XI (XO
    (XO (XO (XI (XO (XO (XI XH)))))))))))))))))))))))))))))))) :: ((Npos (XI
    (XI (XO (XO (XO (XI (XI (XO (XO (XI (XI (XO (XO (XO (XI (XO (XO (XO (XO
    (XO (XI (XO (XI (XI (XO (XI (XI (XI (XO (XI (XI
    XH)))))))))))))))))))))))))))))))) :: ((Npos (XO (XO (XI (XI (XI (XI (XI
    (XO (XO (XI (XO (XI (XO (XI (XI (XI (XI (XO (XO (XI (XO (XI (XI (XO (XO
    (XO (XO (XO (XO XH)))))))))))))))))))))))))))))) :: ((Npos (XI (XI (XO
    (XI (XO (XO (XO (XI (XO (XI (XO (XO (XI (XI (XI (XO (XO (XO (XO (XI (XI
    (XO (XO (XO (XO (XI (XO (XI (XO (XO
    XH))))))))))))))))))))))))))))))) :: ((Npos (XO (XI (XO (XO (XO (XI (XO
    (XO (XI (XO (XI (XO (XI (XI (XO (XO (XO (XI (XI (XO (XO (XI (XO (XO (XO
    (XI (XO (XI (XO (XI (XI XH)))))))))))))))))))))))))))))))) :: ((Npos (XI
    (XO (XI (XO (XI (XI (XI (XI (XI (XI (XO (XI (XO (XO (XO (XO (XO (XI (XO
    (XO (XO (XI (XI (XO (XO (XI (XI (XO (XO (XI (XO
    XH)))))))))))))))))))))))))))))))) :: ((Npos (XO (XO (XO (XI (XI (XO (XI
    (XI (XO (XO (XI (XO (XI (XO (XO (XO (XO (XO (XI (XO (XO (XO (XI (XO (XI
    (XI (XO (XO (XI (XI (XI XH)))))))))))))))))))))))))))))))) :: ((Npos (XI
    (XO (XI (XO (XI (XO (XO (XI (XI (XI (XI (XI (XO (XI (XO (XI (XO (XO (XI
    (XI (XO (XI (XI (XI (XI (XI (XI (XO (XO (XO (XO
    XH)))))))))))))))))))))))))))))))) :: ((Npos (XI (XO (XO (XI (XO (XO (XI
    (XI (XI (XO (XI (XI (XO (XI (XI (XO (XI (XO (XO (XI (XO (XO (XI (XI (XO
    (XO (XI (XO (XI XH)))))))))))))))))))))))))))))) :: ((Npos (XI (XO (XO
    (XO (XO (XO (XO (XO (XO (XO (XO (XO (XI (XO (XI (XO (XO (XI (XI (XI (XI
    (XI (XO (XI (XO (XO (XI (XO (XO
    XH)))))))))))))))))))))))))))))) :: ((Npos (XO (XO (XI (XI (XO (XO (XI
    (XI (XI (XO (XO (XO (XI (XI (XO (XO (XO (XI (XO (XO (XI (XO (XO (XO (XO
    (XI (XI (XI (XI (XI (XO XH)))))))))))))))))))))))))))))))) :: ((Npos (XO
    (XI (XI (XO (XO (XI (XI (XO (XO (XO (XI (XO (XO (XO (XI (XO (XI (XO (XO
    (XI (XI (XI (XO (XI (XI (XO (XI (XO (XO (XI (XO
    XH)))))))))))))))))))))))))))))))) :: ((Npos (XI (XI (XI (XI (XO (XI (XI
    (XI (XO (XI (XO (XI (XO (XO (XI (XI (XI (XO (XO (XI (XI (XI (XI (XO (XI
    (XI (XO (XI (XO (XO (XO XH)))))))))))))))))))))))))))))))) :: ((Npos (XO
    (XO (XO (XI (XI (XO (XO (XO (XI (XI (XO (XO (XI (XO (XI (XO (XI (XI (XI
    (XO (XO (XO (XO (XO (XO (XO (XO (XI (XO (XO
    XH))))))))))))))))))))))))))))))) :: ((Npos (XI (XO (XI (XO (XI (XO (XI
    (XO (XO (XO (XI (XO (XI (XI (XO (XO (XO (XI (XI (XO (XO (XI (XI (XO (XI
    (XI (XI XH)))))))))))))))))))))))))))) :: ((Npos (XO (XO (XO (XO (XO (XO
    (XI (XI (XI (XI (XO (XI (XO (XI (XO (XI (XO (XI (XO (XO (XO (XO (XI (XI
    (XO (XO (XI (XO (XO (XI (XI XH)))))))))))))))))))))))))))))))) :: ((Npos
    (XO (XI (XO (XI (XO (XI (XO (XI (XI (XO (XO (XO (XO (XI (XO (XO (XO (XI
    (XI (XI (XO (XI (XO (XI (XI (XI (XO (XI (XI (XI
    XH))))))))))))))))))))))))))))))) :: ((Npos (XO (XO (XI (XI (XI (XO (XI
    (XO (XI (XI (XO (XO (XO (XO (XO (XI (XO (XO (XI (XO (XI (XO (XO (XI (XI
    (XI (XI (XI (XI (XI (XO XH)))))))))))))))))))))))))))))))) :: ((Npos (XO
    (XI (XI (XI (XI (XO (XO (XI (XI (XO (XI (XI (XI (XI (XO (XO (XI (XO (XI
    (XI (XO (XI (XI (XI (XO (XO (XI (XO (XO (XO (XI
    XH)))))))))))))))))))))))))))))))) :: ((Npos (XO (XO (XI (XO (XO (XO (XI
    (XI (XO (XO (XI (XO (XO (XI (XO (XO (XO (XO (XO (XO (XO (XO (XO (XI (XO
    (XO (XI (XO (XI XH)))))))))))))))))))))))))))))) :: ((Npos (XI (XO (XI
    (XO (XO (XI (XO (XI (XI (XO (XO (XO (XI (XI (XI (XO (XO (XO (XI (XI (XO
    (XO (XI (XI (XO (XO (XO (XO (XI (XO
    XH))))))))))))))))))))))))))))))) :: ((Npos (XO (XO (XI (XI (XI (XI (XI
    (XI (XI (XO (XO (XI (XI (XO (XO (XO (XO (XI (XO (XI (XI (XO (XI (XO (XO
    (XO (XI XH)))))))))))))))))))))))))))) :: ((Npos (XO (XO (XO (XO (XI (XI
    (XI (XO (XO (XI (XI (XO (XO (XO (XO (XI (XO (XI (XO (XI (XO (XO (XI (XO
    (XO (XO (XO (XO (XI (XO (XO XH)))))))))))))))))))))))))))))))) :: ((Npos
    (XO (XO (XO (XI (XO (XI (XI (XO (XO (XO (XI (XI (XI (XI (XO (XI (XO (XO
    (XI (XO (XO (XI (XI (XO (XI (XO (XI (XO
    XH))))))))))))))))))))))))))))) :: ((Npos (XO (XO (XO (XI (XO (XO (XO (XO
    (XI (XO (XO (XI (XI (XI (XI (XI (XI (XO (XO (XI (XO (XI (XI (XO (XO (XO
    (XO (XO (XO (XI XH))))))))))))))))))))))))))))))) :: ((Npos (XO (XI (XI
    (XO (XO (XI (XO (XI (XO (XI (XO (XI (XI (XI (XO (XO (XI (XO (XO (XI (XO
    (XO (XO (XO (XI (XI (XO (XO (XO (XO (XI
    XH)))))))))))))))))))))))))))))))) :: ((Npos (XI (XI (XO (XO (XO (XI (XI
    (XI (XO (XI (XO (XI (XO (XI (XO (XI (XI (XO (XO (XO (XI (XO (XO (XI (XI
    (XO (XO (XI (XO (XI XH))))))))))))))))))))))))))))))) :: ((Npos (XO (XI
    (XO (XI (XI (XI (XI (XI (XI (XO (XO (XI (XI (XO (XO (XO (XI (XI (XI (XO
    (XO (XI (XI (XO (XI (XO (XO (XI (XO (XI (XO
    XH)))))))))))))))))))))))))))))))) :: ((Npos (XO (XO (XO (XI (XI (XI (XI
    (XI (XO (XO (XI (XO (XI (XO (XI (XO (XI (XO (XO (XO (XO (XI (XI (XO (XO
    (XO (XO (XI (XO (XI XH))))))))))))))))))))))))))))))) :: ((Npos (XO (XI
    (XI (XO (XO (XO (XO (XI (XI (XO (XI (XO (XI (XI (XO (XO (XI (XI (XO (XO
    (XI (XI (XO (XI (XO (XO (XI (XO (XI (XO
    XH))))))))))))))))))))))))))))))) :: ((Npos (XI (XO (XO (XI (XO (XO (XO
    (XI (XI (XO (XI (XI (XI (XO (XO (XO (XI (XO (XI (XI (XI (XI (XO (XO (XI
    (XI (XI (XO (XO XH)))))))))))))))))))))))))))))) :: ((Npos (XI (XI (XI
    (XI (XO (XI (XO (XI (XI (XO (XI (XO (XI (XI (XO (XO (XI (XO (XO (XO (XI
    (XO (XO (XI (XI (XI (XO XH)))))))))))))))))))))))))))) :: ((Npos (XI (XO
    (XI (XO (XI (XI (XO (XI (XO (XI (XI (XO (XO (XO (XO (XI (XI (XO (XI (XO
    (XI (XI (XO (XO (XI (XO (XO (XO (XO (XO (XI
    XH)))))))))))))))))))))))))))))))) :: ((Npos (XO (XO (XI (XI (XO (XI (XI
    (XI (XI (XI (XI (XI (XI (XO (XI (XO (XI (XO (XI (XI (XO (XO (XI (XO (XO
    XH)))))))))))))))))))))))))) :: ((Npos (XI (XI (XO (XO (XO (XO (XI (XI
    (XO (XO (XO (XO (XO (XO (XI (XO (XO (XI (XI (XI (XI (XI (XI (XI (XI (XO
    (XO (XO XH))))))))))))))))))))))))))))) :: ((Npos (XI (XI (XO (XI (XO (XI
    (XO (XI (XI (XO (XI (XI (XI (XO (XI (XI (XO (XI (XO (XI (XO (XI (XI (XI
    (XO (XO (XO (XI (XI (XI (XI XH)))))))))))))))))))))))))))))))) :: ((Npos
    (XO (XI (XO (XO (XO (XI (XO (XI (XO (XI (XO (XO (XO (XI (XO (XI (XO (XO
    (XO (XI (XI (XI (XO (XI (XI (XO (XO (XO
    XH))))))))))))))))))))))))))))) :: ((Npos (XI (XO (XO (XO (XO (XO (XO (XI
    (XI (XO (XI (XO (XO (XO (XI (XO (XO (XO (XI (XI (XO (XI (XI (XO (XI (XI
    (XI (XI (XI (XI XH))))))))))))))))))))))))))))))) :: ((Npos (XI (XO (XI
    (XI (XO (XO (XO (XO (XO (XO (XO (XI (XI (XI (XO (XI (XI (XO (XI (XO (XI
    (XO (XO (XI (XI (XO (XO (XI (XI (XO
    XH))))))))))))))))))))))))))))))) :: ((Npos (XO (XI (XI (XI (XO (XI (XI
    (XO (XO (XI (XI (XI (XI (XI (XO (XO (XO (XI (XI (XO (XI (XI (XO (XI (XO
    (XI (XO (XI (XI (XO (XI XH)))))))))))))))))))))))))))))))) :: ((Npos (XO
    (XO (XI (XI (XO (XI (XI (XO (XI (XI (XO (XI (XO (XO (XO (XO (XO (XO (XI
    (XI (XI (XI (XO (XO (XO (XI (XI (XI (XI (XO (XI
    XH)))))))))))))))))))))))))))))))) :: ((Npos (XO (XI (XO (XO (XO (XO (XO
    (XO (XI (XO (XI (XO (XO (XO (XO (XI (XO (XO (XI (XI (XI (XI (XI (XI (XI
    (XO (XI XH)))))))))))))))))))))))))))) :: ((Npos (XI (XO (XO (XI (XO (XO
    (XO (XI (XI (XI (XO (XO (XI (XI (XO (XI (XO (XO (XO (XO (XI (XI (XI (XI
    (XI (XI (XO (XO (XO (XO (XO XH)))))))))))))))))))))))))))))))) :: ((Npos
    (XO (XO (XI (XO (XI (XO (XI (XO (XI (XI (XI (XO (XO (XO (XI (XO (XI (XI
    (XI (XI (XI (XI (XI (XI (XO (XI (XO (XO (XO (XI (XO
    XH)))))))))))))))))))))))))))))))) :: ((Npos (XO (XI (XI (XO (XO (XO (XO
    (XI (XO (XI (XI (XI (XO (XI (XO (XO (XO (XI (XI (XO (XI (XO (XI (XO (XI
    (XI (XO (XO (XO (XO XH))))))))))))))))))))))))))))))) :: ((Npos (XI (XI
    (XI (XI (XI (XO (XI (XO (XO (XI (XI (XO (XI (XI (XO (XO (XO (XO (XI (XI
    (XI (XI (XI (XI (XI (XO (XI (XI (XI (XI (XO
    XH)))))))))))))))))))))))))))))))) :: ((Npos (XI (XI (XO (XO (XI (XI (XI
    (XO (XO (XI (XO (XI (XI (XO (XO (XI (XI (XI (XO (XI (XO (XI (XI (XO (XO
    (XI (XO (XI (XO (XI (XO XH)))))))))))))))))))))))))))))))) :: ((Npos (XI
    (XI (XO (XI (XI (XI (XO (XI (XI (XO (XO (XO (XI (XO (XO (XI (XO (XI (XO
    (XO (XO (XO (XI (XI (XI (XI (XO (XO (XO (XO (XI
    XH)))))))))))))))))))))))))))))))) :: ((Npos (XO (XO (XI (XI (XI (XI (XO
    (XO (XI (XO (XO (XI (XO (XI (XI (XO (XI (XO (XI (XI (XO (XI (XO (XI (XI
    (XI (XO (XO (XO (XI (XI XH)))))))))))))))))))))))))))))))) :: ((Npos (XI
    (XO (XI (XI (XO (XO (XI (XI (XO (XO (XI (XI (XO (XO (XO (XI (XI (XI (XO
    (XI (XO (XO (XO (XO (XO (XO (XI (XO (XI (XO (XI
    XH)))))))))))))))))))))))))))))))) :: ((Npos (XO (XO (XI (XI (XO (XI (XO
    (XI (XO (XI (XI (XI (XO (XO (XO (XO (XI (XI (XI (XI (XO (XI (XI (XI (XO
    (XI (XO (XI XH))))))))))))))))))))))))))))) :: ((Npos (XI (XO (XO (XO (XI
    (XO (XI (XO (XI (XO (XI (XO (XI (XO (XO (XO (XI (XI (XI (XI (XI (XI (XO
    (XI (XI (XI (XI (XO (XO (XI XH))))))))))))))))))))))))))))))) :: ((Npos
    (XI (XO (XI (XI (XO (XI (XO (XO (XO (XI (XI (XI (XI (XO (XI (XO (XO (XI
    (XI (XO (XO (XI (XO (XO (XO (XI (XI (XO (XI (XO (XI
    XH)))))))))))))))))))))))))))))))) :: ((Npos (XI (XO (XO (XI (XO (XO (XO
    (XO (XI (XI (XO (XO (XI (XO (XI (XI (XI (XI (XO (XO (XO (XI (XI (XI (XI
    (XO (XI (XO (XO (XI XH))))))))))))))))))))))))))))))) :: ((Npos (XI (XI
    (XO (XI (XO (XI (XI (XI (XO (XO (XI (XI (XO (XO (XO (XO (XO (XI (XI (XO
    (XI (XI (XO (XI (XO (XO (XI (XI (XI (XO (XI
    XH)))))))))))))))))))))))))))))))) :: ((Npos (XO (XO (XO (XO (XO (XI (XO
    (XI (XI (XO (XO (XI (XO (XI (XO (XI (XO (XI (XO (XI (XI (XO (XO (XI (XO
    (XI (XO (XO (XI (XO (XI XH)))))))))))))))))))))))))))))))) :: ((Npos (XI
    (XO (XO (XI (XO (XO (XI (XO (XI (XO (XO (XO (XO (XO (XI (XI (XI (XO (XO
    (XI (XI (XO (XI (XI (XI (XO (XO (XO (XO (XI
    XH))))))))))))))))))))))))))))))) :: ((Npos (XO (XI (XO (XO (XI (XI (XI
    (XI (XO (XI (XO (XI (XO (XI (XO (XI (XO (XO (XO (XO (XI (XI (XO (XI (XO
    (XI (XO XH)))))))))))))))))))))))))))) :: ((Npos (XO (XO (XO (XO (XI (XI
    (XO (XI (XO (XI (XO (XI (XI (XO (XI (XI (XI (XI (XO (XO (XO (XI (XI (XI
    (XI (XO (XI (XI (XO (XO (XO XH)))))))))))))))))))))))))))))))) :: ((Npos
    (XO (XO (XO (XO (XO (XO (XI (XO (XO (XO (XO (XI (XI (XO (XO (XO (XI (XO
    (XI (XI (XI (XO (XO (XI (XO (XI (XO (XI (XO (XI (XI
    XH)))))))))))))))))))))))))))))))) :: ((Npos (XO (XO (XI (XI (XO (XO (XO
    (XO (XO (XO (XI (XI (XO (XO (XO (XI (XO (XO (XO (XI (XO (XI (XO (XI (XI
    (XI (XO (XI (XI (XO (XI XH)))))))))))))))))))))))))))))))) :: ((Npos (XO
    (XO (XO (XI (XI (XI (XO (XO (XO (XI (XI (XO (XI (XO (XO (XI (XO (XO (XO
    (XO (XO (XI (XO (XO (XO (XO (XI (XI (XI (XI (XO
    XH)))))))))))))))))))))))))))))))) :: ((Npos (XI (XO (XI (XO (XI (XO (XI
    (XI (XO (XI (XI (XI (XI (XI (XO (XI (XI (XO (XI (XO (XO (XO (XO (XI (XO
    (XI (XI (XI (XO (XI XH))))))))))))))))))))))))))))))) :: ((Npos (XI (XI
    (XO (XI (XI (XI (XO (XO (XI (XO (XI (XI (XO (XI (XO (XO (XI (XO (XO (XO
    (XI (XO (XO (XI (XO (XI (XO (XI (XO (XI (XO
    XH)))))))))))))))))))))))))))))))) :: ((Npos (XO (XI (XO (XO (XO (XI (XI
    (XI (XI (XO (XI (XI (XI (XI (XO (XO (XI (XI (XI (XO (XI (XO (XI (XO (XI
    (XO (XI (XI (XI (XI (XO XH)))))))))))))))))))))))))))))))) :: ((Npos (XO
    (XI (XO (XO (XO (XI (XI (XI (XO (XO (XO (XI (XI (XO (XI (XI (XI (XO (XO
    (XO (XO (XO (XI (XI (XI (XO (XO (XO (XI
    XH)))))))))))))))))))))))))))))) :: ((Npos (XI (XI (XI (XI (XO (XO (XI
    (XI (XO (XI (XI (XI (XO (XO (XO (XO (XO (XO (XO (XO (XO (XO (XI (XI (XI
    (XI (XO (XO XH))))))))))))))))))))))))))))) :: ((Npos (XI (XI (XI (XO (XI
    (XI (XO (XO (XI (XI (XO (XO (XO (XI (XI (XI (XI (XO (XI (XI (XI (XO (XI
    (XI (XO (XI (XI (XI XH))))))))))))))))))))))))))))) :: ((Npos (XO (XO (XI
    (XO (XI (XI (XO (XO (XO (XO (XO (XI (XO (XO (XO (XI (XI (XI (XO (XI (XO
    (XI (XI (XO (XI (XI (XO (XO (XI (XI (XO
    XH)))))))))))))))))))))))))))))))) :: ((Npos (XI (XO (XO (XO (XI (XO (XI
    (XI (XO (XI (XI (XI (XO (XO (XO (XO (XO (XO (XI (XI (XO (XI (XO (XO (XI
    (XI (XI (XI (XO (XI (XI XH)))))))))))))))))))))))))))))))) :: ((Npos (XI
    (XI (XO (XI (XO (XI (XI (XI (XO (XI (XO (XI (XI (XO (XO (XI (XI (XI (XI
    (XO (XO (XI (XO (XO (XO (XO (XI (XO (XO (XO (XO
    XH)))))))))))))))))))))))))))))))) :: ((Npos (XI (XO (XO (XO (XO (XI (XO
    (XO (XI (XI (XI (XO (XO (XI (XI (XO (XO (XI (XI (XI (XO (XI (XI (XI (XI
    (XI (XI (XI (XI (XO (XI XH)))))))))))))))))))))))))))))))) :: ((Npos (XO
    (XI (XI (XI (XI (XO (XI (XI (XO (XI (XO (XO (XO (XO (XI (XI (XO (XO (XI
    (XO (XI (XI (XI (XO (XI (XI (XI (XO (XI (XI (XO
    XH)))))))))))))))))))))))))))))))) :: ((Npos (XI (XI (XI (XI (XI (XI (XI
    (XI (XO (XO (XI (XI (XI (XI (XO (XI (XO (XO (XI (XI (XI (XI (XI (XO (XO
    (XI (XO (XI (XI (XI XH))))))))))))))))))))))))))))))) :: ((Npos (XI (XO
    (XO (XI (XI (XI (XO (XO (XI (XI (XI (XO (XI (XO (XO (XO (XI (XI (XO (XI
    (XO (XI (XO (XI (XI (XI (XI (XO (XI (XI (XO
    XH)))))))))))))))))))))))))))))))) :: ((Npos (XO (XO (XI (XI (XI (XO (XO
    (XI (XI (XO (XO (XO (XI (XO (XO (XO (XI (XI (XI (XI (XO (XI (XO (XO (XO
    (XO (XO (XI (XO (XI (XI XH)))))))))))))))))))))))))))))))) :: ((Npos (XI
    (XI (XI (XO (XO (XO (XI (XO (XO (XO (XI (XO (XO (XO (XI (XI (XI (XI (XO
    (XO (XO (XO (XO (XO (XO (XO (XI (XO (XO (XO
    XH))))))))))))))))))))))))))))))) :: ((Npos (XI (XO (XI (XI (XI (XI (XO
    (XI (XI (XO (XI (XI (XI (XO (XI (XI (XO (XI (XO (XO (XO (XI (XO (XI (XI
    (XO (XI (XI (XO (XO (XO XH)))))))))))))))))))))))))))))))) :: ((Npos (XI
    (XI (XI (XI (XO (XO (XI (XO (XI (XO (XO (XI (XO (XO (XI (XO (XI (XI (XO
    (XO (XI (XO (XO (XI (XO (XO (XI (XI (XI (XO (XO
    XH)))))))))))))))))))))))))))))))) :: ((Npos (XO (XO (XI (XO (XO (XI (XI
    (XI (XO (XO (XI (XI (XO (XI (XO (XI (XI (XO (XI (XO (XO (XO (XI (XO (XO
    (XO (XO (XI (XI (XO (XO XH)))))))))))))))))))))))))))))))) :: ((Npos (XI
    (XO (XI (XI (XI (XI (XI (XO (XI (XI (XI (XO (XI (XO (XI (XO (XO (XI (XO
    (XI (XO (XI (XI (XI (XI (XI (XI (XO
    XH))))))))))))))))))))))))))))) :: ((Npos (XO (XI (XO (XO (XO (XO (XO (XO
    (XO (XO (XO (XI (XI (XO (XO (XI (XO (XI (XI (XO (XO (XO (XO (XO (XI (XI
    (XI (XO (XI (XO XH))))))))))))))))))))))))))))))) :: ((Npos (XO (XO (XO
    (XO (XI (XI (XI (XO (XI (XO (XI (XI (XI (XI (XO (XI (XO (XI (XO (XI (XO
    (XI (XI (XO (XO (XO (XO (XI (XO
    XH)))))))))))))))))))))))))))))) :: ((Npos (XI (XO (XO (XO (XI (XO (XO
    (XO (XO (XO (XO (XI (XI (XI (XI (XO (XO (XI (XO (XI (XI (XI (XI (XO (XI
    (XI (XI (XI (XI XH)))))))))))))))))))))))))))))) :: ((Npos (XO (XO (XO
    (XI (XI (XO (XI (XI (XO (XO (XI (XO (XO (XI (XO (XO (XI (XO (XI (XO (XI
    (XO (XO (XO (XO (XO (XO (XI (XI
    XH)))))))))))))))))))))))))))))) :: ((Npos (XO (XO (XI (XI (XO (XI (XO
    (XO (XO (XI (XO (XO (XO (XO (XO (XO (XO (XI (XI (XI (XI (XI (XO (XI (XI
    (XI (XO (XO (XO (XI XH))))))))))))))))))))))))))))))) :: ((Npos (XI (XI
    (XI (XO (XI (XI (XI (XO (XO (XO (XO (XI (XI (XO (XO (XO (XO (XI (XI (XO
    (XO (XO (XO (XI (XI (XI (XI (XI XH))))))))))))))))))))))))))))) :: ((Npos
    (XO (XI (XI (XO (XI (XI (XI (XO (XO (XI (XI (XO (XO (XI (XI (XO (XI (XI
    (XO (XO (XI (XO (XO (XO (XO (XI (XI (XO (XO (XI
    XH))))))))))))))))))))))))))))))) :: ((Npos (XO (XO (XI (XO (XI (XO (XO
    (XI (XI (XI (XO (XI (XI (XO (XO (XI (XO (XO (XO (XI (XI (XO (XI (XO (XO
    (XO (XO (XI (XI (XO (XI XH)))))))))))))))))))))))))))))))) :: ((Npos (XI
    (XI (XI (XO (XI (XI (XO (XI (XO (XO (XO (XO (XO (XI (XO (XO (XO (XI (XI
    (XO (XI (XI (XI (XI (XO (XO (XO (XO (XI (XO
    XH))))))))))))))))))))))))))))))) :: [])))))))))))))))))))))))))))))))))))))))))))))))))))))))))))))))))))))))))))))))))))))))))))))))))))))))))))))))))))))))))))))))))))))))))))))))))))))))))))))))))))))))))))))))))))))))))))))))))))))))))))))))))))))))))))))))))))))))))))))))))))))))))))))))

(** val v1 : n list **)

let v1 =
  (Npos (XI (XO (XI (XO (XO (XO (XI (XO (XI (XO (XO (XI (XI (XI (XO (XI (XI
    (XI (XI (XI (XI (XO (XO (XO (XO (XO (XO (XO (XI
    XH)))))))))))))))))))))))))))))) :: ((Npos (XI (XI (XI (XO (XO (XO (XI
    (XI (XO (XI (XO (XO (XI (XO (XI (XI (XO (XI (XI (XO (XO (XO (XI (XI (XI
    (XO (XO (XI (XI (XI XH))))))))))))))))))))))))))))))) :: ((Npos (XO (XO
    (XI (XO (XO (XI (XI (XI (XO (XI (XO (XO (XO (XO (XI (XI (XO (XI (XO (XO
    (XO (XI (XI (XI (XO (XI (XI (XO (XO (XO (XI
    XH)))))))))))))))))))))))))))))))) :: ((Npos (XI (XO (XO (XI (XO (XI (XI
    (XI (XO (XI (XI (XI (XO (XO (XO (XI (XO (XO (XI (XI (XI (XO (XO (XI (XI
    (XO (XI (XI (XO (XO XH))))))))))))))))))))))))))))))) :: ((Npos (XI (XI
    (XO (XI (XI (XI (XO (XO (XO (XO (XI (XI (XO (XO (XI (XI (XO (XO (XO (XO
    (XI (XO (XI (XI (XI (XI (XI (XO (XO (XO (XO
    XH)))))))))))))))))))))))))))))))) :: ((Npos (XO (XO (XI (XI (XO (XI (XI
    (XI (XI (XI (XO (XI (XI (XI (XO (XO (XI (XI (XI (XI (XI (XI (XO (XO (XO
    (XO (XO (XO (XO XH)))))))))))))))))))))))))))))) :: ((Npos (XO (XI (XI
    (XI (XO (XI (XO (XO (XI (XO (XO (XI (XO (XI (XI (XO (XO (XO (XO (XI (XO
    (XI (XI (XO (XO (XO (XI (XO (XO (XI
    XH))))))))))))))))))))))))))))))) :: ((Npos (XO (XI (XI (XO (XI (XO (XI
    (XI (XI (XI (XI (XO (XI (XO (XO (XO (XI (XI (XI (XO (XI (XI (XO (XO (XO
    (XI (XI (XO XH))))))))))))))))))))))))))))) :: ((Npos (XI (XO (XI (XI (XI
    (XO (XI (XI (XI (XO (XI (XI (XO (XI (XO (XI (XI (XI (XO (XI (XI (XO (XO
    (XO (XI (XO (XO (XO (XI (XO (XI
    XH)))))))))))))))))))))))))))))))) :: ((Npos (XI (XO (XI (XO (XI (XO (XO
    (XI (XI (XO (XO (XO (XI (XO (XI (XI (XO (XI (XI (XO (XO (XI (XI (XO (XI
    (XO (XO (XI (XO (XI XH))))))))))))))))))))))))))))))) :: ((Npos (XO (XO
    (XI (XI (XI (XO (XI (XO (XO (XO (XI (XI (XO (XO (XO (XI (XI (XO (XO (XI
    (XI (XI (XO (XI (XI (XI (XO (XI (XO (XO
    XH))))))))))))))))))))))))))))))) :: ((Npos (XO (XI (XI (XI (XI (XO (XO
    (XO (XO (XO (XI (XO (XI (XO (XO (XO (XI (XI (XI (XO (XO (XI (XO (XO (XI
    (XI (XO (XI (XI (XO (XO XH)))))))))))))))))))))))))))))))) :: ((Npos (XI
    (XO (XO (XI (XO (XO (XO (XO (XI (XI (XO (XI (XO (XI (XO (XO (XI (XI (XI
    (XO (XO (XI (XO (XO (XO (XI (XO (XI (XI (XI
    XH))))))))))))))))))))))))))))))) :: ((Npos (XI (XI (XO (XI (XI (XO (XI
    (XO (XO (XI (XI (XI (XO (XI (XI (XO (XO (XI (XO (XO (XI (XI (XI (XI (XI
    (XI (XI (XO (XO (XI (XI XH)))))))))))))))))))))))))))))))) :: ((Npos (XI
    (XO (XO (XI (XI (XI (XI (XO (XO (XI (XO (XO (XO (XI (XI (XO (XI (XI (XO
    (XO (XI (XO (XI (XO (XO (XO (XO (XO (XO (XO (XO
    XH)))))))))))))))))))))))))))))))) :: ((Npos (XI (XO (XO (XO (XI (XO (XI
    (XO (XO (XI (XO (XO (XO (XO (XI (XO (XO (XI (XO (XO (XO (XO (XI (XO (XI
    (XO (XI (XO (XI (XI (XI XH)))))))))))))))))))))))))))))))) :: ((Npos (XO
    (XI (XI (XO (XI (XO (XO (XO (XI (XI (XO (XI (XO (XO (XO (XI (XO (XO (XI
    (XI (XO (XO (XO (XI (XO (XI (XI (XO (XI
    XH)))))))))))))))))))))))))))))) :: ((Npos (XO (XI (XI (XI (XI (XO (XO
    (XI (XO (XO (XI (XO (XO (XO (XO (XI (XI (XO (XI (XI (XO (XO (XI (XI (XI
    (XI (XI (XI (XI (XO (XI XH)))))))))))))))))))))))))))))))) :: ((Npos (XO
    (XI (XO (XO (XI (XO (XO (XO (XI (XI (XI (XO (XI (XO (XI (XI (XO (XO (XO
    (XO (XO (XO (XI (XI (XI (XO (XO (XI (XO
    XH)))))))))))))))))))))))))))))) :: ((Npos (XI (XO (XO (XI (XO (XO (XO
    (XI (XI (XI (XO (XO (XO (XO (XO (XO (XI (XO (XI (XI (XO (XO (XO (XO (XI
    (XI (XI (XI (XI (XI XH))))))))))))))))))))))))))))))) :: ((Npos (XO (XI
    (XI (XO (XI (XO (XI (XO (XO (XO (XI (XI (XI (XO (XI (XO (XO (XO (XI (XO
    (XO (XO (XO (XO (XO (XI (XI (XI (XO (XO
    XH))))))))))))))))))))))))))))))) :: ((Npos (XO (XI (XI (XO (XO (XI (XI
    (XO (XO (XO (XI (XO (XO (XI (XO (XI (XO (XO (XO (XO (XO (XI (XI (XO (XI
    (XO (XI XH)))))))))))))))))))))))))))) :: ((Npos (XI (XI (XI (XO (XO (XO
    (XO (XI (XO (XI (XO (XO (XI (XI (XI (XO (XI (XO (XO (XO (XI (XO (XI (XO
    (XO (XI (XO (XO (XI (XI (XI XH)))))))))))))))))))))))))))))))) :: ((Npos
    (XO (XO (XO (XI (XI (XO (XI (XI (XO (XI (XO (XO (XO (XI (XO (XI (XI (XO
    (XO (XO (XO (XI (XI (XI (XO (XO (XO (XI (XI (XO (XI
    XH)))))))))))))))))))))))))))))))) :: ((Npos (XO (XO (XO (XI (XI (XO (XO
    (XI (XI (XI (XO (XO (XO (XI (XI (XO (XI (XO (XO (XI (XI (XO (XO (XO (XO
    (XO (XI (XO (XO (XI XH))))))))))))))))))))))))))))))) :: ((Npos (XO (XI
    (XO (XI (XO (XO (XI (XO (XO (XO (XI (XI (XO (XI (XO (XO (XO (XI (XI (XO
    (XO (XO (XO (XI (XO (XO (XI (XI (XO (XO (XI
    XH)))))))))))))))))))))))))))))))) :: ((Npos (XI (XO (XO (XO (XI (XO (XO
    (XI (XI (XO (XO (XI (XI (XI (XI (XO (XO (XI (XO (XO (XI (XO (XO (XO (XO
    (XI (XO (XI (XO (XI XH))))))))))))))))))))))))))))))) :: ((Npos (XO (XI
    (XI (XI (XI (XO (XO (XI (XI (XO (XO (XO (XO (XO (XO (XI (XI (XO (XI (XO
    (XO (XI (XI (XI (XO (XI (XI (XO (XI (XI (XO
    XH)))))))))))))))))))))))))))))))) :: ((Npos (XI (XO (XI (XO (XI (XI (XO
    (XO (XI (XO (XO (XI (XI (XI (XI (XO (XI (XO (XO (XO (XO (XI (XI (XI (XO
    (XO (XI (XO (XI (XO XH))))))))))))))))))))))))))))))) :: ((Npos (XO (XO
    (XO (XO (XI (XO (XO (XO (XO (XO (XI (XI (XO (XI (XO (XO (XI (XO (XO (XI
    (XI (XO (XO (XI (XI (XO (XI (XI (XI
    XH)))))))))))))))))))))))))))))) :: ((Npos (XI (XO (XI (XO (XI (XI (XO
    (XI (XO (XI (XI (XO (XO (XI (XO (XO (XO (XO (XI (XI (XO (XI (XI (XO (XI
    (XO (XO (XO (XI (XI (XI XH)))))))))))))))))))))))))))))))) :: ((Npos (XI
    (XO (XO (XO (XI (XI (XO (XI (XI (XI (XO (XI (XI (XO (XO (XO (XO (XO (XI
    (XO (XI (XO (XI (XI (XO (XO (XI (XO (XO (XO (XI
    XH)))))))))))))))))))))))))))))))) :: ((Npos (XI (XO (XI (XO (XI (XI (XO
    (XO (XO (XI (XO (XI (XI (XO (XI (XI (XI (XO (XO (XO (XI (XO (XO (XO (XI
    (XO (XO (XI XH))))))))))))))))))))))))))))) :: ((Npos (XI (XI (XO (XO (XO
    (XI (XO (XO (XO (XO (XI (XO (XO (XO (XO (XO (XI (XO (XO (XI (XI (XI (XI
    (XI (XO (XI (XO (XI (XO (XI (XO
    XH)))))))))))))))))))))))))))))))) :: ((Npos (XO (XI (XO (XI (XO (XI (XO
    (XI (XO (XO (XO (XO (XO (XO (XO (XO (XO (XO (XI (XO (XI (XO (XO (XI (XO
    (XI (XO (XO XH))))))))))))))))))))))))))))) :: ((Npos (XI (XI (XI (XO (XI
    (XO (XO (XO (XO (XI (XO (XO (XO (XO (XI (XI (XO (XO (XO (XO (XI (XI (XI
    (XO (XI (XI (XI XH)))))))))))))))))))))))))))) :: ((Npos (XI (XO (XI (XI
    (XO (XI (XI (XI (XO (XI (XO (XI (XO (XI (XO (XI (XI (XI (XO (XO (XI (XO
    (XI (XI (XI (XO (XO (XO (XI (XI (XI
    XH)))))))))))))))))))))))))))))))) :: ((Npos (XO (XO (XO (XO (XI (XO (XI
    (XO (XO (XI (XO (XO (XI (XI (XO (XO (XO (XI (XI (XO (XO (XI (XI (XI (XI
    (XO (XI (XI (XI (XO XH))))))))))))))))))))))))))))))) :: ((Npos (XI (XO
    (XO (XI (XO (XO (XI (XO (XO (XO (XO (XO (XO (XO (XO (XI (XO (XI (XI (XI
    (XO (XI (XI (XO (XI (XI (XI (XO (XI (XI (XI
    XH)))))))))))))))))))))))))))))))) :: ((Npos (XO (XO (XO (XI (XI (XI (XO
    (XO (XI (XI (XI (XO (XO (XO (XI (XO (XO (XI (XO (XO (XI (XO (XO (XI (XO
    (XI XH))))))))))))))))))))))))))) :: ((Npos (XI (XO (XO (XO (XO (XO (XO
    (XO (XO (XI (XO (XO (XO (XI (XO (XO (XI (XO (XO (XI (XI (XI (XO (XO (XI
    (XI (XO (XO (XI (XI (XO XH)))))))))))))))))))))))))))))))) :: ((Npos (XI
    (XO (XI (XO (XI (XO (XO (XO (XI (XI (XO (XO (XI (XO (XI (XI (XO (XO (XI
    (XI (XO (XI (XI (XI (XI (XI (XI (XI (XI (XI (XI
    XH)))))))))))))))))))))))))))))))) :: ((Npos (XO (XO (XI (XI (XI (XI (XI
    (XO (XI (XI (XI (XI (XO (XI (XI (XI (XO (XO (XO (XO (XI (XI (XO (XI (XO
    (XO (XO (XO (XI (XO (XI XH)))))))))))))))))))))))))))))))) :: ((Npos (XI
    (XI (XO (XI (XI (XI (XO (XI (XO (XI (XO (XO (XO (XI (XI (XO (XO (XO (XI
    (XI (XI (XI (XI (XO (XI (XI (XO (XI (XI
    XH)))))))))))))))))))))))))))))) :: ((Npos (XI (XI (XI (XO (XO (XI (XI
    (XI (XO (XO (XO (XI (XO (XO (XO (XI (XO (XI (XO (XO (XO (XO (XI (XI (XI
    (XO (XI (XI XH))))))))))))))))))))))))))))) :: ((Npos (XO (XI (XI (XO (XI
    (XI (XI (XO (XI (XI (XI (XI (XO (XI (XO (XI (XI (XO (XI (XI (XI (XO (XI
    (XI (XI (XI (XI (XO (XO (XO XH))))))))))))))))))))))))))))))) :: ((Npos
    (XI (XO (XO (XO (XO (XO (XO (XI (XO (XI (XO (XO (XO (XI (XO (XI (XI (XO
    (XI (XO (XO (XI (XO (XI (XO (XI (XO (XO (XI (XI (XO
    XH)))))))))))))))))))))))))))))))) :: ((Npos (XI (XO (XI (XO (XI (XO (XO
    (XI (XO (XI (XI (XI (XI (XI (XI (XI (XI (XI (XO (XI (XO (XI (XO (XO (XO
    (XI (XI (XO (XO XH)))))))))))))))))))))))))))))) :: ((Npos (XI (XI (XI
    (XO (XI (XO (XO (XI (XI (XO (XO (XI (XI (XI (XO (XI (XO (XI (XO (XO (XI
    (XI (XI (XO (XI (XO (XI (XO (XI (XI (XO
    XH)))))))))))))))))))))))))))))))) :: ((Npos (XI (XI (XI (XI (XI (XI (XO
    (XI (XI (XI (XI (XI (XO (XO (XI (XO (XO (XI (XO (XO (XO (XO (XO (XO (XI
    (XO (XI (XI XH))))))))))))))))))))))))))))) :: ((Npos (XO (XI (XI (XI (XI
    (XO (XI (XO (XO (XI (XO (XO (XO (XI (XI (XI (XO (XI (XO (XO (XO (XI (XO
    (XO (XO (XO (XO (XO (XO (XI (XO
    XH)))))))))))))))))))))))))))))))) :: ((Npos (XI (XO (XO (XO (XO (XO (XO
    (XO (XO (XI (XO (XO (XI (XO (XO (XI (XI (XO (XO (XI (XI (XI (XO (XI (XO
    (XI (XI (XI (XO (XO (XO XH)))))))))))))))))))))))))))))))) :: ((Npos (XI
    (XO (XI (XI (XO (XI (XO (XI (XO (XI (XO (XI (XI (XI (XI (XO (XI (XO (XI
    (XI (XO (XO (XI (XO (XO (XI (XI (XO (XI (XO (XO
    XH)))))))))))))))))))))))))))))))) :: ((Npos (XI (XI (XO (XO (XO (XO (XO
    (XO (XI (XO (XO (XI (XI (XO (XI (XI (XO (XI (XO (XI (XI (XI (XI (XI (XO
    XH)))))))))))))))))))))))))) :: ((Npos (XI (XI (XO (XI (XO (XI (XO (XO
    (XI (XI (XO (XI (XO (XO (XO (XO (XI (XO (XI (XI (XI (XO (XO (XO (XI (XO
    (XI (XO (XO (XI (XI XH)))))))))))))))))))))))))))))))) :: ((Npos (XO (XO
    (XI (XI (XO (XI (XI (XI (XO (XO (XI (XI (XO (XO (XI (XI (XI (XI (XI (XO
    (XO (XI (XI (XO (XO (XI (XO (XI (XI (XI (XI
    XH)))))))))))))))))))))))))))))))) :: ((Npos (XO (XI (XI (XO (XI (XO (XO
    (XI (XI (XO (XO (XI (XI (XI (XO (XO (XO (XI (XO (XI (XO (XO (XI (XI (XO
    (XO (XO (XI XH))))))))))))))))))))))))))))) :: ((Npos (XI (XO (XO (XI (XO
    (XO (XI (XO (XO (XI (XO (XO (XI (XI (XI (XO (XO (XI (XI (XO (XO (XI (XO
    (XO XH))))))))))))))))))))))))) :: ((Npos (XI (XI (XI (XO (XI (XO (XI (XO
    (XO (XO (XO (XO (XI (XO (XO (XO (XI (XI (XO (XO (XI (XI (XO (XO (XI (XI
    (XI (XI (XO (XO (XO XH)))))))))))))))))))))))))))))))) :: ((Npos (XO (XI
    (XI (XI (XI (XO (XO (XI (XI (XO (XO (XI (XI (XO (XI (XI (XI (XO (XO (XO
    (XO (XI (XI (XO (XI (XI (XI (XI (XI (XI
    XH))))))))))))))))))))))))))))))) :: ((Npos (XO (XO (XI (XO (XO (XO (XO
    (XO (XO (XO (XO (XO (XI (XO (XI (XI (XO (XO (XI (XO (XI (XI (XI (XI (XI
    (XI (XI (XO (XO (XI XH))))))))))))))))))))))))))))))) :: ((Npos (XI (XO
    (XI (XO (XO (XO (XI (XI (XO (XI (XO (XO (XI (XO (XO (XI (XI (XO (XO (XO
    (XI (XO (XO (XI (XO (XI (XO (XO (XO
    XH)))))))))))))))))))))))))))))) :: ((Npos (XO (XO (XO (XI (XO (XI (XO
    (XI (XI (XI (XO (XO (XO (XO (XI (XO (XO (XO (XI (XO (XI (XI (XI (XO (XI
    (XO (XO (XI (XI (XI XH))))))))))))))))))))))))))))))) :: ((Npos (XO (XI
    (XO (XI (XO (XI (XO (XO (XI (XI (XO (XO (XO (XI (XO (XO (XI (XI (XO (XI
    (XO (XO (XI (XI (XO (XI (XO (XO (XI
    XH)))))))))))))))))))))))))))))) :: ((Npos (XI (XO (XO (XO (XO (XO (XI
    (XO (XI (XO (XO (XI (XI (XI (XI (XI (XO (XI (XO (XO (XI (XO (XI (XI (XI
    (XI (XI (XI (XI (XO (XO XH)))))))))))))))))))))))))))))))) :: ((Npos (XO
    (XI (XI (XI (XI (XI (XI (XO (XI (XO (XO (XI (XO (XI (XO (XO (XO (XI (XO
    (XI (XO (XI (XI (XO (XO (XI (XI (XI (XI
    XH)))))))))))))))))))))))))))))) :: ((Npos (XO (XO (XO (XO (XI (XI (XI
    (XI (XO (XO (XI (XI (XI (XO (XI (XO (XO (XO (XO (XO (XO (XO (XI (XI (XI
    (XO (XO (XO (XI (XI (XO XH)))))))))))))))))))))))))))))))) :: ((Npos (XO
    (XI (XI (XI (XO (XI (XI (XI (XO (XO (XO (XI (XI (XO (XI (XI (XI (XO (XO
    (XO (XO (XO (XI (XO (XO (XI (XI (XO (XI
    XH)))))))))))))))))))))))))))))) :: ((Npos (XO (XO (XO (XI (XO (XO (XI
    (XI (XO (XO (XO (XI (XI (XO (XI (XO (XI (XO (XO (XI (XI (XO (XO (XI (XI
    (XO (XO (XI (XI (XI (XI XH)))))))))))))))))))))))))))))))) :: ((Npos (XO
    (XO (XO (XO (XO (XI (XI (XI (XI (XI (XI (XO (XO (XO (XI (XO (XO (XI (XI
    (XI (XI (XO (XI (XO (XO (XI (XO (XI (XI (XO (XO
    XH)))))))))))))))))))))))))))))))) :: ((Npos (XI (XI (XI (XO (XI (XI (XO
    (XI (XO (XI (XO (XI (XO (XO (XI (XI (XI (XO (XO (XI (XI (XI (XI (XI (XO
    (XI (XO (XI (XI XH)))))))))))))))))))))))))))))) :: ((Npos (XO (XO (XO
    (XI (XO (XO (XO (XO (XO (XO (XO (XO (XO (XO (XO (XI (XI (XI (XO (XO (XO
    (XO (XI (XO (XO (XO (XI (XO (XO (XO (XI
    XH)))))))))))))))))))))))))))))))) :: ((Npos (XI (XI (XI (XI (XI (XO (XO
    (XO (XI (XI (XI (XI (XI (XO (XI (XI (XI (XO (XI (XI (XO (XI (XO (XO (XO
    (XI (XI (XI XH))))))))))))))))))))))))))))) :: ((Npos (XO (XI (XO (XO (XI
    (XI (XI (XI (XI (XO (XI (XO (XI (XI (XO (XI (XI (XO (XI (XI (XI (XI (XI
    (XO (XO (XI (XO XH)))))))))))))))))))))))))))) :: ((Npos (XO (XO (XO (XO
    (XO (XI (XI (XI (XI (XI (XI (XO (XI (XO (XI (XI (XO (XO (XO (XO (XI (XI
    (XO (XO (XI (XI (XI (XI (XO (XI
    XH))))))))))))))))))))))))))))))) :: ((Npos (XO (XO (XO (XI (XO (XI (XO
    (XO (XI (XO (XO (XI (XI (XI (XO (XI (XI (XI (XI (XI (XI (XO (XO (XO (XO
    (XO (XI (XI (XI (XO (XO XH)))))))))))))))))))))))))))))))) :: ((Npos (XO
    (XI (XO (XO (XO (XO (XO (XO (XI (XO (XI (XI (XI (XO (XO (XI (XO (XI (XO
    (XI (XO (XI (XO (XI (XI (XO (XO (XO (XO
    XH)))))))))))))))))))))))))))))) :: ((Npos (XI (XO (XI (XO (XI (XI (XO
    (XI (XO (XI (XO (XO (XI (XO (XI (XI (XI (XO (XI (XO (XO (XO (XO (XO (XI
    (XI (XI (XO (XI (XI XH))))))))))))))))))))))))))))))) :: ((Npos (XI (XO
    (XO (XI (XI (XI (XO (XI (XI (XI (XI (XI (XI (XO (XI (XO (XI (XI (XI (XI
    (XI (XI (XO (XO (XO (XO (XI (XO XH))))))))))))))))))))))))))))) :: ((Npos
    (XO (XO (XI (XO (XI (XI (XO (XI (XO (XO (XI (XO (XO (XI (XO (XI (XI (XI
    (XI (XO (XO (XI (XO (XI (XO (XI (XO (XO (XI (XI (XI
    XH)))))))))))))))))))))))))))))))) :: ((Npos (XO (XO (XO (XO (XO (XO (XI
    (XO (XI (XI (XO (XI (XO (XO (XO (XO (XI (XO (XI (XO (XI (XI (XO (XI (XI
    (XI (XI (XO (XI (XO (XI XH)))))))))))))))))))))))))))))))) :: ((Npos (XO
    (XI (XI (XI (XI (XI (XO (XO (XO (XO (XO (XO (XI (XI (XO (XO (XO (XO (XO
    (XI (XI (XO (XI (XI (XI (XO (XI (XI (XI (XI
    XH))))))))))))))))))))))))))))))) :: ((Npos (XI (XO (XO (XO (XI (XO (XI
    (XO (XO (XI (XI (XI (XO (XI (XI (XO (XO (XO (XI (XO (XI (XI (XO (XO (XI
    (XO (XO (XO (XO (XO XH))))))))))))))))))))))))))))))) :: ((Npos (XO (XO
    (XO (XI (XO (XO (XI (XO (XO (XO (XO (XI (XI (XO (XO (XI (XI (XO (XO (XI
    (XI (XO (XO (XO (XI (XO (XO (XI (XI
    XH)))))))))))))))))))))))))))))) :: ((Npos (XO (XO (XO (XO (XO (XO (XI
    (XO (XO (XO (XO (XO (XO (XO (XO (XO (XI (XI (XO (XI (XO (XI (XO (XO (XI
    (XO (XI (XO (XI XH)))))))))))))))))))))))))))))) :: ((Npos (XO (XI (XI
    (XO (XI (XI (XI (XO (XI (XI (XI (XO (XI (XI (XI (XI (XO (XI (XO (XI (XO
    (XO (XO (XI (XO (XI (XI (XI (XO (XI
    XH))))))))))))))))))))))))))))))) :: ((Npos (XI (XI (XI (XO (XO (XI (XO
    (XO (XO (XI (XI (XI (XO (XI (XI (XI (XI (XO (XO (XI (XO (XI (XO (XI (XI
    (XI (XI (XI (XO (XI XH))))))))))))))))))))))))))))))) :: ((Npos (XI (XI
    (XI (XO (XI (XI (XO (XO (XO (XO (XI (XO (XO (XO (XI (XI (XO (XO (XI (XI
    (XO (XI (XI (XI (XO (XO (XI (XO (XI (XO (XO
    XH)))))))))))))))))))))))))))))))) :: ((Npos (XI (XI (XO (XO (XO (XI (XI
    (XI (XI (XI (XI (XI (XO (XO (XO (XI (XI (XO (XI (XO (XI (XO (XO (XI (XO
    (XO (XO (XO (XO (XI (XO XH)))))))))))))))))))))))))))))))) :: ((Npos (XO
    (XI (XO (XO (XO (XI (XO (XI (XO (XI (XI (XI (XI (XO (XI (XI (XO (XO (XO
    (XO (XO (XI (XI (XI (XO (XI (XO (XO (XI (XI
    XH))))))))))))))))))))))))))))))) :: ((Npos (XI (XO (XO (XO (XI (XO (XI
    (XO (XI (XI (XO (XI (XI (XI (XI (XO (XI (XO (XO (XO (XO (XI (XI (XO (XO
    (XI (XO (XO (XO (XI XH))))))))))))))))))))))))))))))) :: ((Npos (XI (XI
    (XI (XO (XI (XI (XI (XO (XO (XO (XO (XI (XI (XO (XO (XI (XO (XI (XI (XO
    (XI (XI (XI (XI (XO (XI (XO XH)))))))))))))))))))))))))))) :: ((Npos (XI
    (XO (XO (XO (XI (XI (XI (XI (XO (XI (XI (XI (XO (XI (XI (XI (XI (XO (XO
    (XI (XI (XI (XI (XO (XO (XI (XI (XO (XI (XI (XO
    XH)))))))))))))))))))))))))))))))) :: ((Npos (XO (XO (XI (XO (XO (XO (XI
    (XO (XI (XI (XO (XO (XI (XO (XI (XI (XI (XO (XO (XI (XI (XI (XO (XO (XI
    (XI (XO (XI (XI (XI XH))))))))))))))))))))))))))))))) :: ((Npos (XO (XO
    (XI (XO (XO (XO (XO (XO (XI (XO (XO (XO (XI (XI (XO (XI (XI (XO (XI (XO
    (XO (XI (XO (XI (XI (XO (XI XH)))))))))))))))))))))))))))) :: ((Npos (XO
    (XI (XI (XO (XO (XI (XI (XO (XI (XI (XO (XI (XI (XI (XI (XI (XI (XI (XO
    (XO (XI (XI (XO (XI (XO (XO (XO (XI (XO (XI (XI
    XH)))))))))))))))))))))))))))))))) :: ((Npos (XI (XO (XO (XI (XO (XI (XO
    (XO (XI (XO (XI (XO (XI (XI (XI (XI (XO (XO (XO (XO (XO (XI (XO (XO (XI
    (XI (XI (XI (XI (XO XH))))))))))))))))))))))))))))))) :: ((Npos (XO (XO
    (XI (XI (XI (XI (XO (XI (XO (XO (XO (XI (XI (XO (XI (XO (XI (XI (XO (XO
    (XO (XI (XO (XO (XO (XI (XO (XI (XO (XI
    XH))))))))))))))))))))))))))))))) :: ((Npos (XI (XI (XO (XI (XO (XI (XI
    (XI (XI (XI (XI (XI (XI (XO (XO (XI (XO (XO (XO (XO (XI (XO (XI (XI (XO
    (XI (XO (XO (XI (XO (XO XH)))))))))))))))))))))))))))))))) :: ((Npos (XI
    (XI (XI (XO (XI (XI (XO (XO (XO (XI (XI (XI (XI (XI (XO (XI (XO (XO (XO
    (XO (XI (XO (XI (XO (XO (XI (XO (XO
    XH))))))))))))))))))))))))))))) :: ((Npos (XI (XI (XI (XO (XO (XO (XO (XO
    (XO (XO (XI (XO (XO (XI (XI (XI (XO (XI (XI (XI (XI (XI (XI (XI (XO (XO
    (XO (XO (XO (XO (XI XH)))))))))))))))))))))))))))))))) :: ((Npos (XI (XI
    (XI (XO (XO (XI (XO (XI (XO (XI (XO (XI (XO (XO (XO (XO (XO (XO (XO (XI
    (XO (XI (XO (XI (XI (XO (XI (XO (XO (XI (XI
    XH)))))))))))))))))))))))))))))))) :: ((Npos (XO (XI (XI (XO (XO (XO (XO
    (XI (XO (XO (XO (XI (XO (XI (XO (XO (XI (XO (XO (XI (XI (XI (XI (XI (XO
    (XI (XI (XI (XO (XO (XO XH)))))))))))))))))))))))))))))))) :: ((Npos (XO
    (XO (XO (XI (XO (XI (XO (XO (XO (XO (XI (XI (XI (XO (XO (XI (XI (XI (XO
    (XO (XO (XO (XI (XI (XI (XI (XI (XI (XI (XO (XI
    XH)))))))))))))))))))))))))))))))) :: ((Npos (XI (XI (XI (XI (XO (XO (XO
    (XO (XO (XO (XO (XI (XI (XI (XO (XO (XO (XI (XI (XI (XI (XO (XO (XO (XI
    (XI (XI (XI XH))))))))))))))))))))))))))))) :: ((Npos (XO (XI (XO (XI (XI
    (XO (XI (XO (XI (XO (XO (XI (XO (XI (XO (XO (XI (XO (XO (XI (XI (XI (XO
    (XI (XO (XO (XO XH)))))))))))))))))))))))))))) :: ((Npos (XO (XO (XO (XI
    (XI (XI (XO (XO (XI (XO (XO (XI (XO (XO (XO (XO (XO (XO (XI (XI (XO (XI
    (XO (XI (XO (XO (XI (XO (XI (XI (XI
    XH)))))))))))))))))))))))))))))))) :: ((Npos (XO (XO (XI (XI (XO (XO (XI
    (XI (XI (XI (XI (XO (XI (XI (XO (XO (XI (XO (XO (XO (XI (XO (XO (XI (XO
    (XO (XI (XO (XI (XI (XO XH)))))))))))))))))))))))))))))))) :: ((Npos (XI
    (XI (XI (XI (XO (XO (XO (XI (XI (XO (XO (XI (XI (XO (XO (XI (XO (XI (XI
    (XO (XI (XO (XI (XO (XI (XI (XO (XO (XI (XO (XI
    XH)))))))))))))))))))))))))))))))) :: ((Npos (XO (XI (XI (XI (XI (XI (XI
    (XI (XO (XI (XO (XO (XO (XO (XO (XI (XO (XI (XO (XI (XO (XO (XI (XI (XI
    (XI (XO (XO XH))))))))))))))))))))))))))))) :: ((Npos (XI (XO (XI (XI (XO
    (XI (XO (XO (XO (XI (XO (XI (XO (XI (XO (XO (XO (XI (XI (XO (XI (XI (XO
    (XO (XO (XI (XO (XI (XI XH)))))))))))))))))))))))))))))) :: ((Npos (XI
    (XI (XI (XO (XO (XO (XI (XO (XO (XI (XI (XO (XI (XI (XO (XI (XO (XO (XI
    (XI (XO (XI (XO (XO (XO (XI (XO (XI (XI (XI (XO
    XH)))))))))))))))))))))))))))))))) :: ((Npos (XO (XO (XI (XO (XO (XO (XO
    (XI (XO (XO (XI (XI (XI (XO (XI (XO (XO (XO (XO (XI (XO (XO (XI (XO (XI
    (XO (XI (XO (XI (XI (XO XH)))))))))))))))))))))))))))))))) :: ((Npos (XO
    (XI (XO (XO (XO (XI (XO (XO (XO (XO (XO (XO (XO (XO (XI (XO (XI (XI (XI
    (XO (XI (XO (XO (XI (XO (XI (XI (XO (XO (XO (XO
    XH)))))))))))))))))))))))))))))))) :: ((Npos (XO (XO (XI (XO (XI (XI (XO
    (XO (XO (XI (XI (XI (XO (XO (XI (XO (XO (XO (XI (XO (XO (XO (XO (XI (XI
    (XI (XI (XI (XI (XI XH))))))))))))))))))))))))))))))) :: ((Npos (XI (XO
    (XI (XI (XI (XO (XI (XO (XO (XO (XO (XO (XI (XO (XO (XO (XO (XI (XI (XO
    (XI (XO (XI (XO (XI (XO (XO (XO (XO (XO (XI
    XH)))))))))))))))))))))))))))))))) :: ((Npos (XI (XO (XI (XI (XO (XI (XI
    (XI (XO (XI (XO (XO (XO (XI (XO (XI (XO (XO (XI (XI (XO (XO (XI (XO (XO
    (XO (XO (XO (XO (XO (XI XH)))))))))))))))))))))))))))))))) :: ((Npos (XO
    (XO (XI (XI (XI (XO (XO (XI (XO (XO (XI (XI (XI (XO (XI (XI (XO (XO (XI
    (XI (XI (XI (XI (XI (XO (XI (XO (XI (XI (XO (XI
    XH)))))))))))))))))))))))))))))))) :: ((Npos (XI (XO (XI (XI (XI (XI (XO
    (XO (XO (XI (XO (XI (XI (XO (XI (XO (XI (XI (XI (XI (XI (XO (XI (XI (XO
    (XO (XO (XO (XO (XI (XO XH)))))))))))))))))))))))))))))))) :: ((Npos (XO
    (XI (XI (XO (XI (XI (XI (XO (XO (XO (XO (XI (XI (XI (XI (XO (XI (XO (XI
    (XI (XI (XO (XI (XI (XI (XO (XI (XI (XO (XO (XI
    XH)))))))))))))))))))))))))))))))) :: ((Npos (XO (XI (XO (XI (XI (XO (XO
    (XO (XI (XI (XI (XI (XO (XO (XI (XO (XO (XO (XI (XO (XO (XO (XO (XO (XI
    (XO (XI (XO (XI (XI XH))))))))))))))))))))))))))))))) :: ((Npos (XI (XO
    (XI (XI (XI (XO (XO (XO (XI (XI (XO (XO (XO (XI (XO (XO (XO (XO (XI (XO
    (XI (XI (XO (XO (XI (XO (XO (XO (XI (XO (XI
    XH)))))))))))))))))))))))))))))))) :: ((Npos (XO (XI (XO (XO (XO (XO (XI
    (XI (XI (XI (XO (XO (XI (XO (XO (XI (XI (XI (XO (XO (XI (XO (XO (XI (XO
    (XO (XI (XI (XO (XO (XO XH)))))))))))))))))))))))))))))))) :: ((Npos (XO
    (XO (XO (XO (XI (XI (XO (XI (XO (XI (XI (XI (XI (XO (XI (XO (XI (XI (XO
    (XI (XO (XO (XO (XI (XO (XO (XI (XI (XO
    XH)))))))))))))))))))))))))))))) :: ((Npos (XO (XO (XI (XO (XO (XO (XI
    (XO (XI (XO (XI (XO (XO (XO (XI (XI (XO (XI (XO (XI (XO (XI (XO (XI (XO
    (XO (XI (XO (XI (XI XH))))))))))))))))))))))))))))))) :: ((Npos (XO (XI
    (XO (XO (XI (XI (XO (XO (XO (XO (XO (XI (XO (XI (XO (XI (XI (XI (XO (XI
    (XO (XI (XI (XO (XI (XO (XO (XO (XO (XO
    XH))))))))))))))))))))))))))))))) :: ((Npos (XO (XI (XI (XI (XI (XI (XO
    (XO (XO (XI (XO (XI (XO (XO (XI (XI (XI (XO (XI (XI (XO (XI (XO (XO (XI
    (XO (XO (XO (XI (XO (XO XH)))))))))))))))))))))))))))))))) :: ((Npos (XI
    (XO (XO (XO (XI (XI (XI (XI (XO (XO (XO (XI (XI (XO (XI (XO (XO (XI (XO
    (XI (XI (XI (XO (XI (XO (XI (XI (XO (XO (XI (XI
    XH)))))))))))))))))))))))))))))))) :: ((Npos (XI (XO (XI (XO (XO (XI (XI
    (XO (XI (XO (XO (XO (XI (XO (XI (XO (XI (XO (XI (XO (XI (XO (XO (XI (XO
    (XO (XO (XO (XI (XI XH))))))))))))))))))))))))))))))) :: ((Npos (XI (XO
    (XI (XO (XI (XO (XO (XI (XO (XI (XO (XI (XO (XI (XI (XO (XI (XO (XO (XO
    (XI (XI (XO (XI (XI (XO (XI (XI (XO (XI (XO
    XH)))))))))))))))))))))))))))))))) :: ((Npos (XO (XO (XO (XO (XO (XO (XO
    (XO (XI (XI (XO (XO (XO (XI (XO (XI (XO (XO (XO (XI (XO (XO (XO (XO (XO
    (XO (XO (XI (XI (XI (XI XH)))))))))))))))))))))))))))))))) :: ((Npos (XI
    (XI (XI (XI (XI (XI (XI (XI (XO (XI (XO (XI (XO (XI (XO (XO (XO (XI (XO
    (XO (XO (XI (XI (XI (XI (XI (XO (XI (XO (XO
    XH))))))))))))))))))))))))))))))) :: ((Npos (XO (XO (XI (XI (XI (XO (XO
    (XO (XO (XI (XO (XO (XI (XO (XI (XI (XO (XI (XO (XO (XO (XI (XI (XI (XO
    (XI (XO (XO (XO (XO (XI XH)))))))))))))))))))))))))))))))) :: ((Npos (XO
    (XO (XO (XI (XI (XI (XI (XI (XI (XO (XI (XO (XI (XO (XO (XO (XO (XO (XI
    (XI (XO (XI (XI (XO (XI (XI (XO (XI (XI (XO (XI
    XH)))))))))))))))))))))))))))))))) :: ((Npos (XO (XO (XI (XI (XO (XI (XI
    (XO (XI (XI (XI (XI (XO (XO (XI (XI (XO (XI (XI (XO (XI (XO (XO (XI (XO
    (XO (XO (XI XH))))))))))))))))))))))))))))) :: ((Npos (XI (XO (XI (XI (XI
    (XO (XO (XO (XO (XI (XI (XI (XO (XI (XO (XI (XI (XI (XI (XO (XO (XI (XI
    (XI (XO (XO (XI (XO (XO (XO XH))))))))))))))))))))))))))))))) :: ((Npos
    (XO (XI (XO (XI (XO (XO (XO (XO (XI (XO (XO (XO (XO (XO (XI (XI (XO (XI
    (XI (XI (XI (XO (XI (XI (XI (XI (XO (XO (XO (XI (XI
    XH)))))))))))))))))))))))))))))))) :: ((Npos (XI (XO (XO (XI (XO (XO (XO
    (XI (XI (XI (XI (XI (XO (XI (XO (XI (XO (XO (XO (XI (XI (XO (XO (XI (XI
    (XI (XI (XI (XI XH)))))))))))))))))))))))))))))) :: ((Npos (XI (XO (XI
    (XO (XI (XI (XO (XI (XI (XO (XO (XI (XO (XI (XO (XO (XO (XI (XO (XI (XI
    (XI (XI (XO (XO (XI (XI (XO (XI (XO (XI
    XH)))))))))))))))))))))))))))))))) :: ((Npos (XI (XO (XO (XO (XI (XO (XI
    (XI (XO (XI (XO (XO (XI (XO (XI (XO (XI (XO (XO (XI (XI (XI (XI (XI (XI
    (XO (XI (XO (XI (XI XH))))))))))))))))))))))))))))))) :: ((Npos (XI (XI
    (XI (XO (XO (XO (XO (XI (XO (XI (XO (XI (XI (XI (XI (XO (XI (XI (XO (XI
    (XO (XI (XI (XI (XI (XI (XO (XI (XI (XI
    XH))))))))))))))))))))))))))))))) :: ((Npos (XI (XO (XI (XO (XI (XO (XO
    (XO (XO (XO (XI (XO (XI (XI (XI (XI (XO (XI (XO (XI (XI (XI (XO (XO (XI
    (XI (XI (XO (XO (XO XH))))))))))))))))))))))))))))))) :: ((Npos (XI (XO
    (XI (XO (XI (XI (XI (XI (XO (XI (XI (XO (XI (XI (XO (XO (XI (XO (XI (XO
    (XO (XI (XI (XI (XI (XI (XI (XI (XI
    XH)))))))))))))))))))))))))))))) :: ((Npos (XI (XI (XO (XI (XO (XO (XO
    (XO (XI (XI (XI (XI (XI (XO (XI (XO (XO (XI (XO (XO (XI (XI (XO (XI (XI
    (XO (XO (XO (XO (XI (XO XH)))))))))))))))))))))))))))))))) :: ((Npos (XI
    (XI (XO (XO (XO (XI (XI (XI (XI (XO (XO (XO (XI (XI (XI (XO (XO (XO (XI
    (XO (XI (XO (XI (XO (XI (XO (XO (XI (XO (XO (XI
    XH)))))))))))))))))))))))))))))))) :: ((Npos (XI (XI (XI (XO (XI (XI (XO
    (XO (XO (XO (XO (XO (XO (XO (XO (XI (XI (XI (XI (XI (XO (XI (XO (XO (XO
    (XI (XO (XO (XO (XO (XO XH)))))))))))))))))))))))))))))))) :: ((Npos (XO
    (XO (XO (XO (XI (XO (XI (XI (XO (XO (XI (XI (XI (XO (XO (XO (XO (XI (XO
    (XO (XO (XO (XI (XI (XO (XO (XI (XI (XO
    XH)))))))))))))))))))))))))))))) :: ((Npos (XI (XI (XI (XO (XI (XO (XI
    (XO (XI (XI (XO (XI (XI (XO (XO (XO (XI (XI (XI (XI (XI (XO (XO (XO (XO
    (XI (XO (XI (XI (XO (XO XH)))))))))))))))))))))))))))))))) :: ((Npos (XO
    (XO (XO (XO (XO (XI (XO (XO (XI (XI (XO (XO (XO (XO (XI (XO (XO (XO (XO
    (XO (XI (XO (XI (XO (XI (XO (XI (XI (XI (XI (XI
    XH)))))))))))))))))))))))))))))))) :: ((Npos (XI (XI (XI (XO (XO (XI (XO
    (XO (XI (XO (XO (XO (XI (XI (XI (XI (XO (XI (XO (XI (XI (XI (XO (XO (XI
    (XO (XI (XI (XO (XI XH))))))))))))))))))))))))))))))) :: ((Npos (XO (XO
    (XO (XO (XO (XO (XI (XO (XO (XO (XI (XO (XO (XI (XO (XO (XO (XO (XO (XO
    (XI (XO (XO (XO (XI (XI (XI (XO (XO (XO
    XH))))))))))))))))))))))))))))))) :: ((Npos (XO (XI (XI (XI (XI (XO (XO
    (XO (XI (XO (XI (XO (XO (XO (XO (XO (XO (XI (XI (XI (XO (XI (XI (XO (XO
    (XO (XO (XI (XI XH)))))))))))))))))))))))))))))) :: ((Npos (XO (XO (XO
    (XO (XO (XI (XI (XI (XO (XI (XO (XI (XO (XO (XO (XI (XO (XO (XI (XI (XI
    (XO (XI (XI XH))))))))))))))))))))))))) :: ((Npos (XI (XI (XO (XI (XO (XI
    (XI (XO (XO (XO (XI (XI (XI (XI (XI (XO (XI (XO (XI (XO (XI (XI (XO (XO
    (XI (XO (XI (XI (XI (XI (XO XH)))))))))))))))))))))))))))))))) :: ((Npos
    (XO (XO (XO (XO (XI (XI (XI (XI (XO (XO (XI (XI (XO (XI (XO (XO (XI (XI
    (XI (XI (XO (XO (XO (XI (XI (XI (XO (XO (XI (XO (XI
    XH)))))))))))))))))))))))))))))))) :: ((Npos (XO (XO (XO (XI (XO (XI (XI
    (XI (XO (XI (XI (XI (XI (XI (XI (XO (XI (XO (XI (XO (XO (XI (XI (XI (XI
    (XO (XO (XO (XO (XI XH))))))))))))))))))))))))))))))) :: ((Npos (XO (XI
    (XO (XO (XI (XO (XI (XI (XI (XO (XO (XO (XI (XO (XI (XI (XI (XO (XO (XI
    (XO (XO (XO (XI (XI (XO (XO (XO (XI (XI
    XH))))))))))))))))))))))))))))))) :: ((Npos (XO (XO (XI (XI (XI (XO (XO
    (XI (XO (XO (XI (XO (XI (XI (XO (XO (XI (XI (XI (XI (XI (XO (XI (XO (XI
    (XI (XO (XO (XI XH)))))))))))))))))))))))))))))) :: ((Npos (XO (XO (XO
    (XO (XI (XI (XO (XO (XO (XI (XI (XO (XO (XI (XO (XI (XI (XI (XI (XI (XI
    (XO (XI (XO (XI (XI (XO (XO (XO (XO (XI
    XH)))))))))))))))))))))))))))))))) :: ((Npos (XO (XI (XI (XI (XI (XO (XO
    (XI (XO (XO (XI (XO (XO (XI (XI (XO (XO (XI (XI (XO (XI (XO (XI (XO (XO
    (XI (XI (XI (XI (XI (XI XH)))))))))))))))))))))))))))))))) :: ((Npos (XI
    (XO (XI (XO (XO (XO (XO (XO (XO (XI (XO (XO (XI (XO (XO (XO (XI (XI (XO
    (XO (XO (XI (XO (XO (XO (XI (XO (XI (XI (XI (XO
    XH)))))))))))))))))))))))))))))))) :: ((Npos (XI (XO (XI (XI (XI (XO (XO
    (XO (XI (XO (XO (XO (XI (XO (XI (XI (XO (XO (XO (XI (XI (XI (XO (XI (XI
    (XI (XI (XO (XO XH)))))))))))))))))))))))))))))) :: ((Npos (XO (XI (XI
    (XO (XO (XO (XI (XI (XI (XI (XO (XI (XO (XO (XO (XI (XI (XO (XI (XO (XO
    (XI (XI (XO (XO (XI (XI (XO (XO
    XH)))))))))))))))))))))))))))))) :: ((Npos (XI (XI (XO (XO (XO (XO (XO
    (XI (XI (XO (XI (XI (XI (XI (XO (XI (XI (XI (XI (XI (XI (XI (XI (XO (XI
    (XO (XI XH)))))))))))))))))))))))))))) :: ((Npos (XI (XI (XI (XO (XO (XI
    (XI (XO (XO (XI (XI (XI (XI (XI (XI (XO (XO (XO (XO (XI (XI (XO (XI (XO
    (XO (XI (XO (XO XH))))))))))))))))))))))))))))) :: ((Npos (XI (XI (XI (XI
    (XI (XO (XO (XI (XI (XI (XI (XI (XI (XO (XO (XO (XI (XI (XO (XI (XO (XO
    (XI (XO (XI (XI (XI (XO (XO (XO
    XH))))))))))))))))))))))))))))))) :: ((Npos (XI (XI (XI (XI (XI (XI (XO
    (XO (XO (XI (XO (XI (XI (XO (XI (XO (XI (XO (XI (XI (XI (XI (XO (XO (XO
    (XI (XI (XI (XI (XI (XO XH)))))))))))))))))))))))))))))))) :: ((Npos (XI
    (XO (XI (XI (XI (XI (XO (XO (XO (XI (XO (XO (XO (XI (XI (XO (XI (XO (XO
    (XI (XO (XI (XO (XI (XO (XI (XI (XI (XO
    XH)))))))))))))))))))))))))))))) :: ((Npos (XI (XO (XI (XO (XO (XI (XO
    (XI (XI (XO (XO (XO (XO (XI (XI (XI (XI (XI (XI (XI (XI (XO (XI (XI (XI
    (XI (XI (XI (XI (XO XH))))))))))))))))))))))))))))))) :: ((Npos (XO (XO
    (XI (XI (XO (XO (XO (XO (XI (XI (XO (XO (XI (XI (XI (XO (XI (XO (XO (XO
    (XO (XI (XO (XO (XO (XI (XI (XI (XO (XI
    XH))))))))))))))))))))))))))))))) :: ((Npos (XO (XO (XI (XI (XI (XO (XI
    (XI (XO (XI (XI (XO (XI (XI (XO (XI (XI (XI (XO (XO (XI (XO (XO (XI (XO
    (XI (XO (XO (XI (XI (XI XH)))))))))))))))))))))))))))))))) :: ((Npos (XI
    (XO (XO (XO (XO (XI (XI (XI (XI (XI (XO (XI (XO (XI (XO (XI (XO (XI (XI
    (XO (XI (XO (XI (XO (XO (XI (XO (XI (XO (XI (XI
    XH)))))))))))))))))))))))))))))))) :: ((Npos (XI (XI (XO (XO (XO (XI (XI
    (XO (XI (XI (XO (XO (XO (XI (XI (XI (XO (XI (XI (XO (XI (XO (XO (XI (XO
    (XI (XI (XO (XI (XO (XO XH)))))))))))))))))))))))))))))))) :: ((Npos (XI
    (XI (XO (XO (XI (XI (XI (XI (XO (XI (XI (XI (XO (XI (XI (XO (XI (XO (XI
    (XO (XI (XI (XO (XI (XI (XO (XI (XI (XO
    XH)))))))))))))))))))))))))))))) :: ((Npos (XO (XO (XO (XO (XO (XO (XO
    (XO (XO (XO (XO (XO (XO (XI (XO (XI (XI (XO (XO (XO (XI (XO (XO (XO (XO
    (XI (XI (XI (XI (XI XH))))))))))))))))))))))))))))))) :: ((Npos (XO (XO
    (XO (XO (XI (XI (XO (XI (XI (XO (XI (XO (XI (XI (XI (XO (XI (XO (XO (XO
    (XO (XI (XI (XI (XI (XO (XI (XI (XI (XI (XI
    XH)))))))))))))))))))))))))))))))) :: ((Npos (XO (XO (XI (XI (XO (XI (XI
    (XO (XO (XI (XO (XO (XO (XI (XI (XO (XI (XI (XO (XI (XI (XO (XO (XO (XO
    (XI (XI (XO (XO (XO (XI XH)))))))))))))))))))))))))))))))) :: ((Npos (XI
    (XO (XO (XO (XI (XI (XO (XI (XO (XI (XI (XI (XO (XO (XI (XI (XO (XI (XO
    (XO (XO (XI (XI (XI (XI (XO (XO (XO (XO
    XH)))))))))))))))))))))))))))))) :: ((Npos (XI (XI (XO (XI (XO (XO (XI
    (XO (XI (XI (XO (XO (XO (XO (XO (XO (XO (XO (XO (XI (XI (XI (XO (XI (XO
    (XI (XI (XI (XI (XO (XI XH)))))))))))))))))))))))))))))))) :: ((Npos (XO
    (XI (XO (XO (XO (XI (XO (XI (XI (XI (XO (XI (XO (XO (XO (XO (XO (XI (XI
    (XI (XO (XO (XI (XO (XI (XI (XO (XI (XO (XI
    XH))))))))))))))))))))))))))))))) :: ((Npos (XI (XI (XO (XI (XI (XO (XO
    (XI (XI (XO (XO (XO (XO (XO (XI (XO (XI (XO (XO (XI (XO (XI (XO (XO (XI
    (XI (XI (XI (XO (XI (XI XH)))))))))))))))))))))))))))))))) :: ((Npos (XO
    (XI (XI (XI (XO (XI (XI (XI (XO (XO (XI (XO (XI (XO (XI (XI (XI (XI (XO
    (XI XH))))))))))))))))))))) :: ((Npos (XO (XI (XI (XO (XO (XI (XO (XI (XI
    (XO (XO (XO (XI (XI (XI (XI (XO (XI (XO (XI (XO (XI (XO (XI
    XH))))))))))))))))))))))))) :: ((Npos (XO (XI (XI (XI (XI (XO (XI (XI (XO
    (XO (XO (XI (XI (XO (XI (XO (XI (XO (XO (XO (XO (XI (XO (XI (XO (XO (XO
    (XI (XI (XI XH))))))))))))))))))))))))))))))) :: ((Npos (XO (XO (XO (XI
    (XO (XO (XI (XO (XO (XO (XO (XI (XI (XO (XO (XI (XI (XI (XO (XO (XI (XO
    (XI (XI (XI (XI (XO (XO (XI XH)))))))))))))))))))))))))))))) :: ((Npos
    (XO (XI (XO (XO (XO (XI (XO (XI (XO (XO (XO (XO (XO (XO (XO (XO (XI (XI
    (XO (XO (XI (XI (XO (XI (XI (XO (XO (XI
    XH))))))))))))))))))))))))))))) :: ((Npos (XI (XI (XI (XO (XI (XI (XO (XI
    (XO (XO (XI (XO (XO (XO (XI (XO (XI (XO (XI (XO (XI (XO (XO (XO (XI (XO
    (XI (XI (XI XH)))))))))))))))))))))))))))))) :: ((Npos (XI (XI (XO (XI
    (XI (XI (XI (XI (XO (XO (XI (XI (XO (XO (XI (XI (XI (XI (XI (XI (XI (XI
    (XI (XO (XO (XI (XI (XI (XO (XI
    XH))))))))))))))))))))))))))))))) :: ((Npos (XI (XI (XI (XI (XI (XI (XO
    (XI (XI (XI (XI (XO (XO (XO (XI (XO (XI (XO (XI (XO (XO (XO (XI (XO (XO
    (XI (XO (XI (XO (XO (XI XH)))))))))))))))))))))))))))))))) :: ((Npos (XO
    (XI (XI (XI (XI (XI (XI (XO (XI (XI (XO (XI (XO (XI (XI (XI (XO (XI (XO
    (XO (XI (XI (XI (XO (XI (XO (XO (XI (XI (XO
    XH))))))))))))))))))))))))))))))) :: ((Npos (XO (XO (XO (XI (XO (XO (XI
    (XI (XO (XI (XO (XI (XI (XI (XI (XO (XI (XO (XO (XI (XI (XI (XI (XI (XI
    (XI (XO (XO (XI (XI (XO XH)))))))))))))))))))))))))))))))) :: ((Npos (XI
    (XI (XO (XI (XO (XI (XI (XO (XI (XI (XO (XO (XI (XI (XI (XI (XI (XI (XI
    (XO (XO (XO (XO (XI (XO (XO (XO (XO (XI (XO
    XH))))))))))))))))))))))))))))))) :: ((Npos (XI (XI (XI (XI (XI (XI (XI
    (XI (XO (XO (XI (XO (XI (XI (XI (XO (XI (XI (XI (XO (XI (XO (XO (XI (XO
    (XO (XO (XI (XI (XI (XO XH)))))))))))))))))))))))))))))))) :: ((Npos (XO
    (XO (XI (XI (XO (XI (XI (XI (XO (XI (XO (XI (XI (XO (XI (XI (XO (XO (XO
    (XO (XO (XI (XI (XI (XO (XO (XI (XO (XI (XI (XO
    XH)))))))))))))))))))))))))))))))) :: ((Npos (XO (XI (XI (XO (XI (XI (XI
    (XI (XI (XI (XO (XI (XI (XI (XI (XO (XI (XI (XO (XI (XO (XI (XO (XI (XI
    (XI (XI (XO (XI (XO (XO XH)))))))))))))))))))))))))))))))) :: ((Npos (XI
    (XI (XI (XO (XI (XO (XI (XO (XI (XO (XO (XO (XI (XI (XO (XI (XO (XI (XI
    (XI (XI (XO (XI (XO (XI (XO (XO (XI (XO (XO
    XH))))))))))))))))))))))))))))))) :: ((Npos (XO (XI (XI (XI (XO (XO (XO
    (XO (XO (XI (XO (XO (XI (XO (XO (XI (XI (XI (XI (XO (XO (XI (XI (XO (XO
    (XO (XO (XI (XO (XO (XI XH)))))))))))))))))))))))))))))))) :: ((Npos (XI
    (XO (XO (XI (XI (XO (XO (XI (XO (XO (XI (XI (XO (XI (XO (XO (XI (XO (XO
    (XI (XO (XO (XO (XI (XI (XO (XO XH)))))))))))))))))))))))))))) :: ((Npos
    (XI (XO (XI (XO (XO (XI (XI (XI (XO (XI (XO (XO (XI (XO (XO (XO (XI (XO
    (XI (XI (XO (XO (XI (XO (XI (XO (XI (XI
    XH))))))))))))))))))))))))))))) :: ((Npos (XO (XI (XI (XO (XI (XI (XI (XI
    (XI (XO (XO (XI (XO (XI (XO (XI (XI (XO (XI (XI (XO (XO (XO (XO (XO (XI
    (XI (XI (XO (XI (XI XH)))))))))))))))))))))))))))))))) :: ((Npos (XO (XI
    (XI (XO (XO (XO (XO (XI (XO (XO (XO (XI (XO (XI (XO (XI (XO (XO (XI (XO
    (XI (XI (XI (XO (XI (XI (XO (XI (XI (XO (XI
    XH)))))))))))))))))))))))))))))))) :: ((Npos (XI (XI (XO (XI (XO (XO (XI
    (XO (XO (XI (XI (XI (XI (XI (XO (XI (XI (XI (XO (XI (XI (XO (XI (XI (XI
    (XO (XI (XO (XI XH)))))))))))))))))))))))))))))) :: ((Npos (XO (XO (XO
    (XI (XO (XO (XI (XI (XI (XO (XI (XO (XO (XO (XI (XI (XO (XO (XI (XO (XI
    (XI (XO (XI (XO (XI (XO (XO (XI (XO (XI
    XH)))))))))))))))))))))))))))))))) :: ((Npos (XI (XO (XO (XO (XI (XO (XI
    (XO (XI (XO (XO (XO (XI (XO (XI (XI (XO (XI (XI (XO (XO (XO (XI (XO (XI
    (XI (XO (XI (XO (XI XH))))))))))))))))))))))))))))))) :: ((Npos (XI (XO
    (XI (XO (XI (XO (XI (XO (XI (XO (XI (XI (XO (XO (XI (XI (XO (XI (XO (XO
    (XI (XO (XO (XO (XO (XI (XI (XI (XO
    XH)))))))))))))))))))))))))))))) :: ((Npos (XO (XO (XO (XI (XO (XO (XI
    (XO (XI (XO (XO (XI (XO (XO (XI (XI (XI (XO (XI (XO (XO (XI (XI (XO (XI
    (XO (XI (XO (XI XH)))))))))))))))))))))))))))))) :: ((Npos (XI (XI (XO
    (XO (XI (XI (XI (XO (XO (XI (XI (XI (XI (XI (XI (XI (XO (XO (XO (XO (XI
    (XI (XO (XO (XI (XO (XO (XO (XI (XI
    XH))))))))))))))))))))))))))))))) :: ((Npos (XO (XO (XI (XO (XI (XI (XI
    (XI (XO (XI (XI (XO (XI (XI (XI (XO (XI (XO (XI (XO (XI (XO (XO (XI (XI
    (XO (XO (XI (XI (XI (XI XH)))))))))))))))))))))))))))))))) :: ((Npos (XO
    (XO (XO (XO (XI (XI (XO (XO (XI (XI (XO (XO (XI (XI (XO (XO (XO (XI (XO
    (XO (XI (XO (XO (XO (XO (XI XH))))))))))))))))))))))))))) :: ((Npos (XI
    (XI (XO (XI (XO (XO (XI (XI (XO (XI (XO (XI (XI (XI (XI (XO (XO (XO (XI
    (XI (XI (XI (XI (XI (XI (XO (XI XH)))))))))))))))))))))))))))) :: ((Npos
    (XI (XO (XO (XO (XI (XI (XI (XO (XO (XO (XI (XO (XO (XI (XO (XI (XO (XI
    (XO (XI (XI (XI (XO (XI (XI (XO (XI (XI (XI (XI (XO
    XH)))))))))))))))))))))))))))))))) :: ((Npos (XO (XO (XI (XI (XO (XO (XO
    (XI (XO (XO (XI (XO (XO (XI (XO (XO (XO (XO (XI (XO (XO (XI (XO (XO (XO
    (XI (XI (XI (XI (XI (XO XH)))))))))))))))))))))))))))))))) :: ((Npos (XI
    (XO (XI (XO (XO (XI (XI (XI (XI (XI (XI (XO (XO (XO (XI (XI (XI (XI (XO
    (XO (XI (XO (XI (XO (XI (XI (XI (XI
    XH))))))))))))))))))))))))))))) :: ((Npos (XI (XO (XO (XI (XI (XI (XO (XO
    (XI (XO (XO (XI (XO (XO (XO (XI (XI (XI (XO (XO (XI (XI (XO (XI (XO (XO
    (XI (XI (XO (XO XH))))))))))))))))))))))))))))))) :: ((Npos (XO (XI (XI
    (XO (XO (XO (XI (XO (XI (XO (XI (XI (XI (XO (XO (XO (XI (XI (XO (XI (XO
    (XI (XO (XO (XI (XI (XO (XI XH))))))))))))))))))))))))))))) :: ((Npos (XI
    (XI (XI (XO (XO (XO (XO (XI (XO (XI (XO (XO (XI (XI (XI (XO (XI (XO (XO
    (XI (XO (XI (XI (XO (XI (XI (XI (XI (XO (XI
    XH))))))))))))))))))))))))))))))) :: ((Npos (XO (XI (XO (XO (XI (XO (XO
    (XO (XI (XI (XO (XO (XO (XI (XI (XI (XO (XI (XI (XI (XI (XI (XI (XI (XO
    (XI (XI (XO (XI XH)))))))))))))))))))))))))))))) :: ((Npos (XO (XI (XI
    (XO (XI (XO (XI (XO (XI (XI (XO (XO (XO (XI (XI (XI (XO (XO (XI (XI (XI
    (XO (XO (XO (XI (XI (XI (XO (XO (XI (XI
    XH)))))))))))))))))))))))))))))))) :: ((Npos (XO (XI (XO (XO (XO (XO (XO
    (XI (XO (XI (XI (XI (XO (XO (XO (XI (XI (XO (XI (XI (XI (XI (XI (XI (XI
    (XI (XO (XI (XO (XO (XI XH)))))))))))))))))))))))))))))))) :: ((Npos (XI
    (XI (XI (XI (XI (XO (XO (XO (XO (XI (XO (XI (XI (XI (XO (XO (XI (XO (XI
    (XI (XO (XO (XI (XO (XO (XO (XI (XO (XI (XO
    XH))))))))))))))))))))))))))))))) :: ((Npos (XO (XO (XO (XO (XI (XO (XO
    (XO (XO (XO (XO (XI (XO (XI (XI (XI (XI (XI (XO (XI (XI (XI (XI (XO (XI
    (XO (XI (XO (XI (XI XH))))))))))))))))))))))))))))))) :: ((Npos (XO (XI
    (XI (XO (XO (XI (XO (XI (XO (XO (XI (XO (XI (XO (XI (XO (XI (XI (XI (XI
    (XI (XI (XI (XO (XO (XI (XI (XO (XI (XI (XO
    XH)))))))))))))))))))))))))))))))) :: ((Npos (XO (XO (XO (XI (XI (XO (XI
    (XI (XI (XI (XO (XO (XO (XO (XI (XO (XI (XO (XO (XO (XO (XO (XO (XI (XI
    (XO (XO (XO (XI XH)))))))))))))))))))))))))))))) :: ((Npos (XI (XO (XI
    (XO (XI (XI (XO (XO (XI (XO (XI (XI (XI (XO (XO (XO (XO (XI (XO (XO (XO
    (XO (XI (XO (XO (XO (XO (XI (XO (XI (XO
    XH)))))))))))))))))))))))))))))))) :: ((Npos (XO (XI (XI (XO (XO (XI (XI
    (XO (XI (XO (XO (XI (XI (XI (XO (XI (XO (XO (XI (XO (XI (XI (XI (XI (XI
    (XO (XO XH)))))))))))))))))))))))))))) :: ((Npos (XO (XO (XI (XO (XO (XI
    (XI (XO (XO (XO (XI (XI (XI (XO (XI (XO (XO (XI (XO (XO (XI (XO (XI (XO
    (XO (XO (XO (XO (XO (XO XH))))))))))))))))))))))))))))))) :: ((Npos (XI
    (XI (XO (XO (XO (XO (XO (XI (XI (XI (XI (XI (XO (XI (XI (XO (XI (XO (XO
    (XO (XI (XI (XI (XI (XO (XI (XO (XI (XI (XI (XI
    XH)))))))))))))))))))))))))))))))) :: ((Npos (XO (XO (XI (XI (XO (XI (XO
    (XI (XO (XO (XO (XO (XO (XO (XO (XO (XI (XO (XI (XO (XI (XI (XO (XO (XO
    (XI (XI (XO (XI (XO (XI XH)))))))))))))))))))))))))))))))) :: ((Npos (XO
    (XI (XO (XI (XI (XI (XO (XI (XO (XI (XI (XO (XI (XI (XI (XI (XO (XO (XI
    (XO (XI (XO (XO (XI (XI (XO (XO (XI
    XH))))))))))))))))))))))))))))) :: ((Npos (XO (XI (XI (XI (XI (XI (XI (XI
    (XI (XI (XO (XO (XI (XI (XO (XI (XI (XO (XI (XI (XO (XI (XO (XO (XO (XI
    (XI (XO XH))))))))))))))))))))))))))))) :: ((Npos (XO (XI (XO (XI (XI (XI
    (XO (XO (XO (XO (XO (XO (XO (XO (XI (XO (XO (XO (XI (XI (XO (XO (XO (XO
    (XO (XI (XO (XI (XO (XI XH))))))))))))))))))))))))))))))) :: ((Npos (XI
    (XI (XI (XO (XO (XI (XI (XO (XI (XI (XI (XI (XI (XI (XI (XI (XI (XI (XO
    (XI (XO (XI (XI (XO (XI (XO (XI (XO (XO (XO (XI
    XH)))))))))))))))))))))))))))))))) :: ((Npos (XO (XO (XI (XO (XO (XI (XO
    (XI (XI (XI (XI (XI (XI (XO (XO (XO (XO (XI (XI (XI (XO (XI (XO (XO (XO
    (XO (XI XH)))))))))))))))))))))))))))) :: ((Npos (XO (XO (XO (XO (XO (XO
    (XI (XI (XI (XI (XI (XO (XO (XI (XI (XO (XI (XI (XI (XO (XI (XI (XI (XI
    (XO (XI (XO (XI XH))))))))))))))))))))))))))))) :: ((Npos (XO (XI (XI (XI
    (XO (XI (XO (XO (XI (XI (XO (XI (XI (XO (XI (XI (XO (XO (XI (XI (XO (XI
    (XI (XI (XO (XI (XI (XO (XO (XI (XO
    XH)))))))))))))))))))))))))))))))) :: ((Npos (XO (XO (XI (XO (XI (XI (XO
    (XO (XI (XO (XO (XI (XI (XI (XO (XI (XO (XI (XO (XO (XO (XO (XO (XI (XO
    (XI (XI (XI (XI (XO (XI XH)))))))))))))))))))))))))))))))) :: ((Npos (XI
    (XI (XI (XO (XI (XI (XO (XI (XO (XO (XI (XI (XI (XO (XI (XI (XI (XO (XI
    (XI (XI (XO (XO (XI (XI (XO (XO (XI (XO (XO
    XH))))))))))))))))))))))))))))))) :: ((Npos (XO (XO (XI (XO (XO (XO (XO
    (XI (XI (XI (XO (XO (XO (XI (XO (XI (XO (XO (XO (XI (XI (XI (XO (XO (XI
    (XO (XO (XI (XO (XI XH))))))))))))))))))))))))))))))) :: ((Npos (XO (XO
    (XI (XO (XI (XI (XO (XO (XO (XO (XO (XI (XO (XO (XO (XI (XO (XI (XO (XI
    (XI (XI (XO (XO (XI (XO (XI (XI (XI (XI (XO
    XH)))))))))))))))))))))))))))))))) :: ((Npos (XI (XI (XO (XI (XO (XI (XO
    (XO (XI (XO (XI (XI (XI (XI (XO (XI (XO (XI (XO (XI (XO (XO (XI (XO (XO
    (XO (XO (XO (XO (XI (XI XH)))))))))))))))))))))))))))))))) :: ((Npos (XO
    (XO (XO (XI (XI (XI (XI (XO (XO (XI (XI (XI (XO (XO (XI (XO (XO (XO (XO
    (XO (XI (XO (XO (XO (XI (XO (XI (XI (XI (XI (XO
    XH)))))))))))))))))))))))))))))))) :: ((Npos (XO (XI (XO (XI (XI (XI (XO
    (XI (XO (XI (XI (XO (XI (XO (XI (XI (XO (XI (XO (XI (XI (XO (XI (XO (XO
    (XI (XO (XI XH))))))))))))))))))))))))))))) :: ((Npos (XO (XI (XI (XO (XI
    (XI (XO (XO (XI (XI (XO (XO (XI (XO (XO (XI (XO (XI (XO (XO (XI (XO (XI
    (XI (XI (XI (XO XH)))))))))))))))))))))))))))) :: ((Npos (XI (XO (XI (XI
    (XO (XI (XI (XO (XI (XI (XI (XO (XO (XO (XO (XO (XI (XO (XI (XI (XI (XI
    (XO (XI (XO XH)))))))))))))))))))))))))) :: ((Npos (XI (XI (XI (XO (XO
    (XI (XO (XO (XO (XO (XI (XO (XI (XI (XI (XI (XI (XI (XO (XI (XO (XI (XI
    (XI (XO (XI (XI (XI (XO (XO XH))))))))))))))))))))))))))))))) :: ((Npos
    (XI (XI (XI (XO (XI (XI (XO (XO (XO (XO (XO (XO (XO (XO (XO (XO (XI (XI
    (XI (XO (XI (XI (XI (XI (XO (XO (XI (XI (XO (XI (XO
    XH)))))))))))))))))))))))))))))))) :: ((Npos (XO (XO (XO (XI (XO (XO (XO
    (XO (XI (XO (XI (XO (XI (XO (XO (XI (XO (XI (XI (XO (XI (XI (XI (XO (XO
    (XO (XO (XI (XO XH)))))))))))))))))))))))))))))) :: ((Npos (XI (XI (XO
    (XO (XI (XI (XI (XI (XI (XI (XI (XI (XI (XI (XI (XI (XI (XO (XO (XI (XI
    (XI (XO (XO (XI (XI (XO (XO (XO (XI (XI
    XH)))))))))))))))))))))))))))))))) :: ((Npos (XI (XO (XI (XO (XI (XI (XO
    (XO (XO (XI (XI (XO (XI (XI (XO (XO (XO (XO (XO (XO (XI (XI (XO (XO
    XH))))))))))))))))))))))))) :: ((Npos (XI (XO (XI (XI (XI (XI (XI (XI (XO
    (XI (XI (XO (XI (XO (XO (XI (XI (XI (XO (XI (XI (XI (XO (XI (XO (XI (XO
    (XO (XO (XO XH))))))))))))))))))))))))))))))) :: ((Npos (XO (XI (XO (XO
    (XI (XO (XI (XO (XI (XO (XO (XI (XI (XO (XI (XI (XI (XI (XI (XO (XI (XI
    (XI (XI (XO (XO (XO (XI (XI (XO (XI
    XH)))))))))))))))))))))))))))))))) :: ((Npos (XO (XO (XO (XI (XI (XO (XO
    (XO (XI (XO (XI (XI (XI (XO (XO (XI (XO (XI (XO (XI (XI (XO (XI (XO (XI
    (XI (XO (XO (XI (XO (XI XH)))))))))))))))))))))))))))))))) :: ((Npos (XO
    (XI (XI (XO (XI (XO (XO (XO (XI (XO (XI (XO (XI (XI (XI (XO (XO (XO (XO
    (XI (XI (XO (XI (XO (XI (XO (XI (XI (XI (XI
    XH))))))))))))))))))))))))))))))) :: ((Npos (XO (XI (XI (XO (XI (XO (XI
    (XI (XI (XO (XO (XI (XO (XO (XO (XO (XI (XI (XO (XO (XI (XO (XO (XI (XO
    (XO (XO (XI (XO (XI (XO XH)))))))))))))))))))))))))))))))) :: ((Npos (XI
    (XI (XI (XO (XO (XI (XI (XO (XI (XI (XI (XI (XO (XI (XO (XO (XI (XI (XI
    (XO (XO (XO (XI (XI (XO (XI (XI (XO (XI (XO (XI
    XH)))))))))))))))))))))))))))))))) :: ((Npos (XO (XO (XO (XO (XO (XO (XI
    (XI (XO (XI (XI (XO (XI (XO (XI (XI (XI (XI (XI (XO (XI (XI (XI (XO (XO
    (XI (XI (XO (XI (XI (XI
    XH)))))))))))))))))))))))))))))))) :: [])))))))))))))))))))))))))))))))))))))))))))))))))))))))))))))))))))))))))))))))))))))))))))))))))))))))))))))))))))))))))))))))))))))))))))))))))))))))))))))))))))))))))))))))))))))))))))))))))))))))))))))))))))))))))))))))))))))))))))))))))))))))))))))))

(** val v2 : n list **)

let v2 =
  (Npos (XO (XO (XI (XO (XO (XO (XO (XO (XI (XI (XO (XI (XI (XI (XO (XO (XI
    (XO (XI (XO (XO (XI (XO (XO (XI (XO (XO (XO (XO (XI
    XH))))))))))))))))))))))))))))))) :: ((Npos (XO (XO (XO (XO (XI (XO (XO
    (XI (XO (XO (XO (XI (XI (XI (XO (XO (XI (XI (XI (XO (XI (XO (XI (XI (XO
    (XO (XO (XO XH))))))))))))))))))))))))))))) :: ((Npos (XO (XI (XI (XI (XI
    (XO (XO (XI (XO (XI (XI (XO (XI (XI (XI (XI (XI (XO (XO (XO (XI (XO (XO
    (XI (XO (XI (XI (XO (XO (XI (XO
    XH)))))))))))))))))))))))))))))))) :: ((Npos (XO (XI (XI (XI (XI (XO (XI
    (XI (XI (XI (XI (XI (XO (XO (XO (XO (XO (XO (XO (XI (XI (XO (XO (XI (XI
    (XO (XI (XI XH))))))))))))))))))))))))))))) :: ((Npos (XO (XI (XO (XI (XI
    (XO (XI (XI (XO (XI (XO (XO (XI (XO (XI (XO (XI (XI (XI (XI (XI (XI (XO
    (XO (XO (XI (XO (XO (XI (XI (XO
    XH)))))))))))))))))))))))))))))))) :: ((Npos (XI (XI (XO (XI (XI (XO (XO
    (XO (XI (XO (XO (XO (XI (XI (XO (XO (XI (XI (XI (XO (XO (XO (XO (XO (XI
    (XI (XI (XO (XI (XI (XO XH)))))))))))))))))))))))))))))))) :: ((Npos (XI
    (XI (XI (XI (XO (XI (XO (XO (XO (XO (XI (XO (XI (XO (XO (XO (XO (XI (XO
    (XI (XO (XO (XO (XI (XI (XO (XO (XI (XI (XO (XO
    XH)))))))))))))))))))))))))))))))) :: ((Npos (XO (XO (XI (XO (XO (XI (XO
    (XO (XO (XI (XI (XI (XO (XO (XO (XO (XO (XI (XO (XO (XI (XO (XO (XO (XO
    (XO (XI (XO (XI (XI (XI XH)))))))))))))))))))))))))))))))) :: ((Npos (XO
    (XI (XO (XO (XO (XO (XO (XI (XO (XI (XI (XI (XO (XI (XO (XO (XO (XI (XO
    (XO (XI (XI (XI (XO (XI (XO (XI (XO (XO (XI (XO
    XH)))))))))))))))))))))))))))))))) :: ((Npos (XO (XO (XO (XO (XO (XI (XI
    (XO (XO (XI (XI (XI (XO (XI (XI (XI (XI (XI (XI (XO (XO (XI (XO (XO (XI
    (XI (XO (XO (XI (XI (XI XH)))))))))))))))))))))))))))))))) :: ((Npos (XI
    (XO (XI (XO (XI (XI (XO (XO (XO (XO (XI (XI (XI (XI (XI (XI (XI (XO (XI
    (XI (XI (XI (XI (XO (XO (XI (XO XH)))))))))))))))))))))))))))) :: ((Npos
    (XI (XI (XI (XI (XO (XO (XO (XI (XO (XO (XI (XI (XO (XI (XI (XI (XO (XI
    (XO (XO (XO (XI (XI (XI (XI (XO (XI (XO (XO (XO (XO
    XH)))))))))))))))))))))))))))))))) :: ((Npos (XI (XI (XI (XI (XO (XI (XO
    (XO (XI (XI (XI (XI (XI (XO (XO (XO (XI (XO (XI (XO (XI (XI (XI (XO (XO
    (XI (XI (XI (XI (XO (XI XH)))))))))))))))))))))))))))))))) :: ((Npos (XI
    (XI (XO (XO (XO (XO (XI (XO (XO (XI (XO (XI (XO (XI (XO (XO (XI (XO (XO
    (XO (XI (XI (XI (XI (XO (XI (XO (XO (XO (XO (XO
    XH)))))))))))))))))))))))))))))))) :: ((Npos (XO (XI (XI (XI (XI (XO (XO
    (XI (XO (XI (XI (XO (XI (XI (XI (XO (XO (XI (XI (XO (XO (XI (XI (XI (XI
    (XO (XI (XI (XO (XO XH))))))))))))))))))))))))))))))) :: ((Npos (XO (XO
    (XI (XI (XO (XO (XO (XI (XO (XO (XI (XI (XO (XO (XI (XO (XO (XO (XI (XI
    (XI (XO (XO (XI (XO (XO (XO (XI (XI (XI (XI
    XH)))))))))))))))))))))))))))))))) :: ((Npos (XI (XO (XO (XO (XI (XO (XO
    (XI (XO (XI (XI (XO (XO (XO (XO (XI (XI (XI (XO (XO (XO (XO (XI (XI (XO
    (XO (XO (XO (XI (XI (XI XH)))))))))))))))))))))))))))))))) :: ((Npos (XI
    (XO (XI (XI (XO (XO (XO (XO (XI (XI (XI (XO (XI (XO (XO (XI (XI (XI (XI
    (XI (XO (XO (XI (XO (XI (XI (XI (XI (XI (XI (XO
    XH)))))))))))))))))))))))))))))))) :: ((Npos (XI (XO (XI (XI (XO (XO (XO
    (XO (XO (XO (XI (XO (XO (XI (XO (XO (XI (XO (XO (XI (XO (XI (XI (XI (XI
    (XO (XO (XI (XO (XO (XI XH)))))))))))))))))))))))))))))))) :: ((Npos (XI
    (XO (XI (XI (XI (XI (XO (XO (XO (XI (XO (XI (XO (XO (XI (XI (XI (XI (XI
    (XO (XI (XI (XI (XO (XI (XO (XO (XO
    XH))))))))))))))))))))))))))))) :: ((Npos (XI (XI (XI (XO (XO (XO (XI (XI
    (XI (XO (XO (XI (XI (XO (XO (XI (XI (XI (XO (XI (XO (XI (XO (XO (XO (XI
    (XO (XI (XI (XO (XI XH)))))))))))))))))))))))))))))))) :: ((Npos (XO (XO
    (XI (XI (XI (XO (XO (XO (XO (XO (XO (XO (XO (XO (XO (XO (XO (XO (XI (XI
    (XI (XO (XI (XI (XI (XO (XI (XI (XI (XO (XO
    XH)))))))))))))))))))))))))))))))) :: ((Npos (XI (XI (XO (XI (XO (XO (XI
    (XI (XO (XI (XO (XO (XI (XI (XO (XO (XO (XI (XO (XO (XO (XI (XI (XI (XO
    (XI (XI (XO (XI (XO (XO XH)))))))))))))))))))))))))))))))) :: ((Npos (XO
    (XO (XI (XO (XI (XI (XI (XO (XI (XO (XO (XO (XO (XO (XI (XI (XI (XI (XI
    (XI (XI (XO (XI (XI (XO (XI (XO (XO (XI (XO (XI
    XH)))))))))))))))))))))))))))))))) :: ((Npos (XI (XI (XO (XO (XI (XO (XO
    (XO (XI (XI (XO (XO (XO (XO (XI (XI (XO (XO (XO (XI (XI (XO (XO (XO (XO
    (XI (XI (XI (XO XH)))))))))))))))))))))))))))))) :: ((Npos (XI (XO (XI
    (XI (XO (XO (XO (XI (XO (XO (XI (XO (XI (XO (XI (XO (XI (XO (XI (XI (XO
    (XI (XI (XO (XI (XO (XO (XI (XI (XI (XI
    XH)))))))))))))))))))))))))))))))) :: ((Npos (XI (XO (XI (XI (XO (XO (XI
    (XI (XO (XI (XI (XO (XO (XO (XO (XO (XO (XI (XO (XI (XO (XO (XO (XI (XI
    (XI (XO (XI (XO (XI XH))))))))))))))))))))))))))))))) :: ((Npos (XI (XI
    (XO (XO (XI (XI (XI (XO (XI (XO (XO (XI (XI (XO (XO (XO (XI (XO (XO (XO
    (XO (XO (XO (XI (XI (XI (XI (XO (XO (XO (XI
    XH)))))))))))))))))))))))))))))))) :: ((Npos (XI (XI (XI (XI (XO (XO (XI
    (XI (XO (XO (XI (XO (XI (XO (XO (XO (XI (XI (XO (XO (XO (XI (XI (XO (XI
    (XI (XI (XI (XO (XO (XI XH)))))))))))))))))))))))))))))))) :: ((Npos (XO
    (XI (XI (XI (XI (XI (XO (XO (XI (XI (XO (XO (XO (XO (XI (XO (XI (XO (XO
    (XI (XO (XI (XO (XI (XO (XO (XI (XI (XO (XI (XI
    XH)))))))))))))))))))))))))))))))) :: ((Npos (XO (XI (XO (XO (XO (XI (XI
    (XO (XI (XI (XI (XO (XO (XO (XO (XI (XI (XO (XO (XO (XO (XO (XI (XI (XO
    (XO (XO (XO (XI (XI XH))))))))))))))))))))))))))))))) :: ((Npos (XO (XI
    (XO (XO (XO (XO (XO (XO (XI (XI (XI (XI (XI (XO (XI (XI (XO (XO (XI (XO
    (XO (XI (XO (XO (XI (XO (XI (XI (XO (XO (XO
    XH)))))))))))))))))))))))))))))))) :: ((Npos (XI (XI (XO (XO (XI (XO (XI
    (XO (XO (XO (XO (XO (XI (XO (XI (XO (XI (XI (XO (XI (XI (XO (XI (XI (XO
    (XI (XO (XO (XI (XO (XI XH)))))))))))))))))))))))))))))))) :: ((Npos (XO
    (XI (XO (XI (XO (XO (XO (XO (XI (XI (XO (XO (XO (XO (XI (XI (XI (XO (XO
    (XI (XI (XI (XI (XI (XO (XO (XO (XO (XI (XI (XO
    XH)))))))))))))))))))))))))))))))) :: ((Npos (XO (XI (XI (XI (XO (XI (XO
    (XI (XO (XO (XI (XI (XO (XO (XO (XO (XO (XO (XI (XI (XO (XI (XO (XO (XO
    (XO (XI (XI (XI (XI (XI XH)))))))))))))))))))))))))))))))) :: ((Npos (XI
    (XI (XI (XI (XO (XO (XO (XO (XO (XI (XO (XO (XO (XI (XI (XI (XI (XO (XI
    (XO (XI (XO (XO (XI (XI (XO (XO (XO (XI
    XH)))))))))))))))))))))))))))))) :: ((Npos (XI (XI (XO (XO (XI (XI (XO
    (XI (XI (XO (XI (XO (XI (XO (XI (XO (XI (XO (XI (XI (XI (XI (XI (XI (XO
    (XI (XI (XI (XO (XI (XO XH)))))))))))))))))))))))))))))))) :: ((Npos (XO
    (XO (XI (XI (XI (XO (XO (XO (XI (XO (XI (XO (XO (XO (XI (XI (XO (XO (XI
    (XI (XI (XI (XO (XI (XI (XI (XI XH)))))))))))))))))))))))))))) :: ((Npos
    (XI (XI (XO (XO (XO (XO (XO (XO (XI (XO (XO (XO (XI (XO (XO (XO (XO (XO
    (XI (XO (XI (XI (XO (XO (XI (XI XH))))))))))))))))))))))))))) :: ((Npos
    (XO (XO (XI (XI (XI (XI (XO (XO (XI (XI (XO (XI (XI (XO (XO (XO (XI (XO
    (XO (XO (XO (XO (XI (XI (XO (XI (XI (XI (XI (XI (XO
    XH)))))))))))))))))))))))))))))))) :: ((Npos (XI (XI (XI (XO (XI (XO (XO
    (XO (XO (XI (XO (XI (XO (XI (XO (XI (XI (XI (XI (XI (XO (XI (XO (XO (XI
    (XO (XI (XO XH))))))))))))))))))))))))))))) :: ((Npos (XI (XO (XI (XO (XI
    (XI (XI (XI (XI (XO (XI (XO (XI (XO (XI (XI (XO (XI (XI (XI (XI (XO (XI
    (XI (XO (XO (XO (XI (XO (XO (XO
    XH)))))))))))))))))))))))))))))))) :: ((Npos (XO (XO (XO (XI (XO (XI (XI
    (XI (XI (XI (XI (XO (XO (XO (XI (XI (XI (XI (XO (XI (XI (XO (XI (XO (XI
    (XO (XI (XI (XI (XO XH))))))))))))))))))))))))))))))) :: ((Npos (XO (XO
    (XO (XO (XI (XO (XI (XO (XO (XO (XO (XI (XO (XI (XI (XO (XI (XO (XO (XI
    (XO (XI (XI (XI (XO (XO (XO (XI (XO (XI
    XH))))))))))))))))))))))))))))))) :: ((Npos (XI (XO (XI (XO (XO (XI (XO
    (XI (XI (XO (XI (XI (XO (XO (XI (XO (XO (XI (XO (XO (XI (XI (XO (XO
    XH))))))))))))))))))))))))) :: ((Npos (XO (XO (XI (XO (XO (XO (XO (XI (XI
    (XI (XO (XO (XI (XI (XI (XO (XI (XO (XI (XO (XO (XO (XI (XO (XO (XO (XI
    (XI (XO (XO (XI XH)))))))))))))))))))))))))))))))) :: ((Npos (XO (XO (XO
    (XO (XI (XI (XO (XI (XI (XI (XO (XO (XO (XI (XO (XI (XO (XI (XO (XO (XO
    (XI (XI (XI (XO (XI (XO (XI (XO (XI (XO
    XH)))))))))))))))))))))))))))))))) :: ((Npos (XI (XO (XI (XO (XI (XI (XI
    (XO (XO (XO (XI (XO (XO (XI (XO (XI (XO (XO (XI (XI (XI (XO (XO (XI (XO
    (XO (XI (XI (XO (XO (XO XH)))))))))))))))))))))))))))))))) :: ((Npos (XI
    (XI (XO (XO (XI (XI (XI (XI (XI (XI (XI (XO (XI (XO (XI (XI (XI (XI (XI
    (XO (XI (XI (XO (XI (XO (XO (XO (XI (XI (XI
    XH))))))))))))))))))))))))))))))) :: ((Npos (XO (XI (XI (XI (XI (XO (XI
    (XI (XO (XI (XO (XI (XO (XO (XO (XO (XO (XO (XI (XI (XI (XO (XI (XI (XO
    (XI (XI (XO (XO (XI XH))))))))))))))))))))))))))))))) :: ((Npos (XO (XI
    (XI (XI (XO (XI (XI (XI (XI (XO (XI (XI (XI (XI (XO (XO (XI (XO (XO (XO
    (XI (XI (XI (XO (XI (XI (XI (XO (XO (XO (XI
    XH)))))))))))))))))))))))))))))))) :: ((Npos (XI (XI (XI (XI (XO (XI (XO
    (XI (XI (XI (XI (XI (XO (XI (XO (XI (XI (XO (XO (XO (XO (XI (XI (XO (XO
    (XO (XO (XO (XO (XI (XO XH)))))))))))))))))))))))))))))))) :: ((Npos (XO
    (XO (XI (XO (XI (XI (XI (XI (XO (XI (XI (XI (XO (XO (XO (XO (XI (XI (XO
    (XO (XI (XI (XI (XI (XI (XO XH))))))))))))))))))))))))))) :: ((Npos (XI
    (XO (XO (XI (XO (XI (XO (XO (XI (XO (XI (XO (XO (XO (XI (XO (XI (XI (XO
    (XI (XI (XI (XO (XO (XI (XO (XI (XI (XI (XI (XI
    XH)))))))))))))))))))))))))))))))) :: ((Npos (XO (XI (XO (XO (XI (XO (XI
    (XO (XO (XO (XO (XO (XI (XI (XO (XI (XI (XO (XI (XO (XI (XO (XI (XO (XO
    (XI (XI (XO (XO (XO (XO XH)))))))))))))))))))))))))))))))) :: ((Npos (XO
    (XI (XI (XO (XO (XO (XO (XO (XI (XI (XO (XI (XI (XI (XI (XO (XI (XI (XI
    (XO (XO (XI (XO (XO (XI (XI (XO (XO (XO (XO (XI
    XH)))))))))))))))))))))))))))))))) :: ((Npos (XO (XO (XO (XI (XI (XI (XI
    (XO (XI (XO (XO (XO (XO (XI (XO (XO (XI (XO (XI (XO (XO (XI (XO (XI (XI
    (XI (XO (XO (XO XH)))))))))))))))))))))))))))))) :: ((Npos (XI (XI (XO
    (XO (XI (XI (XI (XO (XI (XO (XO (XO (XO (XO (XO (XO (XI (XO (XI (XI (XO
    (XI (XO (XI (XO (XO (XI (XO (XO (XO (XI
    XH)))))))))))))))))))))))))))))))) :: ((Npos (XO (XI (XO (XO (XI (XO (XO
    (XO (XO (XI (XO (XI (XI (XI (XO (XI (XO (XO (XI (XI (XO (XI (XO (XO (XI
    (XO (XO (XO (XO XH)))))))))))))))))))))))))))))) :: ((Npos (XO (XO (XO
    (XO (XO (XO (XI (XI (XI (XI (XO (XI (XI (XO (XO (XO (XO (XI (XO (XO (XO
    (XI (XO (XI (XI (XO (XI (XO (XI (XI (XI
    XH)))))))))))))))))))))))))))))))) :: ((Npos (XI (XI (XI (XI (XO (XI (XI
    (XI (XO (XI (XI (XI (XO (XI (XI (XI (XI (XI (XO (XI (XO (XI (XO (XI (XO
    (XO (XI (XI (XO (XI (XO XH)))))))))))))))))))))))))))))))) :: ((Npos (XO
    (XO (XI (XO (XO (XI (XI (XO (XI (XI (XO (XO (XI (XI (XO (XI (XO (XI (XI
    (XO (XO (XO (XI (XI (XI (XI (XI (XO (XI (XO (XI
    XH)))))))))))))))))))))))))))))))) :: ((Npos (XI (XO (XI (XI (XI (XI (XI
    (XO (XI (XO (XI (XI (XI (XI (XI (XO (XO (XI (XI (XI (XI (XI (XO (XI (XO
    (XI (XI (XO (XI XH)))))))))))))))))))))))))))))) :: ((Npos (XO (XI (XI
    (XI (XO (XO (XI (XI (XI (XI (XI (XO (XI (XO (XI (XI (XO (XI (XI (XI (XO
    (XI (XO (XI (XI (XO (XO (XO (XO (XO (XI
    XH)))))))))))))))))))))))))))))))) :: ((Npos (XO (XI (XI (XI (XO (XI (XO
    (XI (XO (XO (XO (XO (XI (XI (XO (XI (XO (XO (XO (XO (XO (XO (XO (XO (XI
    (XO (XI (XO (XO (XO (XO XH)))))))))))))))))))))))))))))))) :: ((Npos (XI
    (XI (XI (XI (XI (XO (XI (XO (XO (XO (XI (XO (XI (XO (XI (XO (XI (XO (XO
    (XO (XI (XI (XO (XI (XO (XI (XO (XO (XO (XI (XI
    XH)))))))))))))))))))))))))))))))) :: ((Npos (XO (XI (XO (XI (XI (XI (XI
    (XI (XI (XI (XO (XO (XO (XO (XO (XI (XO (XI (XO (XO (XO (XO (XO (XO (XO
    (XI (XO (XI (XI (XO (XI XH)))))))))))))))))))))))))))))))) :: ((Npos (XI
    (XO (XI (XI (XI (XO (XO (XO (XI (XI (XI (XO (XO (XI (XO (XI (XI (XI (XI
    (XI (XO (XO (XI (XO (XO (XI (XO (XI (XI (XO (XO
    XH)))))))))))))))))))))))))))))))) :: ((Npos (XO (XI (XO (XO (XO (XO (XO
    (XO (XI (XO (XO (XO (XO (XI (XO (XI (XO (XO (XO (XO (XI (XI (XI (XO (XO
    (XI (XI XH)))))))))))))))))))))))))))) :: ((Npos (XI (XI (XO (XO (XI (XI
    (XI (XO (XO (XI (XI (XO (XO (XO (XO (XI (XI (XO (XO (XO (XI (XO (XI (XI
    (XO (XI (XI (XO (XO (XI XH))))))))))))))))))))))))))))))) :: ((Npos (XO
    (XI (XI (XO (XO (XO (XI (XO (XI (XO (XI (XO (XI (XO (XI (XI (XO (XO (XO
    (XI (XO (XO (XI (XI (XO (XO (XO (XI (XI (XI
    XH))))))))))))))))))))))))))))))) :: ((Npos (XO (XO (XI (XO (XO (XI (XO
    (XI (XO (XO (XO (XO (XO (XO (XI (XI (XI (XO (XO (XI (XO (XO (XI (XI (XO
    XH)))))))))))))))))))))))))) :: ((Npos (XI (XI (XO (XI (XI (XI (XI (XO
    (XI (XI (XO (XI (XO (XO (XI (XI (XO (XI (XO (XO (XO (XO (XI (XO (XI (XI
    (XO (XI (XO (XI (XO XH)))))))))))))))))))))))))))))))) :: ((Npos (XO (XI
    (XI (XO (XO (XO (XI (XO (XI (XO (XI (XI (XI (XO (XO (XI (XO (XO (XO (XO
    (XO (XO (XO (XO (XO (XI (XI (XI (XO (XI (XO
    XH)))))))))))))))))))))))))))))))) :: ((Npos (XI (XI (XO (XI (XI (XI (XI
    (XI (XO (XO (XO (XI (XO (XI (XI (XO (XI (XI (XO (XI (XO (XI (XI (XO (XI
    (XO (XI (XI (XI (XI (XO XH)))))))))))))))))))))))))))))))) :: ((Npos (XO
    (XO (XO (XI (XI (XO (XO (XI (XI (XI (XI (XO (XI (XI (XI (XO (XI (XI (XI
    (XI (XI (XO (XI (XO (XO (XI (XO (XO (XI (XI
    XH))))))))))))))))))))))))))))))) :: ((Npos (XI (XO (XO (XI (XO (XO (XI
    (XO (XI (XO (XO (XI (XO (XI (XI (XO (XI (XI (XO (XO (XI (XO (XO (XO (XO
    (XI (XI (XO (XI (XO (XO XH)))))))))))))))))))))))))))))))) :: ((Npos (XI
    (XI (XI (XI (XO (XO (XO (XI (XI (XI (XI (XI (XO (XO (XO (XO (XO (XO (XI
    (XI (XI (XI (XO (XI (XO (XI (XI (XI (XO (XI
    XH))))))))))))))))))))))))))))))) :: ((Npos (XO (XI (XO (XO (XO (XI (XO
    (XO (XO (XO (XI (XI (XO (XI (XI (XI (XO (XI (XI (XO (XO (XO (XI (XI (XO
    (XO (XO (XO (XO (XO (XI XH)))))))))))))))))))))))))))))))) :: ((Npos (XI
    (XI (XI (XO (XI (XO (XI (XO (XI (XI (XO (XI (XI (XO (XI (XO (XO (XI (XO
    (XO (XI (XO (XO (XI (XO (XO (XI (XI
    XH))))))))))))))))))))))))))))) :: ((Npos (XO (XO (XI (XI (XI (XO (XI (XO
    (XO (XO (XI (XO (XI (XO (XI (XI (XO (XI (XI (XI (XO (XI (XI (XI (XI (XI
    (XO XH)))))))))))))))))))))))))))) :: ((Npos (XI (XO (XO (XO (XI (XI (XI
    (XI (XO (XO (XI (XI (XO (XO (XI (XO (XO (XI (XO (XO (XO (XO (XO (XO (XI
    (XI (XI (XO (XO (XI (XO XH)))))))))))))))))))))))))))))))) :: ((Npos (XI
    (XO (XO (XI (XI (XI (XO (XO (XI (XI (XO (XI (XO (XI (XI (XO (XI (XO (XO
    (XI (XO (XI (XO (XI (XO (XO (XO (XO (XO (XI
    XH))))))))))))))))))))))))))))))) :: ((Npos (XI (XI (XI (XO (XO (XO (XI
    (XI (XI (XI (XI (XO (XO (XI (XI (XI (XO (XO (XO (XI (XI (XO (XI (XI (XO
    (XO (XI (XI XH))))))))))))))))))))))))))))) :: ((Npos (XI (XO (XI (XO (XI
    (XI (XI (XI (XI (XO (XO (XO (XO (XI (XO (XO (XO (XI (XI (XI (XI (XI (XO
    (XO (XI (XO (XO (XI XH))))))))))))))))))))))))))))) :: ((Npos (XO (XO (XO
    (XO (XO (XI (XI (XO (XI (XI (XI (XO (XI (XI (XO (XI (XI (XI (XI (XO (XO
    (XI (XI (XI (XI (XI (XO (XI (XI (XO (XI
    XH)))))))))))))))))))))))))))))))) :: ((Npos (XI (XO (XI (XI (XO (XO (XI
    (XO (XO (XO (XI (XO (XI (XO (XI (XO (XI (XI (XI (XO (XO (XO (XI (XO (XO
    (XI (XI (XI (XO (XI XH))))))))))))))))))))))))))))))) :: ((Npos (XO (XO
    (XO (XI (XI (XI (XI (XO (XI (XO (XO (XI (XO (XI (XI (XI (XO (XO (XI (XO
    (XO (XO (XI (XO (XO (XO (XO (XI (XO (XO (XI
    XH)))))))))))))))))))))))))))))))) :: ((Npos (XO (XI (XO (XI (XI (XI (XI
    (XO (XO (XO (XO (XI (XI (XO (XI (XI (XO (XO (XO (XI (XI (XI (XO (XO (XO
    (XI (XI (XI (XO (XO (XI XH)))))))))))))))))))))))))))))))) :: ((Npos (XI
    (XI (XO (XI (XI (XI (XO (XO (XI (XO (XO (XI (XI (XO (XO (XO (XO (XO (XO
    (XI (XO (XI (XO (XO (XO (XI (XO (XO (XI
    XH)))))))))))))))))))))))))))))) :: ((Npos (XI (XI (XI (XI (XO (XI (XI
    (XO (XI (XO (XO (XI (XI (XO (XO (XI (XI (XO (XO (XO (XI (XO (XI (XI (XO
    (XO (XI (XO (XI (XO (XI XH)))))))))))))))))))))))))))))))) :: ((Npos (XO
    (XO (XI (XI (XI (XO (XO (XO (XI (XO (XO (XO (XO (XO (XI (XI (XO (XI (XO
    (XO (XI (XI (XI (XO (XI (XI (XI (XO (XI
    XH)))))))))))))))))))))))))))))) :: ((Npos (XI (XO (XO (XI (XO (XO (XO
    (XI (XI (XO (XO (XO (XI (XI (XO (XI (XO (XO (XO (XO (XO (XO (XI (XO (XI
    (XO (XI (XI (XI (XO XH))))))))))))))))))))))))))))))) :: ((Npos (XI (XO
    (XI (XI (XO (XI (XI (XI (XI (XI (XO (XO (XO (XI (XO (XO (XI (XO (XO (XO
    (XI (XO (XI (XO (XI (XO (XI (XO (XI (XO (XO
    XH)))))))))))))))))))))))))))))))) :: ((Npos (XI (XI (XO (XI (XO (XI (XI
    (XO (XI (XO (XO (XI (XO (XO (XO (XO (XI (XO (XI (XO (XO (XI (XI (XO (XI
    (XI (XO (XO (XO XH)))))))))))))))))))))))))))))) :: ((Npos (XO (XO (XO
    (XO (XI (XI (XO (XI (XI (XO (XO (XI (XO (XO (XO (XI (XI (XO (XI (XI (XO
    (XO (XO (XI (XO (XI (XO (XO (XO (XO
    XH))))))))))))))))))))))))))))))) :: ((Npos (XO (XO (XO (XO (XI (XI (XO
    (XI (XO (XI (XI (XI (XO (XI (XO (XI (XI (XI (XO (XO (XI (XO (XI (XI (XO
    (XO (XO (XO (XI XH)))))))))))))))))))))))))))))) :: ((Npos (XI (XO (XI
    (XI (XO (XI (XO (XI (XI (XO (XO (XI (XI (XI (XO (XO (XI (XI (XO (XI (XI
    (XO (XO (XO (XI (XI (XO (XI (XI (XI (XO
    XH)))))))))))))))))))))))))))))))) :: ((Npos (XO (XO (XO (XI (XO (XO (XO
    (XO (XI (XI (XO (XI (XI (XO (XO (XO (XI (XO (XI (XI (XO (XO (XI (XO (XO
    (XO (XI (XO (XI (XO XH))))))))))))))))))))))))))))))) :: ((Npos (XI (XI
    (XO (XI (XI (XO (XI (XO (XO (XI (XI (XO (XI (XI (XI (XI (XI (XI (XI (XO
    (XO (XI (XO (XO (XO (XO (XO (XO (XO (XO
    XH))))))))))))))))))))))))))))))) :: ((Npos (XI (XO (XI (XO (XO (XO (XO
    (XI (XI (XO (XO (XI (XO (XI (XO (XI (XO (XI (XO (XI (XO (XO (XO (XI (XO
    (XI (XI (XI XH))))))))))))))))))))))))))))) :: ((Npos (XO (XO (XO (XI (XI
    (XO (XO (XO (XO (XO (XI (XO (XO (XI (XI (XO (XO (XO (XO (XI (XI (XO (XO
    (XI (XO (XI (XO XH)))))))))))))))))))))))))))) :: ((Npos (XO (XI (XO (XI
    (XI (XI (XO (XO (XO (XO (XO (XO (XO (XI (XO (XO (XO (XO (XI (XO (XO (XI
    (XI (XO (XI (XO (XI (XO (XO (XI
    XH))))))))))))))))))))))))))))))) :: ((Npos (XI (XI (XO (XO (XO (XI (XI
    (XO (XO (XI (XO (XI (XO (XI (XO (XI (XI (XI (XI (XI (XI (XI (XI (XO (XI
    (XO (XI (XO (XO (XO (XO XH)))))))))))))))))))))))))))))))) :: ((Npos (XO
    (XI (XI (XO (XO (XI (XO (XO (XI (XI (XO (XO (XO (XO (XO (XO (XI (XO (XI
    (XO (XI (XI (XO (XI (XO (XI (XI (XI
    XH))))))))))))))))))))))))))))) :: ((Npos (XI (XI (XI (XO (XI (XI (XI (XO
    (XI (XO (XI (XI (XI (XI (XO (XI (XO (XO (XO (XO (XI (XI (XI (XI (XO (XI
    (XI (XI (XO (XI (XO XH)))))))))))))))))))))))))))))))) :: ((Npos (XO (XO
    (XI (XI (XO (XI (XO (XO (XO (XI (XO (XI (XO (XO (XI (XO (XI (XO (XI (XO
    (XO (XO (XI (XI (XI (XI (XO (XO (XO (XI (XI
    XH)))))))))))))))))))))))))))))))) :: ((Npos (XI (XI (XO (XO (XI (XO (XO
    (XI (XO (XI (XO (XI (XO (XO (XO (XO (XO (XO (XI (XI (XO (XO (XO (XO (XO
    (XI (XO (XO (XI (XO XH))))))))))))))))))))))))))))))) :: ((Npos (XI (XI
    (XI (XO (XI (XI (XO (XO (XO (XI (XO (XI (XI (XO (XO (XO (XO (XI (XO (XI
    (XI (XI (XI (XI (XO (XO (XO (XO (XO (XI (XO
    XH)))))))))))))))))))))))))))))))) :: ((Npos (XI (XI (XI (XI (XO (XO (XO
    (XO (XO (XO (XI (XO (XO (XO (XO (XO (XI (XO (XO (XO (XO (XI (XO (XI (XI
    (XO (XO (XI (XI XH)))))))))))))))))))))))))))))) :: ((Npos (XI (XI (XI
    (XI (XO (XO (XI (XO (XO (XI (XI (XI (XO (XO (XO (XI (XI (XO (XO (XI (XI
    (XO (XO (XO (XO (XI (XI (XI (XI
    XH)))))))))))))))))))))))))))))) :: ((Npos (XI (XO (XO (XI (XO (XO (XI
    (XO (XO (XI (XO (XI (XO (XI (XO (XO (XI (XI (XO (XI (XO (XI (XO (XI (XO
    (XI (XO (XI (XO XH)))))))))))))))))))))))))))))) :: ((Npos (XI (XO (XO
    (XO (XO (XO (XO (XO (XI (XO (XI (XI (XO (XO (XI (XO (XO (XI (XO (XI (XI
    (XI (XO (XO (XO (XI (XO XH)))))))))))))))))))))))))))) :: ((Npos (XI (XO
    (XO (XO (XO (XI (XO (XI (XO (XO (XI (XI (XO (XO (XO (XI (XI (XO (XO (XI
    (XO (XO (XI (XI (XI (XI (XI (XI (XI (XO
    XH))))))))))))))))))))))))))))))) :: ((Npos (XO (XO (XO (XO (XI (XO (XI
    (XO (XI (XO (XI (XO (XO (XI (XO (XO (XO (XI (XI (XO (XO (XI (XO (XO (XI
    (XO (XO (XI (XO (XO XH))))))))))))))))))))))))))))))) :: ((Npos (XO (XI
    (XI (XO (XO (XI (XI (XO (XO (XI (XO (XO (XO (XI (XI (XI (XO (XI (XO (XO
    (XO (XI (XI (XO (XI (XO (XO (XI (XI (XO (XI
    XH)))))))))))))))))))))))))))))))) :: ((Npos (XI (XO (XI (XO (XO (XI (XI
    (XO (XO (XO (XI (XI (XI (XI (XO (XO (XO (XI (XI (XI (XI (XI (XI (XO (XO
    (XO (XI (XO (XI (XO XH))))))))))))))))))))))))))))))) :: ((Npos (XI (XI
    (XI (XI (XI (XO (XO (XI (XI (XI (XO (XO (XI (XI (XO (XI (XI (XI (XO (XI
    (XI (XO (XO (XI (XI (XI (XO (XO (XI (XI (XI
    XH)))))))))))))))))))))))))))))))) :: ((Npos (XO (XO (XO (XI (XI (XO (XO
    (XI (XI (XI (XI (XO (XI (XI (XO (XI (XI (XO (XI (XI (XI (XO (XO (XI (XI
    (XO (XI (XO (XO (XO (XO XH)))))))))))))))))))))))))))))))) :: ((Npos (XO
    (XO (XO (XO (XO (XI (XI (XI (XO (XO (XO (XO (XI (XI (XI (XO (XI (XO (XI
    (XI (XI (XI (XI (XI (XI (XO (XO (XI (XI (XI (XI
    XH)))))))))))))))))))))))))))))))) :: ((Npos (XO (XI (XI (XI (XO (XO (XO
    (XI (XI (XO (XO (XI (XO (XO (XO (XO (XO (XI (XI (XO (XO (XO (XI (XI (XI
    (XO (XI (XO (XI (XO XH))))))))))))))))))))))))))))))) :: ((Npos (XO (XI
    (XI (XI (XO (XI (XO (XO (XI (XI (XO (XO (XO (XO (XI (XO (XO (XO (XO (XI
    (XI (XI (XO (XO XH))))))))))))))))))))))))) :: ((Npos (XI (XI (XI (XO (XI
    (XI (XO (XI (XI (XO (XI (XI (XI (XI (XI (XI (XI (XO (XO (XO (XO (XI (XO
    (XO (XI (XI XH))))))))))))))))))))))))))) :: ((Npos (XO (XO (XO (XO (XI
    (XO (XO (XO (XO (XO (XO (XO (XI (XI (XI (XI (XI (XO (XO (XI (XI (XI (XI
    (XO (XO (XO (XO (XI (XI (XI XH))))))))))))))))))))))))))))))) :: ((Npos
    (XO (XI (XI (XO (XO (XI (XI (XI (XI (XO (XI (XI (XO (XI (XO (XO (XI (XO
    (XO (XO (XI (XO (XO (XO (XO (XO (XO (XI (XI (XO (XO
    XH)))))))))))))))))))))))))))))))) :: ((Npos (XO (XI (XO (XO (XI (XI (XI
    (XI (XO (XO (XI (XI (XI (XO (XO (XI (XO (XO (XO (XI (XI (XO (XI (XO (XO
    (XI (XO (XO (XI (XO XH))))))))))))))))))))))))))))))) :: ((Npos (XI (XI
    (XO (XI (XI (XI (XI (XI (XI (XO (XI (XI (XO (XI (XO (XO (XI (XI (XO (XI
    (XI (XO (XI (XO (XI (XI (XO (XO (XI (XI (XI
    XH)))))))))))))))))))))))))))))))) :: ((Npos (XI (XO (XI (XI (XI (XI (XI
    (XI (XI (XI (XO (XI (XI (XO (XO (XI (XI (XO (XO (XO (XI (XI (XO (XI (XI
    (XO (XI (XI XH))))))))))))))))))))))))))))) :: ((Npos (XI (XI (XO (XO (XI
    (XO (XO (XO (XO (XI (XI (XI (XI (XI (XO (XO (XI (XO (XO (XO (XI (XO (XO
    (XI (XO (XI (XO (XO XH))))))))))))))))))))))))))))) :: ((Npos (XI (XO (XI
    (XI (XI (XO (XI (XO (XO (XO (XI (XO (XI (XO (XI (XO (XO (XO (XO (XO (XI
    (XI (XI (XO (XI (XO (XI (XO (XI (XO (XI
    XH)))))))))))))))))))))))))))))))) :: ((Npos (XI (XI (XI (XO (XO (XI (XI
    (XI (XO (XO (XI (XI (XO (XI (XI (XI (XO (XO (XI (XO (XI (XI (XO (XO (XO
    (XO (XI (XI (XO (XI (XO XH)))))))))))))))))))))))))))))))) :: ((Npos (XO
    (XI (XI (XO (XO (XO (XI (XO (XI (XI (XO (XI (XI (XI (XO (XI (XI (XO (XO
    (XO (XO (XO (XO (XI (XO (XO (XO XH)))))))))))))))))))))))))))) :: ((Npos
    (XO (XI (XO (XO (XI (XI (XO (XI (XI (XO (XI (XO (XO (XI (XO (XI (XI (XO
    (XO (XO (XI (XI (XI (XO (XI (XO (XO (XI (XO (XO
    XH))))))))))))))))))))))))))))))) :: ((Npos (XO (XI (XI (XO (XI (XI (XO
    (XO (XI (XI (XO (XI (XI (XO (XO (XI (XO (XI (XO (XO (XI (XO (XO (XO (XO
    (XO (XO (XI (XO (XO (XI XH)))))))))))))))))))))))))))))))) :: ((Npos (XI
    (XI (XI (XO (XO (XO (XO (XO (XI (XI (XI (XO (XI (XI (XO (XO (XO (XO (XO
    (XO (XO (XO (XI (XO (XI (XO (XO (XO (XI (XI (XO
    XH)))))))))))))))))))))))))))))))) :: ((Npos (XO (XO (XI (XI (XI (XI (XI
    (XO (XI (XO (XO (XI (XI (XO (XI (XI (XO (XO (XI (XI (XI (XO (XO (XI (XI
    (XI (XI (XO (XI (XO XH))))))))))))))))))))))))))))))) :: ((Npos (XO (XO
    (XO (XI (XI (XI (XI (XI (XI (XO (XO (XO (XI (XO (XI (XO (XO (XI (XO (XO
    (XO (XO (XO (XO (XI (XI (XI (XO (XO (XI
    XH))))))))))))))))))))))))))))))) :: ((Npos (XI (XO (XI (XI (XO (XO (XI
    (XI (XI (XI (XO (XI (XO (XO (XI (XO (XI (XI (XO (XO (XO (XI (XI (XO (XO
    (XO (XI (XO (XI (XO XH))))))))))))))))))))))))))))))) :: ((Npos (XI (XI
    (XO (XI (XI (XO (XO (XO (XO (XI (XO (XO (XO (XI (XO (XI (XO (XO (XI (XI
    (XI (XI (XI (XI (XO XH)))))))))))))))))))))))))) :: ((Npos (XI (XI (XI
    (XI (XO (XI (XI (XI (XI (XI (XI (XO (XI (XO (XO (XO (XO (XO (XI (XO (XO
    (XO (XI (XI (XO (XI (XO (XI (XI (XI (XO
    XH)))))))))))))))))))))))))))))))) :: ((Npos (XI (XI (XO (XI (XO (XO (XI
    (XI (XO (XO (XO (XO (XI (XO (XO (XO (XO (XI (XI (XO (XI (XO (XI (XI (XO
    (XI (XO (XO (XI (XI (XI XH)))))))))))))))))))))))))))))))) :: ((Npos (XI
    (XI (XO (XO (XO (XO (XI (XO (XI (XO (XO (XO (XI (XO (XO (XI (XI (XI (XI
    (XI (XO (XO (XO (XI (XI (XO (XO (XO (XO (XI (XO
    XH)))))))))))))))))))))))))))))))) :: ((Npos (XO (XI (XI (XI (XI (XI (XI
    (XO (XI (XI (XI (XI (XI (XI (XI (XI (XI (XI (XI (XI (XO (XI (XI (XI (XO
    (XO (XO (XO (XO (XI (XO XH)))))))))))))))))))))))))))))))) :: ((Npos (XI
    (XI (XI (XI (XI (XO (XI (XI (XI (XI (XI (XO (XO (XI (XI (XO (XO (XI (XI
    (XI (XI (XI (XI (XO (XO (XI (XO (XO (XI (XO (XO
    XH)))))))))))))))))))))))))))))))) :: ((Npos (XO (XI (XO (XO (XI (XO (XO
    (XO (XI (XI (XO (XI (XI (XO (XI (XI (XO (XO (XI (XI (XI (XI (XO (XI (XI
    (XI (XO (XI (XI (XO (XO XH)))))))))))))))))))))))))))))))) :: ((Npos (XI
    (XI (XO (XI (XO (XO (XI (XO (XO (XO (XI (XO (XI (XO (XI (XO (XO (XO (XO
    (XO (XI (XO (XO (XO (XI (XO (XO (XO (XO (XI (XI
    XH)))))))))))))))))))))))))))))))) :: ((Npos (XO (XO (XI (XI (XO (XO (XI
    (XO (XI (XI (XO (XI (XO (XI (XO (XI (XO (XI (XI (XI (XO (XI (XO (XO (XI
    (XI (XO (XO (XI (XO (XO XH)))))))))))))))))))))))))))))))) :: ((Npos (XI
    (XO (XO (XO (XO (XI (XO (XI (XI (XO (XI (XI (XO (XI (XO (XI (XO (XO (XO
    (XI (XI (XO (XO (XI (XO (XO (XO (XI (XI (XO (XO
    XH)))))))))))))))))))))))))))))))) :: ((Npos (XI (XO (XO (XO (XI (XO (XO
    (XO (XI (XI (XI (XI (XI (XI (XO (XI (XO (XO (XO (XO (XI (XO (XO (XO (XO
    (XO (XI (XO (XI (XI (XO XH)))))))))))))))))))))))))))))))) :: ((Npos (XI
    (XI (XI (XI (XI (XI (XI (XI (XO (XO (XI (XI (XO (XO (XI (XI (XO (XO (XI
    (XO (XI (XO (XI (XI (XO (XO (XI (XO (XO (XI
    XH))))))))))))))))))))))))))))))) :: ((Npos (XO (XO (XO (XI (XI (XO (XI
    (XO (XI (XI (XI (XO (XO (XO (XO (XO (XO (XI (XO (XO (XO (XO (XO (XI (XI
    (XI (XO (XI (XI (XI (XI XH)))))))))))))))))))))))))))))))) :: ((Npos (XO
    (XO (XO (XI (XO (XI (XI (XO (XI (XO (XI (XO (XI (XO (XI (XI (XI (XI (XI
    (XO (XI (XO (XO (XI (XO (XO (XI (XO (XO (XI
    XH))))))))))))))))))))))))))))))) :: ((Npos (XO (XI (XI (XO (XI (XO (XI
    (XO (XO (XO (XO (XO (XO (XO (XI (XO (XO (XO (XI (XI (XO (XI (XO (XI (XO
    (XO (XI (XI (XI XH)))))))))))))))))))))))))))))) :: ((Npos (XI (XO (XO
    (XO (XI (XO (XI (XI (XI (XI (XO (XO (XI (XO (XI (XI (XI (XI (XO (XI (XO
    (XO (XO (XI (XI (XO (XO (XI (XO (XO (XO
    XH)))))))))))))))))))))))))))))))) :: ((Npos (XO (XO (XI (XO (XO (XI (XO
    (XO (XI (XI (XI (XO (XI (XO (XO (XO (XO (XI (XO (XI (XI (XI (XI (XI (XI
    (XO (XI (XO XH))))))))))))))))))))))))))))) :: ((Npos (XO (XO (XI (XO (XO
    (XI (XO (XI (XI (XO (XO (XI (XI (XI (XI (XO (XI (XO (XI (XI (XO (XI (XO
    (XI (XI (XI (XO (XO (XO (XO (XI
    XH)))))))))))))))))))))))))))))))) :: ((Npos (XI (XO (XI (XI (XI (XO (XI
    (XI (XI (XI (XO (XI (XO (XO (XI (XO (XI (XO (XI (XO (XI (XI (XO (XI (XO
    (XO (XI XH)))))))))))))))))))))))))))) :: ((Npos (XI (XO (XO (XO (XI (XI
    (XI (XO (XO (XO (XO (XI (XO (XO (XO (XI (XI (XI (XI (XO (XO (XI (XI (XO
    (XI (XI (XI (XO (XI (XI (XI XH)))))))))))))))))))))))))))))))) :: ((Npos
    (XO (XO (XO (XI (XO (XI (XO (XI (XO (XI (XI (XI (XI (XI (XO (XO (XI (XI
    (XO (XI (XI (XI (XO (XO (XI (XO (XI (XI (XO (XO (XI
    XH)))))))))))))))))))))))))))))))) :: ((Npos (XO (XO (XI (XO (XI (XO (XI
    (XI (XI (XO (XO (XO (XI (XO (XO (XO (XO (XO (XI (XO (XO (XI (XO (XI (XI
    (XO (XO (XI (XO (XI (XO XH)))))))))))))))))))))))))))))))) :: ((Npos (XO
    (XO (XI (XI (XI (XI (XO (XI (XI (XI (XO (XO (XI (XI (XO (XO (XI (XO (XO
    (XI (XO (XO (XI (XI (XO (XO (XI (XO (XI (XI (XI
    XH)))))))))))))))))))))))))))))))) :: ((Npos (XI (XI (XO (XO (XI (XO (XO
    (XI (XI (XO (XI (XI (XI (XI (XO (XO (XO (XO (XO (XI (XO (XI (XO (XI (XO
    (XI (XI (XI (XI (XI (XI XH)))))))))))))))))))))))))))))))) :: ((Npos (XO
    (XO (XI (XO (XI (XO (XO (XI (XO (XI (XI (XI (XO (XI (XI (XO (XO (XO (XO
    (XI (XI (XO (XO (XO (XI (XI (XO (XO (XO (XO (XO
    XH)))))))))))))))))))))))))))))))) :: ((Npos (XI (XO (XO (XO (XO (XI (XI
    (XO (XO (XI (XI (XO (XI (XO (XO (XI (XI (XI (XO (XI (XO (XI (XO (XO (XI
    (XO (XI (XI (XI (XO (XI XH)))))))))))))))))))))))))))))))) :: ((Npos (XI
    (XI (XO (XI (XO (XI (XO (XO (XI (XO (XI (XI (XI (XI (XO (XO (XO (XO (XO
    (XI (XO (XI (XO (XI (XI (XO (XI (XI
    XH))))))))))))))))))))))))))))) :: ((Npos (XO (XO (XI (XO (XO (XI (XI (XO
    (XI (XO (XI (XI (XI (XO (XI (XI (XO (XI (XI (XI (XI (XI (XI (XI (XO (XO
    (XO (XO XH))))))))))))))))))))))))))))) :: ((Npos (XI (XO (XO (XI (XO (XO
    (XO (XI (XO (XI (XI (XI (XI (XO (XO (XI (XI (XO (XO (XI (XI (XO (XO (XI
    (XI (XO (XI (XI (XO XH)))))))))))))))))))))))))))))) :: ((Npos (XI (XO
    (XI (XI (XO (XO (XI (XI (XI (XI (XO (XI (XO (XI (XI (XO (XO (XO (XI (XI
    (XI (XO (XO (XI (XO (XI (XI (XO (XI
    XH)))))))))))))))))))))))))))))) :: ((Npos (XI (XI (XI (XO (XI (XI (XI
    (XO (XO (XI (XO (XI (XO (XI (XI (XI (XI (XI (XI (XI (XO (XO (XI (XI (XO
    (XI (XO (XI (XO (XO (XI XH)))))))))))))))))))))))))))))))) :: ((Npos (XI
    (XO (XI (XI (XO (XI (XI (XI (XO (XO (XI (XI (XO (XO (XI (XO (XO (XO (XO
    (XI (XO (XO (XO (XO (XI (XO (XI (XO (XO (XI (XO
    XH)))))))))))))))))))))))))))))))) :: ((Npos (XI (XO (XO (XI (XO (XO (XI
    (XO (XI (XI (XI (XO (XI (XO (XO (XI (XO (XO (XO (XO (XI (XI (XO (XI (XO
    (XI (XI (XO (XO (XI XH))))))))))))))))))))))))))))))) :: ((Npos (XO (XI
    (XO (XO (XO (XO (XO (XO (XI (XI (XO (XO (XI (XO (XI (XO (XO (XO (XO (XI
    (XI (XO (XI (XI (XI (XO (XO (XI (XO (XO (XI
    XH)))))))))))))))))))))))))))))))) :: ((Npos (XI (XO (XI (XI (XI (XI (XO
    (XI (XI (XO (XO (XO (XI (XO (XO (XO (XI (XO (XI (XO (XI (XO (XO (XO (XI
    (XO (XI (XI XH))))))))))))))))))))))))))))) :: ((Npos (XI (XI (XI (XI (XI
    (XI (XO (XI (XI (XI (XI (XO (XO (XO (XO (XO (XI (XI (XO (XI (XI (XI (XO
    (XI (XO (XO (XI (XO (XI (XO (XI
    XH)))))))))))))))))))))))))))))))) :: ((Npos (XO (XO (XI (XO (XO (XO (XI
    (XI (XI (XO (XI (XO (XO (XI (XI (XO (XO (XI (XI (XI (XI (XO (XO (XO (XO
    (XO (XI (XI (XO (XO (XI XH)))))))))))))))))))))))))))))))) :: ((Npos (XI
    (XO (XI (XO (XI (XO (XI (XI (XO (XI (XI (XO (XI (XO (XO (XO (XI (XI (XO
    (XI (XI (XI (XI (XI (XO (XO (XI XH)))))))))))))))))))))))))))) :: ((Npos
    (XI (XI (XI (XO (XI (XO (XO (XO (XI (XI (XI (XO (XO (XO (XO (XO (XO (XO
    (XI (XI (XI (XI (XI (XO (XO (XO (XI (XI (XO (XO (XO
    XH)))))))))))))))))))))))))))))))) :: ((Npos (XO (XI (XI (XO (XO (XI (XI
    (XO (XO (XI (XO (XO (XO (XI (XO (XO (XO (XO (XI (XI (XI (XO (XI (XI (XI
    (XO (XO (XO (XO (XO (XI XH)))))))))))))))))))))))))))))))) :: ((Npos (XO
    (XI (XI (XO (XI (XI (XI (XI (XO (XI (XO (XO (XI (XI (XO (XO (XO (XI (XI
    (XO (XO (XI (XO (XI (XO (XO (XO XH)))))))))))))))))))))))))))) :: ((Npos
    (XO (XI (XO (XI (XO (XO (XI (XO (XO (XI (XO (XO (XO (XI (XO (XI (XI (XO
    (XI (XI (XI (XI (XI (XO (XO (XO (XO (XO (XO (XI (XO
    XH)))))))))))))))))))))))))))))))) :: ((Npos (XI (XI (XI (XI (XI (XI (XI
    (XI (XI (XI (XI (XO (XI (XI (XI (XO (XO (XO (XO (XO (XI (XO (XI (XO (XO
    (XI (XO (XO (XI (XO (XO XH)))))))))))))))))))))))))))))))) :: ((Npos (XO
    (XI (XO (XI (XO (XI (XI (XI (XI (XO (XO (XO (XI (XI (XO (XI (XO (XO (XI
    (XO (XI (XI (XI (XO (XI (XO (XI (XI (XO (XO
    XH))))))))))))))))))))))))))))))) :: ((Npos (XI (XI (XI (XI (XI (XO (XI
    (XI (XO (XI (XI (XO (XO (XI (XI (XI (XI (XO (XI (XO (XI (XO (XO (XI (XI
    (XO (XI (XO (XI (XI (XI XH)))))))))))))))))))))))))))))))) :: ((Npos (XO
    (XI (XI (XO (XO (XI (XI (XO (XO (XO (XO (XI (XI (XO (XI (XO (XO (XI (XO
    (XO (XO (XO (XO (XI (XO (XO (XI (XI (XI (XI
    XH))))))))))))))))))))))))))))))) :: ((Npos (XI (XO (XO (XI (XO (XO (XI
    (XI (XI (XO (XI (XO (XI (XO (XI (XI (XI (XO (XO (XO (XI (XO (XO (XI (XI
    (XI (XI (XO (XI XH)))))))))))))))))))))))))))))) :: ((Npos (XI (XI (XO
    (XO (XI (XI (XO (XO (XO (XO (XO (XI (XI (XI (XI (XO (XO (XO (XI (XI (XI
    (XI (XI (XI (XI (XO (XI (XO (XI (XO
    XH))))))))))))))))))))))))))))))) :: ((Npos (XO (XI (XI (XI (XI (XO (XI
    (XI (XO (XI (XO (XO (XI (XO (XI (XO (XI (XI (XI (XO (XO (XO (XI (XI (XO
    (XO (XO (XI (XI XH)))))))))))))))))))))))))))))) :: ((Npos (XO (XI (XI
    (XI (XI (XI (XO (XI (XO (XO (XO (XO (XI (XI (XI (XI (XI (XO (XO (XI (XO
    (XI (XO (XO (XI (XO (XO (XO (XI (XO (XI
    XH)))))))))))))))))))))))))))))))) :: ((Npos (XO (XI (XI (XI (XI (XO (XI
    (XI (XI (XI (XI (XI (XI (XI (XI (XO (XI (XI (XI (XO (XO (XI (XI (XI (XO
    (XO (XI (XI (XO XH)))))))))))))))))))))))))))))) :: ((Npos (XO (XI (XI
    (XI (XO (XO (XO (XO (XO (XI (XI (XI (XO (XI (XI (XO (XI (XO (XI (XI (XO
    (XI (XI (XI (XO (XI (XO (XO (XI
    XH)))))))))))))))))))))))))))))) :: ((Npos (XO (XO (XI (XO (XI (XI (XO
    (XI (XI (XO (XO (XO (XO (XI (XI (XO (XO (XO (XO (XI (XI (XI (XI (XO (XO
    (XO (XI (XO (XI (XI XH))))))))))))))))))))))))))))))) :: ((Npos (XO (XI
    (XO (XI (XO (XO (XO (XI (XI (XO (XI (XO (XI (XI (XI (XI (XO (XI (XI (XO
    (XI (XI (XI (XO (XI (XO (XO (XO (XO (XI (XO
    XH)))))))))))))))))))))))))))))))) :: ((Npos (XO (XI (XI (XI (XI (XO (XO
    (XO (XO (XO (XI (XI (XO (XO (XO (XI (XO (XO (XO (XO (XO (XO (XI (XO (XI
    (XO (XO (XO (XI (XI (XI XH)))))))))))))))))))))))))))))))) :: ((Npos (XO
    (XO (XI (XI (XO (XI (XO (XO (XI (XI (XO (XI (XO (XI (XI (XI (XO (XI (XO
    (XI (XI (XI (XO (XI (XI (XO (XI (XO (XI (XI (XO
    XH)))))))))))))))))))))))))))))))) :: ((Npos (XI (XO (XO (XO (XI (XO (XO
    (XI (XO (XI (XI (XI (XI (XO (XO (XO (XO (XO (XI (XO (XO (XI (XI (XO (XI
    (XI (XO (XO (XO (XI XH))))))))))))))))))))))))))))))) :: ((Npos (XI (XO
    (XO (XI (XO (XI (XI (XO (XI (XO (XI (XI (XI (XO (XI (XI (XI (XO (XI (XI
    (XI (XI (XI (XI (XI (XI (XI (XI (XO
    XH)))))))))))))))))))))))))))))) :: ((Npos (XO (XO (XO (XO (XO (XI (XI
    (XO (XI (XO (XO (XO (XI (XI (XI (XI (XO (XO (XI (XO (XI (XI (XI (XO (XO
    (XI (XI (XO (XO (XO XH))))))))))))))))))))))))))))))) :: ((Npos (XO (XO
    (XI (XI (XI (XO (XO (XO (XO (XI (XO (XO (XI (XO (XO (XO (XI (XI (XI (XI
    (XI (XI (XO (XO (XO (XI (XI (XI (XI (XI (XI
    XH)))))))))))))))))))))))))))))))) :: ((Npos (XI (XI (XI (XO (XI (XO (XO
    (XO (XI (XI (XI (XI (XI (XI (XO (XO (XO (XO (XI (XI (XI (XI (XO (XO (XI
    (XI (XO (XI (XI (XI (XI XH)))))))))))))))))))))))))))))))) :: ((Npos (XI
    (XI (XI (XI (XI (XO (XO (XO (XI (XO (XI (XO (XI (XO (XO (XI (XO (XI (XI
    (XO (XO (XI (XO (XO (XI (XO (XO (XI (XO (XO (XI
    XH)))))))))))))))))))))))))))))))) :: ((Npos (XO (XI (XO (XI (XI (XI (XI
    (XI (XI (XI (XI (XO (XO (XI (XO (XI (XI (XI (XO (XO (XO (XO (XI (XO (XO
    (XI (XI (XO XH))))))))))))))))))))))))))))) :: ((Npos (XO (XI (XO (XO (XI
    (XO (XO (XO (XI (XI (XI (XO (XO (XO (XI (XI (XO (XO (XO (XI (XO (XO (XI
    (XO (XO (XI (XO (XO (XI (XO (XO
    XH)))))))))))))))))))))))))))))))) :: ((Npos (XI (XO (XI (XI (XI (XI (XI
    (XI (XO (XI (XI (XI (XO (XI (XO (XI (XO (XI (XO (XI (XI (XO (XI (XO (XI
    (XO (XI (XI (XO (XO (XO XH)))))))))))))))))))))))))))))))) :: ((Npos (XI
    (XO (XO (XO (XO (XI (XO (XI (XO (XO (XI (XI (XO (XI (XO (XO (XI (XI (XI
    (XI (XI (XO (XO (XI (XI (XO (XO (XI (XI (XO (XI
    XH)))))))))))))))))))))))))))))))) :: ((Npos (XI (XO (XO (XI (XO (XO (XO
    (XO (XI (XI (XO (XI (XO (XI (XO (XO (XO (XO (XO (XI (XO (XI (XO (XO (XO
    (XO (XI (XI (XI (XO (XO XH)))))))))))))))))))))))))))))))) :: ((Npos (XO
    (XI (XI (XI (XO (XI (XI (XI (XO (XO (XI (XI (XI (XO (XO (XI (XO (XO (XI
    (XO (XI (XI (XI (XO (XO (XI (XO (XO (XO (XI
    XH))))))))))))))))))))))))))))))) :: ((Npos (XI (XO (XI (XI (XO (XI (XO
    (XO (XI (XO (XI (XO (XO (XO (XI (XI (XO (XI (XO (XI (XI (XO (XO (XI (XO
    (XO (XI (XI (XI (XO XH))))))))))))))))))))))))))))))) :: ((Npos (XO (XI
    (XO (XI (XO (XI (XO (XI (XI (XO (XO (XO (XI (XI (XI (XO (XI (XO (XO (XI
    (XO (XI (XO (XO (XI (XO (XO (XI (XO (XO
    XH))))))))))))))))))))))))))))))) :: ((Npos (XO (XO (XO (XI (XI (XO (XO
    (XI (XO (XO (XO (XI (XI (XI (XI (XO (XO (XO (XI (XO (XI (XI (XI (XI (XI
    (XO (XO (XI (XO XH)))))))))))))))))))))))))))))) :: ((Npos (XI (XI (XO
    (XO (XI (XI (XI (XO (XI (XO (XI (XO (XO (XO (XI (XI (XO (XI (XI (XO (XI
    (XO (XI (XO (XO (XO (XI (XI (XI (XO (XI
    XH)))))))))))))))))))))))))))))))) :: ((Npos (XI (XI (XO (XO (XI (XO (XI
    (XI (XO (XO (XI (XI (XO (XI (XO (XO (XO (XO (XI (XO (XO (XI (XO (XO (XO
    (XO (XO (XI (XI (XO (XO XH)))))))))))))))))))))))))))))))) :: ((Npos (XI
    (XO (XI (XO (XO (XO (XI (XI (XO (XI (XI (XO (XI (XO (XI (XI (XO (XO (XI
    (XI (XI (XO (XO (XO (XI (XO (XI (XI (XI (XO (XO
    XH)))))))))))))))))))))))))))))))) :: ((Npos (XO (XO (XI (XO (XI (XI (XI
    (XO (XI (XI (XO (XI (XI (XO (XO (XI (XO (XI (XO (XI (XI (XO (XI (XO (XI
    (XO (XI (XO (XI XH)))))))))))))))))))))))))))))) :: ((Npos (XO (XO (XI
    (XO (XO (XI (XI (XO (XI (XI (XO (XO (XI (XO (XO (XI (XI (XI (XI (XO (XI
    (XI (XI (XI (XI (XI (XO (XO (XO (XO (XI
    XH)))))))))))))))))))))))))))))))) :: ((Npos (XO (XI (XI (XI (XI (XI (XO
    (XO (XI (XO (XI (XO (XI (XO (XO (XI (XO (XI (XI (XO (XI (XI (XO (XI (XO
    (XO (XO (XI (XI (XI (XO XH)))))))))))))))))))))))))))))))) :: ((Npos (XO
    (XI (XI (XO (XI (XI (XO (XO (XI (XI (XI (XO (XO (XI (XI (XO (XI (XI (XO
    (XO (XO (XO (XO (XO (XI (XI (XO (XI (XI
    XH)))))))))))))))))))))))))))))) :: ((Npos (XO (XI (XO (XI (XO (XI (XI
    (XO (XO (XO (XI (XO (XI (XI (XO (XO (XI (XI (XO (XO (XI (XO (XI (XO (XI
    (XO (XO (XO (XO (XI (XI XH)))))))))))))))))))))))))))))))) :: ((Npos (XI
    (XI (XO (XO (XI (XO (XO (XO (XO (XI (XI (XO (XO (XO (XO (XI (XI (XI (XO
    (XI (XO (XO (XO (XI (XO (XO (XO (XI (XO (XO (XO
    XH)))))))))))))))))))))))))))))))) :: ((Npos (XO (XO (XI (XO (XI (XO (XO
    (XI (XI (XO (XI (XI (XI (XI (XO (XI (XO (XO (XI (XI (XI (XI (XI (XO (XO
    XH)))))))))))))))))))))))))) :: ((Npos (XO (XO (XI (XI (XI (XI (XO (XO
    (XO (XI (XI (XI (XI (XI (XO (XO (XO (XO (XI (XO (XI (XI (XO (XO (XO (XO
    (XI (XO (XI (XI XH))))))))))))))))))))))))))))))) :: ((Npos (XI (XO (XI
    (XI (XI (XI (XI (XI (XI (XO (XI (XO (XI (XI (XI (XO (XO (XI (XO (XO (XO
    (XI (XO (XO (XO (XO (XO (XI (XO (XO (XO
    XH)))))))))))))))))))))))))))))))) :: ((Npos (XO (XI (XO (XI (XI (XI (XI
    (XI (XO (XI (XO (XI (XO (XO (XO (XI (XO (XI (XI (XI (XO (XO (XI (XI (XI
    (XO (XI (XI (XI XH)))))))))))))))))))))))))))))) :: ((Npos (XI (XI (XO
    (XO (XO (XI (XI (XO (XO (XI (XI (XI (XO (XI (XI (XI (XI (XO (XI (XO (XO
    (XO (XO (XO (XI (XO (XI (XO (XO (XI
    XH))))))))))))))))))))))))))))))) :: ((Npos (XO (XO (XO (XI (XI (XI (XO
    (XO (XI (XO (XO (XI (XI (XI (XI (XO (XO (XI (XO (XI (XO (XO
    XH))))))))))))))))))))))) :: ((Npos (XO (XI (XI (XO (XO (XO (XI (XO (XI
    (XO (XO (XI (XI (XO (XO (XI (XO (XI (XI (XO (XO (XO (XI (XI (XI (XI (XO
    (XI XH))))))))))))))))))))))))))))) :: ((Npos (XI (XI (XO (XO (XI (XO (XO
    (XO (XI (XO (XO (XI (XI (XI (XI (XI (XI (XI (XO (XO (XI (XO (XI (XI (XO
    (XO (XI (XO (XO (XI (XO XH)))))))))))))))))))))))))))))))) :: ((Npos (XO
    (XI (XI (XO (XI (XO (XO (XO (XI (XO (XI (XO (XO (XI (XO (XO (XI (XI (XI
    (XI (XO (XO (XI (XI (XI (XO (XI (XO (XO (XO (XI
    XH)))))))))))))))))))))))))))))))) :: ((Npos (XI (XO (XO (XI (XO (XI (XO
    (XI (XI (XO (XI (XI (XI (XO (XO (XI (XO (XO (XI (XI (XI (XI (XI (XO (XI
    (XI (XO (XI (XO (XO XH))))))))))))))))))))))))))))))) :: ((Npos (XO (XI
    (XO (XI (XO (XI (XO (XO (XO (XO (XI (XO (XO (XO (XO (XO (XO (XO (XO (XO
    (XO (XI (XO (XI (XI (XO (XO (XI (XO (XI (XI
    XH)))))))))))))))))))))))))))))))) :: ((Npos (XI (XI (XI (XO (XI (XO (XO
    (XI (XI (XI (XI (XO (XI (XI (XO (XI (XO (XI (XO (XO (XI (XO (XI (XO (XI
    (XI (XO (XO (XI (XO (XI XH)))))))))))))))))))))))))))))))) :: ((Npos (XO
    (XO (XI (XO (XO (XO (XI (XI (XI (XO (XI (XI (XI (XI (XI (XI (XO (XO (XI
    (XO (XI (XO (XO (XI (XO (XO (XI (XI (XI (XO (XO
    XH)))))))))))))))))))))))))))))))) :: ((Npos (XO (XI (XO (XI (XO (XO (XI
    (XI (XI (XO (XO (XI (XO (XO (XI (XO (XI (XI (XO (XO (XI (XI (XO (XO (XI
    (XI (XI (XI (XI (XO (XI XH)))))))))))))))))))))))))))))))) :: ((Npos (XI
    (XO (XI (XI (XI (XI (XO (XO (XI (XO (XI (XI (XI (XI (XI (XO (XO (XO (XI
    (XO (XO (XI (XO (XO (XI (XO (XI (XO (XO (XI
    XH))))))))))))))))))))))))))))))) :: ((Npos (XI (XO (XO (XO (XO (XI (XO
    (XO (XI (XI (XO (XO (XO (XO (XO (XI (XI (XO (XO (XO (XO (XO (XI (XI (XI
    (XO (XO (XO (XO (XO (XI XH)))))))))))))))))))))))))))))))) :: ((Npos (XO
    (XO (XI (XI (XO (XI (XO (XO (XI (XI (XI (XO (XO (XO (XI (XO (XO (XO (XO
    (XI (XO (XI (XI (XI (XO (XI (XI (XO (XI (XI (XI
    XH)))))))))))))))))))))))))))))))) :: ((Npos (XI (XI (XO (XO (XI (XO (XO
    (XO (XI (XI (XO (XO (XI (XO (XO (XO (XI (XO (XI (XO (XI (XO (XO (XI (XO
    (XI (XI (XO (XI XH)))))))))))))))))))))))))))))) :: ((Npos (XI (XO (XI
    (XI (XO (XI (XO (XI (XO (XO (XO (XI (XO (XO (XO (XI (XI (XI (XO (XO (XI
    (XI (XO (XO (XI (XO (XI (XO (XO (XO (XI
    XH)))))))))))))))))))))))))))))))) :: ((Npos (XO (XO (XI (XO (XI (XI (XO
    (XO (XO (XO (XO (XI (XI (XO (XO (XO (XO (XI (XO (XI (XI (XO (XI (XI (XO
    (XO (XI (XI (XO (XO XH))))))))))))))))))))))))))))))) :: ((Npos (XI (XI
    (XO (XI (XO (XO (XO (XO (XI (XO (XO (XI (XO (XO (XI (XI (XI (XI (XO (XO
    (XO (XI (XI (XO (XI (XI (XI (XI (XO (XI (XO
    XH)))))))))))))))))))))))))))))))) :: ((Npos (XI (XI (XO (XI (XI (XI (XO
    (XO (XO (XO (XI (XO (XO (XI (XO (XO (XI (XI (XI (XI (XO (XI (XO (XI (XI
    (XO (XI (XO (XO (XO XH))))))))))))))))))))))))))))))) :: ((Npos (XO (XO
    (XO (XI (XO (XI (XI (XI (XO (XO (XI (XI (XI (XO (XI (XO (XO (XI (XI (XO
    (XI (XI (XO (XO (XI (XI (XI (XO (XO (XO (XI
    XH)))))))))))))))))))))))))))))))) :: ((Npos (XO (XI (XI (XI (XI (XI (XO
    (XI (XI (XO (XO (XO (XI (XI (XO (XO (XI (XI (XO (XO (XO (XI (XO (XI (XI
    (XO (XO (XI (XO XH)))))))))))))))))))))))))))))) :: ((Npos (XO (XI (XI
    (XI (XO (XO (XO (XO (XO (XO (XI (XI (XO (XO (XO (XI (XI (XI (XO (XO (XI
    (XO (XI (XI (XO (XO (XO (XO (XI (XO
    XH))))))))))))))))))))))))))))))) :: ((Npos (XI (XO (XI (XO (XO (XI (XI
    (XI (XO (XI (XO (XO (XO (XO (XI (XI (XO (XI (XO (XI (XO (XI (XO (XO (XI
    (XI (XI (XI (XO (XO (XO XH)))))))))))))))))))))))))))))))) :: ((Npos (XO
    (XO (XO (XO (XI (XO (XO (XI (XI (XI (XO (XO (XI (XI (XI (XO (XI (XI (XO
    (XI (XO (XI (XI (XO (XO (XI XH))))))))))))))))))))))))))) :: ((Npos (XI
    (XI (XO (XO (XO (XO (XI (XI (XO (XO (XO (XO (XI (XI (XI (XO (XO (XI (XI
    (XO (XO (XI (XO (XI (XO (XO (XI (XI (XI (XO (XI
    XH)))))))))))))))))))))))))))))))) :: ((Npos (XI (XI (XO (XO (XI (XO (XO
    (XI (XI (XI (XO (XI (XI (XO (XI (XI (XO (XO (XO (XO (XO (XI (XI (XI (XI
    (XO (XI (XO (XI XH)))))))))))))))))))))))))))))) :: ((Npos (XI (XO (XO
    (XI (XO (XO (XO (XI (XO (XI (XO (XI (XO (XI (XI (XO (XO (XI (XO (XI (XI
    (XO (XI (XO (XI (XO (XO (XI (XI (XO (XI
    XH)))))))))))))))))))))))))))))))) :: ((Npos (XO (XI (XO (XO (XO (XO (XO
    (XI (XI (XO (XI (XI (XO (XI (XI (XI (XO (XO (XI (XI (XI (XO (XI (XO (XO
    (XI (XO (XO (XI XH)))))))))))))))))))))))))))))) :: ((Npos (XI (XI (XI
    (XO (XO (XI (XO (XI (XO (XO (XO (XO (XO (XO (XI (XI (XO (XO (XI (XO (XO
    (XI (XI (XI (XI (XI (XO (XO (XI (XI
    XH))))))))))))))))))))))))))))))) :: ((Npos (XO (XO (XI (XI (XI (XI (XO
    (XO (XI (XI (XO (XI (XI (XO (XI (XO (XO (XI (XI (XI (XO (XO (XI (XO (XO
    (XI (XI (XO (XO (XI (XI XH)))))))))))))))))))))))))))))))) :: ((Npos (XI
    (XI (XI (XO (XO (XO (XI (XO (XI (XO (XO (XO (XI (XI (XO (XO (XO (XO (XI
    (XO (XO (XI (XO (XI (XI (XI (XI (XI (XO (XI (XO
    XH)))))))))))))))))))))))))))))))) :: ((Npos (XI (XO (XI (XI (XI (XI (XI
    (XI (XO (XI (XO (XI (XO (XI (XI (XI (XO (XO (XO (XO (XI (XO (XO (XI (XI
    (XO (XI (XO (XI (XI XH))))))))))))))))))))))))))))))) :: ((Npos (XI (XO
    (XI (XO (XI (XI (XO (XI (XO (XI (XI (XO (XI (XO (XO (XI (XO (XI (XI (XI
    (XI (XI (XO (XI (XI (XO (XI (XO (XO (XI
    XH))))))))))))))))))))))))))))))) :: ((Npos (XI (XI (XO (XI (XI (XO (XO
    (XO (XI (XO (XO (XO (XO (XO (XO (XI (XO (XO (XO (XI (XO (XO (XI (XI
    XH))))))))))))))))))))))))) :: ((Npos (XO (XO (XO (XI (XO (XO (XO (XI (XI
    (XO (XI (XO (XO (XI (XO (XO (XO (XI (XO (XI (XI (XI (XI (XO (XO (XO (XO
    (XO (XI (XO (XI
    XH)))))))))))))))))))))))))))))))) :: [])))))))))))))))))))))))))))))))))))))))))))))))))))))))))))))))))))))))))))))))))))))))))))))))))))))))))))))))))))))))))))))))))))))))))))))))))))))))))))))))))))))))))))))))))))))))))))))))))))))))))))))))))))))))))))))))))))))))))))))))))))))))))))))))

(** val v3 : n list **)

let v3 =
  (Npos (XO (XO (XO (XI (XI (XO (XI (XO (XO (XO (XI (XI (XI (XO (XI (XI (XO
    (XI (XO (XO (XO (XO (XO (XO (XI (XI (XI (XO (XO (XO
    XH))))))))))))))))))))))))))))))) :: ((Npos (XI (XI (XO (XI (XI (XO (XO
    (XI (XO (XO (XO (XO (XI (XO (XI (XO (XO (XI (XI (XO (XO (XI (XI (XO (XO
    (XO (XI (XI (XO XH)))))))))))))))))))))))))))))) :: ((Npos (XI (XI (XO
    (XI (XO (XO (XI (XO (XI (XO (XO (XI (XI (XO (XI (XI (XI (XO (XO (XO (XO
    (XI (XI (XO (XI (XI (XI (XO (XI (XO (XO
    XH)))))))))))))))))))))))))))))))) :: ((Npos (XI (XO (XI (XO (XO (XI (XI
    (XO (XI (XI (XO (XI (XO (XI (XI (XO (XI (XO (XI (XO (XO (XO (XO (XI (XI
    (XI (XI (XI (XI (XI (XO XH)))))))))))))))))))))))))))))))) :: ((Npos (XO
    (XI (XO (XO (XI (XO (XI (XI (XO (XO (XO (XO (XI (XO (XI (XO (XI (XO (XI
    (XI (XI (XO (XI (XI (XI (XI (XO (XO (XO (XO (XI
    XH)))))))))))))))))))))))))))))))) :: ((Npos (XI (XO (XI (XI (XI (XO (XO
    (XO (XI (XI (XO (XO (XO (XO (XI (XO (XI (XI (XI (XI (XO (XO (XO (XI (XI
    (XI (XI (XO (XO (XO XH))))))))))))))))))))))))))))))) :: ((Npos (XO (XO
    (XI (XI (XO (XI (XI (XO (XO (XO (XO (XO (XI (XI (XO (XI (XO (XI (XO (XO
    (XI (XO (XI (XI (XO (XI (XO (XO (XI (XO (XO
    XH)))))))))))))))))))))))))))))))) :: ((Npos (XO (XI (XI (XI (XI (XI (XO
    (XI (XO (XO (XO (XO (XI (XI (XO (XI (XO (XI (XI (XI (XI (XI (XI (XI (XO
    (XO (XI (XI (XO XH)))))))))))))))))))))))))))))) :: ((Npos (XO (XI (XI
    (XO (XO (XO (XO (XI (XO (XI (XI (XO (XI (XI (XO (XI (XO (XO (XO (XI (XI
    (XO (XO (XI (XO (XI (XO (XI (XO
    XH)))))))))))))))))))))))))))))) :: ((Npos (XO (XO (XI (XI (XO (XI (XO
    (XO (XI (XI (XO (XI (XO (XI (XO (XI (XO (XO (XO (XO (XI (XO (XI (XO (XI
    (XO (XI (XO (XI (XI XH))))))))))))))))))))))))))))))) :: ((Npos (XI (XI
    (XI (XI (XO (XI (XI (XO (XI (XI (XO (XI (XI (XI (XI (XO (XO (XI (XI (XO
    (XO (XO (XI (XO (XO (XO (XO (XI (XI (XO (XI
    XH)))))))))))))))))))))))))))))))) :: ((Npos (XO (XO (XO (XI (XI (XO (XI
    (XO (XO (XO (XO (XI (XO (XO (XO (XO (XI (XI (XI (XO (XO (XI (XO (XO (XO
    (XO (XI (XI (XO (XO XH))))))))))))))))))))))))))))))) :: ((Npos (XO (XI
    (XI (XO (XI (XO (XO (XI (XI (XO (XI (XO (XI (XI (XI (XO (XI (XI (XO (XO
    (XO (XO (XO (XO (XI (XO (XO (XI (XI (XO
    XH))))))))))))))))))))))))))))))) :: ((Npos (XI (XO (XI (XI (XI (XO (XI
    (XI (XO (XI (XI (XI (XI (XO (XO (XI (XO (XI (XI (XO (XI (XI (XO (XI (XI
    (XO (XI (XO XH))))))))))))))))))))))))))))) :: ((Npos (XO (XO (XO (XI (XO
    (XI (XI (XO (XO (XO (XO (XO (XO (XO (XI (XO (XO (XO (XI (XO (XO (XO (XO
    (XI (XO (XI (XO (XI (XI (XI XH))))))))))))))))))))))))))))))) :: ((Npos
    (XO (XO (XO (XI (XI (XI (XO (XI (XO (XO (XO (XI (XO (XO (XI (XI (XO (XI
    (XO (XO (XO (XO (XI (XO (XI (XO (XO (XI (XO (XI (XI
    XH)))))))))))))))))))))))))))))))) :: ((Npos (XI (XO (XO (XI (XO (XO (XO
    (XO (XO (XI (XI (XO (XI (XI (XO (XO (XO (XO (XO (XI (XO (XI (XO (XI (XO
    (XI (XI (XI (XO (XI (XO XH)))))))))))))))))))))))))))))))) :: ((Npos (XI
    (XI (XI (XO (XI (XI (XI (XO (XO (XO (XO (XO (XO (XI (XO (XO (XI (XI (XO
    (XI (XO (XO (XI (XI (XI (XO (XI (XO (XI
    XH)))))))))))))))))))))))))))))) :: ((Npos (XI (XI (XO (XO (XI (XI (XI
    (XO (XO (XI (XO (XO (XO (XI (XI (XO (XO (XO (XI (XO (XI (XI (XI (XO (XO
    (XO (XI (XI (XO (XI (XI XH)))))))))))))))))))))))))))))))) :: ((Npos (XI
    (XI (XO (XI (XO (XO (XI (XI (XO (XO (XO (XO (XI (XI (XO (XI (XI (XI (XO
    (XO (XI (XO (XO (XI (XO (XI (XO (XI (XI (XI
    XH))))))))))))))))))))))))))))))) :: ((Npos (XO (XI (XI (XO (XO (XI (XO
    (XO (XO (XI (XO (XI (XI (XO (XO (XO (XI (XO (XO (XO (XO (XO (XI (XO (XI
    (XO (XO (XI (XO XH)))))))))))))))))))))))))))))) :: ((Npos (XI (XO (XO
    (XO (XO (XI (XI (XI (XO (XO (XO (XI (XO (XO (XO (XO (XO (XO (XI (XI (XI
    (XO (XO (XO (XI (XI (XO XH)))))))))))))))))))))))))))) :: ((Npos (XO (XI
    (XO (XO (XI (XO (XO (XI (XO (XO (XI (XI (XO (XO (XO (XO (XO (XO (XI (XO
    (XO (XI (XO (XI (XI (XO (XO (XO (XI
    XH)))))))))))))))))))))))))))))) :: ((Npos (XO (XO (XO (XI (XO (XI (XI
    (XO (XI (XO (XO (XO (XI (XI (XI (XO (XI (XI (XI (XI (XI (XI (XO (XO (XI
    (XI (XO (XO (XI XH)))))))))))))))))))))))))))))) :: ((Npos (XO (XI (XI
    (XI (XI (XO (XO (XO (XI (XI (XI (XI (XI (XO (XI (XI (XO (XI (XO (XI (XI
    (XI (XI (XO (XO (XO (XI (XI (XO (XO
    XH))))))))))))))))))))))))))))))) :: ((Npos (XO (XO (XI (XO (XO (XI (XI
    (XI (XO (XI (XO (XI (XI (XO (XI (XI (XO (XO (XI (XI (XO (XO (XI (XO (XO
    (XI (XI (XO (XO (XO (XO XH)))))))))))))))))))))))))))))))) :: ((Npos (XI
    (XO (XI (XO (XO (XO (XO (XO (XI (XO (XI (XO (XO (XI (XI (XO (XI (XO (XI
    (XO (XO (XO (XO (XO (XI (XI (XO (XO (XI (XI (XO
    XH)))))))))))))))))))))))))))))))) :: ((Npos (XO (XO (XO (XO (XO (XI (XO
    (XI (XI (XI (XI (XI (XO (XI (XI (XO (XI (XI (XI (XO (XO (XI (XO (XI (XO
    (XO (XO (XI (XO (XI XH))))))))))))))))))))))))))))))) :: ((Npos (XO (XI
    (XI (XO (XO (XO (XI (XI (XO (XO (XI (XI (XI (XI (XO (XO (XI (XO (XO (XI
    (XI (XI (XI (XO (XI (XO (XI (XO (XO (XO (XO
    XH)))))))))))))))))))))))))))))))) :: ((Npos (XO (XO (XO (XO (XO (XI (XI
    (XI (XI (XO (XI (XO (XO (XI (XO (XO (XI (XI (XO (XO (XI (XO (XO (XI (XO
    (XI (XI (XI (XI (XI (XI XH)))))))))))))))))))))))))))))))) :: ((Npos (XI
    (XO (XI (XO (XI (XO (XI (XO (XO (XO (XI (XO (XO (XI (XO (XO (XO (XI (XO
    (XI (XI (XI (XO (XO (XO (XI (XO (XO (XO (XO (XO
    XH)))))))))))))))))))))))))))))))) :: ((Npos (XO (XO (XI (XI (XI (XI (XO
    (XO (XI (XO (XI (XI (XI (XI (XI (XO (XI (XO (XO (XI (XI (XO (XI (XI (XI
    (XO (XI (XI (XO XH)))))))))))))))))))))))))))))) :: ((Npos (XO (XI (XO
    (XO (XO (XI (XO (XI (XI (XI (XI (XI (XI (XI (XO (XI (XI (XO (XI (XO (XI
    (XI (XI (XO (XO (XI (XO (XI (XO (XO
    XH))))))))))))))))))))))))))))))) :: ((Npos (XI (XO (XI (XO (XI (XO (XI
    (XI (XI (XI (XI (XO (XI (XO (XI (XI (XI (XI (XI (XI (XI (XO (XO (XO (XI
    (XI (XI (XO (XO (XO XH))))))))))))))))))))))))))))))) :: ((Npos (XO (XI
    (XI (XO (XI (XO (XO (XI (XO (XO (XO (XO (XI (XO (XI (XI (XI (XO (XI (XI
    (XO (XO (XO (XI (XO (XI (XI (XI (XI (XO (XO
    XH)))))))))))))))))))))))))))))))) :: ((Npos (XI (XO (XI (XI (XI (XO (XO
    (XO (XI (XI (XI (XO (XI (XO (XO (XO (XI (XI (XO (XO (XI (XO (XI (XO (XO
    (XI (XI (XO (XO XH)))))))))))))))))))))))))))))) :: ((Npos (XO (XI (XO
    (XI (XI (XI (XI (XO (XI (XI (XO (XI (XO (XI (XI (XI (XO (XI (XI (XI (XO
    (XO (XO (XI (XO (XO (XI (XO (XO (XI
    XH))))))))))))))))))))))))))))))) :: ((Npos (XO (XI (XI (XO (XO (XO (XI
    (XO (XO (XO (XI (XO (XI (XO (XO (XO (XI (XO (XI (XI (XI (XI (XI (XO (XO
    (XI (XO (XO (XO (XI (XO XH)))))))))))))))))))))))))))))))) :: ((Npos (XI
    (XO (XO (XO (XO (XI (XI (XO (XI (XO (XO (XO (XI (XO (XO (XI (XI (XI (XO
    (XI (XI (XO (XO (XI (XO (XI (XO (XI
    XH))))))))))))))))))))))))))))) :: ((Npos (XO (XI (XI (XI (XO (XI (XI (XO
    (XI (XI (XO (XO (XI (XO (XO (XI (XI (XI (XO (XO (XI (XI (XO (XI (XI (XO
    (XI (XO (XI (XI (XI XH)))))))))))))))))))))))))))))))) :: ((Npos (XO (XI
    (XO (XO (XI (XO (XI (XO (XI (XO (XO (XO (XI (XI (XO (XO (XO (XI (XO (XI
    (XO (XO (XI (XI (XO (XO (XO (XO (XO (XI (XI
    XH)))))))))))))))))))))))))))))))) :: ((Npos (XO (XO (XO (XO (XO (XO (XI
    (XO (XI (XO (XO (XO (XO (XO (XI (XI (XO (XI (XI (XI (XI (XI (XO (XO (XO
    XH)))))))))))))))))))))))))) :: ((Npos (XI (XO (XO (XO (XO (XO (XO (XO
    (XI (XO (XI (XO (XO (XO (XO (XI (XI (XO (XI (XI (XI (XI (XI (XO (XI (XI
    (XO XH)))))))))))))))))))))))))))) :: ((Npos (XI (XI (XO (XI (XO (XI (XI
    (XO (XI (XO (XO (XI (XO (XI (XO (XI (XO (XI (XI (XI (XO (XO (XI (XO (XI
    (XO (XI (XO (XI (XO (XI XH)))))))))))))))))))))))))))))))) :: ((Npos (XO
    (XO (XO (XI (XI (XO (XO (XI (XO (XI (XI (XO (XI (XI (XO (XO (XI (XI (XO
    (XO (XO (XI (XI (XO (XO (XO (XI (XO (XI (XI
    XH))))))))))))))))))))))))))))))) :: ((Npos (XO (XO (XO (XO (XI (XO (XO
    (XO (XO (XI (XO (XI (XI (XI (XO (XO (XO (XO (XI (XI (XO (XO (XI (XI (XI
    (XO (XI (XI (XO (XI (XI XH)))))))))))))))))))))))))))))))) :: ((Npos (XO
    (XI (XO (XI (XI (XI (XI (XO (XI (XI (XI (XI (XO (XI (XI (XO (XI (XO (XI
    (XI (XO (XI (XI (XI (XO (XI (XI (XO (XI (XI (XO
    XH)))))))))))))))))))))))))))))))) :: ((Npos (XO (XI (XI (XI (XI (XI (XO
    (XO (XI (XO (XI (XI (XI (XO (XI (XO (XO (XI (XO (XO (XO (XI (XI (XI (XO
    (XO (XI (XI (XO (XI (XO XH)))))))))))))))))))))))))))))))) :: ((Npos (XO
    (XO (XO (XO (XI (XI (XI (XI (XO (XO (XO (XO (XO (XI (XO (XI (XO (XI (XI
    (XI (XI (XO (XO (XO (XI (XO (XO (XO (XI (XI (XI
    XH)))))))))))))))))))))))))))))))) :: ((Npos (XI (XI (XO (XO (XI (XI (XI
    (XI (XI (XI (XO (XI (XI (XO (XO (XI (XO (XO (XO (XI (XI (XI (XO (XO (XO
    (XI (XI (XO (XI (XI (XO XH)))))))))))))))))))))))))))))))) :: ((Npos (XI
    (XI (XO (XO (XI (XI (XI (XI (XO (XI (XI (XI (XO (XO (XO (XO (XO (XO (XI
    (XO (XI (XI (XI (XO (XI (XO (XI (XO (XO (XI
    XH))))))))))))))))))))))))))))))) :: ((Npos (XO (XO (XI (XI (XO (XI (XO
    (XO (XI (XO (XO (XI (XO (XO (XO (XI (XO (XI (XI (XI (XI (XO (XI (XO (XI
    (XO (XI (XO (XI (XI (XI XH)))))))))))))))))))))))))))))))) :: ((Npos (XO
    (XO (XO (XO (XO (XO (XO (XO (XI (XO (XO (XO (XO (XI (XI (XO (XI (XO (XI
    (XI (XI (XO (XO (XO (XI (XO (XI (XO (XI (XO (XI
    XH)))))))))))))))))))))))))))))))) :: ((Npos (XI (XO (XI (XI (XO (XO (XI
    (XI (XO (XI (XO (XI (XI (XO (XI (XO (XO (XI (XO (XO (XO (XI (XI (XO (XI
    (XI (XI (XI (XI (XO (XO XH)))))))))))))))))))))))))))))))) :: ((Npos (XI
    (XI (XO (XO (XO (XO (XI (XO (XI (XO (XO (XO (XI (XO (XO (XI (XI (XO (XI
    (XI (XI (XI (XI (XI (XI (XI (XO (XO (XI (XO
    XH))))))))))))))))))))))))))))))) :: ((Npos (XI (XO (XI (XO (XO (XO (XO
    (XI (XO (XI (XI (XO (XI (XI (XI (XO (XO (XI (XO (XO (XO (XI (XO (XI (XI
    (XI (XI (XI (XI (XI (XO XH)))))))))))))))))))))))))))))))) :: ((Npos (XI
    (XO (XI (XI (XI (XO (XO (XO (XI (XI (XI (XO (XO (XI (XO (XO (XI (XI (XI
    (XO (XO (XO (XI (XO (XI (XO (XI (XO (XI (XO
    XH))))))))))))))))))))))))))))))) :: ((Npos (XO (XO (XO (XI (XI (XO (XI
    (XI (XO (XI (XO (XO (XI (XI (XI (XI (XI (XO (XO (XI (XO (XI (XO (XI (XI
    (XI (XI (XO (XI (XO (XO XH)))))))))))))))))))))))))))))))) :: ((Npos (XO
    (XO (XI (XI (XO (XI (XI (XI (XO (XO (XI (XI (XO (XI (XI (XI (XI (XO (XI
    (XI (XI (XO (XI (XO (XI (XO (XI (XI (XI
    XH)))))))))))))))))))))))))))))) :: ((Npos (XI (XI (XO (XO (XO (XI (XI
    (XI (XI (XO (XO (XI (XO (XO (XI (XO (XI (XO (XI (XI (XI (XO (XO (XI (XO
    (XI (XI (XI (XO (XI XH))))))))))))))))))))))))))))))) :: ((Npos (XI (XI
    (XO (XO (XI (XI (XO (XI (XO (XI (XI (XO (XO (XO (XI (XI (XI (XI (XO (XI
    (XO (XO (XO (XO (XO (XI (XI (XI (XI (XI (XI
    XH)))))))))))))))))))))))))))))))) :: ((Npos (XI (XO (XO (XO (XO (XI (XI
    (XO (XO (XO (XO (XI (XO (XO (XI (XI (XO (XI (XI (XO (XO (XO (XO (XI (XO
    (XI (XI (XI (XO (XI XH))))))))))))))))))))))))))))))) :: ((Npos (XI (XO
    (XO (XO (XI (XO (XO (XI (XO (XO (XO (XI (XO (XI (XO (XO (XI (XO (XO (XO
    (XO (XO (XI (XO (XI (XO (XI (XI (XO (XI (XO
    XH)))))))))))))))))))))))))))))))) :: ((Npos (XI (XO (XI (XI (XO (XO (XO
    (XO (XI (XO (XO (XO (XI (XO (XI (XI (XI (XI (XI (XI (XI (XO (XI (XO (XI
    (XI (XO (XO (XO (XO (XI XH)))))))))))))))))))))))))))))))) :: ((Npos (XO
    (XI (XO (XI (XO (XI (XI (XO (XI (XO (XO (XO (XO (XI (XI (XI (XO (XO (XO
    (XI (XO (XI (XO (XO (XO (XI (XI (XO (XO (XI (XO
    XH)))))))))))))))))))))))))))))))) :: ((Npos (XI (XO (XO (XI (XO (XO (XO
    (XO (XI (XO (XI (XO (XI (XO (XI (XO (XI (XI (XO (XO (XO (XI (XO (XO (XO
    (XI (XI (XO (XO (XI (XO XH)))))))))))))))))))))))))))))))) :: ((Npos (XO
    (XI (XO (XO (XI (XO (XI (XI (XO (XO (XI (XI (XI (XO (XO (XO (XI (XO (XO
    (XI (XI (XO (XO (XO (XI (XO (XO (XI (XI (XI (XO
    XH)))))))))))))))))))))))))))))))) :: ((Npos (XO (XO (XO (XI (XO (XI (XO
    (XO (XI (XI (XO (XO (XO (XI (XO (XO (XI (XO (XI (XO (XO (XI (XO (XI (XI
    (XI (XO (XO (XI (XO (XO XH)))))))))))))))))))))))))))))))) :: ((Npos (XI
    (XO (XI (XI (XO (XI (XO (XI (XI (XO (XO (XI (XO (XI (XO (XO (XO (XI (XI
    (XO (XI (XO (XO (XI (XO (XO (XI (XI (XO
    XH)))))))))))))))))))))))))))))) :: ((Npos (XI (XI (XO (XO (XO (XI (XI
    (XI (XO (XO (XI (XI (XI (XO (XO (XI (XI (XI (XI (XI (XI (XO (XI (XI (XO
    (XO (XO (XO (XO (XO XH))))))))))))))))))))))))))))))) :: ((Npos (XI (XO
    (XI (XO (XI (XI (XI (XI (XO (XO (XO (XI (XO (XO (XO (XO (XI (XO (XO (XI
    (XO (XO (XO (XO (XO (XO (XO (XO (XO (XI
    XH))))))))))))))))))))))))))))))) :: ((Npos (XI (XO (XI (XO (XO (XI (XI
    (XI (XI (XO (XO (XI (XI (XI (XO (XI (XI (XO (XO (XI (XO (XO (XO (XO (XO
    (XO (XI XH)))))))))))))))))))))))))))) :: ((Npos (XO (XO (XI (XI (XO (XO
    (XO (XO (XI (XI (XI (XO (XO (XI (XO (XI (XO (XO (XI (XO (XO (XO (XI (XO
    (XI (XI (XI (XI (XI (XO (XI XH)))))))))))))))))))))))))))))))) :: ((Npos
    (XI (XO (XI (XI (XI (XO (XO (XI (XI (XI (XO (XI (XO (XO (XO (XO (XO (XI
    (XI (XO (XI (XO (XI (XI (XI (XO (XO (XI (XI (XO (XI
    XH)))))))))))))))))))))))))))))))) :: ((Npos (XI (XO (XI (XI (XO (XI (XO
    (XO (XO (XI (XO (XO (XO (XI (XI (XO (XI (XO (XI (XO (XI (XI (XI (XO (XI
    (XI (XO (XO (XO (XI (XI XH)))))))))))))))))))))))))))))))) :: ((Npos (XO
    (XI (XI (XO (XO (XO (XI (XI (XI (XO (XI (XI (XI (XO (XO (XO (XO (XI (XI
    (XO (XO (XI (XI (XO (XI (XO (XO (XI (XO (XI (XI
    XH)))))))))))))))))))))))))))))))) :: ((Npos (XO (XI (XO (XO (XO (XO (XO
    (XO (XI (XI (XI (XI (XO (XO (XI (XO (XI (XI (XI (XO (XO (XO (XI (XI (XO
    (XO (XO (XI (XI (XO (XO XH)))))))))))))))))))))))))))))))) :: ((Npos (XI
    (XI (XI (XI (XI (XI (XI (XO (XI (XI (XI (XO (XO (XI (XI (XI (XO (XI (XI
    (XO (XO (XI (XI (XO (XO (XI (XI (XO (XO (XO
    XH))))))))))))))))))))))))))))))) :: ((Npos (XO (XO (XI (XO (XO (XO (XI
    (XI (XI (XI (XO (XO (XI (XI (XI (XI (XI (XO (XO (XI (XI (XI (XI (XI
    XH))))))))))))))))))))))))) :: ((Npos (XI (XO (XI (XO (XO (XI (XO (XI (XI
    (XI (XO (XO (XI (XI (XO (XO (XI (XO (XO (XI (XO (XI (XI (XI (XI (XO (XI
    (XI (XI (XO (XI XH)))))))))))))))))))))))))))))))) :: ((Npos (XO (XI (XO
    (XI (XI (XI (XO (XI (XI (XO (XO (XO (XI (XI (XI (XI (XO (XI (XO (XI (XO
    (XI (XI (XI (XI (XO (XO (XO (XO (XI (XI
    XH)))))))))))))))))))))))))))))))) :: ((Npos (XO (XO (XI (XO (XO (XI (XI
    (XI (XI (XI (XO (XO (XO (XO (XO (XO (XO (XI (XI (XI (XO (XI (XI (XO (XO
    (XO (XI (XO (XO (XI (XI XH)))))))))))))))))))))))))))))))) :: ((Npos (XI
    (XO (XO (XI (XI (XO (XI (XI (XI (XO (XI (XI (XO (XI (XO (XO (XO (XO (XO
    (XI (XO (XI (XI (XO (XO (XO (XO (XO (XI (XI (XO
    XH)))))))))))))))))))))))))))))))) :: ((Npos (XO (XO (XI (XO (XO (XI (XI
    (XO (XI (XI (XO (XO (XO (XO (XO (XO (XO (XI (XO (XI (XI (XI (XO (XO (XO
    (XI (XI (XO XH))))))))))))))))))))))))))))) :: ((Npos (XI (XI (XO (XO (XO
    (XO (XI (XO (XO (XI (XO (XO (XI (XO (XO (XO (XO (XI (XO (XO (XI (XI (XO
    (XI (XO (XO (XI (XI (XO (XO XH))))))))))))))))))))))))))))))) :: ((Npos
    (XI (XI (XO (XI (XI (XI (XO (XO (XO (XI (XI (XI (XO (XI (XO (XI (XO (XI
    (XI (XI (XO (XI (XO (XO (XI (XI (XO (XO (XI (XI
    XH))))))))))))))))))))))))))))))) :: ((Npos (XI (XO (XI (XO (XI (XO (XI
    (XO (XO (XO (XI (XI (XI (XI (XI (XI (XI (XO (XI (XO (XI (XI (XO (XO (XI
    (XI (XO (XI (XI (XO (XI XH)))))))))))))))))))))))))))))))) :: ((Npos (XO
    (XI (XI (XI (XO (XO (XO (XI (XI (XI (XO (XI (XO (XI (XI (XI (XI (XI (XI
    (XI (XO (XO (XI (XO (XO (XI (XO (XO (XI (XO (XO
    XH)))))))))))))))))))))))))))))))) :: ((Npos (XI (XO (XI (XO (XI (XO (XI
    (XI (XO (XO (XI (XI (XO (XO (XO (XI (XI (XO (XO (XO (XO (XI (XI (XO (XO
    (XO (XI (XO (XO (XI (XO XH)))))))))))))))))))))))))))))))) :: ((Npos (XI
    (XI (XI (XI (XO (XI (XO (XO (XI (XI (XO (XI (XO (XI (XO (XI (XO (XI (XO
    (XO (XI (XI (XO (XO (XI (XI (XI (XI (XI (XI
    XH))))))))))))))))))))))))))))))) :: ((Npos (XI (XO (XO (XO (XI (XI (XI
    (XI (XI (XI (XO (XI (XI (XI (XO (XO (XO (XO (XI (XO (XI (XI (XO (XI (XI
    (XO (XI (XO (XO (XI (XO XH)))))))))))))))))))))))))))))))) :: ((Npos (XO
    (XI (XO (XO (XO (XI (XI (XO (XI (XI (XI (XO (XI (XO (XI (XI (XO (XO (XO
    (XI (XO (XI (XO (XO (XO (XI (XI (XI (XI (XI (XO
    XH)))))))))))))))))))))))))))))))) :: ((Npos (XO (XI (XO (XI (XI (XI (XO
    (XO (XO (XO (XO (XO (XI (XO (XI (XO (XO (XI (XI (XO (XO (XO (XO (XO (XO
    (XO (XO (XO (XO (XI (XI XH)))))))))))))))))))))))))))))))) :: ((Npos (XI
    (XI (XO (XI (XO (XI (XI (XO (XI (XO (XI (XO (XO (XI (XI (XO (XI (XO (XI
    (XO (XO (XI (XO (XO (XO (XO (XO (XI (XI (XO (XI
    XH)))))))))))))))))))))))))))))))) :: ((Npos (XI (XI (XO (XO (XO (XO (XI
    (XI (XO (XI (XI (XI (XO (XI (XO (XO (XI (XO (XI (XI (XO (XO (XI (XI (XO
    (XI (XO (XO (XO (XO XH))))))))))))))))))))))))))))))) :: ((Npos (XI (XO
    (XI (XI (XI (XO (XO (XI (XI (XI (XO (XO (XI (XI (XI (XI (XI (XO (XI (XO
    (XO (XO (XI (XI (XO (XO (XO (XO (XO (XI
    XH))))))))))))))))))))))))))))))) :: ((Npos (XO (XI (XI (XO (XI (XI (XI
    (XO (XI (XI (XI (XI (XO (XI (XO (XO (XI (XI (XI (XO (XI (XO (XI (XI (XO
    (XI (XO (XO (XI (XO XH))))))))))))))))))))))))))))))) :: ((Npos (XI (XI
    (XI (XO (XO (XI (XO (XI (XI (XO (XO (XI (XO (XI (XO (XO (XO (XO (XI (XO
    (XI (XO (XO (XO (XO (XI (XO (XO (XO (XI (XO
    XH)))))))))))))))))))))))))))))))) :: ((Npos (XI (XI (XO (XI (XO (XI (XI
    (XO (XO (XI (XI (XI (XI (XI (XI (XO (XI (XO (XI (XI (XI (XO (XO (XO (XI
    (XO (XI (XO (XI (XI (XO XH)))))))))))))))))))))))))))))))) :: ((Npos (XO
    (XI (XI (XO (XI (XI (XI (XI (XI (XI (XO (XI (XI (XI (XI (XI (XO (XI (XO
    (XO (XI (XO (XO (XI (XI (XI (XO (XI
    XH))))))))))))))))))))))))))))) :: ((Npos (XI (XO (XI (XI (XO (XI (XI (XI
    (XI (XO (XO (XI (XO (XI (XO (XO (XI (XI (XO (XO (XO (XO (XO (XI (XI (XI
    (XI XH)))))))))))))))))))))))))))) :: ((Npos (XO (XO (XI (XO (XO (XO (XI
    (XI (XO (XO (XO (XI (XO (XI (XI (XO (XO (XI (XO (XI (XO (XI (XI (XI (XO
    (XO (XI (XI (XI (XO (XI XH)))))))))))))))))))))))))))))))) :: ((Npos (XO
    (XO (XO (XI (XI (XI (XI (XO (XO (XI (XO (XI (XI (XO (XO (XO (XI (XO (XI
    (XO (XO (XI (XI (XO (XO (XO (XO (XI (XI (XO (XO
    XH)))))))))))))))))))))))))))))))) :: ((Npos (XO (XO (XO (XI (XO (XI (XO
    (XO (XO (XI (XO (XI (XO (XI (XI (XI (XI (XO (XO (XO (XI (XO (XI (XO (XI
    (XI (XO (XI (XO (XI (XO XH)))))))))))))))))))))))))))))))) :: ((Npos (XO
    (XI (XI (XO (XI (XI (XO (XO (XI (XO (XI (XO (XI (XO (XO (XI (XI (XI (XI
    (XO (XO (XI (XO (XO (XI (XO (XI (XO (XI (XO (XO
    XH)))))))))))))))))))))))))))))))) :: ((Npos (XO (XI (XO (XI (XO (XI (XO
    (XO (XI (XO (XI (XO (XI (XO (XO (XO (XI (XI (XI (XI (XO (XO (XI (XO (XI
    (XI (XO (XI (XI (XI (XI XH)))))))))))))))))))))))))))))))) :: ((Npos (XO
    (XO (XI (XI (XO (XO (XO (XO (XI (XO (XO (XI (XO (XI (XI (XI (XI (XO (XO
    (XO (XI (XI (XI (XI (XI (XI (XI (XI (XI (XO (XO
    XH)))))))))))))))))))))))))))))))) :: ((Npos (XI (XI (XI (XO (XI (XO (XO
    (XI (XI (XI (XO (XI (XI (XO (XO (XI (XI (XO (XO (XO (XO (XO (XI (XO (XI
    (XO (XO (XO (XO (XO (XO XH)))))))))))))))))))))))))))))))) :: ((Npos (XI
    (XI (XI (XO (XO (XI (XI (XO (XI (XO (XO (XI (XO (XO (XI (XO (XO (XO (XO
    (XI (XO (XO (XI (XO (XO (XO (XI (XO (XI (XO (XI
    XH)))))))))))))))))))))))))))))))) :: ((Npos (XO (XI (XI (XI (XO (XI (XI
    (XI (XO (XO (XI (XO (XI (XO (XI (XO (XO (XI (XO (XO (XI (XO (XI (XI (XI
    (XI (XI (XO (XO XH)))))))))))))))))))))))))))))) :: ((Npos (XO (XI (XO
    (XI (XO (XI (XO (XI (XO (XO (XI (XO (XO (XO (XI (XO (XO (XI (XI (XI (XO
    (XO (XO (XI (XO (XO (XO (XI (XO
    XH)))))))))))))))))))))))))))))) :: ((Npos (XO (XI (XO (XI (XI (XI (XO
    (XO (XO (XI (XI (XO (XI (XO (XI (XI (XO (XO (XO (XO (XO (XI (XO (XO (XO
    (XI (XI (XI (XI (XO (XI XH)))))))))))))))))))))))))))))))) :: ((Npos (XI
    (XO (XI (XI (XO (XI (XI (XO (XO (XO (XI (XI (XI (XO (XI (XO (XI (XI (XI
    (XI (XO (XI (XO (XO (XI (XO (XO (XI (XI (XI (XI
    XH)))))))))))))))))))))))))))))))) :: ((Npos (XI (XO (XO (XI (XO (XO (XO
    (XI (XI (XI (XO (XI (XO (XI (XO (XI (XO (XI (XO (XI (XO (XO (XI (XI (XO
    (XI (XI (XO (XO (XO (XI XH)))))))))))))))))))))))))))))))) :: ((Npos (XO
    (XO (XO (XI (XO (XI (XO (XO (XO (XI (XI (XI (XO (XI (XI (XI (XI (XI (XI
    (XO (XO (XI (XO (XO (XO (XO (XO (XI (XI
    XH)))))))))))))))))))))))))))))) :: ((Npos (XI (XO (XI (XI (XO (XO (XI
    (XO (XO (XO (XO (XO (XI (XO (XO (XI (XI (XI (XO (XO (XO (XI (XO (XI (XI
    (XO (XO (XO (XO (XI (XO XH)))))))))))))))))))))))))))))))) :: ((Npos (XO
    (XO (XI (XO (XO (XO (XO (XI (XO (XO (XO (XI (XO (XI (XI (XO (XI (XO (XI
    (XI (XI (XI (XO (XI (XO (XI (XO (XI (XI (XI
    XH))))))))))))))))))))))))))))))) :: ((Npos (XO (XI (XI (XO (XI (XO (XO
    (XO (XO (XO (XI (XI (XI (XO (XI (XO (XI (XO (XO (XO (XO (XO (XI (XO (XO
    (XI (XI (XI (XI (XI (XI XH)))))))))))))))))))))))))))))))) :: ((Npos (XO
    (XI (XI (XI (XI (XO (XO (XO (XO (XO (XI (XI (XI (XO (XI (XI (XO (XI (XI
    (XI (XI (XI (XI (XI (XO (XI (XI (XI (XI (XI (XO
    XH)))))))))))))))))))))))))))))))) :: ((Npos (XO (XO (XO (XO (XI (XO (XO
    (XO (XO (XI (XI (XO (XI (XO (XO (XO (XI (XO (XO (XO (XO (XI (XI (XI (XI
    (XO (XI XH)))))))))))))))))))))))))))) :: ((Npos (XI (XO (XO (XI (XI (XO
    (XO (XI (XI (XO (XI (XO (XO (XO (XO (XO (XI (XI (XI (XI (XO (XO (XO (XI
    (XO (XO (XI (XO (XI XH)))))))))))))))))))))))))))))) :: ((Npos (XO (XO
    (XI (XI (XO (XO (XO (XI (XI (XO (XO (XO (XI (XI (XO (XO (XO (XI (XO (XI
    (XI (XO (XO (XI (XO (XI (XI (XO (XO (XO (XO
    XH)))))))))))))))))))))))))))))))) :: ((Npos (XO (XO (XO (XO (XI (XO (XI
    (XI (XO (XO (XI (XI (XO (XO (XI (XI (XO (XI (XI (XI (XO (XO (XI (XI (XI
    (XO (XO (XI (XI (XI XH))))))))))))))))))))))))))))))) :: ((Npos (XO (XI
    (XI (XI (XO (XO (XO (XI (XI (XO (XO (XI (XO (XI (XO (XI (XO (XI (XO (XI
    (XO (XO (XO (XO (XO (XO (XO (XO (XO (XI (XI
    XH)))))))))))))))))))))))))))))))) :: ((Npos (XI (XO (XI (XI (XO (XO (XO
    (XO (XI (XI (XO (XI (XI (XI (XO (XI (XI (XO (XI (XI (XI (XI (XI (XO (XI
    (XI (XI (XO (XI (XO (XI XH)))))))))))))))))))))))))))))))) :: ((Npos (XI
    (XO (XO (XO (XI (XI (XO (XI (XO (XI (XO (XO (XI (XO (XO (XO (XO (XO (XI
    (XI (XI (XI (XI (XO (XI (XI (XI (XI (XI (XI
    XH))))))))))))))))))))))))))))))) :: ((Npos (XI (XO (XO (XI (XI (XO (XI
    (XO (XO (XI (XI (XI (XO (XO (XI (XI (XI (XO (XO (XI (XO (XO (XO (XI (XO
    (XO (XO (XO (XI (XO XH))))))))))))))))))))))))))))))) :: ((Npos (XI (XO
    (XO (XI (XI (XI (XO (XI (XI (XO (XO (XO (XO (XO (XO (XO (XO (XO (XI (XO
    (XO (XO (XI (XO (XO (XI (XI (XI (XO (XI (XO
    XH)))))))))))))))))))))))))))))))) :: ((Npos (XI (XO (XO (XO (XO (XI (XI
    (XO (XO (XO (XI (XO (XO (XO (XI (XI (XI (XO (XI (XI (XO (XO (XI (XI (XO
    (XI (XO (XI (XO (XO (XI XH)))))))))))))))))))))))))))))))) :: ((Npos (XI
    (XO (XO (XO (XO (XO (XO (XO (XO (XI (XO (XI (XI (XO (XO (XI (XI (XO (XI
    (XI (XI (XI (XI (XO (XI (XO (XI (XI (XI (XI
    XH))))))))))))))))))))))))))))))) :: ((Npos (XI (XI (XI (XI (XO (XO (XO
    (XO (XI (XO (XO (XI (XO (XI (XI (XI (XO (XO (XO (XO (XO (XI (XI (XI (XI
    (XI (XO (XI (XO (XO (XO XH)))))))))))))))))))))))))))))))) :: ((Npos (XI
    (XI (XO (XI (XO (XO (XO (XO (XI (XO (XO (XO (XO (XI (XI (XI (XI (XO (XO
    (XO (XO (XO (XI (XI (XI (XO (XI (XI
    XH))))))))))))))))))))))))))))) :: ((Npos (XO (XI (XI (XO (XI (XI (XI (XI
    (XO (XO (XO (XO (XI (XI (XO (XO (XO (XO (XO (XI (XI (XI (XO (XI (XI (XI
    (XO (XI (XO (XO (XI XH)))))))))))))))))))))))))))))))) :: ((Npos (XO (XI
    (XI (XI (XO (XO (XI (XI (XI (XI (XO (XO (XI (XO (XO (XO (XO (XO (XO (XI
    (XO (XO (XO (XO (XI (XO (XI (XI (XO (XO (XO
    XH)))))))))))))))))))))))))))))))) :: ((Npos (XI (XI (XI (XO (XI (XO (XO
    (XI (XI (XI (XO (XI (XI (XI (XI (XO (XO (XO (XI (XO (XI (XO (XO (XI (XI
    (XI (XI (XO (XI (XO (XO XH)))))))))))))))))))))))))))))))) :: ((Npos (XO
    (XI (XO (XO (XI (XO (XI (XI (XI (XI (XO (XI (XI (XI (XI (XO (XI (XO (XI
    (XI (XI (XI (XI (XI (XO (XO (XI (XI (XO (XI
    XH))))))))))))))))))))))))))))))) :: ((Npos (XO (XO (XI (XO (XI (XI (XO
    (XI (XO (XI (XO (XI (XO (XO (XI (XO (XI (XO (XI (XI (XO (XI (XO (XI (XI
    (XI (XO (XI (XI (XI (XO XH)))))))))))))))))))))))))))))))) :: ((Npos (XI
    (XI (XO (XO (XO (XO (XI (XI (XI (XO (XI (XI (XI (XO (XO (XI (XI (XO (XI
    (XO (XI (XI (XO (XI (XI (XO (XI (XO (XO (XI (XI
    XH)))))))))))))))))))))))))))))))) :: ((Npos (XI (XO (XO (XO (XI (XO (XO
    (XI (XO (XI (XI (XI (XI (XI (XO (XO (XO (XO (XO (XI (XI (XO (XI (XO (XI
    (XO (XO (XO (XI (XO XH))))))))))))))))))))))))))))))) :: ((Npos (XI (XI
    (XO (XI (XI (XO (XO (XI (XO (XO (XI (XO (XI (XO (XI (XI (XI (XI (XO (XI
    (XO (XI (XO (XO (XI (XI (XO (XO (XO (XO (XO
    XH)))))))))))))))))))))))))))))))) :: ((Npos (XO (XO (XO (XI (XO (XO (XI
    (XO (XO (XO (XO (XI (XI (XI (XO (XI (XO (XI (XO (XO (XI (XO (XI (XO (XO
    (XO (XO (XO (XO (XI (XO XH)))))))))))))))))))))))))))))))) :: ((Npos (XI
    (XO (XO (XO (XI (XI (XI (XI (XO (XO (XO (XI (XO (XO (XO (XO (XI (XI (XI
    (XI (XI (XO (XI (XI (XI (XO (XI XH)))))))))))))))))))))))))))) :: ((Npos
    (XO (XI (XI (XO (XO (XI (XI (XO (XI (XI (XI (XI (XO (XO (XO (XI (XO (XO
    (XO (XO (XI (XI (XO (XI (XO (XI (XO (XO (XI (XI (XI
    XH)))))))))))))))))))))))))))))))) :: ((Npos (XI (XI (XI (XO (XI (XO (XI
    (XI (XO (XI (XO (XO (XO (XO (XO (XO (XI (XI (XO (XO (XO (XO (XI (XO (XI
    (XI (XI (XI (XI (XO (XO XH)))))))))))))))))))))))))))))))) :: ((Npos (XI
    (XI (XI (XO (XI (XI (XI (XI (XI (XO (XI (XI (XI (XO (XO (XO (XI (XO (XI
    (XI (XI (XI (XI (XO (XO (XI (XO (XO (XI (XO (XI
    XH)))))))))))))))))))))))))))))))) :: ((Npos (XI (XO (XI (XI (XO (XI (XO
    (XI (XI (XI (XI (XO (XO (XI (XO (XI (XO (XI (XO (XI (XO (XO (XI (XO (XO
    (XO (XO (XI (XO (XO XH))))))))))))))))))))))))))))))) :: ((Npos (XI (XI
    (XI (XI (XO (XI (XI (XO (XI (XO (XI (XO (XI (XI (XI (XO (XI (XI (XO (XI
    (XI (XI (XO (XI (XI (XI (XO (XO (XI
    XH)))))))))))))))))))))))))))))) :: ((Npos (XI (XI (XI (XI (XO (XO (XO
    (XI (XI (XI (XO (XI (XO (XO (XO (XI (XI (XO (XI (XI (XO (XI (XI (XI (XO
    (XI (XI (XI (XI (XO (XI XH)))))))))))))))))))))))))))))))) :: ((Npos (XI
    (XO (XI (XO (XO (XI (XO (XO (XI (XI (XO (XO (XO (XI (XI (XI (XO (XO (XO
    (XO (XO (XI (XO (XI (XO (XI (XO (XO (XI (XI
    XH))))))))))))))))))))))))))))))) :: ((Npos (XI (XO (XO (XO (XO (XI (XO
    (XI (XI (XI (XO (XI (XO (XO (XI (XI (XI (XO (XO (XO (XI (XI (XI (XI (XO
    (XO (XO (XO (XO (XO (XI XH)))))))))))))))))))))))))))))))) :: ((Npos (XI
    (XI (XI (XO (XO (XI (XO (XI (XI (XI (XI (XI (XI (XO (XI (XO (XI (XO (XO
    (XO (XI (XO (XI (XI (XO (XO (XO (XI (XI (XI (XO
    XH)))))))))))))))))))))))))))))))) :: ((Npos (XO (XO (XO (XO (XI (XI (XO
    (XI (XO (XO (XI (XI (XI (XO (XI (XO (XO (XI (XI (XO (XI (XO (XO (XI (XI
    (XO (XO (XO (XO (XO (XI XH)))))))))))))))))))))))))))))))) :: ((Npos (XO
    (XI (XI (XO (XO (XI (XO (XO (XI (XI (XO (XI (XO (XO (XI (XI (XI (XI (XO
    (XI (XO (XO (XO (XO (XO (XI (XI (XO (XI
    XH)))))))))))))))))))))))))))))) :: ((Npos (XI (XI (XI (XI (XI (XI (XI
    (XI (XI (XI (XI (XO (XI (XO (XO (XO (XO (XI (XO (XO (XO (XO (XI (XO (XI
    (XO (XO (XO (XI (XI (XI XH)))))))))))))))))))))))))))))))) :: ((Npos (XO
    (XO (XI (XO (XI (XI (XO (XO (XO (XI (XO (XO (XI (XI (XO (XO (XI (XO (XO
    (XI (XI (XO (XI (XI (XO (XI (XI (XI (XO (XI (XI
    XH)))))))))))))))))))))))))))))))) :: ((Npos (XI (XO (XO (XI (XO (XO (XO
    (XI (XO (XI (XI (XO (XO (XI (XO (XO (XO (XO (XI (XI (XI (XO (XI (XO (XO
    (XO (XO (XO (XI (XO (XI XH)))))))))))))))))))))))))))))))) :: ((Npos (XO
    (XI (XI (XI (XO (XO (XO (XO (XI (XO (XI (XO (XO (XI (XI (XO (XO (XO (XO
    (XO (XI (XO (XI (XI (XI (XO (XI (XO (XO (XO
    XH))))))))))))))))))))))))))))))) :: ((Npos (XI (XI (XI (XI (XI (XO (XI
    (XO (XI (XO (XI (XO (XI (XO (XO (XO (XI (XO (XI (XO (XO (XO (XO (XO (XI
    (XO (XO (XI (XO (XI (XO XH)))))))))))))))))))))))))))))))) :: ((Npos (XI
    (XO (XI (XI (XO (XI (XO (XO (XI (XO (XI (XO (XI (XI (XI (XO (XI (XO (XO
    (XI (XO (XI (XI (XO (XI (XO (XO (XO (XO (XI
    XH))))))))))))))))))))))))))))))) :: ((Npos (XI (XO (XI (XO (XO (XO (XO
    (XI (XO (XO (XO (XI (XI (XI (XO (XI (XI (XO (XI (XI (XO (XI (XO (XI (XI
    (XO (XO (XI (XI (XI (XO XH)))))))))))))))))))))))))))))))) :: ((Npos (XO
    (XI (XO (XO (XI (XO (XO (XO (XI (XI (XI (XO (XI (XI (XO (XI (XO (XO (XI
    (XI (XI (XI (XI (XO (XO (XO (XO (XI (XO (XO (XO
    XH)))))))))))))))))))))))))))))))) :: ((Npos (XI (XI (XO (XO (XO (XO (XO
    (XI (XI (XO (XO (XI (XO (XI (XO (XI (XI (XO (XO (XO (XO (XO (XI (XO (XO
    (XI (XI (XO (XO (XO (XO XH)))))))))))))))))))))))))))))))) :: ((Npos (XI
    (XO (XO (XO (XO (XI (XI (XI (XI (XO (XO (XI (XI (XI (XO (XI (XI (XO (XO
    (XO (XI (XO (XI (XO (XO (XO (XO (XI (XI
    XH)))))))))))))))))))))))))))))) :: ((Npos (XI (XI (XO (XO (XI (XI (XO
    (XO (XI (XO (XO (XO (XO (XO (XI (XO (XI (XI (XO (XI (XO (XI (XO (XO (XO
    (XI (XI (XO XH))))))))))))))))))))))))))))) :: ((Npos (XI (XO (XI (XO (XO
    (XO (XI (XO (XI (XO (XO (XO (XO (XI (XI (XI (XO (XI (XO (XI (XO (XO (XI
    (XO (XO (XI (XO (XO (XO (XI XH))))))))))))))))))))))))))))))) :: ((Npos
    (XO (XI (XI (XO (XO (XO (XI (XI (XI (XI (XO (XO (XI (XO (XI (XI (XO (XO
    (XI (XO (XO (XI (XO (XI (XI (XI (XO (XO (XO (XO (XO
    XH)))))))))))))))))))))))))))))))) :: ((Npos (XI (XO (XI (XI (XI (XI (XO
    (XO (XO (XI (XO (XI (XI (XO (XI (XI (XI (XO (XI (XO (XI (XI (XI (XO (XO
    (XI (XI (XO (XI (XO (XO XH)))))))))))))))))))))))))))))))) :: ((Npos (XO
    (XO (XI (XO (XI (XI (XI (XI (XI (XO (XO (XO (XO (XI (XO (XI (XO (XI (XI
    (XI (XO (XO (XI (XI (XO (XO (XI (XO (XI (XO (XO
    XH)))))))))))))))))))))))))))))))) :: ((Npos (XO (XO (XO (XI (XO (XI (XI
    (XI (XI (XO (XO (XO (XO (XO (XI (XI (XI (XI (XI (XO (XI (XI (XI (XI (XO
    (XI (XI (XI (XI (XO (XO XH)))))))))))))))))))))))))))))))) :: ((Npos (XO
    (XI (XO (XI (XO (XO (XI (XI (XI (XI (XO (XO (XI (XI (XO (XI (XO (XO (XI
    (XO (XI (XI (XI (XI (XO (XI (XO (XI (XO (XO
    XH))))))))))))))))))))))))))))))) :: ((Npos (XI (XO (XI (XO (XO (XI (XI
    (XO (XI (XI (XI (XO (XI (XI (XI (XI (XI (XI (XO (XI (XI (XO (XO (XI (XO
    (XI (XO (XI (XO (XO (XI XH)))))))))))))))))))))))))))))))) :: ((Npos (XI
    (XI (XI (XO (XI (XO (XI (XI (XI (XI (XI (XO (XI (XI (XO (XO (XO (XI (XI
    (XI (XO (XI (XI (XO (XO (XI (XI (XI (XI (XI (XO
    XH)))))))))))))))))))))))))))))))) :: ((Npos (XI (XI (XI (XI (XI (XO (XI
    (XI (XO (XO (XO (XO (XO (XO (XO (XO (XO (XI (XO (XO (XI (XI (XI (XI (XI
    (XO (XO (XO (XO (XI XH))))))))))))))))))))))))))))))) :: ((Npos (XI (XO
    (XO (XO (XI (XI (XI (XI (XI (XO (XO (XI (XO (XI (XI (XO (XO (XO (XO (XO
    (XI (XI (XI (XO (XO (XO (XI (XO XH))))))))))))))))))))))))))))) :: ((Npos
    (XI (XO (XI (XO (XO (XO (XI (XO (XI (XO (XO (XI (XI (XI (XI (XI (XI (XI
    (XO (XI (XI (XO (XO (XO (XI (XO (XI (XO (XI
    XH)))))))))))))))))))))))))))))) :: ((Npos (XI (XI (XO (XI (XO (XO (XO
    (XO (XI (XO (XI (XI (XO (XO (XI (XO (XI (XO (XO (XO (XI (XO (XO (XI (XI
    (XI (XO (XI (XI (XI (XO XH)))))))))))))))))))))))))))))))) :: ((Npos (XO
    (XI (XI (XO (XI (XO (XI (XO (XO (XI (XO (XO (XI (XO (XI (XO (XO (XI (XO
    (XI (XI (XO (XI (XI (XI (XO (XO (XO (XO (XI (XI
    XH)))))))))))))))))))))))))))))))) :: ((Npos (XO (XO (XI (XO (XO (XO (XI
    (XO (XO (XI (XI (XI (XO (XI (XO (XI (XI (XO (XI (XO (XI (XI (XI (XI (XI
    (XI (XI (XO (XI XH)))))))))))))))))))))))))))))) :: ((Npos (XI (XI (XI
    (XO (XI (XO (XI (XI (XI (XO (XI (XO (XO (XI (XO (XI (XO (XI (XO (XI (XO
    (XO (XO (XI (XO (XI (XI (XI (XO (XI
    XH))))))))))))))))))))))))))))))) :: ((Npos (XO (XI (XO (XO (XO (XI (XI
    (XI (XI (XO (XO (XI (XO (XO (XO (XI (XO (XO (XI (XI (XO (XI (XI (XI (XI
    (XO (XI (XI (XI (XI XH))))))))))))))))))))))))))))))) :: ((Npos (XO (XO
    (XI (XI (XO (XO (XO (XO (XO (XI (XI (XI (XI (XI (XO (XI (XO (XO (XO (XI
    (XI (XI (XI (XO (XO (XO (XO (XO (XI (XI (XO
    XH)))))))))))))))))))))))))))))))) :: ((Npos (XO (XI (XO (XO (XI (XI (XI
    (XO (XO (XI (XI (XO (XI (XO (XO (XI (XI (XI (XO (XO (XI (XO (XI (XI (XI
    (XO (XO (XI (XO (XO XH))))))))))))))))))))))))))))))) :: ((Npos (XI (XI
    (XO (XI (XI (XI (XI (XO (XI (XO (XO (XI (XO (XI (XI (XI (XI (XO (XO (XO
    (XI (XI (XI (XO (XI (XI (XO (XO (XO (XO (XO
    XH)))))))))))))))))))))))))))))))) :: ((Npos (XO (XI (XI (XI (XO (XO (XO
    (XO (XI (XI (XO (XI (XI (XO (XO (XO (XI (XO (XO (XI (XI (XO (XI (XO (XI
    (XI (XO (XO (XO (XI XH))))))))))))))))))))))))))))))) :: ((Npos (XO (XI
    (XI (XO (XI (XI (XO (XI (XO (XI (XI (XO (XI (XO (XI (XO (XO (XO (XO (XI
    (XI (XI (XO (XO (XO (XI (XI (XO (XI (XO (XO
    XH)))))))))))))))))))))))))))))))) :: ((Npos (XO (XI (XI (XI (XI (XO (XI
    (XO (XI (XO (XI (XO (XO (XO (XI (XI (XO (XO (XO (XO (XO (XO (XO (XO (XO
    (XO (XO (XI (XO (XO (XI XH)))))))))))))))))))))))))))))))) :: ((Npos (XO
    (XI (XI (XO (XI (XO (XI (XI (XO (XO (XI (XI (XI (XO (XO (XO (XI (XO (XI
    (XI (XI (XI (XO (XI (XI (XO (XO (XI (XO (XO (XO
    XH)))))))))))))))))))))))))))))))) :: ((Npos (XI (XO (XO (XI (XO (XI (XI
    (XI (XI (XO (XO (XO (XO (XO (XO (XO (XI (XO (XI (XI (XI (XI (XI (XI (XI
    (XI (XO (XI (XI (XI (XO XH)))))))))))))))))))))))))))))))) :: ((Npos (XI
    (XI (XI (XI (XI (XO (XI (XI (XI (XI (XI (XO (XI (XO (XI (XI (XO (XI (XO
    (XI (XO (XI (XO (XI (XI (XI (XO (XO (XO (XI (XO
    XH)))))))))))))))))))))))))))))))) :: ((Npos (XO (XI (XI (XO (XI (XO (XO
    (XI (XI (XO (XI (XO (XO (XI (XO (XI (XI (XO (XO (XI (XO (XO (XO (XI (XI
    (XI (XI (XO (XO (XO XH))))))))))))))))))))))))))))))) :: ((Npos (XI (XI
    (XI (XI (XI (XI (XI (XO (XO (XO (XO (XO (XO (XO (XI (XO (XI (XO (XO (XO
    (XI (XO (XI (XI (XO (XO (XI (XO (XI (XI (XO
    XH)))))))))))))))))))))))))))))))) :: ((Npos (XI (XI (XI (XO (XI (XI (XI
    (XO (XI (XI (XO (XI (XI (XI (XI (XI (XO (XO (XO (XI (XO (XO (XI (XI (XI
    (XO (XO (XI (XO (XO (XO XH)))))))))))))))))))))))))))))))) :: ((Npos (XI
    (XO (XI (XI (XO (XI (XI (XO (XO (XI (XI (XI (XO (XI (XO (XO (XI (XO (XO
    (XI (XI (XI (XI (XO (XO (XI (XI (XI (XI
    XH)))))))))))))))))))))))))))))) :: ((Npos (XO (XO (XO (XI (XO (XI (XO
    (XI (XI (XO (XI (XI (XO (XO (XI (XO (XI (XO (XI (XI (XI (XI (XO (XI (XO
    (XI (XO (XI (XI (XI (XI XH)))))))))))))))))))))))))))))))) :: ((Npos (XI
    (XO (XI (XO (XO (XI (XO (XI (XO (XO (XO (XO (XI (XI (XI (XI (XO (XI (XO
    (XO (XO (XI (XI (XI (XO (XI (XO (XI (XI (XI (XI
    XH)))))))))))))))))))))))))))))))) :: ((Npos (XI (XI (XI (XO (XO (XO (XO
    (XO (XO (XO (XI (XO (XI (XI (XO (XI (XI (XO (XO (XI (XO (XI (XI (XO (XI
    (XO (XI (XI (XI (XO (XO XH)))))))))))))))))))))))))))))))) :: ((Npos (XI
    (XO (XO (XO (XO (XI (XI (XI (XO (XO (XO (XO (XO (XO (XI (XO (XO (XO (XI
    (XO (XI (XI (XI (XI (XO (XO (XI (XI (XI (XI
    XH))))))))))))))))))))))))))))))) :: ((Npos (XI (XO (XO (XO (XI (XO (XO
    (XO (XI (XO (XI (XO (XO (XI (XI (XI (XO (XI (XO (XO (XO (XI (XI (XO (XI
    (XO (XI (XO (XI (XI (XI XH)))))))))))))))))))))))))))))))) :: ((Npos (XI
    (XI (XO (XI (XI (XI (XI (XO (XI (XI (XI (XI (XO (XI (XI (XI (XO (XO (XI
    (XI (XO (XI (XI (XO (XO (XO (XO (XI (XI (XO (XI
    XH)))))))))))))))))))))))))))))))) :: ((Npos (XI (XO (XI (XI (XO (XI (XI
    (XI (XO (XO (XI (XO (XO (XO (XO (XI (XI (XO (XI (XO (XO (XI (XO (XI (XO
    (XO (XI (XO (XI (XI (XI XH)))))))))))))))))))))))))))))))) :: ((Npos (XI
    (XI (XI (XO (XO (XO (XI (XO (XI (XI (XI (XI (XI (XI (XI (XO (XI (XO (XO
    (XI (XI (XI (XO (XI (XO (XI (XI (XI (XO (XI
    XH))))))))))))))))))))))))))))))) :: ((Npos (XO (XO (XI (XO (XI (XO (XI
    (XO (XO (XI (XO (XI (XI (XI (XO (XO (XO (XO (XO (XO (XI (XO (XO (XI (XO
    (XI (XO (XO (XO (XI (XI XH)))))))))))))))))))))))))))))))) :: ((Npos (XO
    (XI (XI (XO (XI (XO (XI (XO (XI (XO (XO (XI (XI (XI (XI (XO (XO (XI (XO
    (XO (XI (XO (XO (XI (XO (XI (XO (XI
    XH))))))))))))))))))))))))))))) :: ((Npos (XO (XO (XO (XO (XI (XI (XI (XI
    (XO (XI (XI (XO (XI (XO (XO (XI (XI (XO (XO (XO (XO (XI (XO (XO (XO (XI
    (XI (XO (XI (XI (XO XH)))))))))))))))))))))))))))))))) :: ((Npos (XI (XI
    (XI (XO (XO (XI (XO (XO (XI (XI (XI (XO (XI (XO (XI (XI (XO (XO (XI (XO
    (XO (XO (XO (XI (XI (XO (XI (XO (XI
    XH)))))))))))))))))))))))))))))) :: ((Npos (XI (XI (XI (XO (XO (XI (XI
    (XO (XI (XO (XO (XI (XO (XO (XO (XO (XI (XI (XO (XO (XO (XO (XI (XI (XO
    (XO (XO (XO (XO (XO (XI XH)))))))))))))))))))))))))))))))) :: ((Npos (XO
    (XI (XO (XO (XI (XO (XO (XI (XO (XI (XO (XO (XI (XI (XI (XO (XI (XO (XO
    (XO (XO (XO (XO (XO (XI (XI (XI (XI (XO (XO
    XH))))))))))))))))))))))))))))))) :: ((Npos (XI (XO (XI (XO (XI (XO (XO
    (XO (XI (XI (XO (XI (XI (XI (XI (XO (XI (XO (XO (XO (XO (XO (XI (XI (XI
    (XO (XO (XO (XI (XI (XO XH)))))))))))))))))))))))))))))))) :: ((Npos (XI
    (XI (XO (XI (XI (XI (XO (XI (XO (XI (XO (XI (XO (XO (XI (XO (XO (XO (XO
    (XO (XO (XO (XO (XI (XO (XO (XO (XO (XO (XI
    XH))))))))))))))))))))))))))))))) :: ((Npos (XO (XO (XO (XI (XI (XO (XO
    (XI (XI (XI (XI (XO (XO (XO (XO (XI (XO (XO (XO (XO (XO (XI (XO (XO (XO
    (XI (XO (XO (XO (XI (XO XH)))))))))))))))))))))))))))))))) :: ((Npos (XO
    (XI (XO (XI (XO (XI (XI (XI (XO (XI (XI (XI (XI (XI (XI (XO (XI (XO (XO
    (XO (XO (XO (XI (XI (XO (XO (XI (XO (XI
    XH)))))))))))))))))))))))))))))) :: ((Npos (XI (XI (XO (XI (XO (XO (XI
    (XO (XI (XI (XI (XO (XO (XO (XI (XI (XO (XO (XI (XI (XI (XI (XO (XI (XI
    (XI (XI (XI (XO (XO (XI XH)))))))))))))))))))))))))))))))) :: ((Npos (XI
    (XO (XI (XO (XO (XI (XO (XI (XO (XI (XI (XI (XO (XO (XO (XO (XO (XO (XO
    (XO (XI (XO (XI (XI (XI (XO (XO (XO (XI (XI (XO
    XH)))))))))))))))))))))))))))))))) :: ((Npos (XO (XO (XI (XO (XI (XI (XO
    (XO (XO (XI (XI (XI (XI (XO (XO (XO (XO (XO (XI (XI (XO (XI (XI (XI (XI
    (XI (XI (XO (XO (XI (XI XH)))))))))))))))))))))))))))))))) :: ((Npos (XO
    (XO (XI (XO (XO (XO (XO (XI (XO (XI (XI (XO (XO (XO (XI (XO (XI (XI (XO
    (XO (XI (XO (XO (XI (XO (XO (XO (XO (XO
    XH)))))))))))))))))))))))))))))) :: ((Npos (XI (XO (XI (XO (XO (XI (XO
    (XI (XO (XO (XO (XI (XI (XO (XO (XO (XI (XO (XI (XI (XI (XO (XI (XI (XO
    (XI (XO (XI (XI (XO XH))))))))))))))))))))))))))))))) :: ((Npos (XI (XO
    (XO (XO (XO (XO (XI (XI (XO (XI (XI (XO (XI (XO (XO (XO (XI (XO (XI (XI
    (XI (XO (XO (XI (XI (XO (XI (XI (XI (XO (XO
    XH)))))))))))))))))))))))))))))))) :: ((Npos (XO (XO (XO (XO (XO (XO (XO
    (XI (XO (XI (XI (XI (XI (XI (XO (XI (XO (XO (XO (XI (XI (XO (XI (XO (XI
    (XO (XO (XO (XO (XO (XO XH)))))))))))))))))))))))))))))))) :: ((Npos (XO
    (XO (XI (XI (XI (XO (XO (XO (XI (XO (XO (XI (XO (XO (XI (XI (XO (XO (XO
    (XO (XO (XO (XO (XO (XI (XO (XO (XO (XI (XI (XO
    XH)))))))))))))))))))))))))))))))) :: ((Npos (XO (XI (XI (XI (XI (XO (XO
    (XO (XI (XI (XI (XI (XI (XI (XI (XO (XO (XI (XO (XI (XO (XO (XI (XO (XI
    (XO (XO (XI (XI XH)))))))))))))))))))))))))))))) :: ((Npos (XO (XI (XO
    (XO (XO (XI (XO (XI (XO (XI (XI (XI (XO (XI (XI (XO (XI (XI (XO (XI (XI
    (XI (XI (XO (XO (XO (XO (XO (XO (XO
    XH))))))))))))))))))))))))))))))) :: ((Npos (XI (XI (XO (XO (XI (XI (XO
    (XO (XI (XO (XO (XI (XI (XO (XO (XI (XI (XI (XI (XI (XO (XO (XI (XI (XI
    (XO (XI (XI (XI XH)))))))))))))))))))))))))))))) :: ((Npos (XO (XI (XI
    (XI (XI (XO (XI (XI (XI (XI (XI (XO (XO (XI (XI (XO (XO (XI (XO (XI (XO
    (XO (XO (XO (XO (XO (XI (XO (XO (XO (XI
    XH)))))))))))))))))))))))))))))))) :: ((Npos (XI (XO (XI (XI (XI (XI (XO
    (XO (XI (XO (XO (XI (XO (XI (XO (XI (XI (XI (XO (XI (XI (XI (XI (XI (XO
    (XI (XO (XI (XO (XO (XO XH)))))))))))))))))))))))))))))))) :: ((Npos (XI
    (XI (XO (XO (XO (XI (XI (XO (XI (XO (XI (XI (XI (XI (XI (XI (XI (XO (XO
    (XO (XO (XO (XO (XO (XI (XO (XI (XO (XO
    XH)))))))))))))))))))))))))))))) :: ((Npos (XO (XI (XI (XI (XI (XO (XI
    (XO (XO (XO (XO (XO (XI (XO (XO (XO (XO (XO (XO (XO (XI (XO (XO (XO (XO
    (XI (XO (XO XH))))))))))))))))))))))))))))) :: ((Npos (XI (XO (XO (XI (XO
    (XI (XO (XI (XO (XI (XI (XI (XI (XI (XI (XI (XO (XI (XO (XO (XI (XO (XI
    (XI (XI (XO (XI (XI (XO (XI (XI
    XH)))))))))))))))))))))))))))))))) :: ((Npos (XO (XO (XO (XI (XI (XO (XO
    (XO (XI (XO (XI (XO (XO (XO (XI (XI (XI (XO (XI (XO (XO (XI (XO (XO (XI
    (XO (XI (XI (XI (XO XH))))))))))))))))))))))))))))))) :: ((Npos (XO (XO
    (XO (XO (XO (XI (XI (XO (XO (XI (XI (XO (XI (XI (XI (XO (XI (XI (XO (XO
    (XI (XI (XI (XO (XI (XI (XO (XI (XO (XO (XI
    XH)))))))))))))))))))))))))))))))) :: ((Npos (XI (XO (XO (XI (XI (XO (XO
    (XO (XI (XI (XO (XI (XI (XI (XO (XI (XI (XI (XO (XO (XO (XO (XI (XI (XO
    (XI (XO (XI (XI (XI XH))))))))))))))))))))))))))))))) :: ((Npos (XO (XO
    (XO (XO (XI (XO (XI (XO (XO (XI (XO (XO (XI (XI (XI (XO (XO (XO (XO (XO
    (XI (XO (XI (XO (XO (XO (XO (XI (XO (XI (XO
    XH)))))))))))))))))))))))))))))))) :: ((Npos (XI (XO (XI (XO (XO (XI (XI
    (XI (XI (XO (XO (XO (XO (XO (XO (XI (XI (XO (XI (XO (XI (XI (XO (XO (XO
    (XO (XO (XI (XO XH)))))))))))))))))))))))))))))) :: ((Npos (XO (XO (XO
    (XO (XI (XI (XO (XO (XO (XO (XI (XI (XI (XO (XO (XI (XO (XO (XI (XI (XI
    (XI (XI (XO (XO (XI (XO (XO (XI (XO (XO
    XH)))))))))))))))))))))))))))))))) :: ((Npos (XO (XO (XI (XI (XI (XO (XO
    (XO (XI (XI (XI (XO (XI (XO (XI (XO (XO (XI (XI (XI (XI (XI (XI (XI (XO
    (XI (XO (XO (XI (XI (XI XH)))))))))))))))))))))))))))))))) :: ((Npos (XO
    (XO (XO (XO (XI (XI (XO (XO (XO (XO (XI (XO (XO (XO (XO (XI (XI (XO (XI
    (XO (XO (XI (XI (XI (XI (XO (XO (XO (XI (XO (XO
    XH)))))))))))))))))))))))))))))))) :: ((Npos (XO (XO (XI (XI (XI (XI (XO
    (XI (XO (XO (XO (XI (XI (XO (XO (XI (XI (XI (XI (XI (XI (XO (XI (XO (XO
    (XI (XI (XI (XI (XO XH))))))))))))))))))))))))))))))) :: ((Npos (XO (XI
    (XI (XI (XI (XI (XI (XI (XI (XI (XI (XI (XO (XO (XI (XO (XO (XI (XO (XI
    (XO (XO (XI (XO (XI (XO (XI (XO (XO
    XH)))))))))))))))))))))))))))))) :: ((Npos (XI (XI (XI (XO (XI (XI (XI
    (XI (XI (XO (XO (XO (XO (XI (XO (XO (XO (XO (XO (XI (XI (XO (XI (XO (XI
    (XI (XI (XO (XI (XI (XO XH)))))))))))))))))))))))))))))))) :: ((Npos (XO
    (XI (XI (XO (XO (XO (XI (XO (XI (XI (XI (XO (XO (XI (XO (XO (XO (XO (XI
    (XI (XI (XO (XO (XI (XO (XO (XI (XO
    XH))))))))))))))))))))))))))))) :: ((Npos (XI (XO (XO (XO (XO (XI (XO (XO
    (XO (XO (XI (XI (XI (XO (XI (XO (XO (XI (XI (XI (XO (XI (XI (XO (XO (XO
    (XI (XO (XO (XI XH))))))))))))))))))))))))))))))) :: ((Npos (XI (XO (XO
    (XO (XO (XO (XI (XI (XI (XO (XO (XO (XI (XI (XI (XI (XI (XI (XI (XO (XO
    (XI (XI (XO (XO (XO (XI (XO (XI
    XH)))))))))))))))))))))))))))))) :: ((Npos (XO (XO (XI (XO (XO (XI (XO
    (XI (XO (XI (XO (XI (XI (XI (XI (XI (XI (XI (XI (XI (XO (XO (XI (XI (XO
    (XO (XI (XI (XO (XO (XI XH)))))))))))))))))))))))))))))))) :: ((Npos (XI
    (XI (XO (XO (XO (XO (XI (XI (XI (XI (XO (XI (XO (XO (XO (XO (XO (XO (XI
    (XI (XI (XI (XO (XI (XO (XI (XO (XI (XI (XO
    XH))))))))))))))))))))))))))))))) :: ((Npos (XI (XO (XO (XI (XO (XO (XI
    (XI (XO (XI (XI (XO (XI (XI (XO (XO (XO (XI (XI (XO (XO (XI (XO (XI (XO
    (XI (XO (XO (XO (XI (XI XH)))))))))))))))))))))))))))))))) :: ((Npos (XO
    (XO (XO (XO (XI (XO (XO (XI (XO (XI (XI (XI (XO (XO (XO (XO (XI (XO (XO
    (XI (XO (XO (XI (XI (XO (XI (XI (XO (XI (XO
    XH))))))))))))))))))))))))))))))) :: ((Npos (XI (XI (XI (XO (XO (XO (XI
    (XI (XO (XI (XI (XI (XO (XI (XI (XO (XO (XI (XI (XI (XI (XO (XO (XO (XI
    (XO (XO (XO (XI (XI XH))))))))))))))))))))))))))))))) :: ((Npos (XI (XO
    (XO (XI (XO (XI (XI (XO (XI (XI (XI (XO (XI (XO (XI (XI (XI (XI (XI (XO
    (XO (XO (XO (XO (XI (XO (XO (XO (XI (XI (XO
    XH)))))))))))))))))))))))))))))))) :: ((Npos (XO (XO (XI (XI (XI (XO (XO
    (XI (XI (XI (XI (XI (XO (XI (XI (XO (XO (XO (XO (XI (XO (XI (XI (XO (XO
    (XI (XO (XO (XI (XO XH))))))))))))))))))))))))))))))) :: ((Npos (XI (XO
    (XI (XI (XI (XI (XO (XO (XO (XI (XO (XO (XO (XO (XI (XO (XI (XO (XO (XO
    (XI (XI (XO (XI (XI (XI (XO (XO (XO (XI (XI
    XH)))))))))))))))))))))))))))))))) :: ((Npos (XI (XI (XI (XO (XO (XO (XO
    (XI (XI (XO (XI (XO (XI (XI (XO (XI (XO (XO (XO (XO (XO (XO (XI (XO (XO
    (XI (XI (XI (XI XH)))))))))))))))))))))))))))))) :: ((Npos (XI (XI (XI
    (XO (XI (XI (XO (XI (XI (XI (XO (XI (XI (XI (XO (XO (XO (XI (XI (XI (XI
    (XI (XI (XO (XO (XO (XI (XO (XO
    XH)))))))))))))))))))))))))))))) :: ((Npos (XI (XI (XO (XI (XI (XI (XO
    (XI (XI (XI (XI (XO (XO (XI (XO (XI (XI (XI (XO (XI (XI (XO (XO (XO (XI
    (XI (XI (XO (XO (XO (XI XH)))))))))))))))))))))))))))))))) :: ((Npos (XO
    (XO (XO (XO (XI (XO (XO (XI (XI (XI (XO (XO (XO (XO (XI (XI (XI (XI (XI
    (XI (XO (XI (XO (XO (XO (XO (XO (XO (XO (XO (XO
    XH)))))))))))))))))))))))))))))))) :: ((Npos (XO (XI (XI (XI (XI (XI (XO
    (XO (XI (XI (XI (XO (XO (XI (XO (XI (XI (XI (XO (XO (XO (XO (XO (XI (XO
    (XI (XO (XI (XO (XO (XI XH)))))))))))))))))))))))))))))))) :: ((Npos (XO
    (XO (XO (XI (XI (XI (XO (XO (XO (XI (XO (XI (XI (XO (XI (XO (XI (XO (XO
    (XO (XO (XO (XO (XO (XI (XO (XI (XO (XI (XO (XI
    XH)))))))))))))))))))))))))))))))) :: ((Npos (XO (XO (XO (XI (XI (XI (XI
    (XI (XO (XO (XI (XI (XI (XO (XI (XO (XO (XO (XI (XO (XI (XO (XO (XI (XO
    (XO (XI (XI (XO (XO (XI
    XH)))))))))))))))))))))))))))))))) :: [])))))))))))))))))))))))))))))))))))))))))))))))))))))))))))))))))))))))))))))))))))))))))))))))))))))))))))))))))))))))))))))))))))))))))))))))))))))))))))))))))))))))))))))))))))))))))))))))))))))))))))))))))))))))))))))))))))))))))))))))))))))))))))))))

(** val rand_gen : bool -> mode -> n -> n -> n -> n outcome **)

let rand_gen wrapping m y i mm =
  if N.ltb N0 mm
  then obind
         (if wrapping
          then Ok (u32 (N.add y i))
          else add_w m (Npos (XO (XO (XO (XO (XO XH)))))) y i) (fun s0 ->
         let x0 =
           N.modulo s0 (Npos (XO (XO (XO (XO (XO (XO (XO (XO XH)))))))))
         in
         obind
           (add_w m (Npos (XO (XO (XO (XO (XO XH))))))
             (N.shiftr y (Npos (XO (XO (XO XH))))) i) (fun s1 ->
           let x1 =
             N.modulo s1 (Npos (XO (XO (XO (XO (XO (XO (XO (XO XH)))))))))
           in
           obind
             (add_w m (Npos (XO (XO (XO (XO (XO XH))))))
               (N.shiftr y (Npos (XO (XO (XO (XO XH)))))) i) (fun s2 ->
             let x2 =
               N.modulo s2 (Npos (XO (XO (XO (XO (XO (XO (XO (XO XH)))))))))
             in
             obind
               (add_w m (Npos (XO (XO (XO (XO (XO XH))))))
                 (N.shiftr y (Npos (XO (XO (XO (XI XH)))))) i) (fun s3 ->
               let x3 =
                 N.modulo s3 (Npos (XO (XO (XO (XO (XO (XO (XO (XO XH)))))))))
               in
               obind (nth_ok v0 (N.to_nat x0)) (fun v4 ->
                 obind (nth_ok v1 (N.to_nat x1)) (fun v5 ->
                   obind (nth_ok v2 (N.to_nat x2)) (fun v6 ->
                     obind (nth_ok v3 (N.to_nat x3)) (fun v7 -> Ok
                       (N.modulo
                         (N.coq_lxor (N.coq_lxor (N.coq_lxor v4 v5) v6) v7)
                         mm)))))))))
  else Panic PAssert

(** val deg_loop : mode -> n -> n -> nat -> n -> n outcome **)

let rec deg_loop m v w n0 d =
  match n0 with
  | O -> Panic PUnreachable
  | S n' ->
    obind (nth_ok dEG_F (N.to_nat d)) (fun fd ->
      if N.ltb v fd
      then obind
             (sub_w m (Npos (XO (XO (XO (XO (XO XH)))))) w (Npos (XO XH)))
             (fun w2 -> Ok (N.min d w2))
      else deg_loop m v w n' (N.add d (Npos XH)))

(** val deg0 : mode -> n -> n -> n outcome **)

let deg0 m v w =
  if N.ltb v dEG_V_LIMIT
  then deg_loop m v w (sub (length dEG_F) (S O)) (Npos XH)
  else Panic PAssert

(** val intermediate_tuple_gen :
    bool -> mode -> n -> n -> n -> n -> (((((n * n) * n) * n) * n) * n)
    outcome **)

let intermediate_tuple_gen wrapping m x w j p1 =
  obind (mul_w m (Npos (XO (XO (XO (XO (XO XH)))))) j tUPLE_A_MUL) (fun t0 ->
    obind (add_w m (Npos (XO (XO (XO (XO (XO XH)))))) tUPLE_A_BASE t0)
      (fun a0 ->
      obind
        (if N.eqb (N.modulo a0 (Npos (XO XH))) N0
         then add_w m (Npos (XO (XO (XO (XO (XO XH)))))) a0 (Npos XH)
         else Ok a0) (fun a ->
        obind (add_w m (Npos (XO (XO (XO (XO (XO XH)))))) j (Npos XH))
          (fun j1 ->
          obind (mul_w m (Npos (XO (XO (XO (XO (XO XH)))))) tUPLE_B_MUL j1)
            (fun b ->
            obind (mul_w m (Npos (XO (XO (XO (XO (XO (XO XH))))))) x a)
              (fun xa ->
              obind (add_w m (Npos (XO (XO (XO (XO (XO (XO XH))))))) b xa)
                (fun s ->
                let y = u32 (N.modulo s tUPLE_Y_MOD) in
                obind (rand_gen wrapping m y N0 tUPLE_V_RANGE) (fun v ->
                  obind (deg0 m v w) (fun d ->
                    obind
                      (sub_w m (Npos (XO (XO (XO (XO (XO XH)))))) w (Npos XH))
                      (fun w1 ->
                      obind (rand_gen wrapping m y (Npos XH) w1) (fun ra ->
                        obind
                          (add_w m (Npos (XO (XO (XO (XO (XO XH)))))) (Npos
                            XH) ra) (fun a1 ->
                          obind (rand_gen wrapping m y (Npos (XO XH)) w)
                            (fun b0 ->
                            obind
                              (if N.ltb d (Npos (XO (XO XH)))
                               then obind
                                      (rand_gen wrapping m x (Npos (XI XH))
                                        (Npos (XO XH))) (fun r3 ->
                                      add_w m (Npos (XO (XO (XO (XO (XO
                                        XH)))))) (Npos (XO XH)) r3)
                               else Ok (Npos (XO XH))) (fun d1 ->
                              obind
                                (sub_w m (Npos (XO (XO (XO (XO (XO XH))))))
                                  p1 (Npos XH)) (fun p11 ->
                                obind
                                  (rand_gen wrapping m x (Npos (XO (XO XH)))
                                    p11) (fun ra1 ->
                                  obind
                                    (add_w m (Npos (XO (XO (XO (XO (XO
                                      XH)))))) (Npos XH) ra1) (fun a2 ->
                                    obind
                                      (rand_gen wrapping m x (Npos (XI (XO
                                        XH))) p1) (fun b1 -> Ok (((((d, a1),
                                      b0), d1), a2), b1)))))))))))))))))))

(** val lt_loop : mode -> nat -> n -> n -> n -> n list outcome **)

let rec lt_loop m n0 a w b =
  match n0 with
  | O -> Ok []
  | S n' ->
    obind (add_w m (Npos (XO (XO (XO (XO (XO XH)))))) b a) (fun s ->
      obind (rem_ok s w) (fun b' ->
        obind (lt_loop m n' a w b') (fun rest -> Ok (b' :: rest))))

(** val pi_skip : mode -> nat -> n -> n -> n -> n -> n outcome **)

let rec pi_skip m fuel a1 p p1 b1 =
  match fuel with
  | O -> Panic PFuel
  | S f ->
    if N.leb p b1
    then obind (add_w m (Npos (XO (XO (XO (XO (XO XH)))))) b1 a1) (fun s ->
           obind (rem_ok s p1) (fun b1' -> pi_skip m f a1 p p1 b1'))
    else Ok b1

(** val pi_loop :
    mode -> nat -> nat -> n -> n -> n -> n -> n -> n list outcome **)

let rec pi_loop m fuel n0 a1 w p p1 b1 =
  match n0 with
  | O -> Ok []
  | S n' ->
    obind (add_w m (Npos (XO (XO (XO (XO (XO XH)))))) b1 a1) (fun s ->
      obind (rem_ok s p1) (fun b1' ->
        obind (pi_skip m fuel a1 p p1 b1') (fun b1'' ->
          obind (add_w m (Npos (XO (XO (XO (XO (XO XH)))))) w b1'') (fun i ->
            obind (pi_loop m fuel n' a1 w p p1 b1'') (fun rest -> Ok
              (i :: rest))))))

(** val enc_indices :
    mode -> (((((n * n) * n) * n) * n) * n) -> n -> n -> n -> n list outcome **)

let enc_indices m t0 w p p1 =
  let (p0, b1) = t0 in
  let (p2, a1) = p0 in
  let (p3, d1) = p2 in
  let (p4, b) = p3 in
  let (d, a) = p4 in
  obind (assert_ok (N.ltb N0 d)) (fun _ ->
    obind (assert_ok ((&&) (N.leb (Npos XH) a) (N.ltb a w))) (fun _ ->
      obind (assert_ok (N.ltb b w)) (fun _ ->
        obind
          (assert_ok
            ((||) (N.eqb d1 (Npos (XO XH))) (N.eqb d1 (Npos (XI XH)))))
          (fun _ ->
          obind (assert_ok ((&&) (N.leb (Npos XH) a1) (N.ltb a1 p1)))
            (fun _ ->
            obind (assert_ok (N.ltb b1 p1)) (fun _ ->
              let fuel = N.to_nat p1 in
              obind (lt_loop m (N.to_nat (N.sub d (Npos XH))) a w b)
                (fun lt ->
                obind (pi_skip m fuel a1 p p1 b1) (fun b1' ->
                  obind (add_w m (Npos (XO (XO (XO (XO (XO XH)))))) w b1')
                    (fun i0 ->
                    obind
                      (pi_loop m fuel (N.to_nat (N.sub d1 (Npos XH))) a1 w p
                        p1 b1') (fun pis -> Ok (b :: (app lt (i0 :: pis)))))))))))))

(** val vadd : n list -> n list -> n list **)

let rec vadd u v =
  match u with
  | [] -> []
  | x :: u' ->
    (match v with
     | [] -> []
     | y :: v' -> (N.coq_lxor x y) :: (vadd u' v'))

(** val vzero : nat -> n list **)

let vzero n0 =
  repeat N0 n0

(** val vec_eqb : n list -> n list -> bool **)

let rec vec_eqb u v =
  match u with
  | [] -> (match v with
           | [] -> true
           | _ :: _ -> false)
  | x :: u' ->
    (match v with
     | [] -> false
     | y :: v' -> (&&) (N.eqb x y) (vec_eqb u' v'))

(** val map2 : ('a1 -> 'a2 -> 'a3) -> 'a1 list -> 'a2 list -> 'a3 list **)

let rec map2 f l m =
  match l with
  | [] -> []
  | a :: l' -> (match m with
                | [] -> []
                | b :: m' -> (f a b) :: (map2 f l' m'))

(** val vscale : (n -> n -> n) -> n -> n list -> n list **)

let vscale mul0 c v =
  map (mul0 c) v

(** val lincomb : (n -> n -> n) -> nat -> n list -> n list list -> n list **)

let rec lincomb mul0 t0 r c =
  match r with
  | [] -> vzero t0
  | a :: r' ->
    (match c with
     | [] -> vzero t0
     | c0 :: c' -> vadd (vscale mul0 a c0) (lincomb mul0 t0 r' c'))

(** val pick_row : n list list -> (n list * n list list) option **)

let rec pick_row = function
| [] -> None
| r :: a' ->
  if N.eqb (hd N0 r) N0
  then (match pick_row a' with
        | Some p0 -> let (p, r0) = p0 in Some (p, (r :: r0))
        | None -> None)
  else Some (r, a')

(** val pick_rhs : n list list -> n list list -> n list * n list list **)

let rec pick_rhs a d =
  match a with
  | [] -> ([], d)
  | r :: a' ->
    if N.eqb (hd N0 r) N0
    then let (dp, r0) = pick_rhs a' (tl d) in (dp, ((hd [] d) :: r0))
    else ((hd [] d), (tl d))

(** val elim_coef : (n -> n -> n) -> (n -> n) -> n list -> n list -> n **)

let elim_coef mul0 inv p r =
  mul0 (hd N0 r) (inv (hd N0 p))

(** val elim_row : (n -> n -> n) -> (n -> n) -> n list -> n list -> n list **)

let elim_row mul0 inv p r =
  vadd (tl r) (vscale mul0 (elim_coef mul0 inv p r) (tl p))

(** val elim_rhs :
    (n -> n -> n) -> (n -> n) -> n list -> n list -> n list -> n list -> n
    list **)

let elim_rhs mul0 inv p dp r d =
  vadd d (vscale mul0 (elim_coef mul0 inv p r) dp)

(** val gauss_solve :
    (n -> n -> n) -> (n -> n) -> nat -> nat -> n list list -> n list list ->
    n list list option **)

let rec gauss_solve mul0 inv t0 l a d =
  match l with
  | O -> Some []
  | S l' ->
    (match pick_row a with
     | Some p0 ->
       let (p, r) = p0 in
       let (dp, rD) = pick_rhs a d in
       (match gauss_solve mul0 inv t0 l' (map (elim_row mul0 inv p) r)
                (map2 (elim_rhs mul0 inv p dp) r rD) with
        | Some y ->
          Some
            ((vscale mul0 (inv (hd N0 p))
               (vadd dp (lincomb mul0 t0 (tl p) y))) :: y)
        | None -> None)
     | None -> None)

type cfg = { cF : n; cT : n; cZ : n; cN : n; cAl : n }

(** val ceil : n -> n -> n **)

let ceil a b =
  N.div (N.add a (N.sub b (Npos XH))) b

(** val floor : n -> n -> n **)

let floor =
  N.div

(** val partition : n -> n -> ((n * n) * n) * n **)

let partition i j =
  let iL = ceil i j in
  let iS = floor i j in
  let jL = N.sub i (N.mul iS j) in let jS = N.sub j jL in (((iL, iS), jL), jS)

(** val q1 : (((n * n) * n) * n) -> n **)

let q1 = function
| (p0, _) -> let (p1, _) = p0 in let (a, _) = p1 in a

(** val q2 : (((n * n) * n) * n) -> n **)

let q2 = function
| (p0, _) -> let (p1, _) = p0 in let (_, b) = p1 in b

(** val q3 : (((n * n) * n) * n) -> n **)

let q3 = function
| (p0, _) -> let (_, x) = p0 in x

(** val sumN : n list -> n **)

let sumN l =
  fold_right N.add N0 l

(** val kt : cfg -> n **)

let kt c =
  ceil c.cF c.cT

(** val kL0 : cfg -> n **)

let kL0 c =
  q1 (partition (kt c) c.cZ)

(** val kS : cfg -> n **)

let kS c =
  q2 (partition (kt c) c.cZ)

(** val zL : cfg -> n **)

let zL c =
  q3 (partition (kt c) c.cZ)

(** val tL : cfg -> n **)

let tL c =
  q1 (partition (N.div c.cT c.cAl) c.cN)

(** val tS : cfg -> n **)

let tS c =
  q2 (partition (N.div c.cT c.cAl) c.cN)

(** val nL : cfg -> n **)

let nL c =
  q3 (partition (N.div c.cT c.cAl) c.cN)

(** val blk_K : cfg -> n -> n **)

let blk_K c j =
  if N.ltb j (zL c) then kL0 c else kS c

(** val blk_off : cfg -> n -> n **)

let blk_off c j =
  N.mul c.cT (sumN (map (blk_K c) (rangeN (N.to_nat j))))

(** val obj_byte : n list -> n -> n **)

let obj_byte data i =
  nth (N.to_nat i) data N0

(** val blk_byte : cfg -> n list -> n -> n -> n **)

let blk_byte c data j i =
  obj_byte data (N.add (blk_off c j) i)

(** val sub_len : cfg -> n -> n **)

let sub_len c s =
  if N.ltb s (nL c) then N.mul (tL c) c.cAl else N.mul (tS c) c.cAl

(** val sub_off : cfg -> n -> n -> n **)

let sub_off c j s =
  N.mul (blk_K c j) (sumN (map (sub_len c) (rangeN (N.to_nat s))))

(** val sub_symbol : cfg -> n list -> n -> n -> n -> n list **)

let sub_symbol c data j s m =
  map (fun i ->
    blk_byte c data j
      (N.add (N.add (sub_off c j s) (N.mul m (sub_len c s))) i))
    (rangeN (N.to_nat (sub_len c s)))

(** val symbol : cfg -> n list -> n -> n -> n list **)

let symbol c data j m =
  concat (map (fun s -> sub_symbol c data j s m) (rangeN (N.to_nat c.cN)))

(** val source_packets_spec : cfg -> n list -> ((n * n) * n list) list **)

let source_packets_spec c data =
  concat
    (map (fun j ->
      map (fun m -> ((j, m), (symbol c data j m)))
        (rangeN (N.to_nat (blk_K c j)))) (rangeN (N.to_nat c.cZ)))

type cparams = { cK : n; cJ : n; cS : n; cH : n; cW : n; cP1 : n }

(** val cL : cparams -> n **)

let cL p =
  N.add (N.add p.cK p.cS) p.cH

(** val cP : cparams -> n **)

let cP p =
  N.sub (cL p) p.cW

(** val cB : cparams -> n **)

let cB p =
  N.sub p.cW p.cS

(** val b2n : bool -> n **)

let b2n = function
| true -> Npos XH
| false -> N0

(** val parity : n -> n **)

let parity n0 =
  N.modulo n0 (Npos (XO XH))

(** val ldpc_count : cparams -> n -> n -> n **)

let ldpc_count p r j =
  let s = p.cS in
  let b = cB p in
  let w = p.cW in
  let p0 = cP p in
  if N.ltb j b
  then let a = N.add (Npos XH) (N.div j s) in
       let b0 = N.modulo j s in
       let b1 = N.modulo (N.add b0 a) s in
       let b2 = N.modulo (N.add b1 a) s in
       N.add (N.add (b2n (N.eqb b0 r)) (b2n (N.eqb b1 r))) (b2n (N.eqb b2 r))
  else if N.ltb j w
       then b2n (N.eqb (N.sub j b) r)
       else N.add (b2n (N.eqb (N.modulo r p0) (N.sub j w)))
              (b2n (N.eqb (N.modulo (N.add r (Npos XH)) p0) (N.sub j w)))

(** val ldpc_entry : cparams -> n -> n -> n **)

let ldpc_entry p r j =
  parity (ldpc_count p r j)

(** val alpha_pow : n -> n **)

let alpha_pow i =
  ppow2 (N.to_nat i)

(** val mT : cparams -> n -> n -> n **)

let mT p i k =
  let h = p.cH in
  let n0 = N.add p.cK p.cS in
  if N.ltb (N.add k (Npos XH)) n0
  then let r6 = rand (N.add k (Npos XH)) (Npos (XO (XI XH))) h in
       let r7 =
         rand (N.add k (Npos XH)) (Npos (XI (XI XH))) (N.sub h (Npos XH))
       in
       if (||) (N.eqb i r6)
            (N.eqb i (N.modulo (N.add (N.add r6 r7) (Npos XH)) h))
       then Npos XH
       else N0
  else alpha_pow i

(** val gAMMA : n -> n -> n **)

let gAMMA k j =
  if N.leb j k then alpha_pow (N.sub k j) else N0

(** val g_HDPC : cparams -> n -> n -> n **)

let g_HDPC p i j =
  let n0 = N.to_nat (N.add p.cK p.cS) in
  xsum (map (fun k -> pmul (mT p i k) (gAMMA k j)) (rangeN n0))

(** val hdpc_entry : cparams -> n -> n -> n **)

let hdpc_entry p i j =
  let n0 = N.add p.cK p.cS in
  if N.ltb j n0 then g_HDPC p i j else b2n (N.eqb (N.sub j n0) i)

(** val enc_lt : nat -> n -> n -> n -> n list **)

let rec enc_lt n0 a w b =
  match n0 with
  | O -> []
  | S n' -> let b' = N.modulo (N.add b a) w in b' :: (enc_lt n' a w b')

(** val enc_skip : nat -> n -> n -> n -> n -> n **)

let rec enc_skip fuel a1 p p1 b1 =
  match fuel with
  | O -> b1
  | S f ->
    if N.leb p b1 then enc_skip f a1 p p1 (N.modulo (N.add b1 a1) p1) else b1

(** val enc_pi : nat -> nat -> n -> n -> n -> n -> n -> n list **)

let rec enc_pi fuel n0 a1 w p p1 b1 =
  match n0 with
  | O -> []
  | S n' ->
    let b1' = enc_skip fuel a1 p p1 (N.modulo (N.add b1 a1) p1) in
    (N.add w b1') :: (enc_pi fuel n' a1 w p p1 b1')

(** val enc_indices0 :
    cparams -> (((((n * n) * n) * n) * n) * n) -> n list **)

let enc_indices0 p = function
| (p0, b1) ->
  let (p1, a1) = p0 in
  let (p2, d1) = p1 in
  let (p3, b) = p2 in
  let (d, a) = p3 in
  let w = p.cW in
  let p4 = cP p in
  let p5 = p.cP1 in
  let fuel = N.to_nat p5 in
  let b1' = enc_skip fuel a1 p4 p5 b1 in
  b :: (app (enc_lt (N.to_nat (N.sub d (Npos XH))) a w b)
         ((N.add w b1') :: (enc_pi fuel (N.to_nat (N.sub d1 (Npos XH))) a1 w
                             p4 p5 b1')))

(** val tuple_of : cparams -> n -> ((((n * n) * n) * n) * n) * n **)

let tuple_of p x =
  tuple p.cJ p.cW p.cP1 x

(** val count_occ_N : n list -> n -> n **)

let count_occ_N l j =
  fold_left (fun acc x -> if N.eqb x j then N.add acc (Npos XH) else acc) l N0

(** val enc_entry : cparams -> n -> n -> n **)

let enc_entry p x j =
  parity (count_occ_N (enc_indices0 p (tuple_of p x)) j)

(** val a_entry : cparams -> n list -> n -> n -> n **)

let a_entry p isis r j =
  let s = p.cS in
  let h = p.cH in
  if N.ltb r s
  then ldpc_entry p r j
  else if N.ltb r (N.add s h)
       then hdpc_entry p (N.sub r s) j
       else enc_entry p (nth (N.to_nat (N.sub (N.sub r s) h)) isis N0) j

(** val a_rfc : cparams -> n list -> n list list **)

let a_rfc p isis =
  let l = N.to_nat (cL p) in
  map (fun r -> map (fun j -> a_entry p isis r j) (rangeN l))
    (rangeN (add (N.to_nat (N.add p.cS p.cH)) (length isis)))

(** val vxor : n list -> n list -> n list **)

let rec vxor u v =
  match u with
  | [] -> []
  | x :: u' ->
    (match v with
     | [] -> []
     | y :: v' -> (N.coq_lxor x y) :: (vxor u' v'))

(** val enc :
    cparams -> nat -> n list list -> (((((n * n) * n) * n) * n) * n) -> n list **)

let enc p t0 c t1 =
  fold_left (fun acc i -> vxor acc (nth (N.to_nat i) c (repeat N0 t0)))
    (enc_indices0 p t1) (repeat N0 t0)

(** val append : positive -> positive -> positive **)

let rec append i j =
  match i with
  | XI ii -> XI (append ii j)
  | XO ii -> XO (append ii j)
  | XH -> j

module PositiveMap =
 struct
  type key = positive

  type 'a tree =
  | Leaf
  | Node of 'a tree * 'a option * 'a tree

  type 'a t = 'a tree

  (** val empty : 'a1 t **)

  let empty =
    Leaf

  (** val find : key -> 'a1 t -> 'a1 option **)

  let rec find i = function
  | Leaf -> None
  | Node (l, o, r) ->
    (match i with
     | XI ii -> find ii r
     | XO ii -> find ii l
     | XH -> o)

  (** val add : key -> 'a1 -> 'a1 t -> 'a1 t **)

  let rec add i v = function
  | Leaf ->
    (match i with
     | XI ii -> Node (Leaf, None, (add ii v Leaf))
     | XO ii -> Node ((add ii v Leaf), None, Leaf)
     | XH -> Node (Leaf, (Some v), Leaf))
  | Node (l, o, r) ->
    (match i with
     | XI ii -> Node (l, o, (add ii v r))
     | XO ii -> Node ((add ii v l), o, r)
     | XH -> Node (l, (Some v), r))

  (** val xelements : 'a1 t -> key -> (key * 'a1) list **)

  let rec xelements m i =
    match m with
    | Leaf -> []
    | Node (l, o, r) ->
      (match o with
       | Some x ->
         app (xelements l (append i (XO XH))) ((i,
           x) :: (xelements r (append i (XI XH))))
       | None ->
         app (xelements l (append i (XO XH))) (xelements r (append i (XI XH))))

  (** val elements : 'a1 t -> (key * 'a1) list **)

  let elements m =
    xelements m XH
 end

(** val fmul_key : n -> n -> positive **)

let fmul_key a b =
  N.succ_pos
    (N.add (N.mul a (Npos (XO (XO (XO (XO (XO (XO (XO (XO XH)))))))))) b)

(** val fmul_table : n PositiveMap.t **)

let fmul_table =
  fold_left (fun m a ->
    fold_left (fun m0 b -> PositiveMap.add (fmul_key a b) (mulN a b) m0)
      (rangeN (S (S (S (S (S (S (S (S (S (S (S (S (S (S (S (S (S (S (S (S (S
        (S (S (S (S (S (S (S (S (S (S (S (S (S (S (S (S (S (S (S (S (S (S (S
        (S (S (S (S (S (S (S (S (S (S (S (S (S (S (S (S (S (S (S (S (S (S (S
        (S (S (S (S (S (S (S (S (S (S (S (S (S (S (S (S (S (S (S (S (S (S (S
        (S (S (S (S (S (S (S (S (S (S (S (S (S (S (S (S (S (S (S (S (S (S (S
        (S (S (S (S (S (S (S (S (S (S (S (S (S (S (S (S (S (S (S (S (S (S (S
        (S (S (S (S (S (S (S (S (S (S (S (S (S (S (S (S (S (S (S (S (S (S (S
        (S (S (S (S (S (S (S (S (S (S (S (S (S (S (S (S (S (S (S (S (S (S (S
        (S (S (S (S (S (S (S (S (S (S (S (S (S (S (S (S (S (S (S (S (S (S (S
        (S (S (S (S (S (S (S (S (S (S (S (S (S (S (S (S (S (S (S (S (S (S (S
        (S (S (S (S (S (S (S (S (S (S (S (S (S (S (S (S (S (S (S (S (S (S (S
        (S (S (S (S (S
        O)))))))))))))))))))))))))))))))))))))))))))))))))))))))))))))))))))))))))))))))))))))))))))))))))))))))))))))))))))))))))))))))))))))))))))))))))))))))))))))))))))))))))))))))))))))))))))))))))))))))))))))))))))))))))))))))))))))))))))))))))))))))))))))))))
      m)
    (rangeN (S (S (S (S (S (S (S (S (S (S (S (S (S (S (S (S (S (S (S (S (S (S
      (S (S (S (S (S (S (S (S (S (S (S (S (S (S (S (S (S (S (S (S (S (S (S (S
      (S (S (S (S (S (S (S (S (S (S (S (S (S (S (S (S (S (S (S (S (S (S (S (S
      (S (S (S (S (S (S (S (S (S (S (S (S (S (S (S (S (S (S (S (S (S (S (S (S
      (S (S (S (S (S (S (S (S (S (S (S (S (S (S (S (S (S (S (S (S (S (S (S (S
      (S (S (S (S (S (S (S (S (S (S (S (S (S (S (S (S (S (S (S (S (S (S (S (S
      (S (S (S (S (S (S (S (S (S (S (S (S (S (S (S (S (S (S (S (S (S (S (S (S
      (S (S (S (S (S (S (S (S (S (S (S (S (S (S (S (S (S (S (S (S (S (S (S (S
      (S (S (S (S (S (S (S (S (S (S (S (S (S (S (S (S (S (S (S (S (S (S (S (S
      (S (S (S (S (S (S (S (S (S (S (S (S (S (S (S (S (S (S (S (S (S (S (S (S
      (S (S (S (S (S (S (S (S (S (S (S (S (S (S (S (S (S (S
      O)))))))))))))))))))))))))))))))))))))))))))))))))))))))))))))))))))))))))))))))))))))))))))))))))))))))))))))))))))))))))))))))))))))))))))))))))))))))))))))))))))))))))))))))))))))))))))))))))))))))))))))))))))))))))))))))))))))))))))))))))))))))))))))))))
    PositiveMap.empty

(** val fmul : n -> n -> n **)

let fmul a b =
  match PositiveMap.find (fmul_key a b) fmul_table with
  | Some v -> v
  | None -> N0

(** val finv_table : n PositiveMap.t **)

let finv_table =
  fold_left (fun m a -> PositiveMap.add (N.succ_pos a) (divN (Npos XH) a) m)
    (rangeN (S (S (S (S (S (S (S (S (S (S (S (S (S (S (S (S (S (S (S (S (S (S
      (S (S (S (S (S (S (S (S (S (S (S (S (S (S (S (S (S (S (S (S (S (S (S (S
      (S (S (S (S (S (S (S (S (S (S (S (S (S (S (S (S (S (S (S (S (S (S (S (S
      (S (S (S (S (S (S (S (S (S (S (S (S (S (S (S (S (S (S (S (S (S (S (S (S
      (S (S (S (S (S (S (S (S (S (S (S (S (S (S (S (S (S (S (S (S (S (S (S (S
      (S (S (S (S (S (S (S (S (S (S (S (S (S (S (S (S (S (S (S (S (S (S (S (S
      (S (S (S (S (S (S (S (S (S (S (S (S (S (S (S (S (S (S (S (S (S (S (S (S
      (S (S (S (S (S (S (S (S (S (S (S (S (S (S (S (S (S (S (S (S (S (S (S (S
      (S (S (S (S (S (S (S (S (S (S (S (S (S (S (S (S (S (S (S (S (S (S (S (S
      (S (S (S (S (S (S (S (S (S (S (S (S (S (S (S (S (S (S (S (S (S (S (S (S
      (S (S (S (S (S (S (S (S (S (S (S (S (S (S (S (S (S (S
      O)))))))))))))))))))))))))))))))))))))))))))))))))))))))))))))))))))))))))))))))))))))))))))))))))))))))))))))))))))))))))))))))))))))))))))))))))))))))))))))))))))))))))))))))))))))))))))))))))))))))))))))))))))))))))))))))))))))))))))))))))))))))))))))))))
    PositiveMap.empty

(** val finv : n -> n **)

let finv a =
  match PositiveMap.find (N.succ_pos a) finv_table with
  | Some v -> v
  | None -> N0

(** val zero_matrix : nat -> nat -> n list list **)

let zero_matrix h w =
  repeat (repeat N0 w) h

(** val list_upd : 'a1 list -> nat -> ('a1 -> 'a1) -> 'a1 list outcome **)

let rec list_upd l i f =
  match l with
  | [] -> Panic PIndex
  | x :: t0 ->
    (match i with
     | O -> Ok ((f x) :: t0)
     | S j -> obind (list_upd t0 j f) (fun t' -> Ok (x :: t')))

(** val list_put : 'a1 list -> nat -> 'a1 -> 'a1 list outcome **)

let rec list_put l i v =
  match l with
  | [] -> Panic PIndex
  | x :: t0 ->
    (match i with
     | O -> Ok (v :: t0)
     | S j -> obind (list_put t0 j v) (fun t' -> Ok (x :: t')))

(** val mset : n list list -> n -> n -> n -> n list list outcome **)

let mset mat i j v =
  obind (nth_ok mat (N.to_nat i)) (fun row ->
    obind (list_put row (N.to_nat j) v) (fun row' ->
      list_put mat (N.to_nat i) row'))

(** val ofor : nat -> n -> (n -> 'a1 -> 'a1 outcome) -> 'a1 -> 'a1 outcome **)

let rec ofor n0 i f s =
  match n0 with
  | O -> Ok s
  | S k -> obind (f i s) (fun s' -> ofor k (N.add i (Npos XH)) f s')

(** val ofold :
    ('a1 -> 'a2 -> 'a2 outcome) -> 'a1 list -> 'a2 -> 'a2 outcome **)

let rec ofold f l s =
  match l with
  | [] -> Ok s
  | a :: t0 -> obind (f a s) (fun s' -> ofold f t0 s')

(** val set_ldpc : n -> n -> n -> n -> n list list -> n list list outcome **)

let set_ldpc s b w p mat =
  obind
    (ofor (N.to_nat b) N0 (fun i mat0 ->
      obind (obind (div_ok i s) (fun d -> Ok (N.add (Npos XH) d))) (fun a ->
        obind (rem_ok i s) (fun b0 ->
          obind (mset mat0 b0 i (Npos XH)) (fun mat1 ->
            obind (rem_ok (N.add b0 a) s) (fun b1 ->
              obind (mset mat1 b1 i (Npos XH)) (fun mat2 ->
                obind (rem_ok (N.add b1 a) s) (fun b2 ->
                  mset mat2 b2 i (Npos XH)))))))) mat) (fun mat0 ->
    obind
      (ofor (N.to_nat s) N0 (fun i mat1 -> mset mat1 i (N.add i b) (Npos XH))
        mat0) (fun mat1 ->
      ofor (N.to_nat s) N0 (fun i mat2 ->
        obind (rem_ok i p) (fun c1 ->
          obind (mset mat2 i (N.add c1 w) (Npos XH)) (fun mat3 ->
            obind (rem_ok (N.add i (Npos XH)) p) (fun c2 ->
              mset mat3 i (N.add c2 w) (Npos XH))))) mat1))

(** val set_enc :
    mode -> n -> n -> n -> n -> n -> n list -> n list list -> n list list
    outcome **)

let set_enc m first w p p1 j isis mat =
  obind
    (ofold (fun isi st ->
      let (row, mat0) = st in
      obind (intermediate_tuple_gen true m isi w j p1) (fun t0 ->
        obind (enc_indices m t0 w p p1) (fun idx ->
          obind
            (ofold (fun j0 mat1 -> mset mat1 (N.add row first) j0 (Npos XH))
              idx mat0) (fun mat1 -> Ok ((N.add row (Npos XH)), mat1)))))
      isis (N0, mat)) (fun r -> Ok (snd r))

(** val hdpc_step : mode -> n -> n -> n list -> n list outcome **)

let hdpc_step m h j next =
  obind (oct_alpha (Npos XH)) (fun al ->
    obind (omapM (fun x -> oct_mul al x) next) (fun col ->
      obind (rand_gen true m (N.add j (Npos XH)) (Npos (XO (XI XH))) h)
        (fun rand6 ->
        obind (sub_w m (Npos (XO (XO (XO (XO (XO (XO XH))))))) h (Npos XH))
          (fun hm1 ->
          obind (rand_gen true m (N.add j (Npos XH)) (Npos (XI (XI XH))) hm1)
            (fun rand7 ->
            obind (rem_ok (N.add (N.add rand6 rand7) (Npos XH)) h) (fun i2 ->
              obind
                (list_upd col (N.to_nat rand6) (fun v ->
                  N.coq_lxor v (Npos XH))) (fun col0 ->
                list_upd col0 (N.to_nat i2) (fun v -> N.coq_lxor v (Npos XH)))))))))

(** val hdpc_cols :
    mode -> n -> nat -> n -> n list -> n list list -> n list list outcome **)

let rec hdpc_cols m h n0 j next acc =
  match n0 with
  | O -> Ok acc
  | S k ->
    obind (hdpc_step m h j next) (fun col ->
      hdpc_cols m h k (N.sub j (Npos XH)) col (col :: acc))

(** val transpose_cols : nat -> n list list -> n list list **)

let rec transpose_cols h cols =
  match h with
  | O -> []
  | S k -> (map (fun c -> hd N0 c) cols) :: (transpose_cols k (map tl cols))

(** val generate_hdpc_rows : mode -> n -> n -> n -> n list list outcome **)

let generate_hdpc_rows m kp s h =
  let n0 = N.add kp s in
  obind (omapM oct_alpha (rangeN (N.to_nat h))) (fun last_col ->
    obind (if N.ltb n0 (Npos (XO XH)) then Panic POverflow else Ok ())
      (fun _ ->
      obind
        (hdpc_cols m h (N.to_nat (N.sub n0 (Npos XH)))
          (N.sub n0 (Npos (XO XH))) last_col (last_col :: [])) (fun cols ->
        let g = transpose_cols (N.to_nat h) cols in
        Ok
        (map (fun pat ->
          let (i, row) = pat in
          app row
            (map (fun t0 -> if N.eqb t0 i then Npos XH else N0)
              (rangeN (N.to_nat h)))) (combine (rangeN (N.to_nat h)) g)))))

type sysparams = { spK : n; spJ : n; spS : n; spH : n; spW : n; spP : 
                   n; spP1 : n; spL : n }

(** val sys_params : n -> sysparams outcome **)

let sys_params k =
  obind (extended_source_block_symbols k) (fun kp ->
    obind (num_ldpc_symbols k) (fun s ->
      obind (num_hdpc_symbols k) (fun h ->
        obind (num_lt_symbols k) (fun w ->
          obind (num_pi_symbols k) (fun p ->
            obind (num_intermediate_symbols k) (fun l ->
              obind (systematic_index kp) (fun j ->
                obind (calculate_p1 kp) (fun p1 -> Ok { spK = kp; spJ = j;
                  spS = s; spH = h; spW = w; spP = p; spP1 = p1; spL = l }))))))))

(** val generate_constraint_matrix :
    mode -> n -> n list -> (n list list * n list list) outcome **)

let generate_constraint_matrix m k isis =
  obind (sys_params k) (fun sp ->
    let kp = sp.spK in
    let j = sp.spJ in
    let sn = sp.spS in
    let h = sp.spH in
    let w = sp.spW in
    let p = sp.spP in
    let p1 = sp.spP1 in
    let l = sp.spL in
    let b = N.sub w sn in
    obind (assert_ok (N.leb l (N.add (N.add sn h) (N.of_nat (length isis)))))
      (fun _ ->
      let mat =
        zero_matrix (add (N.to_nat (N.add sn h)) (length isis)) (N.to_nat l)
      in
      obind (set_ldpc sn b w p mat) (fun mat0 ->
        obind (num_lt_symbols kp) (fun w' ->
          obind (num_pi_symbols kp) (fun p' ->
            obind (set_enc m (N.add sn h) w' p' p1 j isis mat0) (fun mat1 ->
              obind (generate_hdpc_rows m kp sn h) (fun hd0 -> Ok (mat1, hd0))))))))

(** val generate_constraint_matrix_no_hdpc :
    mode -> n -> n list -> n list list outcome **)

let generate_constraint_matrix_no_hdpc m k isis =
  obind (sys_params k) (fun sp ->
    let kp = sp.spK in
    let j = sp.spJ in
    let sn = sp.spS in
    let w = sp.spW in
    let p = sp.spP in
    let p1 = sp.spP1 in
    let l = sp.spL in
    let b = N.sub w sn in
    obind (assert_ok (N.leb l (N.add sn (N.of_nat (length isis))))) (fun _ ->
      let mat = zero_matrix (add (N.to_nat sn) (length isis)) (N.to_nat l) in
      obind (set_ldpc sn b w p mat) (fun mat0 ->
        obind (num_lt_symbols kp) (fun w' ->
          obind (num_pi_symbols kp) (fun p' ->
            set_enc m sn w' p' p1 j isis mat0)))))

(** val full_matrix : n -> n -> n list list -> n list list -> n list list **)

let full_matrix s h bin hdpc =
  app (firstn (N.to_nat s) bin) (app hdpc (skipn (N.to_nat (N.add s h)) bin))

(** val lenN : 'a1 list -> n **)

let lenN l =
  N.of_nat (length l)

(** val slice : n list -> n -> n -> n list outcome **)

let slice l a b =
  if (&&) (N.leb a b) (N.leb b (lenN l))
  then Ok (firstn (N.to_nat (N.sub b a)) (skipn (N.to_nat a) l))
  else Panic PIndex

(** val slice_from0 : n list -> n -> n list outcome **)

let slice_from0 l a =
  if N.leb a (lenN l) then Ok (skipn (N.to_nat a) l) else Panic PIndex

(** val write_slice : n list -> n -> n list -> n list outcome **)

let write_slice dst a src =
  if N.leb (N.add a (lenN src)) (lenN dst)
  then Ok
         (app (firstn (N.to_nat a) dst)
           (app src (skipn (N.to_nat (N.add a (lenN src))) dst)))
  else Panic PIndex

(** val enumerate_from : n -> 'a1 list -> (n * 'a1) list **)

let rec enumerate_from i = function
| [] -> []
| a :: t0 -> (i, a) :: (enumerate_from (N.add i (Npos XH)) t0)

(** val int_div_ceil0 : n -> n -> n outcome **)

let int_div_ceil0 num denom =
  if N.eqb denom N0
  then Panic PDivZero
  else if N.eqb (N.modulo num denom) N0
       then Ok (u32 (N.div num denom))
       else Ok (u32 (N.add (N.div num denom) (Npos XH)))

(** val partition0 : n -> n -> (((n * n) * n) * n) outcome **)

let partition0 i j =
  obind (int_div_ceil0 i j) (fun il ->
    obind (div_ok i j) (fun is_ ->
      let jl = N.sub i (N.mul is_ j) in
      let js = N.sub j jl in Ok (((il, is_), jl), js)))

(** val push_blocks :
    nat -> n -> (n -> unit outcome) -> n -> ((n * n) list * n) outcome **)

let rec push_blocks n0 offset chk data_index =
  match n0 with
  | O -> Ok ([], data_index)
  | S n' ->
    obind (chk (N.add data_index offset)) (fun _ ->
      obind (push_blocks n' offset chk (N.add data_index offset)) (fun x ->
        let (rest, last) = x in
        Ok (((data_index, (N.add data_index offset)) :: rest), last)))

(** val calculate_block_offsets : n -> n -> n -> n -> (n * n) list outcome **)

let calculate_block_offsets f t0 z datalen =
  obind (int_div_ceil0 f t0) (fun kt0 ->
    obind (partition0 kt0 z) (fun x ->
      let (p, zs) = x in
      let (p0, zl) = p in
      let (kl0, ks) = p0 in
      obind (push_blocks (N.to_nat zl) (N.mul kl0 t0) (fun _ -> Ok ()) N0)
        (fun x0 ->
        let (b1, idx1) = x0 in
        obind
          (push_blocks (N.to_nat zs) (N.mul ks t0) (fun e ->
            if N.ltb datalen e
            then assert_ok (N.ltb datalen (N.mul kt0 t0))
            else Ok ()) idx1) (fun x1 -> let (b2, _) = x1 in Ok (app b1 b2)))))

(** val encoder_block : n list -> (n * n) -> n list outcome **)

let encoder_block data = function
| (s, e) ->
  if N.ltb (lenN data) e
  then obind (slice_from0 data s) (fun d -> Ok
         (app d (repeat N0 (N.to_nat (N.sub e (lenN data))))))
  else slice data s e

(** val extend_symbols :
    n list -> n -> n list list -> n -> (n list list * n) outcome **)

let rec extend_symbols data bytes symbols offset =
  match symbols with
  | [] -> Ok ([], offset)
  | s :: rest ->
    obind (slice data offset (N.add offset bytes)) (fun sl ->
      obind (extend_symbols data bytes rest (N.add offset bytes)) (fun x ->
        let (rest', off') = x in Ok (((app s sl) :: rest'), off')))

(** val sub_block_loop :
    n list -> n -> n -> n -> n -> n list -> n list list -> n -> (n list
    list * n) outcome **)

let rec sub_block_loop data tl0 ts nl al sbs symbols offset =
  match sbs with
  | [] -> Ok (symbols, offset)
  | sb :: rest ->
    let bytes = if N.ltb sb nl then N.mul tl0 al else N.mul ts al in
    obind (extend_symbols data bytes symbols offset) (fun x ->
      let (symbols', offset') = x in
      sub_block_loop data tl0 ts nl al rest symbols' offset')

(** val chunks : n -> n list -> n list list **)

let chunks t0 l =
  map (fun k -> firstn (N.to_nat t0) (skipn (N.to_nat (N.mul k t0)) l))
    (rangeN (N.to_nat (ceil_div (lenN l) t0)))

(** val create_symbols : cfg -> n list -> n list list outcome **)

let create_symbols c data =
  obind (rem_ok (lenN data) c.cT) (fun r ->
    obind (assert_ok (N.eqb r N0)) (fun _ ->
      if N.ltb (Npos XH) c.cN
      then obind (div_ok (lenN data) c.cT) (fun nsym ->
             obind (div_ok c.cT c.cAl) (fun q ->
               obind (partition0 q c.cN) (fun x ->
                 let (p, ns) = x in
                 let (p0, nl) = p in
                 let (tl0, ts) = p0 in
                 obind
                   (sub_block_loop data tl0 ts nl c.cAl
                     (rangeN (N.to_nat (N.add nl ns)))
                     (repeat [] (N.to_nat nsym)) N0) (fun x0 ->
                   let (symbols, offset) = x0 in
                   obind (assert_ok (N.eqb offset (lenN data))) (fun _ -> Ok
                     symbols)))))
      else Ok (chunks c.cT data)))

(** val payload_id_new : n -> n -> (n * n) outcome **)

let payload_id_new sbn esi =
  obind
    (assert_ok
      (N.ltb esi (Npos (XO (XO (XO (XO (XO (XO (XO (XO (XO (XO (XO (XO (XO
        (XO (XO (XO (XO (XO (XO (XO (XO (XO (XO (XO
        XH))))))))))))))))))))))))))) (fun _ -> Ok (sbn, esi))

(** val source_packets :
    n -> n list list -> ((n * n) * n list) list outcome **)

let source_packets sbn symbols =
  omapM (fun im ->
    obind (payload_id_new sbn (u32 (fst im))) (fun id -> Ok (id, (snd im))))
    (enumerate_from N0 symbols)

(** val encoder_new : cfg -> n list -> (n * n list list) list outcome **)

let encoder_new c data =
  obind (calculate_block_offsets c.cF c.cT c.cZ (lenN data)) (fun offs ->
    omapM (fun ise ->
      obind (encoder_block data (snd ise)) (fun b ->
        obind (create_symbols c b) (fun syms -> Ok ((u8 (fst ise)), syms))))
      (enumerate_from N0 offs))

(** val source_packets_of_object :
    cfg -> n list -> ((n * n) * n list) list outcome **)

let source_packets_of_object c data =
  obind (encoder_new c data) (fun encs ->
    obind (omapM (fun e -> source_packets (fst e) (snd e)) encs) (fun pk ->
      Ok (concat pk)))

(** val unpack_loop :
    n -> n -> n -> n -> n -> n list -> n -> n list -> n list -> n -> n -> n
    list outcome **)

let rec unpack_loop tl0 ts nl al k symbol0 symbol_index sbs result symbol_offset sub_block_offset =
  match sbs with
  | [] -> Ok result
  | sb :: rest ->
    let bytes = if N.ltb sb nl then N.mul tl0 al else N.mul ts al in
    let start = N.add sub_block_offset (N.mul bytes symbol_index) in
    obind (slice symbol0 symbol_offset (N.add symbol_offset bytes))
      (fun src ->
      obind (write_slice result start src) (fun result' ->
        unpack_loop tl0 ts nl al k symbol0 symbol_index rest result'
          (N.add symbol_offset bytes) (N.add sub_block_offset (N.mul bytes k))))

(** val unpack_sub_blocks :
    cfg -> n -> n list -> n list -> n -> n list outcome **)

let unpack_sub_blocks c k result symbol0 symbol_index =
  obind (div_ok c.cT c.cAl) (fun q ->
    obind (partition0 q c.cN) (fun x ->
      let (p, ns) = x in
      let (p0, nl) = p in
      let (tl0, ts) = p0 in
      unpack_loop tl0 ts nl c.cAl k symbol0 symbol_index
        (rangeN (N.to_nat (N.add nl ns))) result N0 N0))

(** val unpack_all :
    cfg -> n -> (n * n list) list -> n list -> n list outcome **)

let rec unpack_all c k isyms result =
  match isyms with
  | [] -> Ok result
  | p :: rest ->
    let (i, s) = p in
    obind (unpack_sub_blocks c k result s i) (fun r' ->
      unpack_all c k rest r')

(** val block_from_all_source : cfg -> n -> n list list -> n list outcome **)

let block_from_all_source c k symbols =
  unpack_all c k (enumerate_from N0 symbols)
    (repeat N0 (N.to_nat (N.mul c.cT k)))

(** val reassemble : cfg -> n list list -> n list **)

let reassemble c blocks =
  firstn (N.to_nat c.cF) (concat blocks)

type slab = { sl_data : n list list; sl_ss : nat; sl_map : n list option }

(** val slab_count : slab -> nat **)

let slab_count s =
  length s.sl_data

(** val phys : slab -> n -> n outcome **)

let phys s i =
  match s.sl_map with
  | Some m -> nth_ok m (N.to_nat i)
  | None -> Ok i

(** val slab_get : slab -> n -> n list outcome **)

let slab_get s i =
  obind (phys s i) (fun p -> nth_ok s.sl_data (N.to_nat p))

(** val list_set : 'a1 list -> nat -> 'a1 -> 'a1 list **)

let rec list_set l i v =
  match l with
  | [] -> []
  | x :: t0 -> (match i with
                | O -> v :: t0
                | S j -> x :: (list_set t0 j v))

(** val slab_put : slab -> n -> n list -> slab **)

let slab_put s p v =
  { sl_data = (list_set s.sl_data (N.to_nat p) v); sl_ss = s.sl_ss; sl_map =
    s.sl_map }

(** val slab_pair : slab -> n -> n -> ((n * n list) * n list) outcome **)

let slab_pair s dest src =
  obind (phys s dest) (fun pd ->
    obind (phys s src) (fun ps ->
      if N.eqb pd ps
      then Panic PAssert
      else if negb (ltb (N.to_nat pd) (slab_count s))
           then Panic PAssert
           else if negb (ltb (N.to_nat ps) (slab_count s))
                then Panic PAssert
                else obind (nth_ok s.sl_data (N.to_nat pd)) (fun d ->
                       obind (nth_ok s.sl_data (N.to_nat ps)) (fun v -> Ok
                         ((pd, d), v)))))

(** val map0 : ('a1 -> 'a2 -> 'a3) -> 'a1 list -> 'a2 list -> 'a3 list **)

let rec map0 f l1 l2 =
  match l1 with
  | [] -> []
  | a :: t1 -> (match l2 with
                | [] -> []
                | b :: t2 -> (f a b) :: (map0 f t1 t2))

(** val bytes_add : n list -> n list -> n list **)

let bytes_add d s =
  map0 N.coq_lxor d s

(** val bytes_mul : n -> n list -> n list **)

let bytes_mul c d =
  map (mulN c) d

(** val bytes_fma : n -> n list -> n list -> n list **)

let bytes_fma c d s =
  map0 (fun x y -> N.coq_lxor x (mulN c y)) d s

(** val slab_add_assign : slab -> n -> n -> slab outcome **)

let slab_add_assign s dest src =
  obind (slab_pair s dest src) (fun x ->
    let (p, v) = x in let (pd, d) = p in Ok (slab_put s pd (bytes_add d v)))

(** val slab_mulassign : slab -> n -> n -> slab outcome **)

let slab_mulassign s dest c =
  obind (phys s dest) (fun p ->
    obind (nth_ok s.sl_data (N.to_nat p)) (fun d -> Ok
      (slab_put s p (bytes_mul c d))))

(** val slab_fma : mode -> slab -> n -> n -> n -> slab outcome **)

let slab_fma m s dest src c =
  obind (slab_pair s dest src) (fun x ->
    let (p, v) = x in
    let (pd, d) = p in
    (match m with
     | Release -> Ok (slab_put s pd (bytes_fma c d v))
     | Checked ->
       if (||) (N.eqb c N0) (N.eqb c (Npos XH))
       then Panic PAssert
       else Ok (slab_put s pd (bytes_fma c d v))))

(** val slab_set_reorder : slab -> n list -> slab **)

let slab_set_reorder s order0 =
  { sl_data = s.sl_data; sl_ss = s.sl_ss; sl_map = (Some order0) }

type symbol_op =
| SAdd of n * n
| SMul of n * n
| SFMA of n * n * n
| SReorder of n list

(** val perform_op : mode -> symbol_op -> slab -> slab outcome **)

let perform_op m o s =
  match o with
  | SAdd (d, r) -> slab_add_assign s d r
  | SMul (d, c) -> slab_mulassign s d c
  | SFMA (d, r, c) -> slab_fma m s d r c
  | SReorder ord -> Ok (slab_set_reorder s ord)

(** val replay : mode -> symbol_op list -> slab -> slab outcome **)

let rec replay m ops s =
  match ops with
  | [] -> Ok s
  | o :: t0 -> obind (perform_op m o s) (fun s' -> replay m t0 s')

(** val slab_read : slab -> nat -> n -> n list list outcome **)

let rec slab_read s n0 from =
  match n0 with
  | O -> Ok []
  | S k ->
    obind (slab_get s from) (fun x ->
      obind (slab_read s k (N.add from (Npos XH))) (fun r -> Ok (x :: r)))

(** val create_d : sysparams -> n list list -> nat -> n list list **)

let create_d sp syms t0 =
  app (repeat (repeat N0 t0) (N.to_nat (N.add sp.spS sp.spH)))
    (app syms (repeat (repeat N0 t0) (sub (N.to_nat sp.spK) (length syms))))

(** val gen_intermediate_symbols :
    mode -> n list list -> nat -> n list list outcome **)

let gen_intermediate_symbols m syms t0 =
  let k = lenN syms in
  obind (sys_params k) (fun sp ->
    obind (generate_constraint_matrix m k (rangeN (N.to_nat sp.spK)))
      (fun x ->
      let (bin, hdpc) = x in
      let a = full_matrix sp.spS sp.spH bin hdpc in
      (match gauss_solve fmul finv t0 (N.to_nat sp.spL) a
               (create_d sp syms t0) with
       | Some c -> Ok c
       | None -> Panic PUnwrap)))

type sb_encoder = { sbe_id : n; sbe_syms : n list list; sbe_C : n list list;
                    sbe_T : nat }

(** val sbe_new : mode -> n -> cfg -> n list -> sb_encoder outcome **)

let sbe_new m id c block =
  obind (create_symbols c block) (fun syms ->
    obind (gen_intermediate_symbols m syms (N.to_nat c.cT)) (fun c0 -> Ok
      { sbe_id = id; sbe_syms = syms; sbe_C = c0; sbe_T = (N.to_nat c.cT) }))

(** val enc_into :
    mode -> n -> n list list -> (((((n * n) * n) * n) * n) * n) -> n list
    outcome **)

let enc_into m k c t0 =
  obind (num_lt_symbols k) (fun w ->
    obind (num_pi_symbols k) (fun p ->
      obind (calculate_p1 k) (fun p1 ->
        let (p0, b1) = t0 in
        let (p2, a1) = p0 in
        let (p3, d1) = p2 in
        let (p4, b) = p3 in
        let (d, a) = p4 in
        obind (assert_ok ((&&) (N.leb (Npos XH) a) (N.ltb a w))) (fun _ ->
          obind (assert_ok (N.ltb b w)) (fun _ ->
            obind
              (assert_ok
                ((||) (N.eqb d1 (Npos (XO XH))) (N.eqb d1 (Npos (XI XH)))))
              (fun _ ->
              obind (assert_ok ((&&) (N.leb (Npos XH) a1) (N.ltb a1 p1)))
                (fun _ ->
                obind (assert_ok (N.ltb b1 p1)) (fun _ ->
                  obind (nth_ok c (N.to_nat b)) (fun first ->
                    let fuel = N.to_nat p1 in
                    obind (lt_loop m (N.to_nat (N.sub d (Npos XH))) a w b)
                      (fun lt ->
                      obind (pi_skip m fuel a1 p p1 b1) (fun b1' ->
                        obind
                          (add_w m (Npos (XO (XO (XO (XO (XO XH)))))) w b1')
                          (fun i0 ->
                          obind
                            (pi_loop m fuel (N.to_nat (N.sub d1 (Npos XH)))
                              a1 w p p1 b1') (fun pis ->
                            ofold (fun i acc ->
                              obind (nth_ok c (N.to_nat i)) (fun s -> Ok
                                (bytes_add acc s))) (app lt (i0 :: pis)) first)))))))))))))

(** val sbe_source_packets : sb_encoder -> ((n * n) * n list) list outcome **)

let sbe_source_packets e =
  source_packets e.sbe_id e.sbe_syms

(** val sbe_repair_packets_pinned :
    mode -> sb_encoder -> n -> n -> ((n * n) * n list) list outcome **)

let sbe_repair_packets_pinned m e start n0 =
  let k = lenN e.sbe_syms in
  obind (extended_source_block_symbols k) (fun kp ->
    obind (add_w m (Npos (XO (XO (XO (XO (XO XH)))))) start kp)
      (fun start_esi ->
      obind (num_lt_symbols k) (fun w ->
        obind (systematic_index k) (fun j ->
          obind (calculate_p1 k) (fun p1 ->
            omapM (fun i ->
              obind (add_w m (Npos (XO (XO (XO (XO (XO XH)))))) start_esi i)
                (fun isi ->
                obind (intermediate_tuple_gen true m isi w j p1) (fun t0 ->
                  obind (enc_into m k e.sbe_C t0) (fun data ->
                    obind
                      (add_w m (Npos (XO (XO (XO (XO (XO XH)))))) k start)
                      (fun e1 ->
                      obind (add_w m (Npos (XO (XO (XO (XO (XO XH)))))) e1 i)
                        (fun esi ->
                        obind (payload_id_new e.sbe_id esi) (fun id -> Ok
                          (id, data)))))))) (rangeN (N.to_nat n0)))))))

(** val sbe_repair_packets :
    mode -> sb_encoder -> n -> n -> ((n * n) * n list) list outcome **)

let sbe_repair_packets m e start n0 =
  obind
    (assert_ok (N.leb (N.add (N.add (lenN e.sbe_syms) start) n0) eSI_LIMIT))
    (fun _ -> sbe_repair_packets_pinned m e start n0)

(** val encoder_new_full :
    mode -> cfg -> n list -> sb_encoder list outcome **)

let encoder_new_full m c data =
  obind (calculate_block_offsets c.cF c.cT c.cZ (lenN data)) (fun offs ->
    omapM (fun ise ->
      obind (encoder_block data (snd ise)) (fun b ->
        sbe_new m (u8 (fst ise)) c b)) (enumerate_from N0 offs))

(** val get_encoded_packets :
    mode -> sb_encoder list -> n -> ((n * n) * n list) list outcome **)

let get_encoded_packets m encs n0 =
  obind
    (omapM (fun e ->
      obind (sbe_source_packets e) (fun s ->
        obind (sbe_repair_packets m e N0 n0) (fun r -> Ok (app s r)))) encs)
    (fun pk -> Ok (concat pk))

type sb_decoder = { sbd_id : n; sbd_cfg : cfg; sbd_K : n;
                    sbd_src : n list option list;
                    sbd_rep : (n * n list) list; sbd_nsrc : n;
                    sbd_esis : n list; sbd_decoded : bool }

(** val sbd_new : n -> cfg -> n -> sb_decoder outcome **)

let sbd_new id c block_length =
  obind (int_div_ceil0 block_length c.cT) (fun k -> Ok { sbd_id = id;
    sbd_cfg = c; sbd_K = k; sbd_src = (repeat None (N.to_nat k)); sbd_rep =
    []; sbd_nsrc = N0; sbd_esis = []; sbd_decoded = false })

(** val mem_N : n -> n list -> bool **)

let mem_N x l =
  existsb (N.eqb x) l

(** val sbd_add :
    mode -> sb_decoder -> ((n * n) * n list) -> sb_decoder outcome **)

let sbd_add m d = function
| (p, payload) ->
  let (sbn, esi) = p in
  obind (assert_ok (N.eqb d.sbd_id sbn)) (fun _ ->
    if mem_N esi d.sbd_esis
    then Ok d
    else if N.leb d.sbd_K esi
         then Ok { sbd_id = d.sbd_id; sbd_cfg = d.sbd_cfg; sbd_K = d.sbd_K;
                sbd_src = d.sbd_src; sbd_rep =
                (app d.sbd_rep ((esi, payload) :: [])); sbd_nsrc =
                d.sbd_nsrc; sbd_esis = (esi :: d.sbd_esis); sbd_decoded =
                d.sbd_decoded }
         else obind (list_put d.sbd_src (N.to_nat esi) (Some payload))
                (fun src' ->
                obind
                  (add_w m (Npos (XO (XO (XO (XO (XO XH)))))) d.sbd_nsrc
                    (Npos XH)) (fun n' -> Ok { sbd_id = d.sbd_id; sbd_cfg =
                  d.sbd_cfg; sbd_K = d.sbd_K; sbd_src = src'; sbd_rep =
                  d.sbd_rep; sbd_nsrc = n'; sbd_esis = (esi :: d.sbd_esis);
                  sbd_decoded = d.sbd_decoded })))

(** val present_sources : sb_decoder -> (n * n list) list **)

let present_sources d =
  flat_map (fun ix ->
    match snd ix with
    | Some s -> ((fst ix), s) :: []
    | None -> []) (enumerate_from N0 d.sbd_src)

(** val rebuild_source_symbol :
    mode -> sysparams -> n list list -> n -> n list outcome **)

let rebuild_source_symbol m sp c i =
  obind (intermediate_tuple_gen true m i sp.spW sp.spJ sp.spP1) (fun t0 ->
    obind (enc_indices m t0 sp.spW sp.spP sp.spP1) (fun idx ->
      match idx with
      | [] -> Panic PIndex
      | i0 :: rest ->
        obind (nth_ok c (N.to_nat i0)) (fun first ->
          ofold (fun j acc ->
            obind (nth_ok c (N.to_nat j)) (fun s -> Ok (bytes_add acc s)))
            rest first)))

(** val sbd_finish :
    mode -> sb_decoder -> sysparams -> n list list -> n list outcome **)

let sbd_finish m d sp c =
  let c0 = d.sbd_cfg in
  ofold (fun ix result ->
    match snd ix with
    | Some s -> unpack_sub_blocks c0 d.sbd_K result s (fst ix)
    | None ->
      obind (rebuild_source_symbol m sp c (fst ix)) (fun s ->
        unpack_sub_blocks c0 d.sbd_K result s (fst ix)))
    (enumerate_from N0 d.sbd_src) (repeat N0 (N.to_nat (N.mul c0.cT d.sbd_K)))

(** val check_len : nat -> n list -> n list outcome **)

let check_len t0 s =
  if eqb (length s) t0 then Ok s else Panic PAssert

(** val sbd_try :
    mode -> sb_decoder -> (n list option * sb_decoder) outcome **)

let sbd_try m d =
  let c = d.sbd_cfg in
  let k = d.sbd_K in
  let t0 = N.to_nat c.cT in
  obind (extended_source_block_symbols k) (fun kp ->
    let set_decoded = fun b -> { sbd_id = d.sbd_id; sbd_cfg = c; sbd_K = k;
      sbd_src = d.sbd_src; sbd_rep = d.sbd_rep; sbd_nsrc = d.sbd_nsrc;
      sbd_esis = d.sbd_esis; sbd_decoded = b }
    in
    if N.ltb (lenN d.sbd_esis) k
    then Ok (None, d)
    else if N.eqb d.sbd_nsrc k
         then obind
                (omapM (fun o ->
                  match o with
                  | Some s -> Ok s
                  | None -> Panic PUnwrap) d.sbd_src) (fun syms ->
                obind (block_from_all_source c k syms) (fun r -> Ok ((Some
                  r), (set_decoded true))))
         else obind (sys_params k) (fun sp ->
                let npad = N.sub kp k in
                let isis =
                  app (map fst (present_sources d))
                    (app (map (fun i -> N.add k i) (rangeN (N.to_nat npad)))
                      (map (fun r -> N.add (fst r) npad) d.sbd_rep))
                in
                obind
                  (omapM (fun x -> check_len t0 (snd x)) (present_sources d))
                  (fun srcs ->
                  obind (omapM (fun x -> check_len t0 (snd x)) d.sbd_rep)
                    (fun reps ->
                    let body =
                      app srcs
                        (app (repeat (repeat N0 t0) (N.to_nat npad)) reps)
                    in
                    let l = sp.spL in
                    obind
                      (if N.leb l (N.add sp.spS (lenN isis))
                       then obind
                              (generate_constraint_matrix_no_hdpc m k isis)
                              (fun a ->
                              let d0 =
                                app (repeat (repeat N0 t0) (N.to_nat sp.spS))
                                  body
                              in
                              (match gauss_solve fmul finv t0 (N.to_nat l) a
                                       d0 with
                               | Some c0 ->
                                 obind (sbd_finish m d sp c0) (fun r -> Ok
                                   (Some r))
                               | None -> Ok None))
                       else Ok None) (fun r3a ->
                      match r3a with
                      | Some r -> Ok ((Some r), (set_decoded true))
                      | None ->
                        obind (generate_constraint_matrix m k isis) (fun x ->
                          let (bin, hdpc) = x in
                          let a = full_matrix sp.spS sp.spH bin hdpc in
                          let d0 =
                            app
                              (repeat (repeat N0 t0)
                                (N.to_nat (N.add sp.spS sp.spH))) body
                          in
                          (match gauss_solve fmul finv t0 (N.to_nat l) a d0 with
                           | Some c0 ->
                             obind (sbd_finish m d sp c0) (fun r -> Ok ((Some
                               r), (set_decoded true)))
                           | None -> Ok (None, (set_decoded false)))))))))

(** val sbd_decode :
    mode -> sb_decoder -> ((n * n) * n list) list -> (n list
    option * sb_decoder) outcome **)

let sbd_decode m d pkts =
  obind (ofold (fun p d0 -> sbd_add m d0 p) pkts d) (fun d' -> sbd_try m d')

type decoder = { dec_cfg : cfg; dec_sbd : sb_decoder list;
                 dec_blocks : n list option list }

(** val dec_new : cfg -> decoder outcome **)

let dec_new c =
  obind (int_div_ceil0 c.cF c.cT) (fun kt0 ->
    obind (partition0 kt0 c.cZ) (fun x ->
      let (p, zs) = x in
      let (p0, zl) = p in
      let (kl0, ks) = p0 in
      obind
        (omapM (fun i -> sbd_new (u8 i) c (N.mul kl0 c.cT))
          (rangeN (N.to_nat zl))) (fun l1 ->
        obind
          (omapM (fun i -> sbd_new (u8 (N.add zl i)) c (N.mul ks c.cT))
            (rangeN (N.to_nat zs))) (fun l2 -> Ok { dec_cfg = c; dec_sbd =
          (app l1 l2); dec_blocks = (repeat None (N.to_nat (N.add zl zs))) }))))

(** val dec_result : decoder -> n list option **)

let dec_result d =
  if forallb (fun b -> match b with
                       | Some _ -> true
                       | None -> false) d.dec_blocks
  then Some
         (reassemble d.dec_cfg
           (flat_map (fun b -> match b with
                               | Some x -> x :: []
                               | None -> []) d.dec_blocks))
  else None

(** val dec_add : mode -> decoder -> ((n * n) * n list) -> decoder outcome **)

let dec_add m d pkt =
  let bn = N.to_nat (fst (fst pkt)) in
  obind (nth_ok d.dec_blocks bn) (fun blk ->
    match blk with
    | Some _ -> Ok d
    | None ->
      obind (nth_ok d.dec_sbd bn) (fun sd ->
        obind (sbd_decode m sd (pkt :: [])) (fun x ->
          let (r, sd') = x in
          obind (list_put d.dec_sbd bn sd') (fun sbds ->
            obind (list_put d.dec_blocks bn r) (fun blks -> Ok { dec_cfg =
              d.dec_cfg; dec_sbd = sbds; dec_blocks = blks })))))

(** val dec_decode :
    mode -> decoder -> ((n * n) * n list) -> (n list option * decoder) outcome **)

let dec_decode m d pkt =
  obind (dec_add m d pkt) (fun d' -> Ok ((dec_result d'), d'))

type srow = (positive * n) list

type smat = srow PositiveMap.t

(** val ckey : n -> positive **)

let ckey =
  N.succ_pos

type fop =
| FAdd of n * n
| FMul of n * n
| FFMA of n * n * n

(** val sadd : srow -> srow -> srow **)

let rec sadd r1 r2 =
  match r1 with
  | [] -> r2
  | p :: t1 ->
    let (k1, v4) = p in
    let rec aux r3 = match r3 with
    | [] -> r1
    | p0 :: t2 ->
      let (k2, v5) = p0 in
      (match Coq_Pos.compare k1 k2 with
       | Eq ->
         let v = N.coq_lxor v4 v5 in
         if N.eqb v N0 then sadd t1 t2 else (k1, v) :: (sadd t1 t2)
       | Lt -> (k1, v4) :: (sadd t1 r3)
       | Gt -> (k2, v5) :: (aux t2))
    in aux r2

(** val sscale : n -> srow -> srow **)

let rec sscale c = function
| [] -> []
| p :: t0 ->
  let (k, v) = p in
  let p0 = fmul c v in
  if N.eqb p0 N0 then sscale c t0 else (k, p0) :: (sscale c t0)

(** val get_row : smat -> n -> srow **)

let get_row m i =
  match PositiveMap.find (N.succ_pos i) m with
  | Some r -> r
  | None -> []

(** val set_row : smat -> n -> srow -> smat **)

let set_row m i r =
  PositiveMap.add (N.succ_pos i) r m

(** val fapply : fop -> smat -> smat **)

let fapply o m =
  match o with
  | FAdd (d, s) -> set_row m d (sadd (get_row m d) (get_row m s))
  | FMul (d, c) -> set_row m d (sscale c (get_row m d))
  | FFMA (d, s, c) ->
    set_row m d (sadd (get_row m d) (sscale c (get_row m s)))

(** val fapply_ops : fop list -> smat -> smat **)

let fapply_ops ops m =
  fold_left (fun m0 o -> fapply o m0) ops m

(** val fop_valid : n -> fop -> bool **)

let fop_valid m = function
| FAdd (d, s) -> (&&) ((&&) (N.ltb d m) (N.ltb s m)) (negb (N.eqb d s))
| FMul (d, c) ->
  (&&)
    ((&&) (N.ltb d m)
      (N.ltb c (Npos (XO (XO (XO (XO (XO (XO (XO (XO XH)))))))))))
    (negb (N.eqb c N0))
| FFMA (d, s, c) ->
  (&&) ((&&) ((&&) (N.ltb d m) (N.ltb s m)) (negb (N.eqb d s)))
    (N.ltb c (Npos (XO (XO (XO (XO (XO (XO (XO (XO XH))))))))))

(** val srow_wfb : srow -> bool **)

let srow_wfb r =
  forallb (fun kv ->
    N.ltb (snd kv) (Npos (XO (XO (XO (XO (XO (XO (XO (XO XH)))))))))) r

(** val smat_wfb : smat -> bool **)

let smat_wfb m =
  forallb (fun ir -> srow_wfb (snd ir)) (PositiveMap.elements m)

(** val srow_is_unit : n -> srow -> bool **)

let srow_is_unit j = function
| [] -> false
| p :: l ->
  let (k, v) = p in
  (match l with
   | [] -> (&&) (Coq_Pos.eqb k (ckey j)) (N.eqb v (Npos XH))
   | _ :: _ -> false)

(** val check_units : smat -> n -> n -> n list -> bool **)

let rec check_units m m0 j = function
| [] -> true
| i :: t0 ->
  (&&) ((&&) (N.ltb i m0) (srow_is_unit j (get_row m i)))
    (check_units m m0 (N.succ j) t0)

(** val check_cert_fast : n -> n -> smat -> fop list -> n list -> bool **)

let check_cert_fast l m a ops order0 =
  (&&)
    ((&&) ((&&) (smat_wfb a) (forallb (fop_valid m) ops))
      (N.eqb (N.of_nat (length order0)) l))
    (check_units (fapply_ops ops a) m N0 order0)

(** val sval : positive -> srow -> n **)

let rec sval k = function
| [] -> N0
| p :: t0 ->
  let (k', v) = p in
  if Coq_Pos.eqb k k' then N.coq_lxor v (sval k t0) else sval k t0

(** val srow_of_dense_from : n -> n list -> srow **)

let rec srow_of_dense_from j = function
| [] -> []
| v :: t0 ->
  if N.eqb v N0
  then srow_of_dense_from (N.succ j) t0
  else ((ckey j), v) :: (srow_of_dense_from (N.succ j) t0)

(** val srow_of_dense : n list -> srow **)

let srow_of_dense r =
  srow_of_dense_from N0 r

(** val nodup_from : unit PositiveMap.t -> n list -> bool **)

let rec nodup_from seen = function
| [] -> true
| i :: t0 ->
  (match PositiveMap.find (N.succ_pos i) seen with
   | Some _ -> false
   | None -> nodup_from (PositiveMap.add (N.succ_pos i) () seen) t0)

(** val nodup_fast : n list -> bool **)

let nodup_fast l =
  nodup_from PositiveMap.empty l

(** val decode_plan : n list -> (fop list * n list) option **)

let rec decode_plan = function
| [] -> None
| tag :: rest ->
  if N.eqb tag (Npos XH)
  then (match rest with
        | [] -> None
        | d :: l ->
          (match l with
           | [] -> None
           | s :: t0 ->
             (match decode_plan t0 with
              | Some p ->
                let (ops, ord) = p in Some (((FAdd (d, s)) :: ops), ord)
              | None -> None)))
  else if N.eqb tag (Npos (XO XH))
       then (match rest with
             | [] -> None
             | d :: l ->
               (match l with
                | [] -> None
                | c :: t0 ->
                  (match decode_plan t0 with
                   | Some p ->
                     let (ops, ord) = p in Some (((FMul (d, c)) :: ops), ord)
                   | None -> None)))
       else if N.eqb tag (Npos (XI XH))
            then (match rest with
                  | [] -> None
                  | d :: l ->
                    (match l with
                     | [] -> None
                     | s :: l0 ->
                       (match l0 with
                        | [] -> None
                        | c :: t0 ->
                          (match decode_plan t0 with
                           | Some p ->
                             let (ops, ord) = p in
                             Some (((FFMA (d, s, c)) :: ops), ord)
                           | None -> None))))
            else if N.eqb tag (Npos (XO (XO XH)))
                 then (match rest with
                       | [] -> None
                       | len :: ord ->
                         if N.eqb (N.of_nat (length ord)) len
                         then Some ([], ord)
                         else None)
                 else None

(** val enc_matrix_m : mode -> n -> n list list outcome **)

let enc_matrix_m m k =
  obind (sys_params k) (fun sp ->
    obind (generate_constraint_matrix m k (rangeN (N.to_nat sp.spK)))
      (fun x ->
      let (bin, hdpc) = x in Ok (full_matrix sp.spS sp.spH bin hdpc)))

(** val enc_matrix : n -> n list list outcome **)

let enc_matrix k =
  enc_matrix_m Release k

(** val sins : positive -> n -> srow -> srow **)

let rec sins k x r = match r with
| [] -> (k, x) :: []
| p :: t0 ->
  let (k', v') = p in
  (match Coq_Pos.compare k k' with
   | Gt -> (k', v') :: (sins k x t0)
   | _ -> (k, x) :: r)

(** val sset1 : n -> srow -> srow **)

let sset1 j r =
  let c = sval (ckey j) r in
  if N.eqb c (Npos XH) then r else sins (ckey j) (N.coq_lxor c (Npos XH)) r

(** val sset : n -> n -> smat -> n -> n -> smat outcome **)

let sset m l m0 i j =
  if (&&) (N.ltb i m) (N.ltb j l)
  then Ok (set_row m0 i (sset1 j (get_row m0 i)))
  else Panic PIndex

(** val set_ldpc_s : n -> n -> n -> n -> n -> n -> smat -> smat outcome **)

let set_ldpc_s m l s b w p mat =
  obind
    (ofor (N.to_nat b) N0 (fun i mat0 ->
      obind (obind (div_ok i s) (fun d -> Ok (N.add (Npos XH) d))) (fun a ->
        obind (rem_ok i s) (fun b0 ->
          obind (sset m l mat0 b0 i) (fun mat1 ->
            obind (rem_ok (N.add b0 a) s) (fun b1 ->
              obind (sset m l mat1 b1 i) (fun mat2 ->
                obind (rem_ok (N.add b1 a) s) (fun b2 -> sset m l mat2 b2 i)))))))
      mat) (fun mat0 ->
    obind
      (ofor (N.to_nat s) N0 (fun i mat1 -> sset m l mat1 i (N.add i b)) mat0)
      (fun mat1 ->
      ofor (N.to_nat s) N0 (fun i mat2 ->
        obind (rem_ok i p) (fun c1 ->
          obind (sset m l mat2 i (N.add c1 w)) (fun mat3 ->
            obind (rem_ok (N.add i (Npos XH)) p) (fun c2 ->
              sset m l mat3 i (N.add c2 w))))) mat1))

(** val set_enc_s :
    mode -> n -> n -> n -> n -> n -> n -> n -> n list -> smat -> smat outcome **)

let set_enc_s m m0 l first w p p1 j isis mat =
  obind
    (ofold (fun isi st ->
      let (row, mat0) = st in
      obind (intermediate_tuple_gen true m isi w j p1) (fun t0 ->
        obind (enc_indices m t0 w p p1) (fun idx ->
          obind
            (ofold (fun j0 mat1 -> sset m0 l mat1 (N.add row first) j0) idx
              mat0) (fun mat1 -> Ok ((N.add row (Npos XH)), mat1))))) isis
      (N0, mat)) (fun r -> Ok (snd r))

(** val put_rows : smat -> n -> srow list -> smat **)

let rec put_rows m i = function
| [] -> m
| r :: t0 -> put_rows (set_row m i r) (N.succ i) t0

(** val range_from : nat -> n -> n list **)

let rec range_from n0 i =
  match n0 with
  | O -> []
  | S k -> i :: (range_from k (N.succ i))

(** val enc_matrix_sparse : n -> smat outcome **)

let enc_matrix_sparse k =
  obind (sys_params k) (fun sp ->
    let kp = sp.spK in
    let j = sp.spJ in
    let sn = sp.spS in
    let h = sp.spH in
    let w = sp.spW in
    let p = sp.spP in
    let p1 = sp.spP1 in
    let l = sp.spL in
    let b = N.sub w sn in
    let m = N.add (N.add sn h) kp in
    obind (assert_ok (N.leb l m)) (fun _ ->
      obind (set_ldpc_s m l sn b w p PositiveMap.empty) (fun mat ->
        obind (num_lt_symbols kp) (fun w' ->
          obind (num_pi_symbols kp) (fun p' ->
            obind
              (set_enc_s Release m l (N.add sn h) w' p' p1 j
                (range_from (N.to_nat kp) N0) mat) (fun mat0 ->
              obind (generate_hdpc_rows Release kp sn h) (fun hd0 ->
                obind
                  (assert_ok
                    ((&&) (N.eqb (N.of_nat (length hd0)) h)
                      (forallb (fun r -> N.eqb (N.of_nat (length r)) l) hd0)))
                  (fun _ -> Ok (put_rows mat0 sn (map srow_of_dense hd0))))))))))

(** val fma_scalar_ok : fop -> bool **)

let fma_scalar_ok = function
| FFMA (_, _, c) -> (&&) (negb (N.eqb c N0)) (negb (N.eqb c (Npos XH)))
| _ -> true

(** val cert_ok : n -> n list -> bool **)

let cert_ok k v =
  match decode_plan v with
  | Some p ->
    let (ops, ord) = p in
    (match sys_params k with
     | Ok sp ->
       (match enc_matrix_sparse k with
        | Ok a ->
          let l = sp.spL in
          (&&)
            ((&&)
              ((&&)
                ((&&) (N.leb k sp.spK)
                  (N.eqb (N.add (N.add sp.spS sp.spH) sp.spK) l))
                (check_cert_fast l l a ops ord)) (nodup_fast ord))
            (forallb fma_scalar_ok ops)
        | Panic _ -> false)
     | Panic _ -> false)
  | None -> false

(** val argn : n list -> nat -> n **)

let argn l i =
  nth i l N0

(** val cfg_of : n list -> cfg **)

let cfg_of a =
  { cF = (argn a O); cT = (argn a (S O)); cZ = (argn a (S (S O))); cN =
    (argn a (S (S (S O)))); cAl = (argn a (S (S (S (S O))))) }

(** val flat_packets : ((n * n) * n list) list -> n list **)

let flat_packets l =
  flat_map (fun p -> (fst (fst p)) :: ((snd (fst p)) :: (snd p))) l

(** val enc1l : n list outcome -> n list **)

let enc1l = function
| Ok l -> (Npos XH) :: l
| Panic _ -> N0 :: (N0 :: [])

(** val cfg_guard : mode -> cfg -> unit outcome **)

let cfg_guard _ c =
  obind
    (assert_ok
      (N.leb c.cF (Npos (XI (XI (XO (XO (XI (XO (XI (XO (XI (XO (XO (XI (XO
        (XO (XO (XI (XI (XO (XO (XO (XI (XO (XI (XI (XI (XO (XI (XO (XI (XI
        (XI (XO (XI (XI (XO (XI (XI (XO (XI
        XH)))))))))))))))))))))))))))))))))))))))))) (fun _ ->
    obind (rem_ok c.cT c.cAl) (fun r ->
      obind (assert_ok (N.eqb r N0)) (fun _ ->
        if (&&) (negb (N.eqb c.cT N0)) (negb (N.eqb c.cZ N0))
        then assert_ok
               (N.leb (ceil_div (ceil_div c.cF c.cT) c.cZ) (Npos (XI (XI (XO
                 (XO (XI (XO (XI (XO (XO (XO (XI (XI (XI (XO (XI
                 XH)))))))))))))))))
        else Ok ())))

(** val run_enc_packets : mode -> n list -> n list **)

let run_enc_packets m a =
  enc1l
    (let c = cfg_of a in
     obind (cfg_guard m c) (fun _ ->
       obind (encoder_new_full m c (skipn (S (S (S (S (S (S O)))))) a))
         (fun encs ->
         obind (get_encoded_packets m encs (argn a (S (S (S (S (S O)))))))
           (fun pk -> Ok (flat_packets pk)))))

(** val run_repair_window : mode -> n list -> n list **)

let run_repair_window m a =
  enc1l
    (let c = cfg_of a in
     obind (cfg_guard m c) (fun _ ->
       obind
         (encoder_new_full m c (skipn (S (S (S (S (S (S (S (S O)))))))) a))
         (fun encs ->
         obind (nth_ok encs (N.to_nat (argn a (S (S (S (S (S O))))))))
           (fun e ->
           obind
             (sbe_repair_packets m e (argn a (S (S (S (S (S (S O)))))))
               (argn a (S (S (S (S (S (S (S O))))))))) (fun pk -> Ok
             (flat_packets pk))))))

(** val triples3 : nat -> n list -> ((n * n) * n) list **)

let rec triples3 n0 l =
  match n0 with
  | O -> []
  | S k ->
    (match l with
     | [] -> []
     | x :: l0 ->
       (match l0 with
        | [] -> []
        | y :: l1 ->
          (match l1 with
           | [] -> []
           | z :: t0 -> ((x, y), z) :: (triples3 k t0))))

(** val packet_of :
    mode -> sb_encoder list -> n -> n -> ((n * n) * n list) outcome **)

let packet_of m encs sbn esi =
  obind (nth_ok encs (N.to_nat sbn)) (fun e ->
    let k = lenN e.sbe_syms in
    if N.ltb esi k
    then obind (sbe_source_packets e) (fun src -> nth_ok src (N.to_nat esi))
    else obind (sbe_repair_packets m e (N.sub esi k) (Npos XH)) (fun r ->
           nth_ok r O))

(** val list_eqb : n list -> n list -> bool **)

let list_eqb =
  vec_eqb

(** val flag_of : n list option -> n list option -> n * n list option **)

let flag_of first = function
| Some b ->
  (match first with
   | Some f ->
     ((if list_eqb f b then Npos XH else Npos (XI (XO (XO XH)))), first)
   | None -> ((Npos XH), (Some b)))
| None -> (N0, first)

(** val run_codec_hist : mode -> n list -> n list **)

let run_codec_hist m a =
  enc1l
    (let c = cfg_of a in
     obind (cfg_guard m c) (fun _ ->
       let n0 = N.to_nat (argn a (S (S (S (S (S (S O))))))) in
       let steps = triples3 n0 (skipn (S (S (S (S (S (S (S O))))))) a) in
       let data =
         skipn (add (S (S (S (S (S (S (S O))))))) (mul (S (S (S O))) n0)) a
       in
       obind (encoder_new_full m c data) (fun encs ->
         obind (dec_new c) (fun d0 ->
           obind
             (ofold (fun st acc ->
               let (p, d) = acc in
               let (p0, _) = p in
               let (flags, first) = p0 in
               let (y, esi) = st in
               let (_, sbn) = y in
               obind (packet_of m encs sbn esi) (fun p1 ->
                 obind (dec_decode m d p1) (fun x ->
                   let (res, d') = x in
                   let (fl, first') = flag_of first res in
                   Ok ((((app flags (fl :: [])), first'), res), d')))) steps
               ((([], None), None), d0)) (fun r ->
             let (p, _) = r in
             let (p0, last) = p in
             let (flags, _) = p0 in
             Ok (app flags (match last with
                            | Some b -> b
                            | None -> [])))))))

(** val take_batches : nat -> n list -> n list list * n list **)

let rec take_batches n0 l =
  match n0 with
  | O -> ([], l)
  | S k ->
    (match l with
     | [] -> ([], [])
     | len :: t0 ->
       let b = firstn (N.to_nat len) t0 in
       let (bs, rest) = take_batches k (skipn (N.to_nat len) t0) in
       ((b :: bs), rest))

(** val run_sbd_hist : mode -> n list -> n list **)

let run_sbd_hist m a =
  enc1l
    (let k = argn a O in
     let t0 = argn a (S O) in
     let c = { cF = (N.mul k t0); cT = t0; cZ = (Npos XH); cN =
       (argn a (S (S O))); cAl = (argn a (S (S (S O)))) }
     in
     obind (cfg_guard m c) (fun _ ->
       let (batches, data) =
         take_batches (N.to_nat (argn a (S (S (S (S (S O)))))))
           (skipn (S (S (S (S (S (S O)))))) a)
       in
       obind (sbe_new m N0 c data) (fun e ->
         obind (sbd_new N0 c (N.mul k t0)) (fun d0 ->
           obind
             (ofold (fun b acc ->
               let (p, d) = acc in
               let (p0, _) = p in
               let (flags, first) = p0 in
               obind (omapM (fun esi -> packet_of m (e :: []) N0 esi) b)
                 (fun pk ->
                 obind (sbd_decode m d pk) (fun x ->
                   let (res, d') = x in
                   let (fl, first') = flag_of first res in
                   Ok ((((app flags (fl :: [])), first'), res), d'))))
               batches ((([], None), None), d0)) (fun r ->
             let (p, _) = r in
             let (p0, last) = p in
             let (flags, _) = p0 in
             Ok (app flags (match last with
                            | Some b -> b
                            | None -> [])))))))

(** val run_intermediate : mode -> n list -> n list **)

let run_intermediate m a =
  enc1l
    (let t0 = argn a O in
     let data = skipn (S (S (S O))) a in
     obind (div_ok (lenN data) t0) (fun k ->
       let c = { cF = (N.mul k t0); cT = t0; cZ = (Npos XH); cN = (Npos XH);
         cAl = (Npos XH) }
       in
       obind (cfg_guard m c) (fun _ ->
         obind (sbe_new m N0 c data) (fun e -> Ok (concat e.sbe_C)))))

(** val spec_params : n -> cparams option **)

let spec_params k =
  match sys_params k with
  | Ok sp ->
    Some { cK = sp.spK; cJ = sp.spJ; cS = sp.spS; cH = sp.spH; cW = sp.spW;
      cP1 = sp.spP1 }
  | Panic _ -> None

(** val run_spec_block_packets : n list -> n list **)

let run_spec_block_packets a =
  let t0 = argn a O in
  let data = skipn (S (S (S O))) a in
  let k = N.div (lenN data) t0 in
  (match spec_params k with
   | Some p ->
     let tn = N.to_nat t0 in
     let syms = chunks t0 data in
     let l = N.to_nat (cL p) in
     let d =
       app (repeat (repeat N0 tn) (N.to_nat (N.add p.cS p.cH)))
         (app syms (repeat (repeat N0 tn) (N.to_nat (N.sub p.cK k))))
     in
     (match gauss_solve fmul finv tn l (a_rfc p (rangeN (N.to_nat p.cK))) d with
      | Some c ->
        (Npos
          XH) :: (app
                   (flat_map (fun i ->
                     N0 :: (i :: (nth (N.to_nat i) syms [])))
                     (rangeN (N.to_nat k)))
                   (flat_map (fun i ->
                     let esi = N.add (N.add k (argn a (S O))) i in
                     N0 :: (esi :: (enc p tn c
                                     (tuple_of p (N.add esi (N.sub p.cK k))))))
                     (rangeN (N.to_nat (argn a (S (S O)))))))
      | None -> N0 :: (N0 :: []))
   | None -> N0 :: (N0 :: []))

(** val run_layout_packets : mode -> n list -> n list **)

let run_layout_packets m a =
  enc1l
    (let c = cfg_of a in
     obind (cfg_guard m c) (fun _ ->
       obind (source_packets_of_object c (skipn (S (S (S (S (S O))))) a))
         (fun pk -> Ok (flat_packets pk))))

(** val rotate : nat -> 'a1 list -> 'a1 list **)

let rotate n0 l =
  let r = modulo n0 (add (length l) (S O)) in app (skipn r l) (firstn r l)

(** val run_layout_roundtrip : mode -> n list -> n list **)

let run_layout_roundtrip m a =
  enc1l
    (let c = cfg_of a in
     obind (cfg_guard m c) (fun _ ->
       obind (source_packets_of_object c (skipn (S (S (S (S (S (S O)))))) a))
         (fun pk ->
         obind (dec_new c) (fun d0 ->
           obind
             (ofold (fun p acc ->
               obind (dec_decode m (snd acc) p) (fun x ->
                 let (res, d') = x in Ok (res, d')))
               (rotate (N.to_nat (argn a (S (S (S (S (S O))))))) pk) (None,
               d0)) (fun r -> Ok
             (match fst r with
              | Some b -> (Npos XH) :: b
              | None -> N0 :: []))))))

(** val run_spec_layout_packets : n list -> n list **)

let run_spec_layout_packets a =
  (Npos
    XH) :: (flat_packets
             (source_packets_spec (cfg_of a) (skipn (S (S (S (S (S O))))) a)))

(** val decode_ops : nat -> n list -> symbol_op list **)

let rec decode_ops fuel v =
  match fuel with
  | O -> []
  | S f ->
    (match v with
     | [] -> []
     | n0 :: l ->
       (match n0 with
        | N0 ->
          (match l with
           | [] -> []
           | n1 :: t0 ->
             (SReorder
               (firstn (N.to_nat n1) t0)) :: (decode_ops f
                                               (skipn (N.to_nat n1) t0)))
        | Npos p ->
          (match p with
           | XI p0 ->
             (match p0 with
              | XH ->
                (match l with
                 | [] -> []
                 | n1 :: t0 ->
                   (match t0 with
                    | [] ->
                      (SReorder
                        (firstn (N.to_nat n1) t0)) :: (decode_ops f
                                                        (skipn (N.to_nat n1)
                                                          t0))
                    | s :: l0 ->
                      (match l0 with
                       | [] ->
                         (SReorder
                           (firstn (N.to_nat n1) t0)) :: (decode_ops f
                                                           (skipn
                                                             (N.to_nat n1) t0))
                       | c :: t1 -> (SFMA (n1, s, c)) :: (decode_ops f t1))))
              | _ ->
                (match l with
                 | [] -> []
                 | n1 :: t0 ->
                   (SReorder
                     (firstn (N.to_nat n1) t0)) :: (decode_ops f
                                                     (skipn (N.to_nat n1) t0))))
           | XO p0 ->
             (match p0 with
              | XH ->
                (match l with
                 | [] -> []
                 | n1 :: t0 ->
                   (match t0 with
                    | [] ->
                      (SReorder
                        (firstn (N.to_nat n1) t0)) :: (decode_ops f
                                                        (skipn (N.to_nat n1)
                                                          t0))
                    | c :: t1 -> (SMul (n1, c)) :: (decode_ops f t1)))
              | _ ->
                (match l with
                 | [] -> []
                 | n1 :: t0 ->
                   (SReorder
                     (firstn (N.to_nat n1) t0)) :: (decode_ops f
                                                     (skipn (N.to_nat n1) t0))))
           | XH ->
             (match l with
              | [] -> []
              | n1 :: t0 ->
                (match t0 with
                 | [] ->
                   (SReorder
                     (firstn (N.to_nat n1) t0)) :: (decode_ops f
                                                     (skipn (N.to_nat n1) t0))
                 | s :: t1 -> (SAdd (n1, s)) :: (decode_ops f t1))))))

(** val run_slab_replay : mode -> n list -> n list **)

let run_slab_replay m a =
  enc1l
    (let t0 = argn a O in
     let count = N.to_nat (argn a (S O)) in
     let nread = N.to_nat (argn a (S (S O))) in
     let nv = N.to_nat (argn a (S (S (S O)))) in
     let ops = decode_ops nv (firstn nv (skipn (S (S (S (S O)))) a)) in
     let data = skipn (add (S (S (S (S O)))) nv) a in
     let syms = firstn count (chunks (N.max t0 (Npos XH)) data) in
     obind (assert_ok (forallb (fun s -> eqb (length s) (N.to_nat t0)) syms))
       (fun _ ->
       obind
         (replay m ops { sl_data = syms; sl_ss = (N.to_nat t0); sl_map =
           None }) (fun s' ->
         obind (slab_read s' nread N0) (fun r -> Ok (concat r)))))

(** val run_cert_ok : n list -> n list **)

let run_cert_ok a =
  (Npos
    XH) :: ((if cert_ok (argn a O) (skipn (S O) a) then Npos XH else N0) :: [])

(** val run_check_intermediate : n list -> n list **)

let run_check_intermediate a =
  let k = argn a O in
  let t0 = argn a (S O) in
  let tn = N.to_nat t0 in
  (match sys_params k with
   | Ok sp ->
     (match enc_matrix k with
      | Ok a0 ->
        let data = firstn (N.to_nat (N.mul k t0)) (skipn (S (S O)) a) in
        let cbytes = skipn (add (S (S O)) (N.to_nat (N.mul k t0))) a in
        let c = chunks t0 cbytes in
        let d = create_d sp (chunks t0 data) tn in
        (Npos
        XH) :: ((if (&&)
                      (forallb (fun rd ->
                        vec_eqb (lincomb fmul tn (fst rd) c) (snd rd))
                        (combine a0 d)) (eqb (length c) (N.to_nat sp.spL))
                 then Npos XH
                 else N0) :: [])
      | Panic _ -> N0 :: (N0 :: []))
   | Panic _ -> N0 :: (N0 :: []))

type bvec = n list * n

(** val bv_padding : n -> n **)

let bv_padding len =
  N.modulo
    (N.sub (Npos (XO (XO (XO (XO (XO (XO XH)))))))
      (N.modulo len (Npos (XO (XO (XO (XO (XO (XO XH))))))))) (Npos (XO (XO
    (XO (XO (XO (XO XH)))))))

(** val bit_at : n list -> n -> n **)

let bit_at elements1 p =
  if N.testbit
       (nth (N.to_nat (N.div p (Npos (XO (XO (XO (XO (XO (XO XH)))))))))
         elements1 N0) (N.modulo p (Npos (XO (XO (XO (XO (XO (XO XH))))))))
  then Npos XH
  else N0

(** val to_bits : bvec -> n list **)

let to_bits bv =
  map (fun i -> bit_at (fst bv) (N.add (bv_padding (snd bv)) (N.of_nat i)))
    (seq O (N.to_nat (snd bv)))

(** val map1 : ('a1 -> 'a2 -> 'a3) -> 'a1 list -> 'a2 list -> 'a3 list **)

let rec map1 f l1 l2 =
  match l1 with
  | [] -> []
  | a :: t1 -> (match l2 with
                | [] -> []
                | b :: t2 -> (f a b) :: (map1 f t1 t2))

(** val range : nat -> nat -> nat list **)

let range a b =
  seq a (sub b a)

(** val ofold0 :
    ('a2 -> 'a1 -> 'a2 outcome) -> 'a1 list -> 'a2 -> 'a2 outcome **)

let rec ofold0 f l s =
  match l with
  | [] -> Ok s
  | a :: t0 -> (match f s a with
                | Ok s' -> ofold0 f t0 s'
                | Panic c -> Panic c)

(** val le_val : n list -> n **)

let rec le_val = function
| [] -> N0
| b :: t0 ->
  N.add b
    (N.mul (Npos (XO (XO (XO (XO (XO (XO (XO (XO XH))))))))) (le_val t0))

(** val le_bytes : nat -> n -> n list **)

let rec le_bytes n0 v =
  match n0 with
  | O -> []
  | S k ->
    (N.modulo v (Npos (XO (XO (XO (XO (XO (XO (XO (XO XH)))))))))) :: 
      (le_bytes k (N.div v (Npos (XO (XO (XO (XO (XO (XO (XO (XO XH)))))))))))

(** val loadu : nat -> n list -> nat -> n list outcome **)

let loadu w buf o =
  if Nat.leb (add o w) (length buf)
  then Ok (firstn w (skipn o buf))
  else Panic PIndex

(** val storeu : n list -> nat -> n list -> n list outcome **)

let storeu buf o v =
  if Nat.leb (add o (length v)) (length buf)
  then Ok (app (firstn o buf) (app v (skipn (add o (length v)) buf)))
  else Panic PIndex

(** val get_unchecked : n list -> nat -> n outcome **)

let get_unchecked =
  nth_ok

(** val set_unchecked : n list -> nat -> n -> n list outcome **)

let set_unchecked buf i v =
  if Nat.ltb i (length buf)
  then Ok (app (firstn i buf) (v :: (skipn (S i) buf)))
  else Panic PIndex

(** val v_and : n list -> n list -> n list **)

let v_and a b =
  map1 N.coq_land a b

(** val v_xor : n list -> n list -> n list **)

let v_xor a b =
  map1 N.coq_lxor a b

(** val v_andnot : n list -> n list -> n list **)

let v_andnot a b =
  map1 (fun x y ->
    N.coq_land (N.sub (Npos (XI (XI (XI (XI (XI (XI (XI XH)))))))) x) y) a b

(** val v_cmpeq_epi8 : n list -> n list -> n list **)

let v_cmpeq_epi8 a b =
  map1 (fun x y ->
    if N.eqb x y then Npos (XI (XI (XI (XI (XI (XI (XI XH))))))) else N0) a b

(** val v_setzero : nat -> n list **)

let v_setzero nb =
  repeat N0 nb

(** val v_set1_epi8 : nat -> n -> n list **)

let v_set1_epi8 nb c =
  repeat c nb

(** val v_set1_epi32 : nat -> n -> n list **)

let v_set1_epi32 nb w =
  concat
    (repeat (le_bytes (S (S (S (S O)))) w) (Nat.div nb (S (S (S (S O))))))

(** val v_set1_epi64x : nat -> n -> n list **)

let v_set1_epi64x nb q =
  concat
    (repeat (le_bytes (S (S (S (S (S (S (S (S O)))))))) q)
      (Nat.div nb (S (S (S (S (S (S (S (S O))))))))))

(** val v_set_epi64x : n -> n -> n -> n -> n list **)

let v_set_epi64x e3 e2 e1 e0 =
  app (le_bytes (S (S (S (S (S (S (S (S O)))))))) e0)
    (app (le_bytes (S (S (S (S (S (S (S (S O)))))))) e1)
      (app (le_bytes (S (S (S (S (S (S (S (S O)))))))) e2)
        (le_bytes (S (S (S (S (S (S (S (S O)))))))) e3)))

(** val v_broadcast128 : nat -> n list -> n list **)

let v_broadcast128 nb t0 =
  concat
    (repeat t0
      (Nat.div nb (S (S (S (S (S (S (S (S (S (S (S (S (S (S (S (S
        O))))))))))))))))))

(** val pshufb128 : n list -> n list -> n list **)

let pshufb128 t0 x =
  map (fun xj ->
    if N.leb (Npos (XO (XO (XO (XO (XO (XO (XO XH)))))))) xj
    then N0
    else nth (N.to_nat (N.modulo xj (Npos (XO (XO (XO (XO XH))))))) t0 N0) x

(** val v_shuffle_epi8 : nat -> n list -> n list -> n list **)

let rec v_shuffle_epi8 lanes t0 x =
  match lanes with
  | O -> []
  | S k ->
    app
      (pshufb128
        (firstn (S (S (S (S (S (S (S (S (S (S (S (S (S (S (S (S
          O)))))))))))))))) t0)
        (firstn (S (S (S (S (S (S (S (S (S (S (S (S (S (S (S (S
          O)))))))))))))))) x))
      (v_shuffle_epi8 k
        (skipn (S (S (S (S (S (S (S (S (S (S (S (S (S (S (S (S
          O)))))))))))))))) t0)
        (skipn (S (S (S (S (S (S (S (S (S (S (S (S (S (S (S (S
          O)))))))))))))))) x))

(** val v_srli_epi64 : nat -> n -> n list -> n list **)

let rec v_srli_epi64 qwords s v =
  match qwords with
  | O -> []
  | S k ->
    app
      (le_bytes (S (S (S (S (S (S (S (S O))))))))
        (N.shiftr (le_val (firstn (S (S (S (S (S (S (S (S O)))))))) v)) s))
      (v_srli_epi64 k s (skipn (S (S (S (S (S (S (S (S O)))))))) v))

(** val v_maskz_mov_epi8 : n -> n list -> n list **)

let v_maskz_mov_epi8 k v =
  map (fun jv -> if N.testbit k (N.of_nat (fst jv)) then snd jv else N0)
    (combine (seq O (length v)) v)

(** val bextr2_u32 : n -> n -> n **)

let bextr2_u32 a ctl =
  let start = N.modulo ctl (Npos (XO (XO (XO (XO (XO (XO (XO (XO XH)))))))))
  in
  let len =
    N.modulo (N.div ctl (Npos (XO (XO (XO (XO (XO (XO (XO (XO XH))))))))))
      (Npos (XO (XO (XO (XO (XO (XO (XO (XO XH)))))))))
  in
  N.modulo (N.shiftr a start) (N.pow (Npos (XO XH)) len)

(** val wORD_WIDTH : n **)

let wORD_WIDTH =
  Npos (XO (XO (XO (XO (XO (XO XH))))))

(** val padding_bits : bvec -> n **)

let padding_bits bv =
  N.modulo (N.sub wORD_WIDTH (N.modulo (snd bv) wORD_WIDTH)) wORD_WIDTH

(** val select_mask : n -> n outcome **)

let select_mask bit =
  if N.ltb bit (Npos (XO (XO (XO (XO (XO (XO XH)))))))
  then Ok (N.shiftl (Npos XH) bit)
  else Panic POverflow

(** val to_octet_vec_loop :
    n list -> nat -> n -> n -> ((n list * n) * n) outcome **)

let rec to_octet_vec_loop elements1 n0 word bit =
  match n0 with
  | O -> Ok (([], word), bit)
  | S k ->
    obind (nth_ok elements1 (N.to_nat word)) (fun e ->
      obind (select_mask bit) (fun m ->
        let value = if negb (N.eqb (N.coq_land e m) N0) then Npos XH else N0
        in
        let bit1 = N.add bit (Npos XH) in
        let wb =
          if N.eqb bit1 (Npos (XO (XO (XO (XO (XO (XO XH)))))))
          then ((N.add word (Npos XH)), N0)
          else (word, bit1)
        in
        obind (to_octet_vec_loop elements1 k (fst wb) (snd wb)) (fun r -> Ok
          (((value :: (fst (fst r))), (snd (fst r))), (snd r)))))

(** val to_octet_vec : bvec -> n list outcome **)

let to_octet_vec bv =
  obind (to_octet_vec_loop (fst bv) (N.to_nat (snd bv)) N0 (padding_bits bv))
    (fun r ->
    obind (assert_ok (N.eqb (snd (fst r)) (N.of_nat (length (fst bv)))))
      (fun _ ->
      obind (assert_ok (N.eqb (snd r) N0)) (fun _ -> Ok (fst (fst r)))))

(** val u32_view : n list -> n list **)

let u32_view elements1 =
  flat_map (fun e ->
    (N.modulo e (N.pow (Npos (XO XH)) (Npos (XO (XO (XO (XO (XO XH)))))))) :: (
    (N.modulo
      (N.div e (N.pow (Npos (XO XH)) (Npos (XO (XO (XO (XO (XO XH))))))))
      (N.pow (Npos (XO XH)) (Npos (XO (XO (XO (XO (XO XH)))))))) :: []))
    elements1

(** val xor_u64_loop : nat -> nat -> n list -> n list -> n list outcome **)

let xor_u64_loop a b other octets =
  ofold0 (fun o i ->
    obind
      (loadu (S (S (S (S (S (S (S (S O)))))))) o
        (mul i (S (S (S (S (S (S (S (S O)))))))))) (fun self_value ->
      obind
        (loadu (S (S (S (S (S (S (S (S O)))))))) other
          (mul i (S (S (S (S (S (S (S (S O)))))))))) (fun other_value ->
        let result = N.coq_lxor (le_val self_value) (le_val other_value) in
        storeu o (mul i (S (S (S (S (S (S (S (S O)))))))))
          (le_bytes (S (S (S (S (S (S (S (S O)))))))) result)))) (range a b)
    octets

(** val xor_byte_loop : nat -> nat -> n list -> n list -> n list outcome **)

let xor_byte_loop a b other octets =
  ofold0 (fun o i ->
    obind (get_unchecked o i) (fun x ->
      obind (get_unchecked other i) (fun y ->
        set_unchecked o i (N.coq_lxor x y)))) (range a b) octets

(** val add_assign_fallback : n list -> n list -> n list outcome **)

let add_assign_fallback octets other =
  obind (assert_ok (Nat.eqb (length octets) (length other))) (fun _ ->
    let len = length octets in
    obind
      (xor_u64_loop O (Nat.div len (S (S (S (S (S (S (S (S O))))))))) other
        octets) (fun o1 ->
      let remainder = Nat.modulo len (S (S (S (S (S (S (S (S O)))))))) in
      xor_byte_loop (sub len remainder) len other o1))

(** val add_assign_simd : nat -> n list -> n list -> n list outcome **)

let add_assign_simd w octets other =
  obind (assert_ok (Nat.eqb (length octets) (length other))) (fun _ ->
    let len = length octets in
    obind
      (ofold0 (fun o i ->
        obind (loadu w o (mul i w)) (fun self_vec ->
          obind (loadu w other (mul i w)) (fun other_vec ->
            let result = v_xor self_vec other_vec in storeu o (mul i w) result)))
        (range O (Nat.div len w)) octets) (fun o1 ->
      let remainder = Nat.modulo len w in
      obind
        (xor_u64_loop
          (Nat.div (sub len remainder) (S (S (S (S (S (S (S (S O)))))))))
          (Nat.div len (S (S (S (S (S (S (S (S O))))))))) other o1)
        (fun o2 ->
        let remainder0 = Nat.modulo len (S (S (S (S (S (S (S (S O)))))))) in
        xor_byte_loop (sub len remainder0) len other o2)))

(** val add_assign_avx512 : n list -> n list -> n list outcome **)

let add_assign_avx512 =
  add_assign_simd (S (S (S (S (S (S (S (S (S (S (S (S (S (S (S (S (S (S (S (S
    (S (S (S (S (S (S (S (S (S (S (S (S (S (S (S (S (S (S (S (S (S (S (S (S
    (S (S (S (S (S (S (S (S (S (S (S (S (S (S (S (S (S (S (S (S
    O))))))))))))))))))))))))))))))))))))))))))))))))))))))))))))))))

(** val add_assign_avx2 : n list -> n list -> n list outcome **)

let add_assign_avx2 =
  add_assign_simd (S (S (S (S (S (S (S (S (S (S (S (S (S (S (S (S (S (S (S (S
    (S (S (S (S (S (S (S (S (S (S (S (S O))))))))))))))))))))))))))))))))

(** val add_assign_ssse3 : n list -> n list -> n list outcome **)

let add_assign_ssse3 =
  add_assign_simd (S (S (S (S (S (S (S (S (S (S (S (S (S (S (S (S
    O))))))))))))))))

(** val octet_mul_unchecked : n -> n -> n outcome **)

let octet_mul_unchecked scalar x =
  tbl2 octet_mul_table scalar x

(** val mul_byte_loop : nat -> nat -> n -> n list -> n list outcome **)

let mul_byte_loop a b scalar octets =
  ofold0 (fun o i ->
    obind (get_unchecked o i) (fun x ->
      obind (octet_mul_unchecked scalar x) (fun y -> set_unchecked o i y)))
    (range a b) octets

(** val mulassign_scalar_fallback : n list -> n -> n list outcome **)

let mulassign_scalar_fallback octets scalar =
  omapM (fun item -> octet_mul_unchecked scalar item) octets

(** val mulvec_avx512 : n list -> n list -> n list -> n list **)

let mulvec_avx512 low_table hi_table v =
  let low_mask =
    v_set1_epi8 (S (S (S (S (S (S (S (S (S (S (S (S (S (S (S (S (S (S (S (S
      (S (S (S (S (S (S (S (S (S (S (S (S (S (S (S (S (S (S (S (S (S (S (S (S
      (S (S (S (S (S (S (S (S (S (S (S (S (S (S (S (S (S (S (S (S
      O)))))))))))))))))))))))))))))))))))))))))))))))))))))))))))))))) (Npos
      (XI (XI (XI XH))))
  in
  let low = v_and v low_mask in
  let low_result = v_shuffle_epi8 (S (S (S (S O)))) low_table low in
  let hi =
    v_srli_epi64 (S (S (S (S (S (S (S (S O)))))))) (Npos (XO (XO XH))) v
  in
  let hi0 = v_and hi low_mask in
  let hi_result = v_shuffle_epi8 (S (S (S (S O)))) hi_table hi0 in
  v_xor hi_result low_result

(** val mulvec_avx2 : n list -> n list -> n list -> n list **)

let mulvec_avx2 low_table hi_table v =
  let low_mask =
    v_set1_epi8 (S (S (S (S (S (S (S (S (S (S (S (S (S (S (S (S (S (S (S (S
      (S (S (S (S (S (S (S (S (S (S (S (S O))))))))))))))))))))))))))))))))
      (Npos (XI (XI (XI XH))))
  in
  let hi_mask =
    v_set1_epi8 (S (S (S (S (S (S (S (S (S (S (S (S (S (S (S (S (S (S (S (S
      (S (S (S (S (S (S (S (S (S (S (S (S O))))))))))))))))))))))))))))))))
      (Npos (XO (XO (XO (XO (XI (XI (XI XH))))))))
  in
  let low = v_and v low_mask in
  let low_result = v_shuffle_epi8 (S (S O)) low_table low in
  let hi = v_and v hi_mask in
  let hi0 = v_srli_epi64 (S (S (S (S O)))) (Npos (XO (XO XH))) hi in
  let hi_result = v_shuffle_epi8 (S (S O)) hi_table hi0 in
  v_xor hi_result low_result

(** val mulvec_ssse3 : n list -> n list -> n list -> n list **)

let mulvec_ssse3 low_table hi_table v =
  let low_mask =
    v_set1_epi8 (S (S (S (S (S (S (S (S (S (S (S (S (S (S (S (S
      O)))))))))))))))) (Npos (XI (XI (XI XH))))
  in
  let hi_mask =
    v_set1_epi8 (S (S (S (S (S (S (S (S (S (S (S (S (S (S (S (S
      O)))))))))))))))) (Npos (XO (XO (XO (XO (XI (XI (XI XH))))))))
  in
  let low = v_and v low_mask in
  let low_result = v_shuffle_epi8 (S O) low_table low in
  let hi = v_and v hi_mask in
  let hi0 = v_srli_epi64 (S (S O)) (Npos (XO (XO XH))) hi in
  let hi_result = v_shuffle_epi8 (S O) hi_table hi0 in
  v_xor hi_result low_result

(** val load_low_table : nat -> n -> n list outcome **)

let load_low_table nb scalar =
  obind (nth_ok octet_mul_low_table (N.to_nat scalar)) (fun row ->
    loadu nb row O)

(** val load_hi_table : nat -> n -> n list outcome **)

let load_hi_table nb scalar =
  obind (nth_ok octet_mul_hi_table (N.to_nat scalar)) (fun row ->
    loadu nb row O)

(** val mulassign_scalar_avx512 : n list -> n -> n list outcome **)

let mulassign_scalar_avx512 octets scalar =
  obind
    (load_low_table (S (S (S (S (S (S (S (S (S (S (S (S (S (S (S (S
      O)))))))))))))))) scalar) (fun low_table128 ->
    obind
      (load_hi_table (S (S (S (S (S (S (S (S (S (S (S (S (S (S (S (S
        O)))))))))))))))) scalar) (fun hi_table128 ->
      let low_table =
        v_broadcast128 (S (S (S (S (S (S (S (S (S (S (S (S (S (S (S (S (S (S
          (S (S (S (S (S (S (S (S (S (S (S (S (S (S (S (S (S (S (S (S (S (S
          (S (S (S (S (S (S (S (S (S (S (S (S (S (S (S (S (S (S (S (S (S (S
          (S (S
          O))))))))))))))))))))))))))))))))))))))))))))))))))))))))))))))))
          low_table128
      in
      let hi_table =
        v_broadcast128 (S (S (S (S (S (S (S (S (S (S (S (S (S (S (S (S (S (S
          (S (S (S (S (S (S (S (S (S (S (S (S (S (S (S (S (S (S (S (S (S (S
          (S (S (S (S (S (S (S (S (S (S (S (S (S (S (S (S (S (S (S (S (S (S
          (S (S
          O))))))))))))))))))))))))))))))))))))))))))))))))))))))))))))))))
          hi_table128
      in
      let len = length octets in
      obind
        (ofold0 (fun o i ->
          obind
            (loadu (S (S (S (S (S (S (S (S (S (S (S (S (S (S (S (S (S (S (S
              (S (S (S (S (S (S (S (S (S (S (S (S (S (S (S (S (S (S (S (S (S
              (S (S (S (S (S (S (S (S (S (S (S (S (S (S (S (S (S (S (S (S (S
              (S (S (S
              O))))))))))))))))))))))))))))))))))))))))))))))))))))))))))))))))
              o
              (mul i (S (S (S (S (S (S (S (S (S (S (S (S (S (S (S (S (S (S (S
                (S (S (S (S (S (S (S (S (S (S (S (S (S (S (S (S (S (S (S (S
                (S (S (S (S (S (S (S (S (S (S (S (S (S (S (S (S (S (S (S (S
                (S (S (S (S (S
                O))))))))))))))))))))))))))))))))))))))))))))))))))))))))))))))))))
            (fun self_vec ->
            let result = mulvec_avx512 low_table hi_table self_vec in
            storeu o
              (mul i (S (S (S (S (S (S (S (S (S (S (S (S (S (S (S (S (S (S (S
                (S (S (S (S (S (S (S (S (S (S (S (S (S (S (S (S (S (S (S (S
                (S (S (S (S (S (S (S (S (S (S (S (S (S (S (S (S (S (S (S (S
                (S (S (S (S (S
                O)))))))))))))))))))))))))))))))))))))))))))))))))))))))))))))))))
              result))
          (range O
            (Nat.div len (S (S (S (S (S (S (S (S (S (S (S (S (S (S (S (S (S
              (S (S (S (S (S (S (S (S (S (S (S (S (S (S (S (S (S (S (S (S (S
              (S (S (S (S (S (S (S (S (S (S (S (S (S (S (S (S (S (S (S (S (S
              (S (S (S (S (S
              O))))))))))))))))))))))))))))))))))))))))))))))))))))))))))))))))))
          octets) (fun o1 ->
        let remainder =
          Nat.modulo len (S (S (S (S (S (S (S (S (S (S (S (S (S (S (S (S (S
            (S (S (S (S (S (S (S (S (S (S (S (S (S (S (S (S (S (S (S (S (S (S
            (S (S (S (S (S (S (S (S (S (S (S (S (S (S (S (S (S (S (S (S (S (S
            (S (S (S
            O))))))))))))))))))))))))))))))))))))))))))))))))))))))))))))))))
        in
        mul_byte_loop (sub len remainder) len scalar o1)))

(** val mulassign_scalar_avx2 : n list -> n -> n list outcome **)

let mulassign_scalar_avx2 octets scalar =
  obind
    (load_low_table (S (S (S (S (S (S (S (S (S (S (S (S (S (S (S (S (S (S (S
      (S (S (S (S (S (S (S (S (S (S (S (S (S
      O)))))))))))))))))))))))))))))))) scalar) (fun low_table ->
    obind
      (load_hi_table (S (S (S (S (S (S (S (S (S (S (S (S (S (S (S (S (S (S (S
        (S (S (S (S (S (S (S (S (S (S (S (S (S
        O)))))))))))))))))))))))))))))))) scalar) (fun hi_table ->
      let len = length octets in
      obind
        (ofold0 (fun o i ->
          obind
            (loadu (S (S (S (S (S (S (S (S (S (S (S (S (S (S (S (S (S (S (S
              (S (S (S (S (S (S (S (S (S (S (S (S (S
              O)))))))))))))))))))))))))))))))) o
              (mul i (S (S (S (S (S (S (S (S (S (S (S (S (S (S (S (S (S (S (S
                (S (S (S (S (S (S (S (S (S (S (S (S (S
                O)))))))))))))))))))))))))))))))))) (fun self_vec ->
            let result = mulvec_avx2 low_table hi_table self_vec in
            storeu o
              (mul i (S (S (S (S (S (S (S (S (S (S (S (S (S (S (S (S (S (S (S
                (S (S (S (S (S (S (S (S (S (S (S (S (S
                O))))))))))))))))))))))))))))))))) result))
          (range O
            (Nat.div len (S (S (S (S (S (S (S (S (S (S (S (S (S (S (S (S (S
              (S (S (S (S (S (S (S (S (S (S (S (S (S (S (S
              O)))))))))))))))))))))))))))))))))) octets) (fun o1 ->
        let remainder =
          Nat.modulo len (S (S (S (S (S (S (S (S (S (S (S (S (S (S (S (S (S
            (S (S (S (S (S (S (S (S (S (S (S (S (S (S (S
            O))))))))))))))))))))))))))))))))
        in
        mul_byte_loop (sub len remainder) len scalar o1)))

(** val mulassign_scalar_ssse3 : n list -> n -> n list outcome **)

let mulassign_scalar_ssse3 octets scalar =
  obind
    (load_low_table (S (S (S (S (S (S (S (S (S (S (S (S (S (S (S (S
      O)))))))))))))))) scalar) (fun low_table ->
    obind
      (load_hi_table (S (S (S (S (S (S (S (S (S (S (S (S (S (S (S (S
        O)))))))))))))))) scalar) (fun hi_table ->
      let len = length octets in
      obind
        (ofold0 (fun o i ->
          obind
            (loadu (S (S (S (S (S (S (S (S (S (S (S (S (S (S (S (S
              O)))))))))))))))) o
              (mul i (S (S (S (S (S (S (S (S (S (S (S (S (S (S (S (S
                O)))))))))))))))))) (fun self_vec ->
            let result = mulvec_ssse3 low_table hi_table self_vec in
            storeu o
              (mul i (S (S (S (S (S (S (S (S (S (S (S (S (S (S (S (S
                O))))))))))))))))) result))
          (range O
            (Nat.div len (S (S (S (S (S (S (S (S (S (S (S (S (S (S (S (S
              O)))))))))))))))))) octets) (fun o1 ->
        let remainder =
          Nat.modulo len (S (S (S (S (S (S (S (S (S (S (S (S (S (S (S (S
            O))))))))))))))))
        in
        mul_byte_loop (sub len remainder) len scalar o1)))

(** val fma_byte_loop :
    nat -> nat -> n -> n list -> n list -> n list outcome **)

let fma_byte_loop a b scalar other octets =
  ofold0 (fun o i ->
    obind (get_unchecked o i) (fun d ->
      obind (get_unchecked other i) (fun s ->
        obind (octet_mul_unchecked scalar s) (fun y ->
          set_unchecked o i (N.coq_lxor d y))))) (range a b) octets

(** val fused_addassign_mul_scalar_fallback :
    n list -> n list -> n -> n list outcome **)

let fused_addassign_mul_scalar_fallback octets other scalar =
  fma_byte_loop O (length octets) scalar other octets

(** val fused_addassign_mul_scalar_avx512 :
    n list -> n list -> n -> n list outcome **)

let fused_addassign_mul_scalar_avx512 octets other scalar =
  obind
    (load_low_table (S (S (S (S (S (S (S (S (S (S (S (S (S (S (S (S
      O)))))))))))))))) scalar) (fun low_table128 ->
    obind
      (load_hi_table (S (S (S (S (S (S (S (S (S (S (S (S (S (S (S (S
        O)))))))))))))))) scalar) (fun hi_table128 ->
      let low_table =
        v_broadcast128 (S (S (S (S (S (S (S (S (S (S (S (S (S (S (S (S (S (S
          (S (S (S (S (S (S (S (S (S (S (S (S (S (S (S (S (S (S (S (S (S (S
          (S (S (S (S (S (S (S (S (S (S (S (S (S (S (S (S (S (S (S (S (S (S
          (S (S
          O))))))))))))))))))))))))))))))))))))))))))))))))))))))))))))))))
          low_table128
      in
      let hi_table =
        v_broadcast128 (S (S (S (S (S (S (S (S (S (S (S (S (S (S (S (S (S (S
          (S (S (S (S (S (S (S (S (S (S (S (S (S (S (S (S (S (S (S (S (S (S
          (S (S (S (S (S (S (S (S (S (S (S (S (S (S (S (S (S (S (S (S (S (S
          (S (S
          O))))))))))))))))))))))))))))))))))))))))))))))))))))))))))))))))
          hi_table128
      in
      let len = length octets in
      obind
        (ofold0 (fun o i ->
          obind
            (loadu (S (S (S (S (S (S (S (S (S (S (S (S (S (S (S (S (S (S (S
              (S (S (S (S (S (S (S (S (S (S (S (S (S (S (S (S (S (S (S (S (S
              (S (S (S (S (S (S (S (S (S (S (S (S (S (S (S (S (S (S (S (S (S
              (S (S (S
              O))))))))))))))))))))))))))))))))))))))))))))))))))))))))))))))))
              other
              (mul i (S (S (S (S (S (S (S (S (S (S (S (S (S (S (S (S (S (S (S
                (S (S (S (S (S (S (S (S (S (S (S (S (S (S (S (S (S (S (S (S
                (S (S (S (S (S (S (S (S (S (S (S (S (S (S (S (S (S (S (S (S
                (S (S (S (S (S
                O))))))))))))))))))))))))))))))))))))))))))))))))))))))))))))))))))
            (fun other_vec ->
            let other_vec0 = mulvec_avx512 low_table hi_table other_vec in
            obind
              (loadu (S (S (S (S (S (S (S (S (S (S (S (S (S (S (S (S (S (S (S
                (S (S (S (S (S (S (S (S (S (S (S (S (S (S (S (S (S (S (S (S
                (S (S (S (S (S (S (S (S (S (S (S (S (S (S (S (S (S (S (S (S
                (S (S (S (S (S
                O))))))))))))))))))))))))))))))))))))))))))))))))))))))))))))))))
                o
                (mul i (S (S (S (S (S (S (S (S (S (S (S (S (S (S (S (S (S (S
                  (S (S (S (S (S (S (S (S (S (S (S (S (S (S (S (S (S (S (S (S
                  (S (S (S (S (S (S (S (S (S (S (S (S (S (S (S (S (S (S (S (S
                  (S (S (S (S (S (S
                  O))))))))))))))))))))))))))))))))))))))))))))))))))))))))))))))))))
              (fun self_vec ->
              let result = v_xor self_vec other_vec0 in
              storeu o
                (mul i (S (S (S (S (S (S (S (S (S (S (S (S (S (S (S (S (S (S
                  (S (S (S (S (S (S (S (S (S (S (S (S (S (S (S (S (S (S (S (S
                  (S (S (S (S (S (S (S (S (S (S (S (S (S (S (S (S (S (S (S (S
                  (S (S (S (S (S (S
                  O)))))))))))))))))))))))))))))))))))))))))))))))))))))))))))))))))
                result)))
          (range O
            (Nat.div len (S (S (S (S (S (S (S (S (S (S (S (S (S (S (S (S (S
              (S (S (S (S (S (S (S (S (S (S (S (S (S (S (S (S (S (S (S (S (S
              (S (S (S (S (S (S (S (S (S (S (S (S (S (S (S (S (S (S (S (S (S
              (S (S (S (S (S
              O))))))))))))))))))))))))))))))))))))))))))))))))))))))))))))))))))
          octets) (fun o1 ->
        let remainder =
          Nat.modulo len (S (S (S (S (S (S (S (S (S (S (S (S (S (S (S (S (S
            (S (S (S (S (S (S (S (S (S (S (S (S (S (S (S (S (S (S (S (S (S (S
            (S (S (S (S (S (S (S (S (S (S (S (S (S (S (S (S (S (S (S (S (S (S
            (S (S (S
            O))))))))))))))))))))))))))))))))))))))))))))))))))))))))))))))))
        in
        fma_byte_loop (sub len remainder) len scalar other o1)))

(** val fused_addassign_mul_scalar_avx2 :
    n list -> n list -> n -> n list outcome **)

let fused_addassign_mul_scalar_avx2 octets other scalar =
  obind
    (load_low_table (S (S (S (S (S (S (S (S (S (S (S (S (S (S (S (S (S (S (S
      (S (S (S (S (S (S (S (S (S (S (S (S (S
      O)))))))))))))))))))))))))))))))) scalar) (fun low_table ->
    obind
      (load_hi_table (S (S (S (S (S (S (S (S (S (S (S (S (S (S (S (S (S (S (S
        (S (S (S (S (S (S (S (S (S (S (S (S (S
        O)))))))))))))))))))))))))))))))) scalar) (fun hi_table ->
      let len = length octets in
      obind
        (ofold0 (fun o i ->
          obind
            (loadu (S (S (S (S (S (S (S (S (S (S (S (S (S (S (S (S (S (S (S
              (S (S (S (S (S (S (S (S (S (S (S (S (S
              O)))))))))))))))))))))))))))))))) other
              (mul i (S (S (S (S (S (S (S (S (S (S (S (S (S (S (S (S (S (S (S
                (S (S (S (S (S (S (S (S (S (S (S (S (S
                O)))))))))))))))))))))))))))))))))) (fun other_vec ->
            let other_vec0 = mulvec_avx2 low_table hi_table other_vec in
            obind
              (loadu (S (S (S (S (S (S (S (S (S (S (S (S (S (S (S (S (S (S (S
                (S (S (S (S (S (S (S (S (S (S (S (S (S
                O)))))))))))))))))))))))))))))))) o
                (mul i (S (S (S (S (S (S (S (S (S (S (S (S (S (S (S (S (S (S
                  (S (S (S (S (S (S (S (S (S (S (S (S (S (S
                  O)))))))))))))))))))))))))))))))))) (fun self_vec ->
              let result = v_xor self_vec other_vec0 in
              storeu o
                (mul i (S (S (S (S (S (S (S (S (S (S (S (S (S (S (S (S (S (S
                  (S (S (S (S (S (S (S (S (S (S (S (S (S (S
                  O))))))))))))))))))))))))))))))))) result)))
          (range O
            (Nat.div len (S (S (S (S (S (S (S (S (S (S (S (S (S (S (S (S (S
              (S (S (S (S (S (S (S (S (S (S (S (S (S (S (S
              O)))))))))))))))))))))))))))))))))) octets) (fun o1 ->
        let remainder =
          Nat.modulo len (S (S (S (S (S (S (S (S (S (S (S (S (S (S (S (S (S
            (S (S (S (S (S (S (S (S (S (S (S (S (S (S (S
            O))))))))))))))))))))))))))))))))
        in
        fma_byte_loop (sub len remainder) len scalar other o1)))

(** val fused_addassign_mul_scalar_ssse3 :
    n list -> n list -> n -> n list outcome **)

let fused_addassign_mul_scalar_ssse3 octets other scalar =
  obind
    (load_low_table (S (S (S (S (S (S (S (S (S (S (S (S (S (S (S (S
      O)))))))))))))))) scalar) (fun low_table ->
    obind
      (load_hi_table (S (S (S (S (S (S (S (S (S (S (S (S (S (S (S (S
        O)))))))))))))))) scalar) (fun hi_table ->
      let len = length octets in
      obind
        (ofold0 (fun o i ->
          obind
            (loadu (S (S (S (S (S (S (S (S (S (S (S (S (S (S (S (S
              O)))))))))))))))) other
              (mul i (S (S (S (S (S (S (S (S (S (S (S (S (S (S (S (S
                O)))))))))))))))))) (fun other_vec ->
            let other_vec0 = mulvec_ssse3 low_table hi_table other_vec in
            obind
              (loadu (S (S (S (S (S (S (S (S (S (S (S (S (S (S (S (S
                O)))))))))))))))) o
                (mul i (S (S (S (S (S (S (S (S (S (S (S (S (S (S (S (S
                  O)))))))))))))))))) (fun self_vec ->
              let result = v_xor self_vec other_vec0 in
              storeu o
                (mul i (S (S (S (S (S (S (S (S (S (S (S (S (S (S (S (S
                  O))))))))))))))))) result)))
          (range O
            (Nat.div len (S (S (S (S (S (S (S (S (S (S (S (S (S (S (S (S
              O)))))))))))))))))) octets) (fun o1 ->
        let remainder =
          Nat.modulo len (S (S (S (S (S (S (S (S (S (S (S (S (S (S (S (S
            O))))))))))))))))
        in
        fma_byte_loop (sub len remainder) len scalar other o1)))

(** val sub_usize : nat -> nat -> nat outcome **)

let sub_usize a b =
  if Nat.leb b a then Ok (sub a b) else Panic POverflow

(** val fused_addassign_mul_scalar_binary_avx2 :
    n list -> bvec -> n -> n list outcome **)

let fused_addassign_mul_scalar_binary_avx2 octets other scalar =
  let first_bit = N.to_nat (padding_bits other) in
  let other_u32 = u32_view (fst other) in
  let start0 =
    Nat.div first_bit (S (S (S (S (S (S (S (S (S (S (S (S (S (S (S (S (S (S
      (S (S (S (S (S (S (S (S (S (S (S (S (S (S
      O))))))))))))))))))))))))))))))))
  in
  obind (nth_ok other_u32 start0) (fun first_bits ->
    let bit_in_first_bits =
      Nat.modulo first_bit (S (S (S (S (S (S (S (S (S (S (S (S (S (S (S (S (S
        (S (S (S (S (S (S (S (S (S (S (S (S (S (S (S
        O))))))))))))))))))))))))))))))))
    in
    let remaining0 = length octets in
    obind
      (if Nat.ltb O bit_in_first_bits
       then let control =
              N.coq_lor (N.of_nat bit_in_first_bits) (Npos (XO (XO (XO (XO
                (XO (XO (XO (XO XH)))))))))
            in
            let head =
              sub (S (S (S (S (S (S (S (S (S (S (S (S (S (S (S (S (S (S (S (S
                (S (S (S (S (S (S (S (S (S (S (S (S
                O)))))))))))))))))))))))))))))))) bit_in_first_bits
            in
            obind
              (ofold0 (fun o i ->
                obind (nth_ok o i) (fun val0 ->
                  let other_byte =
                    u8
                      (bextr2_u32 first_bits
                        (u32 (N.add control (N.of_nat i))))
                  in
                  set_unchecked o i
                    (N.coq_lxor val0 (N.mul scalar other_byte))))
                (range O (Nat.min (length octets) head)) octets) (fun o1 ->
              obind (sub_usize remaining0 head) (fun remaining -> Ok (((o1,
                remaining), (add start0 (S O))), head)))
       else Ok (((octets, remaining0), start0), O)) (fun st ->
      let o1 = fst (fst (fst st)) in
      let remaining = snd (fst (fst st)) in
      let start = snd (fst st) in
      let self_off = snd st in
      obind
        (assert_ok
          (Nat.eqb
            (Nat.modulo remaining (S (S (S (S (S (S (S (S (S (S (S (S (S (S
              (S (S (S (S (S (S (S (S (S (S (S (S (S (S (S (S (S (S
              O))))))))))))))))))))))))))))))))) O)) (fun _ ->
        let shuffle_mask =
          v_set_epi64x (Npos (XI (XI (XO (XO (XO (XO (XO (XO (XI (XI (XO (XO
            (XO (XO (XO (XO (XI (XI (XO (XO (XO (XO (XO (XO (XI (XI (XO (XO
            (XO (XO (XO (XO (XI (XI (XO (XO (XO (XO (XO (XO (XI (XI (XO (XO
            (XO (XO (XO (XO (XI (XI (XO (XO (XO (XO (XO (XO (XI
            XH))))))))))))))))))))))))))))))))))))))))))))))))))))))))))
            (Npos (XO (XI (XO (XO (XO (XO (XO (XO (XO (XI (XO (XO (XO (XO (XO
            (XO (XO (XI (XO (XO (XO (XO (XO (XO (XO (XI (XO (XO (XO (XO (XO
            (XO (XO (XI (XO (XO (XO (XO (XO (XO (XO (XI (XO (XO (XO (XO (XO
            (XO (XO (XI (XO (XO (XO (XO (XO (XO (XO
            XH))))))))))))))))))))))))))))))))))))))))))))))))))))))))))
            (Npos (XI (XO (XO (XO (XO (XO (XO (XO (XI (XO (XO (XO (XO (XO (XO
            (XO (XI (XO (XO (XO (XO (XO (XO (XO (XI (XO (XO (XO (XO (XO (XO
            (XO (XI (XO (XO (XO (XO (XO (XO (XO (XI (XO (XO (XO (XO (XO (XO
            (XO (XI (XO (XO (XO (XO (XO (XO (XO
            XH))))))))))))))))))))))))))))))))))))))))))))))))))))))))) N0
        in
        let bit_select_mask =
          v_set1_epi64x (S (S (S (S (S (S (S (S (S (S (S (S (S (S (S (S (S (S
            (S (S (S (S (S (S (S (S (S (S (S (S (S (S
            O)))))))))))))))))))))))))))))))) (Npos (XI (XO (XO (XO (XO (XO
            (XO (XO (XO (XI (XO (XO (XO (XO (XO (XO (XO (XO (XI (XO (XO (XO
            (XO (XO (XO (XO (XO (XI (XO (XO (XO (XO (XO (XO (XO (XO (XI (XO
            (XO (XO (XO (XO (XO (XO (XO (XI (XO (XO (XO (XO (XO (XO (XO (XO
            (XI (XO (XO (XO (XO (XO (XO (XO (XO
            XH))))))))))))))))))))))))))))))))))))))))))))))))))))))))))))))))
        in
        let scalar_avx =
          v_set1_epi8 (S (S (S (S (S (S (S (S (S (S (S (S (S (S (S (S (S (S
            (S (S (S (S (S (S (S (S (S (S (S (S (S (S
            O)))))))))))))))))))))))))))))))) scalar
        in
        ofold0 (fun o i ->
          obind (nth_ok other_u32 (add start i)) (fun w ->
            let other_vec =
              v_set1_epi32 (S (S (S (S (S (S (S (S (S (S (S (S (S (S (S (S (S
                (S (S (S (S (S (S (S (S (S (S (S (S (S (S (S
                O)))))))))))))))))))))))))))))))) w
            in
            let other_vec0 = v_shuffle_epi8 (S (S O)) other_vec shuffle_mask
            in
            let other_vec1 = v_andnot other_vec0 bit_select_mask in
            let other_vec2 =
              v_cmpeq_epi8 other_vec1
                (v_setzero (S (S (S (S (S (S (S (S (S (S (S (S (S (S (S (S (S
                  (S (S (S (S (S (S (S (S (S (S (S (S (S (S (S
                  O)))))))))))))))))))))))))))))))))
            in
            let product = v_and other_vec2 scalar_avx in
            obind
              (loadu (S (S (S (S (S (S (S (S (S (S (S (S (S (S (S (S (S (S (S
                (S (S (S (S (S (S (S (S (S (S (S (S (S
                O)))))))))))))))))))))))))))))))) o
                (add self_off
                  (mul i (S (S (S (S (S (S (S (S (S (S (S (S (S (S (S (S (S
                    (S (S (S (S (S (S (S (S (S (S (S (S (S (S (S
                    O))))))))))))))))))))))))))))))))))) (fun self_vec ->
              let result = v_xor self_vec product in
              storeu o
                (add self_off
                  (mul i (S (S (S (S (S (S (S (S (S (S (S (S (S (S (S (S (S
                    (S (S (S (S (S (S (S (S (S (S (S (S (S (S (S
                    O)))))))))))))))))))))))))))))))))) result)))
          (range O
            (Nat.div remaining (S (S (S (S (S (S (S (S (S (S (S (S (S (S (S
              (S (S (S (S (S (S (S (S (S (S (S (S (S (S (S (S (S
              O)))))))))))))))))))))))))))))))))) o1)))

(** val fused_addassign_mul_scalar_binary_avx512 :
    n list -> bvec -> n -> n list outcome **)

let fused_addassign_mul_scalar_binary_avx512 octets other scalar =
  if Nat.eqb (length octets) O
  then Ok octets
  else let first_bit = N.to_nat (padding_bits other) in
       let other_u64 = fst other in
       let start0 =
         Nat.div first_bit (S (S (S (S (S (S (S (S (S (S (S (S (S (S (S (S (S
           (S (S (S (S (S (S (S (S (S (S (S (S (S (S (S (S (S (S (S (S (S (S
           (S (S (S (S (S (S (S (S (S (S (S (S (S (S (S (S (S (S (S (S (S (S
           (S (S (S
           O))))))))))))))))))))))))))))))))))))))))))))))))))))))))))))))))
       in
       obind (get_unchecked other_u64 start0) (fun first_bits ->
         let bit_in_first_bits =
           Nat.modulo first_bit (S (S (S (S (S (S (S (S (S (S (S (S (S (S (S
             (S (S (S (S (S (S (S (S (S (S (S (S (S (S (S (S (S (S (S (S (S
             (S (S (S (S (S (S (S (S (S (S (S (S (S (S (S (S (S (S (S (S (S
             (S (S (S (S (S (S (S
             O))))))))))))))))))))))))))))))))))))))))))))))))))))))))))))))))
         in
         let remaining0 = length octets in
         obind
           (if Nat.ltb O bit_in_first_bits
            then let head =
                   sub (S (S (S (S (S (S (S (S (S (S (S (S (S (S (S (S (S (S
                     (S (S (S (S (S (S (S (S (S (S (S (S (S (S (S (S (S (S (S
                     (S (S (S (S (S (S (S (S (S (S (S (S (S (S (S (S (S (S (S
                     (S (S (S (S (S (S (S (S
                     O))))))))))))))))))))))))))))))))))))))))))))))))))))))))))))))))
                     bit_in_first_bits
                 in
                 obind
                   (ofold0 (fun o i ->
                     let other_byte =
                       u8
                         (N.coq_land
                           (N.shiftr first_bits
                             (N.of_nat (add bit_in_first_bits i))) (Npos XH))
                     in
                     obind (get_unchecked o i) (fun val0 ->
                       set_unchecked o i
                         (N.coq_lxor val0 (N.mul scalar other_byte))))
                     (range O head) octets) (fun o1 ->
                   obind (sub_usize remaining0 head) (fun remaining -> Ok
                     (((o1, remaining), (add start0 (S O))), head)))
            else Ok (((octets, remaining0), start0), O)) (fun st ->
           let o1 = fst (fst (fst st)) in
           let remaining = snd (fst (fst st)) in
           let start = snd (fst st) in
           let self_off = snd st in
           obind
             (assert_ok
               (Nat.eqb
                 (Nat.modulo remaining (S (S (S (S (S (S (S (S (S (S (S (S (S
                   (S (S (S (S (S (S (S (S (S (S (S (S (S (S (S (S (S (S (S
                   (S (S (S (S (S (S (S (S (S (S (S (S (S (S (S (S (S (S (S
                   (S (S (S (S (S (S (S (S (S (S (S (S (S
                   O)))))))))))))))))))))))))))))))))))))))))))))))))))))))))))))))))
                 O)) (fun _ ->
             let scalar_avx =
               v_set1_epi8 (S (S (S (S (S (S (S (S (S (S (S (S (S (S (S (S (S
                 (S (S (S (S (S (S (S (S (S (S (S (S (S (S (S (S (S (S (S (S
                 (S (S (S (S (S (S (S (S (S (S (S (S (S (S (S (S (S (S (S (S
                 (S (S (S (S (S (S (S
                 O))))))))))))))))))))))))))))))))))))))))))))))))))))))))))))))))
                 scalar
             in
             ofold0 (fun o i ->
               obind (get_unchecked other_u64 (add start i)) (fun bits ->
                 if N.eqb bits N0
                 then Ok o
                 else let product = v_maskz_mov_epi8 bits scalar_avx in
                      obind
                        (loadu (S (S (S (S (S (S (S (S (S (S (S (S (S (S (S
                          (S (S (S (S (S (S (S (S (S (S (S (S (S (S (S (S (S
                          (S (S (S (S (S (S (S (S (S (S (S (S (S (S (S (S (S
                          (S (S (S (S (S (S (S (S (S (S (S (S (S (S (S
                          O))))))))))))))))))))))))))))))))))))))))))))))))))))))))))))))))
                          o
                          (add self_off
                            (mul i (S (S (S (S (S (S (S (S (S (S (S (S (S (S
                              (S (S (S (S (S (S (S (S (S (S (S (S (S (S (S (S
                              (S (S (S (S (S (S (S (S (S (S (S (S (S (S (S (S
                              (S (S (S (S (S (S (S (S (S (S (S (S (S (S (S (S
                              (S (S
                              O)))))))))))))))))))))))))))))))))))))))))))))))))))))))))))))))))))
                        (fun self_vec ->
                        let result = v_xor self_vec product in
                        storeu o
                          (add self_off
                            (mul i (S (S (S (S (S (S (S (S (S (S (S (S (S (S
                              (S (S (S (S (S (S (S (S (S (S (S (S (S (S (S (S
                              (S (S (S (S (S (S (S (S (S (S (S (S (S (S (S (S
                              (S (S (S (S (S (S (S (S (S (S (S (S (S (S (S (S
                              (S (S
                              O))))))))))))))))))))))))))))))))))))))))))))))))))))))))))))))))))
                          result)))
               (range O
                 (Nat.div remaining (S (S (S (S (S (S (S (S (S (S (S (S (S (S
                   (S (S (S (S (S (S (S (S (S (S (S (S (S (S (S (S (S (S (S
                   (S (S (S (S (S (S (S (S (S (S (S (S (S (S (S (S (S (S (S
                   (S (S (S (S (S (S (S (S (S (S (S (S
                   O))))))))))))))))))))))))))))))))))))))))))))))))))))))))))))))))))
               o1)))

type feature =
| AVX512F
| AVX512BW
| AVX2
| BMI1
| SSSE3

(** val feature_eqb : feature -> feature -> bool **)

let feature_eqb a b =
  match a with
  | AVX512F -> (match b with
                | AVX512F -> true
                | _ -> false)
  | AVX512BW -> (match b with
                 | AVX512BW -> true
                 | _ -> false)
  | AVX2 -> (match b with
             | AVX2 -> true
             | _ -> false)
  | BMI1 -> (match b with
             | BMI1 -> true
             | _ -> false)
  | SSSE3 -> (match b with
              | SSSE3 -> true
              | _ -> false)

type cpu = feature list

(** val has : cpu -> feature -> bool **)

let has c f =
  existsb (feature_eqb f) c

(** val debug_assert : mode -> bool -> unit outcome **)

let debug_assert m b =
  match m with
  | Release -> Ok ()
  | Checked -> assert_ok b

(** val add_assign : cpu -> n list -> n list -> n list outcome **)

let add_assign c octets other =
  if has c AVX512F
  then add_assign_avx512 octets other
  else if has c AVX2
       then add_assign_avx2 octets other
       else if has c SSSE3
            then add_assign_ssse3 octets other
            else add_assign_fallback octets other

(** val mulassign_scalar : cpu -> n list -> n -> n list outcome **)

let mulassign_scalar c octets scalar =
  if (&&) (has c AVX512F) (has c AVX512BW)
  then mulassign_scalar_avx512 octets scalar
  else if has c AVX2
       then mulassign_scalar_avx2 octets scalar
       else if has c SSSE3
            then mulassign_scalar_ssse3 octets scalar
            else mulassign_scalar_fallback octets scalar

(** val fused_addassign_mul_scalar :
    mode -> cpu -> n list -> n list -> n -> n list outcome **)

let fused_addassign_mul_scalar m c octets other scalar =
  obind (debug_assert m (negb (N.eqb scalar (Npos XH)))) (fun _ ->
    obind (debug_assert m (negb (N.eqb scalar N0))) (fun _ ->
      obind (assert_ok (Nat.eqb (length octets) (length other))) (fun _ ->
        if (&&) (has c AVX512F) (has c AVX512BW)
        then fused_addassign_mul_scalar_avx512 octets other scalar
        else if has c AVX2
             then fused_addassign_mul_scalar_avx2 octets other scalar
             else if has c SSSE3
                  then fused_addassign_mul_scalar_ssse3 octets other scalar
                  else fused_addassign_mul_scalar_fallback octets other scalar)))

(** val fused_addassign_mul_scalar_binary_generic :
    mode -> cpu -> n list -> bvec -> n -> n list outcome **)

let fused_addassign_mul_scalar_binary_generic m c octets other scalar =
  if N.eqb scalar (Npos XH)
  then obind (to_octet_vec other) (fun v -> add_assign c octets v)
  else obind (to_octet_vec other) (fun v ->
         fused_addassign_mul_scalar m c octets v scalar)

(** val fused_addassign_mul_scalar_binary :
    mode -> cpu -> n list -> bvec -> n -> n list outcome **)

let fused_addassign_mul_scalar_binary m c octets other scalar =
  obind (debug_assert m (negb (N.eqb scalar N0))) (fun _ ->
    obind (assert_ok (N.eqb (N.of_nat (length octets)) (snd other)))
      (fun _ ->
      if Nat.eqb (length octets) O
      then Ok octets
      else if (&&) (has c AVX512F) (has c AVX512BW)
           then fused_addassign_mul_scalar_binary_avx512 octets other scalar
           else if (&&) (has c AVX2) (has c BMI1)
                then fused_addassign_mul_scalar_binary_avx2 octets other
                       scalar
                else fused_addassign_mul_scalar_binary_generic m c octets
                       other scalar))

(** val kargn : n list -> nat -> n **)

let kargn l i =
  nth i l N0

(** val kenc : n list outcome -> n list **)

let kenc = function
| Ok l -> (Npos XH) :: (app l ((Npos XH) :: []))
| Panic _ -> N0 :: (N0 :: [])

(** val host_cpu : cpu **)

let host_cpu =
  AVX512F :: (AVX512BW :: (AVX2 :: (BMI1 :: (SSSE3 :: []))))

(** val run_k_add : n list -> n list **)

let run_k_add a =
  let len = N.to_nat (kargn a (S (S O))) in
  let d = firstn len (skipn (S (S (S O))) a) in
  let s = skipn (add (S (S (S O))) len) a in
  kenc
    (match kargn a O with
     | N0 -> add_assign_avx512 d s
     | Npos p ->
       (match p with
        | XI p0 ->
          (match p0 with
           | XH -> add_assign_fallback d s
           | _ -> add_assign host_cpu d s)
        | XO p0 ->
          (match p0 with
           | XH -> add_assign_ssse3 d s
           | _ -> add_assign host_cpu d s)
        | XH -> add_assign_avx2 d s))

(** val run_k_mul : n list -> n list **)

let run_k_mul a =
  let c = kargn a (S (S O)) in
  let d =
    firstn (N.to_nat (kargn a (S (S (S O))))) (skipn (S (S (S (S O)))) a)
  in
  kenc
    (match kargn a O with
     | N0 -> mulassign_scalar_avx512 d c
     | Npos p ->
       (match p with
        | XI p0 ->
          (match p0 with
           | XH -> mulassign_scalar_fallback d c
           | _ -> mulassign_scalar host_cpu d c)
        | XO p0 ->
          (match p0 with
           | XH -> mulassign_scalar_ssse3 d c
           | _ -> mulassign_scalar host_cpu d c)
        | XH -> mulassign_scalar_avx2 d c))

(** val run_k_fma : mode -> n list -> n list **)

let run_k_fma m a =
  let c = kargn a (S (S O)) in
  let len = N.to_nat (kargn a (S (S (S O)))) in
  let d = firstn len (skipn (S (S (S (S O)))) a) in
  let s = skipn (add (S (S (S (S O)))) len) a in
  kenc
    (match kargn a O with
     | N0 -> fused_addassign_mul_scalar_avx512 d s c
     | Npos p ->
       (match p with
        | XI p0 ->
          (match p0 with
           | XH -> fused_addassign_mul_scalar_fallback d s c
           | _ -> fused_addassign_mul_scalar m host_cpu d s c)
        | XO p0 ->
          (match p0 with
           | XH -> fused_addassign_mul_scalar_ssse3 d s c
           | _ -> fused_addassign_mul_scalar m host_cpu d s c)
        | XH -> fused_addassign_mul_scalar_avx2 d s c))

(** val run_k_fmabin : mode -> n list -> n list **)

let run_k_fmabin m a =
  let c = kargn a (S (S O)) in
  let len = kargn a (S (S (S O))) in
  let nw = N.to_nat (kargn a (S (S (S (S O))))) in
  let words = firstn nw (skipn (S (S (S (S (S O))))) a) in
  let d = firstn (N.to_nat len) (skipn (add (S (S (S (S (S O))))) nw) a) in
  let bv = (words, len) in
  if negb
       (N.eqb (N.of_nat nw)
         (ceil_div len (Npos (XO (XO (XO (XO (XO (XO XH)))))))))
  then N0 :: (N0 :: [])
  else if N.eqb len N0
       then (Npos XH) :: ((Npos XH) :: [])
       else kenc
              (match kargn a O with
               | N0 -> fused_addassign_mul_scalar_binary_avx512 d bv c
               | Npos p ->
                 (match p with
                  | XI p0 ->
                    (match p0 with
                     | XH ->
                       fused_addassign_mul_scalar_binary_generic m host_cpu d
                         bv c
                     | _ ->
                       fused_addassign_mul_scalar_binary m host_cpu d bv c)
                  | XO p0 ->
                    (match p0 with
                     | XH ->
                       fused_addassign_mul_scalar_binary_generic m host_cpu d
                         bv c
                     | _ ->
                       fused_addassign_mul_scalar_binary m host_cpu d bv c)
                  | XH -> fused_addassign_mul_scalar_binary_avx2 d bv c))

(** val run_k_unpack : n list -> n list **)

let run_k_unpack a =
  let nw = N.to_nat (kargn a (S O)) in
  if negb
       (N.eqb (N.of_nat nw)
         (ceil_div (kargn a O) (Npos (XO (XO (XO (XO (XO (XO XH)))))))))
  then N0 :: (N0 :: [])
  else (match to_octet_vec ((firstn nw (skipn (S (S O)) a)), (kargn a O)) with
        | Ok l -> (Npos XH) :: l
        | Panic _ -> N0 :: (N0 :: []))

(** val run_spec_bits : n list -> n list **)

let run_spec_bits a =
  let nw = N.to_nat (kargn a (S O)) in
  (Npos XH) :: (to_bits ((firstn nw (skipn (S (S O)) a)), (kargn a O)))

(** val run_kern : n -> n list -> n list **)

let run_kern f a =
  match f with
  | N0 -> N0 :: ((Npos (XI (XI (XO (XO (XO (XI XH))))))) :: [])
  | Npos p ->
    (match p with
     | XI p0 ->
       (match p0 with
        | XI p1 ->
          (match p1 with
           | XO p2 ->
             (match p2 with
              | XO p3 ->
                (match p3 with
                 | XI p4 ->
                   (match p4 with
                    | XO p5 ->
                      (match p5 with
                       | XO p6 ->
                         (match p6 with
                          | XI p7 ->
                            (match p7 with
                             | XH -> run_k_fmabin Release a
                             | _ ->
                               N0 :: ((Npos (XI (XI (XO (XO (XO (XI
                                 XH))))))) :: []))
                          | _ ->
                            N0 :: ((Npos (XI (XI (XO (XO (XO (XI
                              XH))))))) :: []))
                       | _ ->
                         N0 :: ((Npos (XI (XI (XO (XO (XO (XI XH))))))) :: []))
                    | _ ->
                      N0 :: ((Npos (XI (XI (XO (XO (XO (XI XH))))))) :: []))
                 | _ -> N0 :: ((Npos (XI (XI (XO (XO (XO (XI XH))))))) :: []))
              | _ -> N0 :: ((Npos (XI (XI (XO (XO (XO (XI XH))))))) :: []))
           | _ -> N0 :: ((Npos (XI (XI (XO (XO (XO (XI XH))))))) :: []))
        | XO p1 ->
          (match p1 with
           | XI p2 ->
             (match p2 with
              | XI p3 ->
                (match p3 with
                 | XI p4 ->
                   (match p4 with
                    | XO p5 ->
                      (match p5 with
                       | XO p6 ->
                         (match p6 with
                          | XI p7 ->
                            (match p7 with
                             | XH -> run_k_fmabin Checked a
                             | _ ->
                               N0 :: ((Npos (XI (XI (XO (XO (XO (XI
                                 XH))))))) :: []))
                          | _ ->
                            N0 :: ((Npos (XI (XI (XO (XO (XO (XI
                              XH))))))) :: []))
                       | _ ->
                         N0 :: ((Npos (XI (XI (XO (XO (XO (XI XH))))))) :: []))
                    | _ ->
                      N0 :: ((Npos (XI (XI (XO (XO (XO (XI XH))))))) :: []))
                 | _ -> N0 :: ((Npos (XI (XI (XO (XO (XO (XI XH))))))) :: []))
              | _ -> N0 :: ((Npos (XI (XI (XO (XO (XO (XI XH))))))) :: []))
           | XO p2 ->
             (match p2 with
              | XO p3 ->
                (match p3 with
                 | XI p4 ->
                   (match p4 with
                    | XO p5 ->
                      (match p5 with
                       | XO p6 ->
                         (match p6 with
                          | XI p7 ->
                            (match p7 with
                             | XH -> run_k_mul a
                             | _ ->
                               N0 :: ((Npos (XI (XI (XO (XO (XO (XI
                                 XH))))))) :: []))
                          | _ ->
                            N0 :: ((Npos (XI (XI (XO (XO (XO (XI
                              XH))))))) :: []))
                       | _ ->
                         N0 :: ((Npos (XI (XI (XO (XO (XO (XI XH))))))) :: []))
                    | _ ->
                      N0 :: ((Npos (XI (XI (XO (XO (XO (XI XH))))))) :: []))
                 | _ -> N0 :: ((Npos (XI (XI (XO (XO (XO (XI XH))))))) :: []))
              | _ -> N0 :: ((Npos (XI (XI (XO (XO (XO (XI XH))))))) :: []))
           | XH -> N0 :: ((Npos (XI (XI (XO (XO (XO (XI XH))))))) :: []))
        | XH -> N0 :: ((Npos (XI (XI (XO (XO (XO (XI XH))))))) :: []))
     | XO p0 ->
       (match p0 with
        | XI p1 ->
          (match p1 with
           | XO p2 ->
             (match p2 with
              | XO p3 ->
                (match p3 with
                 | XI p4 ->
                   (match p4 with
                    | XO p5 ->
                      (match p5 with
                       | XO p6 ->
                         (match p6 with
                          | XI p7 ->
                            (match p7 with
                             | XH -> run_k_fma Release a
                             | _ ->
                               N0 :: ((Npos (XI (XI (XO (XO (XO (XI
                                 XH))))))) :: []))
                          | _ ->
                            N0 :: ((Npos (XI (XI (XO (XO (XO (XI
                              XH))))))) :: []))
                       | _ ->
                         N0 :: ((Npos (XI (XI (XO (XO (XO (XI XH))))))) :: []))
                    | _ ->
                      N0 :: ((Npos (XI (XI (XO (XO (XO (XI XH))))))) :: []))
                 | XO p4 ->
                   (match p4 with
                    | XO p5 ->
                      (match p5 with
                       | XI p6 ->
                         (match p6 with
                          | XI p7 ->
                            (match p7 with
                             | XH -> run_spec_bits a
                             | _ ->
                               N0 :: ((Npos (XI (XI (XO (XO (XO (XI
                                 XH))))))) :: []))
                          | _ ->
                            N0 :: ((Npos (XI (XI (XO (XO (XO (XI
                              XH))))))) :: []))
                       | _ ->
                         N0 :: ((Npos (XI (XI (XO (XO (XO (XI XH))))))) :: []))
                    | _ ->
                      N0 :: ((Npos (XI (XI (XO (XO (XO (XI XH))))))) :: []))
                 | XH -> N0 :: ((Npos (XI (XI (XO (XO (XO (XI XH))))))) :: []))
              | _ -> N0 :: ((Npos (XI (XI (XO (XO (XO (XI XH))))))) :: []))
           | _ -> N0 :: ((Npos (XI (XI (XO (XO (XO (XI XH))))))) :: []))
        | XO p1 ->
          (match p1 with
           | XI p2 ->
             (match p2 with
              | XI p3 ->
                (match p3 with
                 | XI p4 ->
                   (match p4 with
                    | XO p5 ->
                      (match p5 with
                       | XO p6 ->
                         (match p6 with
                          | XI p7 ->
                            (match p7 with
                             | XH -> run_k_fma Checked a
                             | _ ->
                               N0 :: ((Npos (XI (XI (XO (XO (XO (XI
                                 XH))))))) :: []))
                          | _ ->
                            N0 :: ((Npos (XI (XI (XO (XO (XO (XI
                              XH))))))) :: []))
                       | _ ->
                         N0 :: ((Npos (XI (XI (XO (XO (XO (XI XH))))))) :: []))
                    | _ ->
                      N0 :: ((Npos (XI (XI (XO (XO (XO (XI XH))))))) :: []))
                 | _ -> N0 :: ((Npos (XI (XI (XO (XO (XO (XI XH))))))) :: []))
              | XO p3 ->
                (match p3 with
                 | XI p4 ->
                   (match p4 with
                    | XO p5 ->
                      (match p5 with
                       | XO p6 ->
                         (match p6 with
                          | XI p7 ->
                            (match p7 with
                             | XH -> run_k_unpack a
                             | _ ->
                               N0 :: ((Npos (XI (XI (XO (XO (XO (XI
                                 XH))))))) :: []))
                          | _ ->
                            N0 :: ((Npos (XI (XI (XO (XO (XO (XI
                              XH))))))) :: []))
                       | _ ->
                         N0 :: ((Npos (XI (XI (XO (XO (XO (XI XH))))))) :: []))
                    | _ ->
                      N0 :: ((Npos (XI (XI (XO (XO (XO (XI XH))))))) :: []))
                 | _ -> N0 :: ((Npos (XI (XI (XO (XO (XO (XI XH))))))) :: []))
              | XH -> N0 :: ((Npos (XI (XI (XO (XO (XO (XI XH))))))) :: []))
           | XO p2 ->
             (match p2 with
              | XO p3 ->
                (match p3 with
                 | XI p4 ->
                   (match p4 with
                    | XO p5 ->
                      (match p5 with
                       | XO p6 ->
                         (match p6 with
                          | XI p7 ->
                            (match p7 with
                             | XH -> run_k_add a
                             | _ ->
                               N0 :: ((Npos (XI (XI (XO (XO (XO (XI
                                 XH))))))) :: []))
                          | _ ->
                            N0 :: ((Npos (XI (XI (XO (XO (XO (XI
                              XH))))))) :: []))
                       | _ ->
                         N0 :: ((Npos (XI (XI (XO (XO (XO (XI XH))))))) :: []))
                    | _ ->
                      N0 :: ((Npos (XI (XI (XO (XO (XO (XI XH))))))) :: []))
                 | _ -> N0 :: ((Npos (XI (XI (XO (XO (XO (XI XH))))))) :: []))
              | _ -> N0 :: ((Npos (XI (XI (XO (XO (XO (XI XH))))))) :: []))
           | XH -> N0 :: ((Npos (XI (XI (XO (XO (XO (XI XH))))))) :: []))
        | XH -> N0 :: ((Npos (XI (XI (XO (XO (XO (XI XH))))))) :: []))
     | XH -> N0 :: ((Npos (XI (XI (XO (XO (XO (XI XH))))))) :: []))

type bitmat = { bh : nat; bw : nat; cell : bool list list;
                defd : bool list list }

(** val tab : nat -> nat -> (nat -> nat -> bool) -> bool list list **)

let tab h w f =
  map (fun i -> map (fun j -> f i j) (seq O w)) (seq O h)

(** val bm_get : bitmat -> nat -> nat -> bool **)

let bm_get a i j =
  nth j (nth i a.cell []) false

(** val bm_def : bitmat -> nat -> nat -> bool **)

let bm_def a i j =
  nth j (nth i a.defd []) false

(** val bm_make :
    nat -> nat -> (nat -> nat -> bool) -> (nat -> nat -> bool) -> bitmat **)

let bm_make h w f d =
  { bh = h; bw = w; cell = (tab h w f); defd = (tab h w d) }

(** val swp : nat -> nat -> nat -> nat **)

let swp i j x =
  if Nat.eqb x i then j else if Nat.eqb x j then i else x

(** val bm_new : nat -> nat -> bitmat **)

let bm_new h w =
  bm_make h w (fun _ _ -> false) (fun _ _ -> true)

(** val bm_set : bitmat -> nat -> nat -> bool -> bitmat **)

let bm_set a i j v =
  bm_make a.bh a.bw (fun r c ->
    if (&&) (Nat.eqb r i) (Nat.eqb c j) then v else bm_get a r c) (fun r c ->
    if (&&) (Nat.eqb r i) (Nat.eqb c j) then true else bm_def a r c)

(** val bm_swap_rows : bitmat -> nat -> nat -> bitmat **)

let bm_swap_rows a i j =
  bm_make a.bh a.bw (fun r c -> bm_get a (swp i j r) c) (fun r c ->
    bm_def a (swp i j r) c)

(** val bm_swap_columns : bitmat -> nat -> nat -> nat -> bitmat **)

let bm_swap_columns a i j _ =
  bm_make a.bh a.bw (fun r c -> bm_get a r (swp i j c)) (fun r c ->
    bm_def a r (swp i j c))

(** val bm_add_assign_rows : bitmat -> nat -> nat -> nat -> bitmat **)

let bm_add_assign_rows a dest src start_col =
  bm_make a.bh a.bw (fun r c ->
    if Nat.eqb r dest
    then xorb (bm_get a dest c) (bm_get a src c)
    else bm_get a r c) (fun r c ->
    if Nat.eqb r dest
    then if Nat.ltb c start_col
         then false
         else (&&) (bm_def a dest c) (bm_def a src c)
    else bm_def a r c)

(** val bm_resize : bitmat -> nat -> nat -> bitmat **)

let bm_resize a new_h new_w =
  bm_make new_h new_w (bm_get a) (bm_def a)

(** val bm_hint_column_dense_and_frozen : bitmat -> nat -> bitmat **)

let bm_hint_column_dense_and_frozen a _ =
  a

(** val bm_enable_column_access_acceleration : bitmat -> bitmat **)

let bm_enable_column_access_acceleration a =
  a

(** val bm_disable_column_access_acceleration : bitmat -> bitmat **)

let bm_disable_column_access_acceleration a =
  a

(** val q_count_ones : (nat -> nat -> bool) -> nat -> nat -> nat -> nat **)

let q_count_ones f row s e =
  length (filter (fun c -> f row c) (seq s (sub e s)))

(** val q_row :
    (nat -> nat -> bool) -> nat -> nat -> nat -> (nat * bool) list **)

let q_row f row s e =
  map (fun c -> (c, (f row c))) (seq s (sub e s))

(** val q_ones_in_column :
    (nat -> nat -> bool) -> nat -> nat -> nat -> nat list **)

let q_ones_in_column f col s e =
  filter (fun r -> f r col) (seq s (sub e s))

(** val q_sub_row : (nat -> nat -> bool) -> nat -> nat -> nat -> bool list **)

let q_sub_row f w row s =
  map (fun c -> f row c) (seq s (sub w s))

(** val q_non_zero_columns :
    (nat -> nat -> bool) -> nat -> nat -> nat -> nat list **)

let q_non_zero_columns f w row s =
  filter (fun c -> f row c) (seq s (sub w s))

(** val bm_count_ones : bitmat -> nat -> nat -> nat -> nat **)

let bm_count_ones a row s e =
  q_count_ones (bm_get a) row s e

(** val bm_row : bitmat -> nat -> nat -> nat -> (nat * bool) list **)

let bm_row a row s e =
  q_row (bm_get a) row s e

(** val bm_ones_in_column : bitmat -> nat -> nat -> nat -> nat list **)

let bm_ones_in_column a col s e =
  q_ones_in_column (bm_get a) col s e

(** val bm_sub_row : bitmat -> nat -> nat -> bool list **)

let bm_sub_row a row s =
  q_sub_row (bm_get a) a.bw row s

(** val bm_non_zero_columns : bitmat -> nat -> nat -> nat list **)

let bm_non_zero_columns a row s =
  q_non_zero_columns (bm_get a) a.bw row s

type op =
| OSet of n * n * n
| OGet of n * n
| OSwapRows of n * n
| OSwapCols of n * n * n
| OAddRows of n * n * n
| OResize of n * n
| OCountOnes of n * n * n
| ORowIter of n * n * n
| OOnesInCol of n * n * n
| OSubRow of n * n
| ONonZeroCols of n * n
| OFreeze of n
| OEnableAccel
| ODisableAccel

type ans =
| ABit of bool
| ANat of nat
| ARow of (nat * bool) list
| ANats of nat list
| ABits of bool list

(** val all_def_row : bitmat -> nat -> nat -> nat -> bool **)

let all_def_row a row s e =
  forallb (fun c -> bm_def a row c) (seq s (sub e s))

(** val all_def_col : bitmat -> nat -> nat -> nat -> bool **)

let all_def_col a col s e =
  forallb (fun r -> bm_def a r col) (seq s (sub e s))

(** val hint_ok : bitmat -> nat -> nat -> nat -> bool **)

let hint_ok a i j hint =
  forallb (fun r ->
    (&&) (eqb0 (bm_def a r i) (bm_def a r j))
      ((||) (negb (bm_def a r i)) (eqb0 (bm_get a r i) (bm_get a r j))))
    (seq O (Nat.min hint a.bh))

(** val adm : op -> bitmat -> bool **)

let adm o a =
  let h = N.of_nat a.bh in
  let w = N.of_nat a.bw in
  (match o with
   | OSet (i, j, _) -> (&&) (N.ltb i h) (N.ltb j w)
   | OGet (i, j) ->
     (&&) ((&&) (N.ltb i h) (N.ltb j w)) (bm_def a (N.to_nat i) (N.to_nat j))
   | OSwapRows (i, j) -> (&&) (N.ltb i h) (N.ltb j h)
   | OSwapCols (i, j, hint) ->
     (&&) ((&&) (N.ltb i w) (N.ltb j w))
       (hint_ok a (N.to_nat i) (N.to_nat j) (N.to_nat (N.min hint h)))
   | OAddRows (dest, src, start_col) ->
     (&&) ((&&) ((&&) (N.ltb dest h) (N.ltb src h)) (negb (N.eqb dest src)))
       (N.leb start_col w)
   | OResize (nh, nw) -> (&&) (N.leb nh h) (N.leb nw w)
   | OCountOnes (row, s, e) ->
     (&&) ((&&) ((&&) (N.ltb row h) (N.leb s e)) (N.leb e w))
       (all_def_row a (N.to_nat row) (N.to_nat s) (N.to_nat e))
   | ORowIter (row, s, e) ->
     (&&) ((&&) ((&&) (N.ltb row h) (N.leb s e)) (N.leb e w))
       (all_def_row a (N.to_nat row) (N.to_nat s) (N.to_nat e))
   | OOnesInCol (col, s, e) ->
     (&&) ((&&) ((&&) (N.ltb col w) (N.leb s e)) (N.leb e h))
       (all_def_col a (N.to_nat col) (N.to_nat s) (N.to_nat e))
   | OSubRow (row, s) ->
     (&&) ((&&) (N.ltb row h) (N.leb s w))
       (all_def_row a (N.to_nat row) (N.to_nat s) a.bw)
   | ONonZeroCols (row, s) ->
     (&&) ((&&) (N.ltb row h) (N.leb s w))
       (all_def_row a (N.to_nat row) (N.to_nat s) a.bw)
   | OFreeze col -> N.ltb col w
   | _ -> true)

(** val bm_step : bitmat -> op -> bitmat * ans option **)

let bm_step a = function
| OSet (i, j, v) ->
  ((bm_set a (N.to_nat i) (N.to_nat j) (negb (N.eqb v N0))), None)
| OGet (i, j) -> (a, (Some (ABit (bm_get a (N.to_nat i) (N.to_nat j)))))
| OSwapRows (i, j) -> ((bm_swap_rows a (N.to_nat i) (N.to_nat j)), None)
| OSwapCols (i, j, hint) ->
  ((bm_swap_columns a (N.to_nat i) (N.to_nat j)
     (N.to_nat (N.min hint (N.of_nat a.bh)))), None)
| OAddRows (d, s, c) ->
  ((bm_add_assign_rows a (N.to_nat d) (N.to_nat s) (N.to_nat c)), None)
| OResize (nh, nw) -> ((bm_resize a (N.to_nat nh) (N.to_nat nw)), None)
| OCountOnes (row, s, e) ->
  (a, (Some (ANat
    (bm_count_ones a (N.to_nat row) (N.to_nat s) (N.to_nat e)))))
| ORowIter (row, s, e) ->
  (a, (Some (ARow (bm_row a (N.to_nat row) (N.to_nat s) (N.to_nat e)))))
| OOnesInCol (col, s, e) ->
  (a, (Some (ANats
    (bm_ones_in_column a (N.to_nat col) (N.to_nat s) (N.to_nat e)))))
| OSubRow (row, s) ->
  (a, (Some (ABits (bm_sub_row a (N.to_nat row) (N.to_nat s)))))
| ONonZeroCols (row, s) ->
  (a, (Some (ANats (bm_non_zero_columns a (N.to_nat row) (N.to_nat s)))))
| OFreeze col -> ((bm_hint_column_dense_and_frozen a (N.to_nat col)), None)
| OEnableAccel -> ((bm_enable_column_access_acceleration a), None)
| ODisableAccel -> ((bm_disable_column_access_acceleration a), None)

(** val upd : 'a1 list -> nat -> 'a1 -> 'a1 list **)

let rec upd l i v =
  match l with
  | [] -> []
  | x :: t0 -> (match i with
                | O -> v :: t0
                | S k -> x :: (upd t0 k v))

(** val vget : n list -> n -> n outcome **)

let vget l i =
  if N.ltb i (N.of_nat (length l))
  then nth_ok l (N.to_nat i)
  else Panic PIndex

(** val vset : n list -> n -> n -> n list outcome **)

let vset l i x =
  if N.ltb i (N.of_nat (length l))
  then Ok (upd l (N.to_nat i) x)
  else Panic PIndex

(** val vswap : n list -> n -> n -> n list outcome **)

let vswap l a b =
  obind (vget l a) (fun x ->
    obind (vget l b) (fun y -> obind (vset l a y) (fun l1 -> vset l1 b x)))

(** val slice_ok : n list -> n -> n -> n list outcome **)

let slice_ok l a b =
  if (&&) (N.leb a b) (N.leb b (N.of_nat (length l)))
  then Ok (firstn (N.to_nat (N.sub b a)) (skipn (N.to_nat a) l))
  else Panic PIndex

(** val range_from0 : n -> n -> n list **)

let range_from0 a b =
  map (fun k -> N.add a (N.of_nat k)) (seq O (N.to_nat (N.sub b a)))

(** val ofold1 :
    ('a1 -> 'a2 -> 'a1 outcome) -> 'a2 list -> 'a1 -> 'a1 outcome **)

let rec ofold1 f l a =
  match l with
  | [] -> Ok a
  | x :: t0 -> obind (f a x) (fun a1 -> ofold1 f t0 a1)

(** val ofilter : ('a1 -> bool outcome) -> 'a1 list -> 'a1 list outcome **)

let rec ofilter p = function
| [] -> Ok []
| x :: t0 ->
  obind (p x) (fun b ->
    obind (ofilter p t0) (fun r -> Ok (if b then x :: r else r)))

(** val map3 : ('a1 -> 'a2 -> 'a3) -> 'a1 list -> 'a2 list -> 'a3 list **)

let rec map3 f l1 l2 =
  match l1 with
  | [] -> []
  | a :: t1 -> (match l2 with
                | [] -> []
                | b :: t2 -> (f a b) :: (map3 f t1 t2))

(** val pop_pos : positive -> n **)

let rec pop_pos = function
| XI q -> N.succ (pop_pos q)
| XO q -> pop_pos q
| XH -> Npos XH

(** val popcount : n -> n **)

let popcount = function
| N0 -> N0
| Npos p -> pop_pos p

type dmat = { height : n; width : n; elements0 : n list }

(** val wORD_WIDTH0 : n **)

let wORD_WIDTH0 =
  Npos (XO (XO (XO (XO (XO (XO XH))))))

(** val word_offset : n -> n **)

let word_offset col =
  N.div col wORD_WIDTH0

(** val row_word_width : dmat -> n **)

let row_word_width m =
  ceil_div m.width wORD_WIDTH0

(** val bit_position : dmat -> n -> n -> n * n **)

let bit_position m row col =
  ((N.add (N.mul row (row_word_width m)) (word_offset col)),
    (N.modulo col wORD_WIDTH0))

(** val select_mask0 : n -> n **)

let select_mask0 bit =
  N.shiftl (Npos XH) bit

(** val not64 : n -> n **)

let not64 x =
  N.ldiff (N.ones (Npos (XO (XO (XO (XO (XO (XO XH)))))))) x

(** val select_all_right_of_mask : n -> n **)

let select_all_right_of_mask bit =
  N.sub (select_mask0 bit) (Npos XH)

(** val select_bit_and_all_left_mask : n -> n **)

let select_bit_and_all_left_mask bit =
  not64 (select_all_right_of_mask bit)

(** val clear_bit : n -> n -> n **)

let clear_bit word bit =
  N.coq_land word (not64 (select_mask0 bit))

(** val set_bit : n -> n -> n **)

let set_bit word bit =
  N.coq_lor word (select_mask0 bit)

(** val dm_new : n -> n -> dmat **)

let dm_new h w =
  { height = h; width = w; elements0 =
    (repeat N0
      (N.to_nat
        (N.div (N.mul h (N.sub (N.add w wORD_WIDTH0) (Npos XH))) wORD_WIDTH0))) }

(** val with_elements : dmat -> n list -> dmat **)

let with_elements m els =
  { height = m.height; width = m.width; elements0 = els }

(** val dm_set : dmat -> n -> n -> n -> dmat outcome **)

let dm_set m i j value =
  let (word, bit) = bit_position m i j in
  obind (vget m.elements0 word) (fun x ->
    let x' = if N.eqb value N0 then clear_bit x bit else set_bit x bit in
    obind (vset m.elements0 word x') (fun els -> Ok (with_elements m els)))

(** val dm_get : dmat -> n -> n -> n outcome **)

let dm_get m i j =
  let (word, bit) = bit_position m i j in
  obind (vget m.elements0 word) (fun x -> Ok
    (if N.eqb (N.coq_land x (select_mask0 bit)) N0 then N0 else Npos XH))

(** val dm_count_ones : bool -> dmat -> n -> n -> n -> n outcome **)

let dm_count_ones fixed m row start_col end_col =
  if (&&) fixed (N.leb end_col start_col)
  then Ok N0
  else let (start_word, start_bit) = bit_position m row start_col in
       let (end_word, end_bit) = bit_position m row end_col in
       if N.eqb start_word end_word
       then let mask0 =
              N.coq_land (select_bit_and_all_left_mask start_bit)
                (select_all_right_of_mask end_bit)
            in
            obind (vget m.elements0 start_word) (fun x -> Ok
              (popcount (N.coq_land x mask0)))
       else obind (vget m.elements0 start_word) (fun x ->
              let ones0 =
                popcount
                  (N.coq_land x (select_bit_and_all_left_mask start_bit))
              in
              obind
                (ofold1 (fun acc word ->
                  obind (vget m.elements0 word) (fun y -> Ok
                    (N.add acc (popcount y))))
                  (range_from0 (N.add start_word (Npos XH)) end_word) ones0)
                (fun ones1 ->
                if N.ltb N0 end_bit
                then obind (vget m.elements0 end_word) (fun y -> Ok
                       (N.add ones1
                         (popcount
                           (N.coq_land y (select_all_right_of_mask end_bit)))))
                else Ok ones1))

(** val iter_dense :
    nat -> n list -> n -> n -> n -> n -> (n * n) list outcome **)

let rec iter_dense fuel sl end_col idx widx bidx =
  match fuel with
  | O -> Panic PFuel
  | S f ->
    if N.eqb idx end_col
    then Ok []
    else obind (vget sl widx) (fun x ->
           let value =
             if N.eqb (N.coq_land x (select_mask0 bidx)) N0
             then N0
             else Npos XH
           in
           let bidx1 = N.add bidx (Npos XH) in
           if N.eqb bidx1 (Npos (XO (XO (XO (XO (XO (XO XH)))))))
           then let bidx2 = N0 in
                let widx2 = N.add widx (Npos XH) in
                obind
                  (iter_dense f sl end_col (N.add idx (Npos XH)) widx2 bidx2)
                  (fun rest -> Ok ((idx, value) :: rest))
           else obind
                  (iter_dense f sl end_col (N.add idx (Npos XH)) widx bidx1)
                  (fun rest -> Ok ((idx, value) :: rest)))

(** val dm_get_row_iter :
    bool -> dmat -> n -> n -> n -> (n * n) list outcome **)

let dm_get_row_iter fixed m row start_col end_col =
  let (first_word, first_bit) = bit_position m row start_col in
  obind
    (if fixed
     then let word_count =
            if N.ltb start_col end_col
            then N.add
                   (N.sub (word_offset (N.sub end_col (Npos XH)))
                     (word_offset start_col)) (Npos XH)
            else N0
          in
          slice_ok m.elements0 first_word (N.add first_word word_count)
     else let (last_word, _) = bit_position m row end_col in
          slice_ok m.elements0 first_word (N.add last_word (Npos XH)))
    (fun sl ->
    iter_dense
      (add
        (mul (S (S (S (S (S (S (S (S (S (S (S (S (S (S (S (S (S (S (S (S (S
          (S (S (S (S (S (S (S (S (S (S (S (S (S (S (S (S (S (S (S (S (S (S
          (S (S (S (S (S (S (S (S (S (S (S (S (S (S (S (S (S (S (S (S (S
          O))))))))))))))))))))))))))))))))))))))))))))))))))))))))))))))))
          (add (length sl) (S O))) (S O)) sl end_col start_col N0 first_bit)

(** val dm_get_ones_in_column : dmat -> n -> n -> n -> n list outcome **)

let dm_get_ones_in_column m col start_row end_row =
  obind
    (ofilter (fun row ->
      obind (dm_get m row col) (fun v -> Ok (N.eqb v (Npos XH))))
      (range_from0 start_row end_row)) (fun rows -> Ok (map u32 rows))

(** val dm_get_sub_row_as_octets : dmat -> n -> n -> (n list * n) outcome **)

let dm_get_sub_row_as_octets m row start_col =
  if N.ltb m.width start_col
  then Panic POverflow
  else let n0 = N.sub m.width start_col in
       let result =
         repeat N0
           (N.to_nat (ceil_div n0 (Npos (XO (XO (XO (XO (XO (XO XH)))))))))
       in
       obind
         (ofold1 (fun st col ->
           let (p, bit) = st in
           let (res, word) = p in
           obind
             (if N.eqb bit N0
              then if N.eqb word N0
                   then Panic POverflow
                   else Ok ((N.sub word (Npos XH)), (Npos (XI (XI (XI (XI (XI
                          XH)))))))
              else Ok (word, (N.sub bit (Npos XH)))) (fun wb ->
             let (word0, bit0) = wb in
             obind (dm_get m row col) (fun v ->
               if N.eqb v (Npos XH)
               then obind (vget res word0) (fun x ->
                      obind
                        (vset res word0 (N.coq_lor x (select_mask0 bit0)))
                        (fun res' -> Ok ((res', word0), bit0)))
               else Ok ((res, word0), bit0))))
           (rev (range_from0 start_col m.width)) ((result,
           (N.of_nat (length result))), N0)) (fun st ->
         let (p, _) = st in
         let (res, _) = p in
         obind
           (assert_ok
             (N.eqb (N.of_nat (length res))
               (ceil_div n0 (Npos (XO (XO (XO (XO (XO (XO XH))))))))))
           (fun _ -> Ok (res, n0)))

(** val bov_padding_bits : n -> n **)

let bov_padding_bits len =
  N.modulo
    (N.sub (Npos (XO (XO (XO (XO (XO (XO XH)))))))
      (N.modulo len (Npos (XO (XO (XO (XO (XO (XO XH))))))))) (Npos (XO (XO
    (XO (XO (XO (XO XH)))))))

(** val bov_unpack : nat -> n list -> n -> n -> ((n list * n) * n) outcome **)

let rec bov_unpack n0 els word bit =
  match n0 with
  | O -> Ok (([], word), bit)
  | S k ->
    obind (vget els word) (fun x ->
      let value =
        if N.eqb (N.coq_land x (select_mask0 bit)) N0 then N0 else Npos XH
      in
      let bit1 = N.add bit (Npos XH) in
      if N.eqb bit1 (Npos (XO (XO (XO (XO (XO (XO XH)))))))
      then let word2 = N.add word (Npos XH) in
           let bit2 = N0 in
           obind (bov_unpack k els word2 bit2) (fun r ->
             let (p, bf) = r in
             let (rest, wf) = p in Ok (((value :: rest), wf), bf))
      else obind (bov_unpack k els word bit1) (fun r ->
             let (p, bf) = r in
             let (rest, wf) = p in Ok (((value :: rest), wf), bf)))

(** val bov_to_octet_vec : n list -> n -> n list outcome **)

let bov_to_octet_vec els len =
  obind (bov_unpack (N.to_nat len) els N0 (bov_padding_bits len)) (fun r ->
    let (p, bit) = r in
    let (res, word) = p in
    obind (assert_ok (N.eqb word (N.of_nat (length els)))) (fun _ ->
      obind (assert_ok (N.eqb bit N0)) (fun _ -> Ok res)))

(** val dm_query_non_zero_columns : dmat -> n -> n -> n list outcome **)

let dm_query_non_zero_columns m row start_col =
  ofilter (fun col ->
    obind (dm_get m row col) (fun v -> Ok (negb (N.eqb v N0))))
    (range_from0 start_col m.width)

(** val dm_swap_rows : dmat -> n -> n -> dmat outcome **)

let dm_swap_rows m i j =
  let (row_i, _) = bit_position m i N0 in
  let (row_j, _) = bit_position m j N0 in
  obind
    (ofold1 (fun els k -> vswap els (N.add row_i k) (N.add row_j k))
      (range_from0 N0 (row_word_width m)) m.elements0) (fun els -> Ok
    (with_elements m els))

(** val swap_columns_row :
    n -> n -> n -> n -> n -> n -> n -> n list -> n -> n list outcome **)

let swap_columns_row word_i word_j bit_i bit_j unset_i unset_j row_width els row =
  let pi = N.add (N.mul row row_width) word_i in
  let pj = N.add (N.mul row row_width) word_j in
  obind (vget els pi) (fun xi ->
    let i_set = negb (N.eqb (N.coq_land xi bit_i) N0) in
    obind (vget els pj) (fun xj ->
      obind
        (if N.eqb (N.coq_land xj bit_j) N0
         then obind (vget els pi) (fun y ->
                vset els pi (N.coq_land y unset_i))
         else obind (vget els pi) (fun y -> vset els pi (N.coq_lor y bit_i)))
        (fun els1 ->
        if i_set
        then obind (vget els1 pj) (fun y -> vset els1 pj (N.coq_lor y bit_j))
        else obind (vget els1 pj) (fun y ->
               vset els1 pj (N.coq_land y unset_j)))))

(** val dm_swap_columns : dmat -> n -> n -> n -> dmat outcome **)

let dm_swap_columns m i j start_row_hint =
  let (word_i, bit_i) = bit_position m N0 i in
  let (word_j, bit_j) = bit_position m N0 j in
  let unset_i = not64 (select_mask0 bit_i) in
  let unset_j = not64 (select_mask0 bit_j) in
  let bit_i0 = select_mask0 bit_i in
  let bit_j0 = select_mask0 bit_j in
  let row_width = row_word_width m in
  obind
    (ofold1
      (swap_columns_row word_i word_j bit_i0 bit_j0 unset_i unset_j row_width)
      (range_from0 start_row_hint m.height) m.elements0) (fun els -> Ok
    (with_elements m els))

(** val dm_enable_column_access_acceleration : dmat -> dmat **)

let dm_enable_column_access_acceleration m =
  m

(** val dm_disable_column_access_acceleration : dmat -> dmat **)

let dm_disable_column_access_acceleration m =
  m

(** val dm_hint_column_dense_and_frozen : dmat -> n -> dmat **)

let dm_hint_column_dense_and_frozen m _ =
  m

(** val get_both_ranges :
    n list -> n -> n -> n -> (n list * n list) outcome **)

let get_both_ranges v i j len =
  let n0 = N.of_nat (length v) in
  if N.ltb i j
  then if N.ltb n0 j
       then Panic PIndex
       else obind (slice_ok (firstn (N.to_nat j) v) i (N.add i len))
              (fun a ->
              obind (slice_ok (skipn (N.to_nat j) v) N0 len) (fun b -> Ok (a,
                b)))
  else if N.ltb n0 i
       then Panic PIndex
       else obind (slice_ok (skipn (N.to_nat i) v) N0 len) (fun a ->
              obind (slice_ok (firstn (N.to_nat i) v) j (N.add j len))
                (fun b -> Ok (a, b)))

(** val add_assign_binary : n list -> n list -> n list outcome **)

let add_assign_binary dest src =
  obind (slice_ok src N0 (N.of_nat (length dest))) (fun s -> Ok
    (map3 N.coq_lxor dest s))

(** val splice : n list -> n -> n list -> n list **)

let splice v at_ x =
  app (firstn (N.to_nat at_) v)
    (app x (skipn (add (N.to_nat at_) (length x)) v))

(** val dm_add_assign_rows : dmat -> n -> n -> n -> dmat outcome **)

let dm_add_assign_rows m dest src _ =
  if N.eqb dest src
  then Panic PAssert
  else let (dest_word, _) = bit_position m dest N0 in
       let (src_word, _) = bit_position m src N0 in
       let row_width = row_word_width m in
       obind (get_both_ranges m.elements0 dest_word src_word row_width)
         (fun p ->
         let (dest_row, temp_row) = p in
         obind (add_assign_binary dest_row temp_row) (fun d -> Ok
           (with_elements m (splice m.elements0 dest_word d))))

(** val resize_loop :
    nat -> n list -> n -> n -> n -> n -> (n list * n) outcome **)

let rec resize_loop n0 els src dest new_row_width words_to_remove =
  match n0 with
  | O -> Ok (els, src)
  | S k ->
    obind (vget els src) (fun x ->
      obind (vset els dest x) (fun els1 ->
        let src1 = N.add src (Npos XH) in
        let dest1 = N.add dest (Npos XH) in
        obind (rem_ok dest1 new_row_width) (fun r ->
          let src2 = if N.eqb r N0 then N.add src1 words_to_remove else src1
          in
          resize_loop k els1 src2 dest1 new_row_width words_to_remove)))

(** val dm_resize : dmat -> n -> n -> dmat outcome **)

let dm_resize m new_height new_width =
  if negb (N.leb new_height m.height)
  then Panic PAssert
  else if negb (N.leb new_width m.width)
       then Panic PAssert
       else let old_row_width = row_word_width m in
            let m1 = { height = new_height; width = new_width; elements0 =
              m.elements0 }
            in
            let new_row_width = row_word_width m1 in
            let words_to_remove = N.sub old_row_width new_row_width in
            obind
              (if N.ltb N0 words_to_remove
               then obind
                      (resize_loop
                        (N.to_nat (N.mul new_height new_row_width))
                        m.elements0 N0 N0 new_row_width words_to_remove)
                      (fun r ->
                      let (els, src) = r in
                      obind
                        (assert_ok
                          (N.eqb src (N.mul new_height old_row_width)))
                        (fun _ -> Ok els))
               else Ok m.elements0) (fun els -> Ok { height = new_height;
              width = new_width; elements0 =
              (firstn (N.to_nat (N.mul new_height new_row_width)) els) })

(** val nz : n -> bool **)

let nz x =
  negb (N.eqb x N0)

(** val b2n0 : bool -> n **)

let b2n0 = function
| true -> Npos XH
| false -> N0

(** val dm_step : bool -> dmat -> op -> (dmat * ans option) outcome **)

let dm_step fixed m = function
| OSet (i, j, v) -> obind (dm_set m i j v) (fun m' -> Ok (m', None))
| OGet (i, j) -> obind (dm_get m i j) (fun v -> Ok (m, (Some (ABit (nz v)))))
| OSwapRows (i, j) -> obind (dm_swap_rows m i j) (fun m' -> Ok (m', None))
| OSwapCols (i, j, hint) ->
  obind (dm_swap_columns m i j hint) (fun m' -> Ok (m', None))
| OAddRows (d, s, c) ->
  obind (dm_add_assign_rows m d s c) (fun m' -> Ok (m', None))
| OResize (nh, nw) -> obind (dm_resize m nh nw) (fun m' -> Ok (m', None))
| OCountOnes (row, s, e) ->
  obind (dm_count_ones fixed m row s e) (fun v -> Ok (m, (Some (ANat
    (N.to_nat v)))))
| ORowIter (row, s, e) ->
  obind (dm_get_row_iter fixed m row s e) (fun l -> Ok (m, (Some (ARow
    (map (fun cv -> ((N.to_nat (fst cv)), (nz (snd cv)))) l)))))
| OOnesInCol (col, s, e) ->
  obind (dm_get_ones_in_column m col s e) (fun l -> Ok (m, (Some (ANats
    (map N.to_nat l)))))
| OSubRow (row, s) ->
  obind (dm_get_sub_row_as_octets m row s) (fun p ->
    let (ws, n0) = p in
    obind (bov_to_octet_vec ws n0) (fun bits -> Ok (m, (Some (ABits
      (map nz bits))))))
| ONonZeroCols (row, s) ->
  obind (dm_query_non_zero_columns m row s) (fun l -> Ok (m, (Some (ANats
    (map N.to_nat l)))))
| OFreeze col -> Ok ((dm_hint_column_dense_and_frozen m col), None)
| OEnableAccel -> Ok ((dm_enable_column_access_acceleration m), None)
| ODisableAccel -> Ok ((dm_disable_column_access_acceleration m), None)

(** val decode_op : n list -> op option **)

let decode_op = function
| [] -> None
| n0 :: l0 ->
  (match n0 with
   | N0 -> None
   | Npos p ->
     (match p with
      | XI p0 ->
        (match p0 with
         | XI p1 ->
           (match p1 with
            | XI _ -> None
            | XO p2 ->
              (match p2 with
               | XH ->
                 (match l0 with
                  | [] -> None
                  | row :: l1 ->
                    (match l1 with
                     | [] -> None
                     | s :: l2 ->
                       (match l2 with
                        | [] -> Some (ONonZeroCols (row, s))
                        | _ :: _ -> None)))
               | _ -> None)
            | XH ->
              (match l0 with
               | [] -> None
               | row :: l1 ->
                 (match l1 with
                  | [] -> None
                  | s :: l2 ->
                    (match l2 with
                     | [] -> None
                     | e :: l3 ->
                       (match l3 with
                        | [] -> Some (OCountOnes (row, s, e))
                        | _ :: _ -> None)))))
         | XO p1 ->
           (match p1 with
            | XI p2 ->
              (match p2 with
               | XH ->
                 (match l0 with
                  | [] -> Some OEnableAccel
                  | _ :: _ -> None)
               | _ -> None)
            | XO p2 ->
              (match p2 with
               | XH ->
                 (match l0 with
                  | [] -> None
                  | col :: l1 ->
                    (match l1 with
                     | [] -> None
                     | s :: l2 ->
                       (match l2 with
                        | [] -> None
                        | e :: l3 ->
                          (match l3 with
                           | [] -> Some (OOnesInCol (col, s, e))
                           | _ :: _ -> None))))
               | _ -> None)
            | XH ->
              (match l0 with
               | [] -> None
               | d :: l1 ->
                 (match l1 with
                  | [] -> None
                  | s :: l2 ->
                    (match l2 with
                     | [] -> None
                     | c :: l3 ->
                       (match l3 with
                        | [] -> Some (OAddRows (d, s, c))
                        | _ :: _ -> None)))))
         | XH ->
           (match l0 with
            | [] -> None
            | i :: l1 ->
              (match l1 with
               | [] -> None
               | j :: l2 ->
                 (match l2 with
                  | [] -> Some (OSwapRows (i, j))
                  | _ :: _ -> None))))
      | XO p0 ->
        (match p0 with
         | XI p1 ->
           (match p1 with
            | XI p2 ->
              (match p2 with
               | XH ->
                 (match l0 with
                  | [] -> Some ODisableAccel
                  | _ :: _ -> None)
               | _ -> None)
            | XO p2 ->
              (match p2 with
               | XH ->
                 (match l0 with
                  | [] -> None
                  | row :: l1 ->
                    (match l1 with
                     | [] -> None
                     | s :: l2 ->
                       (match l2 with
                        | [] -> Some (OSubRow (row, s))
                        | _ :: _ -> None)))
               | _ -> None)
            | XH ->
              (match l0 with
               | [] -> None
               | nh :: l1 ->
                 (match l1 with
                  | [] -> None
                  | nw :: l2 ->
                    (match l2 with
                     | [] -> Some (OResize (nh, nw))
                     | _ :: _ -> None))))
         | XO p1 ->
           (match p1 with
            | XI p2 ->
              (match p2 with
               | XH ->
                 (match l0 with
                  | [] -> None
                  | col :: l1 ->
                    (match l1 with
                     | [] -> Some (OFreeze col)
                     | _ :: _ -> None))
               | _ -> None)
            | XO p2 ->
              (match p2 with
               | XH ->
                 (match l0 with
                  | [] -> None
                  | row :: l1 ->
                    (match l1 with
                     | [] -> None
                     | s :: l2 ->
                       (match l2 with
                        | [] -> None
                        | e :: l3 ->
                          (match l3 with
                           | [] -> Some (ORowIter (row, s, e))
                           | _ :: _ -> None))))
               | _ -> None)
            | XH ->
              (match l0 with
               | [] -> None
               | i :: l1 ->
                 (match l1 with
                  | [] -> None
                  | j :: l2 ->
                    (match l2 with
                     | [] -> None
                     | hint :: l3 ->
                       (match l3 with
                        | [] -> Some (OSwapCols (i, j, hint))
                        | _ :: _ -> None)))))
         | XH ->
           (match l0 with
            | [] -> None
            | i :: l1 ->
              (match l1 with
               | [] -> None
               | j :: l2 ->
                 (match l2 with
                  | [] -> Some (OGet (i, j))
                  | _ :: _ -> None))))
      | XH ->
        (match l0 with
         | [] -> None
         | i :: l1 ->
           (match l1 with
            | [] -> None
            | j :: l2 ->
              (match l2 with
               | [] -> None
               | v :: l3 ->
                 (match l3 with
                  | [] -> Some (OSet (i, j, v))
                  | _ :: _ -> None))))))

(** val enc_ans : ans option -> n list **)

let enc_ans = function
| Some a0 ->
  (match a0 with
   | ABit b -> (Npos XH) :: ((b2n0 b) :: [])
   | ANat n0 -> (Npos XH) :: ((N.of_nat n0) :: [])
   | ARow l -> (Npos XH) :: (map (fun cv -> N.of_nat (fst cv)) (filter snd l))
   | ANats l -> (Npos XH) :: (map N.of_nat l)
   | ABits l -> (Npos XH) :: (map b2n0 l))
| None -> (Npos XH) :: []

(** val dm_run_from : bool -> dmat -> n list list -> n list list **)

let rec dm_run_from fixed m = function
| [] -> []
| l :: t0 ->
  (match decode_op l with
   | Some o ->
     (match dm_step fixed m o with
      | Ok a0 -> let (m1, a) = a0 in (enc_ans a) :: (dm_run_from fixed m1 t0)
      | Panic _ -> (N0 :: []) :: [])
   | None -> ((Npos (XO XH)) :: []) :: [])

(** val dm_run : bool -> n -> n -> n list list -> n list list **)

let dm_run fixed h w ops =
  dm_run_from fixed (dm_new h w) ops

(** val bm_run_from : bitmat -> n list list -> n list list **)

let rec bm_run_from a = function
| [] -> []
| l :: t0 ->
  (match decode_op l with
   | Some o ->
     if adm o a
     then let (a1, r) = bm_step a o in (enc_ans r) :: (bm_run_from a1 t0)
     else ((Npos (XI XH)) :: []) :: []
   | None -> ((Npos (XO XH)) :: []) :: [])

(** val bm_run : n -> n -> n list list -> n list list **)

let bm_run h w ops =
  bm_run_from (bm_new (N.to_nat h) (N.to_nat w)) ops

(** val split_ops : nat -> n list -> n list list **)

let rec split_ops n0 l =
  match n0 with
  | O -> []
  | S k ->
    (match l with
     | [] -> []
     | len :: t0 ->
       (firstn (N.to_nat len) t0) :: (split_ops k (skipn (N.to_nat len) t0)))

(** val flat_rows : n list list -> n list **)

let flat_rows rows =
  flat_map (fun r -> (N.of_nat (length r)) :: r) rows

(** val run_bm_dense : bool -> n list -> n list **)

let run_bm_dense fixed a =
  (Npos
    XH) :: (flat_rows
             (dm_run fixed (nth O a N0) (nth (S O) a N0)
               (split_ops (N.to_nat (nth (S (S (S O))) a N0))
                 (skipn (S (S (S (S O)))) a))))

(** val run_bm_spec : n list -> n list **)

let run_bm_spec a =
  (Npos
    XH) :: (flat_rows
             (bm_run (nth O a N0) (nth (S O) a N0)
               (split_ops (N.to_nat (nth (S (S (S O))) a N0))
                 (skipn (S (S (S (S O)))) a))))

(** val run_mat : n -> n list -> n list **)

let run_mat f a =
  match f with
  | N0 -> N0 :: ((Npos (XI (XI (XO (XO (XO (XI XH))))))) :: [])
  | Npos p ->
    (match p with
     | XI p0 ->
       (match p0 with
        | XO p1 ->
          (match p1 with
           | XI p2 ->
             (match p2 with
              | XO p3 ->
                (match p3 with
                 | XI p4 ->
                   (match p4 with
                    | XI p5 ->
                      (match p5 with
                       | XI p6 ->
                         (match p6 with
                          | XI p7 ->
                            (match p7 with
                             | XH -> run_bm_dense false a
                             | _ ->
                               N0 :: ((Npos (XI (XI (XO (XO (XO (XI
                                 XH))))))) :: []))
                          | _ ->
                            N0 :: ((Npos (XI (XI (XO (XO (XO (XI
                              XH))))))) :: []))
                       | _ ->
                         N0 :: ((Npos (XI (XI (XO (XO (XO (XI XH))))))) :: []))
                    | _ ->
                      N0 :: ((Npos (XI (XI (XO (XO (XO (XI XH))))))) :: []))
                 | _ -> N0 :: ((Npos (XI (XI (XO (XO (XO (XI XH))))))) :: []))
              | _ -> N0 :: ((Npos (XI (XI (XO (XO (XO (XI XH))))))) :: []))
           | _ -> N0 :: ((Npos (XI (XI (XO (XO (XO (XI XH))))))) :: []))
        | _ -> N0 :: ((Npos (XI (XI (XO (XO (XO (XI XH))))))) :: []))
     | XO p0 ->
       (match p0 with
        | XI p1 ->
          (match p1 with
           | XI p2 ->
             (match p2 with
              | XO p3 ->
                (match p3 with
                 | XO p4 ->
                   (match p4 with
                    | XI p5 ->
                      (match p5 with
                       | XO p6 ->
                         (match p6 with
                          | XO p7 ->
                            (match p7 with
                             | XO p8 ->
                               (match p8 with
                                | XH -> run_bm_spec a
                                | _ ->
                                  N0 :: ((Npos (XI (XI (XO (XO (XO (XI
                                    XH))))))) :: []))
                             | _ ->
                               N0 :: ((Npos (XI (XI (XO (XO (XO (XI
                                 XH))))))) :: []))
                          | _ ->
                            N0 :: ((Npos (XI (XI (XO (XO (XO (XI
                              XH))))))) :: []))
                       | _ ->
                         N0 :: ((Npos (XI (XI (XO (XO (XO (XI XH))))))) :: []))
                    | _ ->
                      N0 :: ((Npos (XI (XI (XO (XO (XO (XI XH))))))) :: []))
                 | _ -> N0 :: ((Npos (XI (XI (XO (XO (XO (XI XH))))))) :: []))
              | _ -> N0 :: ((Npos (XI (XI (XO (XO (XO (XI XH))))))) :: []))
           | _ -> N0 :: ((Npos (XI (XI (XO (XO (XO (XI XH))))))) :: []))
        | XO p1 ->
          (match p1 with
           | XI p2 ->
             (match p2 with
              | XO p3 ->
                (match p3 with
                 | XI p4 ->
                   (match p4 with
                    | XI p5 ->
                      (match p5 with
                       | XI p6 ->
                         (match p6 with
                          | XI p7 ->
                            (match p7 with
                             | XH -> run_bm_dense true a
                             | _ ->
                               N0 :: ((Npos (XI (XI (XO (XO (XO (XI
                                 XH))))))) :: []))
                          | _ ->
                            N0 :: ((Npos (XI (XI (XO (XO (XO (XI
                              XH))))))) :: []))
                       | _ ->
                         N0 :: ((Npos (XI (XI (XO (XO (XO (XI XH))))))) :: []))
                    | _ ->
                      N0 :: ((Npos (XI (XI (XO (XO (XO (XI XH))))))) :: []))
                 | _ -> N0 :: ((Npos (XI (XI (XO (XO (XO (XI XH))))))) :: []))
              | _ -> N0 :: ((Npos (XI (XI (XO (XO (XO (XI XH))))))) :: []))
           | _ -> N0 :: ((Npos (XI (XI (XO (XO (XO (XI XH))))))) :: []))
        | XH -> N0 :: ((Npos (XI (XI (XO (XO (XO (XI XH))))))) :: []))
     | XH -> N0 :: ((Npos (XI (XI (XO (XO (XO (XI XH))))))) :: []))

(** val pcode : pclass -> n **)

let pcode = function
| PAssert -> Npos XH
| PIndex -> Npos (XO XH)
| POverflow -> Npos (XI XH)
| PUnreachable -> Npos (XO (XO XH))
| PUnimpl -> Npos (XI (XO XH))
| PFuel -> Npos (XO (XI XH))
| PDivZero -> Npos (XI (XI XH))
| PUnwrap -> Npos (XO (XO (XO XH)))

(** val enc1 : n outcome -> n list **)

let enc1 = function
| Ok v -> (Npos XH) :: (v :: [])
| Panic c -> N0 :: ((pcode c) :: [])

(** val encl : n list outcome -> n list **)

let encl = function
| Ok l -> (Npos XH) :: l
| Panic c -> N0 :: ((pcode c) :: [])

(** val arg : n list -> nat -> n **)

let arg l i =
  nth i l N0

(** val run_octet : n -> n list -> n list **)

let run_octet f a =
  match f with
  | N0 -> N0 :: ((Npos (XI (XI (XO (XO (XO (XI XH))))))) :: [])
  | Npos p ->
    (match p with
     | XI p0 ->
       (match p0 with
        | XI p1 ->
          (match p1 with
           | XI _ -> N0 :: ((Npos (XI (XI (XO (XO (XO (XI XH))))))) :: [])
           | XO p2 ->
             (match p2 with
              | XO p3 ->
                (match p3 with
                 | XI p4 ->
                   (match p4 with
                    | XH ->
                      (Npos XH) :: ((pmul (arg a O) (arg a (S O))) :: [])
                    | _ ->
                      N0 :: ((Npos (XI (XI (XO (XO (XO (XI XH))))))) :: []))
                 | _ -> N0 :: ((Npos (XI (XI (XO (XO (XO (XI XH))))))) :: []))
              | _ -> N0 :: ((Npos (XI (XI (XO (XO (XO (XI XH))))))) :: []))
           | XH -> enc1 (tbl2 octet_mul_low_table (arg a O) (arg a (S O))))
        | XO p1 ->
          (match p1 with
           | XH -> enc1 (oct_alpha (arg a O))
           | _ -> N0 :: ((Npos (XI (XI (XO (XO (XO (XI XH))))))) :: []))
        | XH -> enc1 (oct_div (arg a O) (arg a (S O))))
     | XO p0 ->
       (match p0 with
        | XI p1 ->
          (match p1 with
           | XI _ -> N0 :: ((Npos (XI (XI (XO (XO (XO (XI XH))))))) :: [])
           | XO p2 ->
             (match p2 with
              | XO p3 ->
                (match p3 with
                 | XI p4 ->
                   (match p4 with
                    | XH ->
                      (Npos XH) :: ((padd (arg a O) (arg a (S O))) :: [])
                    | _ ->
                      N0 :: ((Npos (XI (XI (XO (XO (XO (XI XH))))))) :: []))
                 | _ -> N0 :: ((Npos (XI (XI (XO (XO (XO (XI XH))))))) :: []))
              | _ -> N0 :: ((Npos (XI (XI (XO (XO (XO (XI XH))))))) :: []))
           | XH -> enc1 (tbl2 octet_mul_table (arg a O) (arg a (S O))))
        | XO p1 ->
          (match p1 with
           | XI p2 ->
             (match p2 with
              | XO p3 ->
                (match p3 with
                 | XI p4 ->
                   (match p4 with
                    | XH -> (Npos XH) :: ((ppow2 (N.to_nat (arg a O))) :: [])
                    | _ ->
                      N0 :: ((Npos (XI (XI (XO (XO (XO (XI XH))))))) :: []))
                 | _ -> N0 :: ((Npos (XI (XI (XO (XO (XO (XI XH))))))) :: []))
              | _ -> N0 :: ((Npos (XI (XI (XO (XO (XO (XI XH))))))) :: []))
           | XO p2 ->
             (match p2 with
              | XH -> enc1 (tbl2 octet_mul_hi_table (arg a O) (arg a (S O)))
              | _ -> N0 :: ((Npos (XI (XI (XO (XO (XO (XI XH))))))) :: []))
           | XH -> enc1 (oct_fma (arg a O) (arg a (S O)) (arg a (S (S O)))))
        | XH -> enc1 (oct_mul (arg a O) (arg a (S O))))
     | XH -> (Npos XH) :: ((oct_add (arg a O) (arg a (S O))) :: []))

(** val b2n1 : bool -> n **)

let b2n1 = function
| true -> Npos XH
| false -> N0

(** val enc_pid : (n * n) outcome -> n list **)

let enc_pid = function
| Ok a -> let (s, e) = a in (Npos XH) :: (s :: (e :: []))
| Panic c -> N0 :: ((pcode c) :: [])

(** val oti_list : oti -> n list **)

let oti_list = function
| (p, al) ->
  let (p0, nsub) = p in
  let (p1, z) = p0 in
  let (f, t0) = p1 in f :: (t0 :: (z :: (nsub :: (al :: []))))

(** val enc_oti : oti outcome -> n list **)

let enc_oti = function
| Ok o -> (Npos XH) :: (oti_list o)
| Panic c -> N0 :: ((pcode c) :: [])

(** val triples : n list -> ((n * n) * n) list **)

let rec triples = function
| [] -> []
| a :: l0 ->
  (match l0 with
   | [] -> []
   | b :: l1 ->
     (match l1 with
      | [] -> []
      | c :: t0 -> ((a, b), c) :: (triples t0)))

(** val run_wire : n -> n list -> n list **)

let run_wire f a =
  match f with
  | N0 -> N0 :: ((Npos (XI (XI (XO (XO (XO (XI XH))))))) :: [])
  | Npos p ->
    (match p with
     | XI p0 ->
       (match p0 with
        | XI p1 ->
          (match p1 with
           | XI p2 ->
             (match p2 with
              | XI p3 ->
                (match p3 with
                 | XO p4 ->
                   (match p4 with
                    | XI p5 ->
                      (match p5 with
                       | XH ->
                         enc_oti
                           (oti_new Checked (arg a O) (arg a (S O))
                             (arg a (S (S O))) (arg a (S (S (S O))))
                             (arg a (S (S (S (S O))))))
                       | _ ->
                         N0 :: ((Npos (XI (XI (XO (XO (XO (XI XH))))))) :: []))
                    | _ ->
                      N0 :: ((Npos (XI (XI (XO (XO (XO (XI XH))))))) :: []))
                 | _ -> N0 :: ((Npos (XI (XI (XO (XO (XO (XI XH))))))) :: []))
              | XO p3 ->
                (match p3 with
                 | XI p4 ->
                   (match p4 with
                    | XO p5 ->
                      (match p5 with
                       | XO p6 ->
                         (match p6 with
                          | XH ->
                            (Npos
                              XH) :: (oti_wire (arg a O) (arg a (S O))
                                       (arg a (S (S O)))
                                       (arg a (S (S (S O))))
                                       (arg a (S (S (S (S O))))))
                          | _ ->
                            N0 :: ((Npos (XI (XI (XO (XO (XO (XI
                              XH))))))) :: []))
                       | _ ->
                         N0 :: ((Npos (XI (XI (XO (XO (XO (XI XH))))))) :: []))
                    | _ ->
                      N0 :: ((Npos (XI (XI (XO (XO (XO (XI XH))))))) :: []))
                 | XO p4 ->
                   (match p4 with
                    | XI p5 ->
                      (match p5 with
                       | XH ->
                         encl
                           (omap (fun p6 ->
                             pkt_ser (p6, (skipn (S (S O)) a)))
                             (pid_new (arg a O) (arg a (S O))))
                       | _ ->
                         N0 :: ((Npos (XI (XI (XO (XO (XO (XI XH))))))) :: []))
                    | _ ->
                      N0 :: ((Npos (XI (XI (XO (XO (XO (XI XH))))))) :: []))
                 | XH -> N0 :: ((Npos (XI (XI (XO (XO (XO (XI XH))))))) :: []))
              | XH -> N0 :: ((Npos (XI (XI (XO (XO (XO (XI XH))))))) :: []))
           | _ -> N0 :: ((Npos (XI (XI (XO (XO (XO (XI XH))))))) :: []))
        | XO p1 ->
          (match p1 with
           | XI p2 ->
             (match p2 with
              | XO p3 ->
                (match p3 with
                 | XO p4 ->
                   (match p4 with
                    | XI p5 ->
                      (match p5 with
                       | XH ->
                         encl (omap pid_ser (pid_new (arg a O) (arg a (S O))))
                       | _ ->
                         N0 :: ((Npos (XI (XI (XO (XO (XO (XI XH))))))) :: []))
                    | _ ->
                      N0 :: ((Npos (XI (XI (XO (XO (XO (XI XH))))))) :: []))
                 | _ -> N0 :: ((Npos (XI (XI (XO (XO (XO (XI XH))))))) :: []))
              | _ -> N0 :: ((Npos (XI (XI (XO (XO (XO (XI XH))))))) :: []))
           | XO p2 ->
             (match p2 with
              | XI p3 ->
                (match p3 with
                 | XI p4 ->
                   (match p4 with
                    | XO p5 ->
                      (match p5 with
                       | XO p6 ->
                         (match p6 with
                          | XH ->
                            (Npos
                              XH) :: (be (N.to_nat (arg a O)) (arg a (S O)))
                          | _ ->
                            N0 :: ((Npos (XI (XI (XO (XO (XO (XI
                              XH))))))) :: []))
                       | _ ->
                         N0 :: ((Npos (XI (XI (XO (XO (XO (XI XH))))))) :: []))
                    | _ ->
                      N0 :: ((Npos (XI (XI (XO (XO (XO (XI XH))))))) :: []))
                 | XO p4 ->
                   (match p4 with
                    | XI p5 ->
                      (match p5 with
                       | XH ->
                         encl
                           (omap oti_ser
                             (oti_new Release (arg a O) (arg a (S O))
                               (arg a (S (S O))) (arg a (S (S (S O))))
                               (arg a (S (S (S (S O)))))))
                       | _ ->
                         N0 :: ((Npos (XI (XI (XO (XO (XO (XI XH))))))) :: []))
                    | _ ->
                      N0 :: ((Npos (XI (XI (XO (XO (XO (XI XH))))))) :: []))
                 | XH -> N0 :: ((Npos (XI (XI (XO (XO (XO (XI XH))))))) :: []))
              | _ -> N0 :: ((Npos (XI (XI (XO (XO (XO (XI XH))))))) :: []))
           | XH -> N0 :: ((Npos (XI (XI (XO (XO (XO (XI XH))))))) :: []))
        | XH -> N0 :: ((Npos (XI (XI (XO (XO (XO (XI XH))))))) :: []))
     | XO p0 ->
       (match p0 with
        | XI p1 ->
          (match p1 with
           | XI p2 ->
             (match p2 with
              | XI p3 ->
                (match p3 with
                 | XO p4 ->
                   (match p4 with
                    | XI p5 ->
                      (match p5 with
                       | XH ->
                         enc_oti
                           (oti_new Release (arg a O) (arg a (S O))
                             (arg a (S (S O))) (arg a (S (S (S O))))
                             (arg a (S (S (S (S O))))))
                       | _ ->
                         N0 :: ((Npos (XI (XI (XO (XO (XO (XI XH))))))) :: []))
                    | _ ->
                      N0 :: ((Npos (XI (XI (XO (XO (XO (XI XH))))))) :: []))
                 | _ -> N0 :: ((Npos (XI (XI (XO (XO (XO (XI XH))))))) :: []))
              | XO p3 ->
                (match p3 with
                 | XI p4 ->
                   (match p4 with
                    | XO p5 ->
                      (match p5 with
                       | XO p6 ->
                         (match p6 with
                          | XH ->
                            (Npos
                              XH) :: (payload_id_wire (arg a O) (arg a (S O)))
                          | _ ->
                            N0 :: ((Npos (XI (XI (XO (XO (XO (XI
                              XH))))))) :: []))
                       | _ ->
                         N0 :: ((Npos (XI (XI (XO (XO (XO (XI XH))))))) :: []))
                    | _ ->
                      N0 :: ((Npos (XI (XI (XO (XO (XO (XI XH))))))) :: []))
                 | XO p4 ->
                   (match p4 with
                    | XI p5 ->
                      (match p5 with
                       | XH ->
                         encl
                           (omap (fun p6 ->
                             app ((fst p6) :: ((snd p6) :: [])) (pid_ser p6))
                             (pid_deser (firstn (S (S (S (S O)))) a)))
                       | _ ->
                         N0 :: ((Npos (XI (XI (XO (XO (XO (XI XH))))))) :: []))
                    | _ ->
                      N0 :: ((Npos (XI (XI (XO (XO (XO (XI XH))))))) :: []))
                 | XH -> N0 :: ((Npos (XI (XI (XO (XO (XO (XI XH))))))) :: []))
              | XH -> N0 :: ((Npos (XI (XI (XO (XO (XO (XI XH))))))) :: []))
           | XO p2 ->
             (match p2 with
              | XI p3 ->
                (match p3 with
                 | XO p4 ->
                   (match p4 with
                    | XI p5 ->
                      (match p5 with
                       | XH ->
                         encl
                           (omap (fun o -> app (oti_list o) (oti_ser o))
                             (oti_deser
                               (firstn (S (S (S (S (S (S (S (S (S (S (S (S
                                 O)))))))))))) a)))
                       | _ ->
                         N0 :: ((Npos (XI (XI (XO (XO (XO (XI XH))))))) :: []))
                    | _ ->
                      N0 :: ((Npos (XI (XI (XO (XO (XO (XI XH))))))) :: []))
                 | _ -> N0 :: ((Npos (XI (XI (XO (XO (XO (XI XH))))))) :: []))
              | _ -> N0 :: ((Npos (XI (XI (XO (XO (XO (XI XH))))))) :: []))
           | XH -> N0 :: ((Npos (XI (XI (XO (XO (XO (XI XH))))))) :: []))
        | XO p1 ->
          (match p1 with
           | XI p2 ->
             (match p2 with
              | XO p3 ->
                (match p3 with
                 | XO p4 ->
                   (match p4 with
                    | XI p5 ->
                      (match p5 with
                       | XH -> enc_pid (pid_new (arg a O) (arg a (S O)))
                       | _ ->
                         N0 :: ((Npos (XI (XI (XO (XO (XO (XI XH))))))) :: []))
                    | _ ->
                      N0 :: ((Npos (XI (XI (XO (XO (XO (XI XH))))))) :: []))
                 | _ -> N0 :: ((Npos (XI (XI (XO (XO (XO (XI XH))))))) :: []))
              | _ -> N0 :: ((Npos (XI (XI (XO (XO (XO (XI XH))))))) :: []))
           | XO p2 ->
             (match p2 with
              | XI p3 ->
                (match p3 with
                 | XI p4 ->
                   (match p4 with
                    | XI p5 ->
                      (match p5 with
                       | XH ->
                         (Npos
                           XH) :: (concat
                                    (cache_trace
                                      (N.to_nat pLAN_CACHE_CAPACITY)
                                      (triples a)))
                       | _ ->
                         N0 :: ((Npos (XI (XI (XO (XO (XO (XI XH))))))) :: []))
                    | XO p5 ->
                      (match p5 with
                       | XO p6 ->
                         (match p6 with
                          | XH ->
                            (Npos
                              XH) :: ((b2n1
                                        (oti_validb (arg a O) (arg a (S O))
                                          (arg a (S (S O)))
                                          (arg a (S (S (S (S O))))))) :: [])
                          | _ ->
                            N0 :: ((Npos (XI (XI (XO (XO (XO (XI
                              XH))))))) :: []))
                       | _ ->
                         N0 :: ((Npos (XI (XI (XO (XO (XO (XI XH))))))) :: []))
                    | XH ->
                      N0 :: ((Npos (XI (XI (XO (XO (XO (XI XH))))))) :: []))
                 | XO p4 ->
                   (match p4 with
                    | XI p5 ->
                      (match p5 with
                       | XH ->
                         encl
                           (omap (fun p6 ->
                             (fst (fst p6)) :: ((snd (fst p6)) :: (snd p6)))
                             (pkt_deser a))
                       | _ ->
                         N0 :: ((Npos (XI (XI (XO (XO (XO (XI XH))))))) :: []))
                    | _ ->
                      N0 :: ((Npos (XI (XI (XO (XO (XO (XI XH))))))) :: []))
                 | XH -> N0 :: ((Npos (XI (XI (XO (XO (XO (XI XH))))))) :: []))
              | XO p3 ->
                (match p3 with
                 | XI p4 ->
                   (match p4 with
                    | XI p5 ->
                      (match p5 with
                       | XH ->
                         enc_oti
                           (oti_new_pinned Release (arg a O) (arg a (S O))
                             (arg a (S (S O))) (arg a (S (S (S O))))
                             (arg a (S (S (S (S O))))))
                       | _ ->
                         N0 :: ((Npos (XI (XI (XO (XO (XO (XI XH))))))) :: []))
                    | _ ->
                      N0 :: ((Npos (XI (XI (XO (XO (XO (XI XH))))))) :: []))
                 | _ -> N0 :: ((Npos (XI (XI (XO (XO (XO (XI XH))))))) :: []))
              | XH -> N0 :: ((Npos (XI (XI (XO (XO (XO (XI XH))))))) :: []))
           | XH -> N0 :: ((Npos (XI (XI (XO (XO (XO (XI XH))))))) :: []))
        | XH -> N0 :: ((Npos (XI (XI (XO (XO (XO (XI XH))))))) :: []))
     | XH -> N0 :: ((Npos (XI (XI (XO (XO (XO (XI XH))))))) :: []))

(** val run_codec : n -> n list -> n list **)

let run_codec f a =
  match f with
  | N0 -> N0 :: ((Npos (XI (XI (XO (XO (XO (XI XH))))))) :: [])
  | Npos p ->
    (match p with
     | XI p0 ->
       (match p0 with
        | XI p1 ->
          (match p1 with
           | XI p2 ->
             (match p2 with
              | XI p3 ->
                (match p3 with
                 | XO p4 ->
                   (match p4 with
                    | XO p5 ->
                      (match p5 with
                       | XI p6 ->
                         (match p6 with
                          | XH -> run_slab_replay Release a
                          | _ ->
                            N0 :: ((Npos (XI (XI (XO (XO (XO (XI
                              XH))))))) :: []))
                       | _ ->
                         N0 :: ((Npos (XI (XI (XO (XO (XO (XI XH))))))) :: []))
                    | _ ->
                      N0 :: ((Npos (XI (XI (XO (XO (XO (XI XH))))))) :: []))
                 | _ -> N0 :: ((Npos (XI (XI (XO (XO (XO (XI XH))))))) :: []))
              | _ -> N0 :: ((Npos (XI (XI (XO (XO (XO (XI XH))))))) :: []))
           | XO p2 ->
             (match p2 with
              | XI p3 ->
                (match p3 with
                 | XI p4 ->
                   (match p4 with
                    | XI p5 ->
                      (match p5 with
                       | XI p6 ->
                         (match p6 with
                          | XH -> run_spec_layout_packets a
                          | _ ->
                            N0 :: ((Npos (XI (XI (XO (XO (XO (XI
                              XH))))))) :: []))
                       | _ ->
                         N0 :: ((Npos (XI (XI (XO (XO (XO (XI XH))))))) :: []))
                    | _ ->
                      N0 :: ((Npos (XI (XI (XO (XO (XO (XI XH))))))) :: []))
                 | XO p4 ->
                   (match p4 with
                    | XO p5 ->
                      (match p5 with
                       | XI p6 ->
                         (match p6 with
                          | XH -> run_sbd_hist Release a
                          | _ ->
                            N0 :: ((Npos (XI (XI (XO (XO (XO (XI
                              XH))))))) :: []))
                       | _ ->
                         N0 :: ((Npos (XI (XI (XO (XO (XO (XI XH))))))) :: []))
                    | _ ->
                      N0 :: ((Npos (XI (XI (XO (XO (XO (XI XH))))))) :: []))
                 | XH -> N0 :: ((Npos (XI (XI (XO (XO (XO (XI XH))))))) :: []))
              | XO p3 ->
                (match p3 with
                 | XI p4 ->
                   (match p4 with
                    | XO p5 ->
                      (match p5 with
                       | XI p6 ->
                         (match p6 with
                          | XH -> run_repair_window Checked a
                          | _ ->
                            N0 :: ((Npos (XI (XI (XO (XO (XO (XI
                              XH))))))) :: []))
                       | _ ->
                         N0 :: ((Npos (XI (XI (XO (XO (XO (XI XH))))))) :: []))
                    | _ ->
                      N0 :: ((Npos (XI (XI (XO (XO (XO (XI XH))))))) :: []))
                 | _ -> N0 :: ((Npos (XI (XI (XO (XO (XO (XI XH))))))) :: []))
              | XH -> N0 :: ((Npos (XI (XI (XO (XO (XO (XI XH))))))) :: []))
           | XH -> N0 :: ((Npos (XI (XI (XO (XO (XO (XI XH))))))) :: []))
        | XO p1 ->
          (match p1 with
           | XI p2 ->
             (match p2 with
              | XI p3 ->
                (match p3 with
                 | XI p4 ->
                   (match p4 with
                    | XI p5 ->
                      (match p5 with
                       | XI p6 ->
                         (match p6 with
                          | XH -> run_check_intermediate a
                          | _ ->
                            N0 :: ((Npos (XI (XI (XO (XO (XO (XI
                              XH))))))) :: []))
                       | _ ->
                         N0 :: ((Npos (XI (XI (XO (XO (XO (XI XH))))))) :: []))
                    | _ ->
                      N0 :: ((Npos (XI (XI (XO (XO (XO (XI XH))))))) :: []))
                 | XO p4 ->
                   (match p4 with
                    | XO p5 ->
                      (match p5 with
                       | XI p6 ->
                         (match p6 with
                          | XH -> run_layout_packets Release a
                          | _ ->
                            N0 :: ((Npos (XI (XI (XO (XO (XO (XI
                              XH))))))) :: []))
                       | _ ->
                         N0 :: ((Npos (XI (XI (XO (XO (XO (XI XH))))))) :: []))
                    | _ ->
                      N0 :: ((Npos (XI (XI (XO (XO (XO (XI XH))))))) :: []))
                 | XH -> N0 :: ((Npos (XI (XI (XO (XO (XO (XI XH))))))) :: []))
              | XO p3 ->
                (match p3 with
                 | XI p4 ->
                   (match p4 with
                    | XO p5 ->
                      (match p5 with
                       | XI p6 ->
                         (match p6 with
                          | XH -> run_sbd_hist Checked a
                          | _ ->
                            N0 :: ((Npos (XI (XI (XO (XO (XO (XI
                              XH))))))) :: []))
                       | _ ->
                         N0 :: ((Npos (XI (XI (XO (XO (XO (XI XH))))))) :: []))
                    | _ ->
                      N0 :: ((Npos (XI (XI (XO (XO (XO (XI XH))))))) :: []))
                 | _ -> N0 :: ((Npos (XI (XI (XO (XO (XO (XI XH))))))) :: []))
              | XH -> N0 :: ((Npos (XI (XI (XO (XO (XO (XI XH))))))) :: []))
           | XO p2 ->
             (match p2 with
              | XI p3 ->
                (match p3 with
                 | XI p4 ->
                   (match p4 with
                    | XO p5 ->
                      (match p5 with
                       | XI p6 ->
                         (match p6 with
                          | XH -> run_slab_replay Checked a
                          | _ ->
                            N0 :: ((Npos (XI (XI (XO (XO (XO (XI
                              XH))))))) :: []))
                       | _ ->
                         N0 :: ((Npos (XI (XI (XO (XO (XO (XI XH))))))) :: []))
                    | _ ->
                      N0 :: ((Npos (XI (XI (XO (XO (XO (XI XH))))))) :: []))
                 | XO p4 ->
                   (match p4 with
                    | XO p5 ->
                      (match p5 with
                       | XI p6 ->
                         (match p6 with
                          | XH -> run_repair_window Release a
                          | _ ->
                            N0 :: ((Npos (XI (XI (XO (XO (XO (XI
                              XH))))))) :: []))
                       | _ ->
                         N0 :: ((Npos (XI (XI (XO (XO (XO (XI XH))))))) :: []))
                    | _ ->
                      N0 :: ((Npos (XI (XI (XO (XO (XO (XI XH))))))) :: []))
                 | XH -> N0 :: ((Npos (XI (XI (XO (XO (XO (XI XH))))))) :: []))
              | _ -> N0 :: ((Npos (XI (XI (XO (XO (XO (XI XH))))))) :: []))
           | XH -> N0 :: ((Npos (XI (XI (XO (XO (XO (XI XH))))))) :: []))
        | XH -> N0 :: ((Npos (XI (XI (XO (XO (XO (XI XH))))))) :: []))
     | XO p0 ->
       (match p0 with
        | XI p1 ->
          (match p1 with
           | XI p2 ->
             (match p2 with
              | XI p3 ->
                (match p3 with
                 | XO p4 ->
                   (match p4 with
                    | XO p5 ->
                      (match p5 with
                       | XI p6 ->
                         (match p6 with
                          | XH -> run_layout_roundtrip Release a
                          | _ ->
                            N0 :: ((Npos (XI (XI (XO (XO (XO (XI
                              XH))))))) :: []))
                       | _ ->
                         N0 :: ((Npos (XI (XI (XO (XO (XO (XI XH))))))) :: []))
                    | _ ->
                      N0 :: ((Npos (XI (XI (XO (XO (XO (XI XH))))))) :: []))
                 | _ -> N0 :: ((Npos (XI (XI (XO (XO (XO (XI XH))))))) :: []))
              | XO p3 ->
                (match p3 with
                 | XI p4 ->
                   (match p4 with
                    | XO p5 ->
                      (match p5 with
                       | XI p6 ->
                         (match p6 with
                          | XH -> run_intermediate Checked a
                          | _ ->
                            N0 :: ((Npos (XI (XI (XO (XO (XO (XI
                              XH))))))) :: []))
                       | _ ->
                         N0 :: ((Npos (XI (XI (XO (XO (XO (XI XH))))))) :: []))
                    | _ ->
                      N0 :: ((Npos (XI (XI (XO (XO (XO (XI XH))))))) :: []))
                 | _ -> N0 :: ((Npos (XI (XI (XO (XO (XO (XI XH))))))) :: []))
              | XH -> N0 :: ((Npos (XI (XI (XO (XO (XO (XI XH))))))) :: []))
           | XO p2 ->
             (match p2 with
              | XI p3 ->
                (match p3 with
                 | XI p4 ->
                   (match p4 with
                    | XI p5 ->
                      (match p5 with
                       | XI p6 ->
                         (match p6 with
                          | XH -> run_spec_block_packets a
                          | _ ->
                            N0 :: ((Npos (XI (XI (XO (XO (XO (XI
                              XH))))))) :: []))
                       | _ ->
                         N0 :: ((Npos (XI (XI (XO (XO (XO (XI XH))))))) :: []))
                    | _ ->
                      N0 :: ((Npos (XI (XI (XO (XO (XO (XI XH))))))) :: []))
                 | XO p4 ->
                   (match p4 with
                    | XO p5 ->
                      (match p5 with
                       | XI p6 ->
                         (match p6 with
                          | XH -> run_codec_hist Release a
                          | _ ->
                            N0 :: ((Npos (XI (XI (XO (XO (XO (XI
                              XH))))))) :: []))
                       | _ ->
                         N0 :: ((Npos (XI (XI (XO (XO (XO (XI XH))))))) :: []))
                    | _ ->
                      N0 :: ((Npos (XI (XI (XO (XO (XO (XI XH))))))) :: []))
                 | XH -> N0 :: ((Npos (XI (XI (XO (XO (XO (XI XH))))))) :: []))
              | XO p3 ->
                (match p3 with
                 | XI p4 ->
                   (match p4 with
                    | XO p5 ->
                      (match p5 with
                       | XI p6 ->
                         (match p6 with
                          | XH -> run_enc_packets Checked a
                          | _ ->
                            N0 :: ((Npos (XI (XI (XO (XO (XO (XI
                              XH))))))) :: []))
                       | _ ->
                         N0 :: ((Npos (XI (XI (XO (XO (XO (XI XH))))))) :: []))
                    | _ ->
                      N0 :: ((Npos (XI (XI (XO (XO (XO (XI XH))))))) :: []))
                 | _ -> N0 :: ((Npos (XI (XI (XO (XO (XO (XI XH))))))) :: []))
              | XH -> N0 :: ((Npos (XI (XI (XO (XO (XO (XI XH))))))) :: []))
           | XH -> N0 :: ((Npos (XI (XI (XO (XO (XO (XI XH))))))) :: []))
        | XO p1 ->
          (match p1 with
           | XI p2 ->
             (match p2 with
              | XI p3 ->
                (match p3 with
                 | XI p4 ->
                   (match p4 with
                    | XI p5 ->
                      (match p5 with
                       | XI p6 ->
                         (match p6 with
                          | XH -> run_cert_ok a
                          | _ ->
                            N0 :: ((Npos (XI (XI (XO (XO (XO (XI
                              XH))))))) :: []))
                       | _ ->
                         N0 :: ((Npos (XI (XI (XO (XO (XO (XI XH))))))) :: []))
                    | _ ->
                      N0 :: ((Npos (XI (XI (XO (XO (XO (XI XH))))))) :: []))
                 | XO p4 ->
                   (match p4 with
                    | XO p5 ->
                      (match p5 with
                       | XI p6 ->
                         (match p6 with
                          | XH -> run_intermediate Release a
                          | _ ->
                            N0 :: ((Npos (XI (XI (XO (XO (XO (XI
                              XH))))))) :: []))
                       | _ ->
                         N0 :: ((Npos (XI (XI (XO (XO (XO (XI XH))))))) :: []))
                    | _ ->
                      N0 :: ((Npos (XI (XI (XO (XO (XO (XI XH))))))) :: []))
                 | XH -> N0 :: ((Npos (XI (XI (XO (XO (XO (XI XH))))))) :: []))
              | XO p3 ->
                (match p3 with
                 | XI p4 ->
                   (match p4 with
                    | XO p5 ->
                      (match p5 with
                       | XI p6 ->
                         (match p6 with
                          | XH -> run_codec_hist Checked a
                          | _ ->
                            N0 :: ((Npos (XI (XI (XO (XO (XO (XI
                              XH))))))) :: []))
                       | _ ->
                         N0 :: ((Npos (XI (XI (XO (XO (XO (XI XH))))))) :: []))
                    | _ ->
                      N0 :: ((Npos (XI (XI (XO (XO (XO (XI XH))))))) :: []))
                 | _ -> N0 :: ((Npos (XI (XI (XO (XO (XO (XI XH))))))) :: []))
              | XH -> N0 :: ((Npos (XI (XI (XO (XO (XO (XI XH))))))) :: []))
           | XO p2 ->
             (match p2 with
              | XI p3 ->
                (match p3 with
                 | XO p4 ->
                   (match p4 with
                    | XO p5 ->
                      (match p5 with
                       | XI p6 ->
                         (match p6 with
                          | XH -> run_enc_packets Release a
                          | _ ->
                            N0 :: ((Npos (XI (XI (XO (XO (XO (XI
                              XH))))))) :: []))
                       | _ ->
                         N0 :: ((Npos (XI (XI (XO (XO (XO (XI XH))))))) :: []))
                    | _ ->
                      N0 :: ((Npos (XI (XI (XO (XO (XO (XI XH))))))) :: []))
                 | _ -> N0 :: ((Npos (XI (XI (XO (XO (XO (XI XH))))))) :: []))
              | _ -> N0 :: ((Npos (XI (XI (XO (XO (XO (XI XH))))))) :: []))
           | XH -> N0 :: ((Npos (XI (XI (XO (XO (XO (XI XH))))))) :: []))
        | XH -> N0 :: ((Npos (XI (XI (XO (XO (XO (XI XH))))))) :: []))
     | XH -> N0 :: ((Npos (XI (XI (XO (XO (XO (XI XH))))))) :: []))

(** val enc_t6 : (((((n * n) * n) * n) * n) * n) outcome -> n list **)

let enc_t6 = function
| Ok a ->
  let (p, b1) = a in
  let (p0, a1) = p in
  let (p1, d1) = p0 in
  let (p2, b) = p1 in
  let (d, a0) = p2 in
  (Npos XH) :: (d :: (a0 :: (b :: (d1 :: (a1 :: (b1 :: []))))))
| Panic c -> N0 :: ((pcode c) :: [])

(** val t6_of : n list -> ((((n * n) * n) * n) * n) * n **)

let t6_of a =
  ((((((arg a O), (arg a (S O))), (arg a (S (S O)))), (arg a (S (S (S O))))),
    (arg a (S (S (S (S O)))))), (arg a (S (S (S (S (S O)))))))

(** val run_tuple : n -> n list -> n list **)

let run_tuple f a =
  match f with
  | N0 -> N0 :: ((Npos (XI (XI (XO (XO (XO (XI XH))))))) :: [])
  | Npos p ->
    (match p with
     | XI p0 ->
       (match p0 with
        | XI p1 ->
          (match p1 with
           | XI p2 ->
             (match p2 with
              | XI p3 ->
                (match p3 with
                 | XI p4 ->
                   (match p4 with
                    | XO p5 ->
                      (match p5 with
                       | XI p6 ->
                         (match p6 with
                          | XO p7 ->
                            (match p7 with
                             | XH ->
                               enc_t6 (Ok
                                 (tuple (arg a (S (S O))) (arg a (S O))
                                   (arg a (S (S (S O)))) (arg a O)))
                             | _ ->
                               N0 :: ((Npos (XI (XI (XO (XO (XO (XI
                                 XH))))))) :: []))
                          | _ ->
                            N0 :: ((Npos (XI (XI (XO (XO (XO (XI
                              XH))))))) :: []))
                       | _ ->
                         N0 :: ((Npos (XI (XI (XO (XO (XO (XI XH))))))) :: []))
                    | _ ->
                      N0 :: ((Npos (XI (XI (XO (XO (XO (XI XH))))))) :: []))
                 | XO p4 ->
                   (match p4 with
                    | XI p5 ->
                      (match p5 with
                       | XO p6 ->
                         (match p6 with
                          | XO p7 ->
                            (match p7 with
                             | XH -> enc1 (num_ldpc_symbols (arg a O))
                             | _ ->
                               N0 :: ((Npos (XI (XI (XO (XO (XO (XI
                                 XH))))))) :: []))
                          | _ ->
                            N0 :: ((Npos (XI (XI (XO (XO (XO (XI
                              XH))))))) :: []))
                       | _ ->
                         N0 :: ((Npos (XI (XI (XO (XO (XO (XI XH))))))) :: []))
                    | _ ->
                      N0 :: ((Npos (XI (XI (XO (XO (XO (XI XH))))))) :: []))
                 | XH -> N0 :: ((Npos (XI (XI (XO (XO (XO (XI XH))))))) :: []))
              | XO p3 ->
                (match p3 with
                 | XI p4 ->
                   (match p4 with
                    | XI p5 ->
                      (match p5 with
                       | XO p6 ->
                         (match p6 with
                          | XO p7 ->
                            (match p7 with
                             | XH ->
                               enc1
                                 (rand_gen true Checked (arg a O)
                                   (arg a (S O)) (arg a (S (S O))))
                             | _ ->
                               N0 :: ((Npos (XI (XI (XO (XO (XO (XI
                                 XH))))))) :: []))
                          | _ ->
                            N0 :: ((Npos (XI (XI (XO (XO (XO (XI
                              XH))))))) :: []))
                       | _ ->
                         N0 :: ((Npos (XI (XI (XO (XO (XO (XI XH))))))) :: []))
                    | _ ->
                      N0 :: ((Npos (XI (XI (XO (XO (XO (XI XH))))))) :: []))
                 | _ -> N0 :: ((Npos (XI (XI (XO (XO (XO (XI XH))))))) :: []))
              | XH -> N0 :: ((Npos (XI (XI (XO (XO (XO (XI XH))))))) :: []))
           | XO p2 ->
             (match p2 with
              | XI p3 ->
                (match p3 with
                 | XI p4 ->
                   (match p4 with
                    | XI p5 ->
                      (match p5 with
                       | XO p6 ->
                         (match p6 with
                          | XO p7 ->
                            (match p7 with
                             | XH ->
                               enc_t6
                                 (intermediate_tuple_gen true Checked
                                   (arg a O) (arg a (S O)) (arg a (S (S O)))
                                   (arg a (S (S (S O)))))
                             | _ ->
                               N0 :: ((Npos (XI (XI (XO (XO (XO (XI
                                 XH))))))) :: []))
                          | _ ->
                            N0 :: ((Npos (XI (XI (XO (XO (XO (XI
                              XH))))))) :: []))
                       | _ ->
                         N0 :: ((Npos (XI (XI (XO (XO (XO (XI XH))))))) :: []))
                    | _ ->
                      N0 :: ((Npos (XI (XI (XO (XO (XO (XI XH))))))) :: []))
                 | _ -> N0 :: ((Npos (XI (XI (XO (XO (XO (XI XH))))))) :: []))
              | XO p3 ->
                (match p3 with
                 | XI p4 ->
                   (match p4 with
                    | XI p5 ->
                      (match p5 with
                       | XO p6 ->
                         (match p6 with
                          | XO p7 ->
                            (match p7 with
                             | XH -> enc1 (calculate_p1 (arg a O))
                             | _ ->
                               N0 :: ((Npos (XI (XI (XO (XO (XO (XI
                                 XH))))))) :: []))
                          | _ ->
                            N0 :: ((Npos (XI (XI (XO (XO (XO (XI
                              XH))))))) :: []))
                       | _ ->
                         N0 :: ((Npos (XI (XI (XO (XO (XO (XI XH))))))) :: []))
                    | _ ->
                      N0 :: ((Npos (XI (XI (XO (XO (XO (XI XH))))))) :: []))
                 | XO p4 ->
                   (match p4 with
                    | XO p5 ->
                      (match p5 with
                       | XI p6 ->
                         (match p6 with
                          | XO p7 ->
                            (match p7 with
                             | XH ->
                               enc_oti
                                 (with_defaults true Checked (arg a O)
                                   (arg a (S O)))
                             | _ ->
                               N0 :: ((Npos (XI (XI (XO (XO (XO (XI
                                 XH))))))) :: []))
                          | _ ->
                            N0 :: ((Npos (XI (XI (XO (XO (XO (XI
                              XH))))))) :: []))
                       | _ ->
                         N0 :: ((Npos (XI (XI (XO (XO (XO (XI XH))))))) :: []))
                    | _ ->
                      N0 :: ((Npos (XI (XI (XO (XO (XO (XI XH))))))) :: []))
                 | XH -> N0 :: ((Npos (XI (XI (XO (XO (XO (XI XH))))))) :: []))
              | XH -> N0 :: ((Npos (XI (XI (XO (XO (XO (XI XH))))))) :: []))
           | XH -> N0 :: ((Npos (XI (XI (XO (XO (XO (XI XH))))))) :: []))
        | XO p1 ->
          (match p1 with
           | XI p2 ->
             (match p2 with
              | XI p3 ->
                (match p3 with
                 | XI p4 ->
                   (match p4 with
                    | XI p5 ->
                      (match p5 with
                       | XO p6 ->
                         (match p6 with
                          | XO p7 ->
                            (match p7 with
                             | XH ->
                               encl
                                 (enc_indices Checked (t6_of a)
                                   (arg a (S (S (S (S (S (S O)))))))
                                   (arg a (S (S (S (S (S (S (S O))))))))
                                   (arg a (S (S (S (S (S (S (S (S O))))))))))
                             | _ ->
                               N0 :: ((Npos (XI (XI (XO (XO (XO (XI
                                 XH))))))) :: []))
                          | _ ->
                            N0 :: ((Npos (XI (XI (XO (XO (XO (XI
                              XH))))))) :: []))
                       | _ ->
                         N0 :: ((Npos (XI (XI (XO (XO (XO (XI XH))))))) :: []))
                    | _ ->
                      N0 :: ((Npos (XI (XI (XO (XO (XO (XI XH))))))) :: []))
                 | XO p4 ->
                   (match p4 with
                    | XI p5 ->
                      (match p5 with
                       | XO p6 ->
                         (match p6 with
                          | XO p7 ->
                            (match p7 with
                             | XH -> enc1 (systematic_index (arg a O))
                             | _ ->
                               N0 :: ((Npos (XI (XI (XO (XO (XO (XI
                                 XH))))))) :: []))
                          | _ ->
                            N0 :: ((Npos (XI (XI (XO (XO (XO (XI
                              XH))))))) :: []))
                       | _ ->
                         N0 :: ((Npos (XI (XI (XO (XO (XO (XI XH))))))) :: []))
                    | _ ->
                      N0 :: ((Npos (XI (XI (XO (XO (XO (XI XH))))))) :: []))
                 | XH -> N0 :: ((Npos (XI (XI (XO (XO (XO (XI XH))))))) :: []))
              | _ -> N0 :: ((Npos (XI (XI (XO (XO (XO (XI XH))))))) :: []))
           | XO p2 ->
             (match p2 with
              | XI p3 ->
                (match p3 with
                 | XI p4 ->
                   (match p4 with
                    | XI p5 ->
                      (match p5 with
                       | XO p6 ->
                         (match p6 with
                          | XO p7 ->
                            (match p7 with
                             | XH ->
                               enc1 (deg0 Checked (arg a O) (arg a (S O)))
                             | _ ->
                               N0 :: ((Npos (XI (XI (XO (XO (XO (XI
                                 XH))))))) :: []))
                          | _ ->
                            N0 :: ((Npos (XI (XI (XO (XO (XO (XI
                              XH))))))) :: []))
                       | _ ->
                         N0 :: ((Npos (XI (XI (XO (XO (XO (XI XH))))))) :: []))
                    | _ ->
                      N0 :: ((Npos (XI (XI (XO (XO (XO (XI XH))))))) :: []))
                 | _ -> N0 :: ((Npos (XI (XI (XO (XO (XO (XI XH))))))) :: []))
              | XO p3 ->
                (match p3 with
                 | XI p4 ->
                   (match p4 with
                    | XI p5 ->
                      (match p5 with
                       | XO p6 ->
                         (match p6 with
                          | XO p7 ->
                            (match p7 with
                             | XH -> enc1 (num_intermediate_symbols (arg a O))
                             | _ ->
                               N0 :: ((Npos (XI (XI (XO (XO (XO (XI
                                 XH))))))) :: []))
                          | _ ->
                            N0 :: ((Npos (XI (XI (XO (XO (XO (XI
                              XH))))))) :: []))
                       | _ ->
                         N0 :: ((Npos (XI (XI (XO (XO (XO (XI XH))))))) :: []))
                    | _ ->
                      N0 :: ((Npos (XI (XI (XO (XO (XO (XI XH))))))) :: []))
                 | XO p4 ->
                   (match p4 with
                    | XI p5 ->
                      (match p5 with
                       | XI p6 ->
                         (match p6 with
                          | XO p7 ->
                            (match p7 with
                             | XH ->
                               (Npos
                                 XH) :: ((b2n1
                                           (db (arg a O) (arg a (S O))
                                             (arg a (S (S O))))) :: (
                                 (arg a O) :: ((t_of (arg a (S O))) :: (
                                 (z_of (arg a O) (arg a (S O))
                                   (arg a (S (S O)))) :: ((n_of (arg a O)
                                                            (arg a (S O))
                                                            (arg a (S (S O)))) :: (
                                 (al_of (arg a (S O))) :: []))))))
                             | _ ->
                               N0 :: ((Npos (XI (XI (XO (XO (XO (XI
                                 XH))))))) :: []))
                          | _ ->
                            N0 :: ((Npos (XI (XI (XO (XO (XO (XI
                              XH))))))) :: []))
                       | _ ->
                         N0 :: ((Npos (XI (XI (XO (XO (XO (XI XH))))))) :: []))
                    | XO p5 ->
                      (match p5 with
                       | XI p6 ->
                         (match p6 with
                          | XO p7 ->
                            (match p7 with
                             | XH ->
                               enc_oti
                                 (gen_params true Checked (arg a O)
                                   (arg a (S O)) (arg a (S (S O))))
                             | _ ->
                               N0 :: ((Npos (XI (XI (XO (XO (XO (XI
                                 XH))))))) :: []))
                          | _ ->
                            N0 :: ((Npos (XI (XI (XO (XO (XO (XI
                              XH))))))) :: []))
                       | _ ->
                         N0 :: ((Npos (XI (XI (XO (XO (XO (XI XH))))))) :: []))
                    | XH ->
                      N0 :: ((Npos (XI (XI (XO (XO (XO (XI XH))))))) :: []))
                 | XH -> N0 :: ((Npos (XI (XI (XO (XO (XO (XI XH))))))) :: []))
              | XH -> N0 :: ((Npos (XI (XI (XO (XO (XO (XI XH))))))) :: []))
           | XH -> N0 :: ((Npos (XI (XI (XO (XO (XO (XI XH))))))) :: []))
        | XH -> N0 :: ((Npos (XI (XI (XO (XO (XO (XI XH))))))) :: []))
     | XO p0 ->
       (match p0 with
        | XI p1 ->
          (match p1 with
           | XI p2 ->
             (match p2 with
              | XI p3 ->
                (match p3 with
                 | XI p4 ->
                   (match p4 with
                    | XI p5 ->
                      (match p5 with
                       | XO p6 ->
                         (match p6 with
                          | XO p7 ->
                            (match p7 with
                             | XH ->
                               enc_t6
                                 (intermediate_tuple_gen false Checked
                                   (arg a O) (arg a (S O)) (arg a (S (S O)))
                                   (arg a (S (S (S O)))))
                             | _ ->
                               N0 :: ((Npos (XI (XI (XO (XO (XO (XI
                                 XH))))))) :: []))
                          | _ ->
                            N0 :: ((Npos (XI (XI (XO (XO (XO (XI
                              XH))))))) :: []))
                       | _ ->
                         N0 :: ((Npos (XI (XI (XO (XO (XO (XI XH))))))) :: []))
                    | XO p5 ->
                      (match p5 with
                       | XI p6 ->
                         (match p6 with
                          | XO p7 ->
                            (match p7 with
                             | XH ->
                               (Npos
                                 XH) :: ((rand (arg a O) (arg a (S O))
                                           (arg a (S (S O)))) :: [])
                             | _ ->
                               N0 :: ((Npos (XI (XI (XO (XO (XO (XI
                                 XH))))))) :: []))
                          | _ ->
                            N0 :: ((Npos (XI (XI (XO (XO (XO (XI
                              XH))))))) :: []))
                       | _ ->
                         N0 :: ((Npos (XI (XI (XO (XO (XO (XI XH))))))) :: []))
                    | XH ->
                      N0 :: ((Npos (XI (XI (XO (XO (XO (XI XH))))))) :: []))
                 | XO p4 ->
                   (match p4 with
                    | XI p5 ->
                      (match p5 with
                       | XO p6 ->
                         (match p6 with
                          | XO p7 ->
                            (match p7 with
                             | XH -> enc1 (num_hdpc_symbols (arg a O))
                             | _ ->
                               N0 :: ((Npos (XI (XI (XO (XO (XO (XI
                                 XH))))))) :: []))
                          | _ ->
                            N0 :: ((Npos (XI (XI (XO (XO (XO (XI
                              XH))))))) :: []))
                       | _ ->
                         N0 :: ((Npos (XI (XI (XO (XO (XO (XI XH))))))) :: []))
                    | _ ->
                      N0 :: ((Npos (XI (XI (XO (XO (XO (XI XH))))))) :: []))
                 | XH -> N0 :: ((Npos (XI (XI (XO (XO (XO (XI XH))))))) :: []))
              | XO p3 ->
                (match p3 with
                 | XI p4 ->
                   (match p4 with
                    | XI p5 ->
                      (match p5 with
                       | XO p6 ->
                         (match p6 with
                          | XO p7 ->
                            (match p7 with
                             | XH ->
                               enc1
                                 (rand_gen true Release (arg a O)
                                   (arg a (S O)) (arg a (S (S O))))
                             | _ ->
                               N0 :: ((Npos (XI (XI (XO (XO (XO (XI
                                 XH))))))) :: []))
                          | _ ->
                            N0 :: ((Npos (XI (XI (XO (XO (XO (XI
                              XH))))))) :: []))
                       | _ ->
                         N0 :: ((Npos (XI (XI (XO (XO (XO (XI XH))))))) :: []))
                    | _ ->
                      N0 :: ((Npos (XI (XI (XO (XO (XO (XI XH))))))) :: []))
                 | _ -> N0 :: ((Npos (XI (XI (XO (XO (XO (XI XH))))))) :: []))
              | XH -> N0 :: ((Npos (XI (XI (XO (XO (XO (XI XH))))))) :: []))
           | XO p2 ->
             (match p2 with
              | XI p3 ->
                (match p3 with
                 | XI p4 ->
                   (match p4 with
                    | XI p5 ->
                      (match p5 with
                       | XO p6 ->
                         (match p6 with
                          | XO p7 ->
                            (match p7 with
                             | XH ->
                               enc_t6
                                 (intermediate_tuple_gen true Release
                                   (arg a O) (arg a (S O)) (arg a (S (S O)))
                                   (arg a (S (S (S O)))))
                             | _ ->
                               N0 :: ((Npos (XI (XI (XO (XO (XO (XI
                                 XH))))))) :: []))
                          | _ ->
                            N0 :: ((Npos (XI (XI (XO (XO (XO (XI
                              XH))))))) :: []))
                       | _ ->
                         N0 :: ((Npos (XI (XI (XO (XO (XO (XI XH))))))) :: []))
                    | _ ->
                      N0 :: ((Npos (XI (XI (XO (XO (XO (XI XH))))))) :: []))
                 | _ -> N0 :: ((Npos (XI (XI (XO (XO (XO (XI XH))))))) :: []))
              | XO p3 ->
                (match p3 with
                 | XI p4 ->
                   (match p4 with
                    | XI p5 ->
                      (match p5 with
                       | XO p6 ->
                         (match p6 with
                          | XO p7 ->
                            (match p7 with
                             | XH -> enc1 (num_pi_symbols (arg a O))
                             | _ ->
                               N0 :: ((Npos (XI (XI (XO (XO (XO (XI
                                 XH))))))) :: []))
                          | _ ->
                            N0 :: ((Npos (XI (XI (XO (XO (XO (XI
                              XH))))))) :: []))
                       | _ ->
                         N0 :: ((Npos (XI (XI (XO (XO (XO (XI XH))))))) :: []))
                    | _ ->
                      N0 :: ((Npos (XI (XI (XO (XO (XO (XI XH))))))) :: []))
                 | XO p4 ->
                   (match p4 with
                    | XO p5 ->
                      (match p5 with
                       | XI p6 ->
                         (match p6 with
                          | XO p7 ->
                            (match p7 with
                             | XH ->
                               enc_oti
                                 (with_defaults true Release (arg a O)
                                   (arg a (S O)))
                             | _ ->
                               N0 :: ((Npos (XI (XI (XO (XO (XO (XI
                                 XH))))))) :: []))
                          | _ ->
                            N0 :: ((Npos (XI (XI (XO (XO (XO (XI
                              XH))))))) :: []))
                       | _ ->
                         N0 :: ((Npos (XI (XI (XO (XO (XO (XI XH))))))) :: []))
                    | _ ->
                      N0 :: ((Npos (XI (XI (XO (XO (XO (XI XH))))))) :: []))
                 | XH -> N0 :: ((Npos (XI (XI (XO (XO (XO (XI XH))))))) :: []))
              | XH -> N0 :: ((Npos (XI (XI (XO (XO (XO (XI XH))))))) :: []))
           | XH -> N0 :: ((Npos (XI (XI (XO (XO (XO (XI XH))))))) :: []))
        | XO p1 ->
          (match p1 with
           | XI p2 ->
             (match p2 with
              | XI p3 ->
                (match p3 with
                 | XI p4 ->
                   (match p4 with
                    | XI p5 ->
                      (match p5 with
                       | XO p6 ->
                         (match p6 with
                          | XO p7 ->
                            (match p7 with
                             | XH ->
                               encl
                                 (enc_indices Release (t6_of a)
                                   (arg a (S (S (S (S (S (S O)))))))
                                   (arg a (S (S (S (S (S (S (S O))))))))
                                   (arg a (S (S (S (S (S (S (S (S O))))))))))
                             | _ ->
                               N0 :: ((Npos (XI (XI (XO (XO (XO (XI
                                 XH))))))) :: []))
                          | _ ->
                            N0 :: ((Npos (XI (XI (XO (XO (XO (XI
                              XH))))))) :: []))
                       | _ ->
                         N0 :: ((Npos (XI (XI (XO (XO (XO (XI XH))))))) :: []))
                    | _ ->
                      N0 :: ((Npos (XI (XI (XO (XO (XO (XI XH))))))) :: []))
                 | XO p4 ->
                   (match p4 with
                    | XI p5 ->
                      (match p5 with
                       | XO p6 ->
                         (match p6 with
                          | XO p7 ->
                            (match p7 with
                             | XH ->
                               enc1 (extended_source_block_symbols (arg a O))
                             | _ ->
                               N0 :: ((Npos (XI (XI (XO (XO (XO (XI
                                 XH))))))) :: []))
                          | _ ->
                            N0 :: ((Npos (XI (XI (XO (XO (XO (XI
                              XH))))))) :: []))
                       | _ ->
                         N0 :: ((Npos (XI (XI (XO (XO (XO (XI XH))))))) :: []))
                    | _ ->
                      N0 :: ((Npos (XI (XI (XO (XO (XO (XI XH))))))) :: []))
                 | XH -> N0 :: ((Npos (XI (XI (XO (XO (XO (XI XH))))))) :: []))
              | XO p3 ->
                (match p3 with
                 | XO p4 ->
                   (match p4 with
                    | XO p5 ->
                      (match p5 with
                       | XI p6 ->
                         (match p6 with
                          | XO p7 ->
                            (match p7 with
                             | XH ->
                               enc_oti
                                 (gen_params false Release (arg a O)
                                   (arg a (S O)) (arg a (S (S O))))
                             | _ ->
                               N0 :: ((Npos (XI (XI (XO (XO (XO (XI
                                 XH))))))) :: []))
                          | _ ->
                            N0 :: ((Npos (XI (XI (XO (XO (XO (XI
                              XH))))))) :: []))
                       | _ ->
                         N0 :: ((Npos (XI (XI (XO (XO (XO (XI XH))))))) :: []))
                    | _ ->
                      N0 :: ((Npos (XI (XI (XO (XO (XO (XI XH))))))) :: []))
                 | _ -> N0 :: ((Npos (XI (XI (XO (XO (XO (XI XH))))))) :: []))
              | XH -> N0 :: ((Npos (XI (XI (XO (XO (XO (XI XH))))))) :: []))
           | XO p2 ->
             (match p2 with
              | XI p3 ->
                (match p3 with
                 | XI p4 ->
                   (match p4 with
                    | XI p5 ->
                      (match p5 with
                       | XO p6 ->
                         (match p6 with
                          | XO p7 ->
                            (match p7 with
                             | XH ->
                               enc1 (deg0 Release (arg a O) (arg a (S O)))
                             | _ ->
                               N0 :: ((Npos (XI (XI (XO (XO (XO (XI
                                 XH))))))) :: []))
                          | _ ->
                            N0 :: ((Npos (XI (XI (XO (XO (XO (XI
                              XH))))))) :: []))
                       | _ ->
                         N0 :: ((Npos (XI (XI (XO (XO (XO (XI XH))))))) :: []))
                    | _ ->
                      N0 :: ((Npos (XI (XI (XO (XO (XO (XI XH))))))) :: []))
                 | _ -> N0 :: ((Npos (XI (XI (XO (XO (XO (XI XH))))))) :: []))
              | XO p3 ->
                (match p3 with
                 | XI p4 ->
                   (match p4 with
                    | XI p5 ->
                      (match p5 with
                       | XO p6 ->
                         (match p6 with
                          | XO p7 ->
                            (match p7 with
                             | XH -> enc1 (num_lt_symbols (arg a O))
                             | _ ->
                               N0 :: ((Npos (XI (XI (XO (XO (XO (XI
                                 XH))))))) :: []))
                          | _ ->
                            N0 :: ((Npos (XI (XI (XO (XO (XO (XI
                              XH))))))) :: []))
                       | _ ->
                         N0 :: ((Npos (XI (XI (XO (XO (XO (XI XH))))))) :: []))
                    | _ ->
                      N0 :: ((Npos (XI (XI (XO (XO (XO (XI XH))))))) :: []))
                 | XO p4 ->
                   (match p4 with
                    | XI p5 ->
                      (match p5 with
                       | XI p6 ->
                         (match p6 with
                          | XO p7 ->
                            (match p7 with
                             | XH ->
                               (Npos
                                 XH) :: ((if is_prime (arg a O)
                                          then Npos XH
                                          else N0) :: [])
                             | _ ->
                               N0 :: ((Npos (XI (XI (XO (XO (XO (XI
                                 XH))))))) :: []))
                          | _ ->
                            N0 :: ((Npos (XI (XI (XO (XO (XO (XI
                              XH))))))) :: []))
                       | _ ->
                         N0 :: ((Npos (XI (XI (XO (XO (XO (XI XH))))))) :: []))
                    | XO p5 ->
                      (match p5 with
                       | XI p6 ->
                         (match p6 with
                          | XO p7 ->
                            (match p7 with
                             | XH ->
                               enc_oti
                                 (gen_params true Release (arg a O)
                                   (arg a (S O)) (arg a (S (S O))))
                             | _ ->
                               N0 :: ((Npos (XI (XI (XO (XO (XO (XI
                                 XH))))))) :: []))
                          | _ ->
                            N0 :: ((Npos (XI (XI (XO (XO (XO (XI
                              XH))))))) :: []))
                       | _ ->
                         N0 :: ((Npos (XI (XI (XO (XO (XO (XI XH))))))) :: []))
                    | XH ->
                      N0 :: ((Npos (XI (XI (XO (XO (XO (XI XH))))))) :: []))
                 | XH -> N0 :: ((Npos (XI (XI (XO (XO (XO (XI XH))))))) :: []))
              | XH -> N0 :: ((Npos (XI (XI (XO (XO (XO (XI XH))))))) :: []))
           | XH -> N0 :: ((Npos (XI (XI (XO (XO (XO (XI XH))))))) :: []))
        | XH -> N0 :: ((Npos (XI (XI (XO (XO (XO (XI XH))))))) :: []))
     | XH -> N0 :: ((Npos (XI (XI (XO (XO (XO (XI XH))))))) :: []))

(** val run : n -> n list -> n list **)

let run f a =
  if N.ltb f (Npos (XO (XO (XI (XO (XO (XI XH)))))))
  then run_octet f a
  else if N.ltb f (Npos (XO (XO (XO (XI (XO (XO (XI XH))))))))
       then run_wire f a
       else if N.ltb f (Npos (XO (XO (XI (XI (XO (XI (XO (XO XH)))))))))
            then run_codec f a
            else if N.ltb f (Npos (XO (XO (XO (XO (XI (XO (XO (XI XH)))))))))
                 then run_tuple f a
                 else if N.ltb f (Npos (XO (XO (XI (XO (XI (XI (XI (XI
                           XH)))))))))
                      then run_kern f a
                      else if N.ltb f (Npos (XO (XO (XO (XI (XI (XO (XI (XO
                                (XO XH))))))))))
                           then run_mat f a
                           else N0 :: ((Npos (XI (XI (XO (XO (XO (XI
                                  XH))))))) :: [])
