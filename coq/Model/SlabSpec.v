(* Helper definitions for C09 (replay is GF(256)-linear and column-wise): well-formedness of slabs,
   the slab-level vector-space operations, the byte-column projection, and the index-only "plan" of
   one operation that the proofs factor perform_op through.  DEFINITIONS ONLY. *)
From Coq Require Import NArith List Bool.
From RQ Require Import Base.Outcome Base.Ints Model.Octet Model.Slab.
Import ListNotations.
Open Scope N_scope.
Open Scope outcome_scope.

(* ---- outcomes ---- *)

(* binary lift; a panic on either side is a panic (left one first) *)
Definition omap2 {A B C} (f : A -> B -> C) (x : outcome A) (y : outcome B) : outcome C :=
  match x, y with
  | Ok a, Ok b => Ok (f a b)
  | Panic c, _ => Panic c
  | Ok _, Panic c => Panic c
  end.

(* both succeed with related values, or both panic with the same class *)
Definition outcome_rel {A B} (R : A -> B -> Prop) (x : outcome A) (y : outcome B) : Prop :=
  match x, y with
  | Ok a, Ok b => R a b
  | Panic c, Panic d => c = d
  | _, _ => False
  end.

(* ---- well-formedness ---- *)

Definition bytes_ok (v : list N) : Prop := Forall (fun b => b < 256) v.

(* a physical symbol of a slab with symbol size ss *)
Definition sym_wf (ss : nat) (v : list N) : Prop := length v = ss /\ bytes_ok v.

Definition slab_wf (s : slab) : Prop := Forall (sym_wf (sl_ss s)) (sl_data s).

(* scalars carried by the operations are octets *)
Definition op_wf (o : symbol_op) : Prop :=
  match o with
  | SMul _ c => c < 256
  | SFMA _ _ c => c < 256
  | SAdd _ _ => True
  | SReorder _ => True
  end.
Definition ops_wf (ops : list symbol_op) : Prop := Forall op_wf ops.

(* an invariant P on every physical symbol *)
Definition data_inv (P : list N -> Prop) (s : slab) : Prop := Forall P (sl_data s).

(* ---- shapes ---- *)

(* what the panic behaviour of replay depends on: number of symbols and the mapping *)
Definition same_index (s1 s2 : slab) : Prop :=
  slab_count s1 = slab_count s2 /\ sl_map s1 = sl_map s2.

Definition same_shape (s1 s2 : slab) : Prop :=
  slab_count s1 = slab_count s2 /\ sl_ss s1 = sl_ss s2 /\ sl_map s1 = sl_map s2.

(* ---- vector-space structure on slabs (physical data pointwise, same mapping) ---- *)

Definition slab_xor (s1 s2 : slab) : slab :=
  mkSlab (map2 bytes_add (sl_data s1) (sl_data s2)) (sl_ss s1) (sl_map s1).

Definition slab_scale (c : N) (s : slab) : slab :=
  mkSlab (map (bytes_mul c) (sl_data s)) (sl_ss s) (sl_map s).

(* byte column j of a symbol, as a one-byte symbol (no default: empty if j is out of range) *)
Definition col (j : nat) (v : list N) : list N := firstn 1 (skipn j v).

Definition slab_column (j : nat) (s : slab) : slab :=
  mkSlab (map (col j) (sl_data s)) 1%nat (sl_map s).

(* the same three on a list of symbols read out of a slab *)
Definition syms_xor (l1 l2 : list (list N)) : list (list N) := map2 bytes_add l1 l2.
Definition syms_scale (c : N) (l : list (list N)) : list (list N) := map (bytes_mul c) l.
Definition syms_column (j : nat) (l : list (list N)) : list (list N) := map (col j) l.

(* generic data morphism (slab_scale / slab_column are instances, by reflexivity) *)
Definition slab_map (phi : list N -> list N) (fss : nat -> nat) (s : slab) : slab :=
  mkSlab (map phi (sl_data s)) (fss (sl_ss s)) (sl_map s).

(* ---- index plan of one operation: everything perform_op decides WITHOUT looking at bytes ---- *)

Definition phys_of (mp : option (list N)) (i : N) : outcome N :=
  match mp with
  | None => Ok i
  | Some m => nth_ok m (N.to_nat i)
  end.

Definition pair_idx (cnt : nat) (mp : option (list N)) (dest src : N) : outcome (N * N) :=
  pd <- phys_of mp dest ;;
  ps <- phys_of mp src ;;
  if pd =? ps then Panic PAssert
  else if negb (Nat.ltb (N.to_nat pd) cnt) then Panic PAssert
  else if negb (Nat.ltb (N.to_nat ps) cnt) then Panic PAssert
  else Ok (pd, ps).

(* physical (dest, src) of an operation, or its panic; (0,0) placeholder for Reorder *)
Definition op_idx (m : mode) (cnt : nat) (mp : option (list N)) (o : symbol_op) : outcome (N * N) :=
  match o with
  | SAdd d r => pair_idx cnt mp d r
  | SMul d _ => p <- phys_of mp d ;; if Nat.ltb (N.to_nat p) cnt then Ok (p, p) else Panic PIndex
  | SFMA d r c =>
      '(pd, ps) <- pair_idx cnt mp d r ;;
      match m with
      | Checked => if (c =? 0) || (c =? 1) then Panic PAssert else Ok (pd, ps)
      | Release => Ok (pd, ps)
      end
  | SReorder _ => Ok (0, 0)
  end.

Definition idx_ok (o : symbol_op) (cnt : nat) (pd ps : N) : Prop :=
  match o with
  | SReorder _ => True
  | _ => (N.to_nat pd < cnt)%nat /\ (N.to_nat ps < cnt)%nat
  end.

(* the byte kernel of an operation: new dest symbol from old dest symbol a and src symbol b *)
Definition op_kernel (o : symbol_op) (a b : list N) : list N :=
  match o with
  | SAdd _ _ => bytes_add a b
  | SMul _ c => bytes_mul c a
  | SFMA _ _ c => bytes_fma c a b
  | SReorder _ => a
  end.

(* effect of an operation once its physical indices are known (in range) *)
Definition step (o : symbol_op) (s : slab) (pd ps : N) : slab :=
  match o with
  | SReorder ord => slab_set_reorder s ord
  | _ => slab_put s pd (op_kernel o (nth (N.to_nat pd) (sl_data s) []) (nth (N.to_nat ps) (sl_data s) []))
  end.
