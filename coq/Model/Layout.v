(* Model of the object / block / sub-block layout code of the crate, function by function:
   src/util.rs int_div_ceil, src/base.rs partition, src/encoder.rs calculate_block_offsets,
   Encoder::new (block cutting and zero padding), SourceBlockEncoder::create_symbols,
   source_packets; src/decoder.rs Decoder::new + SourceBlockDecoder::new (block sizing),
   unpack_sub_blocks, "Case 2" of SourceBlockDecoder::decode, Decoder::decode / get_result.
   DEFINITIONS ONLY.  usize is taken to be 64 bits; every usize / u64 sum and product below is
   bounded by Kt * T < 2^48 (Proofs/LayoutProofs.v, [layout_usize_range]) so plain N arithmetic is
   used for them.  The record [cfg] = (F, T, Z, N, Al) is shared with Spec/Layout.v. *)
From Coq Require Import NArith List Bool.
From RQ Require Import Base.Outcome Base.Ints Base.ListX Spec.Layout.
Import ListNotations.
Open Scope N_scope.
Open Scope outcome_scope.

Definition lenN {A} (l : list A) : N := N.of_nat (length l).

(* &l[a..b] : panics unless a <= b <= len *)
Definition slice (l : list N) (a b : N) : outcome (list N) :=
  if (a <=? b) && (b <=? lenN l)
  then Ok (firstn (N.to_nat (b - a)) (skipn (N.to_nat a) l))
  else Panic PIndex.

(* &l[a..] : panics unless a <= len *)
Definition slice_from (l : list N) (a : N) : outcome (list N) :=
  if a <=? lenN l then Ok (skipn (N.to_nat a) l) else Panic PIndex.

(* dst[a..a + src.len()].copy_from_slice(src) as a functional update *)
Definition write_slice (dst : list N) (a : N) (src : list N) : outcome (list N) :=
  if a + lenN src <=? lenN dst
  then Ok (firstn (N.to_nat a) dst ++ src ++ skipn (N.to_nat (a + lenN src)) dst)
  else Panic PIndex.

Fixpoint enumerate_from {A} (i : N) (l : list A) : list (N * A) :=
  match l with
  | [] => []
  | a :: t => (i, a) :: enumerate_from (i + 1) t
  end.

(* util.rs: int_div_ceil(num: u64, denom: u64) -> u32; the result is NARROWED to u32.
   (num / denom + 1 cannot overflow u64: it is only taken when denom >= 2.) *)
Definition int_div_ceil (num denom : N) : outcome N :=
  if denom =? 0 then Panic PDivZero
  else if num mod denom =? 0 then Ok (u32 (num / denom))
  else Ok (u32 (num / denom + 1)).

(* base.rs: partition(i, j) over u32.  is * j <= i, jl = i mod j <= j and il <= i, so none of
   the u32 operations can wrap ([partition_u32_range]). *)
Definition partition (i j : N) : outcome (N * N * N * N) :=
  il <- int_div_ceil i j ;;
  is_ <- div_ok i j ;;
  let jl := i - is_ * j in
  let js := j - jl in
  Ok (il, is_, jl, js).

(* the two push loops of calculate_block_offsets; [chk] is the assert of the zs loop *)
Fixpoint push_blocks (n : nat) (offset : N) (chk : N -> outcome unit) (data_index : N)
  : outcome (list (N * N) * N) :=
  match n with
  | O => Ok ([], data_index)
  | S n' =>
      chk (data_index + offset) ;;;
      ' (rest, last) <- push_blocks n' offset chk (data_index + offset) ;;
      Ok ((data_index, data_index + offset) :: rest, last)
  end.

(* encoder.rs: calculate_block_offsets(data, config); only data.len() is used *)
Definition calculate_block_offsets (F T Z : N) (datalen : N) : outcome (list (N * N)) :=
  kt <- int_div_ceil F T ;;
  ' (kl, ks, zl, zs) <- partition kt Z ;;
  ' (b1, idx1) <- push_blocks (N.to_nat zl) (kl * T) (fun _ => Ok tt) 0 ;;
  ' (b2, _) <- push_blocks (N.to_nat zs) (ks * T)
                 (fun e => if datalen <? e then assert_ok (datalen <? kt * T) else Ok tt) idx1 ;;
  Ok (b1 ++ b2).

(* Encoder::new, the block handed to the block encoder for one (start, end) *)
Definition encoder_block (data : list N) (se : N * N) : outcome (list N) :=
  let '(s, e) := se in
  if lenN data <? e
  then d <- slice_from data s ;; Ok (d ++ repeat 0 (N.to_nat (e - lenN data)))
  else slice data s e.

Definition encoder_blocks (c : cfg) (data : list N) : outcome (list (list N)) :=
  offs <- calculate_block_offsets (cF c) (cT c) (cZ c) (lenN data) ;;
  omapM (encoder_block data) offs.

(* inner loop of create_symbols: for symbol in &mut symbols { extend(data[offset..offset+bytes]) } *)
Fixpoint extend_symbols (data : list N) (bytes : N) (symbols : list (list N)) (offset : N)
  : outcome (list (list N) * N) :=
  match symbols with
  | [] => Ok ([], offset)
  | s :: rest =>
      sl <- slice data offset (offset + bytes) ;;
      ' (rest', off') <- extend_symbols data bytes rest (offset + bytes) ;;
      Ok ((s ++ sl) :: rest', off')
  end.

(* outer loop: for sub_block in 0..(nl + ns) *)
Fixpoint sub_block_loop (data : list N) (tl ts nl al : N) (sbs : list N)
         (symbols : list (list N)) (offset : N) : outcome (list (list N) * N) :=
  match sbs with
  | [] => Ok (symbols, offset)
  | sb :: rest =>
      let bytes := if sb <? nl then tl * al else ts * al in
      ' (symbols', offset') <- extend_symbols data bytes symbols offset ;;
      sub_block_loop data tl ts nl al rest symbols' offset'
  end.

(* data.chunks(t), t > 0 : ceil(len / t) pieces, the last one possibly shorter *)
Definition chunks (t : N) (l : list N) : list (list N) :=
  map (fun k => firstn (N.to_nat t) (skipn (N.to_nat (k * t)) l))
      (rangeN (N.to_nat (ceil_div (lenN l) t))).

(* SourceBlockEncoder::create_symbols(config, data) *)
Definition create_symbols (c : cfg) (data : list N) : outcome (list (list N)) :=
  r <- rem_ok (lenN data) (cT c) ;;
  assert_ok (r =? 0) ;;;
  if 1 <? cN c then
    nsym <- div_ok (lenN data) (cT c) ;;
    q <- div_ok (cT c) (cAl c) ;;
    ' (tl, ts, nl, ns) <- partition q (cN c) ;;
    ' (symbols, offset) <- sub_block_loop data tl ts nl (cAl c) (rangeN (N.to_nat (nl + ns)))
                             (repeat [] (N.to_nat nsym)) 0 ;;
    assert_ok (offset =? lenN data) ;;;
    Ok symbols
  else Ok (chunks (cT c) data).

(* PayloadId::new(sbn, esi) : assert!(esi < 2^24) *)
Definition payload_id_new (sbn esi : N) : outcome (N * N) :=
  assert_ok (esi <? 16777216) ;;; Ok (sbn, esi).

(* SourceBlockEncoder::source_packets : (PayloadId(sbn, i as u32), symbol i) for i in 0..len *)
Definition source_packets (sbn : N) (symbols : list (list N)) : outcome (list ((N * N) * list N)) :=
  omapM (fun im => id <- payload_id_new sbn (u32 (fst im)) ;; Ok (id, snd im))
        (enumerate_from 0 symbols).

(* Encoder::new restricted to the layout: per block, cut / pad, then create_symbols with the
   block index `as u8` (plan generation and intermediate symbols are not part of the layout) *)
Definition encoder_new (c : cfg) (data : list N) : outcome (list (N * list (list N))) :=
  offs <- calculate_block_offsets (cF c) (cT c) (cZ c) (lenN data) ;;
  omapM (fun ise => b <- encoder_block data (snd ise) ;;
                    syms <- create_symbols c b ;;
                    Ok (u8 (fst ise), syms))
        (enumerate_from 0 offs).

(* Encoder::new followed by source_packets() of every block encoder, in block order *)
Definition source_packets_of_object (c : cfg) (data : list N) : outcome (list ((N * N) * list N)) :=
  encs <- encoder_new c data ;;
  pk <- omapM (fun e => source_packets (fst e) (snd e)) encs ;;
  Ok (concat pk).

(* Decoder::new + SourceBlockDecoder::new: source_block_symbols of every block decoder *)
Definition decoder_block_sizes (c : cfg) : outcome (list N) :=
  kt <- int_div_ceil (cF c) (cT c) ;;
  ' (kl, ks, zl, zs) <- partition kt (cZ c) ;;
  l1 <- omapM (fun _ => int_div_ceil (kl * cT c) (cT c)) (rangeN (N.to_nat zl)) ;;
  l2 <- omapM (fun _ => int_div_ceil (ks * cT c) (cT c)) (rangeN (N.to_nat zs)) ;;
  Ok (l1 ++ l2).

(* loop of unpack_sub_blocks; K = self.source_block_symbols *)
Fixpoint unpack_loop (tl ts nl al K : N) (symbol : list N) (symbol_index : N) (sbs : list N)
         (result : list N) (symbol_offset sub_block_offset : N) : outcome (list N) :=
  match sbs with
  | [] => Ok result
  | sb :: rest =>
      let bytes := if sb <? nl then tl * al else ts * al in
      let start := sub_block_offset + bytes * symbol_index in
      src <- slice symbol symbol_offset (symbol_offset + bytes) ;;
      result' <- write_slice result start src ;;
      unpack_loop tl ts nl al K symbol symbol_index rest result'
                  (symbol_offset + bytes) (sub_block_offset + bytes * K)
  end.

(* SourceBlockDecoder::unpack_sub_blocks(&self, result, symbol, symbol_index) *)
Definition unpack_sub_blocks (c : cfg) (K : N) (result symbol : list N) (symbol_index : N)
  : outcome (list N) :=
  q <- div_ok (cT c) (cAl c) ;;
  ' (tl, ts, nl, ns) <- partition q (cN c) ;;
  unpack_loop tl ts nl (cAl c) K symbol symbol_index (rangeN (N.to_nat (nl + ns))) result 0 0.

Fixpoint unpack_all (c : cfg) (K : N) (isyms : list (N * list N)) (result : list N)
  : outcome (list N) :=
  match isyms with
  | [] => Ok result
  | (i, s) :: rest => r' <- unpack_sub_blocks c K result s i ;; unpack_all c K rest r'
  end.

(* "Case 2" of SourceBlockDecoder::decode: all K source symbols present *)
Definition block_from_all_source (c : cfg) (K : N) (symbols : list (list N)) : outcome (list N) :=
  unpack_all c K (enumerate_from 0 symbols) (repeat 0 (N.to_nat (cT c * K))).

(* Decoder::decode / get_result once every block is present *)
Definition reassemble (c : cfg) (blocks : list (list N)) : list N :=
  firstn (N.to_nat (cF c)) (concat blocks).
