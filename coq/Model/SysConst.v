(* Model of the look-up functions at the end of src/systematic_constants.rs.
   Each Rust function is `assert!(K <= MAX_SOURCE_SYMBOLS_PER_BLOCK)` followed by a linear scan
   `for &(block_size, ..) in TABLE.iter() { if block_size >= K { return field; } } unreachable!()`.
   The six scans differ only in the table and in the field returned, so one Gallina scan
   (`scan_tab key sel`) is instantiated six times.
   Arguments and results are u32.  `num_intermediate_symbols` adds three u32 and `num_pi_symbols`
   subtracts two: Proofs/SysConstProofs.v (`row_facts`) shows for every row of the regenerated table
   that K'+S+H < 65536 and W <= K'+S, so neither can overflow / underflow in any build mode and
   plain N operations are used. *)
From Coq Require Import NArith List Bool.
From RQ Require Import Base.Outcome Base.Ints Gen.Consts Gen.SysTables.
Import ListNotations.
Open Scope N_scope.
Open Scope outcome_scope.

Notation row5 := (N * N * N * N * N)%type.
Definition r_k (r : row5) : N := let '(k, _, _, _, _) := r in k.
Definition r_j (r : row5) : N := let '(_, j, _, _, _) := r in j.
Definition r_s (r : row5) : N := let '(_, _, s, _, _) := r in s.
Definition r_h (r : row5) : N := let '(_, _, _, h, _) := r in h.
Definition r_w (r : row5) : N := let '(_, _, _, _, w) := r in w.

(* for &row in table.iter() { if key(row) >= K { return sel(row); } } unreachable!() *)
Fixpoint scan_tab {R : Type} (key sel : R -> N) (K : N) (l : list R) : outcome N :=
  match l with
  | [] => Panic PUnreachable
  | r :: t => if K <=? key r then Ok (sel r) else scan_tab key sel K t
  end.

Definition lookup5 (sel : row5 -> N) (K : N) : outcome N :=
  if K <=? MAX_SOURCE_SYMBOLS_PER_BLOCK then scan_tab r_k sel K TABLE2 else Panic PAssert.

Definition extended_source_block_symbols (K : N) : outcome N := lookup5 r_k K.
Definition systematic_index (K : N) : outcome N := lookup5 r_j K.
Definition num_hdpc_symbols (K : N) : outcome N := lookup5 r_h K.
Definition num_ldpc_symbols (K : N) : outcome N := lookup5 r_s K.
Definition num_lt_symbols (K : N) : outcome N := lookup5 r_w K.

(* extended_source_block_symbols(K) + num_ldpc_symbols(K) + num_hdpc_symbols(K) *)
Definition num_intermediate_symbols (K : N) : outcome N :=
  k' <- extended_source_block_symbols K ;;
  s <- num_ldpc_symbols K ;;
  h <- num_hdpc_symbols K ;;
  Ok (k' + s + h).

(* num_intermediate_symbols(K) - num_lt_symbols(K) *)
Definition num_pi_symbols (K : N) : outcome N :=
  l <- num_intermediate_symbols K ;;
  w <- num_lt_symbols K ;;
  Ok (l - w).

Definition calculate_p1 (K : N) : outcome N :=
  if K <=? MAX_SOURCE_SYMBOLS_PER_BLOCK then scan_tab (@fst N N) (@snd N N) K P1_TABLE
  else Panic PAssert.
