(* Specification vocabulary for the decoder model (Model/Decoder.v): what a state stands for
   (the set of received (ESI, payload) pairs), which packet histories are consistent, the ISI list
   and the constraint matrix the decoder builds in Case 3, and the invariant of the packet loop.
   DEFINITIONS ONLY; the theorems are in Proofs/Decoder*.v and Props/C08.v, Props/C02.v. *)
From Coq Require Import NArith List Bool Permutation.
From RQ Require Import Base.Outcome Base.Ints Base.ListX Spec.Linear Spec.Layout
  Model.FieldFast Model.SysConst Model.Tuple Model.CMatrix Model.Layout Model.Decoder.
Import ListNotations.
Open Scope N_scope.
Open Scope outcome_scope.

(* ---- packets ---- *)
Notation packet := ((N * N) * list N)%type.
Definition pkt_sbn (p : packet) : N := fst (fst p).
Definition pkt_esi (p : packet) : N := snd (fst p).
Definition pkt_data (p : packet) : list N := snd p.

(* the set of (ESI, payload) pairs of a history, as a list read up to [same_set] *)
Definition pset (pkts : list packet) : list (N * list N) :=
  map (fun p => (pkt_esi p, pkt_data p)) pkts.

Definition same_set {A} (l1 l2 : list A) : Prop := forall x, In x l1 <-> In x l2.

(* a consistent history for block [id] with symbol size [T]: every packet addresses the block,
   a packet id always carries the same payload, payloads are T bytes, ESIs fit the 24-bit field
   of the payload id (an ESI below K is a source symbol, by definition of the format) *)
Definition consistent (id : N) (T : nat) (pkts : list packet) : Prop :=
  (forall p, In p pkts -> pkt_sbn p = id) /\
  (forall p q, In p pkts -> In q pkts -> pkt_esi p = pkt_esi q -> pkt_data p = pkt_data q) /\
  (forall p, In p pkts -> length (pkt_data p) = T) /\
  (forall p, In p pkts -> pkt_esi p < 2 ^ 24).

(* the packet loop of SourceBlockDecoder::decode *)
Definition sbd_run (m : mode) (d : sb_decoder) (pkts : list packet) : outcome sb_decoder :=
  ofold (fun p d => sbd_add m d p) pkts d.

(* ---- abstraction: the received (ESI, payload) pairs ---- *)
Definition abs (d : sb_decoder) : list (N * list N) := present_sources d ++ sbd_rep d.

Definition count_some {A} (l : list (option A)) : nat :=
  length (filter (fun o => match o with Some _ => true | None => false end) l).

(* the invariant of the packet loop (C08_inv) *)
Record sbd_inv (d : sb_decoder) : Prop := mkInv {
  inv_len : length (sbd_src d) = N.to_nat (sbd_K d);
  inv_nsrc : sbd_nsrc d = N.of_nat (count_some (sbd_src d));
  inv_esis_nodup : NoDup (sbd_esis d);
  inv_esis : forall e, In e (sbd_esis d) <->
                       In e (map fst (present_sources d) ++ map fst (sbd_rep d));
  inv_rep_nodup : NoDup (map fst (sbd_rep d));
  inv_rep_ge : forall e, In e (map fst (sbd_rep d)) -> sbd_K d <= e;
  inv_K : sbd_K d < 2 ^ 32
}.

(* d was reached from a fresh block decoder by the consistent history pkts *)
Definition reached (m : mode) (d : sb_decoder) (pkts : list packet) : Prop :=
  exists id c bl d0,
    sbd_new id c bl = Ok d0 /\ consistent id (N.to_nat (cT c)) pkts /\ sbd_run m d0 pkts = Ok d.

(* two states that received the same set of packets (C08_set_determined) *)
Definition sbd_equiv (d1 d2 : sb_decoder) : Prop :=
  sbd_id d1 = sbd_id d2 /\ sbd_cfg d1 = sbd_cfg d2 /\ sbd_K d1 = sbd_K d2 /\
  sbd_src d1 = sbd_src d2 /\ sbd_nsrc d1 = sbd_nsrc d2 /\
  same_set (sbd_esis d1) (sbd_esis d2) /\ Permutation (sbd_rep d1) (sbd_rep d2).

(* the state with the [decoded] flag forgotten (sbd_try changes nothing else) *)
Definition sbd_core (d : sb_decoder) : sb_decoder :=
  mkSBD (sbd_id d) (sbd_cfg d) (sbd_K d) (sbd_src d) (sbd_rep d) (sbd_nsrc d) (sbd_esis d) false.

(* ---- Case 3: the ISI list and the constraint matrix ---- *)
Definition Kp_of (d : sb_decoder) : N :=
  match extended_source_block_symbols (sbd_K d) with Ok Kp => Kp | Panic _ => sbd_K d end.

Definition npad_of (d : sb_decoder) : N := Kp_of d - sbd_K d.

Definition isis_of (d : sb_decoder) : list N :=
  map fst (present_sources d) ++
  map (fun i => sbd_K d + i) (rangeN (N.to_nat (npad_of d))) ++
  map (fun r => fst r + npad_of d) (sbd_rep d).

(* number of intermediate symbols L of the block (0 when K is out of range) *)
Definition L_of (d : sb_decoder) : nat :=
  match sys_params (sbd_K d) with Ok sp => N.to_nat (spL sp) | Panic _ => 0%nat end.

(* the full constraint matrix of Case 3b ([] when the generator panics) *)
Definition A_of (m : mode) (d : sb_decoder) : list (list N) :=
  match sys_params (sbd_K d), generate_constraint_matrix m (sbd_K d) (isis_of d) with
  | Ok sp, Ok (bin, hdpc) => full_matrix (spS sp) (spH sp) bin hdpc
  | _, _ => []
  end.

(* the matrix of the binary-only fast path, Case 3a *)
Definition A3a_of (m : mode) (d : sb_decoder) : list (list N) :=
  match generate_constraint_matrix_no_hdpc m (sbd_K d) (isis_of d) with
  | Ok A => A
  | Panic _ => []
  end.

(* all source symbols have arrived *)
Definition all_source (d : sb_decoder) : Prop :=
  Forall (fun o : option (list N) => o <> None) (sbd_src d).

(* the payloads held by a state are symbols of T bytes and its ESIs fit 24 bits *)
Definition sized (d : sb_decoder) : Prop :=
  Forall (fun x : N * list N => length (snd x) = N.to_nat (cT (sbd_cfg d)) /\ fst x < 2 ^ 24) (abs d).

(* the part of the transfer configuration unpack_sub_blocks relies on (OTI ranges) *)
Definition cfg_sub_ok (c : cfg) : Prop :=
  1 <= cAl c /\ 1 <= cN c /\ cN c < 2 ^ 16 /\ cT c < 2 ^ 16.

(* ---- rows of the constraint matrix, one per ISI (used to state the structure lemmas) ---- *)
Definition enc_row (m : mode) (W P P1 J : N) (L : nat) (isi : N) : outcome (list N) :=
  t <- intermediate_tuple_gen true m isi W J P1 ;;
  idx <- enc_indices m t W P P1 ;;
  ofold (fun j row => list_put row (N.to_nat j) 1) idx (repeat 0 L).

Definition ldpc_rows (S W P : N) (L : nat) : outcome (list (list N)) :=
  set_ldpc S (W - S) W P (zero_matrix (N.to_nat S) L).

(* ---- Decoder level ---- *)
Definition dec_run (m : mode) (d : decoder) (pkts : list packet) : outcome decoder :=
  ofold (fun p d => dec_add m d p) pkts d.

(* boolean check of [consistent] for concrete histories (examples) *)
Definition consistentb (id : N) (T : nat) (pkts : list packet) : bool :=
  forallb (fun p => (pkt_sbn p =? id) && Nat.eqb (length (pkt_data p)) T && (pkt_esi p <? 2 ^ 24)) pkts &&
  forallb (fun p => forallb (fun q => negb (pkt_esi p =? pkt_esi q) || vec_eqb (pkt_data p) (pkt_data q)) pkts) pkts.
