(* Model of ObjectTransmissionInformation::generate_encoding_parameters / with_defaults (src/base.rs)
   and util::int_div_ceil (src/util.rs), statement by statement and cast by cast.

   fixed = false : the pinned code (u64 quotient narrowed with `as u32` in the closure `kl`,
                   `unreachable!()` when no K' fits).
   fixed = true  : the repaired code (comparison in u64, `kl` returns 0 when no K' fits).

   Widening casts (`as u64` of a u16/u32 value, `as u32` of a u16 value) preserve the value and are
   not written; narrowing casts are (`u32`, `u16`, `u8`).  Arithmetic on fixed-width types goes
   through add_w / mul_w / sub_w so that the overflow-checked build is covered (mode). *)
From Coq Require Import NArith List Bool.
From RQ Require Import Base.Outcome Base.Ints Base.ListX Gen.SysTables Gen.Consts.
Import ListNotations.
Open Scope N_scope.
Open Scope outcome_scope.

(* pub fn int_div_ceil(num: u64, denom: u64) -> u32
     if num.is_multiple_of(denom) { (num / denom) as u32 } else { (num / denom + 1) as u32 }
   `is_multiple_of(0)` does not panic, but either branch then divides by zero. *)
Definition int_div_ceil (m : mode) (num denom : N) : outcome N :=
  if denom =? 0 then Panic PDivZero
  else if num mod denom =? 0 then Ok (u32 (num / denom))
  else s <- add_w m 64 (num / denom) 1 ;; Ok (u32 s).

(* the closure `kl`: for &(kprime, ..) in TABLE.iter().rev() { let x = ..; if kprime <= .. { return kprime } }
   rows = the rows still to visit *)
Fixpoint kl_scan (fixed : bool) (m : mode) (symbol_size alignment n WS : N)
         (rows : list (N * N * N * N * N)) : outcome N :=
  match rows with
  | [] => if fixed then Ok 0 else Panic PUnreachable
  | (kprime, _, _, _, _) :: rest =>
      d <- mul_w m 64 alignment n ;;                  (* alignment as u64 * n as u64 *)
      x <- int_div_ceil m symbol_size d ;;            (* x : u32 *)
      d2 <- mul_w m 64 alignment x ;;                 (* alignment as u64 * x as u64 *)
      q <- div_ok WS d2 ;;                            (* decoder_memory_requirement / .. : u64 *)
      if (if fixed then kprime <=? q else kprime <=? u32 q)
      then Ok kprime
      else kl_scan fixed m symbol_size alignment n WS rest
  end.

Definition kl (fixed : bool) (m : mode) (symbol_size alignment n WS : N) : outcome N :=
  kl_scan fixed m symbol_size alignment n WS (rev TABLE2).

(* let mut n = 1; for i in 1..=n_max { n = i; if int_div_ceil(kt, num_source_blocks) <= kl(n) { break; } }
   cnt = iterations left, i = the next loop value, n = the current value of the variable n *)
Fixpoint nsearch (fixed : bool) (m : mode) (symbol_size alignment WS kt nsb : N)
         (cnt : nat) (i n : N) : outcome N :=
  match cnt with
  | O => Ok n
  | S c =>
      lhs <- int_div_ceil m kt nsb ;;
      k <- kl fixed m symbol_size alignment i WS ;;
      if lhs <=? k then Ok i
      else nsearch fixed m symbol_size alignment WS kt nsb c (i + 1) i
  end.

(* the body after the choice of (alignment, sub_symbol_size); both are u16 *)
Definition gen_params_body (fixed : bool) (m : mode) (F mtu WS alignment sub_symbol_size : N)
  : outcome (N * N * N * N * N) :=
  assert_ok (alignment <=? mtu) ;;;                          (* assert!(max_packet_size >= alignment) *)
  r <- rem_ok mtu alignment ;;
  symbol_size <- sub_w m 16 mtu r ;;                         (* u16 *)
  kt <- int_div_ceil m F symbol_size ;;                      (* u32 *)
  sa <- mul_w m 16 sub_symbol_size alignment ;;              (* u16 product, then `as u32` *)
  n_max <- div_ok symbol_size sa ;;                          (* u32 *)
  klmax <- kl fixed m symbol_size alignment n_max WS ;;
  nsb <- int_div_ceil m kt klmax ;;                          (* num_source_blocks : u32 *)
  n <- nsearch fixed m symbol_size alignment WS kt nsb (N.to_nat n_max) 1 1 ;;
  Ok (F, symbol_size, u8 nsb, u16 n, u8 alignment).

(* (transfer_length, symbol_size, num_source_blocks, num_sub_blocks, symbol_alignment) *)
Definition gen_params (fixed : bool) (m : mode) (F mtu WS : N) : outcome (N * N * N * N * N) :=
  let '(alignment, sub_symbol_size) := if 8 * 8 <=? mtu then (8, 8) else (1, 1) in
  gen_params_body fixed m F mtu WS alignment sub_symbol_size.

Definition with_defaults (fixed : bool) (m : mode) (F mtu : N) : outcome (N * N * N * N * N) :=
  gen_params fixed m F mtu DEFAULT_MEMORY.
