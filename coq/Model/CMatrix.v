(* Model of src/constraint_matrix.rs: generate_constraint_matrix, generate_constraint_matrix_no_hdpc,
   generate_hdpc_rows (the right-to-left recursion), over a plain list-of-rows matrix.  The binary
   matrix back-ends (dense / sparse) are abstracted to "a matrix whose `set` stores a bit"
   (C16 shows both back-ends implement that). *)
From Coq Require Import NArith List Bool.
From RQ Require Import Base.Outcome Base.Ints Base.ListX Model.Octet Model.SysConst Model.Tuple.
Import ListNotations.
Open Scope N_scope.
Open Scope outcome_scope.

Definition zero_matrix (h w : nat) : list (list N) := repeat (repeat 0 w) h.

Fixpoint list_upd {A} (l : list A) (i : nat) (f : A -> A) : outcome (list A) :=
  match l, i with
  | [], _ => Panic PIndex
  | x :: t, O => Ok (f x :: t)
  | x :: t, S j => t' <- list_upd t j f ;; Ok (x :: t')
  end.

Fixpoint list_put {A} (l : list A) (i : nat) (v : A) : outcome (list A) :=
  match l, i with
  | [], _ => Panic PIndex
  | _ :: t, O => Ok (v :: t)
  | x :: t, S j => t' <- list_put t j v ;; Ok (x :: t')
  end.

(* matrix.set(i, j, v) *)
Definition mset (mat : list (list N)) (i j v : N) : outcome (list (list N)) :=
  row <- nth_ok mat (N.to_nat i) ;;
  row' <- list_put row (N.to_nat j) v ;;
  list_put mat (N.to_nat i) row'.

(* fold a state through the indices 0..n-1 *)
Fixpoint ofor {St} (n : nat) (i : N) (f : N -> St -> outcome St) (s : St) : outcome St :=
  match n with
  | O => Ok s
  | S k => s' <- f i s ;; ofor k (i + 1) f s'
  end.

Fixpoint ofold {A St} (f : A -> St -> outcome St) (l : list A) (s : St) : outcome St :=
  match l with
  | [] => Ok s
  | a :: t => s' <- f a s ;; ofold f t s'
  end.

(* G_LDPC,1 ; I_S ; G_LDPC,2 -- shared by both generators *)
Definition set_ldpc (S B W P : N) (mat : list (list N)) : outcome (list (list N)) :=
  mat <- ofor (N.to_nat B) 0 (fun i mat =>
           a <- (d <- div_ok i S ;; Ok (1 + d)) ;;
           b <- rem_ok i S ;;
           mat <- mset mat b i 1 ;;
           b <- rem_ok (b + a) S ;;
           mat <- mset mat b i 1 ;;
           b <- rem_ok (b + a) S ;;
           mset mat b i 1) mat ;;
  mat <- ofor (N.to_nat S) 0 (fun i mat => mset mat i (i + B) 1) mat ;;
  ofor (N.to_nat S) 0 (fun i mat =>
           c1 <- rem_ok i P ;;
           mat <- mset mat i (c1 + W) 1 ;;
           c2 <- rem_ok (i + 1) P ;;
           mset mat i (c2 + W) 1) mat.

(* G_ENC rows starting at row `first` *)
Definition set_enc (m : mode) (first W P P1 J : N) (isis : list N) (mat : list (list N))
  : outcome (list (list N)) :=
  r <- ofold (fun isi (st : N * list (list N)) =>
         let '(row, mat) := st in
         t <- intermediate_tuple_gen true m isi W J P1 ;;
         idx <- enc_indices m t W P P1 ;;
         mat <- ofold (fun j mat => mset mat (row + first) j 1) idx mat ;;
         Ok (row + 1, mat)) isis (0, mat) ;;
  Ok (snd r).

(* fn generate_hdpc_rows(Kprime, S, H) -> DenseOctetMatrix, as the H rows of width Kprime+S+H *)
Definition hdpc_step (m : mode) (H : N) (j : N) (next : list N) : outcome (list N) :=
  al <- oct_alpha 1 ;;
  col <- omapM (fun x => oct_mul al x) next ;;
  rand6 <- rand_gen true m (j + 1) 6 H ;;
  hm1 <- sub_w m 64 H 1 ;;
  rand7 <- rand_gen true m (j + 1) 7 hm1 ;;
  let i1 := rand6 in
  i2 <- rem_ok (rand6 + rand7 + 1) H ;;
  col <- list_upd col (N.to_nat i1) (fun v => N.lxor v 1) ;;
  list_upd col (N.to_nat i2) (fun v => N.lxor v 1).

(* columns n-1 downto 0; returns the list of columns in increasing column order *)
Fixpoint hdpc_cols (m : mode) (H : N) (n : nat) (j : N) (next : list N) (acc : list (list N))
  : outcome (list (list N)) :=
  match n with
  | O => Ok acc
  | S k =>
      col <- hdpc_step m H j next ;;
      hdpc_cols m H k (j - 1) col (col :: acc)
  end.

Fixpoint transpose_cols (h : nat) (cols : list (list N)) : list (list N) :=
  match h with
  | O => []
  | S k => map (fun c => hd 0 c) cols :: transpose_cols k (map (fun c => tl c) cols)
  end.

Definition generate_hdpc_rows (m : mode) (Kp S H : N) : outcome (list (list N)) :=
  let n := Kp + S in
  last_col <- omapM oct_alpha (rangeN (N.to_nat H)) ;;
  (* for j in (0..=(Kprime + S - 2)).rev() *)
  (if n <? 2 then Panic POverflow else Ok tt) ;;;
  cols <- hdpc_cols m H (N.to_nat (n - 1)) (n - 2) last_col [last_col] ;;
  let g := transpose_cols (N.to_nat H) cols in
  Ok (map (fun '(i, row) => row ++ map (fun t => if t =? i then 1 else 0) (rangeN (N.to_nat H)))
          (combine (rangeN (N.to_nat H)) g)).

Record sysparams := mkSP { spK : N; spJ : N; spS : N; spH : N; spW : N; spP : N; spP1 : N; spL : N }.

Definition sys_params (K : N) : outcome sysparams :=
  Kp <- extended_source_block_symbols K ;;
  S <- num_ldpc_symbols K ;;
  H <- num_hdpc_symbols K ;;
  W <- num_lt_symbols K ;;
  P <- num_pi_symbols K ;;
  L <- num_intermediate_symbols K ;;
  J <- systematic_index Kp ;;
  P1 <- calculate_p1 Kp ;;
  Ok (mkSP Kp J S H W P P1 L).

(* pub fn generate_constraint_matrix<T>(source_block_symbols, encoded_symbol_indices) -> (T, DenseOctetMatrix) *)
Definition generate_constraint_matrix (m : mode) (K : N) (isis : list N)
  : outcome (list (list N) * list (list N)) :=
  sp <- sys_params K ;;
  let Kp := spK sp in let J := spJ sp in let Sn := spS sp in let H := spH sp in
  let W := spW sp in let P := spP sp in let P1 := spP1 sp in let L := spL sp in
  let B := W - Sn in
  assert_ok (L <=? Sn + H + N.of_nat (length isis)) ;;;
  let mat := zero_matrix (N.to_nat (Sn + H) + length isis) (N.to_nat L) in
  mat <- set_ldpc Sn B W P mat ;;
  (* lt_symbols etc. are looked up again for Kprime: same table row *)
  W' <- num_lt_symbols Kp ;;
  P' <- num_pi_symbols Kp ;;
  mat <- set_enc m (Sn + H) W' P' P1 J isis mat ;;
  hd <- generate_hdpc_rows m Kp Sn H ;;
  Ok (mat, hd).

(* pub fn generate_constraint_matrix_no_hdpc<T>(source_block_symbols, encoded_symbol_indices) -> T *)
Definition generate_constraint_matrix_no_hdpc (m : mode) (K : N) (isis : list N)
  : outcome (list (list N)) :=
  sp <- sys_params K ;;
  let Kp := spK sp in let J := spJ sp in let Sn := spS sp in let H := spH sp in
  let W := spW sp in let P := spP sp in let P1 := spP1 sp in let L := spL sp in
  let B := W - Sn in
  assert_ok (L <=? Sn + N.of_nat (length isis)) ;;;
  let mat := zero_matrix (N.to_nat Sn + length isis) (N.to_nat L) in
  mat <- set_ldpc Sn B W P mat ;;
  W' <- num_lt_symbols Kp ;;
  P' <- num_pi_symbols Kp ;;
  set_enc m Sn W' P' P1 J isis mat.

(* the matrix the solver works on: the HDPC rows logically replace rows S..S+H *)
Definition full_matrix (S H : N) (bin hdpc : list (list N)) : list (list N) :=
  firstn (N.to_nat S) bin ++ hdpc ++ skipn (N.to_nat (S + H)) bin.
