(* The decoder and the encoder with the REAL solver: the intermediate symbols are obtained, as in
   src/decoder.rs try_pi_decode(_no_hdpc) and src/encoder.rs gen_intermediate_symbols, by running the
   five-phase solver (Model/PiSolver.v) on the constraint matrix and replaying its deferred operation
   list -- which ends with the final Reorder -- on the symbol slab D (Model/Slab.v), then reading the
   L intermediate symbols through the reorder mapping.  Model/Decoder.v and Model/Encoder.v take them
   from the reference elimination `gauss_solve`; Proofs/DecoderPiProofs.v shows both agree.
   DEFINITIONS ONLY.  The decision procedures are generic in the solver (`*_gen`) and instantiated
   twice; the `gauss` instances are the functions of Model/Decoder.v / Model/Encoder.v verbatim. *)
From Coq Require Import NArith List Bool.
From RQ Require Import Base.Outcome Base.Ints Base.ListX Spec.Linear Spec.Layout
  Model.Octet Model.FieldFast Model.SysConst Model.Tuple Model.CMatrix Model.Layout Model.Slab
  Model.Encoder Model.Decoder Model.PiSolver.
Import ListNotations.
Open Scope N_scope.
Open Scope outcome_scope.

(* fused_inverse_mul_symbols(_no_hdpc)(matrix, [hdpc,] symbols, K): run the solver; apply the deferred
   operations and the reorder to the symbols; None when the solver gives up *)
Definition solve_pi (m : mode) (K : N) (no_hdpc : bool) (isis : list N) (T : nat) (D : list (list N))
  : outcome (option (list (list N))) :=
  r <- (if no_hdpc then pi_system_run_no_hdpc m K isis else pi_system_run m K isis) ;;
  match r with
  | None => Ok None
  | Some ops =>
      s <- replay m ops (mkSlab D T None) ;;
      sp <- sys_params K ;;
      C <- slab_read s (N.to_nat (spL sp)) 0 ;;
      Ok (Some C)
  end.

(* a solver for the systems of the decoder: no_hdpc?, the ISIs, the matrix, the right-hand side *)
Definition solver_t := bool -> list N -> list (list N) -> list (list N) -> outcome (option (list (list N))).

Definition gauss_solver (T L : nat) : solver_t :=
  fun _ _ A D => Ok (gauss_solve fmul finv T L A D).
Definition pi_solver (m : mode) (K : N) (T : nat) : solver_t :=
  fun nh isis _ D => solve_pi m K nh isis T D.

(* Model/Decoder.v sbd_try with the solver as a parameter *)
Definition sbd_try_gen (solver : sysparams -> solver_t) (m : mode) (d : sb_decoder)
  : outcome (option (list N) * sb_decoder) :=
  let c := sbd_cfg d in
  let K := sbd_K d in
  let T := N.to_nat (cT c) in
  Kp <- extended_source_block_symbols K ;;
  let set_decoded (b : bool) :=
    mkSBD (sbd_id d) c K (sbd_src d) (sbd_rep d) (sbd_nsrc d) (sbd_esis d) b in
  if lenN (sbd_esis d) <? K then Ok (None, d)
  else if sbd_nsrc d =? K then
    syms <- omapM (fun o => match o with Some s => Ok s | None => Panic PUnwrap end) (sbd_src d) ;;
    r <- block_from_all_source c K syms ;;
    Ok (Some r, set_decoded true)
  else
    sp <- sys_params K ;;
    let npad := Kp - K in
    let isis := map fst (present_sources d) ++ map (fun i => K + i) (rangeN (N.to_nat npad))
                ++ map (fun r => fst r + npad) (sbd_rep d) in
    srcs <- omapM (fun x => check_len T (snd x)) (present_sources d) ;;
    reps <- omapM (fun x => check_len T (snd x)) (sbd_rep d) ;;
    let body := srcs ++ repeat (repeat 0 T) (N.to_nat npad) ++ reps in
    let L := spL sp in
    r3a <- (if L <=? spS sp + lenN isis then
              A <- generate_constraint_matrix_no_hdpc m K isis ;;
              let D := repeat (repeat 0 T) (N.to_nat (spS sp)) ++ body in
              sol <- solver sp true isis A D ;;
              match sol with
              | Some C => r <- sbd_finish m d sp C ;; Ok (Some r)
              | None => Ok None
              end
            else Ok None) ;;
    match r3a with
    | Some r => Ok (Some r, set_decoded true)
    | None =>
        '(bin, hdpc) <- generate_constraint_matrix m K isis ;;
        let A := full_matrix (spS sp) (spH sp) bin hdpc in
        let D := repeat (repeat 0 T) (N.to_nat (spS sp + spH sp)) ++ body in
        sol <- solver sp false isis A D ;;
        match sol with
        | Some C => r <- sbd_finish m d sp C ;; Ok (Some r, set_decoded true)
        | None => Ok (None, set_decoded false)
        end
    end.

Definition sbd_try_ref (m : mode) (d : sb_decoder) :=
  sbd_try_gen (fun sp => gauss_solver (N.to_nat (cT (sbd_cfg d))) (N.to_nat (spL sp))) m d.
Definition sbd_try_pi (m : mode) (d : sb_decoder) :=
  sbd_try_gen (fun _ => pi_solver m (sbd_K d) (N.to_nat (cT (sbd_cfg d)))) m d.

(* SourceBlockDecoder::decode(packets) *)
Definition sbd_decode_pi (m : mode) (d : sb_decoder) (pkts : list ((N * N) * list N))
  : outcome (option (list N) * sb_decoder) :=
  d' <- ofold (fun p d => sbd_add m d p) pkts d ;;
  sbd_try_pi m d'.

(* Decoder::add_new_packet / decode *)
Definition dec_add_pi (m : mode) (d : decoder) (pkt : (N * N) * list N) : outcome decoder :=
  let bn := N.to_nat (fst (fst pkt)) in
  blk <- nth_ok (dec_blocks d) bn ;;
  match blk with
  | Some _ => Ok d
  | None =>
      sd <- nth_ok (dec_sbd d) bn ;;
      '(r, sd') <- sbd_decode_pi m sd [pkt] ;;
      sbds <- list_put (dec_sbd d) bn sd' ;;
      blks <- list_put (dec_blocks d) bn r ;;
      Ok (mkDec (dec_cfg d) sbds blks)
  end.

Definition dec_decode_pi (m : mode) (d : decoder) (pkt : (N * N) * list N)
  : outcome (option (list N) * decoder) :=
  d' <- dec_add_pi m d pkt ;; Ok (dec_result d', d').

(* src/encoder.rs gen_intermediate_symbols: the direct solve with the five-phase solver *)
Definition gen_intermediate_symbols_pi (m : mode) (syms : list (list N)) (T : nat)
  : outcome (list (list N)) :=
  let K := lenN syms in
  sp <- sys_params K ;;
  sol <- solve_pi m K false (rangeN (N.to_nat (spK sp))) T (create_d sp syms T) ;;
  match sol with
  | Some C => Ok C
  | None => Panic PUnwrap
  end.

Definition sbe_new_pi (m : mode) (id : N) (c : cfg) (block : list N) : outcome sb_encoder :=
  syms <- create_symbols c block ;;
  C <- gen_intermediate_symbols_pi m syms (N.to_nat (cT c)) ;;
  Ok (mkSBE id syms C (N.to_nat (cT c))).
