(* Case decoding for the binary-matrix group (C16); see harness/src/bitmat.rs. *)
From Coq Require Import NArith List Bool.
From RQ Require Import Base.Outcome Base.Ints Spec.BitMatrix Model.DenseMatrix Model.SparseMatrix.
Import ListNotations.
Open Scope N_scope.

Fixpoint split_ops (n : nat) (l : list N) : list (list N) :=
  match n with
  | O => []
  | S k => match l with
           | [] => []
           | len :: t => firstn (N.to_nat len) t :: split_ops k (skipn (N.to_nat len) t)
           end
  end.

Definition flat_rows (rows : list (list N)) : list N :=
  flat_map (fun r => N.of_nat (length r) :: r) rows.

(* [h, w, hint, nops, (len, opcode, args...)*] *)
Definition run_bm_dense (fixed : bool) (a : list N) : list N :=
  1 :: flat_rows (dm_run fixed (nth 0 a 0) (nth 1 a 0) (split_ops (N.to_nat (nth 3 a 0)) (skipn 4 a))).

Definition run_bm_spec (a : list N) : list N :=
  1 :: flat_rows (bm_run (nth 0 a 0) (nth 1 a 0) (split_ops (N.to_nat (nth 3 a 0)) (skipn 4 a))).

(* [h, w, hint, nops, ops...] on the sparse model *)
Definition run_bm_sparse (m : mode) (a : list N) : list N :=
  1 :: flat_rows (sm_run m (nth 0 a 0) (nth 1 a 0) (nth 2 a 0) (split_ops (N.to_nat (nth 3 a 0)) (skipn 4 a))).

Definition run_mat (f : N) (a : list N) : list N :=
  match f with
  | 500 => run_bm_dense true a
  | 501 => run_bm_dense false a
  | 502 => run_bm_sparse Release a
  | 503 => run_bm_sparse Checked a
  | 550 => run_bm_spec a
  | _ => [0; 99]
  end.
