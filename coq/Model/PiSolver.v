(* Model of src/pi_solver.rs (with src/graph.rs and the U16ArrayMap / U32VecMap / UndirectedGraph parts
   of src/arraymap.rs): the five-phase inactivation-decoding solver, step by step as `execute`
   performs it, for BOTH build variants:
     mode Checked  = debug_assertions: the X matrix and the *_verify functions exist, every
                     fma_rows is applied from column 0;
     mode Release  = the errata-11 shortcuts: fma_rows is applied from a start column only (cells
                     left of it in the destination row keep their stale value), the fifth phase
                     only records its operations.
   The binary matrix A is a list of rows of 0/1 entries with the iteration orders of the DENSE
   back-end (src/matrix.rs: get_row_iter by increasing column, get_ones_in_column by increasing
   row, query_non_zero_columns by increasing column); `add_assign_rows(dest, src, start_col)` is
   modelled by the interface contract (only cells >= start_col change; the dense back-end happens to
   update the whole row, the sparse one does not -- the cells concerned are never read again).
   Everything that influences which row / column is chosen is mirrored literally: ones_per_row,
   original_degree, ones_histogram, rows_with_single_one (a Vec with push / swap_remove),
   ConnectedComponentGraph (node -> component, merge chains, sizes, component counter).
   The symbols D are not part of the model: the solver never reads them; its result is the list of
   deferred operations.  DEFINITIONS ONLY (Proofs/PiSolver*.v). *)
From Coq Require Import NArith List Bool.
From RQ Require Import Base.Outcome Base.Ints Base.ListX Model.Octet Model.SysConst Model.CMatrix
  Model.Slab.
Import ListNotations.
Open Scope N_scope.
Open Scope outcome_scope.

(* ================= list helpers (indices are machine integers) ================= *)

Definition lenN {A} (l : list A) : N := N.of_nat (length l).
Definition getN {A} (l : list A) (i : N) : outcome A := nth_ok l (N.to_nat i).
Definition putN {A} (l : list A) (i : N) (v : A) : outcome (list A) := list_put l (N.to_nat i) v.
(* slice.swap(i, j) *)
Definition swapN {A} (l : list A) (i j : N) : outcome (list A) :=
  x <- getN l i ;; y <- getN l j ;; l1 <- putN l i y ;; putN l1 j x.
(* l[s..e] (empty when e <= s) *)
Definition subl {A} (l : list A) (s e : N) : list A :=
  firstn (N.to_nat (e - s)) (skipn (N.to_nat s) l).

Fixpoint seqN_from (n : nat) (i : N) : list N :=
  match n with O => [] | S k => i :: seqN_from k (N.succ i) end.
(* s..e *)
Definition seqN (s e : N) : list N := seqN_from (N.to_nat (e - s)) s.

Definition usub (m : mode) (a b : N) : outcome N := sub_w m 64 a b.   (* usize - *)

(* ================= the BinaryMatrix interface on list-of-rows, dense iteration orders ================= *)

Definition bmat := list (list N).

Definition bm_get (A : bmat) (i j : N) : outcome N := r <- getN A i ;; getN r j.

Definition count1 (l : list N) : N := lenN (filter (fun v => v =? 1) l).

(* count_ones(row, start_col, end_col) *)
Definition bm_count_ones (A : bmat) (row s e : N) : outcome N :=
  if e <=? s then Ok 0 else
  r <- getN A row ;;
  if e <=? lenN r then Ok (count1 (subl r s e)) else Panic PIndex.

(* get_row_iter(row, start_col, end_col): (col, value) by increasing col *)
Definition bm_row_iter (A : bmat) (row s e : N) : outcome (list (N * N)) :=
  r <- getN A row ;;
  if (e <=? s) || (e <=? lenN r) then Ok (combine (seqN s e) (subl r s e)) else Panic PIndex.

Fixpoint col_scan (rows : list (list N)) (col : nat) (r : N) : outcome (list N) :=
  match rows with
  | [] => Ok []
  | row :: t =>
      v <- nth_ok row col ;;
      rest <- col_scan t col (N.succ r) ;;
      Ok (if v =? 1 then r :: rest else rest)
  end.

(* get_ones_in_column_into(col, start_row, end_row): rows by increasing row *)
Definition bm_ones_in_col (A : bmat) (col s e : N) : outcome (list N) :=
  if (e <=? s) || (e <=? lenN A) then col_scan (subl A s e) (N.to_nat col) s else Panic PIndex.

(* get_sub_row_as_octets(row, start_col): the bits of the row from start_col on *)
Definition bm_sub_row (A : bmat) (row s : N) : outcome (list N) :=
  r <- getN A row ;;
  if s <=? lenN r then Ok (skipn (N.to_nat s) r) else Panic POverflow.

(* query_non_zero_columns_into(row, start_col) *)
Definition bm_nonzero_cols (A : bmat) (row s : N) : outcome (list N) :=
  r <- getN A row ;;
  Ok (map fst (filter (fun p => negb (snd p =? 0)) (combine (seqN s (lenN r)) (skipn (N.to_nat s) r)))).

Definition bm_swap_rows (A : bmat) (i j : N) : outcome bmat := swapN A i j.

(* swap_columns(i, j, start_row_hint): only rows >= the hint are touched *)
Definition bm_swap_cols (A : bmat) (i j start_row : N) : outcome bmat :=
  t <- omapM (fun r => swapN r i j) (skipn (N.to_nat start_row) A) ;;
  Ok (firstn (N.to_nat start_row) A ++ t).

(* add_assign_rows(dest, src, start_col): cells left of start_col in dest keep their value *)
Definition bm_add_rows (A : bmat) (dest src start_col : N) : outcome bmat :=
  if dest =? src then Panic PAssert else
  rd <- getN A dest ;;
  rs <- getN A src ;;
  let k := N.to_nat start_col in
  putN A dest (firstn k rd ++ map2 N.lxor (skipn k rd) (skipn k rs)).

(* resize(new_height, new_width) *)
Definition bm_resize (A : bmat) (width h w : N) : outcome bmat :=
  if (h <=? lenN A) && (w <=? width) then Ok (map (firstn (N.to_nat w)) (firstn (N.to_nat h) A))
  else Panic PAssert.

(* ================= U16ArrayMap / U32VecMap ================= *)

Definition am_get (off : N) (l : list N) (key : N) : outcome N :=
  if key <? off then Panic POverflow else getN l (key - off).
Definition am_put (off : N) (l : list N) (key v : N) : outcome (list N) :=
  if key <? off then Panic POverflow else putN l (key - off) v.
Definition am_dec (m : mode) (off : N) (l : list N) (key : N) : outcome (list N) :=
  v <- am_get off l key ;; v' <- sub_w m 16 v 1 ;; am_put off l key v'.
Definition am_inc (m : mode) (off : N) (l : list N) (key : N) : outcome (list N) :=
  v <- am_get off l key ;; v' <- add_w m 16 v 1 ;; am_put off l key v'.

(* U32VecMap with offset 0: get beyond the end is 0, updates grow the vector *)
Definition h_get (h : list N) (k : N) : N := nth (N.to_nat k) h 0.
Definition h_grow (h : list N) (k : N) : list N :=
  if k <? lenN h then h else h ++ repeat 0 (N.to_nat (k - lenN h + 1)).
Definition h_inc (m : mode) (h : list N) (k : N) : outcome (list N) :=
  let h := h_grow h k in v <- getN h k ;; v' <- add_w m 32 v 1 ;; putN h k v'.
Definition h_dec (m : mode) (h : list N) (k : N) : outcome (list N) :=
  let h := h_grow h k in v <- getN h k ;; v' <- sub_w m 32 v 1 ;; putN h k v'.

(* ================= src/graph.rs ConnectedComponentGraph ================= *)

Record ccg := mkG {
  g_node : list N;      (* node -> component id, 0 = none; keys 0 .. max_nodes-1 *)
  g_merged : list N;    (* keys 1 .. max_nodes *)
  g_size : list N;      (* keys 1 .. max_nodes *)
  g_num : N }.

Definition g_new (max_nodes : N) : ccg :=
  mkG (repeat 0 (N.to_nat max_nodes)) (map u16 (seqN 1 (1 + max_nodes)))
      (repeat 0 (N.to_nat max_nodes)) 0.

Fixpoint canon_loop (fuel : nat) (merged : list N) (id : N) : outcome N :=
  match fuel with
  | O => Panic PFuel
  | S k => nx <- am_get 1 merged id ;; if nx =? id then Ok id else canon_loop k merged nx
  end.

Definition g_canon (g : ccg) (id : N) : outcome N :=
  if id =? 0 then Ok 0 else canon_loop (S (length (g_merged g))) (g_merged g) id.

Definition g_create (g : ccg) : ccg * N :=
  let n := g_num g + 1 in (mkG (g_node g) (g_merged g) (g_size g) n, u16 n).

Definition g_add_node (m : mode) (g : ccg) (node cc : N) : outcome ccg :=
  assert_ok (cc <=? u16 (g_num g)) ;;;
  v <- getN (g_node g) node ;;
  assert_ok (v =? 0) ;;;
  cn <- g_canon g cc ;;
  nd <- putN (g_node g) node (u16 cn) ;;
  sz <- am_inc m 1 (g_size g) cn ;;
  Ok (mkG nd (g_merged g) sz (g_num g)).

Definition g_swap (g : ccg) (n1 n2 : N) : outcome ccg :=
  nd <- swapN (g_node g) n1 n2 ;; Ok (mkG nd (g_merged g) (g_size g) (g_num g)).

Definition g_contains (g : ccg) (node : N) : outcome bool :=
  v <- getN (g_node g) node ;; Ok (negb (v =? 0)).

Definition g_remove_node (m : mode) (g : ccg) (node : N) : outcome ccg :=
  v <- getN (g_node g) node ;;
  cc <- g_canon g v ;;
  if cc =? 0 then Ok g else
  sz <- am_dec m 1 (g_size g) cc ;;
  nd <- putN (g_node g) node 0 ;;
  Ok (mkG nd (g_merged g) sz (g_num g)).

Fixpoint g_find_node (g : ccg) (target : N) (nodes : list N) : outcome N :=
  match nodes with
  | [] => Panic PUnwrap
  | n :: t =>
      v <- getN (g_node g) n ;;
      cc <- g_canon g v ;;
      if cc =? target then Ok n else g_find_node g target t
  end.

Definition g_largest (g : ccg) (start_node end_node : N) : outcome N :=
  best <- ofold (fun i (acc : N * N) =>
            sz <- am_get 1 (g_size g) i ;;
            Ok (if fst acc <? sz then (sz, i) else acc))
          (seqN 1 (g_num g + 1)) (0, 0) ;;
  assert_ok (negb (snd best =? 0)) ;;;
  g_find_node g (snd best) (seqN start_node end_node).

Definition g_add_edge (m : mode) (g : ccg) (n1 n2 : N) : outcome ccg :=
  v1 <- getN (g_node g) n1 ;; c1 <- g_canon g v1 ;;
  v2 <- getN (g_node g) n2 ;; c2 <- g_canon g v2 ;;
  if (c1 =? 0) && (c2 =? 0) then
    let '(g1, id) := g_create g in
    nd <- putN (g_node g1) n1 id ;;
    nd <- putN nd n2 id ;;
    sz <- am_put 1 (g_size g1) id 2 ;;
    Ok (mkG nd (g_merged g1) sz (g_num g1))
  else if c1 =? 0 then
    sz <- am_inc m 1 (g_size g) c2 ;;
    nd <- putN (g_node g) n1 (u16 c2) ;;
    Ok (mkG nd (g_merged g) sz (g_num g))
  else if c2 =? 0 then
    sz <- am_inc m 1 (g_size g) c1 ;;
    nd <- putN (g_node g) n2 (u16 c1) ;;
    Ok (mkG nd (g_merged g) sz (g_num g))
  else if negb (c1 =? c2) then
    let mt := N.min c1 c2 in
    let mf := N.max c1 c2 in
    ts <- am_get 1 (g_size g) mt ;;
    fs <- am_get 1 (g_size g) mf ;;
    sz <- am_put 1 (g_size g) mf 0 ;;
    sum <- add_w m 16 ts fs ;;
    sz <- am_put 1 sz mt sum ;;
    mg <- am_put 1 (g_merged g) mf (u16 mt) ;;
    Ok (mkG (g_node g) mg sz (g_num g))
  else Ok g.

Definition g_reset (g : ccg) : outcome ccg :=
  r <- ofold (fun i (acc : list N * list N) =>
         sz <- am_put 1 (fst acc) i 0 ;;
         mg <- am_put 1 (snd acc) i (u16 i) ;;
         Ok (sz, mg)) (seqN 1 (g_num g + 1)) (g_size g, g_merged g) ;;
  Ok (mkG (repeat 0 (length (g_node g))) (snd r) (fst r) 0).

(* ================= FirstPhaseRowSelectionStats ================= *)

Record stats := mkSt {
  st_od : list N;        (* original_degree *)
  st_opr : list N;       (* ones_per_row *)
  st_hist : list N;      (* ones_histogram *)
  st_sc : N;             (* start_col *)
  st_ec : N;             (* end_col *)
  st_sr : N;             (* start_row *)
  st_single : list N;    (* rows_with_single_one, in Vec order *)
  st_g : ccg }.

Definition st_set_g (s : stats) (g : ccg) : stats :=
  mkSt (st_od s) (st_opr s) (st_hist s) (st_sc s) (st_ec s) (st_sr s) (st_single s) g.

(* iter().position(|x| *x == row) *)
Fixpoint position (l : list N) (x : N) (k : nat) : option nat :=
  match l with [] => None | y :: t => if y =? x then Some k else position t x (S k) end.

(* Vec::swap_remove(index): the last element takes the place of the removed one *)
Definition swap_remove (l : list N) (k : nat) : list N :=
  match rev l with
  | [] => l
  | lst :: _ =>
      let n := length l in
      if Nat.eqb (S k) n then firstn k l
      else firstn k l ++ lst :: firstn (n - k - 2) (skipn (S k) l)
  end.

Definition single_remove (l : list N) (row : N) : list N :=
  match position l row O with Some k => swap_remove l k | None => l end.

(* the columns of the first two ones of a row between start_col and end_col: assert_eq!(found, 2) *)
Definition two_ones (A : bmat) (row s e : N) : outcome (N * N) :=
  it <- bm_row_iter A row s e ;;
  match map fst (filter (fun p => snd p =? 1) it) with
  | a :: b :: _ => Ok (a, b)
  | _ => Panic PAssert
  end.

Definition st_add_graph_edge (m : mode) (s : stats) (A : bmat) (row sc ec : N) : outcome stats :=
  '(a, b) <- two_ones A row sc ec ;;
  g <- g_add_edge m (st_g s) a b ;;
  Ok (st_set_g s g).

(* UndirectedGraph: edges in insertion order; nodes() = the sorted distinct end points *)
Fixpoint ins_sorted (x : N) (l : list N) : list N :=
  match l with
  | [] => [x]
  | y :: t => if x <? y then x :: l else if x =? y then l else y :: ins_sorted x t
  end.
Definition graph_nodes (edges : list (N * N)) : list N :=
  fold_left (fun acc e => ins_sorted (snd e) (ins_sorted (fst e) acc)) edges [].
(* get_adjacent_nodes: sort_unstable_by_key leaves the order within one node unspecified; the
   connected components computed below do not depend on it *)
Definition graph_adjacent (edges : list (N * N)) (node : N) : list N :=
  flat_map (fun e => (if fst e =? node then [snd e] else []) ++
                     (if snd e =? node then [fst e] else [])) edges.

Definition build_adjacency (s : stats) (A : bmat) (start_row end_row : N) : outcome (list (N * N)) :=
  r <- ofold (fun row (acc : list (N * N)) =>
         o <- getN (st_opr s) row ;;
         if negb (o =? 2) then Ok acc else
         '(a, b) <- two_ones A row (st_sc s) (st_ec s) ;;
         Ok ((u16 a, u16 b) :: acc)) (seqN start_row end_row) [] ;;
  Ok (rev r).

(* while let Some(node) = node_queue.pop() *)
Fixpoint cc_dfs (m : mode) (fuel : nat) (edges : list (N * N)) (g : ccg) (id : N) (stack : list N)
  : outcome ccg :=
  match stack with
  | [] => Ok g
  | node :: rest =>
      match fuel with
      | O => Panic PFuel
      | S k =>
          c <- g_contains g node ;;
          if c then cc_dfs m k edges g id rest else
          g <- g_add_node m g node id ;;
          (* pushes in iteration order; pop takes the last pushed *)
          cc_dfs m k edges g id (rev (graph_adjacent edges node) ++ rest)
      end
  end.

Definition rebuild_cc (m : mode) (s : stats) (A : bmat) (start_row end_row : N) : outcome stats :=
  g <- g_reset (st_g s) ;;
  edges <- build_adjacency s A start_row end_row ;;
  let fuel := S (length (graph_nodes edges) + 4 * length edges) in
  g <- ofold (fun key g =>
         let '(g, id) := g_create g in
         cc_dfs m fuel edges g id [key]) (graph_nodes edges) g ;;
  Ok (st_set_g s g).

Definition st_new (m : mode) (A : bmat) (end_col end_row : N) : outcome stats :=
  r <- ofold (fun row (acc : list N * list N * list N) =>
         let '(opr, hist, single) := acc in
         ones <- bm_count_ones A row 0 end_col ;;
         hist <- h_inc m hist ones ;;
         Ok (u16 ones :: opr, hist, if ones =? 1 then row :: single else single))
       (seqN 0 (lenN A)) ([], [0], []) ;;
  let '(opr, hist, single) := r in
  let opr := rev opr in
  let s := mkSt opr opr hist 0 end_col 0 (rev single) (g_new end_col) in
  rebuild_cc m s A 0 end_row.

Definition st_swap_rows (s : stats) (i j : N) : outcome stats :=
  opr <- swapN (st_opr s) i j ;;
  od <- swapN (st_od s) i j ;;
  let single := map (fun r => if r =? i then j else if r =? j then i else r) (st_single s) in
  Ok (mkSt od opr (st_hist s) (st_sc s) (st_ec s) (st_sr s) single (st_g s)).

Definition st_swap_cols (s : stats) (i j : N) : outcome stats :=
  g <- g_swap (st_g s) i j ;; Ok (st_set_g s g).

Definition st_recompute_row (m : mode) (s : stats) (A : bmat) (row : N) : outcome stats :=
  ones <- bm_count_ones A row (st_sc s) (st_ec s) ;;
  let single := single_remove (st_single s) row in
  let single := if ones =? 1 then single ++ [row] else single in
  old <- getN (st_opr s) row ;;
  hist <- h_dec m (st_hist s) old ;;
  hist <- h_inc m hist ones ;;
  opr <- putN (st_opr s) row (u16 ones) ;;
  let s := mkSt (st_od s) opr hist (st_sc s) (st_ec s) (st_sr s) single (st_g s) in
  if ones =? 2 then st_add_graph_edge m s A row (st_sc s) (st_ec s) else Ok s.

(* the body shared by the two loops of resize over the rows that lose a one *)
Definition st_lose_one (m : mode) (row : N) (acc : list N * list N * list N * list N)
  : outcome (list N * list N * list N * list N) :=
  let '(opr, hist, single, cand) := acc in
  opr <- am_dec m 0 opr row ;;
  ones <- getN opr row ;;
  let single := if ones =? 0 then single_remove single row
                else if ones =? 1 then single ++ [row] else single in
  let cand := if ones =? 2 then cand ++ [row] else cand in
  hist <- h_dec m hist (ones + 1) ;;
  hist <- h_inc m hist ones ;;
  Ok (opr, hist, single, cand).

Definition st_resize (m : mode) (s : stats) (A : bmat)
  (start_row end_row start_col end_col : N) (ones_in_start_col : list N) : outcome stats :=
  assert_ok (end_col <=? st_ec s) ;;;
  sr1 <- usub m start_row 1 ;;
  assert_ok (st_sr s =? sr1) ;;;
  sc1 <- usub m start_col 1 ;;
  assert_ok (st_sc s =? sc1) ;;;
  v <- bm_get A (st_sr s) (st_sc s) ;;
  st0 <- (if v =? 1 then
            let row := st_sr s in
            opr <- am_dec m 0 (st_opr s) row ;;
            ones <- getN opr row ;;
            let single := if ones =? 0 then single_remove (st_single s) row else st_single s in
            hist <- h_dec m (st_hist s) (ones + 1) ;;
            hist <- h_inc m hist ones ;;
            Ok (opr, hist, single)
          else Ok (st_opr s, st_hist s, st_single s)) ;;
  let '(opr, hist, single) := st0 in
  acc <- ofold (st_lose_one m) ones_in_start_col (opr, hist, single, []) ;;
  g <- g_remove_node m (st_g s) sc1 ;;
  r <- ofold (fun col (st : (list N * list N * list N * list N) * ccg) =>
         let '(acc, g) := st in
         rows <- bm_ones_in_col A col (st_sr s) end_row ;;
         acc <- ofold (st_lose_one m) rows acc ;;
         g <- g_remove_node m g col ;;
         Ok (acc, g)) (seqN end_col (st_ec s)) (acc, g) ;;
  let '((opr, hist, single, cand), g) := r in
  let s1 := mkSt (st_od s) opr hist (st_sc s) (st_ec s) (st_sr s) single g in
  s2 <- ofold (fun row s1 =>
          o <- getN (st_opr s1) row ;;
          if o =? 2 then st_add_graph_edge m s1 A row start_col end_col else Ok s1) cand s1 ;;
  Ok (mkSt (st_od s2) (st_opr s2) (st_hist s2) start_col end_col start_row (st_single s2) (st_g s2)).

Fixpoint find_r (h : list N) (ks : list N) : option N :=
  match ks with
  | [] => None
  | k :: t => if 0 <? h_get h k then Some k else find_r h t
  end.

Fixpoint first_with2 (opr : list N) (rows : list N) : outcome N :=
  match rows with
  | [] => Panic PUnreachable
  | row :: t => o <- getN opr row ;; if o =? 2 then Ok row else first_with2 opr t
  end.

Definition graph_substep (s : stats) (A : bmat) (start_row end_row : N) : outcome N :=
  node <- g_largest (st_g s) (st_sc s) (st_ec s) ;;
  rows <- bm_ones_in_col A node start_row end_row ;;
  first_with2 (st_opr s) rows.

(* for row in ..: if degree < chosen_degree { chosen = row } ; chosen.unwrap() *)
Fixpoint od_pick (cands : list (N * N)) (chosen : option N) (deg : N) : outcome N :=
  match cands with
  | [] => match chosen with Some r => Ok r | None => Panic PUnwrap end
  | (row, d) :: t => if d <? deg then od_pick t (Some row) d else od_pick t chosen deg
  end.

Definition original_degree_substep (s : stats) (start_row end_row r : N) : outcome N :=
  if r =? 1 then
    assert_ok (negb (lenN (st_single s) =? 0)) ;;;
    cands <- omapM (fun row => d <- getN (st_od s) row ;; Ok (row, d)) (st_single s) ;;
    od_pick cands None 65535
  else
    (if (end_row <=? start_row) || ((end_row <=? lenN (st_opr s)) && (end_row <=? lenN (st_od s)))
     then Ok tt else Panic PIndex) ;;;
    let rows := combine (seqN start_row end_row)
                  (combine (subl (st_opr s) start_row end_row) (subl (st_od s) start_row end_row)) in
    od_pick (map (fun p => (fst p, snd (snd p))) (filter (fun p => fst (snd p) =? r) rows)) None 65535.

(* first_phase_graph_substep_verify (debug_assertions) *)
Definition graph_substep_verify (s : stats) (start_row end_row : N) : outcome unit :=
  if (end_row <=? start_row) || (end_row <=? lenN (st_opr s))
  then (if existsb (fun o => o =? 2) (subl (st_opr s) start_row end_row) then Ok tt
        else Panic PUnreachable)
  else Panic PIndex.

(* first_phase_selection: None = no row with a one in V *)
Definition first_phase_selection (m : mode) (s : stats) (A : bmat) (start_row end_row : N)
  : outcome (option (N * N)) :=
  match find_r (st_hist s) (seqN 1 (st_ec s - st_sc s + 1)) with
  | None => Ok None
  | Some r =>
      if r =? 2 then
        (match m with Checked => graph_substep_verify s start_row end_row | Release => Ok tt end) ;;;
        row <- graph_substep s A start_row end_row ;; Ok (Some (row, r))
      else
        row <- original_degree_substep s start_row end_row r ;; Ok (Some (row, r))
  end.

(* ================= IntermediateSymbolDecoder ================= *)

Inductive rowop := RAdd (src dest : N) | RSwap (row1 row2 : N).

Record pstate := mkPS {
  ps_A : bmat;                           (* A; A.height() = length, A.width() = ps_W *)
  ps_W : N;
  ps_hd : option (list (list N));        (* A_hdpc_rows *)
  ps_X : bmat;                           (* debug_assertions only (empty in Release) *)
  ps_c : list N;
  ps_d : list N;
  ps_i : N;
  ps_u : N;
  ps_L : N;
  ps_ops : list symbol_op }.             (* deferred_D_ops, most recent first *)

Definition set_A (s : pstate) (A : bmat) : pstate :=
  mkPS A (ps_W s) (ps_hd s) (ps_X s) (ps_c s) (ps_d s) (ps_i s) (ps_u s) (ps_L s) (ps_ops s).
Definition set_hd (s : pstate) (h : option (list (list N))) : pstate :=
  mkPS (ps_A s) (ps_W s) h (ps_X s) (ps_c s) (ps_d s) (ps_i s) (ps_u s) (ps_L s) (ps_ops s).
Definition set_X (s : pstate) (X : bmat) : pstate :=
  mkPS (ps_A s) (ps_W s) (ps_hd s) X (ps_c s) (ps_d s) (ps_i s) (ps_u s) (ps_L s) (ps_ops s).
Definition set_ops (s : pstate) (o : list symbol_op) : pstate :=
  mkPS (ps_A s) (ps_W s) (ps_hd s) (ps_X s) (ps_c s) (ps_d s) (ps_i s) (ps_u s) (ps_L s) o.

Definition ps_height (s : pstate) : N := lenN (ps_A s).
Definition num_hdpc (s : pstate) : N := match ps_hd s with Some h => lenN h | None => 0 end.

(* record_mul_row: assert!(self.A_hdpc_rows.is_none()) *)
Definition record_mul_row (s : pstate) (i beta : N) : outcome pstate :=
  di <- getN (ps_d s) i ;;
  match ps_hd s with
  | Some _ => Panic PAssert
  | None => Ok (set_ops s (SMul di beta :: ps_ops s))
  end.

Definition record_fma_rows (s : pstate) (i iprime beta : N) : outcome pstate :=
  dp <- getN (ps_d s) iprime ;;
  di <- getN (ps_d s) i ;;
  Ok (set_ops s ((if beta =? 1 then SAdd dp di else SFMA dp di beta) :: ps_ops s)).

(* fma_rows(i, iprime, Octet::one(), start_col) = fma_rows_with_pi(.., None, None, start_col) *)
Definition fma_rows (m : mode) (s : pstate) (i iprime start_col : N) : outcome pstate :=
  s <- record_fma_rows s i iprime 1 ;;
  match ps_hd s with
  | Some h =>
      first <- usub m (ps_height s) (lenN h) ;;
      assert_ok (i <? first) ;;;
      if first <=? iprime then Panic PUnwrap
      else A <- bm_add_rows (ps_A s) iprime i start_col ;; Ok (set_A s A)
  | None => A <- bm_add_rows (ps_A s) iprime i start_col ;; Ok (set_A s A)
  end.

(* fused_addassign_mul_scalar_binary: dest[k] ^= scalar where bit k is set
   (debug_assert_ne!(scalar, 0); assert_eq!(lengths)) *)
Definition fma_binary (m : mode) (dest bits : list N) (beta : N) : outcome (list N) :=
  (match m with Checked => assert_ok (negb (beta =? 0)) | Release => Ok tt end) ;;;
  assert_ok (Nat.eqb (length dest) (length bits)) ;;;
  Ok (map2 (fun d b => if b =? 1 then N.lxor d beta else d) dest bits).

(* fma_rows_with_pi(i, iprime, beta, Some(col), Some(pi_octets), 0) *)
Definition fma_rows_with_pi (m : mode) (s : pstate) (i iprime beta col : N) (pi_octets : list N)
  : outcome pstate :=
  s <- record_fma_rows s i iprime beta ;;
  match ps_hd s with
  | Some h =>
      first <- usub m (ps_height s) (lenN h) ;;
      assert_ok (i <? first) ;;;
      if first <=? iprime then
        let hr := iprime - first in
        row <- getN h hr ;;
        row <- (match m with
                | Checked =>
                    mult <- bm_get (ps_A s) i col ;;
                    v <- getN row col ;;
                    (* Octet::fma: value += multiplicand * beta when both are non-zero *)
                    let v' := if negb (mult =? 0) && negb (beta =? 0) then N.lxor v (mulN mult beta)
                              else v in
                    putN row col v'
                | Release => Ok row
                end) ;;
        sc <- usub m (ps_W s) (lenN pi_octets) ;;
        (if sc + lenN pi_octets <=? lenN row then Ok tt else Panic PIndex) ;;;
        seg <- fma_binary m (subl row sc (sc + lenN pi_octets)) pi_octets beta ;;
        let row' := firstn (N.to_nat sc) row ++ seg ++ skipn (N.to_nat (sc + lenN pi_octets)) row in
        h' <- putN h hr row' ;;
        Ok (set_hd s (Some h'))
      else
        assert_ok (beta =? 1) ;;;
        A <- bm_add_rows (ps_A s) iprime i 0 ;; Ok (set_A s A)
  | None =>
      assert_ok (beta =? 1) ;;;
      A <- bm_add_rows (ps_A s) iprime i 0 ;; Ok (set_A s A)
  end.

Definition ps_swap_rows (m : mode) (s : pstate) (i iprime : N) : outcome pstate :=
  (match ps_hd s with
   | Some h =>
       first <- usub m (ps_height s) (lenN h) ;;
       assert_ok (i <? first) ;;; assert_ok (iprime <? first)
   | None => Ok tt
   end) ;;;
  A <- bm_swap_rows (ps_A s) i iprime ;;
  d <- swapN (ps_d s) i iprime ;;
  Ok (mkPS A (ps_W s) (ps_hd s) (ps_X s) (ps_c s) d (ps_i s) (ps_u s) (ps_L s) (ps_ops s)).

Definition ps_swap_cols (s : pstate) (j jprime start_row : N) : outcome pstate :=
  A <- bm_swap_cols (ps_A s) j jprime start_row ;;
  hd <- (match ps_hd s with
         | Some h => h' <- bm_swap_cols h j jprime 0 ;; Ok (Some h')
         | None => Ok None
         end) ;;
  c <- swapN (ps_c s) j jprime ;;
  Ok (mkPS A (ps_W s) hd (ps_X s) c (ps_d s) (ps_i s) (ps_u s) (ps_L s) (ps_ops s)).

(* self.X.<op> under debug_assertions *)
Definition onX (m : mode) (s : pstate) (f : bmat -> outcome bmat) : outcome pstate :=
  match m with
  | Checked => X <- f (ps_X s) ;; Ok (set_X s X)
  | Release => Ok s
  end.

(* IntermediateSymbolDecoder::new / new_no_hdpc (symbols.len() = matrix.height()) *)
Definition ps_new_common (m : mode) (A : bmat) (L Pnum : N) : outcome pstate :=
  let W := lenN (hd [] A) in
  let M := lenN A in
  assert_ok (W <=? M) ;;;
  X <- (match m with
        | Checked => w <- usub m W Pnum ;; bm_resize A W M w
        | Release => Ok []
        end) ;;
  Ok (mkPS A W None X (seqN 0 W) (seqN 0 M) 0 Pnum L []).

Definition ps_new (m : mode) (S H : N) (A : bmat) (hdpc : list (list N)) (L Pnum : N)
  : outcome pstate :=
  s <- ps_new_common m A L Pnum ;;
  s <- ofold (fun i s =>
         hi <- usub m (ps_height s) H ;;
         s <- ps_swap_rows m s (S + i) (hi + i) ;;
         onX m s (fun X => bm_swap_rows X (S + i) (hi + i))) (seqN 0 H) s ;;
  Ok (set_hd s (Some hdpc)).

(* ---- first phase ---- *)

(* while self.A.get(self.i, dest) != Octet::zero() { dest -= 1; } *)
Fixpoint find_dest (m : mode) (fuel : nat) (A : bmat) (i dest : N) : outcome N :=
  match fuel with
  | O => Panic PFuel
  | S k =>
      v <- bm_get A i dest ;;
      if v =? 0 then Ok dest else d' <- usub m dest 1 ;; find_dest m k A i d'
  end.

Definition swap_cols_all (m : mode) (s : pstate) (st : stats) (dest col : N) : outcome (pstate * stats) :=
  s <- ps_swap_cols s dest col (ps_i s) ;;
  st <- st_swap_cols st dest col ;;
  s <- onX m s (fun X => bm_swap_cols X dest col 0) ;;
  Ok (s, st).

(* the loop of first_phase_swap_columns_substep over the snapshot of row i *)
Fixpoint swap_cols_loop (m : mode) (it : list (N * N)) (r : N) (s : pstate) (st : stats)
  (remaining : N) (found_first : bool) : outcome (pstate * stats * N) :=
  match it with
  | [] => Ok (s, st, remaining)
  | (col, value) :: t =>
      if value =? 0 then swap_cols_loop m t r s st remaining found_first else
      wu <- usub m (ps_W s) (ps_u s) ;;
      r1 <- usub m r 1 ;;
      lim <- usub m wu r1 ;;
      if lim <=? col then
        rem <- usub m remaining 1 ;; swap_cols_loop m t r s st rem found_first
      else if col =? ps_i s then
        rem <- usub m remaining 1 ;; swap_cols_loop m t r s st rem true
      else
        dest <- (if negb found_first then Ok (ps_i s)
                 else d0 <- usub m wu 1 ;;
                      find_dest m (S (N.to_nat d0)) (ps_A s) (ps_i s) d0) ;;
        '(s, st) <- swap_cols_all m s st dest col ;;
        rem <- usub m remaining 1 ;;
        if rem =? 0 then Ok (s, st, rem) else swap_cols_loop m t r s st rem true
  end.

Definition first_phase_swap_columns_substep (m : mode) (s : pstate) (st : stats) (r : N)
  : outcome (pstate * stats) :=
  wu <- usub m (ps_W s) (ps_u s) ;;
  it <- bm_row_iter (ps_A s) (ps_i s) (ps_i s) wu ;;
  if r =? 1 then
    match filter (fun p => negb (snd p =? 0)) it with
    | [] => Panic PUnwrap
    | (col, _) :: _ => swap_cols_all m s st (ps_i s) col
    end
  else
    v <- bm_get (ps_A s) (ps_i s) (ps_i s) ;;
    '(s, st, rem) <- swap_cols_loop m it r s st r (v =? 1) ;;
    assert_ok (rem =? 0) ;;;
    Ok (s, st).

Definition is_unit_prefix (k : N) (row : list N) (n : N) : bool :=
  forallb (fun p => snd p =? (if fst p =? k then 1 else 0)) (combine (seqN 0 n) row)
  && (n <=? lenN row).
Definition all_zero (l : list N) : bool := forallb (fun v => v =? 0) l.

(* the rows get_A_value sees: the HDPC rows replace the last rows of A *)
Definition a_values (s : pstate) : list (list N) :=
  match ps_hd s with
  | Some h => firstn (N.to_nat (ps_height s - lenN h)) (ps_A s) ++ h
  | None => ps_A s
  end.

(* first_phase_verify (debug_assertions) *)
Definition first_phase_verify (s : pstate) : outcome unit :=
  let i := ps_i s in
  let wu := ps_W s - ps_u s in
  assert_ok (forallb (fun p => is_unit_prefix (fst p) (snd p) i) (combine (seqN 0 i) (ps_A s))) ;;;
  assert_ok (i <=? ps_height s) ;;;
  assert_ok (forallb (fun row => all_zero (subl row i wu) && (wu <=? lenN row))
               (firstn (N.to_nat i) (a_values s))) ;;;
  assert_ok (forallb (fun row => all_zero (firstn (N.to_nat i) row) && (i <=? lenN row))
               (skipn (N.to_nat i) (a_values s))).

(* the body of `for row in pivot_column_ones` *)
Definition eliminate_row (m : mode) (r temp temp_value row : N) (acc : pstate * stats * list rowop)
  : outcome (pstate * stats * list rowop) :=
  let '(s, st, rops) := acc in
  assert_ok (temp_value =? 1) ;;;
  sc <- (match m with
         | Checked => Ok 0
         | Release => r1 <- usub m r 1 ;; usub m (ps_W s) (ps_u s + r1)
         end) ;;
  s <- fma_rows m s temp row sc ;;
  let rops := RAdd temp row :: rops in
  if r =? 1 then Ok (s, st, rops)
  else st <- st_recompute_row m st (ps_A s) row ;; Ok (s, st, rops).

(* the body of `for row in 0..num_hdpc_rows`: apply to hdpc rows as well, which are stored separately *)
Definition eliminate_hdpc_row (m : mode) (nh temp temp_value : N) (pi_octets : list N) (row : N)
  (s : pstate) : outcome pstate :=
  match ps_hd s with
  | None => Panic PUnwrap
  | Some h =>
      leading <- bm_get h row temp ;;
      if leading =? 0 then Ok s else
      (if temp_value =? 0 then Panic PAssert else Ok tt) ;;;
      let beta := divN leading temp_value in
      hrow <- usub m (ps_height s) nh ;;
      fma_rows_with_pi m s temp (row + hrow) beta temp pi_octets
  end.

Definition eliminate_hdpc (m : mode) (nh temp temp_value r : N) (s : pstate) : outcome pstate :=
  if 0 <? nh then
    scol <- usub m (ps_W s) (ps_u s + r - 1) ;;
    pi_octets <- bm_sub_row (ps_A s) temp scol ;;
    ofold (eliminate_hdpc_row m nh temp temp_value pi_octets) (seqN 0 nh) s
  else Ok s.

(* self.i += 1; self.u += r - 1 *)
Definition advance (s : pstate) (r1 : N) : pstate :=
  mkPS (ps_A s) (ps_W s) (ps_hd s) (ps_X s) (ps_c s) (ps_d s) (ps_i s + 1) (ps_u s + r1) (ps_L s)
       (ps_ops s).

(* one iteration of the while loop of first_phase; None = `r?` returned None *)
Definition first_phase_step (m : mode) (s : pstate) (st : stats) (rops : list rowop)
  : outcome (option (pstate * stats * list rowop)) :=
  let nh := num_hdpc s in
  end_row <- usub m (ps_height s) nh ;;
  sel <- first_phase_selection m st (ps_A s) (ps_i s) end_row ;;
  match sel with
  | None => Ok None
  | Some (chosen_row, r) =>
      assert_ok (ps_i s <=? chosen_row) ;;;
      let temp := ps_i s in
      s <- ps_swap_rows m s temp chosen_row ;;
      s <- onX m s (fun X => bm_swap_rows X temp chosen_row) ;;
      let rops := RSwap temp chosen_row :: rops in
      st <- st_swap_rows st temp chosen_row ;;
      '(s, st) <- first_phase_swap_columns_substep m s st r ;;
      temp_value <- bm_get (ps_A s) temp temp ;;
      pivot_column_ones <- bm_ones_in_col (ps_A s) temp (ps_i s + 1) end_row ;;
      r1 <- usub m r 1 ;;
      wu <- usub m (ps_W s) (ps_u s) ;;
      ec <- usub m wu r1 ;;
      st <- st_resize m st (ps_A s) (ps_i s + 1) end_row (ps_i s + 1) ec pivot_column_ones ;;
      '(s, st, rops) <- ofold (eliminate_row m r temp temp_value) pivot_column_ones (s, st, rops) ;;
      s <- eliminate_hdpc m nh temp temp_value r s ;;
      let s := advance s r1 in
      (match m with Checked => first_phase_verify s | Release => Ok tt end) ;;;
      Ok (Some (s, st, rops))
  end.

Fixpoint first_phase_loop (m : mode) (fuel : nat) (s : pstate) (st : stats) (rops : list rowop)
  : outcome (option (pstate * list rowop)) :=
  if ps_i s + ps_u s <? ps_L s then
    match fuel with
    | O => Panic PFuel
    | S k =>
        r <- first_phase_step m s st rops ;;
        match r with
        | None => Ok None
        | Some (s, st, rops) => first_phase_loop m k s st rops
        end
    end
  else Ok (Some (s, rops)).

(* row_ops.iter().rev().filter_map(..).collect(); row_ops.reverse()
   (rops is given most recent first; the result is in execution order) *)
Fixpoint x_elimination_ops (rops : list rowop) (mapping : list N) (i : N) (acc : list rowop)
  : outcome (list rowop) :=
  match rops with
  | [] => Ok acc
  | RAdd src dest :: t =>
      ms <- getN mapping src ;;
      assert_ok (ms <? i) ;;;
      md <- getN mapping dest ;;
      if md <? i then x_elimination_ops t mapping i (RAdd ms md :: acc)
      else x_elimination_ops t mapping i acc
  | RSwap r1 r2 :: t =>
      mapping <- swapN mapping r1 r2 ;;
      x_elimination_ops t mapping i acc
  end.

Definition first_phase (m : mode) (s : pstate) : outcome (option (pstate * list rowop)) :=
  let nh := num_hdpc s in
  wu <- usub m (ps_W s) (ps_u s) ;;
  end_row <- usub m (ps_height s) nh ;;
  st <- st_new m (ps_A s) wu end_row ;;
  r <- first_phase_loop m (S (N.to_nat (ps_L s))) s st [] ;;
  match r with
  | None => Ok None
  | Some (s, rops) =>
      xo <- x_elimination_ops rops (seqN 0 (ps_height s)) (ps_i s) [] ;;
      Ok (Some (s, xo))
  end.

(* ---- second phase ---- *)

Definition is_identity (A : bmat) (n : N) : bool :=
  forallb (fun p => is_unit_prefix (fst p) (snd p) n) (combine (seqN 0 n) A) && (n <=? lenN A).

(* second_phase_verify (debug_assertions) *)
Definition second_phase_verify (s : pstate) (xo : list rowop) : outcome unit :=
  let i := ps_i s in
  assert_ok (i <=? lenN (ps_X s)) ;;;
  assert_ok (forallb (fun p => all_zero (subl (snd p) (fst p + 1) i) &&
                               ((i <=? fst p + 1) || (i <=? lenN (snd p))))
               (combine (seqN 0 i) (ps_X s))) ;;;
  tempX <- ofold (fun op X =>
             match op with
             | RAdd src dest => bm_add_rows X dest src 0
             | RSwap _ _ => Panic PUnreachable
             end) xo (ps_X s) ;;
  assert_ok (is_identity tempX i).

Definition oct_row_fma (dest src : list N) (scalar : N) : list N :=
  if scalar =? 1 then map2 N.lxor dest src
  else map2 (fun d v => N.lxor d (mulN scalar v)) dest src.

(* the loop `for j in i..submatrix.height()` looking for a non-zero in column i *)
Fixpoint find_pivot (sub : list (list N)) (col : nat) (j : N) : outcome (option N) :=
  match sub with
  | [] => Ok None
  | row :: t => v <- nth_ok row col ;; if v =? 0 then find_pivot t col (N.succ j) else Ok (Some j)
  end.

Definition reduce_column (m : mode) (row_offset : N) (i : N) (acc : pstate * list (list N))
  : outcome (option (pstate * list (list N))) :=
  let '(s, sub) := acc in
  pv <- find_pivot (skipn (N.to_nat i) sub) (N.to_nat i) i ;;
  st1 <- (match pv with
          | Some j =>
              sub <- swapN sub i j ;;
              s <- ps_swap_rows m s (row_offset + i) (j + row_offset) ;;
              Ok (s, sub)
          | None => Ok (s, sub)
          end) ;;
  let '(s, sub) := st1 in
  v <- bm_get sub i i ;;
  if v =? 0 then Ok None else
  st2 <- (if v =? 1 then Ok (s, sub) else
            let inv := divN 1 v in
            row <- getN sub i ;;
            sub <- putN sub i (map (mulN inv) row) ;;
            s <- record_mul_row s (row_offset + i) inv ;;
            Ok (s, sub)) ;;
  let '(s, sub) := st2 in
  prow <- getN sub i ;;
  r <- ofold (fun j (acc : pstate * list (list N)) =>
         let '(s, sub) := acc in
         rowj <- getN sub j ;;
         scalar <- getN rowj i ;;
         if scalar =? 0 then Ok (s, sub) else
         sub <- putN sub j (oct_row_fma rowj prow scalar) ;;
         s <- record_fma_rows s (row_offset + i) (row_offset + j) scalar ;;
         Ok (s, sub)) (seqN (i + 1) (lenN sub)) (s, sub) ;;
  Ok (Some r).

Fixpoint reduce_loop (m : mode) (row_offset : N) (cols : list N) (acc : pstate * list (list N))
  : outcome (option (pstate * list (list N))) :=
  match cols with
  | [] => Ok (Some acc)
  | i :: t =>
      r <- reduce_column m row_offset i acc ;;
      match r with
      | None => Ok None
      | Some acc => reduce_loop m row_offset t acc
      end
  end.

(* record_reduce_to_row_echelon(hdpc_rows, row_offset, col_offset, size) *)
Definition record_reduce_to_row_echelon (m : mode) (s : pstate) (hdpc_rows : list (list N))
  (row_offset col_offset size : N) : outcome (option (pstate * list (list N))) :=
  first <- usub m (ps_height s) (lenN hdpc_rows) ;;
  (if row_offset <=? ps_height s then Ok tt else Panic POverflow) ;;;
  sub <- omapM (fun row =>
           r <- (if row <? first then getN (ps_A s) row else getN hdpc_rows (row - first)) ;;
           if (size =? 0) || (col_offset + size <=? lenN r) then Ok (subl r col_offset (col_offset + size))
           else Panic PIndex) (seqN row_offset (ps_height s)) ;;
  reduce_loop m row_offset (seqN 0 size) (s, sub).

(* backwards_elimination(submatrix, row_offset, col_offset, size) *)
Definition backwards_elimination (s : pstate) (sub : list (list N)) (row_offset col_offset size : N)
  : outcome pstate :=
  s <- ofold (fun i s =>
         ofold (fun j s =>
           scalar <- bm_get sub j i ;;
           if scalar =? 0 then Ok s else record_fma_rows s (row_offset + i) (row_offset + j) scalar)
         (seqN 0 i) s) (rev (seqN 0 size)) s ;;
  A <- ofold (fun row A =>
         r <- getN A row ;;
         (if (size =? 0) || (col_offset + size <=? lenN r) then Ok tt else Panic PIndex) ;;;
         let k := N.to_nat col_offset in
         let seg := map (fun col => if row =? col then 1 else 0) (seqN col_offset (col_offset + size)) in
         putN A row (firstn k r ++ seg ++ skipn (k + N.to_nat size) r))
       (seqN row_offset (row_offset + size)) (ps_A s) ;;
  Ok (set_A s A).

Definition second_phase (m : mode) (s : pstate) (xo : list rowop) : outcome (option pstate) :=
  (match m with Checked => second_phase_verify s xo | Release => Ok tt end) ;;;
  s <- onX m s (fun X => bm_resize X (lenN (hd [] X)) (ps_i s) (ps_i s)) ;;
  let temp := ps_i s in
  let size := ps_u s in
  (* self.A_hdpc_rows.take().unwrap_or_else(|| DenseOctetMatrix::new(0, size, 0)) *)
  let hdpc_rows := match ps_hd s with Some h => h | None => [] end in
  let s := set_hd s None in
  r <- record_reduce_to_row_echelon m s hdpc_rows temp temp size ;;
  match r with
  | None => Ok None
  | Some (s, sub) =>
      s <- backwards_elimination s sub temp temp size ;;
      A <- bm_resize (ps_A s) (ps_W s) (ps_L s) (ps_L s) ;;
      Ok (Some (mkPS A (ps_L s) (ps_hd s) (ps_X s) (ps_c s) (ps_d s) (ps_i s) (ps_u s) (ps_L s)
                     (ps_ops s)))
  end.

(* ---- third phase ---- *)

(* third_phase_verify (debug_assertions): A is the identity outside U_upper *)
Definition third_phase_verify (s : pstate) : outcome unit :=
  let wu := ps_W s - ps_u s in
  assert_ok (forallb (fun p =>
               let k := fst p in let row := snd p in
               (lenN row =? ps_W s) &&
               (if k <? ps_i s then is_unit_prefix k row wu else is_unit_prefix k row (ps_W s)))
             (combine (seqN 0 (ps_height s)) (ps_A s))).

(* third_phase_verify_end (debug_assertions): X = A on the first i rows and columns *)
Definition third_phase_verify_end (s : pstate) : outcome unit :=
  let i := ps_i s in
  assert_ok ((i <=? lenN (ps_X s)) && (i <=? ps_height s)) ;;;
  assert_ok (forallb (fun p => (i <=? lenN (fst p)) && (i <=? lenN (snd p)) &&
                               forallb (fun q => fst q =? snd q)
                                       (combine (firstn (N.to_nat i) (fst p)) (firstn (N.to_nat i) (snd p))))
               (combine (firstn (N.to_nat i) (ps_X s)) (firstn (N.to_nat i) (ps_A s)))).

Definition errata11_start (m : mode) (s : pstate) : N :=
  match m with Checked => 0 | Release => ps_i s end.

Definition third_phase (m : mode) (s : pstate) (xo : list rowop) : outcome pstate :=
  (match m with Checked => third_phase_verify s | Release => Ok tt end) ;;;
  s <- ofold (fun op s =>
         match op with
         | RAdd src dest => fma_rows m s src dest (errata11_start m s)
         | RSwap _ _ => Panic PUnreachable
         end) (rev xo) s ;;
  (match m with Checked => third_phase_verify_end s | Release => Ok tt end) ;;;
  Ok s.

(* ---- fourth phase ---- *)

(* fourth_phase_verify (debug_assertions) *)
Definition fourth_phase_verify (s : pstate) : outcome unit :=
  third_phase_verify_end s ;;;
  let i := ps_i s in
  let W := ps_W s in
  let wu := W - ps_u s in
  let hu := ps_height s - ps_u s in
  assert_ok (i <=? ps_height s) ;;;
  assert_ok (forallb (fun row => all_zero (subl row wu W) && ((W <=? wu) || (W <=? lenN row)))
               (firstn (N.to_nat i) (ps_A s))) ;;;
  assert_ok (forallb (fun row => all_zero (firstn (N.to_nat i) row) && (i <=? lenN row))
               (skipn (N.to_nat hu) (ps_A s))) ;;;
  assert_ok (forallb (fun p =>
               forallb (fun q => snd q =? (if fst q =? fst p then 1 else 0))
                       (combine (seqN wu W) (subl (snd p) wu W)) &&
               ((W <=? wu) || (W <=? lenN (snd p))))
             (combine (seqN hu (ps_height s)) (skipn (N.to_nat hu) (ps_A s)))).

Definition fourth_phase (m : mode) (s : pstate) : outcome pstate :=
  s <- ofold (fun i s =>
         cols <- bm_nonzero_cols (ps_A s) i (ps_i s) ;;
         ofold (fun j s => fma_rows m s j i (errata11_start m s)) cols s)
       (seqN 0 (ps_i s)) s ;;
  (match m with Checked => fourth_phase_verify s | Release => Ok tt end) ;;;
  Ok s.

(* ---- fifth phase ---- *)

(* fifth_phase_verify (debug_assertions) *)
Definition fifth_phase_verify (s : pstate) : outcome unit :=
  assert_ok (ps_L s =? ps_height s) ;;;
  (if 0 <? ps_height s then assert_ok (ps_L s =? ps_W s) else Ok tt) ;;;
  assert_ok (forallb (fun r => lenN r =? ps_W s) (ps_A s) && is_identity (ps_A s) (ps_height s)).

Definition fifth_phase (m : mode) (s : pstate) (xo : list rowop) : outcome pstate :=
  s <- ofold (fun op s =>
         match op with
         | RAdd src dest =>
             match m with
             | Checked => fma_rows m s src dest 0
             | Release => record_fma_rows s src dest 1
             end
         | RSwap _ _ => Panic PUnreachable
         end) xo s ;;
  (match m with Checked => fifth_phase_verify s | Release => Ok tt end) ;;;
  Ok s.

(* ---- execute ---- *)

(* index_mapping[c[i]] = d[i] for i in 0..L *)
Definition reorder_of (s : pstate) : outcome (list N) :=
  ofold (fun i im => ci <- getN (ps_c s) i ;; di <- getN (ps_d s) i ;; putN im ci di)
        (seqN 0 (ps_L s)) (repeat 0 (N.to_nat (ps_L s))).

Definition execute (m : mode) (s : pstate) : outcome (option (list symbol_op)) :=
  r <- first_phase m s ;;
  match r with
  | None => Ok None
  | Some (s, xo) =>
      r2 <- second_phase m s xo ;;
      match r2 with
      | None => Ok None
      | Some s =>
          s <- third_phase m s xo ;;
          s <- fourth_phase m s ;;
          s <- fifth_phase m s xo ;;
          ord <- reorder_of s ;;
          Ok (Some (rev (ps_ops s) ++ [SReorder ord]))
      end
  end.

(* fused_inverse_mul_symbols / fused_inverse_mul_symbols_no_hdpc, without the symbols *)
Definition pi_run (m : mode) (S H : N) (A_bin hdpc : list (list N)) (L Pnum : N)
  : outcome (option (list symbol_op)) :=
  s <- ps_new m S H A_bin hdpc L Pnum ;; execute m s.

Definition pi_run_no_hdpc (m : mode) (A_bin : list (list N)) (L Pnum : N)
  : outcome (option (list symbol_op)) :=
  s <- ps_new_common m A_bin L Pnum ;; execute m s.

Definition unpanic {A} (x : outcome (option A)) : option A :=
  match x with Ok r => r | Panic _ => None end.

Definition pi_solve (m : mode) (S H : N) (A_bin hdpc : list (list N)) (L Pnum : N)
  : option (list symbol_op) := unpanic (pi_run m S H A_bin hdpc L Pnum).

Definition pi_solve_no_hdpc (m : mode) (A_bin : list (list N)) (L Pnum : N)
  : option (list symbol_op) := unpanic (pi_run_no_hdpc m A_bin L Pnum).

(* ---- the flat plan encoding of Model/CertRun.v ---- *)

Definition flat_op (o : symbol_op) : list N :=
  match o with
  | SAdd d s => [1; d; s]
  | SMul d c => [2; d; c]
  | SFMA d s c => [3; d; s; c]
  | SReorder ord => 4 :: lenN ord :: ord
  end.
Definition flat_ops (ops : list symbol_op) : list N := flat_map flat_op ops.

(* the solver on the decoder-side system of K with the received ISIs *)
Definition pi_system_run (m : mode) (K : N) (isis : list N) : outcome (option (list symbol_op)) :=
  sp <- sys_params K ;;
  '(bin, hdpc) <- generate_constraint_matrix m K isis ;;
  pi_run m (spS sp) (spH sp) bin hdpc (spL sp) (spP sp).

Definition pi_system_run_no_hdpc (m : mode) (K : N) (isis : list N)
  : outcome (option (list symbol_op)) :=
  sp <- sys_params K ;;
  bin <- generate_constraint_matrix_no_hdpc m K isis ;;
  pi_run_no_hdpc m bin (spL sp) (spP sp).

(* SourceBlockEncodingPlan::generate(K): ISIs 0 .. K'-1 *)
Definition pi_plan_run (m : mode) (K : N) : outcome (option (list N)) :=
  sp <- sys_params K ;;
  r <- pi_system_run m K (seqN 0 (spK sp)) ;;
  Ok (match r with Some ops => Some (flat_ops ops) | None => None end).

Definition pi_plan (m : mode) (K : N) : option (list N) := unpanic (pi_plan_run m K).
